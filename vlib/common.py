"""Shared infrastructure for the per-property checks (see DESIGN.md section 5).

A check module (props/cXX.py) exposes   run(ctx) -> None   and reports through ctx:
  ctx.obligation(...)            proof obligations discharged (from the Coq build)
  ctx.count(...)/ctx.sample(...) measured coverage of the correspondence stage
  ctx.violation(...)             a property violation (concrete replay or no-failing-input-found)
  ctx.known_finding(...)         a listed known finding re-confirmed on this run
The driver (./check) writes evidence/<id>.json and turns the result into the exit status.
"""
import hashlib
import json
import os
import random
import subprocess
import sys
import time

VERIF = os.path.dirname(os.path.dirname(os.path.abspath(__file__)))
REPO = os.environ.get("VERIF_REPO", "/repo")
CACHE = os.path.join(VERIF, ".cache")
GUARD = "TEXEL_VERIF"
NCPU = os.cpu_count() or 4


def sh(cmd, cwd=None, timeout=None, env=None, input=None, check=False):
    """Run a command (list or string); return (rc, stdout, stderr)."""
    shell = isinstance(cmd, str)
    e = dict(os.environ)
    if env:
        e.update(env)
    try:
        p = subprocess.run(cmd, shell=shell, cwd=cwd, timeout=timeout, env=e, input=input,
                           stdout=subprocess.PIPE, stderr=subprocess.PIPE, text=True,
                           errors="replace")
    except subprocess.TimeoutExpired as ex:
        out = ex.stdout or ""
        err = ex.stderr or ""
        if isinstance(out, bytes):
            out = out.decode(errors="replace")
        if isinstance(err, bytes):
            err = err.decode(errors="replace")
        return 124, out, err + "\n[timeout after %ss]" % timeout
    if check and p.returncode != 0:
        raise RuntimeError("command failed (%d): %s\n%s\n%s" % (p.returncode, cmd, p.stdout[-4000:], p.stderr[-4000:]))
    return p.returncode, p.stdout, p.stderr


def sha_files(paths, extra=""):
    h = hashlib.sha256()
    h.update(extra.encode())
    for p in sorted(paths):
        h.update(p.encode())
        try:
            with open(p, "rb") as f:
                h.update(f.read())
        except OSError:
            h.update(b"<missing>")
    return h.hexdigest()[:20]


class KnownFindings:
    """findings/known_findings.txt: lines
         known: property=<id> key=<matcher> <what fails>
         fixed: property=<id> <commit> <what failed>
       A `known:` entry suppresses exactly the violations whose key equals its key.  `fixed:`
       entries suppress nothing.  The file is never written at run time."""

    def __init__(self):
        self.known = []
        paths = [os.path.join(VERIF, "findings", "known_findings.txt")]
        if os.environ.get("VERIF_KNOWN_EXTRA"):      # development aid only (proposed entries)
            paths.append(os.environ["VERIF_KNOWN_EXTRA"])
        for path in paths:
            if not os.path.exists(path):
                continue
            for line in open(path):
                line = line.strip()
                if not line or line.startswith("#"):
                    continue
                if line.startswith("known:"):
                    toks = line[len("known:"):].split()
                    d = {}
                    rest = []
                    for t in toks:
                        if "=" in t and t.split("=", 1)[0] in ("property", "key") and t.split("=", 1)[0] not in d:
                            k, v = t.split("=", 1)
                            d[k] = v
                        else:
                            rest.append(t)
                    d["what"] = " ".join(rest)
                    self.known.append(d)

    def match(self, prop, key):
        for d in self.known:
            if d.get("property") == prop and d.get("key") == key:
                return d
        return None

    def for_property(self, prop):
        return [d for d in self.known if d.get("property") == prop]


class Ctx:
    def __init__(self, prop, tier, seed):
        self.prop = prop
        self.tier = tier
        self.seed = seed
        self.rng = random.Random(seed)
        self.t0 = time.time()
        self.level = "proof"
        self.obligations = []        # (name, file, discharged:bool)
        self.assumptions_seen = {}   # theorem -> list of axioms
        self.counts = {}
        self.samples = []
        self.nontrivial_keys = set()
        self.evaluations = 0
        self.traces_validated = 0
        self.rule = ""
        self.violations = []
        self.known_hits = []
        self.trusted_base = []
        self.assumptions = []
        self.checker_cmd = ""
        self.notes = {}
        self.kf = KnownFindings()
        self.exhaustive = False
        self.log_lines = []

    # ---- logging ----
    def log(self, msg):
        line = "[%s %6.1fs] %s" % (self.prop, time.time() - self.t0, msg)
        print(line, flush=True)
        self.log_lines.append(line)

    @property
    def quick(self):
        return self.tier == "quick"

    def scale(self, quick, thorough):
        return quick if self.quick else thorough

    # ---- coverage ----
    def count(self, key, n=1):
        self.counts[key] = self.counts.get(key, 0) + n

    def evaluated(self, n=1):
        self.evaluations += n

    def nontrivial(self, key):
        """Register a case that is non-trivial by the check's rule; counted distinct by key."""
        self.nontrivial_keys.add(key if isinstance(key, (str, int, tuple)) else json.dumps(key, sort_keys=True))

    def sample(self, obj, limit=6):
        if len(self.samples) < limit:
            self.samples.append(obj)

    def obligation(self, name, where, discharged=True):
        self.obligations.append((name, where, bool(discharged)))

    # ---- violations ----
    def violation(self, what, replay, key=None, no_failing_input=False):
        """Report a violation.  `replay` is a JSON-serialisable object describing the failing
        input/history (or the broken theorem/correspondence when no failing input was found).
        `key` identifies the concrete failing input for matching against known findings."""
        if key is not None:
            hit = self.kf.match(self.prop, key)
            if hit is not None:
                self.known_finding(key, hit.get("what") or what)
                return
        os.makedirs(os.path.join(VERIF, "replays"), exist_ok=True)
        n = len(self.violations)
        path = os.path.join(VERIF, "replays", "%s-%d-%d.json" % (self.prop, self.seed, n))
        body = {"property": self.prop, "what": what, "key": key, "seed": self.seed, "tier": self.tier,
                "no_failing_input_found": bool(no_failing_input), "replay": replay}
        with open(path, "w") as f:
            json.dump(body, f, indent=1, default=str)
        self.violations.append((what, path, no_failing_input))
        self.log("violation: %s -> %s" % (what, path))

    def known_finding(self, key, what):
        if key not in [k for k, _ in self.known_hits]:
            self.known_hits.append((key, what))

    # ---- finish ----
    def finish(self):
        wall = time.time() - self.t0
        nob = len(self.obligations)
        ndis = sum(1 for o in self.obligations if o[2])
        cov = {
            "obligations": nob,
            "discharged": ndis,
            "checker_cmd": self.checker_cmd or "make -C coq Properties_%s.vo (coqc 8.16.1, full .vo build)" % self.prop,
            "trusted_base": self.trusted_base,
            "obligation_list": [{"theorem": o[0], "file": o[1], "discharged": o[2]} for o in self.obligations],
            "axioms_per_theorem": self.assumptions_seen,
            "evaluations": self.evaluations,
            "distinct_nontrivial": len(self.nontrivial_keys),
            "rule": self.rule,
            "samples": self.samples if self.samples else ["(no correspondence samples on this run)"],
            "traces_validated_against_impl": self.traces_validated,
            "counts": self.counts,
            "exhaustive": self.exhaustive,
            "known_findings_confirmed": [{"key": k, "what": w} for k, w in self.known_hits],
        }
        cov.update(self.notes)
        ev = {
            "property_id": self.prop,
            "tier": self.tier,
            "seed": self.seed,
            "level": self.level,
            "coverage": cov,
            "assumptions": self.assumptions,
            "wall_s": round(wall, 2),
            "violations": len(self.violations),
        }
        # runs against a scratch tree (VERIF_REPO set: mutation testing) must not overwrite the
        # evidence of /repo itself
        evdir = os.path.join(VERIF, "evidence") if REPO == "/repo" else os.path.join(CACHE, "evidence-scratch")
        os.makedirs(evdir, exist_ok=True)
        with open(os.path.join(evdir, "%s.json" % self.prop), "w") as f:
            json.dump(ev, f, indent=1, default=str)
        for key, what in self.known_hits:
            print("KNOWN-FINDING: property=%s %s [key=%s]" % (self.prop, what, key), flush=True)
        for what, path, nfi in self.violations:
            print("VIOLATION property=%s replay=%s%s" % (self.prop, path, " no-failing-input-found" if nfi else ""), flush=True)
        self.log("done: %d/%d obligations, %d evaluations, %d violations, %d known findings, %.1fs" %
                 (ndis, nob, self.evaluations, len(self.violations), len(self.known_hits), wall))
        return 1 if self.violations else 0
