"""Build /repo's sources (current working tree) and the C++ harnesses, cached by content hash.

Everything is compiled with g++ directly (no cmake) into /verif/.cache/cxx/<hash>/ .  The hash
covers every source and header of the libraries compiled plus the flags, so an edited /repo
file always triggers a rebuild: checks rebuild from the current working tree.
"""
import glob
import os
import shutil
import time
from concurrent.futures import ThreadPoolExecutor

from .common import CACHE, GUARD, NCPU, REPO, VERIF, sh, sha_files

TL = os.path.join(REPO, "lib", "texellib")
UL = os.path.join(REPO, "lib", "texelutillib")
APP = os.path.join(REPO, "app", "texel")

INC_TL = [TL] + [os.path.join(TL, d) for d in ("book", "debug", "hw", "nn", "tb", "util")]
INC_TL_PRIV = [os.path.join(TL, d) for d in ("tb/gtb/sysport", "tb/gtb/compression", "tb/gtb/compression/lzma")]
INC_UL = [UL, os.path.join(UL, "pg")]

BASE_FLAGS = ["-std=c++11", "-O1", "-g0", "-DHAS_RT", "-D" + GUARD, "-w", "-pthread"]


def _all_sources(root):
    out = []
    for dp, dn, fn in os.walk(root):
        for f in fn:
            if f.endswith((".cpp", ".hpp", ".c", ".h", ".in")):
                out.append(os.path.join(dp, f))
    return out


def _purge_old():
    """Remove cache entries that are old AND beyond a per-kind count (never young ones:
    concurrently running checks may be about to use them)."""
    d = os.path.join(CACHE, "cxx")
    if not os.path.isdir(d):
        return
    keep = {"lib": 10, "h": 80, "engine": 30, "nnd": 30}
    now = time.time()
    bykind = {}
    for e in os.listdir(d):
        if e.endswith(".lock"):
            continue
        try:
            bykind.setdefault(e.split("-")[0], []).append((os.path.getmtime(os.path.join(d, e)), e))
        except OSError:
            pass
    for kind, ents in bykind.items():
        ents.sort()
        for mt, e in ents[:-keep.get(kind, 20)]:
            if now - mt > 3 * 3600:
                shutil.rmtree(os.path.join(d, e), ignore_errors=True)


class _dir_lock:
    """Per-target lock: two checks needing the same cache entry build it once."""

    def __init__(self, d):
        self.path = d.rstrip("/") + ".lock"

    def __enter__(self):
        import fcntl
        os.makedirs(os.path.dirname(self.path), exist_ok=True)
        self.f = open(self.path, "w")
        fcntl.flock(self.f, fcntl.LOCK_EX)
        return self

    def __exit__(self, *a):
        import fcntl
        fcntl.flock(self.f, fcntl.LOCK_UN)
        self.f.close()


def _compile_many(jobs):
    """jobs: list of (cmd list, out path). Returns list of error strings."""
    errs = []

    def one(job):
        cmd, out = job
        rc, so, se = sh(cmd, timeout=900)
        if rc != 0:
            return "%s\n%s" % (" ".join(cmd), se[-3000:])
        return None
    with ThreadPoolExecutor(max_workers=NCPU) as ex:
        for r in ex.map(one, jobs):
            if r:
                errs.append(r)
    return errs


class BuildError(Exception):
    pass


def build_libs(extra_flags=(), with_util=True, tag=""):
    """Compile texellib (+texelutillib) from the current /repo tree.
    Returns dict(dir=..., libs=[...], inc=[...], flags=[...])."""
    flags = BASE_FLAGS + list(extra_flags)
    srcs = _all_sources(TL) + (_all_sources(UL) if with_util else [])
    h = sha_files(srcs, extra=" ".join(flags) + tag + str(with_util))
    d = os.path.join(CACHE, "cxx", "lib-" + h)
    ok = os.path.join(d, "OK")
    inc = INC_TL + (INC_UL if with_util else [])
    res = dict(dir=d, inc=inc, flags=flags,
               libs=[os.path.join(d, "libtexelutillib.a"), os.path.join(d, "libtexellib.a")] if with_util
               else [os.path.join(d, "libtexellib.a")], hash=h)
    if os.path.exists(ok):
        os.utime(d, None)
        return res
    with _dir_lock(d):
        if os.path.exists(ok):
            return res
        _build_libs_locked(d, ok, flags, inc, with_util)
    return res


def _build_libs_locked(d, ok, flags, inc, with_util):
    _purge_old()
    shutil.rmtree(d, ignore_errors=True)
    os.makedirs(os.path.join(d, "o1"))
    os.makedirs(os.path.join(d, "o2"))
    incflags = ["-I" + i for i in inc + INC_TL_PRIV]
    jobs = []
    objs1, objs2 = [], []
    for s in _all_sources(TL):
        if s.endswith("incbin.c"):
            continue
        if s.endswith(".cpp"):
            o = os.path.join(d, "o1", s.replace("/", "_") + ".o")
            jobs.append((["g++"] + flags + incflags + ["-c", s, "-o", o], o))
            objs1.append(o)
        elif s.endswith(".c"):
            o = os.path.join(d, "o1", s.replace("/", "_") + ".o")
            jobs.append((["gcc", "-O1", "-g0", "-w"] + incflags + ["-c", s, "-o", o], o))
            objs1.append(o)
    if with_util:
        for s in _all_sources(UL):
            if s.endswith(".cpp"):
                o = os.path.join(d, "o2", s.replace("/", "_") + ".o")
                jobs.append((["g++"] + flags + incflags + ["-c", s, "-o", o], o))
                objs2.append(o)
    errs = _compile_many(jobs)
    if errs:
        raise BuildError("compiling /repo failed:\n" + "\n".join(errs[:3]))
    sh(["ar", "rcs", os.path.join(d, "libtexellib.a")] + objs1, check=True)
    if with_util:
        sh(["ar", "rcs", os.path.join(d, "libtexelutillib.a")] + objs2, check=True)
    shutil.rmtree(os.path.join(d, "o1"), ignore_errors=True)
    shutil.rmtree(os.path.join(d, "o2"), ignore_errors=True)
    open(ok, "w").write(str(time.time()))


def nndata_obj(netfile=None):
    """Object file embedding a network file (default: the tree's own, empty, nndata.tbin.compr)."""
    net = netfile or os.path.join(REPO, "nndata.tbin.compr")
    h = sha_files([net, os.path.join(TL, "nn", "incbin.h")])
    d = os.path.join(CACHE, "cxx", "nnd-" + h)
    o = os.path.join(d, "nndata.o")
    if os.path.exists(o):
        os.utime(d, None)
        return o
    with _dir_lock(d):
        if os.path.exists(o):
            return o
        _nndata_locked(d, o, net)
    return o


def _nndata_locked(d, o, net):
    os.makedirs(d, exist_ok=True)
    # the embedded file must stay readable only at compile time: copy it next to the object
    netcopy = os.path.join(d, "net.compr")
    shutil.copy(net, netcopy)
    src = os.path.join(d, "nndata.cpp")
    with open(src, "w") as f:
        f.write('#include "incbin.h"\nINCBIN(NNData, "%s");\n' % netcopy)
    sh(["g++", "-std=c++11", "-O1", "-w", "-I" + os.path.join(TL, "nn"), "-c", src, "-o", o + ".tmp"], check=True, timeout=600)
    os.rename(o + ".tmp", o)


def make_net(kind="material", seed=1):
    """Synthetic evaluation network file built with /repo's own NetData::save + Lzma86_Encode."""
    exe = build_harness("mknet", with_util=False, priv_inc=True)
    d = os.path.join(os.path.dirname(exe), "nets")
    os.makedirs(d, exist_ok=True)
    out = os.path.join(d, "%s-%d.compr" % (kind, seed))
    if not os.path.exists(out):
        with _dir_lock(out):
            if not os.path.exists(out):
                tmp = out + ".tmp%d" % os.getpid()
                sh([exe, kind, str(seed), tmp], check=True, timeout=600)
                os.rename(tmp, out)
    return out


def build_engine(net_kind="material", net_seed=1, extra_flags=(), lib_flags=(), defines=()):
    """The UCI engine binary (app/texel) from the current /repo tree with a synthetic net."""
    net = make_net(net_kind, net_seed)
    libs = build_libs(extra_flags=lib_flags, with_util=False)
    srcs = [os.path.join(APP, f) for f in ("enginecontrol.cpp", "texel.cpp", "tuigame.cpp", "uciprotocol.cpp")]
    h = sha_files(_all_sources(APP) + [net], extra=libs["hash"] + " ".join(extra_flags) + " ".join(defines))
    d = os.path.join(CACHE, "cxx", "engine-" + h)
    exe = os.path.join(d, "texel")
    if os.path.exists(exe):
        os.utime(d, None)
        return exe
    with _dir_lock(d):
        if os.path.exists(exe):
            return exe
        _build_engine_locked(d, exe, libs, srcs, net, extra_flags, defines)
    return exe


def _build_engine_locked(d, exe, libs, srcs, net, extra_flags, defines):
    os.makedirs(d, exist_ok=True)
    incflags = ["-I" + i for i in libs["inc"] + [APP]]
    objs = []
    jobs = []
    for s in srcs:
        o = os.path.join(d, os.path.basename(s) + ".o")
        jobs.append((["g++"] + libs["flags"] + list(extra_flags) + ["-D" + x for x in defines] + incflags + ["-c", s, "-o", o], o))
        objs.append(o)
    errs = _compile_many(jobs)
    if errs:
        shutil.rmtree(d, ignore_errors=True)
        raise BuildError("compiling app/texel failed:\n" + "\n".join(errs[:3]))
    cmd = ["g++"] + libs["flags"] + list(extra_flags) + objs + [nndata_obj(net)] + libs["libs"] + ["-lpthread", "-lrt", "-o", exe + ".tmp"]
    rc, so, se = sh(cmd, timeout=900)
    if rc != 0:
        shutil.rmtree(d, ignore_errors=True)
        raise BuildError("linking engine failed:\n" + se[-3000:])
    os.rename(exe + ".tmp", exe)


def build_harness(name, extra_flags=(), lib_flags=(), with_util=True, netfile=None, extra_srcs=(), defines=(), priv_inc=False):
    """Compile /verif/harness/<name>.cpp against the current /repo tree; return exe path."""
    libs = build_libs(extra_flags=lib_flags, with_util=with_util)
    src = os.path.join(VERIF, "harness", name + ".cpp")
    hdrs = glob.glob(os.path.join(VERIF, "harness", "*.hpp"))
    xs = [os.path.join(REPO, s) if not os.path.isabs(s) else s for s in extra_srcs]
    h = sha_files([src] + hdrs + xs + _all_sources(APP) + ([netfile] if netfile else []),
                  extra=libs["hash"] + " ".join(extra_flags) + " ".join(defines))
    d = os.path.join(CACHE, "cxx", "h-%s-%s" % (name, h))
    exe = os.path.join(d, name)
    if os.path.exists(exe):
        os.utime(d, None)
        return exe
    with _dir_lock(d):
        if os.path.exists(exe):
            return exe
        _build_harness_locked(d, exe, name, src, xs, libs, extra_flags, defines, priv_inc, netfile)
    return exe


def _build_harness_locked(d, exe, name, src, xs, libs, extra_flags, defines, priv_inc, netfile):
    os.makedirs(d, exist_ok=True)
    incflags = ["-I" + i for i in libs["inc"] + [os.path.join(VERIF, "harness"), APP] + (INC_TL_PRIV if priv_inc else [])]
    cmd = (["g++"] + libs["flags"] + list(extra_flags) + ["-D" + x for x in defines] + incflags +
           [src] + xs + [nndata_obj(netfile), "-o", exe + ".tmp"] + libs["libs"] + ["-lpthread", "-lrt"])
    rc, so, se = sh(cmd, timeout=900)
    if rc != 0:
        shutil.rmtree(d, ignore_errors=True)
        raise BuildError("building harness %s failed:\n%s" % (name, se[-4000:]))
    os.rename(exe + ".tmp", exe)
