"""Coq side: project generation, full .vo builds under timeout, Print Assumptions gate,
forbidden-word gate, extraction and OCaml driver builds."""
import os
import re
import shutil

from .common import CACHE, NCPU, VERIF, sh, sha_files

COQ = os.path.join(VERIF, "coq")
LOGICAL = "Texel"

# Axioms of the standard library that a property may rely on, if its check lists them
# (DESIGN.md section 7).  Anything else reported by Print Assumptions fails the gate.
STDLIB_AXIOMS_OK = {
    "Coq.Logic.FunctionalExtensionality.functional_extensionality_dep",
    "functional_extensionality_dep",
    "Coq.Logic.Classical_Prop.classic", "classic",
    "Coq.Logic.ProofIrrelevance.proof_irrelevance", "proof_irrelevance",
    "Eqdep.Eq_rect_eq.eq_rect_eq", "eq_rect_eq", "JMeq_eq",
}

FORBIDDEN = re.compile(
    r"\b(Admitted|admit|Axiom|Axioms|Parameter|Parameters|Conjecture|Conjectures|Admit Obligations)\b"
    r"|Unset\s+Guard|Unset\s+Positivity|Unset\s+Universe\s+Checking|bypass_check|type-in-type|impredicative-set"
    r"|native_compute")


class coq_lock:
    """Serialises Coq builds in /verif/coq across concurrently running checks."""

    def __enter__(self):
        import fcntl
        os.makedirs(CACHE, exist_ok=True)
        self.f = open(os.path.join(CACHE, "coq.lock"), "w")
        fcntl.flock(self.f, fcntl.LOCK_EX)
        return self

    def __exit__(self, *a):
        import fcntl
        fcntl.flock(self.f, fcntl.LOCK_UN)
        self.f.close()


def v_files(include_gen=True):
    out = []
    for dp, dn, fn in os.walk(COQ):
        rel = os.path.relpath(dp, COQ)
        if rel.startswith("Extract") or rel.startswith("extracted") or rel.startswith("scratch"):
            continue
        if not include_gen and rel.startswith("gen"):
            continue
        for f in fn:
            if f.endswith(".v"):
                out.append(os.path.normpath(os.path.join(rel, f)))
    return sorted(out)


def strip_comments(txt):
    out = []
    depth = 0
    i = 0
    n = len(txt)
    while i < n:
        if txt.startswith("(*", i):
            depth += 1
            i += 2
        elif txt.startswith("*)", i) and depth > 0:
            depth -= 1
            i += 2
        else:
            if depth == 0:
                out.append(txt[i])
            elif txt[i] == "\n":
                out.append("\n")
            i += 1
    return "".join(out)


def deps_of(vfile, seen=None):
    """Transitive closure of the project files a .v file requires (by parsing Require sentences)."""
    seen = set() if seen is None else seen
    vfile = os.path.normpath(vfile)
    if vfile in seen or not os.path.exists(os.path.join(COQ, vfile)):
        return seen
    seen.add(vfile)
    txt = strip_comments(open(os.path.join(COQ, vfile)).read())
    for sent in re.split(r"\.(?:\s+|$)", txt):
        m = re.match(r"^\s*(?:From\s+(\w+)\s+)?Require\s+(?:Import\s+|Export\s+)?(.*)$", sent, re.S)
        if not m:
            continue
        frm = m.group(1)
        for name in m.group(2).split():
            parts = name.split(".")
            if frm == LOGICAL:
                pass
            elif frm is None and parts[0] == LOGICAL:
                parts = parts[1:]
            else:
                continue
            deps_of(os.path.join(*parts) + ".v", seen)
    return seen


def forbidden_gate(files=None):
    """Return list of (file, line, word) for forbidden declarations in the development."""
    bad = []
    for f in (files or v_files()):
        p = os.path.join(COQ, f)
        txt = strip_comments(open(p).read())
        # strings may legitimately contain words; they do not occur in this development
        for ln, line in enumerate(txt.split("\n"), 1):
            m = FORBIDDEN.search(line)
            if m:
                bad.append((f, ln, m.group(0)))
            # Variable/Hypothesis outside a section is an axiom: all files here keep them inside
            # `Section`; checked structurally below
        depth = 0
        for ln, line in enumerate(txt.split("\n"), 1):
            s = line.strip()
            if re.match(r"^Section\s+\w+", s):
                depth += 1
            elif re.match(r"^End\s+\w+", s) and depth > 0:
                depth -= 1
            elif depth == 0 and re.match(r"^(Variable|Variables|Hypothesis|Hypotheses|Context)\b", s):
                bad.append((f, ln, "Variable/Hypothesis outside Section"))
    return bad


def write_project():
    files = v_files()
    lines = ["-Q . %s" % LOGICAL, "-arg -w", "-arg -notation-overridden,-deprecated-hint-without-locality,-deprecated-instance-without-locality"]
    lines += files
    txt = "\n".join(lines) + "\n"
    p = os.path.join(COQ, "_CoqProject")
    old = open(p).read() if os.path.exists(p) else None
    if old != txt or not os.path.exists(os.path.join(COQ, "Makefile")):
        open(p, "w").write(txt)
        sh(["coq_makefile", "-f", "_CoqProject", "-o", "Makefile"], cwd=COQ, check=True)
    return files


ERR_RE = re.compile(r'File "([^"]+)", line (\d+), characters [\d-]+:\n(Error:.*?)(?=\nFile "|\nmake|\Z)', re.S)


def make(targets, timeout=1800):
    """Full .vo build of the targets (and dependencies).  Returns (ok, log, errors) where
    errors = list of (file, line, message)."""
    with coq_lock():
        write_project()
        cmd = ["make", "-k", "-j%d" % NCPU] + list(targets)
        rc, so, se = sh(cmd, cwd=COQ, timeout=timeout, env={"TIMED": ""})
    log = so + "\n" + se
    errs = [(m.group(1), int(m.group(2)), m.group(3).strip()[:600]) for m in ERR_RE.finditer(log)]
    if rc == 124:
        errs.append(("(make)", 0, "timeout after %ds" % timeout))
    ok = rc == 0
    return ok, log, errs


def theorems_in(vfile):
    """(name, statement text) of the Theorems in a Properties file and the names given to
    Print Assumptions."""
    txt = strip_comments(open(os.path.join(COQ, vfile)).read())
    thms = re.findall(r"^\s*(?:Theorem|Corollary)\s+(\w+)", txt, re.M)
    pa = re.findall(r"^\s*Print\s+Assumptions\s+(\w+)\s*\.", txt, re.M)
    return thms, pa


def print_assumptions(vfile, timeout=600):
    """Re-run coqc on a Properties file (its dependencies must be built) and parse the
    Print Assumptions blocks.  Returns (ok, {theorem: [axiom names]}, raw output)."""
    thms, pa = theorems_in(vfile)
    with coq_lock():
        rc, so, se = sh(["coqc", "-Q", ".", LOGICAL, "-w", "-notation-overridden", vfile], cwd=COQ, timeout=timeout)
    out = so
    blocks = []
    cur = None
    for line in out.split("\n"):
        if line.startswith("Closed under the global context"):
            if cur is not None:
                blocks.append(cur)
            blocks.append([])
            cur = None
        elif line.startswith("Axioms:"):
            if cur is not None:
                blocks.append(cur)
            cur = []
        elif cur is not None:
            m = re.match(r"^(\S+)\s*:", line)
            if m and not line.startswith(" "):
                cur.append(m.group(1))
    if cur is not None:
        blocks.append(cur)
    res = {}
    for i, name in enumerate(pa):
        res[name] = blocks[i] if i < len(blocks) else ["<no Print Assumptions output>"]
    ok = rc == 0 and len(blocks) == len(pa) and set(thms) <= set(pa)
    return ok, res, out + se


def extract(extract_v, driver_ml, exe_name, timeout=900):
    """coqc coq/Extract/<extract_v> (which must `Extraction "<name>.ml" ...`), then build the
    OCaml driver /verif/drivers/<driver_ml> against it.  Returns exe path."""
    src = os.path.join(COQ, "Extract", extract_v)
    drv = os.path.join(VERIF, "drivers", driver_ml)
    # dependencies of the extraction file must be compiled already (make by the caller)
    vos = []
    for dp, dn, fn in os.walk(COQ):
        for f in fn:
            if f.endswith(".v") and not os.path.relpath(dp, COQ).startswith(("Extract", "extracted", "scratch")):
                vos.append(os.path.join(dp, f))
    h = sha_files([src, drv] + vos)
    d = os.path.join(CACHE, "ml", "%s-%s" % (exe_name, h))
    exe = os.path.join(d, exe_name)
    if os.path.exists(exe):
        os.utime(d, None)
        return exe
    base = os.path.join(CACHE, "ml")
    if os.path.isdir(base):
        import time as _t
        ents = sorted((os.path.getmtime(os.path.join(base, e)), e) for e in os.listdir(base))
        for mt, e in ents[:-80]:
            if _t.time() - mt > 3 * 3600:      # never purge young entries: other checks may be using them
                shutil.rmtree(os.path.join(base, e), ignore_errors=True)
    shutil.rmtree(d, ignore_errors=True)
    os.makedirs(d)
    shutil.copy(src, os.path.join(d, extract_v))
    with coq_lock():
        rc, so, se = sh(["coqc", "-Q", COQ, LOGICAL, "-w", "-extraction", extract_v], cwd=d, timeout=timeout)
    if rc != 0:
        shutil.rmtree(d, ignore_errors=True)
        raise RuntimeError("extraction %s failed:\n%s\n%s" % (extract_v, so[-3000:], se[-3000:]))
    mls = sorted(f for f in os.listdir(d) if f.endswith(".ml"))
    mlis = sorted(f for f in os.listdir(d) if f.endswith(".mli"))
    shutil.copy(drv, os.path.join(d, driver_ml))
    cmd = ["ocamlfind", "ocamlopt", "-O3", "-w", "-a", "-I", d] + mlis + mls + [driver_ml, "-o", exe_name]
    rc, so, se = sh(cmd, cwd=d, timeout=timeout)
    if rc != 0:
        cmd = ["ocamlfind", "ocamlopt", "-w", "-a", "-I", d] + mlis + mls + [driver_ml, "-o", exe_name]
        rc, so, se = sh(cmd, cwd=d, timeout=timeout)
    if rc != 0:
        shutil.rmtree(d, ignore_errors=True)
        raise RuntimeError("ocaml build %s failed:\n%s\n%s" % (driver_ml, so[-3000:], se[-3000:]))
    return exe


def prove(ctx, prop_file, extra_targets=(), allowed_axioms=(), timeout=1800):
    """Stage (2): build the property file, run the gates, register obligations on ctx.
    Returns (ok, info) where info carries errors for the replay when not ok."""
    target = prop_file[:-2] + ".vo"
    bad = forbidden_gate(sorted(deps_of(prop_file)))
    info = {"forbidden": bad, "errors": [], "axioms": {}}
    ok, log, errs = make([target] + [t for t in extra_targets], timeout=timeout)
    info["errors"] = errs
    thms, pa = theorems_in(prop_file)
    if not ok:
        for t in thms:
            ctx.obligation(t, prop_file, discharged=False)
        info["log_tail"] = log[-3000:]
        return False, info
    pok, axioms, raw = print_assumptions(prop_file)
    info["axioms"] = axioms
    allowed = set(allowed_axioms)
    gate_ok = pok and not bad
    for t in thms:
        ax = axioms.get(t, ["<missing Print Assumptions>"])
        illegal = [a for a in ax if a not in allowed]
        ctx.assumptions_seen[t] = ax if ax else ["Closed under the global context"]
        good = not illegal and t in axioms
        ctx.obligation(t, prop_file, discharged=good and not bad)
        if not good:
            gate_ok = False
            info.setdefault("illegal_axioms", {})[t] = illegal
    return gate_ok, info
