(** C16 — reachable positions are never declared illegal; proof games are valid.
    Only statements; every proof is [exact <lemma>] into PG/*.v.

    What is proved here is deliberately limited (DESIGN.md section 6, C16): the static
    piece-count rules and the first rule of the distance heuristic accept every position of
    every legal game (invariants of play over the FIDE specification Chess/Spec.v), and the
    extracted proof-game checker accepts exactly the proof games.  The admissibility of the
    distance heuristic, the kernel search and its pruning rules, blocked squares, deadlocks and
    the last-move analysis are NOT proved: they are searched for counter-examples by
    props/c16.py (random legal games through the real tool).

    Models: PG/PieceCount.v (validatePieceCounts, pieceCountsValid, enoughRemainingPieces; tied
    to proofgame.cpp / revmovegen.cpp by correspondence on random piece placements);
    checker: PG/ProofGameCert.v (specification side only). *)
From Coq Require Import ZArith NArith List Bool.
From Texel Require Import Chess.Types Chess.Spec.
From Texel Require Import PG.ProofGameCert PG.PieceCount PG.PieceCountProofs PG.PieceCountTheorems PG.Kernel PG.KernelProofs.
Import ListNotations.
Local Open Scope Z_scope.

(** the certified checker accepts a move list for a goal iff it is a sequence of legal moves
    from the initial position that ends exactly in the goal (board, side to move, castling
    rights; en-passant square as after TextIO::fixupEPSquare) *)
Theorem C16_proofgame_checker : forall moves goal,
  check_proofgame moves goal = true <-> is_proof_game moves goal.
Proof. exact check_proofgame_correct. Qed.
Print Assumptions C16_proofgame_checker.

(** [reachable] (used below) and [plays] (used by the checker) are the same notion *)
Theorem C16_reachable_iff_played : forall sp,
  reachable sp <-> exists moves, plays start_spos moves sp.
Proof. exact reachable_iff_played. Qed.
Print Assumptions C16_reachable_iff_played.

(** how one legal move changes the number of pieces of each type: nothing of the side that
    did not move increases; for the mover either nothing increases or one pawn disappears and
    one queen/rook/bishop/knight may appear *)
Theorem C16_move_count_effect : forall sp m,
  length (sp_board sp) = 64%nat -> legal_spec sp m ->
  let b := sp_board sp in let b' := sp_board (make_spec sp m) in let w := sp_white sp in
  length b' = 64%nat /\
  (forall k, cnt b' (mk_piece (negb w) k) <= cnt b (mk_piece (negb w) k)) /\
  ((forall k, cnt b' (mk_piece w k) <= cnt b (mk_piece w k)) \/
   (exists pk, In pk [Queen; Rook; Bishop; Knight] /\
      cnt b' (mk_piece w Pawn) + 1 <= cnt b (mk_piece w Pawn) /\
      cnt b' (mk_piece w pk) <= cnt b (mk_piece w pk) + 1 /\
      forall k, k <> pk -> cnt b' (mk_piece w k) <= cnt b (mk_piece w k))).
Proof. exact move_count_effect_legal. Qed.
Print Assumptions C16_move_count_effect.

(** pawns + pieces beyond the initial set <= 8 per side, in every position of every legal game *)
Theorem C16_promotion_budget : forall sp, reachable sp ->
  length (sp_board sp) = 64%nat /\
  promotion_budget_ok (sp_board sp) true /\ promotion_budget_ok (sp_board sp) false.
Proof. exact budget_invariant. Qed.
Print Assumptions C16_promotion_budget.

(** hence ProofGame::validatePieceCounts and RevMoveGen's pieceCountsValid accept every
    reachable position (models of PG/PieceCount.v) *)
Theorem C16_piece_counts : forall sp, reachable sp ->
  validatePieceCounts (sp_board sp) = 0%N /\ pieceCountsValid (sp_board sp) = true.
Proof. exact piece_counts_accepted. Qed.
Print Assumptions C16_piece_counts.

(** the two predicates mean exactly the promotion budget *)
Theorem C16_piece_counts_meaning : forall b,
  (validatePieceCounts b = 0%N <-> promotion_budget_ok b true /\ promotion_budget_ok b false) /\
  (pieceCountsValid b = true <-> promotion_budget_ok b true /\ promotion_budget_ok b false).
Proof. exact piece_counts_meaning. Qed.
Print Assumptions C16_piece_counts_meaning.

(** first rule of the distance heuristic (ProofGame::enoughRemainingPieces, "infinity" when it
    fails): never fails for a reachable position and a goal that can be reached from it *)
Theorem C16_enough_remaining : forall sp moves goal,
  reachable sp -> plays sp moves goal ->
  enoughRemainingPieces (sp_board sp) (sp_board goal) = true.
Proof. exact enough_remaining_accepted. Qed.
Print Assumptions C16_enough_remaining.

(** Kernel abstraction.  [alpha] maps a position to its proof-kernel state (pawn columns in order, piece
    counts with bishops split by square colour: ProofKernel::posToState); [kstep] lists the kernel move
    kinds of proofkernel.hpp (pieceXPiece, pieceXPawn, pawnXPawn, pawnXPiece / pawnXPromPawn,
    pawnXPieceProm / pawnXPromPawnProm) plus the non-capture promotion the search keeps implicit and the
    stutter.  Full statement (not proved): every legal move from a reachable position is a kernel step;
    with it a reachable goal has a kernel path, i.e. "no proof kernel => illegal" is sound for an
    exhaustive kernel search. *)
Definition C16_kernel_abstraction_statement : Prop :=
  forall sp m, reachable sp -> legal_spec sp m ->
    kstep (sp_white sp) (alpha sp) (alpha (make_spec sp m)).

(** proved part: moves of pieces other than pawns, castling excluded - a quiet move leaves the kernel
    state unchanged (a bishop stays on its square colour), a capture of an enemy man (not the king) is
    the kernel move "piece takes piece" / "piece takes pawn" (the pawn leaves its column at the index
    given by the pawns below it).  Missing: pawn moves (pushes, captures, en passant, promotions) and
    castling. *)
Theorem C16_kernel_abstraction_partial : forall sp m k,
  reachable sp -> legal_spec sp m ->
  moved sp m = mk_piece (sp_white sp) k -> k <> Pawn -> ~ is_castling sp m ->
  (at_ (sp_board sp) (file_of (mto m)) (rank_of (mto m)) = EMPTY \/
   exists vk, at_ (sp_board sp) (file_of (mto m)) (rank_of (mto m)) = mk_piece (negb (sp_white sp)) vk /\ vk <> King) ->
  kstep (sp_white sp) (alpha sp) (alpha (make_spec sp m)).
Proof. exact kernel_abstraction_partial_reachable. Qed.
Print Assumptions C16_kernel_abstraction_partial.

(** in particular a quiet move of a piece is a stutter: the kernel state is literally unchanged *)
Theorem C16_quiet_piece_move_stutters : forall sp m k,
  length (sp_board sp) = 64%nat -> legal_spec sp m ->
  moved sp m = mk_piece (sp_white sp) k -> k <> Pawn ->
  at_ (sp_board sp) (file_of (mto m)) (rank_of (mto m)) = EMPTY ->
  ~ (k = King /\ (file_of (mto m) - file_of (mfrom m) = 2 \/ file_of (mto m) - file_of (mfrom m) = -2)) ->
  alpha (make_spec sp m) = alpha sp.
Proof. exact quiet_piece_move_stutters. Qed.
Print Assumptions C16_quiet_piece_move_stutters.
