(** C19 — book-builder graph scores stay at their defined fixed point.
    Only statements; every proof is [exact <lemma>] into BookGraph/*.v.
    Model: BookGraph/BookGraph.v (tied to lib/texelutillib/bookbuild.{hpp,cpp} by the
    correspondence check after every operation of random histories); specification:
    BookGraph/Equations.v (the defining equations as executable checks; the same checker runs on
    the C++ state); constants, negateScore and the record layout: gen/BookConsts.v, regenerated
    from the source on every run. *)
From Coq Require Import ZArith NArith List Bool Permutation.
From Texel Require Import gen.BookConsts BookGraph.NMap BookGraph.BookGraph BookGraph.Equations
  BookGraph.ScoreFacts BookGraph.CodecProofs BookGraph.LocalProofs BookGraph.LinkProofs
  BookGraph.UniqueProofs BookGraph.FixProofs BookGraph.GlobalProofs BookGraph.DepthProofs BookGraph.PathProofs
  BookGraph.FuelProofs BookGraph.ReadProofs BookGraph.BookTheorems.
Import ListNotations.
Local Open Scope Z_scope.

(** after computeNegaMax n the node satisfies its negamax and both expansion-cost equations
    given its children (whatever their values are), nothing else changes *)
Theorem C19_local_equations : forall bd g n,
  costs_nonneg bd -> no_self_child g n ->
  (forall mc, In mc (children g n) -> costs_wf g (snd mc)) ->
  let g' := set_sc g (fst (computeNegaMax bd g (bk_sc g) n)) in
  eq_negamax g' n = true /\ eq_cost bd g' n true = true /\ eq_cost bd g' n false = true /\
  costs_wf g' n /\ (forall q, q <> n -> score_of g' q = score_of g q).
Proof. exact local_equations. Qed.
Print Assumptions C19_local_equations.

(** after computePathError n a non-root node satisfies its path-error equation given its parents
    (values below the INT_MAX sentinel of the C++ loop) *)
Theorem C19_local_patherror : forall g n,
  no_self_parent g n -> n <> bk_root g -> depth g n <> 0 ->
  (forall mp, In mp (parents g n) ->
     s_pew (score_of g (snd mp)) + Z.abs (s_nm (score_of g (snd mp)) - negateScore (s_nm (score_of g n))) < INT_MAX /\
     s_peb (score_of g (snd mp)) + Z.abs (s_nm (score_of g (snd mp)) - negateScore (s_nm (score_of g n))) < INT_MAX) ->
  let g' := set_sc g (fst (fst (computePathError g (bk_sc g) n))) in
  eq_patherr g' n = true /\ (forall q, q <> n -> score_of g' q = score_of g q).
Proof. exact local_patherror. Qed.
Print Assumptions C19_local_patherror.

(** child/parent links are mutually inverse (and are exactly moves of the successor function the
    chess inputs come from) after every operation history, for both variants of updateScores *)
Theorem C19_links_consistent : forall (succ : N -> N -> option N) rq bd root addr ops,
  ops_wf succ rq bd (newBook root addr) ops ->
  let g := run rq bd (newBook root addr) ops in
  (forall n, In n (bk_keys g) -> eq_links g n = true) /\
  (forall p m c, In (m, c) (children g p) <-> In (m, p) (parents g c)) /\
  (forall p m c, In (m, c) (children g p) -> In p (bk_keys g) /\ In c (bk_keys g) /\ succ p m = Some c).
Proof. exact links_consistent. Qed.
Print Assumptions C19_links_consistent.

(** the 16-byte record: layout regenerated from the source; decode (encode x) = x on the ranges
    of the C++ field types, 16 bytes, every byte < 256 *)
Theorem C19_serialize_roundtrip : forall h mv score time,
  (h < U64_BOUND)%N -> (mv < U16_BOUND)%N -> -32768 <= score < 32768 -> (time < U32_BOUND)%N ->
  length (record_of h mv score time) = SERIALIZED_SIZE /\
  Forall (fun b => (b < 256)%N) (record_of h mv score time) /\
  deserialize_fields SERIALIZE_FIELDS (record_of h mv score time) = [Z.of_N h; Z.of_N mv; score; Z.of_N time].
Proof. exact record_roundtrip. Qed.
Print Assumptions C19_serialize_roundtrip.

Theorem C19_serialize_roundtrip_any_layout : forall layout vals rest,
  Forall2 in_range layout vals -> deserialize_fields layout (serialize_fields layout vals ++ rest) = vals.
Proof. exact deserialize_serialize. Qed.
Print Assumptions C19_serialize_roundtrip_any_layout.

(** negateScore (regenerated): involution on ordinary scores, fixed on IGNORE/INVALID, mate
    distance grows by one ply per negation, order reversing *)
Theorem C19_negate_involutive : forall s, -16000 <= s <= 16000 -> negateScore (negateScore s) = s.
Proof. exact negate_involutive_regular. Qed.
Print Assumptions C19_negate_involutive.

Theorem C19_negate_special : forall s, special s -> negateScore s = s.
Proof. exact negate_special. Qed.
Print Assumptions C19_negate_special.

Theorem C19_negate_mate_shift : forall k, 0 <= k -> 16000 < MATE0 - k ->
  negateScore (MATE0 - k) = - (MATE0 - (k + 1)) /\ negateScore (- (MATE0 - k)) = MATE0 - (k + 1).
Proof. intros k H1 H2. split; [exact (negate_win_mate k H1 H2)|exact (negate_lose_mate k H1 H2)]. Qed.
Print Assumptions C19_negate_mate_shift.

Theorem C19_negate_antitone : forall a b, ~ special a -> ~ special b -> a <= b -> negateScore b <= negateScore a.
Proof. exact negate_antitone. Qed.
Print Assumptions C19_negate_antitone.

(** on a finite acyclic graph (rank certificate as validated by the check) the equations have at
    most one solution for given links, search results and pending set *)
Theorem C19_equations_unique : forall bd g1 g2,
  same_static g1 g2 -> dag g1 -> all_equations bd g1 -> all_equations bd g2 ->
  forall n, In n (bk_keys g1) -> depth g1 n = depth g2 n /\ score_of g1 n = score_of g2 n.
Proof. exact equations_unique. Qed.
Print Assumptions C19_equations_unique.

Theorem C19_equations_unique_checked : forall bd g1 g2 rk,
  same_static g1 g2 -> check_rank g1 rk = true -> check_all bd g1 = [] -> check_all bd g2 = [] ->
  forall n, In n (bk_keys g1) -> depth g1 n = depth g2 n /\ score_of g1 n = score_of g2 n.
Proof. exact equations_unique_checked. Qed.
Print Assumptions C19_equations_unique_checked.

(** the executable checker means the equations *)
Theorem C19_checker_sound : forall bd g, check_all bd g = [] <-> all_equations bd g.
Proof. exact check_all_sound. Qed.
Print Assumptions C19_checker_sound.

(** REGRESSION WITNESS.  [C19_fixpoint_statement false] is the global statement for updateScores as
    it was before the fix df196fb (a node whose own negamax score changed was not re-queued for the
    path-error pass); it is false, and the check replays the witness history on the implementation
    on every run: if the implementation shows the stale path error again, that is a VIOLATION.
    The statement for the code as it is now is C19_fixpoint below. *)
Definition C19_fixpoint_statement (requeue : bool) : Prop := fixpoint_statement requeue.

Theorem C19_fixpoint_refuted : ~ C19_fixpoint_statement false.
Proof. exact fixpoint_refuted. Qed.
Print Assumptions C19_fixpoint_refuted.

(** the propagation-order argument (both variants of updateScores): if only the start node and
    its parents may violate their negamax / expansion-cost equations, updateScores(start) makes
    every node satisfy them (acyclic successor relation, fuel not exhausted) *)
Theorem C19_updateScores_propagation : forall (succ : N -> N -> option N) (rk : N -> Z),
  (forall p m c, succ p m = Some c -> rk p < rk c) ->
  forall rq bd g, costs_nonneg bd -> Inv succ g ->
  forall start, In start (bk_keys g) -> wfc (bk_sc g) ->
  (forall q, In q (bk_keys g) -> q <> start -> ~ In q (map snd (parents g start)) -> good bd g (bk_sc g) q) ->
  bk_err (updateScores rq bd g start) = 0%N ->
  wfc (bk_sc (updateScores rq bd g start)) /\
  forall q, In q (bk_keys g) -> good bd g (bk_sc (updateScores rq bd g start)) q.
Proof. exact updateScores_good. Qed.
Print Assumptions C19_updateScores_propagation.

(** updateDepth after a new parent link restores the depth equations everywhere (the relaxation
    argument): if all depth equations hold, the parents have depths, and the model does not run
    out of fuel / hit an assert, they hold again after [link] *)
Theorem C19_link_restores_depth : forall (succ : N -> N -> option N) g p m c,
  Inv succ g -> In p (bk_keys g) -> In c (bk_keys g) -> succ p m = Some c ->
  (forall q, 0 <= depth g q) ->
  (forall x mp, In mp (parents (link g p m c) x) -> depth g (snd mp) < INT_MAX) ->
  DI g -> bk_err (link g p m c) = 0%N -> DI (link g p m c).
Proof. exact link_DI. Qed.
Print Assumptions C19_link_restores_depth.

(** the part of the global statement that is proved, for BOTH variants of updateScores: after
    every history of addPosToBook / setSearchResult / addPending / removePending operations
    (chess inputs from an acyclic successor relation in which the side to move alternates, book
    below 2^31 - 1 nodes, model fuel not exhausted / no assert of the code failing) every node
    satisfies its negamax equation, both expansion-cost equations, the depth equation and the
    link equations (path errors need the re-queueing, see C19_fixpoint_refuted; the full statement
    for the code as it is: C19_fixpoint). *)
Theorem C19_fixpoint_partial : forall (succ : N -> N -> option N) (rk : N -> Z) (wtm : N -> bool),
  (forall p m c, succ p m = Some c -> rk p < rk c) ->
  (forall p m c, succ p m = Some c -> wtm c = negb (wtm p)) ->
  forall rq bd, costs_nonneg bd ->
  forall root addr ops, wtm root = true ->
  ops_ok succ rq bd (newBook root addr) ops ->
  let g := run rq bd (newBook root addr) ops in
  bk_err g = 0%N ->
  forall q, In q (bk_keys g) ->
    eq_negamax g q = true /\ eq_cost bd g q true = true /\ eq_cost bd g q false = true /\
    eq_depth g q = true /\ eq_links g q = true.
Proof. exact fixpoint_partial_depth. Qed.
Print Assumptions C19_fixpoint_partial.

(** what the depth equation means: the stored depth is the length of a shortest path from the
    root along child links (no shorter path exists, one of that length exists) *)
Theorem C19_depth_is_shortest_distance : forall g,
  In (bk_root g) (bk_keys g) ->
  (forall q, In q (bk_keys g) -> eq_depth g q = true /\ eq_links g q = true) ->
  (forall q, 0 <= depth g q) ->
  (forall n k, path g (bk_root g) n k -> depth g n <= Z.of_nat k) /\
  (forall n, In n (bk_keys g) -> depth g n < INT_MAX -> path g (bk_root g) n (Z.to_nat (depth g n))).
Proof. exact depth_shortest. Qed.
Print Assumptions C19_depth_is_shortest_distance.

(** the fuel of the model's recursions suffices on acyclic graphs: no operation of a history can
    end with the error code "fuel exhausted" (so the only ways to leave the modelled fragment
    are a failing assert of the C++ code and a path error reaching INT_MAX) *)
Theorem C19_fuel_suffices : forall (succ : N -> N -> option N) (rk : N -> Z) (wtm : N -> bool),
  (forall p m c, succ p m = Some c -> rk p < rk c) ->
  (forall p m c, succ p m = Some c -> wtm c = negb (wtm p)) ->
  forall rq bd g o, GI succ wtm bd g -> op_ok succ g o ->
  bk_err g <> ERR_FUEL -> bk_err (apply_op rq bd g o) <> ERR_FUEL.
Proof. exact apply_op_nofuel. Qed.
Print Assumptions C19_fuel_suffices.

(** HEADLINE, for the code as it is (requeue = true): after every history of addPosToBook /
    setSearchResult / addPending / removePending / readFromFile operations, every node satisfies
    ALL its defining equations (negamax, both expansion costs, both path errors, depth, links).
    [steps_ok]: the chess inputs of every operation come from one successor relation (acyclic,
    side to move alternates) and are complete for the moves between book nodes; a file that is
    read is a permutation of the records of all nodes; fewer than 2^31 - 2 nodes; hashes / moves /
    times fit their C++ types; and in no step an assert of the C++ code fails or a path error
    reaches INT_MAX (error code < ERR_ASSERT).  No hypothesis about fuel. *)
Theorem C19_fixpoint : forall (succ : N -> N -> option N) (rk : N -> Z) (wtm : N -> bool),
  (forall p m c, succ p m = Some c -> rk p < rk c) ->
  (forall p m c, succ p m = Some c -> wtm c = negb (wtm p)) ->
  forall bd, costs_nonneg bd ->
  forall root addr ops, wtm root = true -> (root < U64_BOUND)%N ->
  steps_ok succ bd (newBook root addr) ops ->
  all_equations bd (run true bd (newBook root addr) ops) /\ bk_err (run true bd (newBook root addr) ops) = 0%N.
Proof. exact fixpoint_reload. Qed.
Print Assumptions C19_fixpoint.

(** the same without reload operations, in the simpler form: one condition on the final error code *)
Theorem C19_fixpoint_no_reload : forall (succ : N -> N -> option N) (rk : N -> Z) (wtm : N -> bool),
  (forall p m c, succ p m = Some c -> rk p < rk c) ->
  (forall p m c, succ p m = Some c -> wtm c = negb (wtm p)) ->
  forall bd, costs_nonneg bd ->
  forall root addr ops, wtm root = true ->
  ops_ok succ true bd (newBook root addr) ops ->
  let g := run true bd (newBook root addr) ops in
  (bk_err g < ERR_ASSERT)%N -> all_equations bd g /\ bk_err g = 0%N.
Proof. exact fixpoint_nofuel. Qed.
Print Assumptions C19_fixpoint_no_reload.

(** "Saving and reloading the book reproduces the same graph and scores": readFromFile on any
    permutation of the records written for a reachable state [G] (no search pending) yields a
    state that satisfies all equations and agrees with [G] at every node on children, parents,
    best move, search score, search time, depth, negamax score, both expansion costs and both path
    errors *)
Theorem C19_reload_reproduces : forall (succ : N -> N -> option N) (rk : N -> Z) (wtm : N -> bool),
  (forall p m c, succ p m = Some c -> rk p < rk c) ->
  (forall p m c, succ p m = Some c -> wtm c = negb (wtm p)) ->
  forall bd, costs_nonneg bd ->
  forall root addr ops recs addrs sl, wtm root = true -> (root < U64_BOUND)%N ->
  steps_ok succ bd (newBook root addr) ops ->
  let G := run true bd (newBook root addr) ops in
  bk_pending G = [] -> read_ok succ G recs sl ->
  (bk_err (opRead true bd G recs addrs sl) < ERR_ASSERT)%N ->
  let g' := opRead true bd G recs addrs sl in
  all_equations bd g' /\
  forall n, In n (bk_keys G) ->
    In n (bk_keys g') /\ children g' n = children G n /\ (forall x, In x (parents g' n) <-> In x (parents G n)) /\
    ni_move (info g' n) = ni_move (info G n) /\ ni_score (info g' n) = ni_score (info G n) /\
    ni_time (info g' n) = ni_time (info G n) /\
    depth g' n = depth G n /\ score_of g' n = score_of G n.
Proof. exact reload_reproduces. Qed.
Print Assumptions C19_reload_reproduces.
