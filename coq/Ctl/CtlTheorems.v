(** C05 — proofs, part 2: the safety theorems, read off the invariants. *)
From Coq Require Import List Bool PeanoNat Lia.
From Texel Require Import Ctl.Uci Ctl.Engine Ctl.Dec Ctl.CtlSpec Ctl.Reach Ctl.CtlInv Ctl.CtlProofs.
Import ListNotations.

Ltac split_andb H :=
  repeat match type of H with
         | (_ && _)%bool = true => let H1 := fresh H in apply andb_true_iff in H; destruct H as [H H1]
         end.

Lemma imp_true : forall a b, imp a b = true -> a = true -> b = true.
Proof. intros [|] [|]; simpl; auto; discriminate. Qed.

(** projections of the state invariant *)
Section SInv.
  Variables (g : bool) (tr : list label) (s : state).
  Hypothesis R : run g init tr s.

  Let HS : sinv g (s, held_after tr) = true := proj1 (invariants g tr s R).

  Lemma sinv_outstanding_le2 : outstanding s <= 2.
  Proof. pose proof HS as H. unfold sinv in H; cbn [fst snd] in H. split_andb H. apply Nat.leb_le. assumption. Qed.
  Lemma sinv_outstanding_idle : awaiting_input s = true -> outstanding s <= 1.
  Proof. pose proof HS as H. unfold sinv in H; cbn [fst snd] in H. split_andb H. intro A. apply Nat.leb_le. eapply imp_true; eassumption. Qed.
  Lemma sinv_udone : udone s = true -> outstanding s = 0 /\ readyok_due s = 0 /\ uciok_due s = 0.
  Proof.
    pose proof HS as H. unfold sinv in H; cbn [fst snd] in H. split_andb H. intro A.
    match goal with X : imp (udone s) _ = true |- _ => let Y := fresh "Y" in pose proof (imp_true _ _ X A) as Y; clear X; rename Y into X; split_andb X end.
    repeat match goal with X : Nat.eqb _ _ = true |- _ => apply Nat.eqb_eq in X end. auto.
  Qed.
  Lemma sinv_search_engine : search s = true -> engine s = true /\ sc s = true.
  Proof.
    pose proof HS as H. unfold sinv in H; cbn [fst snd] in H. split_andb H. intro A.
    match goal with X : imp (search s) _ = true |- _ => let Y := fresh "Y" in pose proof (imp_true _ _ X A) as Y; clear X; rename Y into X; split_andb X end. auto.
  Qed.
  Lemma sinv_reads_options : head_reads_options s = true ->
    pending s = false /\ finished s = true /\ applying (epc s) = false.
  Proof.
    pose proof HS as H. unfold sinv in H; cbn [fst snd] in H. split_andb H. intro A.
    match goal with X : imp (head_reads_options s) _ = true |- _ => let Y := fresh "Y" in pose proof (imp_true _ _ X A) as Y; clear X; rename Y into X; split_andb X end.
    repeat match goal with X : negb _ = true |- _ => apply negb_true_iff in X end. auto.
  Qed.
  Lemma sinv_no_deadlock : no_deadlock s = true.
  Proof. pose proof HS as H. unfold sinv in H; cbn [fst snd] in H. split_andb H. assumption. Qed.
  Lemma sinv_unblocks : uci_blocked s = true -> unblocks 16 s = true.
  Proof. pose proof HS as H. unfold sinv in H; cbn [fst snd] in H. split_andb H. intro A. eapply imp_true; eassumption. Qed.
  Lemma sinv_stopreq : uci_blocked s = true -> search s = true -> epc s = ESearch -> stopreq s = true.
  Proof.
    pose proof HS as H. unfold sinv in H; cbn [fst snd] in H. split_andb H. intros A B C.
    match goal with X : imp (uci_blocked s && search s && _) (stopreq s) = true |- _ => refine (imp_true _ _ X _) end.
    rewrite A, B, C. reflexivity.
  Qed.
  Lemma sinv_not_crashed : g = true -> crashed s = false.
  Proof.
    pose proof HS as H. unfold sinv in H; cbn [fst snd] in H. split_andb H. intro A.
    match goal with X : imp g _ = true |- _ => let Y := fresh "Y" in pose proof (imp_true _ _ X A) as Y; clear X; rename Y into X; apply negb_true_iff in X; exact X end.
  Qed.
  Lemma sinv_stopping_moves : stopping s = true -> existsb (moves s) (steps s) = true.
  Proof.
    pose proof HS as H. unfold sinv in H; cbn [fst snd] in H. split_andb H. intro A.
    match goal with X : imp (stopping s) _ = true |- _ => exact (imp_true _ _ X A) end.
  Qed.
  Lemma sinv_quitting_moves : quitting s = true -> existsb (moves s) (steps s) = true.
  Proof.
    pose proof HS as H. unfold sinv in H; cbn [fst snd] in H. split_andb H. intro A.
    match goal with X : imp (quitting s) _ = true |- _ => exact (imp_true _ _ X A) end.
  Qed.
  Lemma sinv_rank : rank s <= 1024.
  Proof. pose proof HS as H. unfold sinv in H; cbn [fst snd] in H. split_andb H. apply Nat.leb_le. assumption. Qed.
End SInv.

(** projections of the transition invariant *)
Section TInv.
  Variables (g : bool) (tr : list label) (s : state) (l : label) (s' : state).
  Hypothesis R : run g init tr s.
  Hypothesis ST : Step g s l s'.

  Let HT : tinv g (s, held_after tr) l (s', held_upd (held_after tr) l) = true := proj2 (invariants g tr s R) l s' ST.

  Lemma tinv_outstanding : outstanding s + b2n (is_go l) = outstanding s' + b2n (is_bestmove l).
  Proof. pose proof HT as H. unfold tinv in H; cbn [fst snd] in H. split_andb H. apply Nat.eqb_eq. assumption. Qed.
  Lemma tinv_readyok : readyok_due s + b2n (is_isready l) = readyok_due s' + b2n (is_readyok l).
  Proof. pose proof HT as H. unfold tinv in H; cbn [fst snd] in H. split_andb H. apply Nat.eqb_eq. assumption. Qed.
  Lemma tinv_uciok : uciok_due s + b2n (is_uci l) = uciok_due s' + b2n (is_uciok l).
  Proof. pose proof HT as H. unfold tinv in H; cbn [fst snd] in H. split_andb H. apply Nat.eqb_eq. assumption. Qed.
  Lemma tinv_search_output : is_search_output l = true -> 1 <= outstanding s.
  Proof. pose proof HT as H. unfold tinv in H; cbn [fst snd] in H. split_andb H. intro A. apply Nat.leb_le. eapply imp_true; eassumption. Qed.
  Lemma tinv_held : held_after tr = true -> is_bestmove l = false.
  Proof.
    pose proof HT as H. unfold tinv in H; cbn [fst snd] in H. split_andb H. intro A.
    match goal with X : imp (held_after tr) _ = true |- _ => let Y := fresh "Y" in pose proof (imp_true _ _ X A) as Y; clear X; rename Y into X; apply negb_true_iff in X; exact X end.
  Qed.
  Lemma tinv_no_nullderef : g = true -> l <> LNullDeref.
  Proof.
    pose proof HT as H. unfold tinv in H; cbn [fst snd] in H. split_andb H. intros A B.
    match goal with X : imp g _ = true |- _ => let Y := fresh "Y" in pose proof (imp_true _ _ X A) as Y; clear X; rename Y into X; rewrite B in X; discriminate end.
  Qed.
  Lemma tinv_rank : is_read l = false -> s' <> s -> rank s' < rank s.
  Proof.
    pose proof HT as H. unfold tinv in H; cbn [fst snd] in H. split_andb H. intros A B.
    match goal with X : imp (negb (is_read l) && _) _ = true |- _ => apply Nat.ltb_lt; refine (imp_true _ _ X _) end.
    rewrite A. simpl. apply negb_true_iff. unfold state_eqb. destruct (state_eq_dec s' s); [contradiction | reflexivity].
  Qed.
  Lemma tinv_stopping : stopping s = true -> is_bestmove l = true \/ stopping s' = true.
  Proof.
    pose proof HT as H. unfold tinv in H; cbn [fst snd] in H. split_andb H. intro A.
    match goal with X : imp (stopping s) _ = true |- _ => let Y := fresh "Y" in pose proof (imp_true _ _ X A) as Y; clear X; rename Y into X; apply orb_true_iff in X; exact X end.
  Qed.
  Lemma tinv_quitting : quitting s = true -> quitting s' = true \/ exited s' = true.
  Proof.
    pose proof HT as H. unfold tinv in H; cbn [fst snd] in H. split_andb H. intro A.
    match goal with X : imp (quitting s) _ = true |- _ => let Y := fresh "Y" in pose proof (imp_true _ _ X A) as Y; clear X; rename Y into X; apply orb_true_iff in X; exact X end.
  Qed.
  Lemma tinv_stop_entry : l = LRead CStop -> 1 <= outstanding s -> stopping s' = true.
  Proof.
    pose proof HT as H. unfold tinv in H; cbn [fst snd] in H. split_andb H. intros A B.
    match goal with X : imp _ (stopping s') = true |- _ => refine (imp_true _ _ X _) end.
    rewrite A. apply Nat.leb_le. exact B.
  Qed.
  Lemma tinv_quit_entry : l = LRead CQuit \/ l = LRead CEof -> quitting s' = true.
  Proof.
    pose proof HT as H. unfold tinv in H; cbn [fst snd] in H. split_andb H. intros A.
    match goal with X : imp _ (quitting s') = true |- _ => refine (imp_true _ _ X _) end.
    destruct A as [A | A]; rewrite A; reflexivity.
  Qed.
End TInv.

(* ---------------------------------------------------------------------------------- *)
(** * Counting *)
Lemma count_snoc : forall p tr l, count p (tr ++ [l]) = count p tr + b2n (p l).
Proof.
  intros. unfold count. rewrite filter_app, app_length. simpl. destruct (p l); simpl; lia.
Qed.

(** exactly one bestmove per go: the go commands read so far are the bestmoves printed so far
    plus the searches the state still owes an answer to *)
Theorem one_bestmove_per_go : forall g tr s, run g init tr s ->
  count is_go tr = count is_bestmove tr + outstanding s.
Proof.
  intros g. apply (run_ind_snoc g (fun tr s => count is_go tr = count is_bestmove tr + outstanding s)).
  - reflexivity.
  - intros tr s l s' R IH ST. rewrite !count_snoc. pose proof (tinv_outstanding g tr s l s' R ST). lia.
Qed.

Corollary bestmove_bounds : forall g tr s, run g init tr s ->
  count is_bestmove tr <= count is_go tr <= count is_bestmove tr + 2 /\
  (awaiting_input s = true -> count is_go tr <= count is_bestmove tr + 1) /\
  (udone s = true -> count is_go tr = count is_bestmove tr).
Proof.
  intros g tr s R. pose proof (one_bestmove_per_go g tr s R). pose proof (sinv_outstanding_le2 g tr s R).
  repeat split; try lia.
  - intro A. pose proof (sinv_outstanding_idle g tr s R A). lia.
  - intro A. destruct (sinv_udone g tr s R A) as [? _]. lia.
Qed.

Theorem one_readyok_per_isready : forall g tr s, run g init tr s ->
  count is_isready tr = count is_readyok tr + readyok_due s.
Proof.
  intros g. apply (run_ind_snoc g (fun tr s => count is_isready tr = count is_readyok tr + readyok_due s)).
  - reflexivity.
  - intros tr s l s' R IH ST. rewrite !count_snoc. pose proof (tinv_readyok g tr s l s' R ST). lia.
Qed.

Theorem one_uciok_per_uci : forall g tr s, run g init tr s ->
  count is_uci tr = count is_uciok tr + uciok_due s.
Proof.
  intros g. apply (run_ind_snoc g (fun tr s => count is_uci tr = count is_uciok tr + uciok_due s)).
  - reflexivity.
  - intros tr s l s' R IH ST. rewrite !count_snoc. pose proof (tinv_uciok g tr s l s' R ST). lia.
Qed.

Lemma readyok_due_le1 : forall s, readyok_due s <= 1.
Proof. intros; unfold readyok_due, b2n. destruct (has_action _ _); lia. Qed.

Lemma readyok_due_idle : forall s, awaiting_input s = true -> readyok_due s = 0.
Proof.
  intros s H. unfold awaiting_input in H. unfold readyok_due. destruct (upc s); [reflexivity |].
  rewrite andb_false_r in H. discriminate.
Qed.

(** search output (info lines, bestmove) only while a go is unanswered *)
Theorem no_output_after_bestmove : forall g tr l s, run g init (tr ++ [l]) s ->
  is_search_output l = true -> count is_bestmove tr < count is_go tr.
Proof.
  intros g tr l s R O. apply run_unsnoc in R. destruct R as [b [R ST]].
  pose proof (one_bestmove_per_go g tr b R). pose proof (tinv_search_output g tr b l s R ST O). lia.
Qed.

(** bestmove of a ponder / infinite search only after stop, ponderhit, go, quit or end of input *)
Theorem bestmove_withheld : forall g tr s, run g init (tr ++ [LOut OBestmove]) s -> held_after tr = false.
Proof.
  intros g tr s R. apply run_unsnoc in R. destruct R as [b [R ST]].
  destruct (held_after tr) eqn:E; [| reflexivity].
  pose proof (tinv_held g tr b _ s R ST E). discriminate.
Qed.

(** reading the monitor: what [held_after tr = true] means *)
Lemma held_after_start : forall tr tr',
  (forall c, In (LRead c) tr' -> releases c = false) -> (forall h, ~ In (LStart h) tr') ->
  held_after (tr ++ LStart true :: tr') = true.
Proof.
  intros tr tr' HR HS. unfold held_after. rewrite fold_left_app. simpl.
  generalize dependent tr'. clear. intros tr'.
  assert (forall w, w = true -> (forall c, In (LRead c) tr' -> releases c = false) -> (forall h, ~ In (LStart h) tr') ->
                    fold_left held_upd tr' w = true) as K.
  { induction tr' as [| x r IH]; intros w Hw HR HS; simpl; [assumption |].
    apply IH.
    - destruct x; simpl; try assumption.
      + rewrite (HR c); [assumption | left; reflexivity].
      + exfalso. apply (HS held). left; reflexivity.
    - intros c Hc; apply HR; right; assumption.
    - intros h Hh; apply (HS h); right; assumption. }
  intros; apply K; auto.
Qed.

Corollary bestmove_withheld_explicit : forall g tr tr' s,
  run g init (tr ++ LStart true :: tr' ++ [LOut OBestmove]) s ->
  (forall h, ~ In (LStart h) tr') ->
  exists c, In (LRead c) tr' /\ releases c = true.
Proof.
  intros g tr tr' s R HS.
  replace (tr ++ LStart true :: tr' ++ [LOut OBestmove]) with ((tr ++ LStart true :: tr') ++ [LOut OBestmove]) in R
    by (rewrite <- app_assoc; reflexivity).
  apply bestmove_withheld in R.
  destruct (existsb (fun l => match l with LRead c => releases c | _ => false end) tr') eqn:E.
  - apply existsb_exists in E. destruct E as [l [Hl Hr]]. destruct l; try discriminate. exists c; auto.
  - exfalso. rewrite held_after_start in R; [discriminate | | assumption].
    intros c Hc. destruct (releases c) eqn:Ec; [| reflexivity].
    assert (existsb (fun l => match l with LRead c => releases c | _ => false end) tr' = true) as K.
    { apply existsb_exists. exists (LRead c). auto. }
    rewrite K in E. discriminate.
Qed.

(* ---------------------------------------------------------------------------------- *)
(** * Options *)

Lemma ustep_no_apply : forall s s', ~ In (LApply, s') (ustep s).
Proof.
  intros s s' H. unfold ustep in H. destruct (upc s) as [| a r]; [destruct H |].
  destruct a; simpl in H;
    repeat match goal with
           | H : context [if ?b then _ else _] |- _ => destruct b; simpl in H
           | H : context [lim_infinite ?x] |- _ => destruct x; simpl in H
           end;
    repeat (destruct H as [H | H]; [discriminate |]); try destruct H.
Qed.

(** option values are stored only by the engine thread, and only outside doSearch *)
Theorem apply_only_when_idle : forall g s s', Step g s LApply s' ->
  in_search (epc s) = false /\ (exists a, epc s = EApply a) /\ upc s' = upc s.
Proof.
  intros g s s' H. inversion H; subst. unfold steps in *. destruct (dead s); [contradiction |].
  repeat (match goal with X : In _ (_ ++ _) |- _ => apply in_app_iff in X; destruct X as [X | X] end).
  - exfalso; eapply ustep_no_apply; eassumption.
  - unfold estep in *. destruct (epc s) eqn:E; simpl in *;
      repeat match goal with
             | H : context [if ?b then _ else _] |- _ => destruct b; simpl in H
             end;
      repeat match goal with X : _ \/ _ |- _ => destruct X as [X | X]; try discriminate end; try contradiction.
    inversion H0; subst. simpl. repeat split. eauto.
  - unfold pstep in *. destruct (epc s); simpl in *; try contradiction. destruct (udone s); simpl in *; [| contradiction].
    destruct H0 as [H0 | []]; discriminate.
Qed.

(** while the UCI thread reads option values (computeTimeLimit, startThread) no option change is
    pending or in progress *)
Theorem options_stable_when_read : forall g tr s a r, run g init tr s -> upc s = a :: r -> reads_options a = true ->
  pending s = false /\ finished s = true /\ (forall b, epc s <> EApply b).
Proof.
  intros g tr s a r R U A. assert (head_reads_options s = true) as H by (unfold head_reads_options; rewrite U; exact A).
  destruct (sinv_reads_options g tr s R H) as [P [F Ap]]. repeat split; auto.
  intros b E. rewrite E in Ap. discriminate.
Qed.

(* ---------------------------------------------------------------------------------- *)
(** * No use of the null engine pointer *)
Theorem no_null_engine_use : forall tr s, run true init tr s ->
  crashed s = false /\ ~ In LNullDeref tr.
Proof.
  intros tr s R. split; [eapply sinv_not_crashed; eauto |].
  revert tr s R. apply (run_ind_snoc true (fun tr _ => ~ In LNullDeref tr)).
  - intros [].
  - intros tr s l s' R IH ST H. apply in_app_iff in H. destruct H as [H | [H | []]]; [auto |].
    subst. eapply tinv_no_nullderef; eauto.
Qed.

(** ... which is false for the code as it is: `ponderhit` as the first command *)
Theorem no_null_engine_use_refuted :
  exists tr s, run false init tr s /\ crashed s = true /\ tr = [LRead CPonderHit; LNullDeref].
Proof.
  eexists. eexists. split; [| split; [| reflexivity]].
  - eapply run_cons; [apply StepRead; vm_compute; reflexivity |].
    eapply run_cons; [apply StepInt; vm_compute; left; reflexivity |]. apply run_nil.
  - reflexivity.
Qed.

(* ---------------------------------------------------------------------------------- *)
(** * Never stuck *)

Lemma enext_estep : forall s s', enext s = Some s' -> exists l, In (l, s') (estep s).
Proof.
  intros s s'. unfold enext. destruct (epc s) eqn:E;
    try (destruct (rev (estep s)) as [| [l x] r] eqn:Er; [discriminate |];
         intro H; inversion H; subst; exists l; apply in_rev; rewrite Er; left; reflexivity).
  - intro H; inversion H; subst. exists LTau. unfold estep. rewrite E. left; reflexivity.
  - intro H; inversion H; subst. exists LTau. unfold estep. rewrite E. right; left; reflexivity.
Qed.

Lemma unblocks_erun : forall n s, unblocks n s = true ->
  exists k s', k <= n /\ erun s k s' /\ uci_blocked s' = false.
Proof.
  induction n as [| n IH]; intros s H; simpl in H.
  - destruct (uci_blocked s) eqn:B; simpl in H; [discriminate |]. exists 0, s. repeat split; [lia | constructor | assumption].
  - destruct (uci_blocked s) eqn:B; simpl in H.
    + destruct (dead s) eqn:D; [discriminate |]. destruct (enext s) as [s1|] eqn:E; [| discriminate].
      apply IH in H. destruct H as [k [s' [Hk [Hr Hb]]]]. apply enext_estep in E. destruct E as [l Hl].
      exists (S k), s'. repeat split; [lia | econstructor; eassumption | assumption].
    + exists 0, s. repeat split; [lia | constructor | assumption].
Qed.

(** whenever the UCI thread stands at a blocking call whose condition is false, the engine thread
    alone makes the condition true within 16 of its steps (no reachable state waits on a
    condition nobody can signal); and the system as a whole is never deadlocked *)
Theorem never_stuck : forall g tr s, run g init tr s ->
  (uci_blocked s = true -> exists k s', k <= 16 /\ erun s k s' /\ uci_blocked s' = false) /\
  (dead s = true \/ awaiting_input s = true \/ exists l s', Step g s l s' /\ s' <> s /\ is_read l = false).
Proof.
  intros g tr s R. split.
  - intro B. apply unblocks_erun. eapply sinv_unblocks; eauto.
  - pose proof (sinv_no_deadlock g tr s R) as H. unfold no_deadlock in H.
    apply orb_true_iff in H. destruct H as [H | H]; [apply orb_true_iff in H; destruct H; auto |].
    right; right. apply existsb_exists in H. destruct H as [[l s'] [Hin Hm]]. exists l, s'.
    split; [apply StepInt; exact Hin |]. split.
    + unfold moves in Hm. simpl in Hm. intro; subst. rewrite state_eqb_refl in Hm. discriminate.
    + eapply steps_no_read; eauto.
Qed.

(** a blocked waitStop while the search is still running: the search has been told to stop *)
Theorem blocked_search_told_to_stop : forall g tr s, run g init tr s ->
  uci_blocked s = true -> search s = true -> epc s = ESearch -> stopreq s = true.
Proof. intros; eapply sinv_stopreq; eauto. Qed.

(* ---------------------------------------------------------------------------------- *)
(** * Combined statements used by Properties_C05.v *)
Theorem readyok_contract : forall g tr s, run g init tr s ->
  count is_isready tr = count is_readyok tr + readyok_due s /\ readyok_due s <= 1 /\
  (awaiting_input s = true -> count is_isready tr = count is_readyok tr) /\
  (udone s = true -> count is_isready tr = count is_readyok tr).
Proof.
  intros g tr s R. pose proof (one_readyok_per_isready g tr s R) as H. repeat split.
  - exact H.
  - apply readyok_due_le1.
  - intro A. rewrite (readyok_due_idle s A) in H. lia.
  - intro A. destruct (sinv_udone g tr s R A) as [_ [B _]]. lia.
Qed.

Theorem options_contract : forall g tr s, run g init tr s ->
  (forall s', Step g s LApply s' -> in_search (epc s) = false /\ (exists a, epc s = EApply a) /\ upc s' = upc s) /\
  (forall a r, upc s = a :: r -> reads_options a = true ->
     pending s = false /\ finished s = true /\ (forall b, epc s <> EApply b)).
Proof.
  intros g tr s R. split.
  - intros s' ST. eapply apply_only_when_idle; eauto.
  - intros a r U A. eapply options_stable_when_read; eauto.
Qed.
