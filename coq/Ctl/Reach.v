(** C05 — proof by reflection over the finite control-state space.

    Generic part: for a transition system given by an executable successor function, a list [R]
    of states that contains the initial state and is closed under the successor function
    contains every reachable state; closure, a state invariant and a transition invariant are
    checked by one boolean function ([check]) that the kernel evaluates ([vm_compute]).
    [explore] (breadth-first search) only PROPOSES the list; nothing is assumed about it. *)
From Coq Require Import List Bool PArith FMapPositive.
Import ListNotations.

Section Reach.
  Variables (X L : Type).
  Variable eqb : X -> X -> bool.
  Hypothesis eqb_true : forall a b, eqb a b = true -> a = b.
  Variable hash : X -> positive.
  Variable succs : X -> list (L * X).
  Variable x0 : X.

  Definition tbl := PositiveMap.t (list X).
  Definition bucket (x : X) (t : tbl) : list X :=
    match PositiveMap.find (hash x) t with Some b => b | None => [] end.
  Definition mem (x : X) (t : tbl) : bool := existsb (eqb x) (bucket x t).
  Definition add (x : X) (t : tbl) : tbl := PositiveMap.add (hash x) (x :: bucket x t) t.
  Definition table_of (l : list X) : tbl := fold_right add (PositiveMap.empty _) l.

  Lemma mem_add : forall x y t, mem x (add y t) = true -> x = y \/ mem x t = true.
  Proof.
    intros x y t. unfold mem, add, bucket.
    destruct (Pos.eq_dec (hash x) (hash y)) as [e | ne].
    - rewrite e, PositiveMap.gss. simpl. intro H. apply orb_true_iff in H. destruct H as [H | H].
      + left. apply eqb_true; exact H.
      + right. exact H.
    - rewrite PositiveMap.gso by exact ne. auto.
  Qed.

  Lemma mem_table_of : forall l x, mem x (table_of l) = true -> In x l.
  Proof.
    induction l as [| y l IH]; intros x H.
    - unfold mem, bucket, table_of in H. simpl in H. rewrite PositiveMap.gempty in H. discriminate.
    - simpl in H. apply mem_add in H. destruct H as [-> | H]; [left; reflexivity | right; apply IH; exact H].
  Qed.

  (** breadth-first exploration: [fuel] rounds *)
  Definition visit (st : tbl * list X) (x : X) : tbl * list X :=
    if mem x (fst st) then st else (add x (fst st), x :: snd st).

  Fixpoint explore (fuel : nat) (frontier : list X) (t : tbl) (acc : list X) : list X :=
    match fuel with
    | O => acc
    | S f =>
        match frontier with
        | [] => acc
        | _ =>
            let '(t', new) :=
              fold_left (fun st x => fold_left (fun st ls => visit st (snd ls)) (succs x) st) frontier (t, []) in
            explore f new t' (new ++ acc)
        end
    end.

  Definition reach (fuel : nat) : list X := explore fuel [x0] (add x0 (PositiveMap.empty _)) [x0].

  Variable sinv : X -> bool.
  Variable tinv : X -> L -> X -> bool.

  Definition check (R : list X) : bool :=
    let t := table_of R in
    mem x0 t &&
    forallb (fun x => sinv x && forallb (fun ls => mem (snd ls) t && tinv x (fst ls) (snd ls)) (succs x)) R.

  Inductive path (x : X) : list L -> X -> Prop :=
  | path_nil : path x [] x
  | path_snoc : forall tr y l z, path x tr y -> In (l, z) (succs y) -> path x (tr ++ [l]) z.

  Lemma check_sound : forall R, check R = true ->
    forall tr x, path x0 tr x ->
      In x R /\ sinv x = true /\ forall l y, In (l, y) (succs x) -> tinv x l y = true.
  Proof.
    intros R HC. unfold check in HC. apply andb_true_iff in HC. destruct HC as [H0 HR].
    rewrite forallb_forall in HR.
    assert (HIn : forall tr x, path x0 tr x -> In x R).
    { intros tr x P. induction P as [| tr y l z P IH Hs].
      - apply mem_table_of. exact H0.
      - specialize (HR _ IH). apply andb_true_iff in HR. destruct HR as [_ HR].
        rewrite forallb_forall in HR. specialize (HR _ Hs). apply andb_true_iff in HR.
        destruct HR as [Hm _]. apply mem_table_of. exact Hm. }
    intros tr x P. pose proof (HIn _ _ P) as Hx. split; [exact Hx |].
    specialize (HR _ Hx). apply andb_true_iff in HR. destruct HR as [Hs HR]. split; [exact Hs |].
    intros l y Hy. rewrite forallb_forall in HR. specialize (HR _ Hy).
    apply andb_true_iff in HR. tauto.
  Qed.
End Reach.
