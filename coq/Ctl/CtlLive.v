(** C05 — proofs, part 3: liveness by a ranking function.

    [rank] (CtlInv.v) decreases with every state-changing step of either thread other than
    reading input.  Stuttering steps are exactly the output lines that leave the state unchanged
    (an info line of a running search, an "info string" line): the only way not to make progress
    is a search (or a print loop) that emits lines for ever.  Fairness therefore enters as:
    enabled steps are eventually taken, and a search that has been told to stop (timeLimit(0,0),
    [stopreq]) returns after finitely many lines.  Under that reading the two theorems say:
    after `stop` (with a go outstanding) a bestmove is printed, after `quit`/EOF the process
    exits -- within [rank] state-changing steps, and until then such a step is always enabled. *)
From Coq Require Import List Bool PeanoNat Lia.
From Texel Require Import Ctl.Uci Ctl.Engine Ctl.Dec Ctl.CtlSpec Ctl.Reach Ctl.CtlInv Ctl.CtlProofs Ctl.CtlTheorems.
Import ListNotations.

(** runs that count their state-changing steps *)
Inductive crun (g : bool) : state -> nat -> list label -> state -> Prop :=
| crun_nil : forall s, crun g s 0 [] s
| crun_stutter : forall s l n tr s'', Step g s l s -> crun g s n tr s'' -> crun g s n (l :: tr) s''
| crun_move : forall s l s' n tr s'', Step g s l s' -> s' <> s -> crun g s' n tr s'' -> crun g s (S n) (l :: tr) s''.

Lemma awaiting_input_upc : forall s, awaiting_input s = true -> upc s = [].
Proof.
  intros s H. unfold awaiting_input in H. destruct (upc s); [reflexivity |]. rewrite andb_false_r in H. discriminate.
Qed.

Lemma read_some_awaiting : forall g s c s', read g s c = Some s' -> awaiting_input s = true.
Proof. intros g s c s'. unfold read. destruct (awaiting_input s); [reflexivity | discriminate]. Qed.

Lemma has_action_nil : forall p s, has_action p (upc s) = true -> upc s <> [].
Proof. intros p s H E. rewrite E in H. discriminate. Qed.

Lemma stopping_no_read : forall g s l s', stopping s = true -> Step g s l s' -> is_read l = false.
Proof.
  intros g s l s' S ST. inversion ST; subst.
  - eapply steps_no_read; eauto.
  - exfalso. apply read_some_awaiting in H. apply awaiting_input_upc in H.
    unfold stopping in S. rewrite H in S. simpl in S. rewrite andb_false_r in S. discriminate.
Qed.

Lemma quitting_no_read : forall g s l s', quitting s = true -> Step g s l s' -> is_read l = false.
Proof.
  intros g s l s' Q ST. inversion ST; subst.
  - eapply steps_no_read; eauto.
  - exfalso. pose proof (read_some_awaiting _ _ _ _ H) as A. pose proof (awaiting_input_upc _ A) as U.
    unfold quitting in Q. rewrite U in Q. simpl in Q. rewrite orb_false_r in Q.
    unfold awaiting_input in A. destruct (udone s); simpl in *.
    + rewrite andb_false_r in A. discriminate.
    + rewrite andb_false_r in Q. discriminate.
Qed.

Lemma dead_no_step : forall g s l s', dead s = true -> ~ Step g s l s'.
Proof.
  intros g s l s' D ST. inversion ST; subst.
  - unfold steps in H. rewrite D in H. destruct H.
  - apply read_some_awaiting in H. unfold awaiting_input in H. rewrite D in H. discriminate.
Qed.

Lemma moves_step : forall g s, existsb (moves s) (steps s) = true ->
  exists l s', Step g s l s' /\ s' <> s /\ is_read l = false.
Proof.
  intros g s H. apply existsb_exists in H. destruct H as [[l s'] [Hin Hm]]. exists l, s'.
  split; [apply StepInt; exact Hin |]. split.
  - unfold moves in Hm. simpl in Hm. intro; subst. rewrite state_eqb_refl in Hm. discriminate.
  - eapply steps_no_read; eauto.
Qed.

(** after `stop` is read while a go is outstanding: until the bestmove is printed a
    state-changing step is enabled, and at most [rank] of them can happen *)
Lemma stopping_bound : forall g s n tr s', crun g s n tr s' ->
  forall tr0, run g init tr0 s -> stopping s = true ->
  (forall l, In l tr -> is_bestmove l = false) ->
  stopping s' = true /\ n + rank s' <= rank s /\ run g init (tr0 ++ tr) s'.
Proof.
  induction 1 as [s | s l n tr s'' ST C IH | s l s1 n tr s'' ST NE C IH]; intros tr0 R S NB.
  - rewrite app_nil_r. repeat split; auto.
  - assert (run g init (tr0 ++ [l]) s) as R' by (eapply run_snoc; eauto).
    destruct (IH _ R' S) as [A [B D]]; [intros; apply NB; right; assumption |].
    rewrite <- app_assoc in D. repeat split; auto.
  - assert (run g init (tr0 ++ [l]) s1) as R' by (eapply run_snoc; eauto).
    assert (stopping s1 = true) as S1.
    { destruct (tinv_stopping g tr0 s l s1 R ST S) as [X | X]; [| exact X].
      rewrite NB in X; [discriminate | left; reflexivity]. }
    pose proof (tinv_rank g tr0 s l s1 R ST (stopping_no_read _ _ _ _ S ST) NE) as RK.
    destruct (IH _ R' S1) as [A [B D]]; [intros; apply NB; right; assumption |].
    rewrite <- app_assoc in D. repeat split; auto. lia.
Qed.

Theorem stop_yields_bestmove : forall g tr0 s s1,
  run g init tr0 s -> 1 <= outstanding s -> read g s CStop = Some s1 ->
  rank s1 <= 1024 /\
  forall n tr s2, crun g s1 n tr s2 -> (forall l, In l tr -> is_bestmove l = false) ->
    n < rank s1 /\
    exists l s3, Step g s2 l s3 /\ s3 <> s2 /\ is_read l = false.
Proof.
  intros g tr0 s s1 R O RD.
  assert (Step g s (LRead CStop) s1) as ST by (apply StepRead; exact RD).
  assert (run g init (tr0 ++ [LRead CStop]) s1) as R1 by (eapply run_snoc; eauto).
  pose proof (tinv_stop_entry g tr0 s _ s1 R ST eq_refl O) as S1.
  split; [eapply sinv_rank; eauto |].
  intros n tr s2 C NB.
  destruct (stopping_bound g s1 n tr s2 C _ R1 S1 NB) as [S2 [B R2]].
  split.
  - assert (1 <= rank s2); [| lia]. unfold rank. unfold stopping in S2.
    destruct (dead s2); [simpl in S2; discriminate | lia].
  - apply moves_step. eapply sinv_stopping_moves; eauto.
Qed.

(** after `quit` or end of input: until the process has exited a state-changing step is
    enabled, and at most [rank] of them can happen *)
Lemma quitting_bound : forall g s n tr s', crun g s n tr s' ->
  forall tr0, run g init tr0 s -> quitting s = true -> exited s' = false ->
  quitting s' = true /\ n + rank s' <= rank s /\ run g init (tr0 ++ tr) s'.
Proof.
  induction 1 as [s | s l n tr s'' ST C IH | s l s1 n tr s'' ST NE C IH]; intros tr0 R Q NX.
  - rewrite app_nil_r. repeat split; auto.
  - assert (run g init (tr0 ++ [l]) s) as R' by (eapply run_snoc; eauto).
    destruct (IH _ R' Q NX) as [A [B D]]. rewrite <- app_assoc in D. repeat split; auto.
  - assert (run g init (tr0 ++ [l]) s1) as R' by (eapply run_snoc; eauto).
    assert (quitting s1 = true) as Q1.
    { destruct (tinv_quitting g tr0 s l s1 R ST Q) as [X | X]; [exact X |].
      exfalso. (* s1 has exited: it cannot move any more, so s'' = s1 *)
      assert (s'' = s1) as E.
      { inversion C; subst; [reflexivity | |];
          match goal with K : Step _ s1 _ _ |- _ => exfalso; eapply dead_no_step; [| exact K] end;
          unfold dead; rewrite X; apply orb_true_r. }
      subst. rewrite X in NX. discriminate. }
    pose proof (tinv_rank g tr0 s l s1 R ST (quitting_no_read _ _ _ _ Q ST) NE) as RK.
    destruct (IH _ R' Q1 NX) as [A [B D]]. rewrite <- app_assoc in D. repeat split; auto. lia.
Qed.

Theorem quit_terminates : forall g tr0 s c s1,
  run g init tr0 s -> c = CQuit \/ c = CEof -> read g s c = Some s1 ->
  rank s1 <= 1024 /\
  forall n tr s2, crun g s1 n tr s2 -> exited s2 = false ->
    n < rank s1 /\ crashed s2 = false /\
    exists l s3, Step g s2 l s3 /\ s3 <> s2 /\ is_read l = false.
Proof.
  intros g tr0 s c s1 R HC RD.
  assert (Step g s (LRead c) s1) as ST by (apply StepRead; exact RD).
  assert (run g init (tr0 ++ [LRead c]) s1) as R1 by (eapply run_snoc; eauto).
  assert (quitting s1 = true) as Q1.
  { eapply tinv_quit_entry; [exact R | exact ST |]. destruct HC; subst; auto. }
  split; [eapply sinv_rank; eauto |].
  intros n tr s2 C NX.
  destruct (quitting_bound g s1 n tr s2 C _ R1 Q1 NX) as [Q2 [B R2]].
  assert (dead s2 = false) as D.
  { unfold quitting in Q2. destruct (dead s2); [simpl in Q2; discriminate | reflexivity]. }
  split; [| split].
  - assert (1 <= rank s2); [| lia]. unfold rank. rewrite D. lia.
  - unfold dead in D. apply orb_false_iff in D. tauto.
  - apply moves_step. eapply sinv_quitting_moves; eauto.
Qed.
