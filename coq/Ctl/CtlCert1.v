(** C05 — reachability certificate for ponderhit_guarded = true: the list proposed by the
    breadth-first exploration contains the initial state, is closed under every enabled step
    (all abstract commands, both threads), and every state / step satisfies the invariants of
    CtlInv.v.  One evaluation by the kernel's virtual machine (about half a minute). *)
From Texel Require Import Ctl.CtlInv.

Lemma certificate_guarded : check_all true = true.
Proof. vm_cast_no_check (eq_refl true). Qed.
