(** C05 — UCI protocol thread (app/texel/uciprotocol.cpp), executable model, no proofs.

    Three layers, shaped like the C++:
      [tokenize]        UCIProtocol::tokenize (trim, split at isspace)
      [classify]        the command dispatch of UCIProtocol::handleCommand, reduced to the
                        CONTROL-relevant content of a line: which branch is taken, is the option
                        name a declared option, does a [go] ask for ponder, does it carry any
                        depth/nodes/time limit (the inputs of [infinite = ...] in
                        EngineControl::startSearch / ponderHit)
      [handleCommand]   the branch bodies as a list of micro-actions of the UCI thread; each
                        action is one step of the labelled transition system in Engine.v.
                        The blocking calls (waitReady, waitStop, waitOptionsSet) are actions
                        whose step is guarded there.

    The boolean [g] ("ponderhit_guarded") selects between the dispatch of `ponderhit` as it was
    before /repo commit 4d13f7c ([g = false]: `engine->ponderHit()` without a null test) and the
    repaired code ([g = true]: `if (engine) engine->ponderHit()`).  The check decides from the
    behaviour of the binary on the witness script [ponderhit] which variant the tree matches. *)
From Coq Require Import List Bool Ascii String ZArith NArith.
Import ListNotations.
Local Open Scope string_scope.

(* ---------------------------------------------------------------------------------- *)
(** * Characters and tokens *)

(** C [isspace] in the "C" locale: SPC, \t \n \v \f \r *)
Definition isspace (c : ascii) : bool :=
  let n := N_of_ascii c in (N.eqb n 32 || (N.leb 9 n && N.leb n 13))%bool.

(** std::tolower in the "C" locale *)
Definition tolower (c : ascii) : ascii :=
  let n := N_of_ascii c in
  if (N.leb 65 n && N.leb n 90)%bool then ascii_of_N (n + 32) else c.

Fixpoint toLowerCase (s : string) : string :=
  match s with
  | EmptyString => EmptyString
  | String c r => String (tolower c) (toLowerCase r)
  end.

(** [tokenize]: the C++ trims the line and then splits at runs of white space; a line that is
    empty after trimming yields ONE empty token (the final `if (inWord) push_back`), which
    matches no command.  [split] below drops empty tokens; [tokenize] restores that case. *)
Fixpoint split (s : string) (cur : string) (acc : list string) : list string :=
  match s with
  | EmptyString => rev (if string_dec cur "" then acc else cur :: acc)
  | String c r =>
      if isspace c
      then split r "" (if string_dec cur "" then acc else cur :: acc)
      else split r (cur ++ String c EmptyString) acc
  end.

Definition tokenize (line : string) : list string :=
  match split line "" [] with
  | [] => [""]
  | l => l
  end.

(* ---------------------------------------------------------------------------------- *)
(** * Numbers: str2Num(const std::string&, int&) = std::stoi, 0 on failure *)

Definition digit_of (c : ascii) : option Z :=
  let n := N_of_ascii c in
  if (N.leb 48 n && N.leb n 57)%bool then Some (Z.of_N (n - 48)) else None.

(** leading digits of [s]; [None] when there is none.  Saturates above 2^40 (any value above
    INT_MAX makes stoi throw, hence 0). *)
Fixpoint digits (s : string) (acc : Z) (seen : bool) : option Z :=
  match s with
  | EmptyString => if seen then Some acc else None
  | String c r =>
      match digit_of c with
      | Some d => digits r (Z.min (acc * 10 + d) 1099511627776) true
      | None => if seen then Some acc else None
      end
  end.

Definition INT_MAX : Z := 2147483647.
Definition INT_MIN : Z := -2147483648.

Definition stoi (tok : string) : Z :=
  let '(neg, body) :=
    match tok with
    | String "-"%char r => (true, r)
    | String "+"%char r => (false, r)
    | _ => (false, tok)
    end in
  match digits body 0 false with
  | None => 0%Z
  | Some v =>
      let v' := if neg then Z.opp v else v in
      if (Z.leb INT_MIN v' && Z.leb v' INT_MAX)%bool then v' else 0%Z
  end.

(* ---------------------------------------------------------------------------------- *)
(** * Move syntax: TextIO::uciStringToMove returns a non-empty move *)

Definition file_ok (c : ascii) : bool := let n := N_of_ascii c in (N.leb 97 n && N.leb n 104)%bool.
Definition rank_ok (c : ascii) : bool := let n := N_of_ascii c in (N.leb 49 n && N.leb n 56)%bool.
Definition prom_ok (c : ascii) : bool :=
  let n := N_of_ascii c in (N.eqb n 113 || N.eqb n 114 || N.eqb n 98 || N.eqb n 110)%bool.  (* q r b n *)

Definition is_move (tok : string) : bool :=
  match tok with
  | String f1 (String r1 (String f2 (String r2 rest))) =>
      (file_ok f1 && rank_ok r1 && file_ok f2 && rank_ok r2 &&
       match rest with
       | EmptyString => true
       | String p EmptyString =>
           (N.eqb (N_of_ascii r2) 56 || N.eqb (N_of_ascii r2) 49) && prom_ok p
       | _ => false
       end &&
       (* Move::isEmpty(): from == a1 && to == a1 *)
       negb (N.eqb (N_of_ascii f1) 97 && N.eqb (N_of_ascii r1) 49 &&
             N.eqb (N_of_ascii f2) 97 && N.eqb (N_of_ascii r2) 49))%bool
  | _ => false
  end.

(* ---------------------------------------------------------------------------------- *)
(** * Declared options (Parameters::Parameters(), lower-cased as Parameters::addPar stores them).
    The check compares this list with the `option name ...` lines the real binary prints. *)

Definition option_names : list string :=
  [ "uci_engineabout"; "threads"; "hash"; "multipv"; "ponder"; "uci_analysemode"; "ownbook";
    "bookfile"; "usenullmove"; "analysisagehash"; "clear hash"; "strength"; "maxnps";
    "uci_limitstrength"; "uci_elo"; "contempt"; "analyzecontempt"; "autocontempt";
    "contemptfile"; "uci_opponent"; "gaviotatbpath"; "gaviotatbcache"; "syzygypath";
    "minprobedepth"; "minprobedepth6"; "minprobedepth6dtz"; "minprobedepth7";
    "minprobedepth7dtz"; "buffertime" ].

Fixpoint mem_string (s : string) (l : list string) : bool :=
  match l with
  | [] => false
  | x :: r => if string_dec s x then true else mem_string s r
  end.

(** Parameters::getParam(name) != nullptr  (getParam lower-cases its argument) *)
Definition known_option (name : string) : bool := mem_string (toLowerCase name) option_names.

(* ---------------------------------------------------------------------------------- *)
(** * Abstract commands *)

(** What EngineControl::computeTimeLimit leaves in (maxTimeLimit, maxDepth, maxNodes), as far as
    the control logic looks at it: [infinite = maxTimeLimit < 0 && maxDepth < 0 && maxNodes < 0].
    [LimUnknown]: the members are uninitialised (no [go] yet), or the outcome depends on data the
    control model does not carry (a negative clock for one side only: which clock is used
    depends on the side to move). *)
Inductive lim := LimNone | LimSome | LimUnknown.

Inductive cmd :=
| CEmpty                       (* blank line: nothing happens *)
| CUnknown                     (* first word matches no command: nothing happens *)
| CUci
| CIsReady
| CSetOptionBare               (* "setoption" with < 2 tokens or tokens[1] <> "name": initEngine only *)
| CSetOption (known : bool)    (* "setoption name N [value V]"; known = Parameters::getParam(N) *)
| CNewGame
| CPosition                    (* any "position ..." (a ChessParseError is caught): no engine call *)
| CGo (ponder : bool) (l : lim)
| CStop
| CPonderHit
| CQuit
| CEof.                        (* end of input: `!is.good()` in UCIProtocol::mainLoop *)

(** setoption: option name = lower-cased tokens up to "value", joined by single spaces, trimmed *)
Fixpoint opt_name (toks : list string) (acc : string) : string :=
  match toks with
  | [] => acc
  | t :: r =>
      if string_dec t "value" then acc
      else opt_name r (if string_dec acc "" then toLowerCase t else acc ++ " " ++ toLowerCase t)
  end.

(** go: the sub-command loop of handleCommand *)
Record goacc := mkGo {
  g_ponder : bool; g_infinite : bool;
  g_wtime : Z; g_btime : Z; g_depth : Z; g_nodes : Z; g_mate : Z; g_movetime : Z }.

Definition go0 : goacc := mkGo false false 0 0 0 0 0 0.

Fixpoint skip_moves (toks : list string) : list string :=
  match toks with
  | t :: r => if is_move t then skip_moves r else toks
  | [] => []
  end.

(** [fuel] = number of tokens (every iteration consumes at least one) *)
Fixpoint go_loop (fuel : nat) (toks : list string) (a : goacc) : goacc :=
  match fuel with
  | O => a
  | S fuel' =>
      match toks with
      | [] => a
      | sub :: r =>
          let num (upd : Z -> goacc) :=
            match r with
            | v :: r' => go_loop fuel' r' (upd (stoi v))
            | [] => a
            end in
          if string_dec sub "searchmoves" then go_loop fuel' (skip_moves r) a
          else if string_dec sub "ponder" then
            go_loop fuel' r (mkGo true (g_infinite a) (g_wtime a) (g_btime a) (g_depth a) (g_nodes a) (g_mate a) (g_movetime a))
          else if string_dec sub "wtime" then
            num (fun v => mkGo (g_ponder a) (g_infinite a) v (g_btime a) (g_depth a) (g_nodes a) (g_mate a) (g_movetime a))
          else if string_dec sub "btime" then
            num (fun v => mkGo (g_ponder a) (g_infinite a) (g_wtime a) v (g_depth a) (g_nodes a) (g_mate a) (g_movetime a))
          else if string_dec sub "winc" then num (fun _ => a)
          else if string_dec sub "binc" then num (fun _ => a)
          else if string_dec sub "movestogo" then num (fun _ => a)
          else if string_dec sub "depth" then
            num (fun v => mkGo (g_ponder a) (g_infinite a) (g_wtime a) (g_btime a) v (g_nodes a) (g_mate a) (g_movetime a))
          else if string_dec sub "nodes" then
            num (fun v => mkGo (g_ponder a) (g_infinite a) (g_wtime a) (g_btime a) (g_depth a) v (g_mate a) (g_movetime a))
          else if string_dec sub "mate" then
            num (fun v => mkGo (g_ponder a) (g_infinite a) (g_wtime a) (g_btime a) (g_depth a) (g_nodes a) v (g_movetime a))
          else if string_dec sub "movetime" then
            num (fun v => mkGo (g_ponder a) (g_infinite a) (g_wtime a) (g_btime a) (g_depth a) (g_nodes a) (g_mate a) v)
          else if string_dec sub "infinite" then
            go_loop fuel' r (mkGo (g_ponder a) true (g_wtime a) (g_btime a) (g_depth a) (g_nodes a) (g_mate a) (g_movetime a))
          else go_loop fuel' r a
      end
  end.

(** EngineControl::computeTimeLimit, reduced to "is any of maxTimeLimit/maxDepth/maxNodes >= 0".
    Clock branch: time = (white to move ? wTime : bTime); for time >= 0 the clamp upper bound
    time - margin is >= 0, for time < 0 it is negative and so is maxTimeLimit. *)
Definition go_lim (a : goacc) : lim :=
  if g_infinite a then LimNone
  else if (Z.ltb 0 (g_depth a) || Z.ltb 0 (g_mate a) || Z.ltb 0 (g_nodes a) || Z.ltb 0 (g_movetime a))%bool then LimSome
  else if (negb (Z.eqb (g_wtime a) 0) || negb (Z.eqb (g_btime a) 0))%bool then
    if (Z.leb 0 (g_wtime a) && Z.leb 0 (g_btime a))%bool then LimSome
    else if (Z.ltb (g_wtime a) 0 && Z.ltb (g_btime a) 0)%bool then LimNone
    else LimUnknown
  else LimNone.

Definition classify (toks : list string) : cmd :=
  match toks with
  | [] => CEmpty
  | c :: args =>
      if string_dec c "uci" then CUci
      else if string_dec c "isready" then CIsReady
      else if string_dec c "setoption" then
        match args with
        | [] => CSetOptionBare
        | t1 :: rest =>
            if string_dec t1 "name" then CSetOption (known_option (opt_name rest ""))
            else CSetOptionBare
        end
      else if string_dec c "ucinewgame" then CNewGame
      else if string_dec c "position" then CPosition
      else if string_dec c "go" then
        let a := go_loop (List.length args) args go0 in CGo (g_ponder a) (go_lim a)
      else if string_dec c "stop" then CStop
      else if string_dec c "ponderhit" then CPonderHit
      else if string_dec c "quit" then CQuit
      else if string_dec c "" then CEmpty
      else CUnknown
  end.

Definition parse_line (line : string) : cmd := classify (tokenize line).

(* ---------------------------------------------------------------------------------- *)
(** * Output lines (canonical) and micro-actions of the UCI thread *)

Inductive output :=
| OUciOk        (* the block "id name / id author / option ... / uciok" *)
| OReadyOk
| OInfo         (* search output: any "info ..." line except "info string ..." *)
| OInfoStr      (* "info string ..." (evaluation print-out of `go`, messages of option listeners) *)
| OBestmove.    (* "bestmove m [ponder p]" *)

Inductive action :=
| AOut (o : output)        (* os << ... << endl on the UCI thread *)
| AInitEngine              (* initEngine(): if (!engine) engine = make_unique<EngineControl> *)
| ADeref                   (* evaluation of `engine->` : null when the object does not exist *)
| AWaitReady               (* EngineControl::waitReady: if (!sc) engineThread.waitOptionsSet() *)
| ASetOption (known : bool)(* EngineMainThread::setOptionWhenIdle *)
| ATimeLimit0              (* stopThread: if (sc) sc->timeLimit(0, 0) *)
| ASetInfinite (b : bool)  (* infinite = b *)
| ASetInfiniteLim          (* infinite = (maxTimeLimit < 0) && (maxDepth < 0) && (maxNodes < 0) *)
| ASetPonder (b : bool)    (* ponder = b *)
| AWaitStop                (* EngineMainThread::waitStop: while (search) searchStopped.wait *)
| AWaitOptionsSet          (* EngineMainThread::waitOptionsSet: while (!optionsSetFinished) wait *)
| AComputeLimits (l : lim) (* setupPosition; computeTimeLimit(sPar)  -- reads option values *)
| ANewSearch               (* startThread: sc = make_shared<Search>(...) ... reads option values *)
| AEvalInfo                (* startThread: if (analyseMode || infinite) print "info string eval ..." lines *)
| AHandOver                (* EngineMainThread::startSearch: { lock; search = true; } notifier.notify() *)
| ASetQuit                 (* quit = true *)
| ALoopTest                (* UCIProtocol::mainLoop: if (quit) break; *)
| AEngineQuit.             (* engineThread.quit(): { lock; quitFlag = true; notifier.notify(); }; thread returns *)

(** EngineControl::stopThread *)
Definition stopThread : list action :=
  [ATimeLimit0; ASetInfinite false; ASetPonder false; AWaitStop; AWaitOptionsSet].

(** EngineControl::startSearch / startPonder followed by startThread *)
Definition startSearch (l : lim) : list action :=
  stopThread ++ [AComputeLimits l; ASetPonder false; ASetInfiniteLim; ANewSearch; AEvalInfo; AHandOver].
Definition startPonder (l : lim) : list action :=
  stopThread ++ [AComputeLimits l; ASetPonder true; ASetInfinite false; ANewSearch; AEvalInfo; AHandOver].

(** EngineControl::ponderHit: `if (sc) sc->timeLimit(min, max, early)` only re-arms the clock of
    the running search (no control effect); then infinite = ...; ponder = false. *)
Definition ponderHit : list action := [ASetInfiniteLim; ASetPonder false].

(** `if (engine) engine->f()` *)
Definition if_engine (engine : bool) (body : list action) : list action :=
  if engine then ADeref :: body else [].

(** UCIProtocol::handleCommand.  [engine] = the value of the `engine` pointer test at the time
    the command is dispatched (only this thread ever writes the pointer). *)
Definition handleCommand (g : bool) (engine : bool) (c : cmd) : list action :=
  match c with
  | CEmpty => []
  | CUnknown => []
  | CUci => [AOut OUciOk]
  | CIsReady => [AInitEngine; ADeref; AWaitReady; AOut OReadyOk]
  | CSetOptionBare => [AInitEngine]
  | CSetOption k => [AInitEngine; ADeref; ASetOption k]
  | CNewGame => if_engine engine [ASetOption true]                (* newGame -> setOption("Clear Hash") *)
  | CPosition => []
  | CGo false l => [AInitEngine; ADeref] ++ startSearch l
  | CGo true l => [AInitEngine; ADeref] ++ startPonder l
  | CStop => if_engine engine stopThread
  | CPonderHit => if g then if_engine engine ponderHit else ADeref :: ponderHit
  | CQuit => if_engine engine stopThread ++ [ASetQuit]
  | CEof => []                                                     (* handled by the main loop *)
  end.

(** UCIProtocol::mainLoop around one input event: the action list the thread runs before it
    reads again (or returns). *)
Definition mainLoopBody (g : bool) (engine : bool) (c : cmd) : list action :=
  match c with
  | CEof => if_engine engine stopThread ++ [AEngineQuit]
  | _ => handleCommand g engine c ++ [ALoopTest]
  end.

(** the finitely many abstract commands (the input alphabet of the LTS) *)
Definition all_cmds : list cmd :=
  [CEmpty; CUnknown; CUci; CIsReady; CSetOptionBare; CSetOption true; CSetOption false; CNewGame; CPosition;
   CGo false LimNone; CGo false LimSome; CGo false LimUnknown;
   CGo true LimNone; CGo true LimSome; CGo true LimUnknown;
   CStop; CPonderHit; CQuit; CEof].
