(** C05 — trace-inclusion checker (executable, extracted).

    An observation is the interleaved sequence of
      [EvSend c]   a command line (or end of input) written to the engine's stdin,
      [EvOut o]    a canonical output line read from its stdout,
      [EvExit0] / [EvCrash]   the process ended with status 0 / was killed by a signal.
    A command that has been written is only read by the engine later, so sent commands wait in
    a queue; a configuration is a model state plus the number of sent commands already read.
    [reject_at] simulates the set of configurations the model can be in (all interleavings, all
    oracle choices) and returns the index of the first event no configuration can perform. *)
From Coq Require Import List Bool PeanoNat.
From Texel Require Import Ctl.Uci Ctl.Engine Ctl.Dec.
Import ListNotations.

Inductive event :=
| EvSend (c : cmd)
| EvOut (o : output)
| EvExit0
| EvCrash.

Definition config := (state * nat)%type.

Definition cfg_eqb (a b : config) : bool := (Nat.eqb (snd a) (snd b) && state_eqb (fst a) (fst b))%bool.

Fixpoint cfg_mem (c : config) (l : list config) : bool :=
  match l with [] => false | x :: r => if cfg_eqb c x then true else cfg_mem c r end.

Fixpoint dedup (l acc : list config) : list config :=
  match l with
  | [] => acc
  | x :: r => if cfg_mem x acc then dedup r acc else dedup r (x :: acc)
  end.

(** labels that leave no mark on stdout (exit and crash are observed through the final state) *)
Definition silent (l : label) : bool :=
  match l with LOut _ => false | LRead _ => false | _ => true end.

(** unobservable moves of a configuration: silent steps, and reading the next queued command *)
Definition isuccs (g : bool) (sent : list cmd) (c : config) : list config :=
  let '(s, n) := c in
  map (fun ls => (snd ls, n)) (filter (fun ls => silent (fst ls)) (steps s)) ++
  match nth_error sent n with
  | Some cm => match read g s cm with Some s' => [(s', S n)] | None => [] end
  | None => []
  end.

Definition is_out (o : output) (l : label) : bool :=
  match l with LOut o' => if output_eq_dec o o' then true else false | _ => false end.

Definition osuccs (o : output) (c : config) : list config :=
  let '(s, n) := c in map (fun ls => (snd ls, n)) (filter (fun ls => is_out o (fst ls)) (steps s)).

(** closure under [isuccs]; [None] when the fuel runs out (treated as rejection) *)
Fixpoint closure (g : bool) (sent : list cmd) (fuel : nat) (work acc : list config) : option (list config) :=
  match fuel with
  | O => None
  | S f =>
      match work with
      | [] => Some acc
      | c :: w =>
          if cfg_mem c acc then closure g sent f w acc
          else closure g sent f (isuccs g sent c ++ w) (c :: acc)
      end
  end.

Fixpoint sim (g : bool) (fuel : nat) (sent : list cmd) (cfgs : list config) (evs : list event) (idx : nat) : option nat :=
  match evs with
  | [] => match cfgs with [] => Some idx | _ => None end
  | EvSend c :: r => sim g fuel (sent ++ [c]) cfgs r (S idx)
  | ev :: r =>
      match closure g sent fuel cfgs [] with
      | None => Some idx
      | Some cl =>
          let nx :=
            match ev with
            | EvOut o => dedup (flat_map (osuccs o) cl) []
            | EvExit0 => filter (fun c => exited (fst c)) cl
            | EvCrash => filter (fun c => crashed (fst c)) cl
            | EvSend _ => cl
            end in
          match nx with
          | [] => Some idx
          | _ => sim g fuel sent nx r (S idx)
          end
      end
  end.

(** [None] = the observation is a trace of the model; [Some i] = event number i is impossible *)
Definition reject_at (g : bool) (fuel : nat) (evs : list event) : option nat :=
  sim g fuel [] [(init, 0)] evs 0.

Definition accepts (g : bool) (fuel : nat) (evs : list event) : bool :=
  match reject_at g fuel evs with None => true | Some _ => false end.
