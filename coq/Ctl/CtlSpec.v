(** C05 — specification side: what the contract says about a run of the LTS, in terms of the
    labels (commands read, lines printed) only; plus the few state functions the statements
    mention.  Independent of how the model reaches its states. *)
From Coq Require Import List Bool PeanoNat.
From Texel Require Import Ctl.Uci Ctl.Engine.
Import ListNotations.

Definition count (p : label -> bool) (tr : list label) : nat := length (filter p tr).

Definition is_go (l : label) : bool := match l with LRead (CGo _ _) => true | _ => false end.
Definition is_bestmove (l : label) : bool := match l with LOut OBestmove => true | _ => false end.
Definition is_isready (l : label) : bool := match l with LRead CIsReady => true | _ => false end.
Definition is_readyok (l : label) : bool := match l with LOut OReadyOk => true | _ => false end.
Definition is_uci (l : label) : bool := match l with LRead CUci => true | _ => false end.
Definition is_uciok (l : label) : bool := match l with LOut OUciOk => true | _ => false end.
(** search output: info lines of the search, and bestmove *)
Definition is_search_output (l : label) : bool :=
  match l with LOut OInfo => true | LOut OBestmove => true | _ => false end.
Definition is_info (l : label) : bool := match l with LOut OInfo => true | LOut OInfoStr => true | _ => false end.

(** commands whose handling releases a withheld bestmove *)
Definition releases (c : cmd) : bool :=
  match c with CStop | CPonderHit | CGo _ _ | CQuit | CEof => true | _ => false end.

(** [held_after tr]: the latest search was handed to the engine thread in ponder or infinite
    mode and no stop / ponderhit / go / quit / end of input has been read since *)
Definition held_upd (w : bool) (l : label) : bool :=
  match l with
  | LStart h => h
  | LRead c => if releases c then false else w
  | _ => w
  end.
Definition held_after (tr : list label) : bool := fold_left held_upd tr false.

(** searches the state still owes an answer to: one the UCI thread has not handed over yet (the
    rest of a `go` body), one the engine thread holds and has not answered *)
Fixpoint has_action (a : action -> bool) (l : list action) : bool :=
  match l with [] => false | x :: r => (a x || has_action a r)%bool end.
Definition is_handover (a : action) : bool := match a with AHandOver => true | _ => false end.
Definition is_out_readyok (a : action) : bool := match a with AOut OReadyOk => true | _ => false end.
Definition is_out_uciok (a : action) : bool := match a with AOut OUciOk => true | _ => false end.

(** engine thread is behind the bestmove of the search it holds *)
Definition answered (e : epcT) : bool :=
  match e with EStopAck | ESetOpt true | EApply true | EClearSearch => true | _ => false end.

Definition b2n (b : bool) : nat := if b then 1 else 0.

Definition outstanding (s : state) : nat :=
  b2n (has_action is_handover (upc s)) + b2n (search s && negb (answered (epc s))).

Definition readyok_due (s : state) : nat := b2n (has_action is_out_readyok (upc s)).
Definition uciok_due (s : state) : nat := b2n (has_action is_out_uciok (upc s)).

(** the engine thread is inside doSearch *)
Definition in_search (e : epcT) : bool :=
  match e with EBook | ESearch | EHold _ | EFinish _ | EStopAck => true | _ => false end.

(** actions of the UCI thread that read option values (UciParams::...->get...Par()) *)
Definition reads_options (a : action) : bool :=
  match a with AComputeLimits _ | ANewSearch | AEvalInfo | AHandOver => true | _ => false end.

(** the UCI thread stands at a blocking call whose condition is false *)
Definition uci_blocked (s : state) : bool :=
  match upc s with
  | AWaitReady :: _ => (negb (sc s) && negb (finished s))%bool
  | AWaitStop :: _ => search s
  | AWaitOptionsSet :: _ => negb (finished s)
  | _ => false
  end.

(** steps taken by the engine thread alone *)
Inductive erun : state -> nat -> state -> Prop :=
| erun_nil : forall s, erun s 0 s
| erun_cons : forall s l s' n s'', dead s = false -> In (l, s') (estep s) -> erun s' n s'' -> erun s (S n) s''.
