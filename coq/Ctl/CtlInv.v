(** C05 — the product system explored by reflection, and the (boolean) state and transition
    invariants that are checked on every reachable state / every enabled step.
    Executable definitions only; the proofs are in CtlProofs.v. *)
From Coq Require Import List Bool PArith NArith PeanoNat.
From Texel Require Import Ctl.Uci Ctl.Engine Ctl.Dec Ctl.CtlSpec Ctl.Reach.
Import ListNotations.

(* ---------------------------------------------------------------------------------- *)
(** * Hashing of states (any function would do: only speed depends on it) *)
Local Open Scope N_scope.
Definition nb (b : bool) : N := if b then 1 else 0.
Definition n_lim (l : lim) : N := match l with LimNone => 0 | LimSome => 1 | LimUnknown => 2 end.
Definition n_out (o : output) : N :=
  match o with OUciOk => 0 | OReadyOk => 1 | OInfo => 2 | OInfoStr => 3 | OBestmove => 4 end.
Definition n_action (a : action) : N :=
  match a with
  | AOut o => n_out o | AInitEngine => 5 | ADeref => 6 | AWaitReady => 7 | ASetOption k => 8 + nb k
  | ATimeLimit0 => 10 | ASetInfinite b => 11 + nb b | ASetInfiniteLim => 13 | ASetPonder b => 14 + nb b
  | AWaitStop => 16 | AWaitOptionsSet => 17 | AComputeLimits l => 18 + n_lim l | ANewSearch => 21
  | AEvalInfo => 22 | AHandOver => 23 | ASetQuit => 24 | ALoopTest => 25 | AEngineQuit => 26
  end.
Definition n_epc (e : epcT) : N :=
  match e with
  | EWait => 0 | ECheckQuit => 1 | ESetOpt b => 2 + nb b | EApply b => 4 + nb b | ECheckSearch => 6
  | EBook => 7 | ESearch => 8 | EHold b => 9 + nb b | EFinish b => 11 + nb b | EStopAck => 13
  | EClearSearch => 14 | EExited => 15
  end.
Definition n_bits (l : list bool) : N := fold_left (fun a b => 2 * a + nb b) l 0.
Definition n_state (s : state) : N :=
  let a := fold_left (fun a x => 32 * a + n_action x + 1) (upc s) 0 in
  let b := n_bits [udone s; uquit s; engine s; sc s; ponder s; infinite s; stopreq s; search s; quitFlag s;
                   notified s; pending s; finished s; crashed s; exited s] in
  ((a * 16 + n_epc (epc s)) * 4 + n_lim (limits s)) * 16384 + b.
Local Close Scope N_scope.

(* ---------------------------------------------------------------------------------- *)
(** * Product of the LTS with the one-bit monitor [held_upd] of the withholding rule *)
Definition pst := (state * bool)%type.
Definition pst_eqb (a b : pst) : bool := (Bool.eqb (snd a) (snd b) && state_eqb (fst a) (fst b))%bool.
Definition pst_hash (p : pst) : positive := N.succ_pos (2 * n_state (fst p) + nb (snd p)).
Definition psuccs (g : bool) (p : pst) : list (label * pst) :=
  map (fun ls => (fst ls, (snd ls, held_upd (snd p) (fst ls)))) (all_steps g (fst p)).
Definition p0 : pst := (init, false).

Lemma pst_eqb_true : forall a b, pst_eqb a b = true -> a = b.
Proof.
  intros [s w] [s' w']; unfold pst_eqb; simpl; intro H.
  apply andb_true_iff in H. destruct H as [H1 H2].
  apply Bool.eqb_prop in H1. apply state_eqb_true in H2. subst. reflexivity.
Qed.

(** rounds of breadth-first exploration (more than the diameter of the state graph) *)
Definition rounds : nat := 400.
Definition reachset (g : bool) : list pst := reach pst label pst_eqb pst_hash (psuccs g) p0 rounds.

(* ---------------------------------------------------------------------------------- *)
(** * Termination measure and regions used by the liveness statements *)

Definition is_read (l : label) : bool := match l with LRead _ => true | _ => false end.
Definition moves (s : state) (ls : label * state) : bool := negb (state_eqb (snd ls) s).

(** the engine thread's next step when the search finishes as late as the control flow allows
    (no book move, then the search returns) *)
Definition enext (s : state) : option state :=
  match epc s with
  | EBook => Some (set_epc ESearch s)
  | ESearch => Some (set_epc (EHold true) s)
  | _ => match rev (estep s) with (_, s') :: _ => Some s' | [] => None end
  end.

Fixpoint esim (fuel : nat) (s : state) : nat :=
  match fuel with
  | O => 0
  | S f => if dead s then 0 else match enext s with Some s' => S (esim f s') | None => 0 end
  end.

Definition aweight (a : action) : nat := match a with ALoopTest => 2 | _ => 1 end.
Definition uweight (s : state) : nat := fold_right (fun a n => aweight a + n) 0 (upc s).

(** every state-changing step other than reading input decreases [rank] *)
Definition rank (s : state) : nat := if dead s then 0 else 64 * uweight s + esim 63 s + 1.

Definition is_waitstop (a : action) : bool := match a with AWaitStop => true | _ => false end.
Definition is_enginequit (a : action) : bool := match a with AEngineQuit => true | _ => false end.
Definition is_looptest (a : action) : bool := match a with ALoopTest => true | _ => false end.
Definition is_setquit (a : action) : bool := match a with ASetQuit => true | _ => false end.

(** the UCI thread is inside stopThread (before waitStop returned) and the engine thread holds a
    search it has not answered *)
Definition stopping (s : state) : bool :=
  (negb (dead s) && has_action is_waitstop (upc s) && search s && negb (answered (epc s)))%bool.

(** `quit` or end of input has been read and the process has not ended *)
Definition quitting (s : state) : bool :=
  (negb (dead s) &&
   (udone s || has_action is_enginequit (upc s) ||
    (has_action is_looptest (upc s) && (uquit s || has_action is_setquit (upc s)))))%bool.

(** the engine thread alone can make the UCI thread's blocking condition true *)
Fixpoint unblocks (n : nat) (s : state) : bool :=
  if negb (uci_blocked s) then true
  else match n with
       | O => false
       | S n' => if dead s then false else match enext s with Some s' => unblocks n' s' | None => false end
       end.

Definition no_deadlock (s : state) : bool := (dead s || awaiting_input s || existsb (moves s) (steps s))%bool.

(* ---------------------------------------------------------------------------------- *)
(** * The invariants *)

Definition head_reads_options (s : state) : bool :=
  match upc s with a :: _ => reads_options a | [] => false end.
Definition applying (e : epcT) : bool := match e with EApply _ => true | _ => false end.
Definition imp (a b : bool) : bool := (negb a || b)%bool.

Definition sinv (g : bool) (p : pst) : bool :=
  let s := fst p in
  (Nat.leb (outstanding s) 2
   && imp (awaiting_input s) (Nat.leb (outstanding s) 1)
   && imp (udone s) (Nat.eqb (outstanding s) 0 && Nat.eqb (readyok_due s) 0 && Nat.eqb (uciok_due s) 0)
   && imp (search s) (engine s && sc s)
   && imp (head_reads_options s) (negb (pending s) && finished s && negb (applying (epc s)))
   && no_deadlock s
   && imp (uci_blocked s) (unblocks 16 s)
   && imp (uci_blocked s && search s && match epc s with ESearch => true | _ => false end) (stopreq s)
   && imp g (negb (crashed s))
   && imp (stopping s) (existsb (moves s) (steps s))
   && imp (quitting s) (existsb (moves s) (steps s))
   && Nat.leb (rank s) 1024)%bool.

Definition tinv (g : bool) (p : pst) (l : label) (q : pst) : bool :=
  let s := fst p in let s' := fst q in
  (Nat.eqb (outstanding s + b2n (is_go l)) (outstanding s' + b2n (is_bestmove l))
   && Nat.eqb (readyok_due s + b2n (is_isready l)) (readyok_due s' + b2n (is_readyok l))
   && Nat.eqb (uciok_due s + b2n (is_uci l)) (uciok_due s' + b2n (is_uciok l))
   && imp (is_search_output l) (Nat.leb 1 (outstanding s))
   && imp (snd p) (negb (is_bestmove l))
   && imp g (match l with LNullDeref => false | _ => true end)
   && imp (negb (is_read l) && negb (state_eqb s' s)) (Nat.ltb (rank s') (rank s))
   && imp (stopping s) (is_bestmove l || stopping s')
   && imp (quitting s) (quitting s' || exited s')
   && imp (match l with LRead CStop => Nat.leb 1 (outstanding s) | _ => false end) (stopping s')
   && imp (match l with LRead CQuit => true | LRead CEof => true | _ => false end) (quitting s'))%bool.

Definition check_all (g : bool) : bool :=
  check pst label pst_eqb pst_hash (psuccs g) p0 (sinv g) (tinv g) (reachset g).
