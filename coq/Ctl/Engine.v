(** C05 — engine control: the shared state of EngineControl / EngineMainThread
    (app/texel/enginecontrol.{hpp,cpp}) and the labelled transition system of the two threads
    (UCI thread: UCIProtocol::mainLoop; engine thread: EngineMainThread::mainLoop).
    Executable, no proofs.

    One step = one critical section / one atomic flag access / one output line.  The search
    itself (Search::iterativeDeepening, the book probe) is an oracle: it may print any number
    of info lines and may finish at any step; whether it has been told to stop is recorded in
    [stopreq] (sc->timeLimit(0,0)), which only the liveness statements look at. *)
From Coq Require Import List Bool.
From Texel Require Import Ctl.Uci.
Import ListNotations.

(** program counter of EngineMainThread::mainLoop (master node) *)
Inductive epcT :=
| EWait                    (* notifierWait(): blocked until Notifier::notified *)
| ECheckQuit               (* if (quitFlag) break; *)
| ESetOpt (after : bool)   (* setOptions(): { lock; options.swap(pendingOptions); empty? } ; after = the call behind doSearch *)
| EApply (after : bool)    (* setOptions(): params.set(...) for the swapped-out batch, outside the lock *)
| ECheckSearch             (* if (search) *)
| EBook                    (* doSearch: if (ownBook && !analyseMode && !*infinite) book probe *)
| ESearch                  (* doSearch: sc->iterativeDeepening(...) running *)
| EHold (wfs : bool)       (* doSearch: while ( *ponder || *infinite ) sleep 10ms;  wfs = waitForStop *)
| EFinish (wfs : bool)     (* engineControl->finishSearch: prints bestmove *)
| EStopAck                 (* stop-ack collection, then notifier.notify() *)
| EClearSearch             (* { lock; search = false; } searchStopped.notify_all() *)
| EExited.                 (* left the loop (quit hand-shake with the workers, then return) *)

Record state := mkState {
  upc : list action;
  udone : bool;
  uquit : bool;
  engine : bool;
  sc : bool;
  ponder : bool;
  infinite : bool;
  limits : lim;
  stopreq : bool;
  search : bool;
  quitFlag : bool;
  notified : bool;
  pending : bool;
  finished : bool;
  epc : epcT;
  crashed : bool;
  exited : bool }.

Definition set_upc (v : list action) (s : state) : state := mkState v (udone s) (uquit s) (engine s) (sc s) (ponder s) (infinite s) (limits s) (stopreq s) (search s) (quitFlag s) (notified s) (pending s) (finished s) (epc s) (crashed s) (exited s).
Definition set_udone (v : bool) (s : state) : state := mkState (upc s) v (uquit s) (engine s) (sc s) (ponder s) (infinite s) (limits s) (stopreq s) (search s) (quitFlag s) (notified s) (pending s) (finished s) (epc s) (crashed s) (exited s).
Definition set_uquit (v : bool) (s : state) : state := mkState (upc s) (udone s) v (engine s) (sc s) (ponder s) (infinite s) (limits s) (stopreq s) (search s) (quitFlag s) (notified s) (pending s) (finished s) (epc s) (crashed s) (exited s).
Definition set_engine (v : bool) (s : state) : state := mkState (upc s) (udone s) (uquit s) v (sc s) (ponder s) (infinite s) (limits s) (stopreq s) (search s) (quitFlag s) (notified s) (pending s) (finished s) (epc s) (crashed s) (exited s).
Definition set_sc (v : bool) (s : state) : state := mkState (upc s) (udone s) (uquit s) (engine s) v (ponder s) (infinite s) (limits s) (stopreq s) (search s) (quitFlag s) (notified s) (pending s) (finished s) (epc s) (crashed s) (exited s).
Definition set_ponder (v : bool) (s : state) : state := mkState (upc s) (udone s) (uquit s) (engine s) (sc s) v (infinite s) (limits s) (stopreq s) (search s) (quitFlag s) (notified s) (pending s) (finished s) (epc s) (crashed s) (exited s).
Definition set_infinite (v : bool) (s : state) : state := mkState (upc s) (udone s) (uquit s) (engine s) (sc s) (ponder s) v (limits s) (stopreq s) (search s) (quitFlag s) (notified s) (pending s) (finished s) (epc s) (crashed s) (exited s).
Definition set_limits (v : lim) (s : state) : state := mkState (upc s) (udone s) (uquit s) (engine s) (sc s) (ponder s) (infinite s) v (stopreq s) (search s) (quitFlag s) (notified s) (pending s) (finished s) (epc s) (crashed s) (exited s).
Definition set_stopreq (v : bool) (s : state) : state := mkState (upc s) (udone s) (uquit s) (engine s) (sc s) (ponder s) (infinite s) (limits s) v (search s) (quitFlag s) (notified s) (pending s) (finished s) (epc s) (crashed s) (exited s).
Definition set_search (v : bool) (s : state) : state := mkState (upc s) (udone s) (uquit s) (engine s) (sc s) (ponder s) (infinite s) (limits s) (stopreq s) v (quitFlag s) (notified s) (pending s) (finished s) (epc s) (crashed s) (exited s).
Definition set_quitFlag (v : bool) (s : state) : state := mkState (upc s) (udone s) (uquit s) (engine s) (sc s) (ponder s) (infinite s) (limits s) (stopreq s) (search s) v (notified s) (pending s) (finished s) (epc s) (crashed s) (exited s).
Definition set_notified (v : bool) (s : state) : state := mkState (upc s) (udone s) (uquit s) (engine s) (sc s) (ponder s) (infinite s) (limits s) (stopreq s) (search s) (quitFlag s) v (pending s) (finished s) (epc s) (crashed s) (exited s).
Definition set_pending (v : bool) (s : state) : state := mkState (upc s) (udone s) (uquit s) (engine s) (sc s) (ponder s) (infinite s) (limits s) (stopreq s) (search s) (quitFlag s) (notified s) v (finished s) (epc s) (crashed s) (exited s).
Definition set_finished (v : bool) (s : state) : state := mkState (upc s) (udone s) (uquit s) (engine s) (sc s) (ponder s) (infinite s) (limits s) (stopreq s) (search s) (quitFlag s) (notified s) (pending s) v (epc s) (crashed s) (exited s).
Definition set_epc (v : epcT) (s : state) : state := mkState (upc s) (udone s) (uquit s) (engine s) (sc s) (ponder s) (infinite s) (limits s) (stopreq s) (search s) (quitFlag s) (notified s) (pending s) (finished s) v (crashed s) (exited s).
Definition set_crashed (v : bool) (s : state) : state := mkState (upc s) (udone s) (uquit s) (engine s) (sc s) (ponder s) (infinite s) (limits s) (stopreq s) (search s) (quitFlag s) (notified s) (pending s) (finished s) (epc s) v (exited s).
Definition set_exited (v : bool) (s : state) : state := mkState (upc s) (udone s) (uquit s) (engine s) (sc s) (ponder s) (infinite s) (limits s) (stopreq s) (search s) (quitFlag s) (notified s) (pending s) (finished s) (epc s) (crashed s) v.

(** Initial state: UCIProtocol and EngineMainThread constructed, no EngineControl, both threads
    at their blocking read / wait.  optionsSetFinished is initialised to true; the limit members
    of EngineControl are not initialised by its constructor. *)
Definition init : state :=
  mkState [] false false false false false false LimUnknown false false false false false true EWait false false.

Inductive label :=
| LRead (c : cmd)        (* the UCI thread takes the next input line (or end of input) *)
| LOut (o : output)      (* one output line *)
| LStart (held : bool)   (* a search is handed to the engine thread; held = ponder || infinite *)
| LApply                 (* the engine thread stores a batch of option values (Parameters::set) *)
| LNullDeref             (* `engine->` evaluated with engine == nullptr *)
| LExit                  (* both threads returned: main returns 0 *)
| LTau.

(** values [infinite = (maxTimeLimit < 0) && (maxDepth < 0) && (maxNodes < 0)] can take *)
Definition lim_infinite (l : lim) : list bool :=
  match l with LimNone => [true] | LimSome => [false] | LimUnknown => [true; false] end.

(** steps of the UCI thread while it executes a command body *)
Definition ustep (s : state) : list (label * state) :=
  match upc s with
  | [] => []
  | a :: rest =>
      let k := set_upc rest s in
      match a with
      | AOut o => [(LOut o, k)]
      | AInitEngine => [(LTau, set_engine true k)]
      | ADeref => if engine s then [(LTau, k)] else [(LNullDeref, set_crashed true s)]
      | AWaitReady => if sc s then [(LTau, k)] else if finished s then [(LTau, k)] else []
      | ASetOption known =>
          [(LTau, set_notified true (if known then set_pending true (set_finished false k) else k))]
      | ATimeLimit0 => [(LTau, if sc s then set_stopreq true k else k)]
      | ASetInfinite b => [(LTau, set_infinite b k)]
      | ASetInfiniteLim => map (fun b => (LTau, set_infinite b k)) (lim_infinite (limits s))
      | ASetPonder b => [(LTau, set_ponder b k)]
      | AWaitStop => if search s then [] else [(LTau, k)]
      | AWaitOptionsSet => if finished s then [(LTau, k)] else []
      | AComputeLimits l => [(LTau, set_limits l k)]
      | ANewSearch => [(LTau, set_sc true (set_stopreq false k))]
      | AEvalInfo =>
          (* one or more "info string eval ..." lines; printed iff analyseMode || infinite
             (the value of UCI_AnalyseMode is not modelled: may print when infinite is false) *)
          (LOut OInfoStr, s) :: (LOut OInfoStr, k) :: (if infinite s then [] else [(LTau, k)])
      | AHandOver => [(LStart (ponder s || infinite s), set_search true (set_notified true k))]
      | ASetQuit => [(LTau, set_uquit true k)]
      | ALoopTest => [(LTau, if uquit s then set_upc [AEngineQuit] s else k)]
      | AEngineQuit => [(LTau, set_quitFlag true (set_notified true (set_udone true k)))]
      end
  end.

(** steps of the engine thread *)
Definition estep (s : state) : list (label * state) :=
  match epc s with
  | EWait => if notified s then [(LTau, set_notified false (set_epc ECheckQuit s))] else []
  | ECheckQuit => [(LTau, set_epc (if quitFlag s then EExited else ESetOpt false) s)]
  | ESetOpt after =>
      if pending s then [(LTau, set_pending false (set_epc (EApply after) s))]
      else [(LTau, set_finished true (set_epc (if after then EClearSearch else ECheckSearch) s))]
  | EApply after =>
      (* Parameters::set runs the option's listeners, which may print "info string ..."
         (e.g. "Found N syzygy tablebases" when SyzygyPath is set) *)
      [(LOut OInfoStr, s); (LApply, set_epc (ESetOpt after) s)]
  | ECheckSearch => [(LTau, set_epc (if search s then EBook else EWait) s)]
  | EBook => (LTau, set_epc ESearch s) :: (if infinite s then [] else [(LTau, set_epc (EHold false) s)])
  | ESearch => [(LOut OInfo, s); (LTau, set_epc (EHold true) s)]
  | EHold w => if (ponder s || infinite s)%bool then [] else [(LTau, set_epc (EFinish w) s)]
  | EFinish w => [(LOut OBestmove, set_epc (if w then EStopAck else ESetOpt true) s)]
  | EStopAck => [(LTau, set_notified true (set_epc (ESetOpt true) s))]
  | EClearSearch => [(LTau, set_search false (set_epc EWait s))]
  | EExited => []
  end.

(** process exit: UCIProtocol::main joins the UCI thread after the engine loop returned *)
Definition pstep (s : state) : list (label * state) :=
  match epc s with
  | EExited => if udone s then [(LExit, set_exited true s)] else []
  | _ => []
  end.

Definition dead (s : state) : bool := (crashed s || exited s)%bool.

(** all enabled steps except reading input *)
Definition steps (s : state) : list (label * state) :=
  if dead s then [] else ustep s ++ estep s ++ pstep s.

(** the UCI thread is in getline *)
Definition awaiting_input (s : state) : bool :=
  (negb (dead s) && negb (udone s) && match upc s with [] => true | _ => false end)%bool.

(** reading one input event *)
Definition read (g : bool) (s : state) (c : cmd) : option state :=
  if awaiting_input s then Some (set_upc (mainLoopBody g (engine s) c) s) else None.

(** every enabled step, the environment offering every abstract command *)
Definition all_steps (g : bool) (s : state) : list (label * state) :=
  steps s ++
  flat_map (fun c => match read g s c with Some s' => [(LRead c, s')] | None => [] end) all_cmds.

(** the transition relation and its runs ([g] = ponderhit_guarded) *)
Inductive Step (g : bool) (s : state) : label -> state -> Prop :=
| StepInt : forall l s', In (l, s') (steps s) -> Step g s l s'
| StepRead : forall c s', read g s c = Some s' -> Step g s (LRead c) s'.

Inductive run (g : bool) : state -> list label -> state -> Prop :=
| run_nil : forall s, run g s [] s
| run_cons : forall s l s' tr s'', Step g s l s' -> run g s' tr s'' -> run g s (l :: tr) s''.

Definition reachable (g : bool) (s : state) : Prop := exists tr, run g init tr s.
