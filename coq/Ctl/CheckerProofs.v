(** C05 — soundness of the trace-inclusion checker: an accepted observation is explained by a
    run of the LTS (same output lines in the same order, the commands read are a prefix of the
    commands sent, in order, each read after it was sent; exit / crash match the final state). *)
From Coq Require Import List Bool PeanoNat Lia.
From Texel Require Import Ctl.Uci Ctl.Engine Ctl.Dec Ctl.Checker Ctl.CtlProofs.
Import ListNotations.

Definition ev_outputs (evs : list event) : list output :=
  flat_map (fun e => match e with EvOut o => [o] | _ => [] end) evs.
Definition ev_sends (evs : list event) : list cmd :=
  flat_map (fun e => match e with EvSend c => [c] | _ => [] end) evs.
Definition tr_outputs (tr : list label) : list output :=
  flat_map (fun l => match l with LOut o => [o] | _ => [] end) tr.
Definition tr_reads (tr : list label) : list cmd :=
  flat_map (fun l => match l with LRead c => [c] | _ => [] end) tr.

Definition Good (g : bool) (sent : list cmd) (done : list event) (c : config) : Prop :=
  exists tr, run g init tr (fst c) /\ tr_outputs tr = ev_outputs done /\
             tr_reads tr = firstn (snd c) sent /\ snd c <= length sent /\
             (In EvExit0 done -> exited (fst c) = true) /\ (In EvCrash done -> crashed (fst c) = true).

Lemma flat_map_snoc : forall (A B : Type) (f : A -> list B) l x, flat_map f (l ++ [x]) = flat_map f l ++ f x.
Proof. intros. rewrite flat_map_app. simpl. rewrite app_nil_r. reflexivity. Qed.

Lemma firstn_snoc_nth : forall (A : Type) (l : list A) n x, nth_error l n = Some x -> firstn (S n) l = firstn n l ++ [x].
Proof.
  induction l as [| y l IH]; intros [| n] x H; simpl in *; try discriminate.
  - inversion H; reflexivity.
  - f_equal. apply IH. exact H.
Qed.

Lemma dead_steps : forall s, dead s = true -> steps s = [].
Proof. intros s D. unfold steps. rewrite D. reflexivity. Qed.

Lemma state_dead_exited : forall s, exited s = true -> dead s = true.
Proof. intros; unfold dead; rewrite H; apply orb_true_r. Qed.
Lemma state_dead_crashed : forall s, crashed s = true -> dead s = true.
Proof. intros; unfold dead; rewrite H; reflexivity. Qed.

Lemma isuccs_good : forall g sent done c c', Good g sent done c -> In c' (isuccs g sent c) -> Good g sent done c'.
Proof.
  intros g sent done [s n] c' [tr [R [O [RD [LE [EX CR]]]]]] H. simpl in *.
  unfold isuccs in H. apply in_app_iff in H. destruct H as [H | H].
  - apply in_map_iff in H. destruct H as [[l s'] [E H]]. subst c'. apply filter_In in H. destruct H as [Hin Hs].
    simpl in *. exists (tr ++ [l]). simpl. repeat split.
    + eapply run_snoc; [exact R | apply StepInt; exact Hin].
    + unfold tr_outputs. rewrite flat_map_snoc. fold (tr_outputs tr). rewrite O. destruct l; simpl in Hs; try discriminate; apply app_nil_r.
    + unfold tr_reads. rewrite flat_map_snoc. fold (tr_reads tr). rewrite RD. destruct l; simpl in Hs; try discriminate; apply app_nil_r.
    + exact LE.
    + intro X. specialize (EX X). rewrite (dead_steps s (state_dead_exited s EX)) in Hin. destruct Hin.
    + intro X. specialize (CR X). rewrite (dead_steps s (state_dead_crashed s CR)) in Hin. destruct Hin.
  - destruct (nth_error sent n) as [cm|] eqn:N; [| destruct H]. destruct (read g s cm) as [s'|] eqn:E; [| destruct H].
    destruct H as [H | []]. subst c'. exists (tr ++ [LRead cm]). simpl. repeat split.
    + eapply run_snoc; [exact R | apply StepRead; exact E].
    + unfold tr_outputs. rewrite flat_map_snoc. fold (tr_outputs tr). rewrite O. apply app_nil_r.
    + unfold tr_reads. rewrite flat_map_snoc. fold (tr_reads tr). rewrite RD. simpl. symmetry. apply firstn_snoc_nth. exact N.
    + assert (n < length sent) as K by (apply nth_error_Some; rewrite N; discriminate). lia.
    + intro X. specialize (EX X). unfold read, awaiting_input in E. rewrite (state_dead_exited s EX) in E. discriminate.
    + intro X. specialize (CR X). unfold read, awaiting_input in E. rewrite (state_dead_crashed s CR) in E. discriminate.
Qed.

Lemma closure_good : forall g sent done fuel work acc cl,
  closure g sent fuel work acc = Some cl ->
  (forall c, In c work -> Good g sent done c) -> (forall c, In c acc -> Good g sent done c) ->
  forall c, In c cl -> Good g sent done c.
Proof.
  intros g sent done. induction fuel as [| f IH]; intros work acc cl H W A; simpl in H; [discriminate |].
  destruct work as [| c w].
  - inversion H; subst. exact A.
  - destruct (cfg_mem c acc).
    + eapply IH; [exact H | | exact A]. intros; apply W; right; assumption.
    + eapply IH; [exact H | |].
      * intros x Hx. apply in_app_iff in Hx. destruct Hx as [Hx | Hx].
        -- eapply isuccs_good; [apply W; left; reflexivity | exact Hx].
        -- apply W; right; exact Hx.
      * intros x [Hx | Hx]; [subst; apply W; left; reflexivity | apply A; exact Hx].
Qed.

Lemma dedup_in : forall l acc c, In c (dedup l acc) -> In c l \/ In c acc.
Proof.
  induction l as [| x r IH]; intros acc c H; simpl in H; [right; exact H |].
  destruct (cfg_mem x acc).
  - apply IH in H. destruct H; [left; right; assumption | right; assumption].
  - apply IH in H. destruct H as [H | [H | H]]; [left; right; assumption | left; left; assumption | right; assumption].
Qed.

Lemma is_out_eq : forall o l, is_out o l = true -> l = LOut o.
Proof. intros o l H. destruct l; simpl in H; try discriminate. destruct (output_eq_dec o o0); [subst; reflexivity | discriminate]. Qed.

Lemma osuccs_good : forall g sent done o c c', Good g sent done c -> In c' (osuccs o c) -> Good g sent (done ++ [EvOut o]) c'.
Proof.
  intros g sent done o [s n] c' [tr [R [O [RD [LE [EX CR]]]]]] H. simpl in *.
  unfold osuccs in H. apply in_map_iff in H. destruct H as [[l s'] [E H]]. subst c'. apply filter_In in H.
  destruct H as [Hin Ho]. simpl in *. apply is_out_eq in Ho. subst l.
  exists (tr ++ [LOut o]). simpl. repeat split.
  - eapply run_snoc; [exact R | apply StepInt; exact Hin].
  - unfold tr_outputs, ev_outputs. rewrite !flat_map_snoc. fold (tr_outputs tr). fold (ev_outputs done). rewrite O. reflexivity.
  - unfold tr_reads. rewrite flat_map_snoc. fold (tr_reads tr). rewrite RD. apply app_nil_r.
  - exact LE.
  - intro X. apply in_app_iff in X. destruct X as [X | [X | []]]; [| discriminate].
    specialize (EX X). rewrite (dead_steps s (state_dead_exited s EX)) in Hin. destruct Hin.
  - intro X. apply in_app_iff in X. destruct X as [X | [X | []]]; [| discriminate].
    specialize (CR X). rewrite (dead_steps s (state_dead_crashed s CR)) in Hin. destruct Hin.
Qed.

Lemma good_send : forall g sent done c cm, Good g sent done c -> Good g (sent ++ [cm]) (done ++ [EvSend cm]) c.
Proof.
  intros g sent done [s n] cm [tr [R [O [RD [LE [EX CR]]]]]]. simpl in *. exists tr. simpl. repeat split.
  - exact R.
  - unfold ev_outputs. rewrite flat_map_snoc. fold (ev_outputs done). rewrite O. simpl. symmetry; apply app_nil_r.
  - rewrite RD. rewrite firstn_app. replace (n - length sent) with 0 by lia. simpl. symmetry; apply app_nil_r.
  - rewrite app_length. simpl. lia.
  - intro X. apply in_app_iff in X. destruct X as [X | [X | []]]; [auto | discriminate].
  - intro X. apply in_app_iff in X. destruct X as [X | [X | []]]; [auto | discriminate].
Qed.

Lemma ev_sends_snoc_send : forall done c, ev_sends (done ++ [EvSend c]) = ev_sends done ++ [c].
Proof. intros; unfold ev_sends; rewrite flat_map_snoc; reflexivity. Qed.
Lemma ev_sends_snoc_other : forall done e, (forall c, e <> EvSend c) -> ev_sends (done ++ [e]) = ev_sends done.
Proof. intros done e H; unfold ev_sends; rewrite flat_map_snoc. destruct e; simpl; try apply app_nil_r. exfalso; eapply H; reflexivity. Qed.

Lemma sim_sound : forall g fuel evs sent cfgs idx done,
  sim g fuel sent cfgs evs idx = None ->
  sent = ev_sends done -> (forall c, In c cfgs -> Good g sent done c) ->
  exists c, Good g (ev_sends (done ++ evs)) (done ++ evs) c.
Proof.
  intros g fuel. induction evs as [| ev r IH]; intros sent cfgs idx done H ES G.
  - simpl in H. destruct cfgs as [| c cs]; [discriminate |]. exists c. rewrite app_nil_r. rewrite <- ES. apply G. left; reflexivity.
  - replace (done ++ ev :: r) with ((done ++ [ev]) ++ r) by (rewrite <- app_assoc; reflexivity).
    destruct ev as [cm | o | |].
    + simpl in H. eapply IH; [exact H | rewrite ev_sends_snoc_send, ES; reflexivity |].
      intros c Hc. apply good_send. apply G. exact Hc.
    + simpl in H. destruct (closure g sent fuel cfgs []) as [cl|] eqn:C; [| discriminate].
      pose proof (closure_good g sent done fuel cfgs [] cl C G (fun c (X : In c []) => match X with end)) as GC.
      destruct (dedup (flat_map (osuccs o) cl) []) as [| x nx] eqn:D; [discriminate |].
      eapply IH; [exact H | rewrite ev_sends_snoc_other; [exact ES | intros; discriminate] |].
      intros c Hc. rewrite <- D in Hc. apply dedup_in in Hc. destruct Hc as [Hc | []].
      apply in_flat_map in Hc. destruct Hc as [c0 [Hc0 Hc]]. eapply osuccs_good; [apply GC; exact Hc0 | exact Hc].
    + simpl in H. destruct (closure g sent fuel cfgs []) as [cl|] eqn:C; [| discriminate].
      pose proof (closure_good g sent done fuel cfgs [] cl C G (fun c (X : In c []) => match X with end)) as GC.
      destruct (filter (fun c => exited (fst c)) cl) as [| x nx] eqn:D; [discriminate |].
      eapply IH; [exact H | rewrite ev_sends_snoc_other; [exact ES | intros; discriminate] |].
      intros c Hc. rewrite <- D in Hc. apply filter_In in Hc. destruct Hc as [Hc HX].
      destruct (GC c Hc) as [tr [R [O [RD [LE [EX CR]]]]]]. exists tr. repeat split; auto.
      * unfold ev_outputs. rewrite flat_map_snoc. fold (ev_outputs done). rewrite O. simpl. symmetry; apply app_nil_r.
      * intro X. apply in_app_iff in X. destruct X as [X | [X | []]]; [auto | discriminate].
    + simpl in H. destruct (closure g sent fuel cfgs []) as [cl|] eqn:C; [| discriminate].
      pose proof (closure_good g sent done fuel cfgs [] cl C G (fun c (X : In c []) => match X with end)) as GC.
      destruct (filter (fun c => crashed (fst c)) cl) as [| x nx] eqn:D; [discriminate |].
      eapply IH; [exact H | rewrite ev_sends_snoc_other; [exact ES | intros; discriminate] |].
      intros c Hc. rewrite <- D in Hc. apply filter_In in Hc. destruct Hc as [Hc HX].
      destruct (GC c Hc) as [tr [R [O [RD [LE [EX CR]]]]]]. exists tr. repeat split; auto.
      * unfold ev_outputs. rewrite flat_map_snoc. fold (ev_outputs done). rewrite O. simpl. symmetry; apply app_nil_r.
      * intro X. apply in_app_iff in X. destruct X as [X | [X | []]]; [auto | discriminate].
Qed.

Theorem accepts_sound : forall g fuel evs, accepts g fuel evs = true ->
  exists tr s n, run g init tr s /\ tr_outputs tr = ev_outputs evs /\
                 tr_reads tr = firstn n (ev_sends evs) /\
                 (In EvExit0 evs -> exited s = true) /\ (In EvCrash evs -> crashed s = true).
Proof.
  intros g fuel evs H. unfold accepts, reject_at in H.
  destruct (sim g fuel [] [(init, 0)] evs 0) eqn:E; [discriminate |].
  destruct (sim_sound g fuel evs [] [(init, 0)] 0 [] E eq_refl) as [[s n] [tr [R [O [RD [LE [EX CR]]]]]]].
  - intros c [Hc | []]. subst c. exists []. simpl. repeat split; try constructor; intros [].
  - simpl in *. exists tr, s, n. repeat split; auto.
Qed.
