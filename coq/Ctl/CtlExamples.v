(** C05 — non-vacuity: concrete runs of the LTS on which the hypotheses of the main theorems hold
    in a non-trivial way.  A run is given by the list of successor indices to follow. *)
From Coq Require Import List Bool PeanoNat String.
From Texel Require Import Ctl.Uci Ctl.Engine Ctl.Dec Ctl.Checker Ctl.CtlSpec Ctl.CtlInv Ctl.CtlProofs
     Ctl.CtlTheorems Ctl.CtlLive Ctl.CheckerProofs.
Import ListNotations.

Fixpoint follow (g : bool) (s : state) (choices : list nat) : option (list label * state) :=
  match choices with
  | [] => Some ([], s)
  | k :: r =>
      match nth_error (all_steps g s) k with
      | Some (l, s') => match follow g s' r with Some (tr, s'') => Some (l :: tr, s'') | None => None end
      | None => None
      end
  end.

Lemma follow_run : forall g cs s tr s', follow g s cs = Some (tr, s') -> run g s tr s'.
Proof.
  intros g. induction cs as [| k r IH]; intros s tr s' H; simpl in H.
  - inversion H; subst; constructor.
  - destruct (nth_error (all_steps g s) k) as [[l s1]|] eqn:E; [| discriminate].
    destruct (follow g s1 r) as [[tr1 s2]|] eqn:F; [| discriminate]. inversion H; subst.
    econstructor; [apply Step_all_steps; eapply nth_error_In; exact E | apply IH; exact F].
Qed.

(** `go infinite` : the search has finished, the answer is withheld, the UCI thread reads on
    (hypothesis of C05_bestmove_withheld: [held_after tr = true] on a reachable state) *)
Example ex_withheld : exists tr s, run false init tr s /\
  held_after tr = true /\ epc s = EHold true /\ awaiting_input s = true /\ outstanding s = 1 /\
  count is_go tr = 1 /\ count is_bestmove tr = 0.
Proof.
  eexists; eexists; split.
  - apply (follow_run false [14; 0; 0; 0; 0; 0; 0; 0; 0; 0; 0; 0; 1; 0; 1; 1; 1; 1; 1; 2; 0]). vm_compute. reflexivity.
  - vm_compute. repeat split.
Qed.

(** a second `go` read while the first search is still running: two searches outstanding *)
Example ex_two_outstanding : exists tr s, run false init tr s /\
  outstanding s = 2 /\ count is_go tr = 2 /\ count is_bestmove tr = 0 /\ epc s = ESearch.
Proof.
  eexists; eexists; split.
  - apply (follow_run false [14; 0; 0; 0; 0; 0; 0; 0; 0; 0; 0; 0; 1; 0; 1; 1; 1; 1; 0; 11; 1]). vm_compute. reflexivity.
  - vm_compute. repeat split.
Qed.

(** the UCI thread blocked in waitStop while the search runs (hypothesis of C05_never_stuck) *)
Example ex_blocked : exists tr s, run false init tr s /\
  uci_blocked s = true /\ search s = true /\ epc s = ESearch /\ stopreq s = true /\ stopping s = true.
Proof.
  eexists; eexists; split.
  - apply (follow_run false [11; 0; 0; 0; 0; 0; 0; 0; 0; 0; 1; 0; 1; 0; 1; 1; 0; 16; 1; 0; 1; 0; 1; 0; 0]). vm_compute. reflexivity.
  - vm_compute. repeat split.
Qed.

(** an option change sent during a search stays pending (C05_options_only_when_idle) *)
Example ex_option_pending_during_search : exists tr s, run false init tr s /\
  pending s = true /\ finished s = false /\ epc s = ESearch /\ awaiting_input s = true.
Proof.
  eexists; eexists; split.
  - apply (follow_run false [9; 0; 0; 0; 0; 0; 0; 0; 0; 0; 0; 0; 1; 0; 1; 1; 0; 8; 1; 0; 1; 0; 1; 0]). vm_compute. reflexivity.
  - vm_compute. repeat split.
Qed.

(** hypothesis of C05_stop_yields_bestmove: a go is outstanding and `stop` can be read *)
Example ex_stop_entry : exists tr s s1, run false init tr s /\
  1 <= outstanding s /\ read false s CStop = Some s1 /\ stopping s1 = true /\ rank s1 = 514.
Proof.
  eexists; eexists; eexists; split.
  - apply (follow_run false [9; 0; 0; 0; 0; 0; 0; 0; 0; 0; 0; 0; 1; 0; 1; 1; 1; 1; 1; 0]). vm_compute. reflexivity.
  - vm_compute. repeat split. apply le_n.
Qed.

(** a whole session of the repaired model (go, search, end of input) down to exit status 0
    (C05_quit_terminates) *)
Example ex_session_exits : exists tr s, run true init tr s /\ exited s = true /\
  count is_go tr = 1 /\ count is_bestmove tr = 1 /\ In (LRead CEof) tr.
Proof.
  eexists; eexists; split.
  - apply (follow_run true [11; 0; 0; 0; 0; 0; 0; 0; 0; 0; 1; 0; 1; 0; 1; 1; 1; 1; 0; 20; 2; 0; 1; 0; 1; 0; 1; 0; 0; 0; 0; 0; 0; 0; 0]).
    vm_compute. reflexivity.
  - repeat split; try (vm_compute; reflexivity). vm_compute. repeat (first [left; reflexivity | right]).
Qed.

(** the trace checker accepts a realistic observation, and rejects contract violations *)
Definition fuel0 : nat := 40 * 50.
Example ex_accepts_session :
  accepts false fuel0 [EvSend CUci; EvOut OUciOk; EvSend CIsReady; EvOut OReadyOk; EvSend (CGo false LimNone);
                       EvOut OInfoStr; EvOut OInfo; EvOut OInfo; EvSend (CSetOption true); EvSend CIsReady;
                       EvOut OReadyOk; EvSend CStop; EvOut OInfo; EvOut OBestmove; EvSend CQuit; EvExit0] = true.
Proof. vm_compute. reflexivity. Qed.

Example ex_rejects_early_bestmove :      (* `go infinite` answered before stop *)
  accepts false fuel0 [EvSend CIsReady; EvOut OReadyOk; EvSend (CGo false LimNone); EvOut OInfoStr; EvOut OInfo; EvOut OBestmove] = false.
Proof. vm_compute. reflexivity. Qed.

Example ex_rejects_two_bestmoves :
  accepts false fuel0 [EvSend (CGo false LimSome); EvOut OBestmove; EvOut OBestmove] = false.
Proof. vm_compute. reflexivity. Qed.

Example ex_rejects_double_readyok :
  accepts false fuel0 [EvSend CIsReady; EvOut OReadyOk; EvOut OReadyOk] = false.
Proof. vm_compute. reflexivity. Qed.

Example ex_rejects_info_after_bestmove :
  accepts false fuel0 [EvSend (CGo false LimSome); EvOut OInfo; EvOut OBestmove; EvOut OInfo] = false.
Proof. vm_compute. reflexivity. Qed.

(** the two variants differ exactly on the witness of the finding *)
Example ex_ponderhit_crash_unguarded : accepts false fuel0 [EvSend CPonderHit; EvCrash] = true.
Proof. vm_compute. reflexivity. Qed.
Example ex_ponderhit_crash_guarded : accepts true fuel0 [EvSend CPonderHit; EvCrash] = false.
Proof. vm_compute. reflexivity. Qed.
Example ex_ponderhit_ok_guarded : accepts true fuel0 [EvSend CPonderHit; EvSend CIsReady; EvOut OReadyOk; EvSend CQuit; EvExit0] = true.
Proof. vm_compute. reflexivity. Qed.

(** the parser on raw lines *)
Local Open Scope string_scope.
Example ex_parse_1 : parse_line "go ponder wtime 1000 btime 1000" = CGo true LimSome. Proof. reflexivity. Qed.
Example ex_parse_2 : parse_line "  go   depth 0 " = CGo false LimNone. Proof. reflexivity. Qed.
Example ex_parse_3 : parse_line "setoption name Clear   Hash" = CSetOption true. Proof. reflexivity. Qed.
Example ex_parse_4 : parse_line "setoption name NoSuch value 1" = CSetOption false. Proof. reflexivity. Qed.
Example ex_parse_5 : parse_line "go searchmoves e2e4 zz ponder" = CGo true LimNone. Proof. reflexivity. Qed.
Example ex_parse_6 : parse_line "go wtime -5 btime 100" = CGo false LimUnknown. Proof. reflexivity. Qed.
Example ex_parse_7 : parse_line "" = CEmpty. Proof. reflexivity. Qed.
Example ex_parse_8 : parse_line "Stop" = CUnknown. Proof. reflexivity. Qed.
Example ex_parse_9 : parse_line "go depth 99999999999" = CGo false LimNone. Proof. reflexivity. Qed.
