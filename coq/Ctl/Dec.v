(** C05 — decidable equality on the model's types (used by the trace checker and by the
    reachability computation). *)
From Coq Require Import List Bool PeanoNat.
From Texel Require Import Ctl.Uci Ctl.Engine.
Import ListNotations.

Definition lim_eq_dec (a b : lim) : {a = b} + {a <> b}.
Proof. decide equality. Defined.
Definition output_eq_dec (a b : output) : {a = b} + {a <> b}.
Proof. decide equality. Defined.
Definition cmd_eq_dec (a b : cmd) : {a = b} + {a <> b}.
Proof. decide equality; try apply bool_dec; apply lim_eq_dec. Defined.
Definition action_eq_dec (a b : action) : {a = b} + {a <> b}.
Proof. decide equality; try apply bool_dec; try apply lim_eq_dec; apply output_eq_dec. Defined.
Definition epc_eq_dec (a b : epcT) : {a = b} + {a <> b}.
Proof. decide equality; apply bool_dec. Defined.
Definition label_eq_dec (a b : label) : {a = b} + {a <> b}.
Proof. decide equality; try apply bool_dec; try apply cmd_eq_dec; apply output_eq_dec. Defined.
Definition state_eq_dec (a b : state) : {a = b} + {a <> b}.
Proof.
  decide equality; try apply bool_dec; try apply lim_eq_dec; try apply epc_eq_dec.
  apply (list_eq_dec action_eq_dec).
Defined.

Definition state_eqb (a b : state) : bool := if state_eq_dec a b then true else false.
Lemma state_eqb_true : forall a b, state_eqb a b = true -> a = b.
Proof. intros a b; unfold state_eqb; destruct (state_eq_dec a b); [auto | discriminate]. Qed.
Lemma state_eqb_refl : forall a, state_eqb a a = true.
Proof. intros a; unfold state_eqb; destruct (state_eq_dec a a); [auto | contradiction]. Qed.
