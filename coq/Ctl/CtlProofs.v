(** C05 — proofs, part 1: the reachability certificate (one kernel evaluation per model variant)
    and the bridge from runs of the LTS to paths of the explored product system. *)
From Coq Require Import List Bool PeanoNat Lia.
From Texel Require Import Ctl.Uci Ctl.Engine Ctl.Dec Ctl.CtlSpec Ctl.Reach Ctl.CtlInv Ctl.CtlCert0 Ctl.CtlCert1.
Import ListNotations.

(** * The certificate: every reachable product state satisfies [sinv], every enabled step [tinv]
    (evaluated by the kernel in Ctl/CtlCert0.v and Ctl/CtlCert1.v, one file per model variant
    so that the two evaluations run in parallel) *)
Lemma certificate : forall g, check_all g = true.
Proof. intros [|]; [exact certificate_guarded | exact certificate_unguarded]. Qed.

(** * Steps of the relation = entries of the executable successor list *)
Lemma all_cmds_complete : forall c, In c all_cmds.
Proof.
  intros c; destruct c as [ | | | | | k | | | p l | | | | ];
    try destruct k; try destruct p; try destruct l; simpl; tauto.
Qed.

Lemma Step_all_steps : forall g s l s', Step g s l s' <-> In (l, s') (all_steps g s).
Proof.
  intros g s l s'. unfold all_steps. rewrite in_app_iff. split.
  - intros [l0 s0 H | c s0 H].
    + left; exact H.
    + right. apply in_flat_map. exists c. split; [apply all_cmds_complete |]. rewrite H. left; reflexivity.
  - intros [H | H].
    + apply StepInt; exact H.
    + apply in_flat_map in H. destruct H as [c [_ H]]. destruct (read g s c) as [s0|] eqn:E; simpl in H; [| contradiction].
      destruct H as [H | []]. inversion H; subst. apply StepRead; exact E.
Qed.

Lemma steps_no_read : forall s l s', In (l, s') (steps s) -> is_read l = false.
Proof.
  intros s l s'. unfold steps. destruct (dead s); [intros [] |].
  rewrite !in_app_iff. intros [H | [H | H]].
  - unfold ustep in H. destruct (upc s) as [| a r]; [destruct H |].
    destruct a; simpl in H;
      repeat match goal with
             | H : context [if ?b then _ else _] |- _ => destruct b; simpl in H
             | H : context [lim_infinite ?x] |- _ => destruct x; simpl in H
             end;
      repeat (destruct H as [H | H]; [inversion H; reflexivity |]); try destruct H.
  - unfold estep in H. destruct (epc s); simpl in H;
      repeat match goal with
             | H : context [if ?b then _ else _] |- _ => destruct b; simpl in H
             end;
      repeat (destruct H as [H | H]; [inversion H; reflexivity |]); try destruct H.
  - unfold pstep in H. destruct (epc s); simpl in H; try destruct H.
    destruct (udone s); simpl in H; [| destruct H]. destruct H as [H | []]. inversion H; reflexivity.
Qed.

(** * Runs, snoc view *)
Lemma run_app : forall g a tr b, run g a tr b -> forall tr' c, run g b tr' c -> run g a (tr ++ tr') c.
Proof. induction 1; intros; simpl; [assumption | econstructor; eauto]. Qed.

Lemma run_snoc : forall g a tr b l c, run g a tr b -> Step g b l c -> run g a (tr ++ [l]) c.
Proof. intros. eapply run_app; [eassumption |]. econstructor; [eassumption | constructor]. Qed.

Lemma run_unsnoc : forall g tr a l c, run g a (tr ++ [l]) c -> exists b, run g a tr b /\ Step g b l c.
Proof.
  induction tr as [| x tr IH]; intros a l c H; simpl in H.
  - inversion H; subst. match goal with H : run _ _ [] _ |- _ => inversion H; subst end.
    eexists; split; [constructor | eassumption].
  - inversion H; subst. match goal with H : run _ _ (tr ++ [l]) _ |- _ => apply IH in H; destruct H as [b [H1 H2]] end.
    exists b; split; [econstructor; eassumption | assumption].
Qed.

Lemma run_ind_snoc : forall g (P : list label -> state -> Prop),
  P [] init ->
  (forall tr s l s', run g init tr s -> P tr s -> Step g s l s' -> P (tr ++ [l]) s') ->
  forall tr s, run g init tr s -> P tr s.
Proof.
  intros g P H0 HS tr. induction tr as [| l tr IH] using rev_ind; intros s H.
  - inversion H; subst; exact H0.
  - apply run_unsnoc in H. destruct H as [b [H1 H2]]. eapply HS; eauto.
Qed.

Lemma held_after_snoc : forall tr l, held_after (tr ++ [l]) = held_upd (held_after tr) l.
Proof. intros; unfold held_after; rewrite fold_left_app; reflexivity. Qed.

(** * Bridge: a run of the LTS is a path of the product system *)
Lemma psuccs_in : forall g s w l s',
  In (l, s') (all_steps g s) -> In (l, (s', held_upd w l)) (psuccs g (s, w)).
Proof.
  intros. unfold psuccs. simpl. apply in_map_iff. exists (l, s'). split; [reflexivity | assumption].
Qed.

Lemma run_path : forall g tr s, run g init tr s ->
  path pst label (psuccs g) p0 tr (s, held_after tr).
Proof.
  intros g. apply (run_ind_snoc g (fun tr s => path pst label (psuccs g) p0 tr (s, held_after tr))).
  - constructor.
  - intros tr s l s' _ IH HS. rewrite held_after_snoc. econstructor; [exact IH |].
    apply psuccs_in. apply Step_all_steps. exact HS.
Qed.

(** every reachable state satisfies the state invariant, every step from it the transition invariant *)
Theorem invariants : forall g tr s, run g init tr s ->
  sinv g (s, held_after tr) = true /\
  forall l s', Step g s l s' -> tinv g (s, held_after tr) l (s', held_upd (held_after tr) l) = true.
Proof.
  intros g tr s H.
  pose proof (check_sound pst label pst_eqb pst_eqb_true pst_hash (psuccs g) p0 (sinv g) (tinv g)
                (reachset g) (certificate g) tr _ (run_path g tr s H)) as [_ [HS HT]].
  split; [exact HS |]. intros l s' HStep. apply HT. apply psuccs_in. apply Step_all_steps. exact HStep.
Qed.
