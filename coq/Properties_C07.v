(** C07 — static evaluation is a pure, symmetric function of the position.
    Only statements; every proof is [exact <lemma>] into NN/*Proofs.v, NN/AccumTheorems.v.

    Model: NN/Accum.v (first-layer state stack of lib/texellib/nn/nneval.cpp as a state machine
    over an op stream, tied to the code by the correspondence check), NN/EvalCache.v (cache logic
    of Evaluate::evalPos); [getIndex], [ptValue], the constants and the cache layout are
    regenerated from the sources on every run (gen/NNGen.v).  Specification: NN/AccumSpec.v
    (from-scratch accumulators, ghost board of an op stream), NN/Feature.v (board symmetries).

    PARTIAL: layers 2-4, the SIMD kernels of vectorop.hpp and endGameEval.cpp are outside the
    proof (compared only differentially by the check).  What is proved is that the INPUT of
    layers 2-4 (both accumulators, in side-to-move order, and the piece count selecting the
    head) is a function of the position alone and has the two symmetries. *)
From Coq Require Import ZArith List Bool.
From Texel Require Import NN.Feature NN.Accum NN.AccumSpec NN.AccumProofs NN.FeatureProofs
  NN.AccumInst NN.AccumTheorems NN.EvalCache NN.EvalCacheProofs.
Import ListNotations.
Local Open Scope Z_scope.

(** Appendix A2 / incremental = fresh.  In ANY commutative group of accumulator values, for
    ANY weight function and bias: along every op stream that is consistent with a board history
    ([grun] succeeds: each setPiece(sq,old,new) finds [old] on the tracked board, each pop
    restores the board of the matching push, untracked changes come with forceFullEval or a
    stack underflow, position inputs are those of the tracked board, stack depth stays below
    maxStackSize) the model never reaches an error state, and computeL1WB then leaves both
    perspectives' accumulators equal to bias + sum over the non-king pieces of
    w (getIndex kingSq pt sq): independent of the history. *)
Theorem C07_incremental_eq_fresh :
  forall (V : Type) (vadd : V -> V -> V) (vneg : V -> V) (vzero : V) (w : Z -> V) (bias : V),
  (forall a b c, vadd a (vadd b c) = vadd (vadd a b) c) ->
  (forall a b, vadd a b = vadd b a) ->
  (forall a, vadd a vzero = a) ->
  (forall a, vadd a (vneg a) = vzero) ->
  forall (b0 : board) (garbage : V) (ops : list op) (g : ghost),
    grun (ginit b0) ops = Some g ->
    exists st, mrun V vadd vneg w bias (initState garbage) ops = Some st /\
      forall kw kb pieces, posInputsOk (gcur g) kw kb pieces = true ->
        exists st', computeL1WB V vadd vneg w bias kw kb pieces st = Some st' /\
          l1Out (fst (cur st')) = freshAcc V vadd vzero w bias true kw (gcur g) /\
          l1Out (snd (cur st')) = freshAcc V vadd vzero w bias false kb (gcur g) /\
          ksq (fst (cur st')) = kw /\ ksq (snd (cur st')) = kb.
Proof. exact incremental_eq_fresh. Qed.
Print Assumptions C07_incremental_eq_fresh.

(** the same for the real lane arithmetic: n lanes of Z/2^16 (S16 with wrapping adds), any
    weights; this is the instance the extracted model runs *)
Theorem C07_incremental_eq_fresh_s16 :
  forall (n : nat) (wraw : Z -> list Z) (biasraw : list Z) b0 garbage ops g,
    grun (ginit b0) ops = Some g ->
    exists st, mrun (V16 n) (vadd16 n) (vneg16 n) (w16 n wraw) (bias16 n biasraw) (initState garbage) ops = Some st /\
      forall kw kb pieces, posInputsOk (gcur g) kw kb pieces = true ->
        exists st', computeL1WB (V16 n) (vadd16 n) (vneg16 n) (w16 n wraw) (bias16 n biasraw) kw kb pieces st = Some st' /\
          l1Out (fst (cur st')) = freshAcc (V16 n) (vadd16 n) (vzero16 n) (w16 n wraw) (bias16 n biasraw) true kw (gcur g) /\
          l1Out (snd (cur st')) = freshAcc (V16 n) (vadd16 n) (vzero16 n) (w16 n wraw) (bias16 n biasraw) false kb (gcur g) /\
          ksq (fst (cur st')) = kw /\ ksq (snd (cur st')) = kb.
Proof. exact incremental_eq_fresh_s16. Qed.
Print Assumptions C07_incremental_eq_fresh_s16.

(** read off a stream that ends with the computeL1WB of an eval() call *)
Theorem C07_eval_eq_fresh :
  forall (V : Type) (vadd : V -> V -> V) (vneg : V -> V) (vzero : V) (w : Z -> V) (bias : V),
  (forall a b c, vadd a (vadd b c) = vadd (vadd a b) c) ->
  (forall a b, vadd a b = vadd b a) ->
  (forall a, vadd a vzero = a) ->
  (forall a, vadd a (vneg a) = vzero) ->
  forall b0 garbage ops kw kb pieces g,
    grun (ginit b0) (ops ++ [OCompute kw kb pieces]) = Some g ->
    exists st, mrun V vadd vneg w bias (initState garbage) (ops ++ [OCompute kw kb pieces]) = Some st /\
      l1Out (fst (cur st)) = freshAcc V vadd vzero w bias true kw (gcur g) /\
      l1Out (snd (cur st)) = freshAcc V vadd vzero w bias false kb (gcur g).
Proof. exact eval_eq_fresh. Qed.
Print Assumptions C07_eval_eq_fresh.

(** Feature symmetries, exhaustive over 64 king squares x 10 piece types x 64 squares x 2
    perspectives on the regenerated getIndex: every index addresses a row of weight1; the
    left-right mirror (king crossing the d/e boundary included) keeps the row; the colour swap
    maps a perspective's row to the other perspective's row of the flipped position; distinct
    (piece type, square) pairs never share a row. *)
Theorem C07_feature_symmetry :
  forall k pt sq c, validSq k = true -> validPt pt = true -> validSq sq = true ->
    0 <= getIndex k pt sq c < inFeatures /\
    getIndex (mirrorSq k) pt (mirrorSq sq) c = getIndex k pt sq c /\
    getIndex (flipSq k) (swapPt pt) (flipSq sq) (negb c) = getIndex k pt sq c /\
    (forall pt' sq', validPt pt' = true -> validSq sq' = true ->
       getIndex k pt sq c = getIndex k pt' sq' c -> pt = pt' /\ sq = sq').
Proof.
  intros k pt sq c Hk Hpt Hsq.
  exact (conj (index_in_range k pt sq c Hk Hpt Hsq)
        (conj (index_mirror k pt sq c Hk Hpt Hsq)
        (conj (index_swap k pt sq c Hk Hpt Hsq)
              (fun pt' sq' Hpt' Hsq' => index_injective k c pt sq pt' sq' Hk Hpt Hsq Hpt' Hsq')))).
Qed.
Print Assumptions C07_feature_symmetry.

(** hence the input of layers 2-4 (accumulator pair in side-to-move order) is unchanged when
    colours are swapped: board flipped, pieces recoloured, side to move swapped *)
Theorem C07_colour_swap_invariant :
  forall (V : Type) (vadd : V -> V -> V) (vzero : V) (w : Z -> V) (bias : V),
  (forall a b c, vadd a (vadd b c) = vadd (vadd a b) c) ->
  (forall a b, vadd a b = vadd b a) ->
  (forall a, vadd a vzero = a) ->
  forall b kw kb wtm, validSq kw = true -> validSq kb = true -> piecesValid b ->
    nnInput V vadd vzero w bias (flipBoard b) (flipSq kb) (flipSq kw) (negb wtm)
    = nnInput V vadd vzero w bias b kw kb wtm
    /\ nonKingCount (flipBoard b) = nonKingCount b.
Proof.
  intros V vadd vzero w bias A C Z0 b kw kb wtm Hw Hb Hp.
  exact (conj (colour_swap_invariant V vadd vzero w bias A C Z0 b kw kb wtm Hw Hb Hp) (nonKingCount_swap b Hp)).
Qed.
Print Assumptions C07_colour_swap_invariant.

(** ... and when the board is mirrored left to right (castling rights are no input of the net) *)
Theorem C07_mirror_invariant :
  forall (V : Type) (vadd : V -> V -> V) (vzero : V) (w : Z -> V) (bias : V),
  (forall a b c, vadd a (vadd b c) = vadd (vadd a b) c) ->
  (forall a b, vadd a b = vadd b a) ->
  (forall a, vadd a vzero = a) ->
  forall b kw kb wtm, validSq kw = true -> validSq kb = true ->
    nnInput V vadd vzero w bias (mirrorBoard b) (mirrorSq kw) (mirrorSq kb) wtm
    = nnInput V vadd vzero w bias b kw kb wtm
    /\ nonKingCount (mirrorBoard b) = nonKingCount b.
Proof.
  intros V vadd vzero w bias A C Z0 b kw kb wtm Hw Hb.
  exact (conj (mirror_invariant V vadd vzero w bias A C Z0 b kw kb wtm Hw Hb) (nonKingCount_mirror b)).
Qed.
Print Assumptions C07_mirror_invariant.

(** Cache transparency, conditional: along any history of contempt changes and evaluations
    every evalPos call returns the un-cached value at the contempt in force, PROVIDED values fit
    16 bits, no key has its upper 48 bits all ones (it would hit an empty slot), and the 64-bit
    cache key determines the value.  [mul] is the multiplier with which the contempt enters the
    key (the unchanged tree: 0, key = historyHash alone). *)
Theorem C07_cache_transparent :
  forall (inp : Type) (hkey : inp -> Z) (score : inp -> Z -> Z) (mul : Z) ops c0,
    (forall q, In q (cpairs inp c0 ops) -> pairOk inp hkey score mul q) ->
    keyDetermines inp hkey score mul (cpairs inp c0 ops) ->
    crun inp hkey score mul emptyTable c0 ops = cspec inp score c0 ops.
Proof. exact cache_transparent. Qed.
Print Assumptions C07_cache_transparent.

(** ... but with key = historyHash alone the last proviso cannot be discharged from a Zobrist
    collision hypothesis ("distinct positions have distinct keys"): the value depends on the
    contempt, the cache outlives a change of contempt.  Witness (replayed on the real Evaluate
    by the check): contempt 50, evaluate the start position, contempt 0, evaluate it again ->
    the second call returns the value cached at contempt 50.  (finding F3) *)
Theorem C07_cache_transparent_refuted :
  exists ops : list (cop demoInp),
    (forall q, In q (cpairs demoInp 0 ops) -> pairOk demoInp demoKey demoScore 0 q) /\
    (forall p q, In p (cpairs demoInp 0 ops) -> In q (cpairs demoInp 0 ops) ->
                 demoKey (fst p) = demoKey (fst q) -> fst p = fst q) /\
    crun demoInp demoKey demoScore 0 emptyTable 0 ops <> cspec demoInp demoScore 0 ops.
Proof. exact cache_transparent_refuted. Qed.
Print Assumptions C07_cache_transparent_refuted.

(** the repair "mix the contempt into the key with an odd multiplier": one position evaluated at
    two contempt values never shares a key, so [keyDetermines] is again a plain collision
    hypothesis over (position, contempt) pairs *)
Theorem C07_cache_key_separates_contempt :
  forall mul hk c c', Z.odd mul = true -> - 2 ^ 31 <= c < 2 ^ 31 -> - 2 ^ 31 <= c' < 2 ^ 31 ->
    cacheKeyM mul hk c = cacheKeyM mul hk c' -> c = c'.
Proof. exact contempt_separated. Qed.
Print Assumptions C07_cache_key_separates_contempt.

(** scaleClipPack (the step between the accumulators and layer 2): the model of the generic C++
    loop (sign-extend, arithmetic shift, clamp — bounds regenerated from vectorop.hpp) equals the
    specification "floor(s / 2^shift) clipped to [0,127]" on every S16 lane value, hence the
    vector handed to layer 2 is that pure function of the accumulator pair.  This is the proved
    reference against which every SIMD variant's scaleClipPack is compared (differentially). *)
Theorem C07_scaleClipPack_spec :
  (forall x, 0 <= x < M16 -> clipLaneG x = scaleClipSpec (s16val x)) /\
  (forall n wtm (st : state16 n),
     l1OutClipped n wtm st =
     map (fun x => scaleClipSpec (s16val x)) (lanes n (l1Out (getLin wtm (cur st))))
     ++ map (fun x => scaleClipSpec (s16val x)) (lanes n (l1Out (getLin (negb wtm) (cur st))))).
Proof. exact (conj clipLane_spec l1OutClipped_spec). Qed.
Print Assumptions C07_scaleClipPack_spec.

(** Consequence for the network value: whatever layers 2-4 compute — ANY function [later] of the
    accumulator pair (side to move first) and of the piece count that selects the head — the
    result is a function of the position that has both symmetries.  That the real layers 2-4
    (SIMD kernels included) ARE such a function, and the material / endgame / contempt / half-move
    terms added by Evaluate::evalPos, are outside the proof: PARTIAL, checked differentially. *)
Theorem C07_nn_value_symmetric :
  forall (V : Type) (vadd : V -> V -> V) (vzero : V) (w : Z -> V) (bias : V) (R : Type) (later : V * V -> Z -> R),
  (forall a b c, vadd a (vadd b c) = vadd (vadd a b) c) ->
  (forall a b, vadd a b = vadd b a) ->
  (forall a, vadd a vzero = a) ->
  let nnValue b kw kb wtm := later (nnInput V vadd vzero w bias b kw kb wtm) (nonKingCount b) in
  forall b kw kb wtm, validSq kw = true -> validSq kb = true ->
    (piecesValid b -> nnValue (flipBoard b) (flipSq kb) (flipSq kw) (negb wtm) = nnValue b kw kb wtm) /\
    nnValue (mirrorBoard b) (mirrorSq kw) (mirrorSq kb) wtm = nnValue b kw kb wtm.
Proof. exact nn_value_symmetric. Qed.
Print Assumptions C07_nn_value_symmetric.
