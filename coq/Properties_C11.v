(** C11 — draws by repetition and the 50-move rule are recognised.
    Only statements; every proof is [exact <lemma>] into Draw/*Proofs.v.
    Model: Draw/Draw.v (tied to lib/texellib/search.hpp, search.cpp, game.cpp, computerPlayer.cpp and
    app/texel/enginecontrol.cpp by the correspondence check); specification: Draw/DrawSpec.v. *)
From Coq Require Import ZArith NArith List Bool.
From Texel Require Import Draw.Draw Draw.DrawSpec Draw.DrawProofs Draw.DrawHistoryProofs
  Draw.DrawPositionProofs Draw.DrawGameProofs.
Import ListNotations.
Local Open Scope Z_scope.

(** The repetition test never reads outside the vector nor runs out of fuel, and it returns true
    iff, among the stored hashes with the same side to move inside the half-move-clock window
    (at least four plies back), the current hash occurs at an index >= firstNew, or at least
    twice — for every list length, parity, clock value and firstNew. *)
Theorem C11_rep_iff : forall hmc h l size firstNew,
  0 <= size <= Z.of_nat (length l) ->
  exists b, canClaimDrawRep hmc h l size firstNew = Some b /\
            (b = true <-> repCondition hmc h l size firstNew).
Proof. exact canClaimDrawRep_iff. Qed.
Print Assumptions C11_rep_iff.

(** the executable oracle used by the finder decides the same condition *)
Theorem C11_spec_oracle : forall hmc h l size firstNew,
  repSpecb hmc h l size firstNew = true <-> repCondition hmc h l size firstNew.
Proof. exact repSpecb_spec. Qed.
Print Assumptions C11_spec_oracle.

(** A position occurring for the third time since the last irreversible move is always
    recognised (hence scored 0 by the draw prefix), whatever the history length, parity, clock
    and firstNew.  Hypotheses: positions an odd number of plies apart differ (side to move),
    a position does not recur after exactly two plies.  [key] is a function of the draw-rule
    position (C02_equal_positions_equal_keys). *)
Theorem C11_third_occurrence :
  forall (P : Type) (P_eq_dec : forall a b : P, {a = b} + {a <> b}) (key : P -> N)
         (ps : list P) (cur : P) (hmc : Z) (junk : list N),
  (forall i, (i < length ps)%nat -> Z.odd (Z.of_nat (length ps) - Z.of_nat i) = true -> nth_error ps i <> Some cur) ->
  (forall i, Z.of_nat (length ps) - Z.of_nat i = 2 -> nth_error ps i <> Some cur) ->
  forall firstNew,
  thirdOccurrence P P_eq_dec hmc ps cur ->
  canClaimDrawRep hmc (key cur) (map key ps ++ junk) (Z.of_nat (length ps)) firstNew = Some true.
Proof. exact third_occurrence_detected. Qed.
Print Assumptions C11_third_occurrence.

(** Conversely, under collision-freedom of the keys on the history, a "true" answer is a real
    repetition: at least one earlier equal position inside the window, and a third occurrence
    unless the hit lies inside the search tree (index >= firstNew). *)
Theorem C11_rep_answer_is_repetition :
  forall (P : Type) (P_eq_dec : forall a b : P, {a = b} + {a <> b}) (key : P -> N)
         (ps : list P) (cur : P) (hmc : Z) (junk : list N),
  (forall i p, nth_error ps i = Some p -> key p = key cur -> p = cur) ->
  forall firstNew,
  canClaimDrawRep hmc (key cur) (map key ps ++ junk) (Z.of_nat (length ps)) firstNew = Some true ->
  (1 <= priorOccurrences P P_eq_dec hmc ps cur)%nat /\
  (thirdOccurrence P P_eq_dec hmc ps cur \/
   exists i, firstNew <= i < Z.of_nat (length ps) /\ candidate hmc (Z.of_nat (length ps)) i /\
             nth_error ps (Z.to_nat i) = Some cur).
Proof. exact rep_answer_is_repetition. Qed.
Print Assumptions C11_rep_answer_is_repetition.

(** For claims about played positions only (firstNew beyond the last candidate: ComputerPlayer,
    ply 1 of a search) "true" means exactly: third occurrence. *)
Theorem C11_claim_is_third_occurrence :
  forall (P : Type) (P_eq_dec : forall a b : P, {a = b} + {a <> b}) (key : P -> N)
         (ps : list P) (cur : P) (hmc : Z) (junk : list N),
  (forall i p, nth_error ps i = Some p -> key p = key cur -> p = cur) ->
  forall firstNew, Z.of_nat (length ps) - 4 < firstNew ->
  canClaimDrawRep hmc (key cur) (map key ps ++ junk) (Z.of_nat (length ps)) firstNew = Some true ->
  thirdOccurrence P P_eq_dec hmc ps cur.
Proof. exact rep_claim_is_third_occurrence. Qed.
Print Assumptions C11_claim_is_third_occurrence.

(** No position from before the last irreversible move can equal the current one: along the
    game a potential shared by equal positions never increases and strictly decreases at every
    clock-zeroing move.  So limiting the test to the clock window loses nothing. *)
Theorem C11_window_complete :
  forall (P : Type) (phi : P -> Z) (pos : nat -> P) (clk : nat -> Z) (n : nat),
  0 <= clk 0%nat ->
  (forall j, (j < n)%nat ->
     (clk (S j) = 0 /\ phi (pos (S j)) < phi (pos j)) \/
     (clk (S j) = clk j + 1 /\ phi (pos (S j)) <= phi (pos j))) ->
  forall j, (j <= n)%nat -> Z.of_nat j < Z.of_nat n - clk n -> pos j <> pos n.
Proof. exact window_complete. Qed.
Print Assumptions C11_window_complete.

(** ... hence counting over the whole game and counting inside the window agree *)
Theorem C11_occurrences_all_in_window :
  forall (P : Type) (P_eq_dec : forall a b : P, {a = b} + {a <> b}) (phi : P -> Z)
         (ps : list P) (cur : P) (clk : nat -> Z),
  0 <= clk 0%nat ->
  (forall j, (j < length ps)%nat ->
     (clk (S j) = 0 /\ phi (nth (S j) (ps ++ [cur]) cur) < phi (nth j (ps ++ [cur]) cur)) \/
     (clk (S j) = clk j + 1 /\ phi (nth (S j) (ps ++ [cur]) cur) <= phi (nth j (ps ++ [cur]) cur))) ->
  priorOccurrencesAll P P_eq_dec ps cur = priorOccurrences P P_eq_dec (clk (length ps)) ps cur.
Proof. exact occurrences_all_in_window. Qed.
Print Assumptions C11_occurrences_all_in_window.

(** 100 half-moves without capture or pawn move: score exactly 0, unless the side to move is
    checkmated — then the mated score for that ply. *)
Theorem C11_fifty_with_mate_exception : forall hmc inCheck hasLegal ply h l size firstNew,
  100 <= hmc ->
  drawPrefix hmc inCheck hasLegal ply h l size firstNew =
  Score (if inCheck && negb hasLegal then - (MATE0 - (ply + 1)) else 0).
Proof. exact fifty_with_mate_exception. Qed.
Print Assumptions C11_fifty_with_mate_exception.

(** below 100 the draw prefix answers 0 exactly when the repetition condition holds, and lets
    the search continue otherwise *)
Theorem C11_draw_prefix : forall hmc inCheck hasLegal ply h l size firstNew,
  hmc < 100 -> 0 <= size <= Z.of_nat (length l) ->
  (repCondition hmc h l size firstNew /\
   drawPrefix hmc inCheck hasLegal ply h l size firstNew = Score 0) \/
  (~ repCondition hmc h l size firstNew /\
   drawPrefix hmc inCheck hasLegal ply h l size firstNew = Continue).
Proof. exact drawPrefix_below_100. Qed.
Print Assumptions C11_draw_prefix.

(** setupPosition yields exactly the hashes since the last zeroing move (none at all when there
    are more than 100 of them), its size, and the clock after the moves *)
Theorem C11_history_list : forall steps clk0, 0 <= clk0 ->
  setupPosition steps clk0 =
  (let l := if Z.of_nat (length (historySpec steps)) >? 100 then [] else historySpec steps in
   (l, Z.of_nat (length l), clockAfter steps clk0)).
Proof. exact setupPosition_history. Qed.
Print Assumptions C11_history_list.

(** every stored hash lies inside the clock window of the position handed to the search *)
Theorem C11_history_inside_window : forall steps clk0, 0 <= clk0 ->
  Z.of_nat (length (historySpec steps)) <= clockAfter steps clk0.
Proof. exact history_inside_window. Qed.
Print Assumptions C11_history_inside_window.

(** console game: the state is mate / stalemate / dead material / resignation / claimed or
    agreed draw exactly per definition, for any current position and recorded flags *)
Theorem C11_game_state : forall p r d,
  stateRule p r d (getGameState p r d) /\ (forall s, stateRule p r d s -> s = getGameState p r d).
Proof. exact (fun p r d => conj (getGameState_rule p r d) (stateRule_unique p r d)). Qed.
Print Assumptions C11_game_state.

Theorem C11_dead_material : forall m, insufficientMaterial m = true <-> deadMaterial m.
Proof. exact insufficientMaterial_spec. Qed.
Print Assumptions C11_dead_material.

(** console game: in any live game (every game history) a repetition / 50-move claim is
    accepted iff the rule holds over the whole game; a rejected claim leaves the game running *)
Theorem C11_game_adjudication : forall g a, gState g = ALIVE ->
  (gState (fst (processCommand g (CDrawRep a))) = DRAW_REP <-> repClaimRule g a) /\
  (gState (fst (processCommand g (CDraw50 a))) = DRAW_50 <-> fiftyClaimRule g a) /\
  (~ repClaimRule g a ->
     fst (processCommand g (CDrawRep a)) =
     let g1 := mkGame (g_hist g) (g_cur g) (g_resign g) (g_draw g) true (g_offers g) in
     match a with Some p => fst (playMove g1 p) | None => g1 end) /\
  (~ fiftyClaimRule g a ->
     fst (processCommand g (CDraw50 a)) =
     let g1 := mkGame (g_hist g) (g_cur g) (g_resign g) (g_draw g) true (g_offers g) in
     match a with Some p => fst (playMove g1 p) | None => g1 end).
Proof. exact claim_adjudication. Qed.
Print Assumptions C11_game_adjudication.

Theorem C11_finished_game_is_final : forall g c, gState g <> ALIVE ->
  match c with CUndo => True | _ => fst (processCommand g c) = g end.
Proof. exact finished_game_is_final. Qed.
Print Assumptions C11_finished_game_is_final.

(** the engine's own claims in console mode are exactly the valid ones, in the order
    50 / repetition now, then 50 / repetition after its move *)
Theorem C11_computer_claims : forall hmc h l size hmcA hA,
  0 <= size < Z.of_nat (length l) ->
  let rep1 := repCondition hmc h l size size in
  let rep2 := repCondition hmcA hA (vset l size h) (size + 1) (size + 1) in
  match cpCanClaimDraw hmc h l size hmcA hA with
  | Claim50 => 100 <= hmc
  | ClaimRep => hmc < 100 /\ rep1
  | Claim50Move => hmc < 100 /\ ~ rep1 /\ 100 <= hmcA
  | ClaimRepMove => hmc < 100 /\ ~ rep1 /\ hmcA < 100 /\ rep2
  | NoClaim => hmc < 100 /\ ~ rep1 /\ hmcA < 100 /\ ~ rep2
  | ClaimErr => False
  end.
Proof. exact cpCanClaimDraw_spec. Qed.
Print Assumptions C11_computer_claims.
