(** C13 — with tablebase knowledge the engine reports exact results and keeps them: the LEAF
    arithmetic (50-move margin of the on-demand probe, swindle score range).
    Only statements; proofs in Search/TBRulesFacts.v.  Model: Search/TBRules.v (tied to
    tb/tbprobe.cpp and evaluate.cpp by the leaf correspondence of props/c13.py); constants
    regenerated (gen/SearchConsts.v).

    NOT covered here (reported as open): the TB rules of the search (probe result handling,
    tbAdjust, window narrowing: C13_rules_sound_with_tb) and C13_shortest_mate_move. *)
From Coq Require Import ZArith Bool.
From Texel Require Import Search.Score Search.TBRules Search.TBRulesFacts.
Local Open Scope Z_scope.

(** a table mate in k plies is handed to the search as an exact mate score iff it can be
    delivered no later than the move that brings the half-move clock to 100; otherwise the probe
    yields 0 with the correct bound type and the distance by which the win is out of reach,
    for all hmc in [0,99], plies, distances *)
Theorem C13_probe_margin : forall sign k ply hmc old,
  (sign = 1 \/ sign = -1) -> 0 <= k -> 0 <= ply <= max_ply -> 0 <= hmc <= 99 ->
  isWinScore (MATE0 - ply - k - 1) = true ->
  let dtm := dtm_score sign k ply in
  let '(ty, f, ev) := tbProbe_ondemand dtm ply hmc old in
  (k + hmc <= 100 -> ty = T_EXACT /\ ttGetScore f ply = dtm /\ ev = old) /\
  (100 < k + hmc ->
     ty = (if sign =? 1 then T_GE else T_LE) /\ ttGetScore f ply = 0 /\
     (old = 0 \/ k + hmc - 100 < Z.abs old -> ev = sign * (k + hmc - 100)) /\
     (old <> 0 -> Z.abs old <= k + hmc - 100 -> ev = old)) /\
  (ty = T_EXACT <-> k + hmc <= 100).
Proof. exact probe_margin. Qed.
Print Assumptions C13_probe_margin.

(** for every evaluation score and distance: |swindle score| <= maxFrustrated; plain draws
    compress into (-minFrustrated, minFrustrated) keeping the sign of the evaluation,
    frustrated wins/losses into +-[minFrustrated, maxFrustrated] with the sign of the distance;
    a swindle score is never a mate score *)
Theorem C13_swindle_range : forall evalScore dist,
  let r := swindleScore evalScore dist in
  Z.abs r <= maxFrustrated /\
  (dist = 0 -> Z.abs r < minFrustrated /\ (0 <= evalScore -> 0 <= r) /\ (evalScore < 0 -> r <= 0)) /\
  (dist <> 0 -> minFrustrated <= Z.abs r /\ (0 < dist -> 0 < r) /\ (dist < 0 -> r < 0)) /\
  isWinScore r = false /\ isLoseScore r = false.
Proof. exact swindle_range. Qed.
Print Assumptions C13_swindle_range.

(** non-vacuity: KQK-style mate in 31 plies probed at ply 4 with half-move clock 72 is no longer
    exact; with clock 60 it is *)
Example C13_margin_example :
  tbProbe_ondemand (dtm_score 1 31 4) 4 72 0 = (T_GE, ttSetScore 0 4, 3) /\
  tbProbe_ondemand (dtm_score 1 31 4) 4 60 0 = (T_EXACT, ttSetScore (dtm_score 1 31 4) 4, 0) /\
  swindleScore 500 0 = 27 /\ swindleScore 0 3 = 68 /\ swindleScore 0 (-200) = -35.
Proof. vm_compute. repeat split. Qed.
