(** C04 — soundness of the certificate checker of Search/Justify.v.

    Interpretation: [posOf id] is the position of the logged node [id], [keyPos k] the position
    with history hash [k].  If the oracle data handed to the checker is right for these
    positions ([oracle_ok]: in-check flag, the legal moves in order with the child ids pointing
    at nodes of the respective successor positions, the key and the quiescence-root id denote the
    node's own position), then every node the checker accepts has a derivation in the rule
    system, every table fact it records is a [TTFact] — hence (Search/RulesSound.v) every
    accepted mate score is a sound bound. *)
From Coq Require Import ZArith List Bool Lia FMapPositive.
From Texel Require Import Search.Score Search.ScoreFacts Search.Game Search.GameFacts Search.Rules Search.RulesSound Search.Justify.
Import ListNotations.
Local Open Scope Z_scope.

Ltac split_and :=
  repeat match goal with
  | H : _ && _ = true |- _ => apply andb_prop in H; destruct H
  end.

Ltac z_of_bool :=
  repeat match goal with
  | H : (_ <? _) = true |- _ => apply Z.ltb_lt in H
  | H : (_ <=? _) = true |- _ => apply Z.leb_le in H
  | H : (_ =? _) = true |- _ => apply Z.eqb_eq in H
  | H : negb _ = true |- _ => apply negb_true_iff in H
  end.

Lemma ply_okb_ok : forall ply, ply_okb ply = true -> ply_ok ply.
Proof. intros ply H. unfold ply_okb in H. split_and. z_of_bool. split; assumption. Qed.

Lemma score_okb_ok : forall s, score_okb s = true -> score_ok s.
Proof. intros s H. unfold score_okb in H. split_and. z_of_bool. split; assumption. Qed.

Lemma type_okb_ok : forall ty a b s, type_okb ty a b s = true -> type_ok ty a b s.
Proof.
  intros ty a b s H. unfold type_okb in H.
  apply orb_prop in H. destruct H as [H|H]; [apply orb_prop in H; destruct H as [H|H]|];
    split_and; z_of_bool; unfold type_ok; [left|right; left|right; right]; repeat split; assumption.
Qed.

(** round trip of a mate score through the table field (sites 12 and 17 re-insert the score
    they read) *)
Lemma ttSet_ttGet_id : forall f ply,
  0 <= f < 65536 -> ply_ok ply ->
  (isLoseScore (ttGetScore f ply) = true \/ isWinScore (ttGetScore f ply) = true) ->
  ttSetScore (ttGetScore f ply) ply = f.
Proof.
  intros f ply Hf Hp H. unfold ply_ok in Hp. rewrite max_ply_val in Hp.
  assert (Hs : -32768 <= sext16 f <= 32767) by (unfold sext16; lia).
  assert (Hw : wrap16 (sext16 f) = f) by (unfold wrap16, sext16; lia).
  unfold ttGetScore in *. unfold ttSetScore.
  destruct (isWinScore (sext16 f)) eqn:W.
  - apply isWinScore_spec in W.
    destruct H as [H|H].
    + apply isLoseScore_spec in H. lia.
    + rewrite H. replace (sext16 f - ply + ply) with (sext16 f) by lia. exact Hw.
  - destruct (isLoseScore (sext16 f)) eqn:L.
    + apply isLoseScore_spec in L. destruct H as [H|H].
      * rewrite (lose_not_win _ H), H. replace (sext16 f + ply - ply) with (sext16 f) by lia. exact Hw.
      * apply isWinScore_spec in H. lia.
    + destruct H as [H|H]; congruence.
Qed.

Section JustifySound.
  Variable pos : Type.
  Variable moves : pos -> list pos.
  Variable in_check : pos -> bool.
  Variable posOf : positive -> pos.
  Variable keyPos : positive -> pos.

  Notation Node := (Node moves in_check).
  Notation Body := (Body moves in_check).
  Notation TTFact := (TTFact moves in_check).
  Notation WinChild := (WinChild moves in_check).
  Notation AllChildren := (AllChildren moves in_check).

  Definition acc_ok (acc : accmap) : Prop :=
    forall id r, PM.find id acc = Some r -> Node (posOf id) (r_ply r) (r_a r) (r_b r) (r_s r).

  Definition st_ok (st : stmap) : Prop :=
    forall k ty f, In (ty, f) (stores st k) -> TTFact (keyPos k) ty f.

  (** the child ids given for the legal moves point at nodes of the successor positions *)
  Definition links (p : pos) (ms : list (option positive)) : Prop :=
    Forall2 (fun c oc => forall cid, oc = Some cid -> posOf cid = c) (moves p) ms.

  Definition oracle_ok (id : positive) (n : nrec) (o : orec) : Prop :=
    in_check (posOf id) = o_ic o /\
    links (posOf id) (o_moves o) /\
    (r_fn n = 0 -> keyPos (r_key n) = posOf id) /\
    (forall q, r_q n = Some q -> posOf q = posOf id).

  Lemma links_nil : forall p ms, links p ms -> (isnil ms = true <-> moves p = []).
  Proof.
    intros p ms H. unfold links in H. split; intro X.
    - destruct ms as [|m ms']; [|discriminate X]. inversion H. reflexivity.
    - rewrite X in H. inversion H. reflexivity.
  Qed.

  (** WinChild / AllChildren are stated over [moves p]; do the induction over an arbitrary
      list of successors first *)
  Lemma win_child_list : forall acc ply s (cs : list pos) ms,
    acc_ok acc ->
    Forall2 (fun c oc => forall cid, oc = Some cid -> posOf cid = c) cs ms ->
    existsb (child_win_ok acc ply s) ms = true ->
    exists c a' b' s', In c cs /\ Node c (ply + 1) a' b' s' /\ s' < b' /\ s = - s'.
  Proof.
    intros acc ply s cs ms Hacc Hl. induction Hl as [|c oc l ol Hc Hl IH]; intro Hex.
    - simpl in Hex. discriminate.
    - simpl in Hex. apply orb_prop in Hex. destruct Hex as [H|H].
      + unfold child_win_ok in H. destruct oc as [cid|]; [|discriminate].
        destruct (PM.find cid acc) as [r|] eqn:F; [|discriminate].
        split_and. z_of_bool.
        pose proof (Hacc _ _ F) as Hn. rewrite (Hc cid eq_refl) in Hn.
        exists c, (r_a r), (r_b r), (r_s r). repeat split; try assumption.
        * left. reflexivity.
        * match goal with E : r_ply r = _ |- _ => rewrite <- E end. exact Hn.
      + destruct (IH H) as (c0 & a' & b' & s' & Hin & Hn & Hlt & Hs).
        exists c0, a', b', s'. repeat split; try assumption. right. exact Hin.
  Qed.

  Lemma win_child_ok_sound : forall acc p ply s o,
    acc_ok acc -> links p (o_moves o) ->
    win_child_ok acc ply s o = true -> WinChild p ply s.
  Proof.
    intros acc p ply s o Hacc Hl H.
    destruct (win_child_list acc ply s (moves p) (o_moves o) Hacc Hl H) as (c & a' & b' & s' & Hin & Hn & Hlt & Hs).
    apply WC_intro with (c := c) (a' := a') (b' := b') (s' := s'); assumption.
  Qed.

  Lemma all_children_list : forall acc ply s (cs : list pos) ms,
    acc_ok acc ->
    Forall2 (fun c oc => forall cid, oc = Some cid -> posOf cid = c) cs ms ->
    forallb (child_all_ok acc ply s) ms = true ->
    AllChildren cs ply s.
  Proof.
    intros acc ply s cs ms Hacc Hl. induction Hl as [|c oc l ol Hc Hl IH]; intro Hall.
    - apply AC_nil.
    - simpl in Hall. apply andb_prop in Hall. destruct Hall as [H Hrest].
      unfold child_all_ok in H. destruct oc as [cid|]; [|discriminate].
      destruct (PM.find cid acc) as [r|] eqn:F; [|discriminate].
      split_and. z_of_bool.
      pose proof (Hacc _ _ F) as Hn. rewrite (Hc cid eq_refl) in Hn.
      apply AC_cons with (a' := r_a r) (b' := r_b r) (s' := r_s r); try assumption.
      + match goal with E : r_ply r = _ |- _ => rewrite <- E end. exact Hn.
      + apply IH. exact Hrest.
  Qed.

  Lemma all_children_ok_sound : forall acc p ply s o,
    acc_ok acc -> links p (o_moves o) ->
    all_children_ok acc ply s o = true -> AllChildren (moves p) ply s.
  Proof. intros acc p ply s o Hacc Hl H. exact (all_children_list acc ply s _ _ Hacc Hl H). Qed.

  Lemma nil_ok_sound : forall p ply s o,
    in_check p = o_ic o -> links p (o_moves o) ->
    nil_ok ply s o = true -> moves p = [] -> in_check p = true /\ mated_score ply <= s.
  Proof.
    intros p ply s o Hic Hl H E. unfold nil_ok in H.
    rewrite (proj2 (links_nil _ _ Hl) E) in H. split_and. z_of_bool. rewrite Hic. split; assumption.
  Qed.

  Lemma tt_ok_sound : forall st n tys p,
    st_ok st -> keyPos (r_key n) = p ->
    tt_ok st n tys = true ->
    TTFact p (r_ttty n) (r_ttf n) /\ tys (r_ttty n) = true /\ 0 <= r_ttf n < 65536 /\
    r_s n = ttGetScore (r_ttf n) (r_ply n).
  Proof.
    intros st n tys p Hst Hk H. unfold tt_ok in H. split_and.
    match goal with E : existsb _ _ = true |- _ => apply existsb_exists in E; destruct E as ((ty, f) & Hin & He) end.
    simpl in He. split_and. z_of_bool. subst ty f.
    match goal with F : field_okb _ = true |- _ => unfold field_okb in F end. split_and. z_of_bool.
    split; [rewrite <- Hk; apply Hst; exact Hin|]. repeat split; assumption.
  Qed.

  Lemma qroot_ok_sound : forall acc n a b p,
    acc_ok acc -> (forall q, r_q n = Some q -> posOf q = p) ->
    qroot_ok acc n a b = true -> Node p (r_ply n) a b (r_s n).
  Proof.
    intros acc n a b p Hacc Hq H. unfold qroot_ok in H.
    destruct (r_q n) as [q|] eqn:Q; [|discriminate].
    destruct (PM.find q acc) as [c|] eqn:F; [|discriminate].
    split_and. z_of_bool. pose proof (Hacc _ _ F) as Hn. rewrite (Hq q eq_refl) in Hn.
    repeat match goal with E : _ c = _ |- _ => rewrite E in Hn; clear E end. exact Hn.
  Qed.

  Lemma ty_exact_le_ok : forall ty, ty_exact_le ty = true -> ty = T_EXACT \/ ty = T_LE.
  Proof. intros ty H. unfold ty_exact_le in H. apply orb_prop in H. destruct H; z_of_bool; [left|right]; assumption. Qed.

  Lemma ty_exact_ge_ok : forall ty, ty_exact_ge ty = true -> ty = T_EXACT \/ ty = T_GE.
  Proof. intros ty H. unfold ty_exact_ge in H. apply orb_prop in H. destruct H; z_of_bool; [left|right]; assumption. Qed.

  (** what an accepted negaScout body yields: a derivation, and the table facts of its stores *)
  Definition body_facts (p : pos) (n : nrec) (b : Z) : Prop :=
    Body p (r_ply n) (r_a n) b (r_s n) /\
    (storing_site (r_site n) = true -> TTFact p (r_ty n) (ttSetScore (r_s n) (r_ply n))) /\
    (r_site n = 12 -> TTFact p T_LE (r_ttf n)) /\
    (r_site n = 17 -> TTFact p T_GE (r_ttf n)).

  Lemma store_from_body : forall p n b,
    Body p (r_ply n) (r_a n) b (r_s n) -> ply_ok (r_ply n) ->
    type_okb (r_ty n) (r_a n) b (r_s n) = true -> score_okb (r_s n) = true ->
    TTFact p (r_ty n) (ttSetScore (r_s n) (r_ply n)).
  Proof.
    intros p n b HB Hp H H0.
    apply TT_store with (a := r_a n) (b := b); [exact HB|exact Hp|apply score_okb_ok; assumption|apply type_okb_ok; assumption].
  Qed.

  Ltac site_case E k :=
    match goal with |- context [r_site ?n =? k] => destruct (r_site n =? k) eqn:E end.

  Lemma check_body_sound : forall acc st id n o b,
    acc_ok acc -> st_ok st -> oracle_ok id n o -> r_fn n = 0 -> ply_ok (r_ply n) ->
    check_body acc st n o b = true ->
    body_facts (posOf id) n b.
  Proof.
    intros acc st id n o b Hacc Hst (Hic & Hl & Hk & Hq) Hfn Hp H.
    specialize (Hk Hfn). unfold check_body in H. unfold body_facts.
    set (p := posOf id) in *.
    destruct (r_site n =? 2) eqn:E2.
    { z_of_bool. split_and. z_of_bool.
      match goal with I : isnil _ = true |- _ => apply (links_nil _ _ Hl) in I; rename I into Hnil end.
      split; [|rewrite E2; repeat split; intro X; try discriminate X; vm_compute in X; discriminate X].
      apply B_draw_mated; [exact Hp|split; [rewrite Hic; assumption|exact Hnil]|assumption]. }
    destruct ((r_site n =? 3) || (r_site n =? 4)) eqn:E3.
    { z_of_bool. split; [apply B_draw; assumption|].
      apply orb_prop in E3. destruct E3 as [E|E]; z_of_bool; rewrite E;
        repeat split; intro X; try discriminate X; vm_compute in X; discriminate X. }
    destruct (r_site n =? 5) eqn:E5.
    { z_of_bool. split_and.
      match goal with T : tt_ok _ _ _ = true |- _ => destruct (tt_ok_sound _ _ _ p Hst Hk T) as (HF & _ & _ & Hs) end.
      split; [|rewrite E5; repeat split; intro X; try discriminate X; vm_compute in X; discriminate X].
      apply B_tt_cut with (ty := r_ttty n) (f := r_ttf n) (eDepth := r_ttd n) (depth := r_depth n); assumption. }
    destruct (r_site n =? 8) eqn:E8.
    { z_of_bool. apply andb_prop in H. destruct H as [Hty Hqr].
      assert (HB : Body p (r_ply n) (r_a n) b (r_s n)).
      { apply B_qsearch. apply (qroot_ok_sound acc n (r_a n) b p Hacc Hq Hqr). }
      apply andb_prop in Hty. destruct Hty as [Hty1 Hty2].
      split; [exact HB|]. split; [intros _; apply (store_from_body p n b HB Hp Hty1 Hty2)|].
      rewrite E8. split; intro X; discriminate X. }
    destruct (r_site n =? 9) eqn:E9.
    { z_of_bool.
      repeat match goal with X : _ && _ = true |- _ => apply andb_prop in X; let X1 := fresh "C" in destruct X as [X X1] end.
      z_of_bool.
      assert (HB : Body p (r_ply n) (r_a n) b (r_s n)).
      { apply B_razor with (mg := r_mg n); try assumption.
        - rewrite Hic. assumption.
        - apply (qroot_ok_sound acc n _ _ p Hacc Hq). assumption. }
      split; [exact HB|]. split; [intros _; apply (store_from_body p n b HB Hp); assumption|].
      rewrite E9. split; intro X; discriminate X. }
    destruct (r_site n =? 10) eqn:E10.
    { z_of_bool.
      repeat match goal with X : _ && _ = true |- _ => apply andb_prop in X; let X1 := fresh "C" in destruct X as [X X1] end.
      z_of_bool.
      assert (HB : Body p (r_ply n) (r_a n) b (r_s n)).
      { apply B_revfut; try assumption. rewrite Hic. assumption. }
      split; [exact HB|]. split; [intros _; apply (store_from_body p n b HB Hp); assumption|].
      rewrite E10. split; intro X; discriminate X. }
    destruct (r_site n =? 11) eqn:E11.
    { z_of_bool. split_and. z_of_bool.
      split; [|rewrite E11; repeat split; intro X; try discriminate X; vm_compute in X; discriminate X].
      apply B_null with (s0 := r_s n); try assumption.
      - rewrite Hic. assumption.
      - match goal with W : isWinScore (r_s n) = false |- _ => rewrite W end. reflexivity. }
    destruct (r_site n =? 12) eqn:E12.
    { z_of_bool. split_and. z_of_bool.
      match goal with T : tt_ok _ _ _ = true |- _ => destruct (tt_ok_sound _ _ _ p Hst Hk T) as (HF & Hty & Hf & Hs) end.
      apply ty_exact_le_ok in Hty.
      split; [apply B_cut_tt_lose with (ty := r_ttty n) (f := r_ttf n); assumption|].
      split; [intro X; rewrite E12 in X; vm_compute in X; discriminate X|].
      split; [intros _; apply TT_weaken_le with (ty := r_ttty n); assumption|].
      intro X. rewrite E12 in X. discriminate X. }
    destruct (r_site n =? 13) eqn:E13.
    { z_of_bool.
      repeat match goal with X : _ && _ = true |- _ => apply andb_prop in X; let X1 := fresh "C" in destruct X as [X X1] end.
      z_of_bool.
      assert (HB : Body p (r_ply n) (r_a n) b (r_s n)).
      { apply B_cut; [assumption|]. intro W.
        match goal with I : implb _ _ = true |- _ => rewrite W in I; simpl in I;
          exact (win_child_ok_sound acc p _ _ o Hacc Hl I) end. }
      split; [exact HB|]. split; [intros _; apply (store_from_body p n b HB Hp); assumption|].
      rewrite E13. split; intro X; discriminate X. }
    destruct (r_site n =? 14) eqn:E14.
    { z_of_bool. split_and. z_of_bool.
      match goal with I : isnil _ = true |- _ => apply (links_nil _ _ Hl) in I; rename I into Hnil end.
      split; [|rewrite E14; repeat split; intro X; try discriminate X; vm_compute in X; discriminate X].
      apply B_stalemate; [split; [rewrite Hic; assumption|exact Hnil]|assumption]. }
    destruct (r_site n =? 16) eqn:E16.
    { z_of_bool.
      repeat match goal with X : _ && _ = true |- _ => apply andb_prop in X; let X1 := fresh "C" in destruct X as [X X1] end.
      z_of_bool.
      assert (HB : Body p (r_ply n) (r_a n) b (r_s n)).
      { apply B_end_exact; try assumption.
        - intro W. match goal with I : implb (isWinScore _) _ = true |- _ => rewrite W in I; simpl in I;
            exact (win_child_ok_sound acc p _ _ o Hacc Hl I) end.
        - intro L. match goal with I : implb (isLoseScore _) _ = true |- _ => rewrite L in I; simpl in I;
            apply andb_prop in I; destruct I as [I1 I2] end.
          apply negb_true_iff in I1. intro E. apply (links_nil _ _ Hl) in E. congruence.
        - intro L. match goal with I : implb (isLoseScore _) _ = true |- _ => rewrite L in I; simpl in I;
            apply andb_prop in I; destruct I as [I1 I2] end.
          exact (all_children_ok_sound acc p _ _ o Hacc Hl I2). }
      split; [exact HB|]. split; [intros _; apply (store_from_body p n b HB Hp); assumption|].
      rewrite E16. split; intro X; discriminate X. }
    destruct (r_site n =? 17) eqn:E17.
    { z_of_bool. split_and. z_of_bool.
      match goal with T : tt_ok _ _ _ = true |- _ => destruct (tt_ok_sound _ _ _ p Hst Hk T) as (HF & Hty & Hf & Hs) end.
      apply ty_exact_ge_ok in Hty.
      split; [apply B_end_tt_win with (ty := r_ttty n) (f := r_ttf n); assumption|].
      split; [intro X; rewrite E17 in X; vm_compute in X; discriminate X|].
      split; [intro X; rewrite E17 in X; discriminate X|].
      intros _. apply TT_weaken_ge with (ty := r_ttty n); assumption. }
    destruct (r_site n =? 18) eqn:E18; [|discriminate].
    z_of_bool. apply orb_prop in H. destruct H as [H|H].
    - repeat match goal with X : _ && _ = true |- _ => apply andb_prop in X; let X1 := fresh "C" in destruct X as [X X1] end.
      z_of_bool.
      assert (HB : Body p (r_ply n) (r_a n) b (r_s n)).
      { apply B_end_faillow; try assumption.
        - intros L E. match goal with I : implb (isLoseScore _) _ = true |- _ => rewrite L in I; simpl in I;
            unfold lose_support_ok in I; apply andb_prop in I; destruct I as [I1 I2] end.
          exact (nil_ok_sound p _ _ o Hic Hl I1 E).
        - intro L. match goal with I : implb (isLoseScore _) _ = true |- _ => rewrite L in I; simpl in I;
            unfold lose_support_ok in I; apply andb_prop in I; destruct I as [I1 I2] end.
          exact (all_children_ok_sound acc p _ _ o Hacc Hl I2). }
      split; [exact HB|]. split; [intros _; apply (store_from_body p n b HB Hp); assumption|].
      rewrite E18. split; intro X; discriminate X.
    - repeat match goal with X : _ && _ = true |- _ => apply andb_prop in X; let X1 := fresh "C" in destruct X as [X X1] end.
      z_of_bool.
      match goal with I : isnil _ = true |- _ => apply (links_nil _ _ Hl) in I; rename I into Hnil end.
      assert (Hm : checkmated moves in_check p) by (split; [rewrite Hic; assumption|exact Hnil]).
      split; [apply B_end_mated; assumption|].
      split; [|rewrite E18; split; intro X; discriminate X].
      intros _. apply TT_store with (a := r_s n - 1) (b := r_s n + 1).
      + apply B_end_mated; assumption.
      + exact Hp.
      + apply score_okb_ok. assumption.
      + unfold type_ok.
        match goal with T : (_ || _ || _) = true |- _ => apply orb_prop in T; destruct T as [T|T]; [apply orb_prop in T; destruct T as [T|T]|] end;
          z_of_bool; [left|right; left|right; right]; repeat split; try assumption; lia.
  Qed.

  (** an accepted node has a derivation; the fact it records is a table fact of its position *)
  Theorem check_node_sound : forall acc st id n o,
    acc_ok acc -> st_ok st -> oracle_ok id n o ->
    check_node acc st n o = true ->
    Node (posOf id) (r_ply n) (r_a n) (r_b n) (r_s n) /\
    (forall e, store_of n = Some e -> TTFact (keyPos (r_key n)) (fst e) (snd e)).
  Proof.
    intros acc st id n o Hacc Hst Hor H.
    pose proof Hor as (Hic & Hl & Hk & Hq).
    unfold check_node in H. unfold store_of.
    destruct (negb (isWinScore (r_s n)) && negb (isLoseScore (r_s n))) eqn:NM.
    { apply andb_prop in NM. destruct NM as [W L]. apply negb_true_iff in W, L.
      split; [apply N_nonmate; assumption|]. intros e X. discriminate X. }
    destruct (r_fn n =? 0) eqn:FN.
    - z_of_bool. apply andb_prop in H. destruct H as [Hp H]. apply ply_okb_ok in Hp.
      simpl negb.
      destruct (r_site n =? 1) eqn:E1.
      + split_and. z_of_bool.
        split.
        * match goal with E : r_s n = r_a n |- _ => rewrite E end. apply N_mdp; assumption.
        * rewrite E1. intros e X. vm_compute in X. discriminate X.
      + apply andb_prop in H. destruct H as [Ha H]. z_of_bool.
        destruct (check_body_sound acc st id n o _ Hacc Hst Hor FN Hp H) as (HB & HS & H12 & H17).
        split; [apply N_negascout; assumption|].
        rewrite <- (Hk FN) in *.
        intros e X. destruct (storing_site (r_site n)) eqn:SS.
        * inversion X; subst e. simpl. apply HS. reflexivity.
        * destruct (r_site n =? 12) eqn:E12.
          { z_of_bool. inversion X; subst e. simpl. apply H12. assumption. }
          destruct (r_site n =? 17) eqn:E17; [|discriminate X].
          z_of_bool. inversion X; subst e. simpl. apply H17. assumption.
    - split; [|intros e X; simpl in X; discriminate X].
      destruct (r_site n =? 20) eqn:E20.
      { split_and. z_of_bool.
        apply N_q_standpat with (ic := true); try assumption. }
      destruct (r_site n =? 21) eqn:E21.
      { split_and. z_of_bool. apply N_q_cut; [assumption|].
        intro W. match goal with I : implb _ _ = true |- _ => rewrite W in I; simpl in I;
          exact (win_child_ok_sound acc _ _ _ o Hacc Hl I) end. }
      destruct (r_site n =? 22) eqn:E22; [|discriminate].
      apply andb_prop in H. destruct H as [HW HL].
      apply N_q_end.
      + intros Ha W. apply Z.ltb_lt in Ha. rewrite Ha, W in HW. simpl in HW.
        exact (win_child_ok_sound acc _ _ _ o Hacc Hl HW).
      + intros Hb L E. apply Z.ltb_lt in Hb. rewrite Hb, L in HL. simpl in HL.
        unfold lose_support_ok in HL. apply andb_prop in HL. destruct HL as [I1 I2].
        exact (nil_ok_sound _ _ _ o Hic Hl I1 E).
      + intros Hb L. apply Z.ltb_lt in Hb. rewrite Hb, L in HL. simpl in HL.
        unfold lose_support_ok in HL. apply andb_prop in HL. destruct HL as [I1 I2].
        exact (all_children_ok_sound acc _ _ _ o Hacc Hl I2).
  Qed.

  Lemma stores_add_same : forall st k e, stores (add_store st k e) k = e :: stores st k.
  Proof. intros st k e. unfold add_store, stores at 1. rewrite PM.gss. reflexivity. Qed.

  Lemma stores_add_other : forall st k k' e, k' <> k -> stores (add_store st k e) k' = stores st k'.
  Proof. intros st k k' e Hne. unfold add_store, stores at 1. rewrite PM.gso by exact Hne. reflexivity. Qed.

  (** one step of the trace checker preserves the invariants *)
  Theorem step_sound : forall acc st id n o acc' st',
    acc_ok acc -> st_ok st -> oracle_ok id n o ->
    step acc st id n o = Some (acc', st') ->
    acc_ok acc' /\ st_ok st'.
  Proof.
    intros acc st id n o acc' st' Hacc Hst Hor H. unfold step in H.
    destruct (check_node acc st n o) eqn:C; [|discriminate].
    inversion H; subst acc' st'; clear H.
    destruct (check_node_sound acc st id n o Hacc Hst Hor C) as [HN HS].
    split.
    - intros id' r F. destruct (Pos.eq_dec id' id) as [E|E].
      + subst id'. rewrite PM.gss in F. inversion F; subst r. exact HN.
      + rewrite PM.gso in F by exact E. exact (Hacc _ _ F).
    - destruct (store_of n) as [e|] eqn:SO; [|exact Hst].
      intros k ty f Hin. destruct (Pos.eq_dec k (r_key n)) as [E|E].
      + subst k. rewrite stores_add_same in Hin. destruct Hin as [Hin|Hin].
        * subst e. exact (HS _ eq_refl).
        * exact (Hst _ _ _ Hin).
      + rewrite stores_add_other in Hin by exact E. exact (Hst _ _ _ Hin).
  Qed.

  (** the whole trace: rejected nodes leave the state unchanged *)
  Fixpoint run (items : list (positive * nrec * orec)) (acc : accmap) (st : stmap) : accmap * stmap :=
    match items with
    | [] => (acc, st)
    | (id, n, o) :: rest =>
        match step acc st id n o with
        | Some (acc', st') => run rest acc' st'
        | None => run rest acc st
        end
    end.

  Theorem run_sound : forall items acc st,
    acc_ok acc -> st_ok st ->
    Forall (fun it => oracle_ok (fst (fst it)) (snd (fst it)) (snd it)) items ->
    acc_ok (fst (run items acc st)) /\ st_ok (snd (run items acc st)).
  Proof.
    induction items as [|[[id n] o] rest IH]; intros acc st Hacc Hst Hall.
    - simpl. split; assumption.
    - inversion Hall as [|x l Hor Hrest]; subst. simpl in Hor. simpl.
      destruct (step acc st id n o) as [[acc' st']|] eqn:S.
      + destruct (step_sound _ _ _ _ _ _ _ Hacc Hst Hor S) as [Ha Hs]. apply IH; assumption.
      + apply IH; assumption.
  Qed.

  Lemma acc_ok_empty : acc_ok (PM.empty nrec).
  Proof. intros id r F. rewrite PM.gempty in F. discriminate F. Qed.

  Lemma st_ok_empty : st_ok (PM.empty (list (Z * Z))).
  Proof. intros k ty f Hin. unfold stores in Hin. rewrite PM.gempty in Hin. destruct Hin. Qed.

  (** Certificate soundness: every node accepted while checking a trace from the empty state
      returned a sound result. *)
  Theorem certificate_sound : forall items id r,
    Forall (fun it => oracle_ok (fst (fst it)) (snd (fst it)) (snd it)) items ->
    PM.find id (fst (run items (PM.empty nrec) (PM.empty (list (Z * Z))))) = Some r ->
    sound_result moves in_check (posOf id) (r_ply r) (r_a r) (r_b r) (r_s r).
  Proof.
    intros items id r Hall F.
    destruct (run_sound items _ _ acc_ok_empty st_ok_empty Hall) as [Ha _].
    apply (rules_sound pos moves in_check). exact (Ha _ _ F).
  Qed.

  (** root checks *)
  Theorem check_root_win_sound : forall acc root cid alpha beta score N,
    acc_ok acc -> In (posOf cid) (moves root) ->
    check_root_win acc cid alpha beta score N = true ->
    loses moves in_check (Z.to_nat (2 * (N - 1))) (posOf cid) /\ wins moves in_check (Z.to_nat (2 * N - 1)) root.
  Proof.
    intros acc root cid alpha beta score N Hacc Hin H. unfold check_root_win in H.
    destruct (PM.find cid acc) as [c|] eqn:F; [|discriminate].
    repeat match goal with X : _ && _ = true |- _ => apply andb_prop in X; let X1 := fresh "C" in destruct X as [X X1] end.
    destruct (mate_of_score score) as [m|] eqn:M; [|discriminate].
    z_of_bool. subst m.
    pose proof (Hacc _ _ F) as Hn.
    repeat match goal with E : _ c = _ |- _ => rewrite E in Hn; clear E end.
    match goal with E : score = - r_s c |- _ => rewrite E in * end.
    apply (announced_win_real pos moves in_check root (posOf cid) alpha beta (r_s c) N); try assumption.
    apply score_okb_ok. assumption.
  Qed.

  Theorem check_root_loss_sound : forall acc root o score N,
    acc_ok acc -> links root (o_moves o) ->
    check_root_loss acc o score N = true ->
    loses moves in_check (Z.to_nat (2 * N)) root.
  Proof.
    intros acc root o score N Hacc Hl H. unfold check_root_loss in H.
    repeat match goal with X : _ && _ = true |- _ => apply andb_prop in X; let X1 := fresh "C" in destruct X as [X X1] end.
    destruct (mate_of_score score) as [m|] eqn:M; [|discriminate].
    z_of_bool. subst m.
    apply (announced_loss_real pos moves in_check root score N); try assumption.
    - intro E. apply (links_nil _ _ Hl) in E. congruence.
    - exact (all_children_ok_sound acc root 0 score o Hacc Hl ltac:(assumption)).
    - apply score_okb_ok. assumption.
  Qed.
End JustifySound.

(** non-vacuity: the checker accepts the record of a checkmated node (site 18, in check, no legal
    move, window (-31999,-31000) at ply 1), records its table fact, and then accepts its parent
    (site 16, exact score "mate 1" at ply 0 in a position with that single legal move) *)
Definition ex_child : nrec :=
  mkN 5%positive 0 1 1 (-31999) (-31000) (-31998) 18 T_LE true 0 0 0 0 None.
Definition ex_parent : nrec :=
  mkN 6%positive 0 0 2 31000 31999 31998 16 T_EXACT false 0 0 0 0 None.

Example justify_example :
  match step (PM.empty nrec) (PM.empty (list (Z * Z))) 1%positive ex_child (mkO true []) with
  | Some (acc, st) =>
      stores st 5%positive = [(T_LE, ttSetScore (-31998) 1)] /\
      check_node acc st ex_parent (mkO false [Some 1%positive]) = true /\
      check_node acc st ex_parent (mkO false [None]) = false /\
      check_root_win acc 1%positive 31000 32000 31998 1 = false
  | None => False
  end.
Proof. vm_compute. repeat split. Qed.
