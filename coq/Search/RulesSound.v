(** C04 — soundness of the rule system of Search/Rules.v: for every game and every derivation,
    a returned win score that is exact or a lower bound is a real forced mate within the
    announced distance, a returned lose score that is exact or an upper bound is a real forced
    loss; every table entry derivable by the store rule satisfies the TT invariant. *)
From Coq Require Import ZArith List Bool Lia Arith.
From Texel Require Import Search.Score Search.ScoreFacts Search.Game Search.GameFacts Search.Rules.
Import ListNotations.
Local Open Scope Z_scope.

Scheme Node_min := Minimality for Node Sort Prop
  with Body_min := Minimality for Body Sort Prop
  with TTFact_min := Minimality for TTFact Sort Prop
  with WinChild_min := Minimality for WinChild Sort Prop
  with AllChildren_min := Minimality for AllChildren Sort Prop.
Combined Scheme rules_mutind from Node_min, Body_min, TTFact_min, WinChild_min, AllChildren_min.

Section Sound.
  Variable pos : Type.
  Variable moves : pos -> list pos.
  Variable in_check : pos -> bool.

  Notation wins := (wins moves in_check).
  Notation loses := (loses moves in_check).
  Notation win_bound := (win_bound moves in_check).
  Notation lose_bound := (lose_bound moves in_check).
  Notation sound_result := (sound_result moves in_check).
  Notation Node := (Node moves in_check).
  Notation Body := (Body moves in_check).
  Notation TTFact := (TTFact moves in_check).
  Notation WinChild := (WinChild moves in_check).
  Notation AllChildren := (AllChildren moves in_check).
  Notation tt_sound := (tt_sound moves in_check).

  (** what the children contribute *)
  Definition children_win (l : list pos) (ply s : Z) : Prop :=
    isLoseScore s = true ->
    forall c, In c l -> exists k : nat, wins k c /\ (ply + 1) + Z.of_nat k + 1 <= MATE0 + s.

  Lemma no_claim_nonmate : forall p ply a b s,
    isWinScore s = false -> isLoseScore s = false -> sound_result p ply a b s.
  Proof. intros p ply a b s W L. split; intros _ H; congruence. Qed.

  Lemma no_claim_lb : forall p ply a b s,
    b <= s -> isWinScore s = false -> sound_result p ply a b s.
  Proof. intros p ply a b s Hb W. split; [intros _ H; congruence|intros; lia]. Qed.

  Lemma mated_lose_bound : forall p ply s,
    checkmated moves in_check p -> mated_score ply <= s -> lose_bound s ply p.
  Proof.
    intros p ply s Hm Hs _. exists 0%nat. split.
    - apply loses_mated. exact Hm.
    - unfold mated_score in Hs. lia.
  Qed.

  Lemma lose_from_children : forall p ply s,
    (moves p = [] -> in_check p = true /\ mated_score ply <= s) ->
    children_win (moves p) ply s ->
    lose_bound s ply p.
  Proof.
    intros p ply s Hnil Hch L.
    destruct (moves p) as [|c0 l] eqn:E.
    - destruct (Hnil eq_refl) as [Hic Hs].
      apply mated_lose_bound; [split; assumption|exact Hs|exact L].
    - specialize (Hch L).
      destruct (Hch c0 (or_introl eq_refl)) as (k0 & Hk0 & Hb0).
      pose proof (wins_pos _ _ _ _ _ Hk0) as Hk0pos.
      set (K := Z.to_nat (MATE0 + s - ply - 2)).
      exists (S K). split.
      + apply loses_all; [rewrite E; discriminate|].
        intros c Hin. rewrite E in Hin. destruct (Hch c Hin) as (k & Hk & Hb).
        apply wins_mono with (1 := Hk). unfold K. lia.
      + unfold K. lia.
  Qed.

  Lemma win_from_child : forall p ply s c s' ,
    In c (moves p) -> lose_bound s' (ply + 1) c -> s = - s' -> win_bound s ply p.
  Proof.
    intros p ply s c s' Hin Hl Hs W. subst s.
    assert (L : isLoseScore s' = true).
    { apply isLoseScore_spec. apply isWinScore_spec in W. lia. }
    destruct (Hl L) as (k & Hk & Hb).
    exists (S k). split; [apply wins_move with c; assumption|lia].
  Qed.

  (** mate-distance pruning only removes claims that cannot be mate claims *)
  Lemma unclip : forall p ply a b s,
    ply_ok ply -> sound_result p ply a (mdp_beta b ply) s -> sound_result p ply a b s.
  Proof.
    intros p ply a b s Hp [HW HL]. split; [exact HW|].
    intros Hsb. destruct (Z_lt_le_dec s (mdp_beta b ply)) as [Hlt|Hge]; [exact (HL Hlt)|].
    intro L. exfalso. apply isLoseScore_spec in L.
    unfold mdp_beta, ply_ok in *. rewrite max_ply_val in Hp. rewrite MATE0_val in Hge. lia.
  Qed.

  Lemma tt_fact_of_sound : forall p ply a b s ty,
    sound_result p ply a b s -> ply_ok ply -> score_ok s -> type_ok ty a b s ->
    tt_sound p ty (ttSetScore s ply).
  Proof.
    intros p ply a b s ty [HW HL] Hp Hs Hty ply2 Hp2.
    unfold ply_ok, score_ok in *.
    destruct (getScore_class s ply ply2 Hs Hp Hp2) as [CW CL].
    split; intros Hk.
    - intro W. destruct (CW W) as [Ws Hr].
      assert (Ha : a < s) by (unfold type_ok in Hty; destruct Hk; subst ty; unfold T_EXACT, T_GE, T_LE in *; lia).
      destruct (HW Ha Ws) as (k & Hk' & Hb). exists k. split; [exact Hk'|]. rewrite Hr. lia.
    - intro L. destruct (CL L) as [Ls Hr].
      assert (Hb' : s < b) by (unfold type_ok in Hty; destruct Hk; subst ty; unfold T_EXACT, T_GE, T_LE in *; lia).
      destruct (HL Hb' Ls) as (k & Hk' & Hb). exists k. split; [exact Hk'|]. rewrite Hr. lia.
  Qed.

  Theorem rules_sound_all :
    (forall p ply a b s, Node p ply a b s -> sound_result p ply a b s) /\
    (forall p ply a b s, Body p ply a b s -> sound_result p ply a b s) /\
    (forall p ty f, TTFact p ty f -> tt_sound p ty f) /\
    (forall p ply s, WinChild p ply s -> win_bound s ply p) /\
    (forall l ply s, AllChildren l ply s -> children_win l ply s).
  Proof.
    apply (rules_mutind pos moves in_check
             (fun p ply a b s => sound_result p ply a b s)
             (fun p ply a b s => sound_result p ply a b s)
             (fun p ty f => tt_sound p ty f)
             (fun p ply s => win_bound s ply p)
             (fun l ply s => children_win l ply s)).
    - (* N_nonmate *)
      intros p ply a b s W L. apply no_claim_nonmate; assumption.
    - (* N_mdp *)
      intros p ply a b Hp Hab Hm. split; [lia|].
      intros _ L. exfalso. apply isLoseScore_spec in L.
      unfold mdp_beta, ply_ok in *. rewrite max_ply_val in Hp. rewrite MATE0_val in Hm. lia.
    - (* N_negascout *)
      intros p ply a b s Hp Ha _ IH. apply unclip; assumption.
    - (* N_q_standpat *)
      intros p ply a b s ic _ Hb W. apply no_claim_lb; assumption.
    - (* N_q_cut *)
      intros p ply a b s Hb _ IH. split; [|lia].
      intros _ W. exact (IH W W).
    - (* N_q_end *)
      intros p ply a b s _ IHw Hnil _ IHl. split.
      + intros Ha W. exact (IHw Ha W W).
      + intros Hb L.
        exact (lose_from_children p ply s (Hnil Hb L) (IHl Hb L) L).
    - (* B_draw_mated *)
      intros p ply a b s Hp Hm Hs. subst s. split.
      + intros _ W. exfalso. apply isWinScore_spec in W.
        unfold mated_score, ply_ok in *. rewrite max_ply_val in Hp. rewrite MATE0_val in W. lia.
      + intros _. apply mated_lose_bound; [exact Hm|lia].
    - (* B_draw *)
      intros p ply a b s Hs. subst s. apply no_claim_nonmate; reflexivity.
    - (* B_tt_cut *)
      intros p ply a b s ty f eDepth depth _ IH Hp Hs Hc. subst s.
      destruct (IH ply Hp) as [HW HL].
      destruct (isCutOff_cases _ _ _ _ _ _ Hc) as [E|[[E Hb]|[E Ha]]].
      + split; intros _; [apply HW|apply HL]; left; exact E.
      + split; [intros _; apply HW; right; exact E|lia].
      + split; [lia|intros _; apply HL; right; exact E].
    - (* B_qsearch *)
      intros p ply a b s _ IH. exact IH.
    - (* B_razor *)
      intros p ply a b s mg _ Hab Hmg _ [IHw IHl] Hs. split; [lia|].
      intros _. apply IHl. lia.
    - (* B_revfut *)
      intros p ply a b s _ Hb W. apply no_claim_lb; assumption.
    - (* B_null *)
      intros p ply a b s s0 _ Wb Hb Hs. apply no_claim_lb.
      + subst s. destruct (isWinScore s0); lia.
      + subst s. destruct (isWinScore s0) eqn:E; assumption.
    - (* B_cut_tt_lose *)
      intros p ply a b s ty f _ IH Hp Hty Hs L. subst s.
      destruct (IH ply Hp) as [_ HL]. split.
      + intros _ W. rewrite (lose_not_win _ L) in W. discriminate.
      + intros _. apply HL. destruct Hty; [left|right]; assumption.
    - (* B_cut *)
      intros p ply a b s Hb _ IH. split; [|lia].
      intros _ W. exact (IH W W).
    - (* B_stalemate *)
      intros p ply a b s _ Hs. subst s. apply no_claim_nonmate; reflexivity.
    - (* B_end_exact *)
      intros p ply a b s Ha Hb _ IHw Hne _ IHl. split.
      + intros _ W. exact (IHw W W).
      + intros _ L.
        apply (lose_from_children p ply s); [intro E; exfalso; exact (Hne L E)|exact (IHl L)|exact L].
    - (* B_end_tt_win *)
      intros p ply a b s ty f _ IH Hp Hty Hs W. subst s.
      destruct (IH ply Hp) as [HW _]. split.
      + intros _. apply HW. destruct Hty; [left|right]; assumption.
      + intros _ L. rewrite (win_not_lose _ W) in L. discriminate.
    - (* B_end_faillow *)
      intros p ply a b s Ha Hnil _ IHl. split; [lia|].
      intros _ L.
      exact (lose_from_children p ply s (Hnil L) (IHl L) L).
    - (* B_end_mated *)
      intros p ply a b s Hp Hm Hs. subst s. split.
      + intros _ W. exfalso. apply isWinScore_spec in W.
        unfold mated_score, ply_ok in *. rewrite max_ply_val in Hp. rewrite MATE0_val in W. lia.
      + intros _. apply mated_lose_bound; [exact Hm|lia].
    - (* TT_store *)
      intros p ply a b s ty _ IH Hp Hs Hty. exact (tt_fact_of_sound p ply a b s ty IH Hp Hs Hty).
    - (* TT_weaken_le *)
      intros p ty f _ IH Hty ply Hp. destruct (IH ply Hp) as [HW HL]. split.
      + intros [E|E]; unfold T_LE, T_EXACT, T_GE in E; discriminate.
      + intros _. apply HL. destruct Hty; [left|right]; assumption.
    - (* TT_weaken_ge *)
      intros p ty f _ IH Hty ply Hp. destruct (IH ply Hp) as [HW HL]. split.
      + intros _. apply HW. destruct Hty; [left|right]; assumption.
      + intros [E|E]; unfold T_LE, T_EXACT, T_GE in E; discriminate.
    - (* WC_intro *)
      intros p ply s c a' b' s' Hin _ [_ IHl] Hlt Hs.
      exact (win_from_child p ply s c s' Hin (IHl Hlt) Hs).
    - (* AC_nil *)
      intros ply s _ c [].
    - (* AC_cons *)
      intros ply s c l a' b' s' _ [IHw _] Ha Hs _ IHl L c0 [E|Hin].
      + subst c0.
        assert (W : isWinScore s' = true).
        { apply isWinScore_spec. apply isLoseScore_spec in L. lia. }
        destruct (IHw Ha W) as (k & Hk & Hb). exists k. split; [exact Hk|lia].
      + exact (IHl L c0 Hin).
  Qed.

  Theorem rules_sound : forall p ply a b s, Node p ply a b s -> sound_result p ply a b s.
  Proof. exact (proj1 rules_sound_all). Qed.

  Theorem body_sound : forall p ply a b s, Body p ply a b s -> sound_result p ply a b s.
  Proof. exact (proj1 (proj2 rules_sound_all)). Qed.

  Theorem tt_invariant : forall p ty f, TTFact p ty f -> tt_sound p ty f.
  Proof. exact (proj1 (proj2 (proj2 rules_sound_all))). Qed.

  (** At the root (ply 0; Search::iterativeDeepening searches each root move m with
      negaScoutRoot(-beta, -alpha, ply 1) and reports -result, as "lowerbound" when
      >= beta, "upperbound" when <= alpha): an announced "mate N", N > 0, exact or lower
      bound, is real, and the move it is announced for keeps a forced mate. *)
  Theorem announced_win_real : forall root c alpha beta sc N,
    In c (moves root) ->
    Node c 1 (- beta) (- alpha) sc ->
    alpha < - sc -> score_ok (- sc) ->
    mate_of_score (- sc) = Some N -> 0 < N ->
    loses (Z.to_nat (2 * (N - 1))) c /\ wins (Z.to_nat (2 * N - 1)) root.
  Proof.
    intros root c alpha beta sc N Hin Hn Ha Hm HN Npos.
    destruct (rules_sound _ _ _ _ _ Hn) as [_ HL].
    unfold score_ok in Hm.
    assert (W : isWinScore (- sc) = true) by (apply mate_pos_is_win with N; [lia|assumption|assumption]).
    destruct (mate_of_score_win _ _ (proj2 Hm) HN W) as [_ Hd].
    assert (L : isLoseScore sc = true).
    { apply isLoseScore_spec. apply isWinScore_spec in W. lia. }
    destruct (HL ltac:(lia) L) as (k & Hk & Hb).
    assert (Hc : loses (Z.to_nat (2 * (N - 1))) c).
    { apply loses_within_moves with (k := k); [lia|exact Hk|lia]. }
    split; [exact Hc|].
    replace (Z.to_nat (2 * N - 1)) with (S (Z.to_nat (2 * (N - 1)))) by lia.
    apply wins_move with c; assumption.
  Qed.

  (** A final score "mate -N" of a completed iteration: every root move was searched and its
      last search returned an exact score or a bound that lies at or below the reported score
      (the best move exactly, the others by failing low against it). *)
  Theorem announced_loss_real : forall root score N,
    moves root <> [] ->
    AllChildren (moves root) 0 score ->
    score_ok score ->
    mate_of_score score = Some (- N) -> 0 < N ->
    loses (Z.to_nat (2 * N)) root.
  Proof.
    intros root score N Hne Hall Hm HN Npos.
    unfold score_ok in Hm.
    assert (L : isLoseScore score = true) by (apply mate_neg_is_lose with N; [lia|assumption|assumption]).
    assert (Hm' : - MATE0 < score).
    { destruct (Z.eq_dec score (- MATE0)) as [E|E]; [|lia].
      exfalso. rewrite E in HN. change (mate_of_score (- MATE0)) with (Some 0) in HN.
      injection HN as HN'. lia. }
    destruct (mate_of_score_lose _ _ Hm' HN L) as [_ Hd].
    pose proof (proj2 (proj2 (proj2 (proj2 rules_sound_all))) _ _ _ Hall L) as Hch.
    replace (Z.to_nat (2 * N)) with (S (Z.to_nat (2 * N - 1))) by lia.
    apply loses_all; [exact Hne|].
    intros c Hin. destruct (Hch c Hin) as (k & Hk & Hb).
    apply wins_within_moves with (k := k); [exact Hk|lia].
  Qed.
End Sound.
