(** C13 — non-vacuity: the hypotheses of the main theorems of Search/TBRulesSound.v are
    satisfiable on concrete inputs. *)
From Coq Require Import ZArith List Bool Lia Arith.
From Texel Require Import Search.Score Search.ScoreFacts Search.Game Search.Rules
  Search.TBRules Search.TBRulesFacts Search.TBRulesSound.
From Texel Require TB.DtmCert.
Import ListNotations.
Local Open Scope Z_scope.

(** a two-position game: in position 0 the side to move mates in one (the only move leads to
    position 1, which is checkmate) *)
Definition ex_moves (p : nat) : list nat := match p with O => [1%nat] | _ => [] end.
Definition ex_check (p : nat) : bool := Nat.eqb p 1.
Definition ex_tb (p : nat) : option tbval :=
  match p with O => Some (TWin 1) | S O => Some (TLoss 0) | _ => None end.
Definition ex_hmc (p : nat) : Z := match p with O => 98 | _ => 99 end.

Lemma ex_loss0 : DtmCert.mated_in ex_moves ex_check 0 1%nat.
Proof. split; [apply DtmCert.loss_now; reflexivity|intros m Hm; lia]. Qed.

Lemma ex_win1 : DtmCert.mate_in ex_moves ex_check 1 0%nat.
Proof.
  split.
  - apply DtmCert.win_step with 1%nat; [left; reflexivity|exact (proj1 ex_loss0)].
  - intros m Hm H. assert (m = 0)%nat by lia. subst m. inversion H.
Qed.

Lemma ex_tb_exact : tb_exact nat ex_moves ex_check ex_tb.
Proof.
  intros p v H. destruct p as [|[|p]]; simpl in H; inversion H; subst v.
  - split; [exact ex_win1|]. split; [unfold tbval_plies; lia|]. intros n E. inversion E. lia.
  - split; [exact ex_loss0|]. split; [unfold tbval_plies; lia|]. intros n E. discriminate.
Qed.

(** the child is cut off by the table with its exact (mated now) score although the half-move
    clock is 99: checkmate on the move that brings the clock to 100 counts ... *)
Example ex_child_node : TNode ex_moves ex_check ex_tb ex_hmc 1%nat 1 (- MATE0) MATE0 (- (MATE0 - 2)).
Proof.
  apply TN_negascout.
  - unfold ply_ok. rewrite max_ply_val. lia.
  - vm_compute. reflexivity.
  - apply TB_tb_cut with (v := TLoss 0) (depth := 1) (evalScore := 0) (ty' := T_EXACT).
    + reflexivity.
    + unfold ply_ok. rewrite max_ply_val. lia.
    + vm_compute. reflexivity.
Qed.

(** ... and the root score is the exact "mate 1" (hypotheses of root_win_exact hold) *)
Example ex_root_exact :
  MATE0 - 2 = label_score (TWin 1) 0 /\ mate_of_score (MATE0 - 2) = Some 1.
Proof.
  apply (root_win_exact nat ex_moves ex_check ex_tb ex_hmc ex_tb_exact
           0%nat 1%nat 1%nat (- MATE0) MATE0 (- (MATE0 - 2)) 1%nat 0%nat (- (MATE0 - 2)) 1 0 (- MATE0) MATE0 T_EXACT (MATE0 - 2)).
  - exact ex_win1.
  - left. reflexivity.
  - exact ex_child_node.
  - vm_compute. reflexivity.
  - vm_compute. reflexivity.
  - left. reflexivity.
  - reflexivity.
  - reflexivity.
  - vm_compute. reflexivity.
  - right. vm_compute. reflexivity.
  - vm_compute. discriminate.
  - vm_compute. discriminate.
Qed.

(** soundness applied to the example: the child's score claims a real loss *)
Example ex_sound : sound_result ex_moves ex_check 1%nat 1 (- MATE0) MATE0 (- (MATE0 - 2)).
Proof. exact (tbrules_sound nat ex_moves ex_check ex_tb ex_hmc ex_tb_exact _ _ _ _ _ ex_child_node). Qed.

(** the site as a function: exact inside the margin, frustrated bound outside, swindled draw *)
Example ex_site :
  tb_node (TWin 7) 1 60 (-100) 100 5 300 = SCut (MATE0 - 1 - 14) T_EXACT /\
  tb_node (TWin 7) 1 90 (-100) 100 5 300 = SGo 67 100 68 T_GE /\
  tb_node (TWin 7) 1 90 (-100) 100 20 300 = SGo (-1) 100 0 T_GE /\
  tb_node (TLoss 7) 1 90 (-100) 100 5 300 = SGo (-100) (-66) (-67) T_LE /\
  tb_node TDraw 1 90 (-100) 100 5 100 = SCut 18 T_EXACT /\
  tb_node TDraw 1 90 70 71 20 100 = SCut 70 T_LE /\
  tbAdjust T_GE 68 (-5) = 68 /\ tbAdjust T_LE (-67) 500 = -67.
Proof. vm_compute. repeat split. Qed.

(** root move choice: children lost in 3, lost in 1, drawn, won in 2 (for the opponent): the
    move into "lost in 1" is chosen *)
Example ex_shortest :
  let lab := fun c : nat => match c with 0 => TLoss 3 | 1 => TLoss 1 | 2 => TDraw | _ => TWin 2 end%nat in
  fst (best_of (0%nat, - label_score (lab 0%nat) 1) (map (fun c => (c, - label_score (lab c) 1)) [1; 2; 3]%nat)) = 1%nat.
Proof. vm_compute. reflexivity. Qed.
