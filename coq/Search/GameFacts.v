(** C04 — facts about forced mates in an abstract game (monotonicity in the distance,
    parity of the distance). *)
From Coq Require Import ZArith List Bool Lia Arith.
From Texel Require Import Search.Score Search.ScoreFacts Search.Game.
Import ListNotations.
Local Open Scope Z_scope.

Section GameFacts.
  Variable pos : Type.
  Variable moves : pos -> list pos.
  Variable in_check : pos -> bool.

  Notation wins := (wins moves in_check).
  Notation loses := (loses moves in_check).

  Lemma wins_0 : forall p, ~ wins 0 p.
  Proof. intros p H. inversion H. Qed.

  Lemma loses_0 : forall p, loses 0 p -> checkmated moves in_check p.
  Proof. intros p H. inversion H; assumption. Qed.

  Lemma mono_both : forall n,
    (forall p m, wins n p -> (n <= m)%nat -> wins m p) /\
    (forall p m, loses n p -> (n <= m)%nat -> loses m p).
  Proof.
    induction n as [|n [IHw IHl]].
    - split; intros p m H Hm.
      + exfalso. exact (wins_0 _ H).
      + apply loses_mated. exact (loses_0 _ H).
    - split; intros p m H Hm.
      + inversion H as [n' p' c Hin Hc]; subst.
        destruct m as [|m]; [lia|].
        apply wins_move with c; [exact Hin|]. apply IHl with (1 := Hc). lia.
      + inversion H as [n' p' Hm0|n' p' Hne Hall]; subst.
        * apply loses_mated. exact Hm0.
        * destruct m as [|m]; [lia|].
          apply loses_all; [exact Hne|]. intros c Hin. apply IHw with (1 := Hall c Hin). lia.
  Qed.

  Lemma wins_mono : forall n m p, wins n p -> (n <= m)%nat -> wins m p.
  Proof. intros n m p H Hm. exact (proj1 (mono_both n) p m H Hm). Qed.

  Lemma loses_mono : forall n m p, loses n p -> (n <= m)%nat -> loses m p.
  Proof. intros n m p H Hm. exact (proj2 (mono_both n) p m H Hm). Qed.

  (** the side to move mates with a move of its own: an even bound can be lowered by one;
      it is mated by a move of the opponent: an odd bound can be lowered by one *)
  Lemma parity_both : forall j,
    (forall p, wins (2 * j) p -> wins (2 * j - 1) p) /\
    (forall p, loses (2 * j + 1) p -> loses (2 * j) p).
  Proof.
    induction j as [|j [IHw IHl]].
    - split; intros p H.
      + exfalso. exact (wins_0 _ H).
      + simpl in H. inversion H as [n' p' Hm0|n' p' Hne Hall]; subst.
        * apply loses_mated. exact Hm0.
        * exfalso. destruct (moves p) as [|c l] eqn:E; [congruence|].
          apply (wins_0 c). apply Hall. left. reflexivity.
    - assert (W : forall p, wins (2 * S j) p -> wins (2 * S j - 1) p).
      { intros p H. replace (2 * S j)%nat with (S (2 * j + 1)) in H by lia.
        replace (2 * S j - 1)%nat with (S (2 * j)) by lia.
        inversion H as [n' p' c Hin Hc]; subst.
        apply wins_move with c; [exact Hin|]. apply IHl. exact Hc. }
      split; [exact W|].
      intros p H. replace (2 * S j + 1)%nat with (S (2 * S j)) in H by lia.
      inversion H as [n' p' Hm0|n' p' Hne Hall]; subst.
      + apply loses_mated. exact Hm0.
      + replace (2 * S j)%nat with (S (2 * S j - 1)) by lia.
        apply loses_all; [exact Hne|]. intros c Hin. apply W. exact (Hall c Hin).
  Qed.

  Lemma wins_even_to_odd : forall j p, wins (2 * j) p -> wins (2 * j - 1) p.
  Proof. intros j p. exact (proj1 (parity_both j) p). Qed.

  Lemma loses_odd_to_even : forall j p, loses (2 * j + 1) p -> loses (2 * j) p.
  Proof. intros j p. exact (proj2 (parity_both j) p). Qed.

  (** a win needs at least one ply *)
  Lemma wins_pos : forall n p, wins n p -> (1 <= n)%nat.
  Proof. intros n p H. destruct n; [exfalso; exact (wins_0 _ H)|lia]. Qed.

  (** N own moves: "mate N" *)
  Lemma wins_within_moves : forall (k : nat) (N : Z) p,
    wins k p -> Z.of_nat k <= 2 * N -> wins (Z.to_nat (2 * N - 1)) p.
  Proof.
    intros k N p H Hk.
    pose proof (wins_pos _ _ H) as Hk1.
    assert (HN : 1 <= N) by lia.
    apply wins_mono with (m := (2 * Z.to_nat N)%nat) in H; [|lia].
    apply wins_even_to_odd in H.
    replace (Z.to_nat (2 * N - 1)) with (2 * Z.to_nat N - 1)%nat by lia. exact H.
  Qed.

  Lemma loses_within_moves : forall (k : nat) (N : Z) p,
    0 <= N -> loses k p -> Z.of_nat k <= 2 * N + 1 -> loses (Z.to_nat (2 * N)) p.
  Proof.
    intros k N p HN H Hk.
    apply loses_mono with (m := (2 * Z.to_nat N + 1)%nat) in H; [|lia].
    apply loses_odd_to_even in H.
    replace (Z.to_nat (2 * N)) with (2 * Z.to_nat N)%nat by lia. exact H.
  Qed.

  (** win_bound / lose_bound with the distance made explicit *)
  Lemma win_bound_wins : forall s ply p,
    win_bound moves in_check s ply p -> isWinScore s = true ->
    wins (Z.to_nat (MATE0 - s - ply - 1)) p.
  Proof.
    intros s ply p H W. destruct (H W) as (k & Hk & Hle).
    apply wins_mono with (1 := Hk). lia.
  Qed.

  Lemma lose_bound_loses : forall s ply p,
    lose_bound moves in_check s ply p -> isLoseScore s = true ->
    loses (Z.to_nat (MATE0 + s - ply - 1)) p.
  Proof.
    intros s ply p H L. destruct (H L) as (k & Hk & Hle).
    apply loses_mono with (1 := Hk). lia.
  Qed.

  (** bounds are monotone in the score: a weaker claim follows from a stronger one *)
  Lemma win_bound_weaken : forall s s' ply p,
    win_bound moves in_check s ply p -> s' <= s -> win_bound moves in_check s' ply p.
  Proof.
    intros s s' ply p H Hle W.
    assert (W' : isWinScore s = true).
    { apply isWinScore_spec. apply isWinScore_spec in W. lia. }
    destruct (H W') as (k & Hk & Hb). exists k. split; [exact Hk|lia].
  Qed.

  Lemma lose_bound_weaken : forall s s' ply p,
    lose_bound moves in_check s ply p -> s <= s' -> lose_bound moves in_check s' ply p.
  Proof.
    intros s s' ply p H Hle L.
    assert (L' : isLoseScore s = true).
    { apply isLoseScore_spec. apply isLoseScore_spec in L. lia. }
    destruct (H L') as (k & Hk & Hb). exists k. split; [exact Hk|lia].
  Qed.
End GameFacts.
