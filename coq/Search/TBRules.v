(** C13 — the tablebase probe and the tablebase rules of the search.
    Part 1, leaf arithmetic: the 50-move margin of the on-demand branch of
    TBProbe::tbProbe (lib/texellib/tb/tbprobe.cpp:92-141) and Evaluate::swindleScore
    (lib/texellib/evaluate.cpp:183-197).  Hand-written transcriptions, tied to the code by the
    leaf correspondence of props/c13.py (harness/c04_harness.cpp requests R and X call the real
    functions; rule50Margin/updateEvScore are compiled from the source text of the current tree).
    Constants regenerated (gen/SearchConsts.v).  No proofs in this file. *)
From Coq Require Import ZArith Bool List.
From Texel Require Import Search.Score Search.Game Search.Rules.
Local Open Scope Z_scope.

(** tbprobe.cpp: updateEvScore(ent, newScore), on the entry's evalScore field *)
Definition updateEvScore (old new : Z) : Z :=
  if (old =? 0) || (Z.abs new <? Z.abs old) then new else old.

(** tbprobe.cpp: rule50Margin(dtmScore, ply, hmc, ent): (margin, new evalScore field) *)
Definition rule50Margin (dtm ply hmc old : Z) : Z * Z :=
  let margin := (100 - hmc) - (MATE0 - 1 - Z.abs dtm - ply) in
  (margin, if margin <? 0 then updateEvScore old (if 0 <? dtm then - margin else margin) else old).

(** the on-demand branch of tbProbe for a position found in the table with score dtm:
    Some (type, score field, evalScore field) *)
Definition tbProbe_ondemand (dtm ply hmc old : Z) : Z * Z * Z :=
  if dtm =? 0 then (T_EXACT, ttSetScore dtm ply, old)
  else
    let '(margin, ev) := rule50Margin dtm ply hmc old in
    if 0 <=? margin then (T_EXACT, ttSetScore dtm ply, ev)
    else (if 0 <? dtm then T_GE else T_LE, ttSetScore 0 ply, ev).

(** evaluate.cpp: swindleScore(evalScore, distToWin); BitUtil::lastBit = floor(log2) *)
Definition swindleScore (evalScore distToWin : Z) : Z :=
  if distToWin =? 0 then
    let sgn := if 0 <=? evalScore then 1 else -1 in
    let score := Z.abs evalScore + 4 in
    let lg := Z.log2 score in
    let score := (lg - 3) * 4 + Z.shiftr score (lg - 2) in
    let score := Z.min score (minFrustrated - 1) in
    sgn * score
  else
    let sgn := if 0 <? distToWin then 1 else -1 in
    sgn * Z.max (maxFrustrated + 1 - Z.abs distToWin) minFrustrated.

(** the DTM score of a position in which the side to move mates (sign 1) or is mated
    (sign -1) in k plies, as probeDTM reports it at search ply [ply] *)
Definition dtm_score (sign k ply : Z) : Z := sign * (MATE0 - ply - k - 1).

(** ------------------------------------------------------------------------------------------
    The tablebase return site of Search::negaScout (search.cpp:737-795) as a pure function of
    the probe result (type, score = getScore(ply), evalScore field = swindle distance), the
    window, the remaining depth and the static evaluation of the node.

      SCut score ty          the node returns [score] (stored with type [ty]): return site [7]
      SGo a' b' tbs tbt      no cut-off: the rest of negaScout runs with the window (a', b'),
                             tbScore = tbs, tbScoreType = tbt (T_EMPTY: no bound remembered);
                             every later return is clamped by [tbAdjust]                      *)
Definition drawSwindleReduction : Z := 16.

Inductive site_result :=
| SCut (score ty : Z)
| SGo (alpha beta tbScore tbType : Z).

Definition tb_site (ty score ev alpha beta depth evalScore : Z) : site_result :=
  if (score =? 0) && (ty =? T_EXACT) then
    if depth <? drawSwindleReduction then SCut (swindleScore evalScore ev) T_EXACT
    else if maxFrustrated <=? alpha then SCut maxFrustrated T_LE
    else if beta <=? - maxFrustrated then SCut (- maxFrustrated) T_GE
    else SGo alpha beta 0 T_EMPTY
  else
    let swindled := (score =? 0) && (depth <? drawSwindleReduction) in
    let sc := if swindled then swindleScore 0 ev else score in
    let checkCutOff := negb ((score =? 0) && negb (depth <? drawSwindleReduction)) in
    if checkCutOff && ((ty =? T_EXACT) || ((ty =? T_GE) && (beta <=? sc)) || ((ty =? T_LE) && (sc <=? alpha)))
    then SCut sc ty
    else if (ty =? T_GE) && (alpha <? sc) then SGo (sc - 1) beta sc T_GE
    else if (ty =? T_LE) && (sc <? beta) then SGo alpha (sc + 1) sc T_LE
    else SGo alpha beta 0 T_EMPTY.

(** search.cpp:653-661  the lambda tbAdjust *)
Definition tbAdjust (tbt tbs score : Z) : Z :=
  if tbt =? T_GE then Z.max score tbs
  else if tbt =? T_LE then Z.min score tbs
  else score.

(** what the generator's table says about a position (C12: TB/DtmCert.v [label], distances in
    moves of the side to move) as the score probeDTM hands out at search ply [ply]
    (tbgen.cpp:617-636; = DtmCert.score_of_label, lemma label_score_eq) *)
Inductive tbval := TWin (n : nat) | TLoss (n : nat) | TDraw.

Definition tbval_plies (v : tbval) : Z :=
  match v with TWin n => 2 * Z.of_nat n - 1 | TLoss n => 2 * Z.of_nat n | TDraw => 0 end.

Definition label_score (v : tbval) (ply : Z) : Z :=
  match v with
  | TWin n => dtm_score 1 (2 * Z.of_nat n - 1) ply
  | TLoss n => dtm_score (-1) (2 * Z.of_nat n) ply
  | TDraw => 0
  end.

(** tbProbe's on-demand branch on a position the table knows, with a fresh TTEntry *)
Definition probe_of (v : tbval) (ply hmc : Z) : Z * Z * Z :=
  let '(ty, f, ev) := tbProbe_ondemand (label_score v ply) ply hmc 0 in (ty, ttGetScore f ply, ev).

(** the whole site: probe + handling *)
Definition tb_node (v : tbval) (ply hmc alpha beta depth evalScore : Z) : site_result :=
  let '(ty, sc, ev) := probe_of v ply hmc in tb_site ty sc ev alpha beta depth evalScore.

(** root move selection of iterativeDeepening at the end of an iteration: the move with the
    highest score, the earlier one on ties (insertion sort with strict comparison,
    search.cpp:359-367) *)
Fixpoint best_of {A : Type} (cur : A * Z) (l : list (A * Z)) : A * Z :=
  match l with
  | nil => cur
  | x :: r => if snd cur <? snd x then best_of x r else best_of cur r
  end.

(** ------------------------------------------------------------------------------------------
    The rule system of C04 (Search/Rules.v) extended with the tablebase rules.  The
    judgements and all rules of C04 are repeated unchanged (constructor names prefixed with T);
    new are
      TB_tb_cut      [7]  the probe result cuts the node off
      TB_tb_go            the probe result narrows the window; the rest of the node runs with
                          the narrowed window and its result is clamped (tbAdjust)
      TB_tb_unknown_move [19]  lower bound from the table that no move reached: the bound itself
      TTT_nonmate         a stored score that is not a mate score (the clamped / swindle scores)
    over a game with a table [tb] (None = probeDTM finds nothing) and the half-move clock
    [hmc] of a node (the clock is NOT part of the game: claimable draws are outside the
    game-theoretic semantics, as in C04).                                                      *)
Section TBRuleSystem.
  Variable pos : Type.
  Variable moves : pos -> list pos.
  Variable in_check : pos -> bool.
  Variable tb : pos -> option tbval.
  Variable hmc : pos -> Z.

  Inductive TNode : pos -> Z -> Z -> Z -> Z -> Prop :=
  | TN_nonmate : forall p ply a b s,
      isWinScore s = false -> isLoseScore s = false ->
      TNode p ply a b s
  | TN_mdp : forall p ply a b,
      ply_ok ply -> a < b -> mdp_beta b ply <= a ->
      TNode p ply a b a
  | TN_negascout : forall p ply a b s,
      ply_ok ply -> a < mdp_beta b ply ->
      TBody p ply a (mdp_beta b ply) s ->
      TNode p ply a b s
  | TN_q_standpat : forall p ply a b s (ic : bool),
      (if ic then s = mated_score ply else isWinScore s = false /\ isLoseScore s = false) ->
      b <= s -> isWinScore s = false ->
      TNode p ply a b s
  | TN_q_cut : forall p ply a b s,
      b <= s ->
      (isWinScore s = true -> TWinChild p ply s) ->
      TNode p ply a b s
  | TN_q_end : forall p ply a b s,
      (a < s -> isWinScore s = true -> TWinChild p ply s) ->
      (s < b -> isLoseScore s = true -> moves p = nil -> in_check p = true /\ mated_score ply <= s) ->
      (s < b -> isLoseScore s = true -> TAllChildren (moves p) ply s) ->
      TNode p ply a b s

  with TBody : pos -> Z -> Z -> Z -> Z -> Prop :=
  | TB_draw_mated : forall p ply a b s,
      ply_ok ply -> checkmated moves in_check p -> s = mated_score ply ->
      TBody p ply a b s
  | TB_draw : forall p ply a b s,
      s = 0 ->
      TBody p ply a b s
  | TB_tt_cut : forall p ply a b s ty f eDepth depth,
      TTTFact p ty f -> ply_ok ply ->
      s = ttGetScore f ply ->
      isCutOff ty eDepth s a b depth = true ->
      TBody p ply a b s
  (** [7] search.cpp:737-783  tablebase cut-off *)
  | TB_tb_cut : forall p ply a b s v depth evalScore ty',
      tb p = Some v -> ply_ok ply ->
      tb_node v ply (hmc p) a b depth evalScore = SCut s ty' ->
      TBody p ply a b s
  (** search.cpp:784-793, 653-661, 1079-1083, 1279-1287  tablebase bound without cut-off *)
  | TB_tb_go : forall p ply a b s s0 v depth evalScore a' b' tbs tbt,
      tb p = Some v -> ply_ok ply ->
      tb_node v ply (hmc p) a b depth evalScore = SGo a' b' tbs tbt ->
      TBody p ply a' b' s0 ->
      s = tbAdjust tbt tbs s0 ->
      TBody p ply a b s
  (** [19] search.cpp:1279-1287  lower bound from the table, no move reached it: the bound itself *)
  | TB_tb_unknown_move : forall p ply a b s v depth evalScore a' b',
      tb p = Some v -> ply_ok ply ->
      tb_node v ply (hmc p) a b depth evalScore = SGo a' b' s T_GE ->
      TBody p ply a b s
  | TB_qsearch : forall p ply a b s,
      TNode p ply a b s ->
      TBody p ply a b s
  | TB_razor : forall p ply a b s mg,
      in_check p = false -> a < b -> 0 <= mg ->
      TNode p ply (a - mg) (b - mg) s -> s <= a - mg ->
      TBody p ply a b s
  | TB_revfut : forall p ply a b s,
      in_check p = false -> b <= s -> isWinScore s = false ->
      TBody p ply a b s
  | TB_null : forall p ply a b s s0,
      in_check p = false -> isWinScore b = false -> b <= s0 ->
      s = (if isWinScore s0 then b else s0) ->
      TBody p ply a b s
  | TB_cut_tt_lose : forall p ply a b s ty f,
      TTTFact p ty f -> ply_ok ply ->
      (ty = T_EXACT \/ ty = T_LE) ->
      s = ttGetScore f ply -> isLoseScore s = true ->
      TBody p ply a b s
  | TB_cut : forall p ply a b s,
      b <= s ->
      (isWinScore s = true -> TWinChild p ply s) ->
      TBody p ply a b s
  | TB_stalemate : forall p ply a b s,
      stalemated moves in_check p -> s = 0 ->
      TBody p ply a b s
  | TB_end_exact : forall p ply a b s,
      a < s -> s < b ->
      (isWinScore s = true -> TWinChild p ply s) ->
      (isLoseScore s = true -> moves p <> nil) ->
      (isLoseScore s = true -> TAllChildren (moves p) ply s) ->
      TBody p ply a b s
  | TB_end_tt_win : forall p ply a b s ty f,
      TTTFact p ty f -> ply_ok ply ->
      (ty = T_EXACT \/ ty = T_GE) ->
      s = ttGetScore f ply -> isWinScore s = true ->
      TBody p ply a b s
  | TB_end_faillow : forall p ply a b s,
      s <= a ->
      (isLoseScore s = true -> moves p = nil -> in_check p = true /\ mated_score ply <= s) ->
      (isLoseScore s = true -> TAllChildren (moves p) ply s) ->
      TBody p ply a b s
  | TB_end_mated : forall p ply a b s,
      ply_ok ply -> checkmated moves in_check p -> s = mated_score ply ->
      TBody p ply a b s

  with TTTFact : pos -> Z -> Z -> Prop :=
  | TTT_store : forall p ply a b s ty,
      TBody p ply a b s -> ply_ok ply -> score_ok s -> type_ok ty a b s ->
      TTTFact p ty (ttSetScore s ply)
  | TTT_nonmate : forall p ply s ty,
      isWinScore s = false -> isLoseScore s = false -> ply_ok ply -> score_ok s ->
      TTTFact p ty (ttSetScore s ply)
  | TTT_weaken_le : forall p ty f,
      TTTFact p ty f -> (ty = T_EXACT \/ ty = T_LE) -> TTTFact p T_LE f
  | TTT_weaken_ge : forall p ty f,
      TTTFact p ty f -> (ty = T_EXACT \/ ty = T_GE) -> TTTFact p T_GE f

  with TWinChild : pos -> Z -> Z -> Prop :=
  | TWC_intro : forall p ply s c a' b' s',
      In c (moves p) -> TNode c (ply + 1) a' b' s' -> s' < b' -> s = - s' ->
      TWinChild p ply s

  with TAllChildren : list pos -> Z -> Z -> Prop :=
  | TAC_nil : forall ply s, TAllChildren nil ply s
  | TAC_cons : forall ply s c l a' b' s',
      TNode c (ply + 1) a' b' s' -> a' < s' -> - s' <= s ->
      TAllChildren l ply s ->
      TAllChildren (c :: l) ply s.
End TBRuleSystem.

Arguments TNode {pos} moves in_check tb hmc _ _ _ _ _.
Arguments TBody {pos} moves in_check tb hmc _ _ _ _ _.
Arguments TTTFact {pos} moves in_check tb hmc _ _ _.
Arguments TWinChild {pos} moves in_check tb hmc _ _ _.
Arguments TAllChildren {pos} moves in_check tb hmc _ _ _.
