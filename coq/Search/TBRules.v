(** C13 — leaf arithmetic of the tablebase probe: the 50-move margin of the on-demand branch of
    TBProbe::tbProbe (lib/texellib/tb/tbprobe.cpp:92-141) and Evaluate::swindleScore
    (lib/texellib/evaluate.cpp:183-197).  Hand-written transcriptions, tied to the code by the
    leaf correspondence of props/c13.py (harness/c04_harness.cpp requests R and X call the real
    functions; rule50Margin/updateEvScore are compiled from the source text of the current tree).
    Constants regenerated (gen/SearchConsts.v).  No proofs in this file. *)
From Coq Require Import ZArith Bool.
From Texel Require Import Search.Score.
Local Open Scope Z_scope.

(** tbprobe.cpp: updateEvScore(ent, newScore), on the entry's evalScore field *)
Definition updateEvScore (old new : Z) : Z :=
  if (old =? 0) || (Z.abs new <? Z.abs old) then new else old.

(** tbprobe.cpp: rule50Margin(dtmScore, ply, hmc, ent): (margin, new evalScore field) *)
Definition rule50Margin (dtm ply hmc old : Z) : Z * Z :=
  let margin := (100 - hmc) - (MATE0 - 1 - Z.abs dtm - ply) in
  (margin, if margin <? 0 then updateEvScore old (if 0 <? dtm then - margin else margin) else old).

(** the on-demand branch of tbProbe for a position found in the table with score dtm:
    Some (type, score field, evalScore field) *)
Definition tbProbe_ondemand (dtm ply hmc old : Z) : Z * Z * Z :=
  if dtm =? 0 then (T_EXACT, ttSetScore dtm ply, old)
  else
    let '(margin, ev) := rule50Margin dtm ply hmc old in
    if 0 <=? margin then (T_EXACT, ttSetScore dtm ply, ev)
    else (if 0 <? dtm then T_GE else T_LE, ttSetScore 0 ply, ev).

(** evaluate.cpp: swindleScore(evalScore, distToWin); BitUtil::lastBit = floor(log2) *)
Definition swindleScore (evalScore distToWin : Z) : Z :=
  if distToWin =? 0 then
    let sgn := if 0 <=? evalScore then 1 else -1 in
    let score := Z.abs evalScore + 4 in
    let lg := Z.log2 score in
    let score := (lg - 3) * 4 + Z.shiftr score (lg - 2) in
    let score := Z.min score (minFrustrated - 1) in
    sgn * score
  else
    let sgn := if 0 <? distToWin then 1 else -1 in
    sgn * Z.max (maxFrustrated + 1 - Z.abs distToWin) minFrustrated.

(** the DTM score of a position in which the side to move mates (sign 1) or is mated
    (sign -1) in k plies, as probeDTM reports it at search ply [ply] *)
Definition dtm_score (sign k ply : Z) : Z := sign * (MATE0 - ply - k - 1).
