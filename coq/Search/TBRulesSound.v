(** C13 — soundness of the rule system extended with the tablebase rules (Search/TBRules.v),
    exactness of the root score, the move chosen at the root.

    The table hypothesis is C12's conclusion (TB/DtmCert.v: mate_in / mated_in / drawn, distances
    in moves of the side to move), bridged here to C04's game semantics (Search/Game.v: wins /
    loses, distances in plies). *)
From Coq Require Import ZArith List Bool Lia Arith.
From Texel Require Import Search.Score Search.ScoreFacts Search.Game Search.GameFacts Search.Rules
  Search.RulesSound Search.TBRules Search.TBRulesFacts.
From Texel Require TB.DtmCert.
Import ListNotations.
Local Open Scope Z_scope.

Scheme TNode_min := Minimality for TNode Sort Prop
  with TBody_min := Minimality for TBody Sort Prop
  with TTTFact_min := Minimality for TTTFact Sort Prop
  with TWinChild_min := Minimality for TWinChild Sort Prop
  with TAllChildren_min := Minimality for TAllChildren Sort Prop.
Combined Scheme tbrules_mutind from TNode_min, TBody_min, TTTFact_min, TWinChild_min, TAllChildren_min.

(** ** bridge between the two formulations of forced mate *)
Section Bridge.
  Variable pos : Type.
  Variable moves : pos -> list pos.
  Variable in_check : pos -> bool.
  Notation wins := (wins moves in_check).
  Notation loses := (loses moves in_check).
  Notation win_in := (DtmCert.win_in moves in_check).
  Notation loss_in := (DtmCert.loss_in moves in_check).

  Lemma moves_to_plies : forall n,
    (forall p, win_in n p -> wins (2 * n - 1) p) /\ (forall p, loss_in n p -> loses (2 * n) p).
  Proof.
    induction n as [|n [IHw IHl]].
    - split; intros p H.
      + exfalso. exact (DtmCert.no_win_in_0 pos moves in_check p H).
      + inversion H; subst.
        * apply loses_mated. split; assumption.
        * exfalso. destruct (moves p) as [|c r] eqn:E; [congruence|].
          apply (DtmCert.no_win_in_0 pos moves in_check c). apply H1. left. reflexivity.
    - assert (W : forall p, win_in (S n) p -> wins (2 * S n - 1) p).
      { intros p H. inversion H; subst.
        replace (2 * S n - 1)%nat with (S (2 * n)) by lia.
        apply wins_move with c; [assumption|]. apply IHl. assumption. }
      split; [exact W|].
      intros p H. inversion H; subst.
      + apply loses_mated. split; assumption.
      + replace (2 * S n)%nat with (S (2 * S n - 1)) by lia.
        apply loses_all; [assumption|]. intros c Hc. apply W. apply H1. exact Hc.
  Qed.

  Lemma plies_to_moves : forall k,
    (forall p, wins k p -> win_in ((k + 1) / 2) p) /\ (forall p, loses k p -> loss_in (k / 2) p).
  Proof.
    induction k as [k IH] using lt_wf_ind.
    split; intros p H.
    - inversion H as [n p' c Hin Hc]; subst.
      destruct (IH n ltac:(lia)) as [_ IHl].
      replace ((S n + 1) / 2)%nat with (S (n / 2)).
      + apply DtmCert.win_step with c; [exact Hin|]. apply IHl. exact Hc.
      + replace (S n + 1)%nat with (n + 1 * 2)%nat by lia. rewrite Nat.div_add by lia. lia.
    - inversion H as [n p' Hm|n p' Hne Hall]; subst.
      + destruct Hm as [Hic Hnil]. apply DtmCert.loss_now; assumption.
      + destruct (IH n ltac:(lia)) as [IHw _].
        apply DtmCert.loss_step; [exact Hne|].
        intros c Hc. specialize (IHw c (Hall c Hc)).
        apply DtmCert.win_in_mono with (1 := IHw).
        destruct (Nat.even n) eqn:Ev.
        * apply Nat.even_spec in Ev. destruct Ev as [j ->].
          replace (2 * j + 1)%nat with (1 + j * 2)%nat by lia. rewrite Nat.div_add by lia.
          replace (S (2 * j))%nat with (1 + j * 2)%nat by lia. rewrite Nat.div_add by lia. simpl. lia.
        * assert (Od : Nat.odd n = true) by (rewrite <- Nat.negb_even, Ev; reflexivity).
          apply Nat.odd_spec in Od. destruct Od as [j ->].
          replace (2 * j + 1 + 1)%nat with (0 + (j + 1) * 2)%nat by lia. rewrite Nat.div_add by lia.
          replace (S (2 * j + 1))%nat with (0 + (j + 1) * 2)%nat by lia. rewrite Nat.div_add by lia. simpl. lia.
  Qed.
End Bridge.

Section Sound.
  Variable pos : Type.
  Variable moves : pos -> list pos.
  Variable in_check : pos -> bool.
  Variable tb : pos -> option tbval.
  Variable hmc : pos -> Z.

  Notation wins := (wins moves in_check).
  Notation loses := (loses moves in_check).
  Notation win_bound := (win_bound moves in_check).
  Notation lose_bound := (lose_bound moves in_check).
  Notation sound_result := (sound_result moves in_check).
  Notation tt_sound := (tt_sound moves in_check).
  Notation children_win := (children_win pos moves in_check).
  Notation TNode := (TNode moves in_check tb hmc).
  Notation TBody := (TBody moves in_check tb hmc).
  Notation TTTFact := (TTTFact moves in_check tb hmc).
  Notation TWinChild := (TWinChild moves in_check tb hmc).
  Notation TAllChildren := (TAllChildren moves in_check tb hmc).

  (** what a table value claims, in C12's terms (TB/DtmCert.v) *)
  Definition tb_claim (v : tbval) (p : pos) : Prop :=
    match v with
    | TWin n => DtmCert.mate_in moves in_check n p
    | TLoss n => DtmCert.mated_in moves in_check n p
    | TDraw => DtmCert.drawn moves in_check p
    end.

  (** the table is exact (C12_check_table_sound's conclusion) and its values are in range *)
  Definition tb_exact : Prop := forall p v, tb p = Some v -> tb_claim v p /\ tbval_ok v.

  Hypothesis Htb : tb_exact.

  Lemma tb_win_wins : forall p n, tb p = Some (TWin n) -> wins (2 * n - 1) p /\ (1 <= n)%nat.
  Proof.
    intros p n H. destruct (Htb p _ H) as [[Hw _] [_ Hn]].
    split; [apply (proj1 (moves_to_plies pos moves in_check n)); exact Hw|exact (Hn n eq_refl)].
  Qed.

  Lemma tb_loss_loses : forall p n, tb p = Some (TLoss n) -> loses (2 * n) p.
  Proof.
    intros p n H. destruct (Htb p _ H) as [[Hl _] _].
    apply (proj2 (moves_to_plies pos moves in_check n)); exact Hl.
  Qed.

  (** [7]: a cut-off by the table is sound *)
  Lemma tb_cut_sound : forall p ply a b s v depth evalScore ty',
    tb p = Some v -> ply_ok ply ->
    tb_node v ply (hmc p) a b depth evalScore = SCut s ty' ->
    sound_result p ply a b s.
  Proof.
    intros p ply a b s v depth evalScore ty' Hv Hp Hc.
    destruct (Htb p v Hv) as [_ Hok].
    pose proof (tb_node_cases v ply (hmc p) a b depth evalScore Hok Hp) as C.
    rewrite Hc in C. destruct C as [[W L]|(Hnd & Hfit & Hs & _)].
    - apply no_claim_nonmate; assumption.
    - subst s. destruct v as [n|n|]; [| |congruence].
      + destruct (tb_win_wins p n Hv) as [Hw Hn].
        destruct Hok as [Hr _]. unfold tbval_plies in Hr.
        destruct (label_score_win n ply Hn ltac:(lia) Hp) as [E W].
        split.
        * intros _ _. exists (2 * n - 1)%nat. split; [exact Hw|]. rewrite E. lia.
        * intros _ L. rewrite (win_not_lose _ W) in L. discriminate.
      + pose proof (tb_loss_loses p n Hv) as Hl.
        destruct Hok as [Hr _]. unfold tbval_plies in Hr.
        destruct (label_score_loss n ply ltac:(lia) Hp) as [E L].
        split.
        * intros _ W. rewrite (lose_not_win _ L) in W. discriminate.
        * intros _ _. exists (2 * n)%nat. split; [exact Hl|]. rewrite E. lia.
  Qed.

  (** a bound that does not cut: narrowed window + clamping keep soundness *)
  Lemma tb_go_sound : forall p ply a b s s0 v depth evalScore a' b' tbs tbt,
    tb p = Some v -> ply_ok ply ->
    tb_node v ply (hmc p) a b depth evalScore = SGo a' b' tbs tbt ->
    (sound_result p ply a' b' s0 \/ (tbt = T_GE /\ s0 = tbs)) ->
    s = tbAdjust tbt tbs s0 ->
    sound_result p ply a b s.
  Proof.
    intros p ply a b s s0 v depth evalScore a' b' tbs tbt Hv Hp Hg IH Hs.
    destruct (Htb p v Hv) as [_ Hok].
    pose proof (tb_node_cases v ply (hmc p) a b depth evalScore Hok Hp) as C.
    rewrite Hg in C. destruct C as (NW & NL & Hcase & _).
    apply isWinScore_false in NW. apply isLoseScore_false in NL.
    unfold tbAdjust in Hs.
    destruct Hcase as [(E & Ea & Eb)|[(E & Ea & Eb & Hlt & _)|(E & Ea & Eb & Hlt & _)]]; subst tbt a' b'.
    - change (T_EMPTY =? T_GE) with false in Hs. change (T_EMPTY =? T_LE) with false in Hs. cbv iota in Hs. subst s.
      destruct IH as [IH|[E _]]; [exact IH|discriminate].
    - change (T_GE =? T_GE) with true in Hs. cbv iota in Hs. subst s.
      split.
      + intros _ W. apply isWinScore_spec in W.
        destruct IH as [[IHw _]|[_ E]].
        * assert (Z.max s0 tbs = s0) as -> by lia.
          apply IHw; [lia|apply isWinScore_spec; lia].
        * subst s0. lia.
      + intros _ L. apply isLoseScore_spec in L. lia.
    - change (T_LE =? T_GE) with false in Hs. change (T_LE =? T_LE) with true in Hs. cbv iota in Hs. subst s.
      split.
      + intros _ W. apply isWinScore_spec in W. lia.
      + intros _ L. apply isLoseScore_spec in L.
        destruct IH as [[_ IHl]|[E _]]; [|discriminate].
        assert (Z.min s0 tbs = s0) as -> by lia.
        apply IHl; [lia|apply isLoseScore_spec; lia].
  Qed.

  Lemma tt_nonmate_sound : forall p ply s ty,
    isWinScore s = false -> isLoseScore s = false -> ply_ok ply -> score_ok s ->
    tt_sound p ty (ttSetScore s ply).
  Proof.
    intros p ply s ty W L Hp Hs ply2 Hp2.
    destruct (getScore_class s ply ply2 Hs Hp Hp2) as [CW CL].
    split; intros _.
    - intro W2. destruct (CW W2) as [W3 _]. congruence.
    - intro L2. destruct (CL L2) as [L3 _]. congruence.
  Qed.

  Theorem tbrules_sound_all :
    (forall p ply a b s, TNode p ply a b s -> sound_result p ply a b s) /\
    (forall p ply a b s, TBody p ply a b s -> sound_result p ply a b s) /\
    (forall p ty f, TTTFact p ty f -> tt_sound p ty f) /\
    (forall p ply s, TWinChild p ply s -> win_bound s ply p) /\
    (forall l ply s, TAllChildren l ply s -> children_win l ply s).
  Proof.
    apply (tbrules_mutind pos moves in_check tb hmc
             (fun p ply a b s => sound_result p ply a b s)
             (fun p ply a b s => sound_result p ply a b s)
             (fun p ty f => tt_sound p ty f)
             (fun p ply s => win_bound s ply p)
             (fun l ply s => children_win l ply s)).
    - (* TN_nonmate *)
      intros p ply a b s W L. apply no_claim_nonmate; assumption.
    - (* TN_mdp *)
      intros p ply a b Hp Hab Hm. split; [lia|].
      intros _ L. exfalso. apply isLoseScore_spec in L.
      unfold mdp_beta, ply_ok in *. rewrite max_ply_val in Hp. rewrite MATE0_val in Hm. lia.
    - (* TN_negascout *)
      intros p ply a b s Hp Ha _ IH. apply unclip; assumption.
    - (* TN_q_standpat *)
      intros p ply a b s ic _ Hb W. apply no_claim_lb; assumption.
    - (* TN_q_cut *)
      intros p ply a b s Hb _ IH. split; [|lia].
      intros _ W. exact (IH W W).
    - (* TN_q_end *)
      intros p ply a b s _ IHw Hnil _ IHl. split.
      + intros Ha W. exact (IHw Ha W W).
      + intros Hb L.
        exact (lose_from_children pos moves in_check p ply s (Hnil Hb L) (IHl Hb L) L).
    - (* TB_draw_mated *)
      intros p ply a b s Hp Hm Hs. subst s. split.
      + intros _ W. exfalso. apply isWinScore_spec in W.
        unfold mated_score, ply_ok in *. rewrite max_ply_val in Hp. rewrite MATE0_val in W. lia.
      + intros _. apply mated_lose_bound; [exact Hm|lia].
    - (* TB_draw *)
      intros p ply a b s Hs. subst s. apply no_claim_nonmate; reflexivity.
    - (* TB_tt_cut *)
      intros p ply a b s ty f eDepth depth _ IH Hp Hs Hc. subst s.
      destruct (IH ply Hp) as [HW HL].
      destruct (isCutOff_cases _ _ _ _ _ _ Hc) as [E|[[E Hb]|[E Ha]]].
      + split; intros _; [apply HW|apply HL]; left; exact E.
      + split; [intros _; apply HW; right; exact E|lia].
      + split; [lia|intros _; apply HL; right; exact E].
    - (* TB_tb_cut *)
      intros p ply a b s v depth evalScore ty' Hv Hp Hc.
      exact (tb_cut_sound p ply a b s v depth evalScore ty' Hv Hp Hc).
    - (* TB_tb_go *)
      intros p ply a b s s0 v depth evalScore a' b' tbs tbt Hv Hp Hg _ IH Hs.
      apply (tb_go_sound p ply a b s s0 v depth evalScore a' b' tbs tbt Hv Hp Hg); [left; exact IH|exact Hs].
    - (* TB_tb_unknown_move *)
      intros p ply a b s v depth evalScore a' b' Hv Hp Hg.
      apply (tb_go_sound p ply a b s s v depth evalScore a' b' s T_GE Hv Hp Hg); [right; split; reflexivity|].
      unfold tbAdjust. change (T_GE =? T_GE) with true. cbv iota. lia.
    - (* TB_qsearch *)
      intros p ply a b s _ IH. exact IH.
    - (* TB_razor *)
      intros p ply a b s mg _ Hab Hmg _ [IHw IHl] Hs. split; [lia|].
      intros _. apply IHl. lia.
    - (* TB_revfut *)
      intros p ply a b s _ Hb W. apply no_claim_lb; assumption.
    - (* TB_null *)
      intros p ply a b s s0 _ Wb Hb Hs. apply no_claim_lb.
      + subst s. destruct (isWinScore s0); lia.
      + subst s. destruct (isWinScore s0) eqn:E; assumption.
    - (* TB_cut_tt_lose *)
      intros p ply a b s ty f _ IH Hp Hty Hs L. subst s.
      destruct (IH ply Hp) as [_ HL]. split.
      + intros _ W. rewrite (lose_not_win _ L) in W. discriminate.
      + intros _. apply HL. destruct Hty; [left|right]; assumption.
    - (* TB_cut *)
      intros p ply a b s Hb _ IH. split; [|lia].
      intros _ W. exact (IH W W).
    - (* TB_stalemate *)
      intros p ply a b s _ Hs. subst s. apply no_claim_nonmate; reflexivity.
    - (* TB_end_exact *)
      intros p ply a b s Ha Hb _ IHw Hne _ IHl. split.
      + intros _ W. exact (IHw W W).
      + intros _ L.
        apply (lose_from_children pos moves in_check p ply s); [intro E; exfalso; exact (Hne L E)|exact (IHl L)|exact L].
    - (* TB_end_tt_win *)
      intros p ply a b s ty f _ IH Hp Hty Hs W. subst s.
      destruct (IH ply Hp) as [HW _]. split.
      + intros _. apply HW. destruct Hty; [left|right]; assumption.
      + intros _ L. rewrite (win_not_lose _ W) in L. discriminate.
    - (* TB_end_faillow *)
      intros p ply a b s Ha Hnil _ IHl. split; [lia|].
      intros _ L.
      exact (lose_from_children pos moves in_check p ply s (Hnil L) (IHl L) L).
    - (* TB_end_mated *)
      intros p ply a b s Hp Hm Hs. subst s. split.
      + intros _ W. exfalso. apply isWinScore_spec in W.
        unfold mated_score, ply_ok in *. rewrite max_ply_val in Hp. rewrite MATE0_val in W. lia.
      + intros _. apply mated_lose_bound; [exact Hm|lia].
    - (* TTT_store *)
      intros p ply a b s ty _ IH Hp Hs Hty. exact (tt_fact_of_sound pos moves in_check p ply a b s ty IH Hp Hs Hty).
    - (* TTT_nonmate *)
      intros p ply s ty W L Hp Hs. exact (tt_nonmate_sound p ply s ty W L Hp Hs).
    - (* TTT_weaken_le *)
      intros p ty f _ IH Hty ply Hp. destruct (IH ply Hp) as [HW HL]. split.
      + intros [E|E]; unfold T_LE, T_EXACT, T_GE in E; discriminate.
      + intros _. apply HL. destruct Hty; [left|right]; assumption.
    - (* TTT_weaken_ge *)
      intros p ty f _ IH Hty ply Hp. destruct (IH ply Hp) as [HW HL]. split.
      + intros _. apply HW. destruct Hty; [left|right]; assumption.
      + intros [E|E]; unfold T_LE, T_EXACT, T_GE in E; discriminate.
    - (* TWC_intro *)
      intros p ply s c a' b' s' Hin _ [_ IHl] Hlt Hs.
      exact (win_from_child pos moves in_check p ply s c s' Hin (IHl Hlt) Hs).
    - (* TAC_nil *)
      intros ply s _ c [].
    - (* TAC_cons *)
      intros ply s c l a' b' s' _ [IHw _] Ha Hs _ IHl L c0 [E|Hin].
      + subst c0.
        assert (W : isWinScore s' = true).
        { apply isWinScore_spec. apply isLoseScore_spec in L. lia. }
        destruct (IHw Ha W) as (k & Hk & Hb). exists k. split; [exact Hk|lia].
      + exact (IHl L c0 Hin).
  Qed.

  Theorem tbrules_sound : forall p ply a b s, TNode p ply a b s -> sound_result p ply a b s.
  Proof. exact (proj1 tbrules_sound_all). Qed.

  (** a position that is drawn (neither side can force mate) never gets a mate score that
      claims anything: no win score above alpha, no lose score below beta *)
  Theorem drawn_no_mate_score : forall p ply a b s,
    DtmCert.drawn moves in_check p -> TNode p ply a b s ->
    (a < s -> isWinScore s = false) /\ (s < b -> isLoseScore s = false).
  Proof.
    intros p ply a b s [Dw Dl] H. destruct (tbrules_sound _ _ _ _ _ H) as [HW HL].
    split; intro Hc.
    - destruct (isWinScore s) eqn:W; [|reflexivity]. exfalso.
      destruct (HW Hc W) as (k & Hk & _).
      exact (Dw _ (proj1 (plies_to_moves pos moves in_check k) p Hk)).
    - destruct (isLoseScore s) eqn:L; [|reflexivity]. exfalso.
      destruct (HL Hc L) as (k & Hk & _).
      exact (Dl _ (proj2 (plies_to_moves pos moves in_check k) p Hk)).
  Qed.

  (** a mate score produced by the tablebase return site is the exact table value, and that
      mate can be delivered before the half-move clock reaches 100 *)
  Theorem tb_cut_exact : forall p ply a b s v depth evalScore ty',
    tb p = Some v -> ply_ok ply ->
    tb_node v ply (hmc p) a b depth evalScore = SCut s ty' ->
    (isWinScore s = true \/ isLoseScore s = true) ->
    s = label_score v ply /\ ty' = T_EXACT /\ tbval_plies v + hmc p <= 100 /\ tb_claim v p.
  Proof.
    intros p ply a b s v depth evalScore ty' Hv Hp Hc Hm.
    destruct (Htb p v Hv) as [Hcl Hok].
    pose proof (tb_node_cases v ply (hmc p) a b depth evalScore Hok Hp) as C.
    rewrite Hc in C. destruct C as [[W L]|(_ & Hfit & Hs & Hty)].
    - destruct Hm; congruence.
    - repeat split; assumption.
  Qed.

  (** ** the root.  iterativeDeepening searches every root move c with negaScoutRoot(-beta,-alpha)
      at ply 1 and keeps the best score S.  If S is a win score that was not a fail-low
      (alpha < S, the child's result below its beta), and S is at least what the table cut-off
      of a child on a shortest mate returned, S is exactly the root's distance to mate. *)
  Theorem root_win_exact : forall root n cj aj bj sj cs m ss depth evalScore a b ty' rs,
    DtmCert.mate_in moves in_check n root ->
    (* the move the score is reported for *)
    In cj (moves root) -> TNode cj 1 aj bj sj -> sj < bj -> rs = - sj ->
    (* a child on a shortest mate, returned by the tablebase site *)
    In cs (moves root) -> tb cs = Some (TLoss m) -> n = (m + 1)%nat ->
    tb_node (TLoss m) 1 (hmc cs) a b depth evalScore = SCut ss ty' ->
    (isWinScore ss = true \/ isLoseScore ss = true) ->
    - ss <= rs -> rs <= MATE0 ->
    rs = label_score (TWin n) 0 /\ mate_of_score rs = Some (Z.of_nat n).
  Proof.
    intros root n cj aj bj sj cs m ss depth evalScore a b ty' rs [Hwin Hmin] Hinj Hnj Hlt HS Hins Hvs Hn Hcut Hmate Hge Hle.
    assert (Hp1 : ply_ok 1) by (unfold ply_ok; rewrite max_ply_val; lia).
    destruct (tb_cut_exact cs 1 a b ss (TLoss m) depth evalScore ty' Hvs Hp1 Hcut Hmate) as (Hss & _ & _ & _).
    destruct (Htb cs _ Hvs) as [_ [Hr _]]. unfold tbval_plies in Hr.
    destruct (label_score_loss m 1 ltac:(lia) ltac:(rewrite max_ply_val; lia)) as [El _].
    assert (Hm0 : MATE0 = 32000) by reflexivity.
    assert (Hlow : MATE0 - 2 * Z.of_nat n <= rs) by (subst n; lia).
    assert (W : isWinScore rs = true) by (apply isWinScore_spec; subst n; lia).
    (* soundness of the reported score *)
    destruct (tbrules_sound _ _ _ _ _ Hnj) as [_ HL].
    assert (L : isLoseScore sj = true) by (apply isLoseScore_spec; apply isWinScore_spec in W; lia).
    destruct (HL Hlt L) as (k & Hk & Hb).
    assert (Hwk : wins (S k) root) by (apply wins_move with cj; assumption).
    pose proof (proj1 (plies_to_moves pos moves in_check (S k)) root Hwk) as Hwi.
    assert (Hnk : (n <= (S k + 1) / 2)%nat).
    { destruct (le_lt_dec n ((S k + 1) / 2)) as [Hle'|Hgt]; [exact Hle'|].
      exfalso. exact (Hmin _ Hgt Hwi). }
    assert (Hdiv : (2 * ((S k + 1) / 2) <= S k + 1)%nat).
    { pose proof (Nat.div_mod (S k + 1) 2 ltac:(lia)). lia. }
    assert (Hup : rs <= MATE0 - 2 * Z.of_nat n) by lia.
    assert (E : rs = MATE0 - 2 * Z.of_nat n) by lia.
    assert (Hn1 : (1 <= n)%nat) by lia.
    split.
    - unfold label_score, dtm_score. lia.
    - unfold mate_of_score. rewrite W. f_equal. rewrite E.
      replace (MATE0 - (MATE0 - 2 * Z.of_nat n)) with (2 * Z.of_nat n) by lia.
      rewrite Z.mul_comm. apply Z.quot_mul. lia.
  Qed.
  (** the symmetric statement for a lost root: every root move was returned by the tablebase site
      with a mate score (all replies mate before the limit) and the root keeps the maximum *)
  Theorem root_loss_exact : forall root n (res : pos -> Z) rs,
    DtmCert.mated_in moves in_check n root -> moves root <> nil ->
    (forall c, In c (moves root) -> exists k a b depth ev ty',
        tb c = Some (TWin k) /\ tb_node (TWin k) 1 (hmc c) a b depth ev = SCut (res c) ty' /\ isWinScore (res c) = true) ->
    (exists c, In c (moves root) /\ rs = - res c) -> (forall c, In c (moves root) -> - res c <= rs) ->
    rs = label_score (TLoss n) 0.
  Proof.
    intros root n res rs [Hloss Hmin] Hne Hch [cs [Hins Hrs]] Hmax.
    assert (Hp1 : ply_ok 1) by (unfold ply_ok; rewrite max_ply_val; lia).
    assert (Hp1' : 0 <= 1 <= max_ply) by (rewrite max_ply_val; lia).
    assert (Hm0 : MATE0 = 32000) by reflexivity.
    (* every child: its exact value *)
    assert (Hex : forall c, In c (moves root) -> exists k, (1 <= k)%nat /\ 2 * Z.of_nat k - 1 <= 1000 /\
                    res c = MATE0 - 1 - 2 * Z.of_nat k /\ DtmCert.mate_in moves in_check k c).
    { intros c Hc. destruct (Hch c Hc) as (k & a & b & depth & ev & ty' & Hv & Hcut & W).
      destruct (tb_cut_exact c 1 a b (res c) (TWin k) depth ev ty' Hv Hp1 Hcut (or_introl W)) as (Hs & _ & _ & Hcl).
      destruct (Htb c _ Hv) as [_ [Hr Hn]]. unfold tbval_plies in Hr. specialize (Hn k eq_refl).
      destruct (label_score_win k 1 Hn ltac:(lia) Hp1') as [E _].
      exists k. split; [exact Hn|]. split; [lia|]. split; [lia|exact Hcl]. }
    destruct (Hex cs Hins) as (ks & Hks1 & Hksr & Hress & [Hwin_s Hmin_s]).
    (* n <= ks: the root is lost within ks moves *)
    assert (Hle : (n <= ks)%nat).
    { destruct (le_lt_dec n ks) as [H|H]; [exact H|]. exfalso. apply (Hmin ks H).
      apply DtmCert.loss_step; [exact Hne|].
      intros c Hc. destruct (Hex c Hc) as (k & _ & _ & Hres & [Hw _]).
      apply DtmCert.win_in_mono with (1 := Hw).
      pose proof (Hmax c Hc) as Hm. lia. }
    (* ks <= n: the chosen reply cannot be mated faster than its exact distance *)
    assert (Hge : (ks <= n)%nat).
    { destruct (le_lt_dec ks n) as [H|H]; [exact H|]. exfalso.
      inversion Hloss as [n0 p0 Hnil _|n0 p0 _ Hall]; subst; [congruence|].
      exact (Hmin_s n H (Hall cs Hins)). }
    assert (n = ks) by lia. subst ks.
    unfold label_score, dtm_score. lia.
  Qed.
End Sound.

(** ** the move chosen at the root: the first move with the highest score *)
Section BestMove.
  Variable A : Type.

  Lemma best_of_spec : forall (l : list (A * Z)) cur,
    let r := best_of cur l in
    (r = cur \/ In r l) /\ snd cur <= snd r /\ (forall x, In x l -> snd x <= snd r).
  Proof.
    induction l as [|x l IH]; intros cur; simpl.
    - split; [left; reflexivity|]. split; [lia|]. intros x [].
    - destruct (snd cur <? snd x) eqn:C.
      + destruct (IH x) as (Hin & Hge & Hall). split; [|split].
        * destruct Hin as [E|Hin]; [right; left; symmetry; exact E|right; right; exact Hin].
        * lia.
        * intros y [E|Hy]; [subst y; exact Hge|exact (Hall y Hy)].
      + destruct (IH cur) as (Hin & Hge & Hall). split; [|split].
        * destruct Hin as [E|Hin]; [left; exact E|right; right; exact Hin].
        * exact Hge.
        * intros y [E|Hy]; [subst y; lia|exact (Hall y Hy)].
  Qed.

  (** at a won root whose children all got their exact table score (root move score =
      negated child score at ply 1), the chosen move leads to a position with the smallest
      distance to mate among all moves that keep the win: a shortest mate *)
  Theorem shortest_mate_move : forall (lab : A -> tbval) (c0 : A) (l : list A),
    (forall c, In c (c0 :: l) -> tbval_ok (lab c)) ->
    (exists c m, In c (c0 :: l) /\ lab c = TLoss m) ->
    let score := fun c => (c, - label_score (lab c) 1) in
    let r := fst (best_of (score c0) (map score l)) in
    In r (c0 :: l) /\
    exists m, lab r = TLoss m /\ forall c m', In c (c0 :: l) -> lab c = TLoss m' -> (m <= m')%nat.
  Proof.
    intros lab c0 l Hok [cw [mw [Hinw Hlw]]] score r.
    destruct (best_of_spec (map score l) (score c0)) as (Hin & Hge & Hall).
    fold r in Hin.
    assert (Hr : In r (c0 :: l) /\ snd (best_of (score c0) (map score l)) = - label_score (lab r) 1).
    { unfold r. destruct Hin as [E|Hin].
      - rewrite E. simpl. split; [left; reflexivity|reflexivity].
      - apply in_map_iff in Hin. destruct Hin as (c & E & Hc). rewrite <- E. simpl. split; [right; exact Hc|reflexivity]. }
    destruct Hr as [Hrin Hsc].
    assert (Hmax : forall c, In c (c0 :: l) -> - label_score (lab c) 1 <= - label_score (lab r) 1).
    { intros c [E|Hc].
      - subst c. rewrite <- Hsc. exact Hge.
      - rewrite <- Hsc. apply (Hall (score c)). apply in_map. exact Hc. }
    split; [exact Hrin|].
    assert (Hp1 : 0 <= 1 <= max_ply) by (rewrite max_ply_val; lia).
    assert (Hm0 : MATE0 = 32000) by reflexivity.
    (* the winning child bounds the chosen one from below: it must be a loss for the opponent too *)
    pose proof (Hmax cw Hinw) as Hw. rewrite Hlw in Hw.
    destruct (Hok cw Hinw) as [Hrw _]. rewrite Hlw in Hrw. unfold tbval_plies in Hrw.
    destruct (label_score_loss mw 1 ltac:(lia) Hp1) as [Elw _].
    destruct (Hok r Hrin) as [Hrr Hnr].
    destruct (lab r) as [n|m|] eqn:Er.
    - exfalso. unfold tbval_plies in Hrr. specialize (Hnr n eq_refl).
      destruct (label_score_win n 1 Hnr ltac:(lia) Hp1) as [E _]. lia.
    - exists m. split; [reflexivity|].
      intros c m' Hc Hl. pose proof (Hmax c Hc) as Hcm. rewrite Hl in Hcm.
      destruct (Hok c Hc) as [Hrc _]. rewrite Hl in Hrc. unfold tbval_plies in Hrc, Hrr.
      destruct (label_score_loss m' 1 ltac:(lia) Hp1) as [E1 _].
      destruct (label_score_loss m 1 ltac:(lia) Hp1) as [E2 _]. lia.
    - exfalso. change (label_score TDraw 1) with 0 in Hw. lia.
  Qed.
End BestMove.
