(** C04 — score constants and the loop-free leaf functions that carry mate scores.

    Constants and the predicates [isWinScore]/[isLoseScore] are REGENERATED from
    lib/texellib/constants.hpp (gen/SearchConsts.v, tx/c04_consts.py).  The functions below are
    hand-written transcriptions, tied to the code by the leaf correspondence of props/c04.py
    (harness/c04_harness.cpp calls the real functions):

      ttSetScore / ttGetScore   TranspositionTable::TTEntry::setScore / getScore
                                (transpositionTable.hpp:329-346); the 16-bit field is modelled
                                as the unsigned value of bits 16..31 of [data]
      isCutOff                  TTEntry::isCutOff (transpositionTable.hpp:348-367)
      mate_of_score             the score -> "mate N" conversion of Search::notifyPV
                                (search.cpp:403-410)
      mated_score               the score of a node without legal moves that is in check
                                (search.cpp:498,525 and quiesce search.cpp:1208)

    No proofs in this file (model files stay extractable when a proof breaks). *)
From Coq Require Import ZArith Bool.
From Texel Require Export gen.SearchConsts.
Local Open Scope Z_scope.

(** value of a 16-bit unsigned bit-field after storing the C++ int [x] ((U64)value & mask) *)
Definition wrap16 (x : Z) : Z := x mod 65536.
(** (S16) conversion of a 16-bit unsigned value *)
Definition sext16 (x : Z) : Z := (x + 32768) mod 65536 - 32768.
Definition fits16 (x : Z) : bool := (-32768 <=? x) && (x <=? 32767).

(** TTEntry::setScore(score, ply): returns the new content of the 16-bit score field *)
Definition ttSetScore (score ply : Z) : Z :=
  let score :=
    if isWinScore score then score + ply
    else if isLoseScore score then score - ply
    else score in
  wrap16 score.

(** the int handed to setBits fits S16 (otherwise the stored score is silently truncated) *)
Definition ttSetScore_noovf (score ply : Z) : bool :=
  fits16 (if isWinScore score then score + ply
          else if isLoseScore score then score - ply else score).

(** TTEntry::getScore(ply) on a 16-bit field content *)
Definition ttGetScore (field ply : Z) : Z :=
  let sc := sext16 field in
  if isWinScore sc then sc - ply
  else if isLoseScore sc then sc + ply
  else sc.

(** TTEntry::isCutOff(alpha, beta, ply, depth) given the entry's type, depth and its score
    already converted by getScore(ply) *)
Definition isCutOff (eType eDepth score alpha beta depth : Z) : bool :=
  ((depth <=? eDepth) &&
     ((eType =? T_EXACT) || ((eType =? T_GE) && (beta <=? score)) || ((eType =? T_LE) && (score <=? alpha))))
  || (isWinScore score && (beta <=? score) && ((eType =? T_EXACT) || (eType =? T_GE)))
  || (isLoseScore score && (score <=? alpha) && ((eType =? T_EXACT) || (eType =? T_LE))).

(** Search::notifyPV: [Some n] is printed as "score mate n", [None] as "score cp" *)
Definition mate_of_score (score : Z) : option Z :=
  if isWinScore score then Some (Z.quot (MATE0 - score) 2)
  else if isLoseScore score then Some (- (Z.quot (MATE0 + score - 1) 2))
  else None.

(** the root score the engine uses for "mate n" (n > 0: the mover mates with its n-th move;
    n <= 0: the mover is mated by the opponent's |n|-th move; 0 = is checkmated) *)
Definition score_of_mate (n : Z) : Z :=
  if 0 <? n then MATE0 - 2 * n else - (MATE0 + 2 * n - 1).

(** score of a checkmated node at [ply] (also [-illegalScore]'s negation in negaScout) *)
Definition mated_score (ply : Z) : Z := - (MATE0 - (ply + 1)).

(** the largest score any node at [ply] can return (mate-distance pruning bound) *)
Definition mdp_beta (beta ply : Z) : Z := Z.min beta (MATE0 - ply - 1).

(** largest ply the search uses: searchTreeInfo has 2*MAX_SEARCH_DEPTH entries *)
Definition max_ply : Z := 2 * MAX_SEARCH_DEPTH.
