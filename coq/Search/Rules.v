(** C04 — the rule system: the ways a node of Search::negaScout / Search::quiesce
    (lib/texellib/search.cpp) produces its return value, restricted to what matters for mate
    scores.  One constructor per return site; the integer in brackets is the site tag logged by
    hook H3 (hooks/h3-search-trace.patch) and used by the certificate checker
    (Search/Justify.v).

    Judgements (all over an abstract game, Search/Game.v):

      Node p ply a b s     a call negaScout(a, b, ply, ...) or quiesce(a, b, ply, ...) on
                           position p returned s; (a, b) is the window AS PASSED by the caller
      Body p ply a b s     the part of negaScout after mate-distance pruning: b is already
                           min(beta, MATE0-ply-1)
      TTFact p ty f        the transposition table may hold, for position p, an entry of type
                           ty whose 16-bit score field is f (stored by a justified node)
      WinChild p ply s     some legal move of p was searched, its final search returned s' with
                           s' below the child's beta (exact or upper bound) and s = -s'
      AllChildren l ply s  every position c of l was searched, its final search returned s'
                           above the child's alpha (exact or lower bound) and -s' <= s

    Not in the system (by design): BUSY returns (site 6: a marker, the parent re-searches the
    move), nodes of a singular-extension search (TT disabled, the value only steers an
    extension), reduced-strength move skipping, tablebase probes (site 7 and tbAdjust: C13).
    Null-move and verification searches, internal iterative deepening: their nodes are
    ordinary nodes of their own positions; the parent uses the null-move result only through
    rule [B_null].

    No proofs in this file. *)
From Coq Require Import ZArith List Bool.
From Texel Require Import Search.Score Search.Game.
Import ListNotations.
Local Open Scope Z_scope.

(** the bound type written to the table is consistent with the window the node was searched
    with (search.cpp:628-633 and the literal T_LE/T_GE/T_EXACT at the other insert sites) *)
Definition type_ok (ty a b s : Z) : Prop :=
  (ty = T_EXACT /\ a < s /\ s < b) \/ (ty = T_GE /\ a < s) \/ (ty = T_LE /\ s < b).

Definition ply_ok (ply : Z) : Prop := 0 <= ply <= max_ply.
Definition score_ok (s : Z) : Prop := - MATE0 <= s <= MATE0.

Section Rules.
  Variable pos : Type.
  Variable moves : pos -> list pos.
  Variable in_check : pos -> bool.

  Inductive Node : pos -> Z -> Z -> Z -> Z -> Prop :=
  (** any return site: a score that is not a mate score claims nothing (heuristic scores are
      outside the rule system by design) *)
  | N_nonmate : forall p ply a b s,
      isWinScore s = false -> isLoseScore s = false ->
      Node p ply a b s
  (** [1] search.cpp:478-480  mate distance pruning: return alpha *)
  | N_mdp : forall p ply a b,
      ply_ok ply -> a < b -> mdp_beta b ply <= a ->
      Node p ply a b a
  (** negaScout proper, with beta clipped *)
  | N_negascout : forall p ply a b s,
      ply_ok ply -> a < mdp_beta b ply ->
      Body p ply a (mdp_beta b ply) s ->
      Node p ply a b s
  (** [20] search.cpp:1220  quiesce stand-pat cut-off.  In check (flag ic) the stand-pat score
      is the mated score, otherwise a static evaluation, which is never a mate score
      (hypothesis on the network, checked on every traced node) *)
  | N_q_standpat : forall p ply a b s (ic : bool),
      (if ic then s = mated_score ply else isWinScore s = false /\ isLoseScore s = false) ->
      b <= s -> isWinScore s = false ->
      Node p ply a b s
  (** [21] search.cpp:1314  quiesce beta cut-off inside the move loop *)
  | N_q_cut : forall p ply a b s,
      b <= s ->
      (isWinScore s = true -> WinChild p ply s) ->
      Node p ply a b s
  (** [22] search.cpp:1319  quiesce end of move loop: return bestScore.  A lose score below
      beta needs every legal move searched (in check all evasions are generated and none is
      skipped: the depth < -6 cap cannot apply, see DESIGN.md C04 rule 6) *)
  | N_q_end : forall p ply a b s,
      (a < s -> isWinScore s = true -> WinChild p ply s) ->
      (s < b -> isLoseScore s = true -> moves p = [] -> in_check p = true /\ mated_score ply <= s) ->
      (s < b -> isLoseScore s = true -> AllChildren (moves p) ply s) ->
      Node p ply a b s

  with Body : pos -> Z -> Z -> Z -> Z -> Prop :=
  (** [2] search.cpp:519-526  50-move draw claimable but the side to move is checkmated *)
  | B_draw_mated : forall p ply a b s,
      ply_ok ply -> checkmated moves in_check p -> s = mated_score ply ->
      Body p ply a b s
  (** [3] search.cpp:528 and [4] search.cpp:533  claimable draw: score 0 *)
  | B_draw : forall p ply a b s,
      s = 0 ->
      Body p ply a b s
  (** [5] search.cpp:546-552  transposition table cut-off *)
  | B_tt_cut : forall p ply a b s ty f eDepth depth,
      TTFact p ty f -> ply_ok ply ->
      s = ttGetScore f ply ->
      isCutOff ty eDepth s a b depth = true ->
      Body p ply a b s
  (** [8] search.cpp:623-638  depth <= 0: the value of the quiescence search *)
  | B_qsearch : forall p ply a b s,
      Node p ply a b s ->
      Body p ply a b s
  (** [9] search.cpp:640-657  razoring (guards: not in check; the shifted-window quiescence
      search failed low) *)
  | B_razor : forall p ply a b s mg,
      in_check p = false -> a < b -> 0 <= mg ->
      Node p ply (a - mg) (b - mg) s -> s <= a - mg ->
      Body p ply a b s
  (** [10] search.cpp:659-681  reverse futility pruning: evaluation minus margin, >= beta *)
  | B_revfut : forall p ply a b s,
      in_check p = false -> b <= s -> isWinScore s = false ->
      Body p ply a b s
  (** [11] search.cpp:683-746  null move (and verification search): s0 is the score of the
      null-move / verification search; a win score is clamped to beta, and beta is not a win
      score (guard !isWinScore(beta)) *)
  | B_null : forall p ply a b s s0,
      in_check p = false -> isWinScore b = false -> b <= s0 ->
      s = (if isWinScore s0 then b else s0) ->
      Body p ply a b s
  (** [12] search.cpp:1018-1023  beta cut-off overridden by a lose bound of the old entry *)
  | B_cut_tt_lose : forall p ply a b s ty f,
      TTFact p ty f -> ply_ok ply ->
      (ty = T_EXACT \/ ty = T_LE) ->
      s = ttGetScore f ply -> isLoseScore s = true ->
      Body p ply a b s
  (** [13] search.cpp:1003-1030  beta cut-off in the move loop *)
  | B_cut : forall p ply a b s,
      b <= s ->
      (isWinScore s = true -> WinChild p ply s) ->
      Body p ply a b s
  (** [14] search.cpp:1036-1041  no legal move, not in check: stalemate *)
  | B_stalemate : forall p ply a b s,
      stalemated moves in_check p -> s = 0 ->
      Body p ply a b s
  (** [16] search.cpp:1049-1051,1066  end of loop, alpha was raised: exact score.  Moves are
      skipped (late move pruning) or given futilityScore only while the best score so far is not
      a lose score (search.cpp:895), hence a lose score here needs every legal move searched *)
  | B_end_exact : forall p ply a b s,
      a < s -> s < b ->
      (isWinScore s = true -> WinChild p ply s) ->
      (isLoseScore s = true -> moves p <> []) ->
      (isLoseScore s = true -> AllChildren (moves p) ply s) ->
      Body p ply a b s
  (** [17] search.cpp:1053-1059  fail low overridden by a win bound of the old entry *)
  | B_end_tt_win : forall p ply a b s ty f,
      TTFact p ty f -> ply_ok ply ->
      (ty = T_EXACT \/ ty = T_GE) ->
      s = ttGetScore f ply -> isWinScore s = true ->
      Body p ply a b s
  (** [18] search.cpp:1060-1066  no move raised alpha (bestMove = -1): every searched move
      scored <= alpha, so bestScore <= alpha ... *)
  | B_end_faillow : forall p ply a b s,
      s <= a ->
      (isLoseScore s = true -> moves p = [] -> in_check p = true /\ mated_score ply <= s) ->
      (isLoseScore s = true -> AllChildren (moves p) ply s) ->
      Body p ply a b s
  (** [18] ... unless there is no legal move at all and the node is in check: bestScore is still
      illegalScore = the mated score, returned (and stored as T_LE) whatever alpha is *)
  | B_end_mated : forall p ply a b s,
      ply_ok ply -> checkmated moves in_check p -> s = mated_score ply ->
      Body p ply a b s

  with TTFact : pos -> Z -> Z -> Prop :=
  (** every tt.insert of negaScout stores the returned score with setScore(score, ply) and a
      bound type consistent with the (clipped) window; TranspositionTable::insert either keeps
      the old entry or writes exactly this one (transpositionTable.cpp:143-165) *)
  | TT_store : forall p ply a b s ty,
      Body p ply a b s -> ply_ok ply -> score_ok s -> type_ok ty a b s ->
      TTFact p ty (ttSetScore s ply)
  (** sites [12] and [17] re-insert the old entry's score with the weaker bound type *)
  | TT_weaken_le : forall p ty f,
      TTFact p ty f -> (ty = T_EXACT \/ ty = T_LE) -> TTFact p T_LE f
  | TT_weaken_ge : forall p ty f,
      TTFact p ty f -> (ty = T_EXACT \/ ty = T_GE) -> TTFact p T_GE f

  with WinChild : pos -> Z -> Z -> Prop :=
  | WC_intro : forall p ply s c a' b' s',
      In c (moves p) -> Node c (ply + 1) a' b' s' -> s' < b' -> s = - s' ->
      WinChild p ply s

  with AllChildren : list pos -> Z -> Z -> Prop :=
  | AC_nil : forall ply s, AllChildren [] ply s
  | AC_cons : forall ply s c l a' b' s',
      Node c (ply + 1) a' b' s' -> a' < s' -> - s' <= s ->
      AllChildren l ply s ->
      AllChildren (c :: l) ply s.

  (** the TT invariant (DESIGN.md C04 rule 3) *)
  Definition tt_sound (p : pos) (ty f : Z) : Prop :=
    forall ply, ply_ok ply ->
      ((ty = T_EXACT \/ ty = T_GE) -> win_bound moves in_check (ttGetScore f ply) ply p) /\
      ((ty = T_EXACT \/ ty = T_LE) -> lose_bound moves in_check (ttGetScore f ply) ply p).
End Rules.

Arguments Node {pos} moves in_check _ _ _ _ _.
Arguments Body {pos} moves in_check _ _ _ _ _.
Arguments TTFact {pos} moves in_check _ _ _.
Arguments WinChild {pos} moves in_check _ _ _.
Arguments AllChildren {pos} moves in_check _ _ _.
Arguments tt_sound {pos} moves in_check _ _ _.
