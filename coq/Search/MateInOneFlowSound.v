(** C04 — completeness for mate in one: proofs about the control-flow model of
    Search/MateInOneFlow.v. *)
From Coq Require Import ZArith List Bool Lia.
From Texel Require Import Search.Score Search.ScoreFacts Search.Game Search.GameFacts Search.Rules Search.RulesSound
                          Search.MateInOneFlow.
Import ListNotations.
Local Open Scope Z_scope.

Scheme MatedNode_min := Minimality for MatedNode Sort Prop
  with MatedBody_min := Minimality for MatedBody Sort Prop
  with MatedTT_min := Minimality for MatedTT Sort Prop.
Combined Scheme mated_mutind from MatedNode_min, MatedBody_min, MatedTT_min.

Lemma mated_score_lose : forall ply, ply_ok ply -> isLoseScore (mated_score ply) = true.
Proof.
  intros ply Hp. apply isLoseScore_spec. unfold mated_score, ply_ok in *.
  rewrite max_ply_val in Hp. rewrite MATE0_val. lia.
Qed.

Lemma mated_score_stored : forall p1 p2, ply_ok p1 -> ply_ok p2 ->
  ttGetScore (ttSetScore (mated_score p1) p1) p2 = mated_score p2.
Proof.
  intros p1 p2 H1 H2.
  assert (Hs : - MATE0 <= mated_score p1 <= MATE0).
  { unfold mated_score, ply_ok in *. rewrite max_ply_val in H1. rewrite MATE0_val. lia. }
  destruct (score_ply_algebra (mated_score p1) p1 p2 Hs H1 H2) as (_ & _ & _ & HL & _).
  rewrite (HL (mated_score_lose p1 H1)). unfold mated_score. lia.
Qed.

(** every return site reachable for a checkmated node yields the mated score, except
    mate-distance pruning, which returns alpha >= MATE0-ply-1; every table entry of a checkmated
    position reads back as the mated score at every ply *)
Theorem mated_node_all :
  (forall ply a b s, MatedNode ply a b s -> s = mated_score ply \/ (s = a /\ mdp_beta b ply <= a)) /\
  (forall ply a b s, MatedBody ply a b s -> ply_ok ply -> s = mated_score ply) /\
  (forall f, MatedTT f -> forall ply, ply_ok ply -> ttGetScore f ply = mated_score ply).
Proof.
  apply (mated_mutind
           (fun ply a b s => s = mated_score ply \/ (s = a /\ mdp_beta b ply <= a))
           (fun ply a b s => ply_ok ply -> s = mated_score ply)
           (fun f => forall ply, ply_ok ply -> ttGetScore f ply = mated_score ply)).
  - intros ply a b Hp Hab Hm. right. split; [reflexivity|exact Hm].
  - intros ply a b s Hp Ha _ IH. left. exact (IH Hp).
  - intros ply a b s Hs _. exact Hs.
  - intros ply a b s f ty eDepth depth _ IH Hs _ Hp. rewrite Hs. exact (IH ply Hp).
  - intros ply a b s Hs _ _. exact Hs.
  - intros ply a b s Hs _ _. exact Hs.
  - intros ply a b s Hs _. exact Hs.
  - intros ply a b s _ IH Hp ply2 Hp2. rewrite (IH Hp). exact (mated_score_stored ply ply2 Hp Hp2).
Qed.

Lemma mated_tt_not_win : forall f ply, MatedTT f -> ply_ok ply -> isWinScore (ttGetScore f ply) = false.
Proof.
  intros f ply H Hp. rewrite (proj2 (proj2 mated_node_all) f H ply Hp).
  apply lose_not_win. exact (mated_score_lose ply Hp).
Qed.

Section FlowSound.
  Variable pos : Type.
  Variable moves : pos -> list pos.
  Variable in_check : pos -> bool.

  Notation checkmated := (checkmated moves in_check).
  Notation ChildRes := (ChildRes moves in_check).
  Notation RootSearch := (RootSearch moves in_check).
  Notation RestMoves := (RestMoves moves in_check).
  Notation Iteration := (Iteration moves in_check).

  Lemma ply_ok_1 : ply_ok 1.
  Proof. unfold ply_ok. rewrite max_ply_val. lia. Qed.

  (** the root's value for a mating move: mate 1, or (beta absurdly low) beta itself *)
  Lemma child_mated_value : forall c alpha beta s,
    checkmated c -> ChildRes c alpha beta s -> alpha < beta ->
    s = MATE0 - 2 \/ (s = beta /\ beta <= - (MATE0 - 2)).
  Proof.
    intros c alpha beta s Hm H Hab. destruct H as [sc _ Hn|sc Hnm _]; [|contradiction].
    destruct (proj1 mated_node_all _ _ _ _ Hn) as [E|[E Hmdp]].
    - left. rewrite E. unfold mated_score. lia.
    - right. unfold mdp_beta in Hmdp. lia.
  Qed.

  (** a move that does not mate cannot be given an exact or lower-bound score of mate 1 or
      better (soundness of the rule system) *)
  Lemma child_other_bound : forall c alpha beta s,
    ~ checkmated c -> ChildRes c alpha beta s -> alpha < s -> s < MATE0 - 2.
  Proof.
    intros c alpha beta s Hnm H Ha. destruct H as [sc Hm _|sc _ Hn]; [contradiction|].
    destruct (rules_sound pos moves in_check _ _ _ _ _ Hn) as [_ HL].
    destruct (Z_lt_le_dec (- sc) (MATE0 - 2)) as [Hlt|Hge]; [exact Hlt|exfalso].
    assert (L : isLoseScore sc = true) by (apply isLoseScore_spec; rewrite MATE0_val in Hge; lia).
    destruct (HL ltac:(lia) L) as (k & Hk & Hb).
    assert (k = 0%nat) by lia. subst k.
    apply Hnm. exact (loses_0 pos moves in_check _ Hk).
  Qed.

  (** Lemma A: the re-search loop of a mating move ends with exactly mate 1 *)
  Lemma root_search_mating : forall c pv alpha beta fin,
    RootSearch c pv alpha beta fin -> checkmated c -> alpha < beta -> beta <= MATE0 ->
    snd fin = MATE0 - 2 /\ snd fin < snd (fst fin) /\
    (pv = true -> fst (fst fin) < snd fin) /\ (pv = false -> fst (fst fin) = alpha).
  Proof.
    intros c pv alpha beta fin H Hm. induction H as [alpha beta score HC Hb Hpv|alpha beta score HC HL Ha|
      alpha beta score d fin HC Hb Hd _ IH|alpha beta score d fin HC Hpv Hb Ha Hd _ IH]; intros Hab Hbm.
    - cbn [fst snd]. destruct (child_mated_value _ _ _ _ Hm HC Hab) as [E|[E _]]; [|lia].
      repeat split; try assumption; try reflexivity.
    - exfalso. destruct (child_mated_value _ _ _ _ Hm HC Hab) as [E|[E _]].
      + subst score. vm_compute in HL. discriminate.
      + lia.
    - apply IH; lia.
    - destruct (child_mated_value _ _ _ _ Hm HC Hab) as [E|[E _]]; [|lia].
      destruct IH as (I1 & I2 & I3 & I4); [rewrite MATE0_val in *; lia|exact Hbm|].
      repeat split; try assumption. intro E2. rewrite Hpv in E2. discriminate.
  Qed.

  (** Lemma B: the re-search loop of a non-mating move never ends with mate 1 or better as an
      exact / lower-bound score *)
  Lemma root_search_other : forall c pv alpha beta fin,
    RootSearch c pv alpha beta fin -> ~ checkmated c ->
    (pv = false -> fst (fst fin) = alpha) /\
    (pv = true \/ fst (fst fin) < snd fin -> snd fin < MATE0 - 2).
  Proof.
    intros c pv alpha beta fin H Hnm. induction H as [alpha beta score HC Hb Hpv|alpha beta score HC HL Ha|
      alpha beta score d fin HC Hb Hd _ IH|alpha beta score d fin HC Hpv Hb Ha Hd _ IH].
    - cbn [fst snd]. split; [reflexivity|]. intros [E|E].
      + exact (child_other_bound _ _ _ _ Hnm HC (Hpv E)).
      + exact (child_other_bound _ _ _ _ Hnm HC E).
    - cbn [fst snd]. split; [reflexivity|]. intros _. apply isLoseScore_spec in HL. rewrite MATE0_val. lia.
    - exact IH.
    - destruct IH as [I1 I2]. split; [intro E; rewrite Hpv in E; discriminate|exact I2].
  Qed.

  Lemma checkmated_dec : forall c, {checkmated c} + {~ checkmated c}.
  Proof.
    intro c. unfold Game.checkmated. destruct (in_check c); [|right; intros [E _]; discriminate].
    destruct (moves c) as [|x l]; [left; split; reflexivity|right; intros [_ E]; discriminate].
  Qed.

  Definition good (b : pos * Z) : Prop := snd b = MATE0 - 2 /\ checkmated (fst b).

  Lemma rest_keeps_good : forall l best fin, RestMoves l best fin -> good best -> good fin.
  Proof.
    intros l best fin H. induction H as [best|c l bp bs fa fb s fin HS _ IH]; intro Hg; [exact Hg|].
    destruct Hg as [Hs Hm]. cbn [fst snd] in Hs, Hm. apply IH.
    assert (Hno : (bs <? s) = false).
    { apply Z.ltb_ge. destruct (checkmated_dec c) as [Hc|Hc].
      - destruct (root_search_mating _ _ _ _ _ HS Hc ltac:(lia) ltac:(rewrite MATE0_val in *; lia)) as (E & _). cbn [fst snd] in E. lia.
      - destruct (root_search_other _ _ _ _ _ HS Hc) as [I1 I2]. cbn [fst snd] in I1, I2.
        destruct (Z_lt_le_dec bs s) as [Hlt|Hle]; [|exact Hle].
        specialize (I1 eq_refl). assert (s < MATE0 - 2) by (apply I2; right; lia). lia. }
    rewrite Hno. split; assumption.
  Qed.

  (** while no mating move has been searched the best score stays below mate 1; the first
      mating move takes over with exactly mate 1 *)
  Lemma rest_finds_mate : forall l best fin,
    RestMoves l best fin -> snd best < MATE0 - 2 ->
    (exists c, In c l /\ checkmated c) -> good fin.
  Proof.
    intros l best fin H. induction H as [best|c l bp bs fa fb s fin HS HR IH]; intros Hlow [m [Hin Hm]].
    - destruct Hin.
    - cbn [fst snd] in Hlow. destruct (checkmated_dec c) as [Hc|Hc].
      + destruct (root_search_mating _ _ _ _ _ HS Hc ltac:(lia) ltac:(lia)) as (E & _). cbn [fst snd] in E.
        assert (Hyes : (bs <? s) = true) by (apply Z.ltb_lt; lia).
        rewrite Hyes in HR. apply (rest_keeps_good _ _ _ HR). split; cbn [fst snd]; assumption.
      + destruct Hin as [E|Hin]; [subst m; contradiction|].
        apply IH; [|exists m; split; assumption].
        destruct (root_search_other _ _ _ _ _ HS Hc) as [I1 I2]. cbn [fst snd] in I1, I2.
        destruct (bs <? s) eqn:Q; cbn [fst snd]; [|exact Hlow].
        apply Z.ltb_lt in Q. apply I2. right. rewrite (I1 eq_refl). exact Q.
  Qed.

  (** Completeness for mate in one: a completed iteration over root moves among which one
      delivers checkmate ends with score MATE0-2, reported as "mate 1", and its best move
      delivers checkmate. *)
  Theorem mate_in_one_found : forall order alpha0 beta0 bp bs,
    Iteration order alpha0 beta0 (bp, bs) ->
    (exists c, In c order /\ checkmated c) ->
    bs = MATE0 - 2 /\ mate_of_score bs = Some 1 /\ checkmated bp.
  Proof.
    intros order alpha0 beta0 bp bs H Hex.
    assert (G : good (bp, bs)).
    { inversion H as [c l a0 b0 fa fb s fin Ha Hab Hb HS HR]; subst.
      destruct (checkmated_dec c) as [Hc|Hc].
      - destruct (root_search_mating _ _ _ _ _ HS Hc Hab Hb) as (E & _). cbn [fst snd] in E.
        apply (rest_keeps_good _ _ _ HR). split; cbn [fst snd]; assumption.
      - destruct (root_search_other _ _ _ _ _ HS Hc) as [_ I2]. cbn [fst snd] in I2.
        apply (rest_finds_mate _ _ _ HR); [cbn [fst snd]; apply I2; left; reflexivity|].
        destruct Hex as [m [[E|Hin] Hm]]; [subst m; contradiction|]. exists m. split; assumption. }
    destruct G as [Hs Hm]. cbn [fst snd] in Hs, Hm. split; [exact Hs|]. split; [|exact Hm].
    rewrite Hs. vm_compute. reflexivity.
  Qed.

  (** the best move is one of the root moves *)
  Lemma rest_best_in : forall l best fin, RestMoves l best fin -> fst fin = fst best \/ In (fst fin) l.
  Proof.
    intros l best fin H. induction H as [best|c l bp bs fa fb s fin _ _ IH]; [left; reflexivity|].
    destruct (bs <? s); simpl in IH; destruct IH as [E|E]; simpl.
    - right. left. symmetry. exact E.
    - right. right. exact E.
    - left. exact E.
    - right. right. exact E.
  Qed.

  Lemma iteration_best_in : forall order alpha0 beta0 fin, Iteration order alpha0 beta0 fin -> In (fst fin) order.
  Proof.
    intros order alpha0 beta0 fin H. inversion H as [c l a0 b0 fa fb s fin' _ _ _ _ HR]; subst.
    destruct (rest_best_in _ _ _ HR) as [E|E]; simpl in E; [left; symmetry; exact E|right; exact E].
  Qed.

  Theorem mate_in_one_found_root : forall root order alpha0 beta0 bp bs,
    (forall c, In c (moves root) -> In c order) ->
    (exists c, In c (moves root) /\ checkmated c) ->
    Iteration order alpha0 beta0 (bp, bs) ->
    bs = MATE0 - 2 /\ mate_of_score bs = Some 1 /\ checkmated bp /\ In bp order.
  Proof.
    intros root order alpha0 beta0 bp bs Hall [c [Hin Hm]] H.
    destruct (mate_in_one_found order alpha0 beta0 bp bs H) as (A & B & C).
    - exists c. split; [apply Hall; exact Hin|exact Hm].
    - split; [exact A|]. split; [exact B|]. split; [exact C|]. exact (iteration_best_in _ _ _ _ H).
  Qed.
End FlowSound.

(** non-vacuity: the example game (root 0 -> 1 (checkmate), 0 -> 2 -> 3 (stalemate)); the
    iteration searches the quiet move first with the full window, then the mating move with the
    null window above its score *)
Definition mf_moves (p : nat) : list nat := match p with 0%nat => [1%nat; 2%nat] | 2%nat => [3%nat] | _ => [] end.
Definition mf_check (p : nat) : bool := match p with 1%nat => true | _ => false end.

Example mate_in_one_flow_example :
  Iteration mf_moves mf_check [2%nat; 1%nat] (- MATE0) MATE0 (1%nat, MATE0 - 2).
Proof.
  apply It_intro with (fa := - MATE0) (fb := MATE0) (s := 30); try (vm_compute; intuition discriminate).
  - apply RS_done; [|vm_compute; reflexivity|intros _; vm_compute; reflexivity].
    replace 30 with (- (-30)) by reflexivity.
    apply CR_other; [intros [E _]; discriminate|apply N_nonmate; reflexivity].
  - apply RM_cons with (fa := 30) (fb := MATE0) (s := MATE0 - 2).
    + (* (30, 31): the mated child returns -(MATE0-2): fail high; re-search with beta = MATE0 *)
      apply RS_fail_high with (score := MATE0 - 2) (d := 2).
      * replace (MATE0 - 2) with (- mated_score 1) by reflexivity.
        apply CR_mated; [split; reflexivity|].
        apply MN_body; [unfold ply_ok; rewrite max_ply_val; lia|vm_compute; reflexivity|].
        apply MB_loop_end. reflexivity.
      * vm_compute; discriminate.
      * lia.
      * replace (Z.min (MATE0 - 2 + 2) MATE0) with MATE0 by reflexivity.
        apply RS_done; [|vm_compute; reflexivity|intro E; discriminate].
        replace (MATE0 - 2) with (- mated_score 1) by reflexivity.
        apply CR_mated; [split; reflexivity|].
        apply MN_body; [unfold ply_ok; rewrite max_ply_val; lia|vm_compute; reflexivity|].
        apply MB_loop_end. reflexivity.
    + replace (30 <? MATE0 - 2) with true by reflexivity. apply RM_nil.
Qed.
