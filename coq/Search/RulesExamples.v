(** C04 — non-vacuity: the hypotheses of the main theorems are satisfiable on a concrete game.

    Game: position 0 (root) has two moves, to 1 and to 2; position 1 is checkmate; position 2
    has one move to 3; position 3 is stalemate.  A depth-1 style derivation returns MATE0-2
    ("mate 1") at the root node; the root theorem then yields wins 1. *)
From Coq Require Import ZArith List Bool Lia.
From Texel Require Import Search.Score Search.ScoreFacts Search.Game Search.GameFacts Search.Rules Search.RulesSound.
Import ListNotations.
Local Open Scope Z_scope.

Definition ex_moves (p : nat) : list nat :=
  match p with 0%nat => [1%nat; 2%nat] | 2%nat => [3%nat] | _ => [] end.
Definition ex_check (p : nat) : bool := match p with 1%nat => true | _ => false end.

(** the checkmated child, searched at ply 1 with the full window: site 18 (mated) *)
Example ex_child_mated : Node ex_moves ex_check 1%nat 1 (- MATE0) MATE0 (mated_score 1).
Proof.
  apply N_negascout; [unfold ply_ok; rewrite max_ply_val; lia|vm_compute; reflexivity|].
  apply B_end_mated; [unfold ply_ok; rewrite max_ply_val; lia|split; reflexivity|reflexivity].
Qed.

(** the root as a node at ply 0: exact score MATE0-2 via the mating child (site 16) *)
Example ex_root_node : Node ex_moves ex_check 0%nat 0 (- MATE0) MATE0 (MATE0 - 2).
Proof.
  apply N_negascout; [unfold ply_ok; rewrite max_ply_val; lia|vm_compute; reflexivity|].
  apply B_end_exact.
  - vm_compute; reflexivity.
  - vm_compute; reflexivity.
  - intros _. apply WC_intro with (c := 1%nat) (a' := - MATE0) (b' := MATE0) (s' := mated_score 1).
    + left; reflexivity.
    + exact ex_child_mated.
    + vm_compute; reflexivity.
    + vm_compute; reflexivity.
  - intro L. vm_compute in L. discriminate.
  - intro L. vm_compute in L. discriminate.
Qed.

Example ex_root_sound : win_bound ex_moves ex_check (MATE0 - 2) 0 0%nat.
Proof.
  destruct (rules_sound _ _ _ _ _ _ _ _ ex_root_node) as [HW _]. apply HW. vm_compute; reflexivity.
Qed.

(** the root theorem's hypotheses are satisfiable: move to 1 searched with window
    (-MATE0, MATE0), child returns the mated score, reported as "mate 1" *)
Example ex_announced : loses ex_moves ex_check (Z.to_nat (2 * (1 - 1))) 1%nat /\ wins ex_moves ex_check (Z.to_nat (2 * 1 - 1)) 0%nat.
Proof.
  apply (announced_win_real nat ex_moves ex_check 0%nat 1%nat (- MATE0) MATE0 (mated_score 1) 1).
  - left; reflexivity.
  - replace (- MATE0) with (- MATE0) by reflexivity.
    replace (- - MATE0) with MATE0 by reflexivity. exact ex_child_mated.
  - vm_compute; reflexivity.
  - unfold score_ok; vm_compute; split; discriminate.
  - vm_compute; reflexivity.
  - lia.
Qed.

(** a table entry stored by the mated child, read back two plies deeper, still says "mated now" *)
Example ex_tt : tt_sound ex_moves ex_check 1%nat T_LE (ttSetScore (mated_score 1) 1).
Proof.
  apply (tt_invariant nat ex_moves ex_check).
  apply TT_store with (a := - MATE0) (b := MATE0 - 2).
  - apply B_end_mated; [unfold ply_ok; rewrite max_ply_val; lia|split; reflexivity|reflexivity].
  - unfold ply_ok; rewrite max_ply_val; lia.
  - unfold score_ok; vm_compute; split; discriminate.
  - right; right. split; [reflexivity|vm_compute; reflexivity].
Qed.

Example ex_tt_read : ttGetScore (ttSetScore (mated_score 1) 1) 3 = mated_score 3.
Proof. vm_compute. reflexivity. Qed.

(** loss at the root of the mirrored situation: position 2's only move leads to a stalemate, so
    nothing is claimed; a lost root: game where the root has one move, to a position from which
    the opponent mates *)
Definition ex2_moves (p : nat) : list nat :=
  match p with 0%nat => [1%nat] | 1%nat => [2%nat] | _ => [] end.
Definition ex2_check (p : nat) : bool := match p with 2%nat => true | _ => false end.

Example ex2_pos2 : Node ex2_moves ex2_check 2%nat 2 (- MATE0) MATE0 (mated_score 2).
Proof.
  apply N_negascout; [unfold ply_ok; rewrite max_ply_val; lia|vm_compute; reflexivity|].
  apply B_end_mated; [unfold ply_ok; rewrite max_ply_val; lia|split; reflexivity|reflexivity].
Qed.

Example ex2_pos1 : Node ex2_moves ex2_check 1%nat 1 (- MATE0) MATE0 (- mated_score 2).
Proof.
  apply N_negascout; [unfold ply_ok; rewrite max_ply_val; lia|vm_compute; reflexivity|].
  apply B_end_exact; try (vm_compute; reflexivity).
  - intros _. apply WC_intro with (c := 2%nat) (a' := - MATE0) (b' := MATE0) (s' := mated_score 2);
      [left; reflexivity|exact ex2_pos2|vm_compute; reflexivity|reflexivity].
  - intro L. vm_compute in L. discriminate.
  - intro L. vm_compute in L. discriminate.
Qed.

Example ex2_loss : loses ex2_moves ex2_check (Z.to_nat (2 * 1)) 0%nat.
Proof.
  apply (announced_loss_real nat ex2_moves ex2_check 0%nat (mated_score 2) 1).
  - discriminate.
  - apply AC_cons with (a' := - MATE0) (b' := MATE0) (s' := - mated_score 2).
    + exact ex2_pos1.
    + vm_compute; reflexivity.
    + vm_compute; discriminate.
    + apply AC_nil.
  - unfold score_ok; vm_compute; split; discriminate.
  - vm_compute; reflexivity.
  - lia.
Qed.
