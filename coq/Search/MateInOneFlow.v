(** C04 — completeness for mate in one: a control-flow model of what a COMPLETED iteration of
    Search::iterativeDeepening (full strength, one thread, no tablebases) does when a root move
    delivers checkmate.  No proofs in this file (Search/MateInOneFlowSound.v).

    1. The node of a checkmated position ([MatedBody] / [MatedNode] / [MatedTT]).
       negaScout(alpha, beta, ply, depth, inCheck = true) on a position in which the side to move
       is in check and has no legal move can leave through these return sites only (tags as in
       Search/Rules.v and hook H3):
         [1]  mate-distance pruning: return alpha                    (search.cpp:478-480)
         [2]  50-move draw claimable, but mated: the mated score     (search.cpp:519-526)
         [5]  transposition-table cut-off: the entry's score         (search.cpp:546-552)
         [8]  depth <= 0: quiesce, in check: stand-pat = mated score; [20] it is >= beta, or
              [22] no evasion exists and bestScore (= stand-pat) is returned  (search.cpp:1205-1320)
         [18] depth > 0: checkEvasions yields no legal move, haveLegalMoves stays false, inCheck:
              bestScore is still illegalScore = the mated score      (search.cpp:1036-1066)
       and every table entry of such a position was stored by [8] or [18] ([MatedTT]).
       Not reachable, by the code's guards: [3] (the mate test comes first), [9][10][11], futility,
       IID (all guarded by !inCheck; the flag is MoveGen::givesCheck of the move played), [12][13]
       [16] (need a legal move that was searched), [14] (in check), [15] and the singular
       extension (need a legal hash move), [17] (needs an entry with a win score: entries of this
       position hold the mated score, lemma [mated_tt_score]).
       Excluded by explicit assumption (see [C04_mate_in_one_found]): [4] repetition-draw claim (the
       checkmated position cannot have occurred earlier in a legal game), [6] BUSY (the root never
       marks its children ABDADA-exclusive, and there is one thread), [7][19] tablebase probes,
       helper-thread results, reduced strength (weakPlaySkipMove), searchmoves restrictions.

    2. The root ([ChildRes], [RootSearch], [Iteration]).  Every root move is searched
       (getRootMoves keeps all legal moves at strength 1000); a move that gives check is never
       reduced at the root (lmrS needs !givesCheck); the first root move is searched with an
       arbitrary window alpha0 < beta0 (first iteration: (-MATE0, MATE0); later: the aspiration window
       around its previous score), the others with (best, best+1); the re-search loop widens beta
       after a fail high and (first move only) alpha after a fail low, with arbitrary positive
       steps, and may stop on a lose score that fails low (knownLoss); a move replaces the best
       one iff its final score is greater.  Non-mating moves: any justified node result
       (Search/Rules.v) — hence any value the real search can return for them. *)
From Coq Require Import ZArith List Bool.
From Texel Require Import Search.Score Search.Game Search.Rules.
Import ListNotations.
Local Open Scope Z_scope.

(** ---- 1. the node of a checkmated position ---- *)
Inductive MatedNode : Z -> Z -> Z -> Z -> Prop :=       (* ply alpha beta score *)
| MN_mdp : forall ply a b,                               (* [1] *)
    ply_ok ply -> a < b -> mdp_beta b ply <= a -> MatedNode ply a b a
| MN_body : forall ply a b s,
    ply_ok ply -> a < mdp_beta b ply -> MatedBody ply a (mdp_beta b ply) s -> MatedNode ply a b s
with MatedBody : Z -> Z -> Z -> Z -> Prop :=
| MB_draw50_mated : forall ply a b s,                    (* [2] *)
    s = mated_score ply -> MatedBody ply a b s
| MB_tt_cut : forall ply a b s f ty eDepth depth,        (* [5] *)
    MatedTT f -> s = ttGetScore f ply -> isCutOff ty eDepth s a b depth = true -> MatedBody ply a b s
| MB_q_standpat : forall ply a b s,                      (* [8] + [20] *)
    s = mated_score ply -> b <= s -> MatedBody ply a b s
| MB_q_end : forall ply a b s,                           (* [8] + [22] *)
    s = mated_score ply -> s < b -> MatedBody ply a b s
| MB_loop_end : forall ply a b s,                        (* [18] *)
    s = mated_score ply -> MatedBody ply a b s
with MatedTT : Z -> Prop :=                              (* 16-bit score field of an entry *)
| MT_store : forall ply a b s,
    MatedBody ply a b s -> ply_ok ply -> MatedTT (ttSetScore s ply).

Section RootFlow.
  Variable pos : Type.
  Variable moves : pos -> list pos.
  Variable in_check : pos -> bool.

  (** the value the root obtains for root move c searched with window (alpha, beta):
      -negaScoutRoot(-beta, -alpha, ply 1) *)
  Inductive ChildRes (c : pos) (alpha beta : Z) : Z -> Prop :=
  | CR_mated : forall sc,
      checkmated moves in_check c -> MatedNode 1 (- beta) (- alpha) sc -> ChildRes c alpha beta (- sc)
  | CR_other : forall sc,
      ~ checkmated moves in_check c -> Node moves in_check c 1 (- beta) (- alpha) sc ->
      ChildRes c alpha beta (- sc).

  (** one root move with its re-search loop (search.cpp: the while loop after
      storeSearchResult); [pv] = (mi < maxPV), i.e. the first root move; the result is the final
      window and score *)
  Inductive RootSearch (c : pos) (pv : bool) : Z -> Z -> Z * Z * Z -> Prop :=
  | RS_done : forall alpha beta score,
      ChildRes c alpha beta score ->
      score < beta -> (pv = true -> alpha < score) ->
      RootSearch c pv alpha beta (alpha, beta, score)
  | RS_known_loss : forall alpha beta score,              (* break on a failing-low lose score *)
      ChildRes c alpha beta score ->
      isLoseScore score = true -> score <= alpha ->
      RootSearch c pv alpha beta (alpha, beta, score)
  | RS_fail_high : forall alpha beta score d fin,
      ChildRes c alpha beta score ->
      beta <= score -> 1 <= d ->
      RootSearch c pv alpha (Z.min (score + d) MATE0) fin ->
      RootSearch c pv alpha beta fin
  | RS_fail_low : forall alpha beta score d fin,
      ChildRes c alpha beta score ->
      pv = true -> score < beta -> score <= alpha -> 1 <= d ->
      RootSearch c pv (Z.max (score - d) (- MATE0)) beta fin ->
      RootSearch c pv alpha beta fin.

  (** the remaining root moves, searched with (best, best+1); a move becomes the best one iff
      its final score is greater than the best score so far *)
  Inductive RestMoves : list pos -> pos * Z -> pos * Z -> Prop :=
  | RM_nil : forall best, RestMoves [] best best
  | RM_cons : forall c l bp bs fa fb s fin,
      RootSearch c false bs (bs + 1) (fa, fb, s) ->
      RestMoves l (if bs <? s then (c, s) else (bp, bs)) fin ->
      RestMoves (c :: l) (bp, bs) fin.

  (** a completed iteration over the root moves in their current order *)
  Inductive Iteration : list pos -> Z -> Z -> pos * Z -> Prop :=
  | It_intro : forall c l alpha0 beta0 fa fb s fin,
      - MATE0 <= alpha0 -> alpha0 < beta0 -> beta0 <= MATE0 ->
      RootSearch c true alpha0 beta0 (fa, fb, s) ->
      RestMoves l (c, s) fin ->
      Iteration (c :: l) alpha0 beta0 fin.
End RootFlow.

Arguments ChildRes {pos} moves in_check c alpha beta _.
Arguments RootSearch {pos} moves in_check c pv _ _ _.
Arguments RestMoves {pos} moves in_check _ _ _.
Arguments Iteration {pos} moves in_check _ _ _ _.
