(** C04 — proofs about the leaf functions of Search/Score.v (ply algebra of hash scores,
    "mate N" conversion). *)
From Coq Require Import ZArith Bool Lia ZifyBool.
From Texel Require Import Search.Score.
Local Open Scope Z_scope.

Ltac Zify.zify_post_hook ::= Z.div_mod_to_equations.

Lemma half_mate0 : Z.quot MATE0 2 = 16000.
Proof. reflexivity. Qed.

Lemma isWinScore_spec : forall s, isWinScore s = true <-> s > 16000.
Proof. intro s. unfold isWinScore. rewrite half_mate0. lia. Qed.

Lemma isLoseScore_spec : forall s, isLoseScore s = true <-> s < -16000.
Proof. intro s. unfold isLoseScore. rewrite half_mate0. lia. Qed.

Lemma isWinScore_false : forall s, isWinScore s = false <-> s <= 16000.
Proof. intro s. unfold isWinScore. rewrite half_mate0. lia. Qed.

Lemma isLoseScore_false : forall s, isLoseScore s = false <-> -16000 <= s.
Proof. intro s. unfold isLoseScore. rewrite half_mate0. lia. Qed.

Lemma win_not_lose : forall s, isWinScore s = true -> isLoseScore s = false.
Proof. intros s H. apply isWinScore_spec in H. apply isLoseScore_false. lia. Qed.

Lemma lose_not_win : forall s, isLoseScore s = true -> isWinScore s = false.
Proof. intros s H. apply isLoseScore_spec in H. apply isWinScore_false. lia. Qed.

Lemma MATE0_val : MATE0 = 32000.
Proof. reflexivity. Qed.

Lemma max_ply_val : max_ply = 200.
Proof. reflexivity. Qed.

Lemma sext16_wrap16 : forall v, -32768 <= v <= 32767 -> sext16 (wrap16 v) = v.
Proof. intros v H. unfold sext16, wrap16. lia. Qed.

Lemma wrap16_range : forall v, 0 <= wrap16 v < 65536.
Proof. intro v. unfold wrap16. lia. Qed.

(** what is stored, as a signed number *)
Definition stored (s ply : Z) : Z :=
  if isWinScore s then s + ply else if isLoseScore s then s - ply else s.

Lemma ttSetScore_stored : forall s p,
  -MATE0 <= s <= MATE0 -> 0 <= p <= max_ply ->
  ttSetScore_noovf s p = true /\ sext16 (ttSetScore s p) = stored s p.
Proof.
  intros s p Hs Hp. rewrite MATE0_val in Hs. rewrite max_ply_val in Hp.
  unfold ttSetScore_noovf, ttSetScore, stored, fits16.
  destruct (isWinScore s) eqn:W.
  - apply isWinScore_spec in W. split; [lia|]. apply sext16_wrap16. lia.
  - destruct (isLoseScore s) eqn:L.
    + apply isLoseScore_spec in L. split; [lia|]. apply sext16_wrap16. lia.
    + split; [lia|]. apply sext16_wrap16. lia.
Qed.

(** The ply algebra: a score stored at ply p1 and read back at ply p2. *)
Theorem score_ply_algebra : forall s p1 p2,
  -MATE0 <= s <= MATE0 -> 0 <= p1 <= max_ply -> 0 <= p2 <= max_ply ->
  ttSetScore_noovf s p1 = true /\
  0 <= ttSetScore s p1 < 65536 /\
  (isWinScore s = true -> ttGetScore (ttSetScore s p1) p2 = s + (p1 - p2)) /\
  (isLoseScore s = true -> ttGetScore (ttSetScore s p1) p2 = s - (p1 - p2)) /\
  (isWinScore s = false -> isLoseScore s = false -> ttGetScore (ttSetScore s p1) p2 = s).
Proof.
  intros s p1 p2 Hs H1 H2.
  destruct (ttSetScore_stored s p1 Hs H1) as [Hno Hst].
  split; [exact Hno|]. split; [apply wrap16_range|].
  unfold ttGetScore. rewrite Hst. unfold stored.
  rewrite MATE0_val in Hs. rewrite max_ply_val in H1, H2.
  repeat split.
  - intro W. rewrite W. pose proof (proj1 (isWinScore_spec s) W) as W'.
    assert (isWinScore (s + p1) = true) as -> by (apply isWinScore_spec; lia). lia.
  - intro L. rewrite (lose_not_win _ L), L. pose proof (proj1 (isLoseScore_spec s) L) as L'.
    assert (isWinScore (s - p1) = false) as -> by (apply isWinScore_false; lia).
    assert (isLoseScore (s - p1) = true) as -> by (apply isLoseScore_spec; lia). lia.
  - intros W L. rewrite W, L, W, L. reflexivity.
Qed.

(** The score read back has the same class (win / lose / neither) or has left the mate
    region, never crosses to the other sign; a non-mate score is never turned into a mate
    score. *)
Lemma getScore_class : forall s p1 p2,
  -MATE0 <= s <= MATE0 -> 0 <= p1 <= max_ply -> 0 <= p2 <= max_ply ->
  let r := ttGetScore (ttSetScore s p1) p2 in
  (isWinScore r = true -> isWinScore s = true /\ r = s + (p1 - p2)) /\
  (isLoseScore r = true -> isLoseScore s = true /\ r = s - (p1 - p2)).
Proof.
  intros s p1 p2 Hs H1 H2 r.
  destruct (score_ply_algebra s p1 p2 Hs H1 H2) as (_ & _ & HW & HL & HN).
  rewrite MATE0_val in Hs. rewrite max_ply_val in H1, H2.
  destruct (isWinScore s) eqn:W; [|destruct (isLoseScore s) eqn:L].
  - specialize (HW eq_refl). apply isWinScore_spec in W. split; intro R.
    + split; [reflexivity|exact HW].
    + exfalso. apply isLoseScore_spec in R. unfold r in R. lia.
  - specialize (HL eq_refl). apply isLoseScore_spec in L. split; intro R.
    + exfalso. apply isWinScore_spec in R. unfold r in R. lia.
    + split; [reflexivity|exact HL].
  - specialize (HN eq_refl eq_refl). unfold r. rewrite HN. split; intro R; congruence.
Qed.

(** "mate N" conversion *)
Theorem mate_of_score_of_mate : forall n, -7999 <= n <= 7999 ->
  mate_of_score (score_of_mate n) = Some n.
Proof.
  intros n Hn. unfold mate_of_score, score_of_mate.
  destruct (0 <? n) eqn:P.
  - assert (isWinScore (MATE0 - 2 * n) = true) as -> by (apply isWinScore_spec; rewrite MATE0_val; lia).
    f_equal. replace (MATE0 - (MATE0 - 2 * n)) with (n * 2) by lia.
    apply Z.quot_mul. lia.
  - assert (isWinScore (- (MATE0 + 2 * n - 1)) = false) as -> by (apply isWinScore_false; rewrite MATE0_val; lia).
    assert (isLoseScore (- (MATE0 + 2 * n - 1)) = true) as -> by (apply isLoseScore_spec; rewrite MATE0_val; lia).
    f_equal. replace (MATE0 + - (MATE0 + 2 * n - 1) - 1) with ((- n) * 2) by lia.
    rewrite Z.quot_mul by lia. lia.
Qed.

(** what a printed "mate n" says about the score: distances in plies *)
Lemma mate_of_score_win : forall s n, s <= MATE0 ->
  mate_of_score s = Some n -> isWinScore s = true ->
  0 <= n /\ 2 * n <= MATE0 - s <= 2 * n + 1.
Proof.
  intros s n Hs H W. unfold mate_of_score in H. rewrite W in H.
  assert (Hn : Z.quot (MATE0 - s) 2 = n) by congruence. clear H. subst n.
  rewrite MATE0_val in *.
  assert (0 <= 32000 - s) by lia.
  rewrite Z.quot_div_nonneg by lia. lia.
Qed.

Lemma mate_of_score_lose : forall s n, - MATE0 < s ->
  mate_of_score s = Some n -> isLoseScore s = true ->
  n <= 0 /\ 2 * (- n) <= MATE0 + s - 1 <= 2 * (- n) + 1.
Proof.
  intros s n Hs H L. unfold mate_of_score in H. rewrite (lose_not_win _ L), L in H.
  assert (Hn : - Z.quot (MATE0 + s - 1) 2 = n) by congruence. clear H. subst n.
  rewrite MATE0_val in *.
  assert (0 <= 32000 + s - 1) by lia.
  rewrite Z.quot_div_nonneg by lia. lia.
Qed.

Lemma mate_pos_is_win : forall s N, - MATE0 <= s ->
  mate_of_score s = Some N -> 0 < N -> isWinScore s = true.
Proof.
  intros s N Hs H HN. unfold mate_of_score in H.
  destruct (isWinScore s) eqn:W; [reflexivity|].
  destruct (isLoseScore s) eqn:L; [|discriminate].
  exfalso. assert (Hq : - Z.quot (MATE0 + s - 1) 2 = N) by congruence.
  rewrite MATE0_val in *.
  destruct (Z_le_gt_dec 0 (32000 + s - 1)).
  - assert (0 <= Z.quot (32000 + s - 1) 2) by (apply Z.quot_pos; lia). lia.
  - assert (E : s = -32000) by lia. subst s. vm_compute in Hq. lia.
Qed.

Lemma mate_neg_is_lose : forall s N, s <= MATE0 ->
  mate_of_score s = Some (- N) -> 0 < N -> isLoseScore s = true.
Proof.
  intros s N Hs H HN. unfold mate_of_score in H.
  destruct (isWinScore s) eqn:W.
  - exfalso. assert (Hq : Z.quot (MATE0 - s) 2 = - N) by congruence.
    rewrite MATE0_val in *.
    assert (0 <= Z.quot (32000 - s) 2) by (apply Z.quot_pos; lia). lia.
  - destruct (isLoseScore s); [reflexivity|discriminate].
Qed.

Lemma mate_of_score_none : forall s, mate_of_score s = None <-> (isWinScore s = false /\ isLoseScore s = false).
Proof.
  intro s. unfold mate_of_score. destruct (isWinScore s); [|destruct (isLoseScore s)]; split; intro H;
    try discriminate; try tauto; destruct H; discriminate.
Qed.

(** isCutOff, read as a disjunction *)
Lemma isCutOff_cases : forall eType eDepth score alpha beta depth,
  isCutOff eType eDepth score alpha beta depth = true ->
  (eType = T_EXACT) \/ (eType = T_GE /\ beta <= score) \/ (eType = T_LE /\ score <= alpha).
Proof.
  intros. unfold isCutOff in H. lia.
Qed.

(** non-vacuity of [score_ply_algebra] / [mate_of_score_of_mate]: a mate-in-5-plies score found at
    ply 5, stored, and read back at ply 3 *)
Example score_ply_algebra_example :
  ttSetScore 31989 5 = 31994 /\ ttGetScore 31994 3 = 31991 /\
  ttSetScore (-31990) 5 = 33541 /\ ttGetScore 33541 3 = -31992 /\
  ttGetScore (ttSetScore 123 5) 3 = 123 /\
  mate_of_score (score_of_mate 3) = Some 3 /\ score_of_mate 3 = 31994 /\ score_of_mate (-2) = -31995.
Proof. vm_compute. repeat split. Qed.
