(** C13 — proofs about the tablebase leaf arithmetic of Search/TBRules.v. *)
From Coq Require Import ZArith Bool Lia ZifyBool.
From Texel Require Import Search.Score Search.ScoreFacts Search.TBRules.
Local Open Scope Z_scope.

(** 50-move margin: a table mate (k plies, k >= 0, a mate score at this ply) is handed to the
    search as an exact score exactly when it can be delivered no later than the move that
    brings the half-move clock to 100 (worst case: no pawn move / capture on the way, and
    checkmate takes precedence over the draw claim); otherwise the probe yields score 0 with
    bound type "at least" for the winning and "at most" for the losing side, and the
    evaluation field records by how many plies the win is out of reach. *)
Theorem probe_margin : forall sign k ply hmc old,
  (sign = 1 \/ sign = -1) -> 0 <= k -> 0 <= ply <= max_ply -> 0 <= hmc <= 99 ->
  isWinScore (MATE0 - ply - k - 1) = true ->
  let dtm := dtm_score sign k ply in
  let '(ty, f, ev) := tbProbe_ondemand dtm ply hmc old in
  (k + hmc <= 100 -> ty = T_EXACT /\ ttGetScore f ply = dtm /\ ev = old) /\
  (100 < k + hmc ->
     ty = (if sign =? 1 then T_GE else T_LE) /\ ttGetScore f ply = 0 /\
     (old = 0 \/ k + hmc - 100 < Z.abs old -> ev = sign * (k + hmc - 100)) /\
     (old <> 0 -> Z.abs old <= k + hmc - 100 -> ev = old)) /\
  (ty = T_EXACT <-> k + hmc <= 100).
Proof.
  intros sign k ply hmc old Hs Hk Hp Hh W dtm.
  apply isWinScore_spec in W. rewrite max_ply_val in Hp.
  assert (Hm : MATE0 = 32000) by reflexivity.
  assert (Habs : Z.abs dtm = MATE0 - ply - k - 1).
  { unfold dtm, dtm_score. destruct Hs; subst sign; lia. }
  assert (Hnz : (dtm =? 0) = false).
  { unfold dtm, dtm_score. destruct Hs; subst sign; lia. }
  assert (Hsg : (0 <? dtm) = (sign =? 1)).
  { unfold dtm, dtm_score. destruct Hs; subst sign; lia. }
  unfold tbProbe_ondemand. rewrite Hnz. unfold rule50Margin. rewrite Hsg.
  rewrite Habs.
  replace (100 - hmc - (MATE0 - 1 - (MATE0 - ply - k - 1) - ply)) with (100 - hmc - k) by lia.
  destruct (0 <=? 100 - hmc - k) eqn:M.
  - assert (Hle : k + hmc <= 100) by lia.
    assert ((100 - hmc - k <? 0) = false) as -> by lia.
    split; [|split].
    + intros _. split; [reflexivity|]. split; [|reflexivity].
      assert (Hd : - MATE0 <= dtm <= MATE0) by (unfold dtm, dtm_score; destruct Hs; subst sign; lia).
      assert (Hp' : 0 <= ply <= max_ply) by (rewrite max_ply_val; lia).
      destruct (score_ply_algebra dtm ply ply Hd Hp' Hp') as (_ & _ & HW & HL & _).
      destruct Hs; subst sign.
      * rewrite HW; [lia|]. apply isWinScore_spec. unfold dtm, dtm_score. lia.
      * rewrite HL; [lia|]. apply isLoseScore_spec. unfold dtm, dtm_score. lia.
    + intros Hgt. lia.
    + split; [intros _; exact Hle|reflexivity].
  - assert (Hgt : 100 < k + hmc) by lia.
    assert ((100 - hmc - k <? 0) = true) as -> by lia.
    split; [|split].
    + intros Hle. lia.
    + intros _.
      assert (Hz : ttGetScore (ttSetScore 0 ply) ply = 0).
      { assert (Hp' : 0 <= ply <= max_ply) by (rewrite max_ply_val; lia).
        destruct (score_ply_algebra 0 ply ply ltac:(lia) Hp' Hp') as (_ & _ & _ & _ & HN).
        apply HN; reflexivity. }
      split; [|split; [exact Hz|]].
      * reflexivity.
      * unfold updateEvScore.
        assert (Hnew : (if sign =? 1 then - (100 - hmc - k) else 100 - hmc - k) = sign * (k + hmc - 100)).
        { destruct Hs; subst sign; [change (1 =? 1) with true|change (-1 =? 1) with false]; cbv iota; lia. }
        rewrite Hnew.
        assert (Hab : Z.abs (sign * (k + hmc - 100)) = k + hmc - 100) by (destruct Hs; subst sign; lia).
        rewrite Hab. split.
        -- intros [E|E].
           ++ subst old. reflexivity.
           ++ destruct (old =? 0); [reflexivity|]. simpl.
              assert ((k + hmc - 100 <? Z.abs old) = true) as -> by lia. reflexivity.
        -- intros Hne Hle.
           assert ((old =? 0) = false) as -> by lia. simpl.
           assert ((k + hmc - 100 <? Z.abs old) = false) as -> by lia. reflexivity.
    + split; [|intro; lia].
      destruct Hs; subst sign; [change (1 =? 1) with true|change (-1 =? 1) with false]; cbv iota; unfold T_GE, T_LE, T_EXACT; discriminate.
Qed.

(** swindle scores: plain draws compress into (-minFrustrated, minFrustrated), frustrated
    wins/losses into +-[minFrustrated, maxFrustrated] with the sign of the distance; hence a
    swindle score is never a mate score and never outranks one *)
Lemma shift_range : forall score, 4 <= score ->
  4 <= Z.shiftr score (Z.log2 score - 2) <= 7 /\ 2 <= Z.log2 score.
Proof.
  intros score Hs.
  assert (Hpos : 0 < score) by lia.
  destruct (Z.log2_spec score Hpos) as [Hlo Hhi].
  assert (Hlg : 2 <= Z.log2 score).
  { change 2 with (Z.log2 4). apply Z.log2_le_mono. exact Hs. }
  split; [|exact Hlg].
  rewrite Z.shiftr_div_pow2 by lia.
  set (l := Z.log2 score) in *.
  assert (Hp : 0 < 2 ^ (l - 2)) by (apply Z.pow_pos_nonneg; lia).
  assert (E1 : 2 ^ l = 4 * 2 ^ (l - 2)).
  { replace l with (2 + (l - 2)) at 1 by lia. rewrite Z.pow_add_r by lia. reflexivity. }
  assert (E2 : 2 ^ Z.succ l = 8 * 2 ^ (l - 2)).
  { replace (Z.succ l) with (3 + (l - 2)) by lia. rewrite Z.pow_add_r by lia. reflexivity. }
  split.
  - apply Z.div_le_lower_bound; lia.
  - assert (score / 2 ^ (l - 2) < 8); [|lia].
    apply Z.div_lt_upper_bound; lia.
Qed.

Theorem swindle_range : forall evalScore dist,
  let r := swindleScore evalScore dist in
  Z.abs r <= maxFrustrated /\
  (dist = 0 -> Z.abs r < minFrustrated /\ (0 <= evalScore -> 0 <= r) /\ (evalScore < 0 -> r <= 0)) /\
  (dist <> 0 -> minFrustrated <= Z.abs r /\ (0 < dist -> 0 < r) /\ (dist < 0 -> r < 0)) /\
  isWinScore r = false /\ isLoseScore r = false.
Proof.
  intros evalScore dist r.
  assert (HminF : minFrustrated = 35) by reflexivity.
  assert (HmaxF : maxFrustrated = 70) by reflexivity.
  assert (Hbound : Z.abs r <= maxFrustrated /\
                   (dist = 0 -> Z.abs r < minFrustrated /\ (0 <= evalScore -> 0 <= r) /\ (evalScore < 0 -> r <= 0)) /\
                   (dist <> 0 -> minFrustrated <= Z.abs r /\ (0 < dist -> 0 < r) /\ (dist < 0 -> r < 0))).
  { unfold r, swindleScore. destruct (dist =? 0) eqn:D.
    - assert (Hd : dist = 0) by lia.
      assert (H4 : 4 <= Z.abs evalScore + 4) by lia.
      destruct (shift_range _ H4) as [[Hlo Hhi] Hlg].
      set (sc := Z.abs evalScore + 4) in *.
      set (v := (Z.log2 sc - 3) * 4 + Z.shiftr sc (Z.log2 sc - 2)) in *.
      assert (Hv : 0 <= v) by (unfold v; lia).
      rewrite HminF, HmaxF.
      destruct (0 <=? evalScore) eqn:S.
      + repeat split; try lia.
      + repeat split; try lia.
    - assert (Hd : dist <> 0) by lia.
      rewrite HminF, HmaxF.
      destruct (0 <? dist) eqn:S.
      + repeat split; try lia.
      + repeat split; try lia. }
  destruct Hbound as (H1 & H2 & H3).
  split; [exact H1|]. split; [exact H2|]. split; [exact H3|].
  rewrite HmaxF in H1. split; [apply isWinScore_false|apply isLoseScore_false]; lia.
Qed.

(** ------------------------------------------------------------------------------------------
    The on-demand probe and the tablebase return site on a position the table knows. *)

(** a value the generator can produce: mates of at most 1000 plies (C12: at most 126) *)
Definition tbval_ok (v : tbval) : Prop := 0 <= tbval_plies v <= 1000 /\ (forall n, v = TWin n -> (1 <= n)%nat).

Lemma label_score_win : forall n ply, (1 <= n)%nat -> 2 * Z.of_nat n - 1 <= 1000 -> 0 <= ply <= max_ply ->
  label_score (TWin n) ply = MATE0 - ply - 2 * Z.of_nat n /\ isWinScore (label_score (TWin n) ply) = true.
Proof.
  intros n ply Hn Hk Hp. rewrite max_ply_val in Hp. unfold label_score, dtm_score.
  assert (Hm : MATE0 = 32000) by reflexivity. split; [lia|]. apply isWinScore_spec. lia.
Qed.

Lemma label_score_loss : forall n ply, 2 * Z.of_nat n <= 1000 -> 0 <= ply <= max_ply ->
  label_score (TLoss n) ply = - (MATE0 - ply - 2 * Z.of_nat n - 1) /\ isLoseScore (label_score (TLoss n) ply) = true.
Proof.
  intros n ply Hk Hp. rewrite max_ply_val in Hp. unfold label_score, dtm_score.
  assert (Hm : MATE0 = 32000) by reflexivity. split; [lia|]. apply isLoseScore_spec. lia.
Qed.

(** the probe of a known position: exact iff the mate fits before the 50-move limit; otherwise
    score 0 with bound type by the sign and a non-zero swindle distance *)
Lemma probe_of_cases : forall v ply hmc,
  tbval_ok v -> 0 <= ply <= max_ply ->
  match v with
  | TDraw => probe_of v ply hmc = (T_EXACT, 0, 0)
  | _ =>
    (tbval_plies v + hmc <= 100 -> probe_of v ply hmc = (T_EXACT, label_score v ply, 0)) /\
    (100 < tbval_plies v + hmc ->
       exists ev, ev <> 0 /\
         probe_of v ply hmc = ((match v with TWin _ => T_GE | _ => T_LE end), 0, ev) /\
         (match v with TWin _ => 0 < ev | _ => ev < 0 end))
  end.
Proof.
  intros v ply hmc [Hv Hw] Hp.
  assert (Hm : MATE0 = 32000) by reflexivity.
  assert (Hp' := Hp). rewrite max_ply_val in Hp'.
  assert (Hz : ttGetScore (ttSetScore 0 ply) ply = 0).
  { destruct (score_ply_algebra 0 ply ply ltac:(lia) Hp Hp) as (_ & _ & _ & _ & HN). apply HN; reflexivity. }
  destruct v as [n|n|].
  - unfold tbval_plies in Hv. specialize (Hw n eq_refl).
    destruct (label_score_win n ply Hw ltac:(lia) Hp) as [E W].
    assert (Hd : - MATE0 <= label_score (TWin n) ply <= MATE0) by lia.
    destruct (score_ply_algebra _ ply ply Hd Hp Hp) as (_ & _ & HW & _ & _).
    unfold probe_of, tbProbe_ondemand, rule50Margin.
    assert ((label_score (TWin n) ply =? 0) = false) as -> by lia.
    assert ((0 <? label_score (TWin n) ply) = true) as -> by lia.
    replace (100 - hmc - (MATE0 - 1 - Z.abs (label_score (TWin n) ply) - ply)) with (100 - hmc - (2 * Z.of_nat n - 1)) by lia.
    split.
    + intros Hfit. unfold tbval_plies in Hfit.
      assert ((0 <=? 100 - hmc - (2 * Z.of_nat n - 1)) = true) as -> by lia.
      assert ((100 - hmc - (2 * Z.of_nat n - 1) <? 0) = false) as -> by lia.
      rewrite (HW W). f_equal. f_equal. lia.
    + intros Hnf. unfold tbval_plies in Hnf.
      assert ((0 <=? 100 - hmc - (2 * Z.of_nat n - 1)) = false) as -> by lia.
      assert ((100 - hmc - (2 * Z.of_nat n - 1) <? 0) = true) as -> by lia.
      unfold updateEvScore. change (0 =? 0) with true. cbv [orb].
      exists (- (100 - hmc - (2 * Z.of_nat n - 1))). split; [lia|]. split; [|lia].
      rewrite Hz. reflexivity.
  - unfold tbval_plies in Hv.
    destruct (label_score_loss n ply ltac:(lia) Hp) as [E L].
    assert (Hd : - MATE0 <= label_score (TLoss n) ply <= MATE0) by lia.
    destruct (score_ply_algebra _ ply ply Hd Hp Hp) as (_ & _ & _ & HL & _).
    unfold probe_of, tbProbe_ondemand, rule50Margin.
    assert ((label_score (TLoss n) ply =? 0) = false) as -> by lia.
    assert ((0 <? label_score (TLoss n) ply) = false) as -> by lia.
    replace (100 - hmc - (MATE0 - 1 - Z.abs (label_score (TLoss n) ply) - ply)) with (100 - hmc - (2 * Z.of_nat n)) by lia.
    split.
    + intros Hfit. unfold tbval_plies in Hfit.
      assert ((0 <=? 100 - hmc - (2 * Z.of_nat n)) = true) as -> by lia.
      assert ((100 - hmc - (2 * Z.of_nat n) <? 0) = false) as -> by lia.
      rewrite (HL L). f_equal. f_equal. lia.
    + intros Hnf. unfold tbval_plies in Hnf.
      assert ((0 <=? 100 - hmc - (2 * Z.of_nat n)) = false) as -> by lia.
      assert ((100 - hmc - (2 * Z.of_nat n) <? 0) = true) as -> by lia.
      unfold updateEvScore. change (0 =? 0) with true. cbv [orb].
      exists (100 - hmc - (2 * Z.of_nat n)). split; [lia|]. split; [|lia].
      rewrite Hz. reflexivity.
  - unfold probe_of, tbProbe_ondemand. simpl label_score. change (0 =? 0) with true. cbv iota.
    rewrite Hz. reflexivity.
Qed.

Lemma swindle_nonmate : forall e d, isWinScore (swindleScore e d) = false /\ isLoseScore (swindleScore e d) = false.
Proof. intros e d. destruct (swindle_range e d) as (_ & _ & _ & H). exact H. Qed.

(** the site: a mate score leaves it only as the exact table value of a mate that fits before
    the 50-move limit; everything else it produces is a non-mate score; windows only narrow *)
Theorem tb_node_cases : forall v ply hmc a b depth evalScore,
  tbval_ok v -> 0 <= ply <= max_ply ->
  match tb_node v ply hmc a b depth evalScore with
  | SCut s ty =>
      (isWinScore s = false /\ isLoseScore s = false) \/
      (v <> TDraw /\ tbval_plies v + hmc <= 100 /\ s = label_score v ply /\ ty = T_EXACT)
  | SGo a' b' tbs tbt =>
      isWinScore tbs = false /\ isLoseScore tbs = false /\
      ((tbt = T_EMPTY /\ a' = a /\ b' = b) \/
       (tbt = T_GE /\ a' = tbs - 1 /\ b' = b /\ a < tbs /\ exists n, v = TWin n) \/
       (tbt = T_LE /\ a' = a /\ b' = tbs + 1 /\ tbs < b /\ exists n, v = TLoss n)) /\
      (v <> TDraw -> 100 < tbval_plies v + hmc)
  end.
Proof.
  intros v ply hmc a b depth evalScore Hv Hp.
  pose proof (probe_of_cases v ply hmc Hv Hp) as PC.
  assert (Hmf : maxFrustrated = 70) by reflexivity.
  assert (H0 : isWinScore 0 = false /\ isLoseScore 0 = false) by (split; reflexivity).
  unfold tb_node.
  destruct v as [n|n|].
  - destruct PC as [Pfit Pnf].
    destruct (Z_le_gt_dec (tbval_plies (TWin n) + hmc) 100) as [Hf|Hf].
    + rewrite (Pfit Hf).
      destruct Hv as [Hv Hw]. unfold tbval_plies in Hv. specialize (Hw n eq_refl).
      destruct (label_score_win n ply Hw ltac:(lia) Hp) as [E W].
      apply isWinScore_spec in W.
      unfold tb_site.
      assert ((label_score (TWin n) ply =? 0) = false) as -> by lia.
      cbv [andb negb]. change (T_EXACT =? T_EXACT) with true. cbv [orb andb].
      right. repeat split; try discriminate; try lia.
    + destruct (Pnf ltac:(lia)) as (ev & Hev & -> & Hpos).
      unfold tb_site. change (0 =? 0) with true. change (T_GE =? T_EXACT) with false.
      change (T_GE =? T_GE) with true. change (T_GE =? T_LE) with false. cbv [andb orb negb].
      destruct (swindle_nonmate 0 ev) as [SW SL].
      destruct (swindle_range 0 ev) as (_ & _ & Hfr & _). destruct (Hfr Hev) as (Hmin & Hp1 & _).
      specialize (Hp1 Hpos).
      destruct (depth <? drawSwindleReduction) eqn:D; cbv [andb orb negb].
      * destruct (b <=? swindleScore 0 ev) eqn:C.
        -- left. split; assumption.
        -- destruct (a <? swindleScore 0 ev) eqn:A.
           ++ split; [exact SW|]. split; [exact SL|]. split; [|intros _; lia].
              right. left. repeat split; try lia. exists n. reflexivity.
           ++ split; [reflexivity|]. split; [reflexivity|]. split; [|intros _; lia].
              left. repeat split.
      * destruct (a <? 0) eqn:A.
        -- split; [reflexivity|]. split; [reflexivity|]. split; [|intros _; lia].
           right. left. repeat split; try lia. exists n. reflexivity.
        -- split; [reflexivity|]. split; [reflexivity|]. split; [|intros _; lia].
           left. repeat split.
  - destruct PC as [Pfit Pnf].
    destruct (Z_le_gt_dec (tbval_plies (TLoss n) + hmc) 100) as [Hf|Hf].
    + rewrite (Pfit Hf).
      destruct Hv as [Hv Hw]. unfold tbval_plies in Hv.
      destruct (label_score_loss n ply ltac:(lia) Hp) as [E L].
      apply isLoseScore_spec in L.
      unfold tb_site.
      assert ((label_score (TLoss n) ply =? 0) = false) as -> by lia.
      cbv [andb negb]. change (T_EXACT =? T_EXACT) with true. cbv [orb andb].
      right. repeat split; try discriminate; try lia.
    + destruct (Pnf ltac:(lia)) as (ev & Hev & -> & Hneg).
      unfold tb_site. change (0 =? 0) with true. change (T_LE =? T_EXACT) with false.
      change (T_LE =? T_GE) with false. change (T_LE =? T_LE) with true. cbv [andb orb negb].
      destruct (swindle_nonmate 0 ev) as [SW SL].
      destruct (swindle_range 0 ev) as (_ & _ & Hfr & _). destruct (Hfr Hev) as (Hmin & _ & Hn1).
      specialize (Hn1 Hneg).
      destruct (depth <? drawSwindleReduction) eqn:D; cbv [andb orb negb].
      * destruct (swindleScore 0 ev <=? a) eqn:C.
        -- left. split; assumption.
        -- destruct (swindleScore 0 ev <? b) eqn:B.
           ++ split; [exact SW|]. split; [exact SL|]. split; [|intros _; lia].
              right. right. repeat split; try lia. exists n. reflexivity.
           ++ split; [reflexivity|]. split; [reflexivity|]. split; [|intros _; lia].
              left. repeat split.
      * destruct (0 <? b) eqn:B.
        -- split; [reflexivity|]. split; [reflexivity|]. split; [|intros _; lia].
           right. right. repeat split; try lia. exists n. reflexivity.
        -- split; [reflexivity|]. split; [reflexivity|]. split; [|intros _; lia].
           left. repeat split.
  - rewrite PC. unfold tb_site. change (0 =? 0) with true. change (T_EXACT =? T_EXACT) with true. cbv [andb].
    destruct (depth <? drawSwindleReduction).
    + left. apply swindle_nonmate.
    + destruct (maxFrustrated <=? a).
      * left. split; reflexivity.
      * destruct (b <=? - maxFrustrated).
        -- left. split; reflexivity.
        -- split; [reflexivity|]. split; [reflexivity|]. split; [|intros H; congruence].
           left. repeat split.
Qed.
