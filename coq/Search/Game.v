(** C04 — specification side: forced mate in an abstract finite-branching game.

    Independent of the engine's algorithms.  A game is a type of positions, the list of
    positions reachable by one legal move of the side to move ([moves]) and the predicate
    "the side to move is in check".  Chess is the instance in which [moves] is the FIDE legal
    move relation (C01's specification); the claimable draws (50-move rule, repetition) are
    deliberately NOT part of the game: "can force checkmate within N moves" is the pure
    game-theoretic distance (DESIGN.md C04, "Semantics fixed here").

      wins n p    the side to move in p can force checkmate within n plies (n counts both
                  sides' moves; it delivers mate with a move of its own, so the least such n
                  is odd)
      loses n p   the side to move in p is checkmated within n plies against every defence
                  (loses 0 p: it is checkmated now)

    [win_bound s ply p] / [lose_bound s ply p] say what a mate score [s] returned for the
    node p at distance [ply] from the root claims:
       s = MATE0 - ply - k - 1  for a mate in k plies from p. *)
From Coq Require Import ZArith List Bool Lia Arith.
From Texel Require Import Search.Score.
Import ListNotations.
Local Open Scope Z_scope.

Section Game.
  Variable pos : Type.
  Variable moves : pos -> list pos.
  Variable in_check : pos -> bool.

  Definition checkmated (p : pos) : Prop := in_check p = true /\ moves p = [].
  Definition stalemated (p : pos) : Prop := in_check p = false /\ moves p = [].

  Inductive wins : nat -> pos -> Prop :=
  | wins_move : forall n p c, In c (moves p) -> loses n c -> wins (S n) p
  with loses : nat -> pos -> Prop :=
  | loses_mated : forall n p, checkmated p -> loses n p
  | loses_all : forall n p, moves p <> [] -> (forall c, In c (moves p) -> wins n c) -> loses (S n) p.

  (** the usual "exact distance" reading, for the statements of the corollaries *)
  Definition mate_in (k : nat) (p : pos) : Prop := wins k p.
  Definition mated_in (k : nat) (p : pos) : Prop := loses k p.

  (** distances are natural numbers; scores and plies are Z *)
  Definition win_bound (s ply : Z) (p : pos) : Prop :=
    isWinScore s = true -> exists k : nat, mate_in k p /\ ply + Z.of_nat k + 1 <= MATE0 - s.
  Definition lose_bound (s ply : Z) (p : pos) : Prop :=
    isLoseScore s = true -> exists k : nat, mated_in k p /\ ply + Z.of_nat k + 1 <= MATE0 + s.

  (** what a node result (window (alpha,beta), returned score s) claims: a score above alpha
      is exact or a lower bound, a score below beta is exact or an upper bound *)
  Definition sound_result (p : pos) (ply alpha beta s : Z) : Prop :=
    (alpha < s -> win_bound s ply p) /\ (s < beta -> lose_bound s ply p).
End Game.

Arguments wins {pos} moves in_check n p.
Arguments loses {pos} moves in_check n p.
Arguments checkmated {pos} moves in_check p.
Arguments stalemated {pos} moves in_check p.
Arguments mate_in {pos} moves in_check k p.
Arguments mated_in {pos} moves in_check k p.
Arguments win_bound {pos} moves in_check s ply p.
Arguments lose_bound {pos} moves in_check s ply p.
Arguments sound_result {pos} moves in_check p ply alpha beta s.
