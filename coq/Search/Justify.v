(** C04 — the certificate checker [justify]: given the record hook H3 logged for one node
    (window, ply, returned score, return-site tag, TT entry used, ...), the oracle data of
    its position (really in check?  which legal moves, and which logged child is the final
    search of each) and the state built from the records accepted so far, decide whether a
    rule of Search/Rules.v justifies the returned score.

    Executable, extracted to OCaml (Extract/ExtractSearch.v, drivers/c04_driver.ml); the
    proof that acceptance implies a derivation is in Search/JustifySound.v. *)
From Coq Require Import ZArith List Bool FMapPositive.
From Texel Require Import Search.Score.
Import ListNotations.
Local Open Scope Z_scope.

Module PM := PositiveMap.

(** one logged node (N record of the trace) *)
Record nrec := mkN {
  r_key : positive;        (* historyHash of the position (negaScout nodes) *)
  r_fn : Z;                (* 0 = negaScout, 1 = quiesce *)
  r_ply : Z;
  r_depth : Z;
  r_a : Z;                 (* alpha as passed by the caller *)
  r_b : Z;                 (* beta as passed by the caller *)
  r_s : Z;                 (* returned score *)
  r_site : Z;              (* tag of the return statement *)
  r_ty : Z;                (* bound type handed to logAndReturn / tt.insert *)
  r_ic : bool;             (* the inCheck flag the function was called with *)
  r_ttty : Z;              (* TT entry the node worked with: type, *)
  r_ttf : Z;               (*   16-bit score field, *)
  r_ttd : Z;               (*   depth *)
  r_mg : Z;                (* razoring margin (site 9) *)
  r_q : option positive    (* node id of the quiescence search started by this node (sites 8, 9) *)
}.

(** oracle data of the node's position, computed outside the search (MoveGen on the logged
    position): is the side to move in check; for every legal move, the id of the logged node
    that is the FINAL search of that move from this node ([None]: not searched, or its final
    search returned no mate score / was not logged) *)
Record orec := mkO {
  o_ic : bool;
  o_moves : list (option positive)
}.

Definition accmap := PM.t nrec.             (* accepted nodes by id *)
Definition stmap := PM.t (list (Z * Z)).    (* per position key: (type, score field) facts *)

Definition stores (st : stmap) (k : positive) : list (Z * Z) :=
  match PM.find k st with Some l => l | None => [] end.

Definition isnil {A : Type} (l : list A) : bool := match l with [] => true | _ => false end.

Definition ply_okb (ply : Z) : bool := (0 <=? ply) && (ply <=? max_ply).
Definition score_okb (s : Z) : bool := (- MATE0 <=? s) && (s <=? MATE0).
Definition field_okb (f : Z) : bool := (0 <=? f) && (f <? 65536).

Definition type_okb (ty a b s : Z) : bool :=
  ((ty =? T_EXACT) && (a <? s) && (s <? b)) || ((ty =? T_GE) && (a <? s)) || ((ty =? T_LE) && (s <? b)).

(** the final search of a move supports a win claim of the parent: it returned s' below its
    beta and the parent's score is -s' *)
Definition child_win_ok (acc : accmap) (ply s : Z) (oc : option positive) : bool :=
  match oc with
  | Some cid =>
      match PM.find cid acc with
      | Some c => (r_ply c =? ply + 1) && (r_s c <? r_b c) && (s =? - r_s c)
      | None => false
      end
  | None => false
  end.

(** ... supports a lose claim: it returned s' above its alpha with -s' <= s *)
Definition child_all_ok (acc : accmap) (ply s : Z) (oc : option positive) : bool :=
  match oc with
  | Some cid =>
      match PM.find cid acc with
      | Some c => (r_ply c =? ply + 1) && (r_a c <? r_s c) && (- r_s c <=? s)
      | None => false
      end
  | None => false
  end.

Definition win_child_ok (acc : accmap) (ply s : Z) (o : orec) : bool :=
  existsb (child_win_ok acc ply s) (o_moves o).
Definition all_children_ok (acc : accmap) (ply s : Z) (o : orec) : bool :=
  forallb (child_all_ok acc ply s) (o_moves o).
Definition nil_ok (ply s : Z) (o : orec) : bool :=
  if isnil (o_moves o) then o_ic o && (mated_score ply <=? s) else true.
Definition lose_support_ok (acc : accmap) (ply s : Z) (o : orec) : bool :=
  nil_ok ply s o && all_children_ok acc ply s o.

(** the TT entry the node used is a recorded fact of the same position key, has an allowed
    type, and yields the returned score *)
Definition tt_ok (st : stmap) (n : nrec) (tys : Z -> bool) : bool :=
  existsb (fun e => (fst e =? r_ttty n) && (snd e =? r_ttf n)) (stores st (r_key n))
  && tys (r_ttty n) && field_okb (r_ttf n)
  && (r_s n =? ttGetScore (r_ttf n) (r_ply n)).

(** the quiescence search started by this node is accepted, ran on window (a,b) at the same
    ply and returned the same score *)
Definition qroot_ok (acc : accmap) (n : nrec) (a b : Z) : bool :=
  match r_q n with
  | Some q =>
      match PM.find q acc with
      | Some c => (r_ply c =? r_ply n) && (r_a c =? a) && (r_b c =? b) && (r_s c =? r_s n)
      | None => false
      end
  | None => false
  end.

Definition ty_any (ty : Z) : bool := true.
Definition ty_exact_le (ty : Z) : bool := (ty =? T_EXACT) || (ty =? T_LE).
Definition ty_exact_ge (ty : Z) : bool := (ty =? T_EXACT) || (ty =? T_GE).

(** sites of negaScout whose tt.insert stores (r_ty, setScore(score, ply)) *)
Definition storing_site (site : Z) : bool :=
  (site =? 8) || (site =? 9) || (site =? 10) || (site =? 13) || (site =? 16) || (site =? 18).

(** negaScout after mate-distance pruning; [b] is the clipped beta.  [tyok]: the bound type the
    node stores is consistent with its window (checked at every storing site; a checkmated
    node at site 18 stores T_LE whatever the window is, which is justified because the mated
    score is derivable for every window) *)
Definition check_body (acc : accmap) (st : stmap) (n : nrec) (o : orec) (b : Z) : bool :=
  let a := r_a n in let s := r_s n in let ply := r_ply n in let site := r_site n in
  let tyok := type_okb (r_ty n) a b s && score_okb s in
  if site =? 2 then o_ic o && isnil (o_moves o) && (s =? mated_score ply)
  else if (site =? 3) || (site =? 4) then s =? 0
  else if site =? 5 then tt_ok st n ty_any && isCutOff (r_ttty n) (r_ttd n) s a b (r_depth n)
  else if site =? 8 then tyok && qroot_ok acc n a b
  else if site =? 9 then tyok && negb (o_ic o) && (a <? b) && (0 <=? r_mg n)
                         && qroot_ok acc n (a - r_mg n) (b - r_mg n) && (s <=? a - r_mg n)
  else if site =? 10 then tyok && negb (o_ic o) && (b <=? s) && negb (isWinScore s)
  else if site =? 11 then negb (o_ic o) && negb (isWinScore b) && (b <=? s) && negb (isWinScore s)
  else if site =? 12 then tt_ok st n ty_exact_le && isLoseScore s && (r_ty n =? T_LE)
  else if site =? 13 then tyok && (b <=? s) && implb (isWinScore s) (win_child_ok acc ply s o)
  else if site =? 14 then negb (o_ic o) && isnil (o_moves o) && (s =? 0)
  else if site =? 16 then tyok && (a <? s) && (s <? b)
                          && implb (isWinScore s) (win_child_ok acc ply s o)
                          && implb (isLoseScore s) (negb (isnil (o_moves o)) && all_children_ok acc ply s o)
  else if site =? 17 then tt_ok st n ty_exact_ge && isWinScore s && (r_ty n =? T_GE)
  else if site =? 18 then (tyok && (s <=? a) && implb (isLoseScore s) (lose_support_ok acc ply s o))
                          || (o_ic o && isnil (o_moves o) && (s =? mated_score ply) && score_okb s
                              && ((r_ty n =? T_EXACT) || (r_ty n =? T_GE) || (r_ty n =? T_LE)))
  else false.

(** [justify]: is the node's returned score justified by a rule instance? *)
Definition check_node (acc : accmap) (st : stmap) (n : nrec) (o : orec) : bool :=
  let a := r_a n in let b := r_b n in let s := r_s n in let ply := r_ply n in let site := r_site n in
  if negb (isWinScore s) && negb (isLoseScore s) then true
  else if r_fn n =? 0 then
    ply_okb ply &&
    (if site =? 1 then (a <? b) && (mdp_beta b ply <=? a) && (s =? a)
     else (a <? mdp_beta b ply) && check_body acc st n o (mdp_beta b ply))
  else
    if site =? 20 then (b <=? s) && negb (isWinScore s) && r_ic n && (s =? mated_score ply)
    else if site =? 21 then (b <=? s) && implb (isWinScore s) (win_child_ok acc ply s o)
    else if site =? 22 then implb ((a <? s) && isWinScore s) (win_child_ok acc ply s o)
                            && implb ((s <? b) && isLoseScore s) (lose_support_ok acc ply s o)
    else false.

(** the table fact created by the node's tt.insert (mate scores only: other scores are
    never needed to justify a mate score) *)
Definition store_of (n : nrec) : option (Z * Z) :=
  let s := r_s n in
  if negb (isWinScore s) && negb (isLoseScore s) then None
  else if negb (r_fn n =? 0) then None
  else if storing_site (r_site n) then Some (r_ty n, ttSetScore s (r_ply n))
  else if r_site n =? 12 then Some (T_LE, r_ttf n)
  else if r_site n =? 17 then Some (T_GE, r_ttf n)
  else None.

Definition add_store (st : stmap) (k : positive) (e : Z * Z) : stmap :=
  PM.add k (e :: stores st k) st.

(** one step of the trace checker: [None] = no rule justifies the node (state unchanged) *)
Definition step (acc : accmap) (st : stmap) (id : positive) (n : nrec) (o : orec)
  : option (accmap * stmap) :=
  if check_node acc st n o then
    Some (PM.add id n acc,
          match store_of n with Some e => add_store st (r_key n) e | None => st end)
  else None.

(** root: the score reported for root move [cid] (searched with window (alpha,beta)) is a
    "mate N", N > 0, exact or lower bound *)
Definition check_root_win (acc : accmap) (cid : positive) (alpha beta score N : Z) : bool :=
  match PM.find cid acc with
  | Some c =>
      (r_ply c =? 1) && (r_a c =? - beta) && (r_b c =? - alpha) && (score =? - r_s c)
      && (alpha <? score) && score_okb score && (0 <? N)
      && match mate_of_score score with Some m => m =? N | None => false end
  | None => false
  end.

(** root: a completed iteration ends with "mate -N": every root move's final search is
    accepted and lies at or below the reported score *)
Definition check_root_loss (acc : accmap) (o : orec) (score N : Z) : bool :=
  negb (isnil (o_moves o)) && all_children_ok acc 0 score o && score_okb score && (0 <? N)
  && match mate_of_score score with Some m => m =? - N | None => false end.
