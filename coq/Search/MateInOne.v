(** C04 — "whenever a mate in one exists, the final score is mate 1 and a mating move is played".

    What is proved here ([mate_in_one_partial]): take any completed iteration, described by the
    final result of every root move (a justified node of the successor position at ply 1).
    IF the search of some mating move returned the mated score -(MATE0-2) (what the code
    returns at a checkmated node at ply 1 at the return sites 2, 18, 20, 22 — i.e. whenever the
    node is not cut short by a repetition-draw claim, a table hit or mate-distance pruning),
    THEN the best score of the iteration is exactly MATE0-2 = "mate 1", no root move can have
    been given a better exact/lower-bound score, and every root move that attains the best score
    with an exact/lower-bound result delivers checkmate.

    Not proved (kept as [mate_in_one_found_statement]): that the code always reaches one of
    those return sites for a mating root move and searches every root move; that is a
    completeness property of the control flow, outside the soundness-only rule system.  The
    finder of props/c04.py tests it on mate-in-one positions of all kinds at every depth. *)
From Coq Require Import ZArith List Bool Lia.
From Texel Require Import Search.Score Search.ScoreFacts Search.Game Search.GameFacts Search.Rules Search.RulesSound.
Import ListNotations.
Local Open Scope Z_scope.

Section MateInOne.
  Variable pos : Type.
  Variable moves : pos -> list pos.
  Variable in_check : pos -> bool.

  (** final result of one root move: successor position, the window it was searched with and
      the returned score *)
  Record rootres := mkRR { rr_pos : pos; rr_a : Z; rr_b : Z; rr_s : Z }.

  Definition iteration_ok (root : pos) (res : list rootres) : Prop :=
    forall r, In r res -> In (rr_pos r) (moves root) /\ Node moves in_check (rr_pos r) 1 (rr_a r) (rr_b r) (rr_s r).

  (** the root score of a move is minus the child's score; the iteration's best score *)
  Definition is_best (res : list rootres) (best : Z) : Prop :=
    (exists r, In r res /\ best = - rr_s r) /\ forall r, In r res -> - rr_s r <= best.

  Theorem mate_in_one_partial : forall root res best m,
    iteration_ok root res ->
    In m res -> checkmated moves in_check (rr_pos m) -> rr_s m = mated_score 1 ->
    is_best res best ->
    (* every root move whose score is the best one and is exact or a lower bound at the root,
       i.e. below the child's beta *)
    (forall r, In r res -> - rr_s r = best -> rr_s r < rr_b r ->
       best = MATE0 - 2 /\ mate_of_score best = Some 1 /\ checkmated moves in_check (rr_pos r)) /\
    MATE0 - 2 <= best.
  Proof.
    intros root res best m Hit Hm Hmate Hms [[r0 [Hr0 Hb0]] Hmax].
    assert (Hge : MATE0 - 2 <= best).
    { specialize (Hmax m Hm). rewrite Hms in Hmax. unfold mated_score in Hmax. lia. }
    split; [|exact Hge].
    intros r Hr Hbest Hlt.
    destruct (Hit r Hr) as [Hin Hn].
    destruct (rules_sound pos moves in_check _ _ _ _ _ Hn) as [_ HL].
    assert (L : isLoseScore (rr_s r) = true).
    { apply isLoseScore_spec. rewrite MATE0_val in Hge. lia. }
    destruct (HL Hlt L) as (k & Hk & Hb).
    assert (Hs : rr_s r = - (MATE0 - 2)) by lia.
    assert (k = 0%nat) by lia. subst k.
    split; [lia|]. split.
    - rewrite <- Hbest, Hs. vm_compute. reflexivity.
    - apply (loses_0 pos moves in_check). exact Hk.
  Qed.

  (** the full claim: the premise "the mating move's search returned the mated score" and
      "every root move has a result" are to be discharged from the code *)
  Definition mate_in_one_found_statement : Prop :=
    forall root res best,
      iteration_ok root res ->
      (forall c, In c (moves root) -> exists r, In r res /\ rr_pos r = c) ->
      (exists c, In c (moves root) /\ checkmated moves in_check c) ->
      is_best res best ->
      best = MATE0 - 2 /\
      forall r, In r res -> - rr_s r = best -> rr_s r < rr_b r -> checkmated moves in_check (rr_pos r).
End MateInOne.

(** non-vacuity on the example game of RulesExamples.v is in that file's style: *)
Definition mio_moves (p : nat) : list nat := match p with 0%nat => [1%nat; 2%nat] | 2%nat => [3%nat] | _ => [] end.
Definition mio_check (p : nat) : bool := match p with 1%nat => true | _ => false end.

Example mio_example :
  let m := mkRR nat 1%nat (- MATE0) MATE0 (mated_score 1) in
  let q := mkRR nat 2%nat (- (MATE0 - 1)) (- (MATE0 - 2)) 0 in
  iteration_ok nat mio_moves mio_check 0%nat [m; q] /\ is_best nat [m; q] (MATE0 - 2) /\
  checkmated mio_moves mio_check 1%nat.
Proof.
  simpl. split; [|split].
  - intros r [E|[E|[]]]; subst r; simpl.
    + split; [left; reflexivity|].
      apply N_negascout; [unfold ply_ok; rewrite max_ply_val; lia|vm_compute; reflexivity|].
      apply B_end_mated; [unfold ply_ok; rewrite max_ply_val; lia|split; reflexivity|reflexivity].
    + split; [right; left; reflexivity|]. apply N_nonmate; reflexivity.
  - split.
    + exists (mkRR nat 1%nat (- MATE0) MATE0 (mated_score 1)). split; [left; reflexivity|vm_compute; reflexivity].
    + intros r [E|[E|[]]]; subst r; vm_compute; discriminate.
  - split; reflexivity.
Qed.
