(** C07 — proofs about the accumulator stack: the invariant of DESIGN.md Appendix A2 holds
    along every op stream that is consistent with a board history, in any commutative group. *)
From Coq Require Import ZArith List Bool Lia FinFun.
From Texel Require Import NN.Feature NN.Accum NN.AccumSpec.
Import ListNotations.
Local Open Scope Z_scope.

(** ---- small facts about the fixed domains ---- *)
Lemma allSquares_valid s : In s allSquares <-> validSq s = true.
Proof.
  unfold allSquares, validSq. rewrite in_map_iff. split.
  - intros [n [<- Hn]]. apply in_seq in Hn. apply andb_true_iff. split; [apply Z.leb_le|apply Z.ltb_lt]; lia.
  - intros H. apply andb_true_iff in H as [H1 H2]. apply Z.leb_le in H1. apply Z.ltb_lt in H2.
    exists (Z.to_nat s). split; [lia|]. apply in_seq. lia.
Qed.

Lemma allSquares_NoDup : NoDup allSquares.
Proof.
  unfold allSquares. apply Injective_map_NoDup; [|apply seq_NoDup].
  intros a b H. lia.
Qed.

Lemma validSq_not_invalid s : validSq s = true -> s <> sq_invalid.
Proof.
  unfold validSq, sq_invalid. intros H. apply andb_true_iff in H as [H _]. apply Z.leb_le in H. lia.
Qed.

Lemma pairsEqb_eq l l' : pairsEqb l l' = true -> l = l'.
Proof.
  revert l'. induction l as [|[a b] r IH]; intros [|[a' b'] r']; simpl; try discriminate; [reflexivity|].
  intros H. apply andb_true_iff in H as [H1 H2]. unfold pairEqb in H1. simpl in H1.
  apply andb_true_iff in H1 as [Ha Hb]. apply Z.eqb_eq in Ha, Hb. subst. f_equal. apply IH. exact H2.
Qed.

Lemma pairsEqb_refl l : pairsEqb l l = true.
Proof.
  induction l as [|[a b] r IH]; simpl; [reflexivity|]. unfold pairEqb. simpl.
  rewrite !Z.eqb_refl. exact IH.
Qed.

Lemma boardEqb_spec b b' : boardEqb b b' = true -> forall s, validSq s = true -> b s = b' s.
Proof.
  unfold boardEqb. intros H s Hs. rewrite forallb_forall in H.
  apply Z.eqb_eq. apply H. apply allSquares_valid. exact Hs.
Qed.

Lemma nonKingList_ext b b' : (forall s, validSq s = true -> b s = b' s) -> nonKingList b = nonKingList b'.
Proof.
  intros H. unfold nonKingList. f_equal. apply map_ext_in. intros s Hs.
  rewrite (H s); [reflexivity|]. apply allSquares_valid. exact Hs.
Qed.

Section Proofs.
  Variable V : Type.
  Variable vadd : V -> V -> V.
  Variable vneg : V -> V.
  Variable vzero : V.
  Variable w : Z -> V.
  Variable bias : V.
  Hypothesis vadd_assoc : forall a b c, vadd a (vadd b c) = vadd (vadd a b) c.
  Hypothesis vadd_comm : forall a b, vadd a b = vadd b a.
  Hypothesis vadd_0_r : forall a, vadd a vzero = a.
  Hypothesis vadd_neg_r : forall a, vadd a (vneg a) = vzero.

  Notation fls := (fls V).
  Notation level := (level V).
  Notation nnstate := (nnstate V).
  Notation addSubWeights := (addSubWeights V vadd vneg w).
  Notation vsum := (vsum V vadd vzero).
  Notation featW := (featW V w).
  Notation freshAcc := (freshAcc V vadd vzero w bias).
  Notation setPieceC := (setPieceC V).
  Notation setPiece := (setPiece V).
  Notation computeL1WB := (computeL1WB V vadd vneg w bias).
  Notation pushState := (pushState V vadd vneg w bias).
  Notation mstep := (mstep V vadd vneg w bias).
  Notation mrun := (mrun V vadd vneg w bias).

  (** ---- abelian-group toolkit ---- *)
  Lemma vadd_0_l a : vadd vzero a = a.
  Proof. rewrite vadd_comm. apply vadd_0_r. Qed.

  Lemma vadd_cancel_l a b c : vadd a b = vadd a c -> b = c.
  Proof.
    intros H. assert (E : vadd (vneg a) (vadd a b) = vadd (vneg a) (vadd a c)) by (rewrite H; reflexivity).
    rewrite !vadd_assoc, (vadd_comm (vneg a) a), vadd_neg_r, !vadd_0_l in E. exact E.
  Qed.

  Lemma vneg_0 : vneg vzero = vzero.
  Proof. apply (vadd_cancel_l vzero). rewrite vadd_neg_r, vadd_0_r. reflexivity. Qed.

  Lemma vneg_add a b : vneg (vadd a b) = vadd (vneg a) (vneg b).
  Proof.
    apply (vadd_cancel_l (vadd a b)). rewrite vadd_neg_r.
    rewrite (vadd_comm (vneg a) (vneg b)), vadd_assoc, <- (vadd_assoc a b (vneg b)), vadd_neg_r, vadd_0_r, vadd_neg_r.
    reflexivity.
  Qed.

  Lemma vsum_app l l' : vsum (l ++ l') = vadd (vsum l) (vsum l').
  Proof.
    induction l as [|a r IH]; simpl; [rewrite vadd_0_l; reflexivity|].
    rewrite IH. apply vadd_assoc.
  Qed.

  Lemma fold_add (f : Z -> V) l a :
    fold_left (fun acc i => vadd acc (f i)) l a = vadd a (vsum (map f l)).
  Proof.
    revert a. induction l as [|i r IH]; intros a; simpl; [rewrite vadd_0_r; reflexivity|].
    rewrite IH. rewrite <- vadd_assoc. reflexivity.
  Qed.

  Lemma vsum_map_neg (f : Z -> V) l : vsum (map (fun i => vneg (f i)) l) = vneg (vsum (map f l)).
  Proof.
    induction l as [|i r IH]; simpl; [rewrite vneg_0; reflexivity|].
    rewrite IH, vneg_add. reflexivity.
  Qed.

  (** addSubWeights = a + sum of added rows - sum of subtracted rows *)
  Lemma addSub_spec a adds subs :
    addSubWeights a adds subs = vadd (vadd a (vsum (map w adds))) (vneg (vsum (map w subs))).
  Proof.
    unfold Accum.addSubWeights.
    rewrite (fold_add (fun i => vneg (w i))), (fold_add w), vsum_map_neg. reflexivity.
  Qed.

  Lemma addSub_nil a : addSubWeights a [] [] = a.
  Proof. reflexivity. Qed.

  Lemma addSub_snoc_add a adds subs i :
    addSubWeights a (adds ++ [i]) subs = vadd (addSubWeights a adds subs) (w i).
  Proof.
    rewrite !addSub_spec, map_app, vsum_app. simpl. rewrite vadd_0_r.
    set (A := vsum (map w adds)). set (S := vneg (vsum (map w subs))).
    rewrite (vadd_assoc a A (w i)).
    rewrite <- (vadd_assoc (vadd a A) (w i) S), (vadd_comm (w i) S), vadd_assoc. reflexivity.
  Qed.

  Lemma addSub_snoc_sub a adds subs i :
    addSubWeights a adds (subs ++ [i]) = vadd (addSubWeights a adds subs) (vneg (w i)).
  Proof.
    rewrite !addSub_spec, map_app, vsum_app. simpl. rewrite vadd_0_r, vneg_add.
    rewrite vadd_assoc. reflexivity.
  Qed.

  (** ---- the fresh accumulator as a sum over all 64 squares ---- *)
  Definition termP (white : bool) (k p sq : Z) : V :=
    if isNonKing p then featW white k (p, sq) else vzero.

  Lemma fresh_terms_gen white k (b : board) l :
    vsum (map (featW white k) (filter (fun ps => isNonKing (fst ps)) (map (fun s => (b s, s)) l)))
    = vsum (map (fun s => termP white k (b s) s) l).
  Proof.
    induction l as [|s r IH]; simpl; [reflexivity|].
    unfold termP at 1. destruct (isNonKing (b s)); simpl; rewrite IH; [reflexivity|].
    rewrite vadd_0_l. reflexivity.
  Qed.

  Lemma freshAcc_terms white k b :
    freshAcc white k b = vadd bias (vsum (map (fun s => termP white k (b s) s) allSquares)).
  Proof. unfold AccumSpec.freshAcc, nonKingList. rewrite fresh_terms_gen. reflexivity. Qed.

  Lemma upd_sum_notin white k b sq p l :
    ~ In sq l ->
    vsum (map (fun s => termP white k (updBoard b sq p s) s) l) = vsum (map (fun s => termP white k (b s) s) l).
  Proof.
    intros H. f_equal. apply map_ext_in. intros s Hs. unfold updBoard.
    destruct (Z.eqb_spec s sq) as [->|]; [contradiction|reflexivity].
  Qed.

  Lemma upd_sum_in white k b sq p l :
    NoDup l -> In sq l ->
    vsum (map (fun s => termP white k (updBoard b sq p s) s) l)
    = vadd (vsum (map (fun s => termP white k (b s) s) l))
           (vadd (termP white k p sq) (vneg (termP white k (b sq) sq))).
  Proof.
    induction l as [|s r IH]; intros Hnd Hin; [destruct Hin|].
    inversion Hnd as [|? ? Hnotin Hnd']; subst. simpl.
    destruct Hin as [->|Hin].
    - rewrite (upd_sum_notin white k b sq p r Hnotin). unfold updBoard at 1. rewrite Z.eqb_refl.
      set (S := vsum (map (fun s => termP white k (b s) s) r)).
      set (N := termP white k p sq). set (O := termP white k (b sq) sq).
      (* N + S = (O + S) + (N + -O) *)
      rewrite (vadd_comm O S), <- (vadd_assoc S O (vadd N (vneg O))).
      rewrite (vadd_comm N (vneg O)), (vadd_assoc O (vneg O) N), vadd_neg_r, vadd_0_l.
      apply vadd_comm.
    - rewrite (IH Hnd' Hin). unfold updBoard at 1.
      destruct (Z.eqb_spec s sq) as [->|_]; [contradiction|].
      rewrite vadd_assoc. reflexivity.
  Qed.

  (** effect of one square edit on the fresh accumulator *)
  Lemma freshAcc_upd white k b sq p :
    validSq sq = true ->
    freshAcc white k (updBoard b sq p)
    = vadd (freshAcc white k b) (vadd (termP white k p sq) (vneg (termP white k (b sq) sq))).
  Proof.
    intros Hsq. rewrite !freshAcc_terms.
    rewrite (upd_sum_in white k b sq p allSquares allSquares_NoDup); [|apply allSquares_valid; exact Hsq].
    apply vadd_assoc.
  Qed.

  Lemma freshAcc_ext white k b b' :
    (forall s, validSq s = true -> b s = b' s) -> freshAcc white k b = freshAcc white k b'.
  Proof. intros H. unfold AccumSpec.freshAcc. rewrite (nonKingList_ext b b' H). reflexivity. Qed.

  (** ---- the invariant (Appendix A2) ---- *)
  Definition accVal (s : fls) : V := addSubWeights (l1Out s) (toAdd s) (toSub s).

  Definition SInv (white : bool) (s : fls) (b : board) : Prop :=
    ksq s <> sq_invalid -> accVal s = freshAcc white (ksq s) b.

  Definition LInv (l : level) (b : board) : Prop := SInv true (fst l) b /\ SInv false (snd l) b.

  Definition Inv (st : nnstate) (g : ghost) : Prop :=
    LInv (cur st) (gcur g) /\ Forall2 LInv (below st) (gstack g).

  Lemma SInv_ext white s b b' : (forall q, validSq q = true -> b q = b' q) -> SInv white s b -> SInv white s b'.
  Proof. intros H HI Hk. rewrite <- (freshAcc_ext white (ksq s) b b' H). apply HI. exact Hk. Qed.

  Lemma SInv_clear white s b : SInv white (clearFls s) b.
  Proof. intros H. simpl in H. contradiction. Qed.

  (** setPiece keeps the invariant for the edited board *)
  Lemma setPieceC_inv white sq o n s b :
    validSq sq = true -> b sq = o -> SInv white s b ->
    SInv white (setPieceC white sq o n s) (updBoard b sq n).
  Proof.
    intros Hsq Ho HI. unfold Accum.setPieceC.
    destruct (Z.eqb_spec (ksq s) sq_invalid) as [Hk|Hk].
    - intros H. contradiction.
    - specialize (HI Hk). unfold accVal in HI.
      assert (Hupd := freshAcc_upd white (ksq s) b sq n Hsq). rewrite Ho in Hupd.
      unfold termP, AccumSpec.featW in Hupd. simpl in Hupd.
      destruct (isNonKing o) eqn:Eo.
      + destruct (Z.of_nat (length (toSub s)) <? maxIncr).
        * destruct (isNonKing n) eqn:En; simpl.
          -- destruct (Z.of_nat (length (toAdd s)) <? maxIncr).
             ++ intros _. unfold accVal. simpl. rewrite addSub_snoc_add, addSub_snoc_sub, HI, Hupd.
                rewrite <- !vadd_assoc. f_equal. apply vadd_comm.
             ++ intros H. simpl in H. contradiction.
          -- intros _. unfold accVal. simpl. rewrite addSub_snoc_sub, HI, Hupd, vadd_0_l. reflexivity.
        * intros H. simpl in H. contradiction.
      + destruct (isNonKing n) eqn:En; simpl.
        * destruct (Z.of_nat (length (toAdd s)) <? maxIncr).
          -- intros _. unfold accVal. simpl. rewrite addSub_snoc_add, HI, Hupd, vneg_0, vadd_0_r. reflexivity.
          -- intros H. simpl in H. contradiction.
        * intros _. unfold accVal. rewrite HI, Hupd, vneg_0, vadd_0_r, vadd_0_r. reflexivity.
  Qed.

  (** computeL1WB: succeeds and leaves both perspectives equal to the fresh accumulators *)
  Definition computed (st st' : nnstate) (kw kb : Z) (b : board) : Prop :=
    below st' = below st /\
    fst (cur st') = mkFls (freshAcc true kw b) [] [] kw /\
    snd (cur st') = mkFls (freshAcc false kb b) [] [] kb.

  Lemma fullC_val white k b s :
    toAdd s = [] -> toSub s = [] ->
    fullC V vadd vneg w bias white k (nonKingList b) s = mkFls (freshAcc white k b) [] [] k.
  Proof.
    intros HA HS. unfold fullC. rewrite HA, HS. f_equal.
    rewrite addSub_spec. simpl. rewrite vneg_0, vadd_0_r, map_map. reflexivity.
  Qed.

  Lemma incrC_spec white k s b :
    SInv white s b -> k <> sq_invalid ->
    let '(f, s') := incrC V vadd vneg w k s in
    toAdd s' = [] /\ toSub s' = [] /\
    (f = false -> s' = mkFls (freshAcc white k b) [] [] k).
  Proof.
    intros HI Hk. unfold incrC. simpl. split; [reflexivity|]. split; [reflexivity|].
    intros Hf. rewrite Hf. apply negb_false_iff in Hf. apply Z.eqb_eq in Hf.
    assert (E : ksq s <> sq_invalid) by (rewrite Hf; exact Hk).
    specialize (HI E). unfold accVal in HI. rewrite HI, Hf. reflexivity.
  Qed.

  Lemma computeL1WB_spec st b kw kb pieces :
    LInv (cur st) b -> posInputsOk b kw kb pieces = true ->
    exists st', computeL1WB kw kb pieces st = Some st' /\ computed st st' kw kb b.
  Proof.
    intros [HW HB] Hok. unfold posInputsOk in Hok.
    apply andb_true_iff in Hok as [Hok Hcap]. apply andb_true_iff in Hok as [Hok Hps].
    apply andb_true_iff in Hok as [Hkw Hkb]. apply pairsEqb_eq in Hps. subst pieces.
    apply Z.leb_le in Hcap.
    pose proof (incrC_spec true kw (fst (cur st)) b HW (validSq_not_invalid _ Hkw)) as IW.
    pose proof (incrC_spec false kb (snd (cur st)) b HB (validSq_not_invalid _ Hkb)) as IB.
    unfold Accum.computeL1WB.
    destruct (incrC V vadd vneg w kw (fst (cur st))) as [fw sw].
    destruct (incrC V vadd vneg w kb (snd (cur st))) as [fb sb].
    destruct IW as [IW1 [IW2 IW3]]. destruct IB as [IB1 [IB2 IB3]].
    assert (Hc : (addCap <? Z.of_nat (length (nonKingList b))) = false) by (apply Z.ltb_ge; exact Hcap).
    destruct fw, fb; simpl; rewrite ?Hc; eexists; (split; [reflexivity|]); unfold computed; simpl;
      (split; [reflexivity|]); split;
      try (apply fullC_val; assumption); try (apply IW3; reflexivity); try (apply IB3; reflexivity).
  Qed.

  Lemma computed_LInv st st' kw kb b : computed st st' kw kb b -> LInv (cur st') b.
  Proof.
    intros [_ [HW HB]]. split; intros _; unfold accVal; [rewrite HW|rewrite HB]; reflexivity.
  Qed.

  (** one step *)
  Lemma Forall2_length_Z (l : list level) (gs : list board) :
    Forall2 LInv l gs -> Z.of_nat (length l) = Z.of_nat (length gs).
  Proof. intros H. f_equal. induction H; simpl; [reflexivity|f_equal; assumption]. Qed.

  Lemma flush_spec st b kw kb pieces white :
    LInv (cur st) b -> posInputsOk b kw kb pieces = true ->
    exists st', (if 0 <? pending (getLin white (cur st)) then computeL1WB kw kb pieces st else Some st) = Some st'
                /\ LInv (cur st') b /\ below st' = below st.
  Proof.
    intros HL Hok. destruct (0 <? pending (getLin white (cur st))).
    - destruct (computeL1WB_spec st b kw kb pieces HL Hok) as [st' [E C]].
      exists st'. split; [exact E|]. split; [eapply computed_LInv; exact C|apply C].
    - exists st. auto.
  Qed.

  Lemma step_inv st g o g' :
    Inv st g -> gstep g o = Some g' -> exists st', mstep st o = Some st' /\ Inv st' g'.
  Proof.
    intros [HC HB] Hg. destruct o as [kw kb ps|b'|sq o n|c b'|kw kb ps]; simpl in Hg |- *.
    - (* push *)
      destruct (posInputsOk (gcur g) kw kb ps) eqn:Hok; [|discriminate].
      destruct (Z.of_nat (length (gstack g)) + 1 <? maxStackSize) eqn:Hd; [|discriminate].
      inversion Hg; subst g'; clear Hg. unfold Accum.pushState. cbv zeta beta.
      destruct (flush_spec st (gcur g) kw kb ps true HC Hok) as [s1 [E1 [L1 B1]]]. rewrite E1.
      destruct (flush_spec s1 (gcur g) kw kb ps false L1 Hok) as [s2 [E2 [L2 B2]]]. rewrite E2.
      cbv beta iota. unfold Accum.stackTop. rewrite B2, B1, (Forall2_length_Z _ _ HB), Hd.
      eexists. split; [reflexivity|]. split; simpl; [exact L2|].
      constructor; [exact L2|exact HB].
    - (* pop *)
      eexists. split; [reflexivity|]. unfold Accum.popState.
      destruct HB as [|l b ls bs Hl Hls].
      + inversion Hg; subst g'. split; simpl; [|constructor].
        split; simpl; apply SInv_clear.
      + destruct (boardEqb b' b) eqn:Eb; [|discriminate]. inversion Hg; subst g'. split; simpl; [|exact Hls].
        pose proof (boardEqb_spec _ _ Eb) as Hext.
        destruct Hl as [H1 H2]. split; eapply SInv_ext; try eassumption;
          intros q Hq; symmetry; apply Hext; exact Hq.
    - (* setPiece *)
      destruct (validSq sq) eqn:Hsq; [|discriminate].
      destruct (Z.eqb_spec (gcur g sq) o) as [Ho|]; [|discriminate].
      destruct (validPiece n); [|discriminate]. simpl in Hg. inversion Hg; subst g'; clear Hg.
      eexists. split; [reflexivity|]. destruct HC as [H1 H2].
      split; simpl; [|exact HB]. split; simpl; apply setPieceC_inv; assumption.
    - (* forceFullEval *)
      inversion Hg; subst g'; clear Hg. eexists. split; [reflexivity|].
      unfold Accum.forceFullEval. destruct c; simpl.
      + split; [split; apply SInv_clear|constructor].
      + split; [split; apply SInv_clear|exact HB].
    - (* computeL1WB *)
      destruct (posInputsOk (gcur g) kw kb ps) eqn:Hok; [|discriminate].
      inversion Hg; subst g'; clear Hg.
      destruct (computeL1WB_spec st (gcur g) kw kb ps HC Hok) as [st' [E C]].
      exists st'. split; [exact E|]. split; [eapply computed_LInv; exact C|].
      destruct C as [C _]. rewrite C. exact HB.
  Qed.

  Lemma run_inv ops : forall st g g',
    Inv st g -> grun g ops = Some g' -> exists st', mrun st ops = Some st' /\ Inv st' g'.
  Proof.
    induction ops as [|o r IH]; intros st g g' HI Hg; simpl in *.
    - inversion Hg; subst. exists st. auto.
    - destruct (gstep g o) as [g1|] eqn:E; [|discriminate].
      destruct (step_inv st g o g1 HI E) as [st1 [E1 I1]]. rewrite E1. eapply IH; eassumption.
  Qed.

  Lemma init_inv gbg b : Inv (initState gbg) (ginit b).
  Proof. split; simpl; [split; intros H; simpl in H; contradiction|constructor]. Qed.

  (** Main theorem: along every op stream consistent with a board history (which includes: stack
      depth below maxStackSize), the model never errs, and whenever computeL1WB is then run
      with the inputs of the tracked board, both perspectives' accumulators are exactly the
      from-scratch values: independent of the history. *)
  Theorem incremental_eq_fresh : forall b0 gbg ops g,
    grun (ginit b0) ops = Some g ->
    exists st, mrun (initState gbg) ops = Some st /\
      forall kw kb pieces, posInputsOk (gcur g) kw kb pieces = true ->
        exists st', computeL1WB kw kb pieces st = Some st' /\
          l1Out (fst (cur st')) = freshAcc true kw (gcur g) /\
          l1Out (snd (cur st')) = freshAcc false kb (gcur g) /\
          ksq (fst (cur st')) = kw /\ ksq (snd (cur st')) = kb.
  Proof.
    intros b0 gbg ops g Hg.
    destruct (run_inv ops _ _ _ (init_inv gbg b0) Hg) as [st [E [HC HB]]].
    exists st. split; [exact E|]. intros kw kb ps Hok.
    destruct (computeL1WB_spec st (gcur g) kw kb ps HC Hok) as [st' [E' [_ [CW CB]]]].
    exists st'. split; [exact E'|]. rewrite CW, CB. simpl. auto.
  Qed.

  (** the same, read off a stream whose last op is the computeL1WB of an eval() call *)
  Corollary eval_eq_fresh : forall b0 gbg ops kw kb pieces g,
    grun (ginit b0) (ops ++ [OCompute kw kb pieces]) = Some g ->
    exists st, mrun (initState gbg) (ops ++ [OCompute kw kb pieces]) = Some st /\
      l1Out (fst (cur st)) = freshAcc true kw (gcur g) /\
      l1Out (snd (cur st)) = freshAcc false kb (gcur g).
  Proof.
    intros b0 gbg ops kw kb ps g Hg.
    destruct (run_inv _ _ _ _ (init_inv gbg b0) Hg) as [st [E [HC HB]]].
    exists st. split; [exact E|].
    (* split the runs at the last op *)
    assert (Hsplit : forall (l : list op) o s, mrun s (l ++ [o]) =
                       match mrun s l with None => None | Some s1 => mstep s1 o end).
    { induction l as [|a r IH]; intros o s; simpl; [destruct (mstep s o); reflexivity|].
      destruct (mstep s a); [apply IH|reflexivity]. }
    assert (Gsplit : forall (l : list op) o s, grun s (l ++ [o]) =
                       match grun s l with None => None | Some s1 => gstep s1 o end).
    { induction l as [|a r IH]; intros o s; simpl; [destruct (gstep s o); reflexivity|].
      destruct (gstep s a); [apply IH|reflexivity]. }
    rewrite Hsplit in E. rewrite Gsplit in Hg.
    destruct (grun (ginit b0) ops) as [g1|] eqn:G1; [|discriminate].
    destruct (run_inv _ _ _ _ (init_inv gbg b0) G1) as [s1 [E1 [HC1 _]]].
    rewrite E1 in E. simpl in E, Hg.
    destruct (posInputsOk (gcur g1) kw kb ps) eqn:Hok; [|discriminate].
    inversion Hg; subst g.
    destruct (computeL1WB_spec s1 (gcur g1) kw kb ps HC1 Hok) as [st' [E' [_ [CW CB]]]].
    rewrite E' in E. inversion E; subst st'. rewrite CW, CB. simpl. auto.
  Qed.

  (** a freshly constructed evaluator computes [freshAcc] (the comparison value of the harness) *)
  Corollary fresh_evaluator : forall gbg b kw kb pieces,
    posInputsOk b kw kb pieces = true ->
    exists st', computeL1WB kw kb pieces (initState gbg) = Some st' /\
      l1Out (fst (cur st')) = freshAcc true kw b /\ l1Out (snd (cur st')) = freshAcc false kb b.
  Proof.
    intros gbg b kw kb ps Hok.
    destruct (incremental_eq_fresh b gbg [] (ginit b) eq_refl) as [st [E H]].
    inversion E; subst st. destruct (H kw kb ps Hok) as [st' [E' [A [B _]]]].
    exists st'. auto.
  Qed.
End Proofs.
