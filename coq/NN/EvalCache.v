(** C07 — the evaluation cache of Evaluate::evalPos (lib/texellib/evaluate.{hpp,cpp}) as an
    executable model.  No proofs in this file.

      U64 key = posP->historyHash();              [ key ^= MUL * (U64)whiteContempt;  if present ]
      ehd = &evalHash[(int)key & (size-1)];
      if ((ehd->data ^ key) < (1 << 16)) return (ehd->data & 0xffff) - (1 << 15);
      score = ... computed from the position and whiteContempt ...
      ehd->data = (key & 0xffffffffffff0000ULL) + (score + (1 << 15));

    All layout constants and MUL ([evalKeyContemptMul], 0 when the statement is absent) are
    regenerated from the source text (gen/NNGen.v).  The table lives in EvalHashTables, which the
    engine creates once and hands to every Search/Evaluate object: it outlives
    Evaluate::setWhiteContempt, which only assigns the field. *)
From Coq Require Import ZArith List Bool.
From Texel Require Import NN.Feature.
Import ListNotations.
Local Open Scope Z_scope.

Definition M64 : Z := 2 ^ 64.

Definition table := Z -> Z.                      (* entry index -> data word *)
Definition emptyTable : table := fun _ => evalHashEmpty.
Definition tset (t : table) (i v : Z) : table := fun j => if j =? i then v else t j.

(** the key under which a position with history hash [hk] is cached at contempt [c] *)
Definition cacheKeyM (mul hk c : Z) : Z := Z.lxor hk ((mul * c) mod M64).
Definition cacheKey : Z -> Z -> Z := cacheKeyM evalKeyContemptMul.

Definition entryIdx (key : Z) : Z := Z.land key (evalHashSize - 1).

Definition probe (t : table) (key : Z) : option Z :=
  let d := t (entryIdx key) in
  if Z.lxor d key <? evalHitBelow then Some (Z.land d evalScoreMask - evalScoreBias) else None.

Definition packEntry (key score : Z) : Z := (Z.land key evalKeyMask + (score + evalScoreBias)) mod M64.

Definition store (t : table) (key score : Z) : table := tset t (entryIdx key) (packEntry key score).

(** evalPos with the un-cached computation abstracted to its result [fresh] *)
Definition evalPosM (mul : Z) (t : table) (hk c fresh : Z) : Z * table :=
  let key := cacheKeyM mul hk c in
  match probe t key with
  | Some v => (v, t)
  | None => (fresh, store t key fresh)
  end.

(** ---- histories: contempt changes and evaluations of abstract cache-relevant inputs ---- *)
Section Hist.
  Variable inp : Type.
  Variable hkey : inp -> Z.            (* Position::historyHash of the input *)
  Variable score : inp -> Z -> Z.      (* what evalPos computes without a cache, at a contempt *)

  Inductive cop := CSet (c : Z) | CEval (i : inp).

  (** model run: the values evalPos returns *)
  Fixpoint crun (mul : Z) (t : table) (c : Z) (ops : list cop) : list Z :=
    match ops with
    | [] => []
    | CSet c' :: r => crun mul t c' r
    | CEval i :: r => let '(v, t') := evalPosM mul t (hkey i) c (score i c) in v :: crun mul t' c r
    end.

  (** specification: every evaluation returns the un-cached value at the contempt in force *)
  Fixpoint cspec (c : Z) (ops : list cop) : list Z :=
    match ops with
    | [] => []
    | CSet c' :: r => cspec c' r
    | CEval i :: r => score i c :: cspec c r
    end.

  (** the (input, contempt) pairs a history evaluates *)
  Fixpoint cpairs (c : Z) (ops : list cop) : list (inp * Z) :=
    match ops with
    | [] => []
    | CSet c' :: r => cpairs c' r
    | CEval i :: r => (i, c) :: cpairs c r
    end.
End Hist.

Arguments CSet {inp}.
Arguments CEval {inp}.

(** the contempt term of evalPos (C++ integer division truncates) and a minimal score function
    built from it, used for the refutation witness *)
Definition contemptTerm (c piecePlay : Z) : Z := Z.quot (c * piecePlay) contemptDiv.
