(** C07 — the accumulator theorems instantiated for the real lane arithmetic (Z/2^16)^n, the
    piece count (head selection) as an instance in (Z,+), and concrete examples showing that the
    hypotheses of the main theorems are satisfiable on non-trivial inputs. *)
From Coq Require Import ZArith List Bool Lia.
From Texel Require Import NN.Feature NN.Accum NN.AccumSpec NN.AccumProofs NN.FeatureProofs NN.AccumInst.
Import ListNotations.
Local Open Scope Z_scope.

(** ---- instance: n lanes of Z/2^16, any weights ---- *)
Section S16.
  Variable n : nat.
  Variable wraw : Z -> list Z.
  Variable biasraw : list Z.

  Notation V := (V16 n).
  Notation vadd := (vadd16 n).
  Notation vneg := (vneg16 n).
  Notation vzero := (vzero16 n).
  Notation w := (w16 n wraw).
  Notation bias := (bias16 n biasraw).

  Theorem incremental_eq_fresh_s16 : forall b0 gbg ops g,
    grun (ginit b0) ops = Some g ->
    exists st, mrun V vadd vneg w bias (initState gbg) ops = Some st /\
      forall kw kb pieces, posInputsOk (gcur g) kw kb pieces = true ->
        exists st', computeL1WB V vadd vneg w bias kw kb pieces st = Some st' /\
          l1Out (fst (cur st')) = freshAcc V vadd vzero w bias true kw (gcur g) /\
          l1Out (snd (cur st')) = freshAcc V vadd vzero w bias false kb (gcur g) /\
          ksq (fst (cur st')) = kw /\ ksq (snd (cur st')) = kb.
  Proof.
    exact (incremental_eq_fresh V vadd vneg vzero w bias
             (vadd16_assoc n) (vadd16_comm n) (vadd16_0_r n) (vadd16_neg_r n)).
  Qed.

  Theorem colour_swap_invariant_s16 : forall b kw kb wtm,
    validSq kw = true -> validSq kb = true -> piecesValid b ->
    nnInput V vadd vzero w bias (flipBoard b) (flipSq kb) (flipSq kw) (negb wtm)
    = nnInput V vadd vzero w bias b kw kb wtm.
  Proof. exact (colour_swap_invariant V vadd vzero w bias (vadd16_assoc n) (vadd16_comm n) (vadd16_0_r n)). Qed.

  Theorem mirror_invariant_s16 : forall b kw kb wtm,
    validSq kw = true -> validSq kb = true ->
    nnInput V vadd vzero w bias (mirrorBoard b) (mirrorSq kw) (mirrorSq kb) wtm
    = nnInput V vadd vzero w bias b kw kb wtm.
  Proof. exact (mirror_invariant V vadd vzero w bias (vadd16_assoc n) (vadd16_comm n) (vadd16_0_r n)). Qed.
End S16.

(** ---- the number of non-king pieces (which selects the output head) is the "accumulator" of
    the group (Z,+) with every weight 1: it has the same symmetries ---- *)
Definition nonKingCount (b : board) : Z := Z.of_nat (length (nonKingList b)).

Lemma count_fresh c k b : freshAcc Z Z.add 0 (fun _ => 1) 0 c k b = nonKingCount b.
Proof.
  unfold nonKingCount, freshAcc. generalize (nonKingList b). intros l.
  induction l as [|a r IH]; [reflexivity|].
  change (length (a :: r)) with (S (length r)). rewrite Nat2Z.inj_succ, <- IH.
  unfold vsum, featW. cbn [map fold_right]. lia.
Qed.

Theorem nonKingCount_swap b : piecesValid b -> nonKingCount (flipBoard b) = nonKingCount b.
Proof.
  intros Hb. rewrite <- (count_fresh true (flipSq 0) (flipBoard b)), <- (count_fresh false 0 b).
  exact (fresh_swap Z Z.add 0 (fun _ => 1) 0 Z.add_assoc Z.add_comm Z.add_0_r false 0 b eq_refl Hb).
Qed.

Theorem nonKingCount_mirror b : nonKingCount (mirrorBoard b) = nonKingCount b.
Proof.
  rewrite <- (count_fresh true (mirrorSq 0) (mirrorBoard b)), <- (count_fresh true 0 b).
  exact (fresh_mirror Z Z.add 0 (fun _ => 1) 0 Z.add_assoc Z.add_comm Z.add_0_r true 0 b eq_refl).
Qed.

(** any function of the accumulator pair and the piece count is symmetric *)
Theorem nn_value_symmetric :
  forall (V : Type) (vadd : V -> V -> V) (vzero : V) (w : Z -> V) (bias : V) (R : Type) (later : V * V -> Z -> R),
  (forall a b c, vadd a (vadd b c) = vadd (vadd a b) c) ->
  (forall a b, vadd a b = vadd b a) ->
  (forall a, vadd a vzero = a) ->
  let nnValue b kw kb wtm := later (nnInput V vadd vzero w bias b kw kb wtm) (nonKingCount b) in
  forall b kw kb wtm, validSq kw = true -> validSq kb = true ->
    (piecesValid b -> nnValue (flipBoard b) (flipSq kb) (flipSq kw) (negb wtm) = nnValue b kw kb wtm) /\
    nnValue (mirrorBoard b) (mirrorSq kw) (mirrorSq kb) wtm = nnValue b kw kb wtm.
Proof.
  intros V vadd vzero w bias R later A C Z0 nnValue b kw kb wtm Hw Hb. unfold nnValue. split.
  - intros Hp. rewrite (colour_swap_invariant V vadd vzero w bias A C Z0 b kw kb wtm Hw Hb Hp), (nonKingCount_swap b Hp).
    reflexivity.
  - rewrite (mirror_invariant V vadd vzero w bias A C Z0 b kw kb wtm Hw Hb), (nonKingCount_mirror b). reflexivity.
Qed.

(** ---- scaleClipPack: the model of the generic C++ loop equals the specification ---- *)
Lemma clipLane_spec x : 0 <= x < M16 -> clipLaneG x = scaleClipSpec (s16val x).
Proof.
  intros Hx. unfold clipLaneG, scaleClipSpec, clampZ, clipLo, clipHi, l1Shift.
  rewrite Z.shiftr_div_pow2 by lia. change (2 ^ 2) with 4.
  set (s := s16val x).
  assert (Hs : -32768 <= s < 32768).
  { unfold s, s16val, M16 in *. destruct (Z.ltb_spec x 32768); lia. }
  destruct (Z.ltb_spec s 0) as [Hneg|Hpos].
  - assert (s / 4 < 0) by (apply Z.div_lt_upper_bound; lia).
    destruct (Z.ltb_spec (s / 4) 0); [reflexivity|lia].
  - assert (0 <= s / 4) by (apply Z.div_pos; lia).
    destruct (Z.ltb_spec (s / 4) 0); [lia|].
    destruct (Z.leb_spec (128 * 4) s) as [Hhi|Hlo].
    + assert (128 <= s / 4) by (apply Z.div_le_lower_bound; lia).
      destruct (Z.ltb_spec 127 (s / 4)); [reflexivity|lia].
    + assert (s / 4 < 128) by (apply Z.div_lt_upper_bound; lia).
      destruct (Z.ltb_spec 127 (s / 4)); [lia|reflexivity].
Qed.

(** the whole vector handed to layer 2 is the specification applied lane by lane to the two
    accumulators, side to move first: a pure function of the accumulator pair *)
Lemma l1OutClipped_spec n wtm (st : state16 n) :
  l1OutClipped n wtm st =
  map (fun x => scaleClipSpec (s16val x)) (lanes n (l1Out (getLin wtm (cur st))))
  ++ map (fun x => scaleClipSpec (s16val x)) (lanes n (l1Out (getLin (negb wtm) (cur st)))).
Proof.
  unfold l1OutClipped. f_equal; apply map_ext_in; intros x Hx; unfold clipLane; apply clipLane_spec.
  - exact (wfv_lanes n _ (proj2_sig (l1Out (getLin wtm (cur st)))) x Hx).
  - exact (wfv_lanes n _ (proj2_sig (l1Out (getLin (negb wtm) (cur st)))) x Hx).
Qed.

Example clip_boundaries :
  map clipLaneG [65535; 65532; 0; 3; 4; 508; 511; 512; 1023; 1024; 32767; 32768]
  = [0; 0; 0; 0; 1; 127; 127; 127; 127; 127; 127; 0].
Proof. vm_compute. reflexivity. Qed.

(** ---- examples (non-vacuity) ---- *)
Definition startList : list Z :=
  [3;5;4;2;1;4;5;3; 6;6;6;6;6;6;6;6; 0;0;0;0;0;0;0;0; 0;0;0;0;0;0;0;0;
   0;0;0;0;0;0;0;0; 0;0;0;0;0;0;0;0; 12;12;12;12;12;12;12;12; 9;11;10;8;7;10;11;9].
Definition startBoard : board := boardOfList startList.

Definition exW (i : Z) : list Z := [i; 3 * i + 1; 65535 - (i mod 977); 40000 + i].
Definition exBias : list Z := [7; 65000; 0; 123].

Definition isSome {A} (o : option A) : bool := match o with Some _ => true | None => false end.

(** 1.e4 (push, two edits), evaluation, 1...Nf6, white king walk e1-e2 (no feature edit: only
    the next computeL1WB notices), an edit burst that overflows the four-entry queues, its
    reversal, take-backs down to an empty stack and one more (underflow -> full refresh), a
    position assignment *)
Definition exOps : list op :=
  let b0 := startBoard in
  let b1 := updBoard (updBoard b0 12 0) 28 6 in
  let b2 := updBoard (updBoard b1 62 0) 45 11 in
  let b3 := updBoard (updBoard b2 4 0) 12 1 in
  [ OCompute 4 60 (nonKingList b0);
    OPush 4 60 (nonKingList b0); OSet 12 6 0; OSet 28 0 6;
    OCompute 4 60 (nonKingList b1);
    OPush 4 60 (nonKingList b1); OSet 62 11 0; OSet 45 0 11;
    OPush 4 60 (nonKingList b2); OSet 4 1 0; OSet 12 0 1;
    OCompute 12 60 (nonKingList b3);
    OSet 48 12 0; OSet 49 12 0; OSet 50 12 0; OSet 51 12 0; OSet 52 12 0;
    OCompute 12 60 (nonKingList (updBoard (updBoard (updBoard (updBoard (updBoard b3 48 0) 49 0) 50 0) 51 0) 52 0));
    OSet 52 0 12; OSet 51 0 12; OSet 50 0 12; OSet 49 0 12; OSet 48 0 12;
    OPop b2; OCompute 4 60 (nonKingList b2);
    OPop b1; OPop b0; OPop b1;
    OCompute 4 60 (nonKingList b1);
    OForce true b3; OCompute 12 60 (nonKingList b3) ].

Example exOps_consistent : isSome (grun (ginit startBoard) exOps) = true.
Proof. vm_compute. reflexivity. Qed.

(** the model run on that stream ends with both accumulators equal to the fresh ones *)
Example exOps_result :
  match mrun (V16 4) (vadd16 4) (vneg16 4) (w16 4 exW) (bias16 4 exBias) (init16 4) exOps with
  | Some st =>
      let b3 := updBoard (updBoard (updBoard (updBoard (updBoard (updBoard startBoard 12 0) 28 6) 62 0) 45 11) 4 0) 12 1 in
      lanes 4 (l1Out (fst (cur st))) = fresh16 4 exW exBias true 12 b3 /\
      lanes 4 (l1Out (snd (cur st))) = fresh16 4 exW exBias false 60 b3
  | None => False
  end.
Proof. vm_compute. split; reflexivity. Qed.

Lemma startBoard_valid : piecesValid startBoard.
Proof.
  intros s Hs. apply allSquares_valid in Hs.
  assert (H : forallb (fun s => validPiece (startBoard s)) allSquares = true) by (vm_compute; reflexivity).
  rewrite forallb_forall in H. apply H. exact Hs.
Qed.

(** the two symmetry theorems on a concrete position (after 1.e4, black to move), computed *)
Example symmetry_example :
  let b := updBoard (updBoard startBoard 12 0) 28 6 in
  fresh16 4 exW exBias true (flipSq 60) (flipBoard b) = fresh16 4 exW exBias false 60 b /\
  fresh16 4 exW exBias false (flipSq 4) (flipBoard b) = fresh16 4 exW exBias true 4 b /\
  fresh16 4 exW exBias true (mirrorSq 4) (mirrorBoard b) = fresh16 4 exW exBias true 4 b /\
  fresh16 4 exW exBias true 4 b <> fresh16 4 exW exBias false 60 b.
Proof. vm_compute. repeat split; try reflexivity. discriminate. Qed.

(** the symmetric images of the start position are different boards, so the symmetry theorems
    say something: e.g. the flipped board has a black rook where the white one stood *)
Example flip_nontrivial : flipBoard (updBoard startBoard 12 0) 52 = 0 /\ updBoard startBoard 12 0 52 = 12.
Proof. vm_compute. split; reflexivity. Qed.
