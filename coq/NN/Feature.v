(** C07 — input features of the first network layer (model side, executable, no proofs).

    [getIndex], [ptValue], [isNonKing], the [Square] helpers and all constants come from
    [gen/NNGen.v], which tx/c07_gen.py rewrites from lib/texellib/nn/nneval.cpp (and piece.hpp,
    square.hpp, ...) on every check run.  This file adds the *specification side* of the
    symmetry theorems: board flips written independently of the code's xor tricks. *)
From Coq Require Import ZArith List Bool.
From Texel Require Export gen.NNGen.
Import ListNotations.
Local Open Scope Z_scope.

(** squares are 0..63 (a1 = 0, h1 = 7, a8 = 56); piece-type values of the net are 0..9 *)
Definition validSq (s : Z) : bool := (0 <=? s) && (s <? 64).
Definition validPt (pt : Z) : bool := (0 <=? pt) && (pt <? 10).
Definition validPiece (p : Z) : bool := (0 <=? p) && (p <? Piece_nPieceTypes).

Definition allSquares : list Z := map Z.of_nat (seq 0 64).
Definition allPts : list Z := map Z.of_nat (seq 0 10).
Definition allPieces : list Z := map Z.of_nat (seq 0 13).

(** specification of the two board symmetries (file/rank arithmetic, no bit tricks) *)
Definition sqFile (s : Z) : Z := s mod 8.
Definition sqRank (s : Z) : Z := s / 8.
Definition mkSq (f r : Z) : Z := r * 8 + f.
(** colour swap: the board is flipped top to bottom ... *)
Definition flipSq (s : Z) : Z := mkSq (sqFile s) (7 - sqRank s).
(** left-right mirror *)
Definition mirrorSq (s : Z) : Z := mkSq (7 - sqFile s) (sqRank s).
(** ... and every piece changes colour (codes: 0 empty, 1..6 white K Q R B N P, 7..12 black) *)
Definition swapPiece (p : Z) : Z :=
  if p =? 0 then 0 else if p <=? 6 then p + 6 else p - 6.
(** in the net's piece-type numbering 0..4 are the white Q R B N P, 5..9 the black ones *)
Definition swapPt (pt : Z) : Z := if pt <? 5 then pt + 5 else pt - 5.

(** a board is a map square -> piece code; only squares 0..63 are ever looked at *)
Definition board := Z -> Z.
Definition flipBoard (b : board) : board := fun s => swapPiece (b (flipSq s)).
Definition mirrorBoard (b : board) : board := fun s => b (mirrorSq s).
Definition updBoard (b : board) (sq p : Z) : board := fun s => if s =? sq then p else b s.
Definition boardEqb (b b' : board) : bool := forallb (fun s => b s =? b' s) allSquares.

(** the non-king pieces of a board in the order computeL1WB visits them (ascending square:
    BitBoard::extractSquare takes the lowest set bit first) *)
Definition nonKingList (b : board) : list (Z * Z) :=
  filter (fun ps => isNonKing (fst ps)) (map (fun s => (b s, s)) allSquares).

Definition boardOfList (l : list Z) : board := fun s => nth (Z.to_nat s) l 0.
