(** C07 — the first-layer state stack of NNEvaluator (lib/texellib/nn/nneval.{hpp,cpp}) as an
    executable state machine over an operation stream.  No proofs in this file.

    The accumulators live in an ARBITRARY commutative group [V] (the real ones are vectors of
    256 S16 lanes whose SIMD/generic adds wrap, i.e. (Z/2^16)^256 — instance in AccumInst.v) and
    the model is parametric in the weight function [w : feature index -> V] and the bias.
    The group laws are not needed to *run* the model; they are Section hypotheses of the proofs
    (AccumProofs.v).

    Shape of the C++ that is kept:
      FirstLayerState  = l1Out, toAdd[0..toAddLen), toSub[0..toSubLen), kingSqComputed
      FirstLayerStack  = flState[0..stackTop][2], here [cur] = level stackTop, [below] = the
                         levels stackTop-1 .. 0 (nearest first); levels above stackTop are never
                         read before pushState overwrites them, so they are not modelled
      colour index c   = 0 (white, [true]) is processed before 1 (black, [false])
    Errors the C++ only guards with an assert / not at all are explicit [None] results:
      pushState beyond maxStackSize, more than [addCap] pieces in a full refresh. *)
From Coq Require Import ZArith List Bool.
From Texel Require Import NN.Feature.
Import ListNotations.
Local Open Scope Z_scope.

Section Accum.
  Variable V : Type.
  Variable vadd : V -> V -> V.
  Variable vneg : V -> V.
  Variable w : Z -> V.          (* row of netData.weight1 *)
  Variable bias : V.            (* netData.bias1 *)

  Record fls := mkFls {
    l1Out : V;
    toAdd : list Z;
    toSub : list Z;
    ksq : Z                     (* kingSqComputed; sq_invalid = l1Out not valid *)
  }.

  (** FirstLayerState::clear — l1Out keeps whatever it held *)
  Definition clearFls (s : fls) : fls := mkFls (l1Out s) [] [] sq_invalid.

  Definition level := (fls * fls)%type.          (* (c = 0 white, c = 1 black) *)
  Record nnstate := mkNN { cur : level; below : list level }.
  Definition stackTop (st : nnstate) : Z := Z.of_nat (length (below st)).

  Definition getLin (white : bool) (l : level) : fls := if white then fst l else snd l.
  Definition setLin (white : bool) (l : level) (s : fls) : level :=
    if white then (s, snd l) else (fst l, s).

  (** vectorop.hpp: addSubWeights — first all rows of toAdd are added, then all rows of toSub
      subtracted *)
  Definition addSubWeights (a : V) (adds subs : list Z) : V :=
    fold_left (fun acc i => vadd acc (vneg (w i))) subs
      (fold_left (fun acc i => vadd acc (w i)) adds a).

  (** NNEvaluator::forceFullEval(clearStack) *)
  Definition forceFullEval (clearStack : bool) (st : nnstate) : nnstate :=
    let st' := if clearStack then mkNN (last (below st) (cur st)) [] else st in
    mkNN (clearFls (fst (cur st')), clearFls (snd (cur st'))) (below st').

  (** the body of the loop over c in NNEvaluator::setPiece *)
  Definition setPieceC (white : bool) (square oldPiece newPiece : Z) (s : fls) : fls :=
    let kSq := ksq s in
    if kSq =? sq_invalid then s                                  (* continue *)
    else
      let afterOld : fls + fls :=                               (* inr = `continue` taken *)
        if isNonKing oldPiece then
          let idx := getIndex kSq (ptValue oldPiece) square white in
          if Z.of_nat (length (toSub s)) <? maxIncr
          then inl (mkFls (l1Out s) (toAdd s) (toSub s ++ [idx]) (ksq s))
          else inr (mkFls (l1Out s) [] [] sq_invalid)
        else inl s in
      match afterOld with
      | inr s' => s'
      | inl s1 =>
        if isNonKing newPiece then
          let idx := getIndex kSq (ptValue newPiece) square white in
          if Z.of_nat (length (toAdd s1)) <? maxIncr
          then mkFls (l1Out s1) (toAdd s1 ++ [idx]) (toSub s1) (ksq s1)
          else mkFls (l1Out s1) [] [] sq_invalid
        else s1
      end.

  Definition setPiece (square oldPiece newPiece : Z) (st : nnstate) : nnstate :=
    mkNN (setPieceC true square oldPiece newPiece (fst (cur st)),
          setPieceC false square oldPiece newPiece (snd (cur st))) (below st).

  (** NNEvaluator::computeL1WB.  Inputs read from the connected Position: both king squares and
      the non-king pieces (piece code, square) in bitboard order. *)
  Definition incrC (kingSq : Z) (s : fls) : bool * fls :=
    let doFull := negb (ksq s =? kingSq) in
    let l1 := if doFull then l1Out s else addSubWeights (l1Out s) (toAdd s) (toSub s) in
    (doFull, mkFls l1 [] [] (ksq s)).

  Definition fullC (white : bool) (kingSq : Z) (pieces : list (Z * Z)) (s : fls) : fls :=
    let add := map (fun ps => getIndex kingSq (ptValue (fst ps)) (snd ps) white) pieces in
    mkFls (addSubWeights bias add []) (toAdd s) (toSub s) kingSq.

  Definition computeL1WB (kw kb : Z) (pieces : list (Z * Z)) (st : nnstate) : option nnstate :=
    let '(fw, sw) := incrC kw (fst (cur st)) in
    let '(fb, sb) := incrC kb (snd (cur st)) in
    if negb fw && negb fb then Some (mkNN (sw, sb) (below st))
    else if addCap <? Z.of_nat (length pieces) then None          (* add[c][len[c]++] out of range *)
    else Some (mkNN (if fw then fullC true kw pieces sw else sw,
                     if fb then fullC false kb pieces sb else sb) (below st)).

  Definition pending (s : fls) : Z := Z.of_nat (length (toAdd s)) + Z.of_nat (length (toSub s)).

  (** NNEvaluator::pushState (needs the position inputs because it may call computeL1WB) *)
  Definition pushState (kw kb : Z) (pieces : list (Z * Z)) (st : nnstate) : option nnstate :=
    let flush (white : bool) (o : option nnstate) : option nnstate :=
      match o with
      | None => None
      | Some s => if 0 <? pending (getLin white (cur s)) then computeL1WB kw kb pieces s else Some s
      end in
    match flush false (flush true (Some st)) with
    | None => None
    | Some s =>
      if stackTop s + 1 <? maxStackSize                             (* assert(stackTop < maxStackSize) *)
      then Some (mkNN (cur s) (cur s :: below s))
      else None
    end.

  (** NNEvaluator::popState *)
  Definition popState (st : nnstate) : nnstate :=
    match below st with
    | l :: bs => mkNN l bs
    | [] => forceFullEval true st
    end.

  (** state of a newly constructed evaluator; [g] stands for the uninitialised l1Out memory *)
  Definition initState (g : V) : nnstate :=
    let s := mkFls g [] [] sq_invalid in mkNN (s, s) [].

  (** ---- operation stream -------------------------------------------------------------- *)
  (** Ops carry the position-derived inputs of the real call, plus ghost annotations (the board
      after an untracked change) that only the specification side (AccumSpec.v) looks at. *)
  Inductive op :=
  | OPush (kw kb : Z) (pieces : list (Z * Z))
  | OPop (after : board)
  | OSet (square oldPiece newPiece : Z)
  | OForce (clearStack : bool) (after : board)
  | OCompute (kw kb : Z) (pieces : list (Z * Z)).

  Definition mstep (st : nnstate) (o : op) : option nnstate :=
    match o with
    | OPush kw kb ps => pushState kw kb ps st
    | OPop _ => Some (popState st)
    | OSet sq o n => Some (setPiece sq o n st)
    | OForce c _ => Some (forceFullEval c st)
    | OCompute kw kb ps => computeL1WB kw kb ps st
    end.

  Fixpoint mrun (st : nnstate) (ops : list op) : option nnstate :=
    match ops with
    | [] => Some st
    | o :: r => match mstep st o with None => None | Some st' => mrun st' r end
    end.
End Accum.

Arguments mkFls {V}.
Arguments l1Out {V}.
Arguments toAdd {V}.
Arguments toSub {V}.
Arguments ksq {V}.
Arguments mkNN {V}.
Arguments cur {V}.
Arguments below {V}.
Arguments stackTop {V}.
Arguments getLin {V}.
Arguments pending {V}.
Arguments clearFls {V}.
Arguments forceFullEval {V}.
Arguments popState {V}.
Arguments initState {V}.
