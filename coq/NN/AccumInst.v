(** C07 — the concrete accumulator group: vectors of [n] lanes of Z/2^16 (an S16 lane whose
    adds wrap, read as its unsigned residue), as a proof-carrying list so that the group laws
    hold for Leibniz equality.  The well-formedness proof is a boolean equation, hence unique
    (UIP on bool needs no axiom) and erased by extraction: the extracted model computes on
    plain OCaml lists.  Also: the clipped/packed copy of the accumulators that computeL1Out
    hands to layer 2 (generic scaleClipPack), and the entry points of the OCaml driver. *)
From Coq Require Import ZArith List Bool Lia Eqdep_dec.
From Texel Require Import NN.Feature NN.Accum NN.AccumSpec.
Import ListNotations.
Local Open Scope Z_scope.

Definition M16 : Z := 65536.
Definition laneOk (x : Z) : bool := (0 <=? x) && (x <? M16).
Definition add16 (a b : Z) : Z := (a + b) mod M16.
Definition neg16 (a : Z) : Z := (- a) mod M16.

(** vectorop.hpp, generic fallback of scaleClipPack, one lane:
      out[i] = clamp(l1OutC(i) >> shift, clipLo, clipHi)
    The S16 lane is given as its unsigned residue; it is promoted to int (sign extension), shifted
    arithmetically, then clamp(val,min,max) = val < min ? min : (val > max ? max : val). *)
Definition s16val (x : Z) : Z := if x <? 32768 then x else x - M16.
Definition clampZ (v lo hi : Z) : Z := if v <? lo then lo else if hi <? v then hi else v.
Definition clipLaneG (x : Z) : Z := clampZ (Z.shiftr (s16val x) l1Shift) clipLo clipHi.

(** SPECIFICATION of scaleClipPack as a pure function of the accumulator value [s] (a signed
    16-bit integer): divide by 2^shift rounding towards minus infinity, clip to the ReLU range
    [0,127].  No bit operations, no reference to the loop. *)
Definition scaleClipSpec (s : Z) : Z :=
  if s <? 0 then 0 else if 128 * 2 ^ l1Shift <=? s then 127 else s / 2 ^ l1Shift.

(** ... and the addSubWeights reference used by the unit-level kernel comparison *)
Fixpoint map2 (f : Z -> Z -> Z) (a b : list Z) : list Z :=
  match a, b with
  | x :: r, y :: r' => f x y :: map2 f r r'
  | _, _ => []
  end.

Section Inst.
  Variable n : nat.

  Definition wfv (l : list Z) : bool := Nat.eqb (length l) n && forallb laneOk l.
  Definition V16 : Type := { l : list Z | wfv l = true }.
  Definition lanes (v : V16) : list Z := proj1_sig v.

  (** force any list into shape: pad/truncate to [n] lanes, reduce each lane *)
  Definition norm (l : list Z) : list Z := map (fun x => x mod M16) (firstn n (l ++ repeat 0 n)).

  Lemma laneOk_mod x : laneOk (x mod M16) = true.
  Proof.
    unfold laneOk, M16. pose proof (Z.mod_pos_bound x 65536 eq_refl).
    apply andb_true_iff. split; [apply Z.leb_le|apply Z.ltb_lt]; lia.
  Qed.

  Lemma norm_wf l : wfv (norm l) = true.
  Proof.
    unfold wfv, norm. apply andb_true_iff. split.
    - apply Nat.eqb_eq. rewrite map_length, firstn_length, app_length, repeat_length. lia.
    - apply forallb_forall. intros x Hx. apply in_map_iff in Hx as [y [<- _]]. apply laneOk_mod.
  Qed.

  Definition mkV (l : list Z) : V16 := exist _ (norm l) (norm_wf l).

  Lemma V16_eq (a b : V16) : lanes a = lanes b -> a = b.
  Proof.
    destruct a as [a Ha], b as [b Hb]. simpl. intros ->. f_equal.
    apply UIP_dec. apply bool_dec.
  Qed.

  Lemma wfv_length l : wfv l = true -> length l = n.
  Proof. unfold wfv. intros H. apply andb_true_iff in H as [H _]. apply Nat.eqb_eq. exact H. Qed.

  Lemma wfv_lanes l : wfv l = true -> forall x, In x l -> 0 <= x < M16.
  Proof.
    unfold wfv. intros H x Hx. apply andb_true_iff in H as [_ H]. rewrite forallb_forall in H.
    specialize (H x Hx). unfold laneOk in H. apply andb_true_iff in H as [H1 H2].
    apply Z.leb_le in H1. apply Z.ltb_lt in H2. lia.
  Qed.

  Lemma map2_length f a b : length (map2 f a b) = Nat.min (length a) (length b).
  Proof. revert b. induction a as [|x r IH]; intros [|y r']; simpl; auto. Qed.

  Lemma map2_wf a b : wfv a = true -> wfv b = true -> wfv (map2 add16 a b) = true.
  Proof.
    intros Ha Hb. unfold wfv. apply andb_true_iff. split.
    - apply Nat.eqb_eq. rewrite map2_length, (wfv_length a Ha), (wfv_length b Hb). lia.
    - clear Ha Hb. revert b. induction a as [|x r IH]; intros [|y r']; simpl; auto.
      rewrite IH. unfold add16. rewrite laneOk_mod. reflexivity.
  Qed.

  Lemma map_neg_wf a : wfv a = true -> wfv (map neg16 a) = true.
  Proof.
    intros Ha. unfold wfv. apply andb_true_iff. split.
    - apply Nat.eqb_eq. rewrite map_length. apply wfv_length. exact Ha.
    - apply forallb_forall. intros x Hx. apply in_map_iff in Hx as [y [<- _]]. apply laneOk_mod.
  Qed.

  Definition vadd16 (a b : V16) : V16 :=
    exist _ (map2 add16 (lanes a) (lanes b)) (map2_wf _ _ (proj2_sig a) (proj2_sig b)).
  Definition vneg16 (a : V16) : V16 := exist _ (map neg16 (lanes a)) (map_neg_wf _ (proj2_sig a)).
  Definition vzero16 : V16 := mkV [].

  (** ---- the group laws ---- *)
  Lemma map2_assoc a b c : map2 add16 a (map2 add16 b c) = map2 add16 (map2 add16 a b) c.
  Proof.
    revert b c. induction a as [|x r IH]; intros [|y r'] [|z r'']; simpl; auto.
    f_equal; [|apply IH]. unfold add16.
    rewrite Zplus_mod_idemp_r, Zplus_mod_idemp_l, Z.add_assoc. reflexivity.
  Qed.

  Lemma map2_comm a b : map2 add16 a b = map2 add16 b a.
  Proof.
    revert b. induction a as [|x r IH]; intros [|y r']; simpl; auto.
    f_equal; [|apply IH]. unfold add16. rewrite Z.add_comm. reflexivity.
  Qed.

  Lemma vadd16_assoc a b c : vadd16 a (vadd16 b c) = vadd16 (vadd16 a b) c.
  Proof. apply V16_eq. simpl. apply map2_assoc. Qed.

  Lemma vadd16_comm a b : vadd16 a b = vadd16 b a.
  Proof. apply V16_eq. simpl. apply map2_comm. Qed.

  Lemma norm_nil : norm [] = repeat 0 n.
  Proof.
    unfold norm. simpl. rewrite firstn_all2 by (rewrite repeat_length; lia).
    induction n as [|m IH]; simpl; [reflexivity|]. f_equal. exact IH.
  Qed.

  Lemma map2_zero_r a m : length a = m -> (forall x, In x a -> 0 <= x < M16) ->
    map2 add16 a (repeat 0 m) = a.
  Proof.
    revert m. induction a as [|x r IH]; intros m Hl Hr; simpl in *.
    - destruct m; reflexivity.
    - destruct m as [|m]; [discriminate|]. simpl. f_equal.
      + unfold add16. rewrite Z.add_0_r. apply Z.mod_small. apply Hr. left. reflexivity.
      + apply IH; [lia|]. intros y Hy. apply Hr. right. exact Hy.
  Qed.

  Lemma vadd16_0_r a : vadd16 a vzero16 = a.
  Proof.
    apply V16_eq. destruct a as [a Ha]. simpl. rewrite norm_nil.
    apply map2_zero_r; [apply wfv_length; exact Ha|apply wfv_lanes; exact Ha].
  Qed.

  Lemma map2_neg a m : length a = m -> map2 add16 a (map neg16 a) = repeat 0 m.
  Proof.
    revert m. induction a as [|x r IH]; intros m Hl; simpl in *.
    - subst. reflexivity.
    - destruct m as [|m]; [discriminate|]. simpl. f_equal.
      + unfold add16, neg16. rewrite Zplus_mod_idemp_r. replace (x + - x) with 0 by lia. reflexivity.
      + apply IH. lia.
  Qed.

  Lemma vadd16_neg_r a : vadd16 a (vneg16 a) = vzero16.
  Proof.
    apply V16_eq. destruct a as [a Ha]. simpl. rewrite norm_nil.
    apply map2_neg. apply wfv_length. exact Ha.
  Qed.

  (** ---- what the driver runs ---- *)
  Variable wraw : Z -> list Z.      (* row idx of weight1, lanes as unsigned residues *)
  Variable biasraw : list Z.

  Definition w16 (i : Z) : V16 := mkV (wraw i).
  Definition bias16 : V16 := mkV biasraw.

  Definition state16 := nnstate V16.
  Definition init16 : state16 := initState vzero16.
  Definition step16 (st : state16) (o : op) : option state16 := mstep V16 vadd16 vneg16 w16 bias16 st o.
  Definition fresh16 (white : bool) (k : Z) (b : board) : list Z :=
    lanes (freshAcc V16 vadd16 vzero16 w16 bias16 white k b).

  (** observable part of the top level for one perspective *)
  Definition observe (white : bool) (st : state16) : Z * list Z * list Z * list Z :=
    let s := getLin white (cur st) in
    (ksq s, toAdd s, toSub s, lanes (l1Out s)).

  (** vectorop.hpp: scaleClipPack (generic branch) on one S16 lane given as unsigned residue *)
  Definition clipLane (x : Z) : Z := clipLaneG x.

  (** addSubWeights on raw lane lists (unit-level kernel comparison) *)
  Definition addSub16 (a : list Z) (adds subs : list Z) : list Z :=
    lanes (addSubWeights V16 vadd16 vneg16 w16 (mkV a) adds subs).

  (** NNEvaluator::computeL1Out: l1OutClipped = side to move's half, then the other half *)
  Definition l1OutClipped (wtm : bool) (st : state16) : list Z :=
    map clipLane (lanes (l1Out (getLin wtm (cur st))))
    ++ map clipLane (lanes (l1Out (getLin (negb wtm) (cur st)))).
End Inst.
