(** C07 — specification side of the accumulator theorems (independent of the stack algorithm).

    * [freshAcc]: what a from-scratch first-layer evaluation of a board yields for one
      perspective: bias + sum over the non-king pieces of w (getIndex kingSq pt sq).
    * [nnInput]: the pair of accumulators in the order the later layers see them (side to move
      first) — every later layer, the clipped/packed copy included, is a function of this pair
      and of the piece count.
    * ghost semantics of an op stream: the board the evaluator is *supposed* to describe.  A
      stream is consistent with a board history ([grun] succeeds) when every setPiece(sq,old,new)
      finds [old] on the tracked board, every pop restores the board saved by the matching push,
      the position inputs handed to pushState/computeL1WB are those of the tracked board, and
      the stack depth stays below maxStackSize.  Untracked changes (position assignment,
      deSerialize: forceFullEval; popState on an empty stack) may install any board. *)
From Coq Require Import ZArith List Bool.
From Texel Require Import NN.Feature NN.Accum.
Import ListNotations.
Local Open Scope Z_scope.

Section Spec.
  Variable V : Type.
  Variable vadd : V -> V -> V.
  Variable vzero : V.
  Variable w : Z -> V.
  Variable bias : V.

  Definition vsum (l : list V) : V := fold_right vadd vzero l.

  Definition featW (white : bool) (kingSq : Z) (ps : Z * Z) : V :=
    w (getIndex kingSq (ptValue (fst ps)) (snd ps) white).

  Definition freshAcc (white : bool) (kingSq : Z) (b : board) : V :=
    vadd bias (vsum (map (featW white kingSq) (nonKingList b))).

  (** accumulators as the later layers read them (computeL1Out: index wtm ? c : 1-c) *)
  Definition nnInput (b : board) (kw kb : Z) (wtm : bool) : V * V :=
    if wtm then (freshAcc true kw b, freshAcc false kb b)
    else (freshAcc false kb b, freshAcc true kw b).
End Spec.

(** ---- ghost semantics of the op stream ---- *)
Record ghost := mkG { gcur : board; gstack : list board }.

Definition pairEqb (a b : Z * Z) : bool := (fst a =? fst b) && (snd a =? snd b).
Fixpoint pairsEqb (l l' : list (Z * Z)) : bool :=
  match l, l' with
  | [], [] => true
  | a :: r, b :: r' => pairEqb a b && pairsEqb r r'
  | _, _ => false
  end.

(** the position inputs of pushState/computeL1WB are those of board [b] *)
Definition posInputsOk (b : board) (kw kb : Z) (pieces : list (Z * Z)) : bool :=
  validSq kw && validSq kb && pairsEqb pieces (nonKingList b)
  && (Z.of_nat (length pieces) <=? addCap).

Definition gstep (g : ghost) (o : op) : option ghost :=
  match o with
  | OPush kw kb ps =>
      if posInputsOk (gcur g) kw kb ps && (Z.of_nat (length (gstack g)) + 1 <? maxStackSize)
      then Some (mkG (gcur g) (gcur g :: gstack g)) else None
  | OPop b' =>
      match gstack g with
      | b :: r => if boardEqb b' b then Some (mkG b' r) else None
      | [] => Some (mkG b' [])
      end
  | OSet sq o n =>
      if validSq sq && (gcur g sq =? o) && validPiece n
      then Some (mkG (updBoard (gcur g) sq n) (gstack g)) else None
  | OForce c b' => Some (mkG b' (if c then [] else gstack g))
  | OCompute kw kb ps => if posInputsOk (gcur g) kw kb ps then Some g else None
  end.

Fixpoint grun (g : ghost) (ops : list op) : option ghost :=
  match ops with
  | [] => Some g
  | o :: r => match gstep g o with None => None | Some g' => grun g' r end
  end.

Definition ginit (b : board) : ghost := mkG b [].
