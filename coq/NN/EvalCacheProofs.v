(** C07 — transparency of the evaluation cache, and its failure when the contempt changes.

    [cache_transparent]: along any history of contempt changes and evaluations, every call
    returns the un-cached value, PROVIDED the 64-bit cache key determines the value (keys of
    evaluated (input, contempt) pairs with different values differ), no key has its upper 48 bits
    all ones (such a key hits an empty slot and reads -32768), and values fit 16 bits.
    With the key of the unchanged tree (historyHash alone, MUL = 0) the first proviso is false as
    soon as one position is evaluated at two contempt values: [cache_transparent_refuted]. *)
From Coq Require Import ZArith List Bool Lia Znumtheory Zpow_facts.
From Texel Require Import NN.Feature NN.EvalCache.
Import ListNotations.
Local Open Scope Z_scope.

(** ---- bit-level facts about the entry layout (constants regenerated from evaluate.cpp) ---- *)
Lemma mask_is : evalKeyMask = Z.ldiff (Z.ones 64) (Z.ones 16).
Proof. vm_compute. reflexivity. Qed.

Lemma land_ldiff a b c : Z.land a (Z.ldiff b c) = Z.ldiff (Z.land a b) c.
Proof.
  apply Z.bits_inj'. intros i Hi.
  rewrite Z.land_spec, !Z.ldiff_spec, Z.land_spec. apply andb_assoc.
Qed.

Lemma land_keymask k : 0 <= k < M64 -> Z.land k evalKeyMask = (k / 65536) * 65536.
Proof.
  intros Hk. rewrite mask_is, land_ldiff, Z.land_ones by lia.
  change (2 ^ 64) with M64. rewrite Z.mod_small by exact Hk.
  rewrite Z.ldiff_ones_r by lia. rewrite Z.shiftl_mul_pow2, Z.shiftr_div_pow2 by lia. reflexivity.
Qed.

Lemma packEntry_val k s : 0 <= k < M64 -> - evalScoreBias <= s < evalScoreBias ->
  packEntry k s = (k / 65536) * 65536 + (s + 32768).
Proof.
  intros Hk Hs. unfold packEntry. rewrite land_keymask by exact Hk.
  unfold evalScoreBias in *. apply Z.mod_small. unfold M64 in *.
  assert (k / 65536 < 2 ^ 48) by (apply Z.div_lt_upper_bound; lia).
  assert (0 <= k / 65536) by (apply Z.div_pos; lia). lia.
Qed.

Lemma hit_iff h v key : 0 <= h -> 0 <= v < 65536 -> 0 <= key ->
  (Z.lxor (h * 65536 + v) key <? evalHitBelow) = true <-> h = key / 65536.
Proof.
  intros Hh Hv Hkey. unfold evalHitBelow. rewrite Z.ltb_lt.
  set (d := h * 65536 + v).
  assert (Hd : 0 <= d) by (unfold d; lia).
  assert (Hx : 0 <= Z.lxor d key) by (apply Z.lxor_nonneg; lia).
  assert (Hdh : d / 65536 = h).
  { unfold d. rewrite Z.add_comm, Z.div_add by lia. rewrite Z.div_small by lia. lia. }
  assert (E : Z.shiftr (Z.lxor d key) 16 = Z.lxor (d / 65536) (key / 65536)).
  { rewrite Z.shiftr_lxor, !Z.shiftr_div_pow2 by lia. reflexivity. }
  rewrite Z.shiftr_div_pow2 in E by lia. change (2 ^ 16) with 65536 in E.
  split.
  - intros Hlt. assert (Z.lxor d key / 65536 = 0) by (apply Z.div_small; lia).
    rewrite H in E. symmetry in E. apply Z.lxor_eq in E. lia.
  - intros Heq. rewrite Hdh, Heq, Z.lxor_nilpotent in E.
    apply Z.div_small_iff in E; lia.
Qed.

Lemma land_scoremask h v : 0 <= v < 65536 -> Z.land (h * 65536 + v) evalScoreMask = v.
Proof.
  intros Hv. unfold evalScoreMask. change 65535 with (Z.ones 16). rewrite Z.land_ones by lia.
  change (2 ^ 16) with 65536. rewrite Z.add_comm, Z.mod_add by lia. apply Z.mod_small. exact Hv.
Qed.

Lemma empty_val : evalHashEmpty = (2 ^ 48 - 1) * 65536 + 0.
Proof. vm_compute. reflexivity. Qed.

Lemma entryIdx_mod k : 0 <= k -> entryIdx k = k mod 65536.
Proof.
  intros Hk. unfold entryIdx, evalHashSize. change (65536 - 1) with (Z.ones 16).
  rewrite Z.land_ones by lia. reflexivity.
Qed.

Lemma lxor_bound a b : 0 <= a < M64 -> 0 <= b < M64 -> 0 <= Z.lxor a b < M64.
Proof.
  intros Ha Hb. split; [apply Z.lxor_nonneg; lia|].
  destruct (Z.eq_dec (Z.lxor a b) 0) as [->|Hnz]; [unfold M64; lia|].
  assert (0 < Z.lxor a b) by (pose proof (proj2 (Z.lxor_nonneg a b)); lia).
  unfold M64. apply Z.log2_lt_pow2; [lia|].
  pose proof (Z.log2_lxor a b (proj1 Ha) (proj1 Hb)).
  assert (La : Z.log2 a < 64).
  { destruct (Z.eq_dec a 0) as [->|]; [simpl; lia|]. apply Z.log2_lt_pow2; unfold M64 in *; lia. }
  assert (Lb : Z.log2 b < 64).
  { destruct (Z.eq_dec b 0) as [->|]; [simpl; lia|]. apply Z.log2_lt_pow2; unfold M64 in *; lia. }
  lia.
Qed.

Lemma cacheKeyM_bound mul hk c : 0 <= hk < M64 -> 0 <= cacheKeyM mul hk c < M64.
Proof.
  intros H. unfold cacheKeyM. apply lxor_bound; [exact H|].
  apply Z.mod_pos_bound. unfold M64. lia.
Qed.

(** with an odd multiplier (the fix uses the transposition table's odd constant) one position
    evaluated at two different contempt values never shares a key *)
Lemma contempt_separated mul hk c c' :
  Z.odd mul = true -> - 2 ^ 31 <= c < 2 ^ 31 -> - 2 ^ 31 <= c' < 2 ^ 31 ->
  cacheKeyM mul hk c = cacheKeyM mul hk c' -> c = c'.
Proof.
  intros Hodd Hc Hc' E. unfold cacheKeyM in E.
  assert (E2 : (mul * c) mod M64 = (mul * c') mod M64).
  { assert (X : Z.lxor hk (Z.lxor hk ((mul * c) mod M64)) = Z.lxor hk (Z.lxor hk ((mul * c') mod M64))) by (rewrite E; reflexivity).
    rewrite <- !Z.lxor_assoc, Z.lxor_nilpotent, !Z.lxor_0_l in X. exact X. }
  assert (D : (M64 | mul * (c - c'))).
  { apply Z.mod_divide; [unfold M64; lia|].
    replace (mul * (c - c')) with (mul * c - mul * c') by lia.
    rewrite Zminus_mod, E2, Z.sub_diag. reflexivity. }
  assert (G : Z.gcd M64 mul = 1).
  { (* M64 is a power of two and mul is odd *)
    unfold M64. assert (R : rel_prime mul (2 ^ 64)).
    { apply rel_prime_Zpower_r; [lia|].
      apply rel_prime_sym. apply prime_rel_prime; [exact prime_2|].
      intros [q Hq]. rewrite Hq, Z.mul_comm, Z.odd_mul, Z.odd_2 in Hodd. simpl in Hodd. discriminate. }
    apply rel_prime_sym in R. apply Zgcd_1_rel_prime. exact R. }
  apply Z.gauss in D; [|exact G].
  destruct D as [q Hq]. unfold M64 in Hq.
  assert (q = 0) by lia. lia.
Qed.

(** ---- transparency ---- *)
Section Transparent.
  Variable inp : Type.
  Variable hkey : inp -> Z.
  Variable score : inp -> Z -> Z.
  Variable mul : Z.

  Definition keyOf (p : inp * Z) : Z := cacheKeyM mul (hkey (fst p)) (snd p).
  Definition valOf (p : inp * Z) : Z := score (fst p) (snd p).

  (** side conditions on one evaluated pair *)
  Definition pairOk (p : inp * Z) : Prop :=
    0 <= hkey (fst p) < M64 /\ - evalScoreBias <= valOf p < evalScoreBias /\
    keyOf p / 65536 <> 2 ^ 48 - 1.

  (** "the cache-relevant input is determined by the key" *)
  Definition keyDetermines (P : list (inp * Z)) : Prop :=
    forall p q, In p P -> In q P -> keyOf p = keyOf q -> valOf p = valOf q.

  Definition TInv (P : list (inp * Z)) (t : table) : Prop :=
    forall idx, t idx = evalHashEmpty \/
      exists q, In q P /\ t idx = packEntry (keyOf q) (valOf q) /\ entryIdx (keyOf q) = idx.

  Lemma eval_step P t p :
    (forall q, In q P -> pairOk q) -> keyDetermines P -> TInv P t -> In p P ->
    let '(v, t') := evalPosM mul t (hkey (fst p)) (snd p) (valOf p) in v = valOf p /\ TInv P t'.
  Proof.
    intros Hok Hkd HT Hp. unfold evalPosM. fold (keyOf p).
    destruct (Hok p Hp) as [Hk [Hs Hne]].
    pose proof (cacheKeyM_bound mul _ (snd p) Hk) as Hkb. fold (keyOf p) in Hkb.
    assert (Hstore : TInv P (store t (keyOf p) (valOf p))).
    { intros idx. unfold store, tset. destruct (Z.eqb_spec idx (entryIdx (keyOf p))) as [->|_]; [|apply HT].
      right. exists p. auto. }
    unfold probe. destruct (HT (entryIdx (keyOf p))) as [He|[q [Hq [Hd Hidx]]]].
    - (* empty slot: no hit *)
      rewrite He, empty_val.
      destruct (Z.lxor ((2 ^ 48 - 1) * 65536 + 0) (keyOf p) <? evalHitBelow) eqn:Hit.
      + apply hit_iff in Hit; [|lia|lia|lia]. symmetry in Hit. contradiction.
      + split; [reflexivity|exact Hstore].
    - destruct (Hok q Hq) as [Hkq [Hsq _]].
      pose proof (cacheKeyM_bound mul _ (snd q) Hkq) as Hqb. fold (keyOf q) in Hqb.
      rewrite Hd, (packEntry_val _ _ Hqb Hsq).
      assert (Hv : 0 <= valOf q + 32768 < 65536) by (unfold evalScoreBias in Hsq; lia).
      assert (Hh : 0 <= keyOf q / 65536) by (apply Z.div_pos; lia).
      destruct (Z.lxor (keyOf q / 65536 * 65536 + (valOf q + 32768)) (keyOf p) <? evalHitBelow) eqn:Hit.
      + apply hit_iff in Hit; [|lia|lia|lia].
        rewrite land_scoremask by exact Hv. unfold evalScoreBias.
        assert (Hkeq : keyOf q = keyOf p).
        { rewrite !entryIdx_mod in Hidx by lia.
          rewrite (Z.div_mod (keyOf q) 65536), (Z.div_mod (keyOf p) 65536) by lia. rewrite Hit, Hidx. reflexivity. }
        split; [|exact HT]. rewrite (Hkd q p Hq Hp Hkeq). lia.
      + split; [reflexivity|exact Hstore].
  Qed.

  Lemma run_transparent P : (forall q, In q P -> pairOk q) -> keyDetermines P ->
    forall ops t c, TInv P t -> incl (cpairs inp c ops) P ->
    crun inp hkey score mul t c ops = cspec inp score c ops.
  Proof.
    intros Hok Hkd. induction ops as [|o r IH]; intros t c HT Hin; simpl; [reflexivity|].
    destruct o as [c'|i]; simpl in Hin.
    - apply IH; assumption.
    - assert (Hp : In (i, c) P) by (apply Hin; left; reflexivity).
      pose proof (eval_step P t (i, c) Hok Hkd HT Hp) as Hs. simpl in Hs. unfold valOf in Hs. simpl in Hs.
      destruct (evalPosM mul t (hkey i) c (score i c)) as [v t']. destruct Hs as [-> HT'].
      f_equal. apply IH; [exact HT'|]. intros x Hx. apply Hin. right. exact Hx.
  Qed.

  Theorem cache_transparent : forall ops c0,
    (forall q, In q (cpairs inp c0 ops) -> pairOk q) ->
    keyDetermines (cpairs inp c0 ops) ->
    crun inp hkey score mul emptyTable c0 ops = cspec inp score c0 ops.
  Proof.
    intros ops c0 Hok Hkd. apply (run_transparent _ Hok Hkd).
    - intros idx. left. reflexivity.
    - apply incl_refl.
  Qed.
End Transparent.

(** ---- the unchanged tree: key = historyHash alone ---- *)
(** a minimal evaluation in the shape of evalPos: position-only part [base] plus the contempt
    term; input = (history hash, base, piecePlay) *)
Definition demoInp := (Z * Z * Z)%type.
Definition demoKey (i : demoInp) : Z := fst (fst i).
Definition demoScore (i : demoInp) (c : Z) : Z := snd (fst i) + contemptTerm c (snd i).

(** start position, network contribution 0, full material (piecePlay = 128) *)
Definition demoStart : demoInp := (4857372635465763923, 0, 128).
Definition demoOps : list (cop demoInp) := [CSet 50; CEval demoStart; CSet 0; CEval demoStart].

(** Without the contempt in the key, "distinct positions have distinct keys" (all that a Zobrist
    collision hypothesis can give) is not enough: one position, two contempt values. *)
Theorem cache_transparent_refuted :
  exists ops : list (cop demoInp),
    (forall q, In q (cpairs demoInp 0 ops) -> pairOk demoInp demoKey demoScore 0 q) /\
    (forall p q, In p (cpairs demoInp 0 ops) -> In q (cpairs demoInp 0 ops) ->
                 demoKey (fst p) = demoKey (fst q) -> fst p = fst q) /\
    crun demoInp demoKey demoScore 0 emptyTable 0 ops <> cspec demoInp demoScore 0 ops.
Proof.
  exists demoOps. split; [|split].
  - intros q Hq. simpl in Hq. destruct Hq as [<-|[<-|[]]]; unfold pairOk; vm_compute; repeat split; discriminate.
  - intros p q Hp Hq _. simpl in Hp, Hq.
    destruct Hp as [<-|[<-|[]]]; destruct Hq as [<-|[<-|[]]]; reflexivity.
  - vm_compute. discriminate.
Qed.

(** the stale value the witness returns: cached at contempt 50, returned at contempt 0 *)
Example refuted_values :
  crun demoInp demoKey demoScore 0 emptyTable 0 demoOps = [50; 50] /\
  cspec demoInp demoScore 0 demoOps = [50; 0].
Proof. vm_compute. split; reflexivity. Qed.

(** non-vacuity of [cache_transparent]: a history with a repeated evaluation (a hit) at one
    contempt value satisfies all hypotheses, also for the key of the unchanged tree *)
Example transparent_nonvacuous :
  let ops := [CSet 50; CEval demoStart; CEval (11, 7, 100); CEval demoStart] in
  (forall q, In q (cpairs demoInp 0 ops) -> pairOk demoInp demoKey demoScore 0 q) /\
  keyDetermines demoInp demoKey demoScore 0 (cpairs demoInp 0 ops) /\
  crun demoInp demoKey demoScore 0 emptyTable 0 ops = [50; 46; 50].
Proof.
  simpl. split; [|split].
  - intros q [<-|[<-|[<-|[]]]]; unfold pairOk; vm_compute; repeat split; discriminate.
  - intros p q Hp Hq. unfold keyOf, valOf.
    destruct Hp as [<-|[<-|[<-|[]]]]; destruct Hq as [<-|[<-|[<-|[]]]]; vm_compute; intros E; try reflexivity; discriminate.
  - vm_compute. reflexivity.
Qed.
