(** C07 — symmetries of the feature index (finite, exhaustive by vm_compute over
    64 king squares x 10 piece types x 64 squares x 2 perspectives, on the getIndex text
    regenerated from nneval.cpp) and their consequences for the from-scratch accumulators in any
    commutative group. *)
From Coq Require Import ZArith List Bool Lia Permutation.
From Texel Require Import NN.Feature NN.Accum NN.AccumSpec NN.AccumProofs.
Import ListNotations.
Local Open Scope Z_scope.

(** ---- exhaustive sweeps ---- *)
Definition sweep3 (f : Z -> Z -> Z -> bool -> bool) : bool :=
  forallb (fun k => forallb (fun pt => forallb (fun sq => f k pt sq true && f k pt sq false) allSquares) allPts) allSquares.

Lemma allPts_valid pt : In pt allPts <-> validPt pt = true.
Proof.
  unfold allPts, validPt. rewrite in_map_iff. split.
  - intros [n [<- Hn]]. apply in_seq in Hn. apply andb_true_iff. split; [apply Z.leb_le|apply Z.ltb_lt]; lia.
  - intros H. apply andb_true_iff in H as [H1 H2]. apply Z.leb_le in H1. apply Z.ltb_lt in H2.
    exists (Z.to_nat pt). split; [lia|]. apply in_seq. lia.
Qed.

Lemma allPieces_valid p : In p allPieces <-> validPiece p = true.
Proof.
  unfold allPieces, validPiece, Piece_nPieceTypes. rewrite in_map_iff. split.
  - intros [n [<- Hn]]. apply in_seq in Hn. apply andb_true_iff. split; [apply Z.leb_le|apply Z.ltb_lt]; lia.
  - intros H. apply andb_true_iff in H as [H1 H2]. apply Z.leb_le in H1. apply Z.ltb_lt in H2.
    exists (Z.to_nat p). split; [lia|]. apply in_seq. lia.
Qed.

Lemma sweep3_spec f : sweep3 f = true ->
  forall k pt sq c, validSq k = true -> validPt pt = true -> validSq sq = true -> f k pt sq c = true.
Proof.
  unfold sweep3. intros H k pt sq c Hk Hpt Hsq.
  rewrite forallb_forall in H. specialize (H k (proj2 (allSquares_valid k) Hk)).
  rewrite forallb_forall in H. specialize (H pt (proj2 (allPts_valid pt) Hpt)).
  rewrite forallb_forall in H. specialize (H sq (proj2 (allSquares_valid sq) Hsq)).
  apply andb_true_iff in H as [H1 H2]. destruct c; assumption.
Qed.

(** every feature index addresses a row of weight1 *)
Lemma index_in_range_sweep :
  sweep3 (fun k pt sq c => (0 <=? getIndex k pt sq c) && (getIndex k pt sq c <? inFeatures)) = true.
Proof. vm_compute. reflexivity. Qed.

Lemma index_in_range k pt sq c :
  validSq k = true -> validPt pt = true -> validSq sq = true -> 0 <= getIndex k pt sq c < inFeatures.
Proof.
  intros Hk Hpt Hsq. pose proof (sweep3_spec _ index_in_range_sweep k pt sq c Hk Hpt Hsq) as H.
  apply andb_true_iff in H as [H1 H2]. apply Z.leb_le in H1. apply Z.ltb_lt in H2. lia.
Qed.

(** left-right mirror: same row (this is where the king crossing the d/e boundary matters) *)
Lemma index_mirror_sweep :
  sweep3 (fun k pt sq c => getIndex (mirrorSq k) pt (mirrorSq sq) c =? getIndex k pt sq c) = true.
Proof. vm_compute. reflexivity. Qed.

Lemma index_mirror k pt sq c :
  validSq k = true -> validPt pt = true -> validSq sq = true ->
  getIndex (mirrorSq k) pt (mirrorSq sq) c = getIndex k pt sq c.
Proof. intros Hk Hpt Hsq. apply Z.eqb_eq. exact (sweep3_spec _ index_mirror_sweep k pt sq c Hk Hpt Hsq). Qed.

(** colour swap: the other perspective's row of the flipped, recoloured position *)
Lemma index_swap_sweep :
  sweep3 (fun k pt sq c => getIndex (flipSq k) (swapPt pt) (flipSq sq) (negb c) =? getIndex k pt sq c) = true.
Proof. vm_compute. reflexivity. Qed.

Lemma index_swap k pt sq c :
  validSq k = true -> validPt pt = true -> validSq sq = true ->
  getIndex (flipSq k) (swapPt pt) (flipSq sq) (negb c) = getIndex k pt sq c.
Proof. intros Hk Hpt Hsq. apply Z.eqb_eq. exact (sweep3_spec _ index_swap_sweep k pt sq c Hk Hpt Hsq). Qed.

(** distinct (piece type, square) pairs never share a row (for a fixed king square and
    perspective): the row determines the pair *)
Definition decodePtSq (k idx : Z) (c : bool) : Z * Z :=
  let pt := (idx / 64) mod 10 in
  let sq := idx mod 64 in
  let k' := if c then k else sq_mirrorY k in
  let sq1 := if sq_getX k' >=? 4 then sq_mirrorX sq else sq in
  if c then (pt, sq1) else (swapPt pt, sq_mirrorY sq1).

Lemma index_decode_sweep :
  sweep3 (fun k pt sq c => pairEqb (decodePtSq k (getIndex k pt sq c) c) (pt, sq)) = true.
Proof. vm_compute. reflexivity. Qed.

Lemma index_injective k c pt sq pt' sq' :
  validSq k = true -> validPt pt = true -> validSq sq = true -> validPt pt' = true -> validSq sq' = true ->
  getIndex k pt sq c = getIndex k pt' sq' c -> pt = pt' /\ sq = sq'.
Proof.
  intros Hk Hpt Hsq Hpt' Hsq' E.
  pose proof (sweep3_spec _ index_decode_sweep k pt sq c Hk Hpt Hsq) as H1.
  pose proof (sweep3_spec _ index_decode_sweep k pt' sq' c Hk Hpt' Hsq') as H2.
  cbv beta in H1, H2. rewrite E in H1. unfold pairEqb in H1, H2.
  destruct (decodePtSq k (getIndex k pt' sq' c) c) as [a b]. simpl in H1, H2.
  apply andb_true_iff in H1 as [A1 B1]. apply andb_true_iff in H2 as [A2 B2].
  apply Z.eqb_eq in A1, B1, A2, B2. subst. auto.
Qed.

(** piece-level facts *)
Lemma ptValue_valid_sweep : forallb (fun p => validPt (ptValue p)) allPieces = true.
Proof. vm_compute. reflexivity. Qed.

Lemma ptValue_valid p : validPt (ptValue p) = true.
Proof.
  (* ptValue is a table lookup with default 0: every result is one of the ten table values or 0 *)
  unfold ptValue, ptValueTable.
  repeat (cbn [assocZ]; match goal with |- context [if ?a =? p then _ else _] => destruct (a =? p); [reflexivity|] end).
  reflexivity.
Qed.

Lemma swapPiece_sweep :
  forallb (fun p => Bool.eqb (isNonKing (swapPiece p)) (isNonKing p)
                    && (negb (isNonKing p) || (ptValue (swapPiece p) =? swapPt (ptValue p)))) allPieces = true.
Proof. vm_compute. reflexivity. Qed.

Lemma swapPiece_nonking p : validPiece p = true -> isNonKing (swapPiece p) = isNonKing p.
Proof.
  intros H. pose proof swapPiece_sweep as S. rewrite forallb_forall in S.
  specialize (S p (proj2 (allPieces_valid p) H)). apply andb_true_iff in S as [S _].
  apply Bool.eqb_prop in S. exact S.
Qed.

Lemma swapPiece_ptValue p : validPiece p = true -> isNonKing p = true -> ptValue (swapPiece p) = swapPt (ptValue p).
Proof.
  intros H Hn. pose proof swapPiece_sweep as S. rewrite forallb_forall in S.
  specialize (S p (proj2 (allPieces_valid p) H)). apply andb_true_iff in S as [_ S].
  rewrite Hn in S. simpl in S. apply Z.eqb_eq. exact S.
Qed.

(** the two square maps are involutions of the board and agree with the code's xor helpers *)
Lemma sq_maps_sweep :
  forallb (fun s => validSq (flipSq s) && validSq (mirrorSq s)
                    && (flipSq (flipSq s) =? s) && (mirrorSq (mirrorSq s) =? s)
                    && (flipSq s =? sq_mirrorY s) && (mirrorSq s =? sq_mirrorX s)) allSquares = true.
Proof. vm_compute. reflexivity. Qed.

Lemma sq_maps s : validSq s = true ->
  validSq (flipSq s) = true /\ validSq (mirrorSq s) = true /\ flipSq (flipSq s) = s /\ mirrorSq (mirrorSq s) = s
  /\ flipSq s = sq_mirrorY s /\ mirrorSq s = sq_mirrorX s.
Proof.
  intros H. pose proof sq_maps_sweep as S. rewrite forallb_forall in S.
  specialize (S s (proj2 (allSquares_valid s) H)).
  apply andb_true_iff in S as [S H6]. apply andb_true_iff in S as [S H5].
  apply andb_true_iff in S as [S H4]. apply andb_true_iff in S as [S H3].
  apply andb_true_iff in S as [H1 H2].
  apply Z.eqb_eq in H3, H4, H5, H6. repeat split; assumption.
Qed.

(** ---- permutations of the 64 squares, by reflection ---- *)
Fixpoint remove1 (x : Z) (l : list Z) : option (list Z) :=
  match l with
  | [] => None
  | y :: r => if x =? y then Some r else match remove1 x r with Some r' => Some (y :: r') | None => None end
  end.

Fixpoint permb (l l' : list Z) : bool :=
  match l with
  | [] => match l' with [] => true | _ => false end
  | x :: r => match remove1 x l' with Some l'' => permb r l'' | None => false end
  end.

Lemma remove1_perm x l l' : remove1 x l = Some l' -> Permutation l (x :: l').
Proof.
  revert l'. induction l as [|y r IH]; intros l' H; simpl in H; [discriminate|].
  destruct (Z.eqb_spec x y) as [->|_].
  - inversion H; subst. apply Permutation_refl.
  - destruct (remove1 x r) as [r'|]; [|discriminate]. inversion H; subst.
    eapply perm_trans; [apply perm_skip; apply IH; reflexivity|apply perm_swap].
Qed.

Lemma permb_sound l : forall l', permb l l' = true -> Permutation l l'.
Proof.
  induction l as [|x r IH]; intros l' H; simpl in H.
  - destruct l'; [constructor|discriminate].
  - destruct (remove1 x l') as [l''|] eqn:E; [|discriminate].
    eapply perm_trans; [apply perm_skip; apply IH; exact H|].
    apply Permutation_sym. apply remove1_perm. exact E.
Qed.

Lemma flip_perm : Permutation (map flipSq allSquares) allSquares.
Proof. apply permb_sound. vm_compute. reflexivity. Qed.

Lemma mirror_perm : Permutation (map mirrorSq allSquares) allSquares.
Proof. apply permb_sound. vm_compute. reflexivity. Qed.

(** ---- accumulator-level symmetries, in any commutative group ---- *)
Section Sym.
  Variable V : Type.
  Variable vadd : V -> V -> V.
  Variable vzero : V.
  Variable w : Z -> V.
  Variable bias : V.
  Hypothesis vadd_assoc : forall a b c, vadd a (vadd b c) = vadd (vadd a b) c.
  Hypothesis vadd_comm : forall a b, vadd a b = vadd b a.
  Hypothesis vadd_0_r : forall a, vadd a vzero = a.

  Notation vsum := (vsum V vadd vzero).
  Notation freshAcc := (freshAcc V vadd vzero w bias).
  Notation nnInput := (nnInput V vadd vzero w bias).
  Notation termP := (termP V vzero w).

  Lemma vsum_perm l l' : Permutation l l' -> vsum l = vsum l'.
  Proof.
    induction 1; simpl.
    - reflexivity.
    - rewrite IHPermutation. reflexivity.
    - rewrite !vadd_assoc, (vadd_comm y x). reflexivity.
    - congruence.
  Qed.

  Lemma freshAcc_terms' white k b :
    freshAcc white k b = vadd bias (vsum (map (fun s => termP white k (b s) s) allSquares)).
  Proof.
    unfold AccumSpec.freshAcc, nonKingList.
    assert (G : forall l, vsum (map (featW V w white k) (filter (fun ps => isNonKing (fst ps)) (map (fun s => (b s, s)) l)))
                          = vsum (map (fun s => termP white k (b s) s) l)).
    { induction l as [|s r IH]; simpl; [reflexivity|].
      unfold AccumProofs.termP at 1. destruct (isNonKing (b s)); simpl; rewrite IH; [reflexivity|].
      rewrite vadd_comm. symmetry. rewrite vadd_0_r. reflexivity. }
    rewrite G. reflexivity.
  Qed.

  (** re-indexing the sum over the squares along a permutation [sg] of the board *)
  Lemma reindex (sg : Z -> Z) (F G : Z -> V) :
    Permutation (map sg allSquares) allSquares ->
    (forall s, validSq s = true -> F s = G (sg s)) ->
    vsum (map F allSquares) = vsum (map G allSquares).
  Proof.
    intros HP HF. rewrite <- (vsum_perm _ _ (Permutation_map G HP)), map_map.
    f_equal. apply map_ext_in. intros s Hs. apply HF. apply allSquares_valid. exact Hs.
  Qed.

  Definition piecesValid (b : board) : Prop := forall s, validSq s = true -> validPiece (b s) = true.

  Theorem fresh_mirror c k b :
    validSq k = true -> freshAcc c (mirrorSq k) (mirrorBoard b) = freshAcc c k b.
  Proof.
    intros Hk. rewrite !freshAcc_terms'. f_equal.
    apply (reindex mirrorSq); [exact mirror_perm|].
    intros s Hs. unfold mirrorBoard, AccumProofs.termP, featW. simpl.
    destruct (sq_maps s Hs) as [_ [Hv [_ [Hinv _]]]].
    destruct (isNonKing (b (mirrorSq s))); [|reflexivity].
    rewrite <- (index_mirror k (ptValue (b (mirrorSq s))) (mirrorSq s) c Hk (ptValue_valid _) Hv), Hinv.
    reflexivity.
  Qed.

  Theorem fresh_swap c k b :
    validSq k = true -> piecesValid b -> freshAcc (negb c) (flipSq k) (flipBoard b) = freshAcc c k b.
  Proof.
    intros Hk Hb. rewrite !freshAcc_terms'. f_equal.
    apply (reindex flipSq); [exact flip_perm|].
    intros s Hs. unfold flipBoard, AccumProofs.termP, featW. simpl.
    destruct (sq_maps s Hs) as [Hv [_ [Hinv _]]].
    specialize (Hb (flipSq s) Hv). rewrite (swapPiece_nonking _ Hb).
    destruct (isNonKing (b (flipSq s))) eqn:En; [|reflexivity].
    rewrite (swapPiece_ptValue _ Hb En).
    rewrite <- (index_swap k (ptValue (b (flipSq s))) (flipSq s) c Hk (ptValue_valid _) Hv), Hinv.
    reflexivity.
  Qed.

  (** what layers 2-4 read is unchanged when colours are swapped (board flipped, pieces
      recoloured, side to move swapped; king squares follow the board) ... *)
  Theorem colour_swap_invariant b kw kb wtm :
    validSq kw = true -> validSq kb = true -> piecesValid b ->
    nnInput (flipBoard b) (flipSq kb) (flipSq kw) (negb wtm) = nnInput b kw kb wtm.
  Proof.
    intros Hw Hb Hp. unfold AccumSpec.nnInput.
    pose proof (fresh_swap true kw b Hw Hp) as E1. pose proof (fresh_swap false kb b Hb Hp) as E2.
    simpl in E1, E2. destruct wtm; simpl; rewrite E1, E2; reflexivity.
  Qed.

  (** ... and when the board is mirrored left to right (castling rights are not an input of
      the network at all; they matter for the property only because a mirrored position with
      castling rights is not a legal position) *)
  Theorem mirror_invariant b kw kb wtm :
    validSq kw = true -> validSq kb = true ->
    nnInput (mirrorBoard b) (mirrorSq kw) (mirrorSq kb) wtm = nnInput b kw kb wtm.
  Proof.
    intros Hw Hb. unfold AccumSpec.nnInput.
    rewrite (fresh_mirror true kw b Hw), (fresh_mirror false kb b Hb). reflexivity.
  Qed.
End Sym.
