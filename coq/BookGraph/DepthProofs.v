(** updateDepth restores the depth equation "depth = 1 + smallest depth of a parent" (root: 0)
    everywhere after a parent link was added, and the depth equations are an invariant of the
    operation histories of GlobalProofs.v.  Plus: the local equations characterise the length of
    a shortest path from the root. *)
From Coq Require Import ZArith NArith List Bool Lia.
From Texel Require Import gen.BookConsts BookGraph.NMap BookGraph.BookGraph BookGraph.Equations
  BookGraph.ScoreFacts BookGraph.LocalProofs BookGraph.LinkProofs BookGraph.UniqueProofs BookGraph.FixProofs
  BookGraph.GlobalProofs.
Import ListNotations.
Local Open Scope Z_scope.

Section Relax.
  Variables (chm parm : nmap (list (N * N))) (r : N).
  (** every parent link has its child link (so that updateDepth reaches all affected nodes) *)
  Hypothesis Hlinks : forall x m p, In (m, p) (links_of parm x) -> In (m, x) (links_of chm p).

  (** relaxed: not deeper than one ply below each parent *)
  Definition Rx (dm : nmap Z) (x : N) : Prop := forall mp, In mp (links_of parm x) -> depth_of dm x <= depth_of dm (snd mp) + 1.
  (** supported: some parent is shallow enough *)
  Definition Sp (dm : nmap Z) (x : N) : Prop := exists mp, In mp (links_of parm x) /\ depth_of dm (snd mp) + 1 <= depth_of dm x.
  (** parents have a depth *)
  Definition FinPar (dm : nmap Z) : Prop := forall x mp, In mp (links_of parm x) -> depth_of dm (snd mp) < INT_MAX.
  Definition Safe (dm : nmap Z) : Prop :=
    (forall q, 0 <= depth_of dm q) /\ depth_of dm r = 0 /\
    (forall x, x <> r -> links_of parm x = [] -> depth_of dm x = depth_of dm x) /\
    (forall x, x <> r -> links_of parm x <> [] -> Sp dm x) /\ FinPar dm.

  Lemma Safe_write : forall dm n mp, Safe dm -> In mp (links_of parm n) ->
    depth_of dm n > depth_of dm (snd mp) + 1 -> Safe (nset n (depth_of dm (snd mp) + 1) dm).
  Proof.
    intros dm n mp [NN [R0 [_ [S F]]]] Hin G.
    assert (Hn : n <> r) by (intro; subst; specialize (NN (snd mp)); lia).
    assert (Hp : snd mp <> n) by (intro E; rewrite E in G; lia).
    split; [|split; [|split; [|split]]].
    - intro q. destruct (N.eq_dec q n) as [->|Hq]; [rewrite depth_of_set_same; specialize (NN (snd mp)); lia|].
      rewrite depth_of_set_other by exact Hq. apply NN.
    - rewrite depth_of_set_other by (intro; subst; contradiction). exact R0.
    - intros; reflexivity.
    - intros x Hx Hne. destruct (N.eq_dec x n) as [->|Hxn].
      + exists mp. split; [exact Hin|]. rewrite depth_of_set_same, depth_of_set_other by exact Hp. lia.
      + destruct (S x Hx Hne) as [mq [Hq Lq]]. exists mq. split; [exact Hq|].
        rewrite (depth_of_set_other dm n _ x) by exact Hxn.
        destruct (N.eq_dec (snd mq) n) as [E|Hqn]; [rewrite E, depth_of_set_same; rewrite E in Lq; lia|].
        rewrite depth_of_set_other by exact Hqn. exact Lq.
    - intros x mq Hq. destruct (N.eq_dec (snd mq) n) as [E|Hqn]; [pose proof (F x mq Hq) as Fq; rewrite E in *; rewrite depth_of_set_same; lia|].
      rewrite depth_of_set_other by exact Hqn. apply (F x mq Hq).
  Qed.

  Lemma Safe_updateDepth : forall f st n, Safe (fst st) -> Safe (fst (updateDepth f chm parm st n)).
  Proof. intros f st n. apply (updateDepth_pres chm parm Safe). intros dm x mp H Hin G. apply Safe_write; assumption. Qed.

  (** the loop over the parents when no parent needs a depth of its own first *)
  Lemma depthStep_fin : forall rec n dm err upd mp,
    depth_of dm (snd mp) < INT_MAX ->
    exists err', depthStep rec n (dm, err, upd) mp =
      if depth_of dm n >? depth_of dm (snd mp) + 1 then (nset n (depth_of dm (snd mp) + 1) dm, err', true) else (dm, err', upd).
  Proof.
    intros rec n dm err upd mp H. unfold depthStep.
    destruct (Z.eqb_spec (depth_of dm (snd mp)) INT_MAX) as [E|_]; [lia|].
    eexists. destruct (depth_of dm n >? depth_of dm (snd mp) + 1); reflexivity.
  Qed.

  Lemma parent_loop : forall rec n l dm err upd,
    Safe dm -> (forall mp, In mp l -> In mp (links_of parm n)) ->
    let '(dm', _, upd') := fold_left (depthStep rec n) l (dm, err, upd) in
    Safe dm' /\ (forall q, q <> n -> depth_of dm' q = depth_of dm q) /\ depth_of dm' n <= depth_of dm n /\
    (forall mp, In mp l -> depth_of dm' n <= depth_of dm (snd mp) + 1) /\
    (upd' = false -> upd = false /\ dm' = dm).
  Proof.
    intros rec n l. induction l as [|mp t IH]; intros dm err upd Sf Hs; cbn [fold_left].
    - split; [exact Sf|]. split; [reflexivity|]. split; [lia|]. split; [intros mp []|auto].
    - assert (Hin : In mp (links_of parm n)) by (apply Hs; left; reflexivity).
      destruct Sf as [NN [R0 [X [S F]]]] eqn:SfE. clear SfE.
      destruct (depthStep_fin rec n dm err upd mp (F n mp Hin)) as [err' E]. rewrite E.
      destruct (Z.gtb_spec (depth_of dm n) (depth_of dm (snd mp) + 1)) as [G|G].
      + assert (Sf' : Safe (nset n (depth_of dm (snd mp) + 1) dm)) by (apply Safe_write; [exact (conj NN (conj R0 (conj X (conj S F))))|exact Hin|lia]).
        specialize (IH (nset n (depth_of dm (snd mp) + 1) dm) err' true Sf' (fun m H => Hs m (or_intror H))).
        destruct (fold_left (depthStep rec n) t (nset n (depth_of dm (snd mp) + 1) dm, err', true)) as [[dm' e'] u'].
        destruct IH as [A [B [C [D Ee]]]].
        assert (Hp : snd mp <> n) by (intro E0; rewrite E0 in G; lia).
        split; [exact A|]. split; [intros q Hq; rewrite B by exact Hq; apply depth_of_set_other; exact Hq|].
        rewrite depth_of_set_same in C. split; [lia|]. split.
        * intros mq [<-|Hq]; [lia|]. specialize (D mq Hq).
          destruct (N.eq_dec (snd mq) n) as [E0|Hqn]; [rewrite E0, depth_of_set_same in D; rewrite E0; lia|].
          rewrite depth_of_set_other in D by exact Hqn. exact D.
        * intro H. destruct (Ee H) as [H1 _]. discriminate.
      + specialize (IH dm err' upd (conj NN (conj R0 (conj X (conj S F)))) (fun m H => Hs m (or_intror H))).
        destruct (fold_left (depthStep rec n) t (dm, err', upd)) as [[dm' e'] u'].
        destruct IH as [A [B [C [D Ee]]]].
        split; [exact A|]. split; [exact B|]. split; [exact C|]. split; [|exact Ee].
        intros mq [<-|Hq]; [lia|apply D; exact Hq].
  Qed.

  Lemma parent_loop_err : forall rec n l acc,
    (forall s x, (snd s <= snd (rec s x))%N) ->
    (snd (fst acc) <= snd (fst (fold_left (depthStep rec n) l acc)))%N.
  Proof.
    intros rec n l. induction l as [|mp t IH]; intros acc Hrec; cbn [fold_left]; [lia|].
    etransitivity; [|apply IH; exact Hrec]. destruct acc as [[dm err] upd]. cbn [fst snd]. unfold depthStep.
    destruct (depth_of dm (snd mp) =? INT_MAX).
    - pose proof (Hrec (dm, err) (snd mp)) as M. destruct (rec (dm, err) (snd mp)) as [dm1 err1]. cbn [snd] in M.
      destruct (_ || _); destruct (_ >? _); cbn [fst snd]; lia.
    - destruct (_ || _); destruct (_ >? _); cbn [fst snd]; lia.
  Qed.

  (** updateDepth n: n becomes relaxed, no relaxed node becomes unrelaxed *)
  Lemma updateDepth_relax : forall f st n,
    Safe (fst st) -> snd (updateDepth f chm parm st n) = 0%N ->
    Rx (fst (updateDepth f chm parm st n)) n /\
    forall x, Rx (fst st) x -> Rx (fst (updateDepth f chm parm st n)) x.
  Proof.
    induction f as [|f IH]; intros st n Sf E; cbn [updateDepth] in *.
    - cbn [snd] in E. unfold ERR_FUEL in E. lia.
    - pose proof (parent_loop (updateDepth f chm parm) n (links_of parm n) (fst st) (snd st) false Sf (fun _ H => H)) as PL.
      pose proof (parent_loop_err (updateDepth f chm parm) n (links_of parm n) (fst st, snd st, false)
                    (fun s x => updateDepth_err_mono chm parm f s x)) as PE.
      destruct (fold_left (depthStep (updateDepth f chm parm) n) (links_of parm n) (fst st, snd st, false)) as [[dm2 err2] upd].
      destruct PL as [Sf2 [Oth [Le [Bd Ee]]]]. cbn [fst snd] in PE.
      assert (Rn2 : Rx dm2 n).
      { intros mp Hin. specialize (Bd mp Hin).
        destruct (N.eq_dec (snd mp) n) as [E0|Hp]; [rewrite E0; lia|]. rewrite (Oth (snd mp) Hp). exact Bd. }
      assert (Roth : forall x, (forall m, ~ In (m, n) (links_of parm x)) -> Rx (fst st) x -> Rx dm2 x).
      { intros x Hx Rxx mp Hin. destruct (N.eq_dec x n) as [->|Hxn]; [apply Rn2; exact Hin|].
        rewrite (Oth x Hxn). specialize (Rxx mp Hin).
        destruct (N.eq_dec (snd mp) n) as [E0|Hp]; [exfalso; apply (Hx (fst mp)); rewrite <- E0; destruct mp; exact Hin|].
        rewrite (Oth (snd mp) Hp). exact Rxx. }
      destruct upd.
      + (* children *)
        assert (L : forall l s0, Safe (fst s0) ->
                    snd (fold_left (fun s (mc : N * N) => updateDepth f chm parm s (snd mc)) l s0) = 0%N ->
                    let rr := fold_left (fun s (mc : N * N) => updateDepth f chm parm s (snd mc)) l s0 in
                    (forall mc, In mc l -> Rx (fst rr) (snd mc)) /\ (forall x, Rx (fst s0) x -> Rx (fst rr) x)).
        { induction l as [|mc t IHl]; intros s0 S0 E0; cbn [fold_left] in *.
          - split; [intros mc []|auto].
          - assert (E1 : snd (updateDepth f chm parm s0 (snd mc)) = 0%N).
            { assert (M : forall l' s', (snd s' <= snd (fold_left (fun s (mc0 : N * N) => updateDepth f chm parm s (snd mc0)) l' s'))%N).
              { induction l' as [|y t' IHl']; intro s'; cbn [fold_left]; [lia|].
                etransitivity; [apply updateDepth_err_mono|apply IHl']. }
              specialize (M t (updateDepth f chm parm s0 (snd mc))). rewrite E0 in M. lia. }
            destruct (IH s0 (snd mc) S0 E1) as [A B].
            destruct (IHl (updateDepth f chm parm s0 (snd mc)) (Safe_updateDepth f s0 (snd mc) S0) E0) as [C D].
            split.
            + intros mc' [<-|H]; [apply D; exact A|apply C; exact H].
            + intros x Hx. apply D. apply B. exact Hx. }
        destruct (L (links_of chm n) (dm2, err2) Sf2 E) as [C D].
        split; [apply D; exact Rn2|].
        intros x Hx. destruct (in_dec N.eq_dec n (map snd (links_of parm x))) as [Hin|Hnin].
        * apply in_map_iff in Hin. destruct Hin as [[m p] [Ep Hp]]. cbn [snd] in Ep. subst p.
          apply (C (m, x)). apply (Hlinks x m n Hp).
        * apply D. apply Roth; [|exact Hx]. intros m H. apply Hnin. apply in_map_iff. exists (m, n). split; [reflexivity|exact H].
      + destruct (Ee eq_refl) as [_ ->]. cbn [fst]. split; [exact Rn2|]. intros x Hx. exact Hx.
  Qed.
End Relax.

(** nodes without parents are never written *)
Lemma updateDepth_noparent : forall chm parm f st n x,
  links_of parm x = [] -> depth_of (fst (updateDepth f chm parm st n)) x = depth_of (fst st) x.
Proof.
  intros chm parm f st n x Hx.
  apply (updateDepth_pres chm parm (fun dm => depth_of dm x = depth_of (fst st) x)); [|reflexivity].
  intros dm y mp H Hin _. rewrite depth_of_set_other; [exact H|]. intro E. subst y. rewrite Hx in Hin. destruct Hin.
Qed.

(** * the depth equation as relaxed + supported *)

Lemma eq_depth_elim : forall g x, eq_depth g x = true ->
  (x = bk_root g -> depth g x = 0) /\
  (x <> bk_root g -> parents g x = [] -> depth g x = INT_MAX) /\
  (x <> bk_root g -> parents g x <> [] ->
     (forall mp, In mp (parents g x) -> depth g x <= depth g (snd mp) + 1) /\
     (exists mp, In mp (parents g x) /\ depth g x = depth g (snd mp) + 1)).
Proof.
  intros g x E. unfold eq_depth in E. destruct (N.eqb_spec x (bk_root g)) as [Hr|Hr].
  - apply Z.eqb_eq in E. split; [auto|]. split; intro; contradiction.
  - split; [intro; contradiction|]. destruct (parents g x) as [|mp0 t] eqn:P.
    + apply Z.eqb_eq in E. split; [auto|]. intros _ H. contradiction.
    + split; [intros _ H; discriminate|]. intros _ _. apply is_min_elim in E. destruct E as [A B]. split.
      * intros mp Hin. apply A. apply in_map_iff. exists mp. split; [reflexivity|exact Hin].
      * apply in_map_iff in B. destruct B as [mp [Em Hin]]. exists mp. split; [exact Hin|lia].
Qed.

Lemma eq_depth_intro : forall g x,
  (x = bk_root g -> depth g x = 0) ->
  (x <> bk_root g -> parents g x = [] -> depth g x = INT_MAX) ->
  (x <> bk_root g -> parents g x <> [] ->
     (forall mp, In mp (parents g x) -> depth g x <= depth g (snd mp) + 1) /\
     (exists mp, In mp (parents g x) /\ depth g (snd mp) + 1 <= depth g x)) ->
  eq_depth g x = true.
Proof.
  intros g x H1 H2 H3. unfold eq_depth. destruct (N.eqb_spec x (bk_root g)) as [Hr|Hr].
  - apply Z.eqb_eq. auto.
  - destruct (parents g x) as [|mp0 t] eqn:P.
    + apply Z.eqb_eq. auto.
    + destruct (H3 Hr) as [A [mp [Hin B]]]; [discriminate|].
      apply is_min_intro.
      * intros v Hv. apply in_map_iff in Hv. destruct Hv as [mq [<- Hq]]. apply A. exact Hq.
      * apply in_map_iff. exists mp. split; [|exact Hin]. specialize (A mp Hin). lia.
Qed.

Section DepthInv.
  Variable succ : N -> N -> option N.

  (** the depth equations, with the root being a node *)
  Definition DI (g : book) : Prop :=
    In (bk_root g) (bk_keys g) /\ forall q, In q (bk_keys g) -> eq_depth g q = true.

  Lemma DI_frame : forall g g', bk_root g' = bk_root g -> bk_keys g' = bk_keys g ->
    bk_parents g' = bk_parents g -> bk_depth g' = bk_depth g -> DI g -> DI g'.
  Proof.
    intros g g' R K P D [A B]. split; [rewrite R, K; exact A|].
    intros q Kq. rewrite K in Kq. specialize (B q Kq). unfold eq_depth, parents, depth in *. rewrite R, P, D. exact B.
  Qed.

  Lemma link_DI : forall g p m c,
    Inv succ g -> In p (bk_keys g) -> In c (bk_keys g) -> succ p m = Some c ->
    (forall q, 0 <= depth g q) ->
    (forall x mp, In mp (parents (link g p m c) x) -> depth g (snd mp) < INT_MAX) ->
    DI g -> bk_err (link g p m c) = 0%N -> DI (link g p m c).
  Proof.
    intros g p m c I Kp Kc Hs NN FP [Kr DE] E.
    assert (I' : Inv succ (link g p m c)) by (apply Inv_link; assumption).
    pose proof (link_unfold g p m c) as U. cbn zeta in U.
    set (ch := nset p (ins_child m c (children g p)) (bk_children g)) in *.
    set (pa := nset c (ins_parent (bk_info g) m p (parents g c)) (bk_parents g)) in *.
    set (rr := updateDepth (fuel_of g) ch pa (bk_depth g, 0%N) c) in *.
    set (g' := link g p m c) in *.
    assert (Pg' : forall x, parents g' x = links_of pa x) by (intro x; unfold parents; rewrite U; reflexivity).
    assert (Cg' : forall x, children g' x = links_of ch x) by (intro x; unfold children; rewrite U; reflexivity).
    assert (Dg' : forall x, depth g' x = depth_of (fst rr) x) by (intro x; unfold depth; rewrite U; reflexivity).
    assert (Rg' : bk_root g' = bk_root g) by (rewrite U; reflexivity).
    assert (Kg' : bk_keys g' = bk_keys g) by (rewrite U; reflexivity).
    assert (Err : snd rr = 0%N) by (rewrite U in E; cbn [bk_err] in E; lia).
    (* parents in the new state *)
    assert (Pold : forall x, x <> c -> links_of pa x = parents g x).
    { intros x Hx. unfold pa, links_of. rewrite nget_nset_other by exact Hx. reflexivity. }
    assert (Pc : forall mp, In mp (links_of pa c) <-> mp = (m, p) \/ In mp (parents g c)).
    { intro mp. unfold pa, links_of. rewrite nget_nset_same. apply ins_parent_in. }
    assert (Hlinks : forall x m' p', In (m', p') (links_of pa x) -> In (m', x) (links_of ch p')).
    { intros x m' p' H. rewrite <- Pg' in H. rewrite <- Cg'. apply (inv_parent succ g' I' x m' p' H). }
    assert (Droot : depth g (bk_root g) = 0) by (apply (eq_depth_elim g _ (DE _ Kr)); reflexivity).
    assert (Sf : Safe pa (bk_root g) (bk_depth g)).
    { split; [exact NN|]. split; [exact Droot|]. split; [reflexivity|]. split.
      - intros x Hx Hne. unfold Sp. destruct (N.eq_dec x c) as [->|Hxc].
        + destruct (parents g c) as [|mp0 t] eqn:Pcg.
          * exists (m, p). split; [apply Pc; left; reflexivity|]. cbn [snd].
            pose proof (FP c (m, p)) as F. rewrite Pg' in F. specialize (F (proj2 (Pc (m, p)) (or_introl eq_refl))). cbn [snd] in F.
            destruct (eq_depth_elim g c (DE c Kc)) as [_ [Hx2 _]]. fold (depth g c). rewrite (Hx2 Hx Pcg). fold (depth g p). unfold depth in *. lia.
          * destruct (eq_depth_elim g c (DE c Kc)) as [_ [_ Hx3]]. destruct (Hx3 Hx) as [_ [mp [Hin Eq]]]; [rewrite Pcg; discriminate|].
            exists mp. split; [apply Pc; right; rewrite <- Pcg; exact Hin|]. unfold depth in Eq. lia.
        + rewrite (Pold x Hxc) in Hne. rewrite (Pold x Hxc).
          assert (Kx : In x (bk_keys g)).
          { destruct (parents g x) as [|[m' p'] t] eqn:Px; [contradiction|].
            assert (Hin : In (m', p') (parents g x)) by (rewrite Px; left; reflexivity).
            pose proof (inv_parent succ g I x m' p' Hin) as C. apply (inv_child succ g I p' m' x C). }
          destruct (eq_depth_elim g x (DE x Kx)) as [_ [_ Hx3]]. destruct (Hx3 Hx Hne) as [_ [mp [Hin Eq]]].
          exists mp. split; [exact Hin|]. unfold depth in Eq. lia.
      - intros x mp Hin. rewrite <- Pg' in Hin. apply (FP x mp Hin). }
    destruct (updateDepth_relax ch pa (bk_root g) Hlinks (fuel_of g) (bk_depth g, 0%N) c Sf Err) as [Rc Rpres].
    fold rr in Rc, Rpres.
    pose proof (Safe_updateDepth ch pa (bk_root g) (fuel_of g) (bk_depth g, 0%N) c Sf) as Sf'. fold rr in Sf'.
    destruct Sf' as [NN' [R0' [_ [Sp' _]]]].
    split; [rewrite Rg', Kg'; exact Kr|].
    intros q Kq. rewrite Kg' in Kq. apply eq_depth_intro; rewrite ?Rg'.
    - intros ->. rewrite Dg'. exact R0'.
    - intros Hq Hnp. rewrite Dg'. rewrite Pg' in Hnp. unfold rr. rewrite updateDepth_noparent by exact Hnp. cbn [fst].
      assert (Hqc : q <> c). { intro; subst q. pose proof (proj2 (Pc (m, p)) (or_introl eq_refl)) as H. rewrite Hnp in H. destruct H. }
      rewrite (Pold q Hqc) in Hnp. apply (eq_depth_elim g q (DE q Kq)); assumption.
    - intros Hq Hnp. rewrite Pg' in Hnp. split.
      + intros mp Hin. rewrite Pg' in Hin. rewrite !Dg'.
        destruct (N.eq_dec q c) as [->|Hqc]; [apply Rc; exact Hin|].
        apply Rpres; [|exact Hin]. intros mq Hmq. cbn [fst]. rewrite (Pold q Hqc) in Hmq, Hnp.
        destruct (eq_depth_elim g q (DE q Kq)) as [_ [_ Hx3]]. destruct (Hx3 Hq Hnp) as [A _]. apply A. exact Hmq.
      + destruct (Sp' q Hq Hnp) as [mp [Hin L]]. exists mp. rewrite Pg', !Dg'. split; assumption.
  Qed.
End DepthInv.

(** * the depth equations over operation histories *)
Section DepthHist.
  Variable succ : N -> N -> option N.
  Variable rk : N -> Z.
  Variable wtm : N -> bool.
  Hypothesis Hrk : forall p m c, succ p m = Some c -> rk p < rk c.
  Hypothesis Hwtm : forall p m c, succ p m = Some c -> wtm c = negb (wtm p).
  Variables (rq : bool) (bd : bdata).
  Hypothesis Hk : costs_nonneg' bd.

  Lemma fold_link_err_mono : forall h l g0, (bk_err g0 <= bk_err (fold_left (fun g mp => link g (snd mp) (fst mp) h) l g0))%N.
  Proof. intros h. induction l as [|mp t IH]; intro g0; cbn [fold_left]; [lia|]. etransitivity; [apply link_err_mono|apply IH]. Qed.

  Lemma fold_plinks_DI : forall pl g h,
    Inv succ g -> In h (bk_keys g) ->
    (forall m p, In (m, p) pl -> In p (bk_keys g) /\ succ p m = Some h /\ p <> h) ->
    Par wtm (bk_depth g) -> NonNeg (bk_depth g) -> DI g ->
    (forall q, In q (bk_keys g) -> q <> h -> depth g q < INT_MAX) -> children g h = [] ->
    bk_err (fold_left (fun g mp => link g (snd mp) (fst mp) h) pl g) = 0%N ->
    DI (fold_left (fun g mp => link g (snd mp) (fst mp) h) pl g).
  Proof.
    induction pl as [|[m p] t IH]; intros g h I Kh Hpl Pa NN D FK Ch E; cbn [fold_left] in *; [exact D|].
    cbn [fst snd] in *. destruct (Hpl m p (or_introl eq_refl)) as [Kp [Sp0 Hph]].
    destruct (link_step succ wtm Hwtm g p m h I Kp Kh Sp0 Pa NN) as [I1 [Pa1 [NN1 [K1 [F1 [S1 [Pe1 [R1 [C1 [D1 [B1 E1]]]]]]]]]]].
    set (g1 := link g p m h) in *.
    assert (Eg1 : bk_err g1 = 0%N).
    { pose proof (fold_link_err_mono h t g1) as M. rewrite E in M. lia. }
    assert (Ch1 : children g1 h = []) by (rewrite C1 by (intro; subst; contradiction); exact Ch).
    assert (DI1 : DI g1).
    { apply (link_DI succ); try assumption.
      intros x [m' p'] Hin. cbn [snd].
      pose proof (inv_parent succ g1 I1 x m' p' Hin) as Cx.
      destruct (inv_child succ g1 I1 p' m' x Cx) as [Kp' _]. rewrite K1 in Kp'.
      apply FK; [exact Kp'|]. intro; subst p'. rewrite Ch1 in Cx. destruct Cx. }
    apply IH; try assumption.
    - rewrite K1. exact Kh.
    - intros m' p' H. rewrite K1. apply Hpl. right; exact H.
    - intros q Kq Hq. rewrite K1 in Kq. specialize (D1 q). specialize (FK q Kq Hq). lia.
  Qed.

  Lemma fold_clinks_DI : forall cl g h,
    Inv succ g -> In h (bk_keys g) -> succ_list_ok succ h cl ->
    Par wtm (bk_depth g) -> NonNeg (bk_depth g) -> DI g ->
    (forall q, In q (bk_keys g) -> depth g q < INT_MAX) ->
    bk_err (setChildRefs g h cl) = 0%N -> DI (setChildRefs g h cl).
  Proof.
    unfold setChildRefs. induction cl as [|[m c] t IH]; intros g h I Kh Hs Pa NN D FK E; cbn [fold_left] in *; [exact D|].
    cbn [fst snd] in *. destruct (has_node g c) eqn:HN.
    - assert (Kc : In c (bk_keys g)) by (apply (inv_keys succ g I); exact HN).
      assert (Sc : succ h m = Some c) by (apply Hs; left; reflexivity).
      destruct (link_step succ wtm Hwtm g h m c I Kh Kc Sc Pa NN) as [I1 [Pa1 [NN1 [K1 [F1 [S1 [Pe1 [R1 [C1 [D1 [B1 E1]]]]]]]]]]].
      set (g1 := link g h m c) in *.
      assert (Eg1 : bk_err g1 = 0%N).
      { pose proof (setChildRefs_err_mono t g1 h) as M. unfold setChildRefs in M. rewrite E in M. lia. }
      assert (DI1 : DI g1).
      { apply (link_DI succ); try assumption.
        intros x [m' p'] Hin. cbn [snd].
        pose proof (inv_parent succ g1 I1 x m' p' Hin) as Cx.
        destruct (inv_child succ g1 I1 p' m' x Cx) as [Kp' _]. rewrite K1 in Kp'. apply FK. exact Kp'. }
      apply IH; try assumption.
      + rewrite K1. exact Kh.
      + intros m' c' H. apply Hs. right; exact H.
      + intros q Kq. rewrite K1 in Kq. specialize (D1 q). specialize (FK q Kq). lia.
    - apply IH; try assumption. intros m' c' H. apply Hs. right; exact H.
  Qed.

  Lemma eq_depth_ext : forall g1 g2 x,
    bk_root g1 = bk_root g2 -> parents g1 x = parents g2 x -> depth g1 x = depth g2 x ->
    (forall mp, In mp (parents g1 x) -> depth g1 (snd mp) = depth g2 (snd mp)) ->
    eq_depth g1 x = eq_depth g2 x.
  Proof.
    intros g1 g2 x R P D Dp. unfold eq_depth. rewrite <- R, <- P, <- D.
    destruct (N.eqb x (bk_root g1)); [reflexivity|].
    destruct (parents g1 x) as [|mp0 t] eqn:E; [reflexivity|].
    f_equal. apply map_ext_in. intros mp H. rewrite Dp by exact H. reflexivity.
  Qed.

  Lemma DI_opAdd : forall g h addr pl cl,
    GI succ wtm bd g -> DI g -> op_wf succ g (OpAdd h addr pl cl) -> pl <> [] ->
    Z.of_nat (length (bk_keys g)) + 1 < INT_MAX ->
    bk_err (opAdd rq bd g h addr pl cl) = 0%N -> DI (opAdd rq bd g h addr pl cl).
  Proof.
    intros g h addr pl cl G [Kr DE] [Hfresh [Hpl Hcl]] Hne Hsz E. unfold opAdd in *.
    pose proof (gi_inv succ wtm bd g G) as I.
    destruct (no_links_outside succ g h I Hfresh) as [C0 P0].
    set (g0 := new_node g h addr (mkInfo addr 0 INVALID_SCORE 0 ST_EMPTY) INT_MAX default_scores) in *.
    assert (I0 : Inv succ g0) by (apply Inv_new_node; assumption).
    assert (K0 : bk_keys g0 = h :: bk_keys g).
    { unfold g0, new_node. cbn [bk_keys]. unfold add_key.
      destruct (mem h (bk_keys g)) eqn:M; [apply mem_in in M; contradiction|reflexivity]. }
    assert (Kh0 : In h (bk_keys g0)) by (rewrite K0; left; reflexivity).
    assert (Hhr : h <> bk_root g) by (intro; subst; contradiction).
    assert (D0 : forall q, q <> h -> depth g0 q = depth g q).
    { intros q Hq. unfold depth, g0, new_node. cbn [bk_depth]. apply depth_of_set_other. exact Hq. }
    assert (Dh0 : depth g0 h = INT_MAX) by (unfold depth, g0, new_node; cbn [bk_depth]; apply depth_of_set_same).
    assert (P0' : forall q, parents g0 q = parents g q).
    { intro q. unfold parents, g0, new_node. cbn [bk_parents]. unfold links_of. rewrite nget_nset.
      destruct (N.eqb_spec q h) as [->|_]; [symmetry; exact P0|reflexivity]. }
    assert (C0' : forall q, children g0 q = children g q).
    { intro q. unfold children, g0, new_node. cbn [bk_children]. unfold links_of. rewrite nget_nset.
      destruct (N.eqb_spec q h) as [->|_]; [symmetry; exact C0|reflexivity]. }
    assert (Pa0 : Par wtm (bk_depth g0)).
    { destruct (gi_par succ wtm bd g G) as [B Pr]. unfold g0, new_node. cbn [bk_depth]. split; intro q.
      - destruct (N.eq_dec q h) as [->|Hq]; [rewrite depth_of_set_same; lia|rewrite depth_of_set_other by exact Hq; apply B].
      - destruct (N.eq_dec q h) as [->|Hq]; [rewrite depth_of_set_same; lia|rewrite depth_of_set_other by exact Hq; apply Pr]. }
    assert (NN0 : NonNeg (bk_depth g0)).
    { intro q. unfold g0, new_node. cbn [bk_depth].
      destruct (N.eq_dec q h) as [->|Hq]; [rewrite depth_of_set_same; rewrite INT_MAX_val; lia|rewrite depth_of_set_other by exact Hq; apply (gi_nonneg succ wtm bd g G)]. }
    assert (DI0 : DI g0).
    { split; [change (bk_root g0) with (bk_root g); rewrite K0; right; exact Kr|].
      intros q Kq. rewrite K0 in Kq. destruct Kq as [<-|Kq].
      - apply eq_depth_intro; change (bk_root g0) with (bk_root g).
        + intro; contradiction.
        + intros _ _. exact Dh0.
        + intros _ Hp. rewrite P0', P0 in Hp. contradiction.
      - assert (Hq : q <> h) by (intro; subst; contradiction).
        rewrite (eq_depth_ext g0 g q); [apply DE; exact Kq|reflexivity|apply P0'|apply D0; exact Hq|].
        intros [m p] Hin. cbn [snd]. apply D0. rewrite P0' in Hin.
        pose proof (inv_parent succ g I q m p Hin) as C. destruct (inv_child succ g I p m q C) as [Kp _].
        intro; subst; contradiction. }
    assert (FK0 : forall q, In q (bk_keys g0) -> q <> h -> depth g0 q < INT_MAX).
    { intros q Kq Hq. rewrite K0 in Kq. destruct Kq as [E0|Kq]; [congruence|].
      rewrite D0 by exact Hq. pose proof (gi_fin succ wtm bd g G q Kq). lia. }
    assert (Hpl0 : forall m p, In (m, p) pl -> In p (bk_keys g0) /\ succ p m = Some h /\ p <> h).
    { intros m p H. destruct (Hpl m p H) as [A B]. split; [rewrite K0; right; exact A|]. split; [exact B|]. intro; subst; contradiction. }
    (* error codes of the intermediate states *)
    set (g2 := fold_left (fun g mp => link g (snd mp) (fst mp) h) pl g0) in *.
    set (g3 := setChildRefs g2 h cl) in *.
    assert (E3 : bk_err g3 = 0%N).
    { pose proof (updateScores_err_mono rq bd g3 h) as M. change (bk_err (updateScores rq bd g3 h) = 0%N) in E. rewrite E in M. lia. }
    assert (E2 : bk_err g2 = 0%N).
    { pose proof (setChildRefs_err_mono cl g2 h) as M. fold g3 in M. rewrite E3 in M. lia. }
    destruct (fold_plinks succ wtm Hwtm pl g0 h I0 Kh0) as [I2 [Pa2 [NN2 [K2 [F2 [S2 [Pe2 [C2 [D2 [B2 [_ _]]]]]]]]]]]; try assumption.
    { intros m p H. destruct (Hpl0 m p H) as [A [B _]]. split; assumption. }
    fold g2 in I2, Pa2, NN2, K2, F2, S2, Pe2, C2, D2, B2.
    assert (DI2 : DI g2).
    { apply fold_plinks_DI; try assumption. rewrite C0'. exact C0. }
    assert (FK2 : forall q, In q (bk_keys g2) -> depth g2 q < INT_MAX).
    { intros q Kq. rewrite K2, K0 in Kq. destruct Kq as [<-|Kq].
      - destruct pl as [|[m p] t]; [contradiction|].
        destruct (B2 m p (or_introl eq_refl)) as [Bh _]. destruct (Hpl m p (or_introl eq_refl)) as [Kp _].
        assert (Hp : p <> h) by (intro; subst; contradiction).
        pose proof (gi_fin succ wtm bd g G p Kp). rewrite (D0 p Hp) in Bh. lia.
      - assert (Hq : q <> h) by (intro; subst; contradiction).
        specialize (D2 q). assert (Kq0 : In q (bk_keys g0)) by (rewrite K0; right; exact Kq).
        pose proof (FK0 q Kq0 Hq). lia. }
    assert (DI3 : DI g3).
    { apply fold_clinks_DI; try assumption. rewrite K2. exact Kh0. }
    destruct (updateScores_fields rq bd g3 h) as [K4 [F4 [C4 [P4 [R4 [D4 _]]]]]].
    apply (DI_frame (updateScores rq bd g3 h)); try reflexivity.
    apply (DI_frame g3); assumption.
  Qed.

  (** the combined invariant *)
  Definition JI (g : book) : Prop := GI succ wtm bd g /\ DI g.

  Lemma JI_apply_op : forall g o, JI g -> op_ok succ g o -> bk_err (apply_op rq bd g o) = 0%N -> JI (apply_op rq bd g o).
  Proof.
    intros g o [G D] W E. split; [apply (GI_apply_op succ rk wtm Hrk Hwtm rq bd Hk); assumption|].
    destruct W as [W X]. destruct o as [h addr pl cl|h mv s t|h|h|recs addrs sl]; cbn [apply_op] in *.
    - destruct X as [X1 X2]. apply DI_opAdd; assumption.
    - unfold opSet. destruct (updateScores_fields rq bd (set_info g h (mkInfo (ni_addr (info g h)) mv (wrap16 s) t (ni_state (info g h)))) h) as [K4 [F4 [C4 [P4 [R4 [D4 _]]]]]].
      apply (DI_frame g); try assumption.
    - unfold opPend. destruct (updateScores_fields rq bd (set_pending g (add_key h (bk_pending g))) h) as [K4 [F4 [C4 [P4 [R4 [D4 _]]]]]].
      apply (DI_frame g); try assumption.
    - unfold opUnpend. destruct (updateScores_fields rq bd (set_pending g (filter (fun x => negb (N.eqb x h)) (bk_pending g))) h) as [K4 [F4 [C4 [P4 [R4 [D4 _]]]]]].
      apply (DI_frame g); try assumption.
    - destruct X.
  Qed.

  Lemma JI_run : forall ops g, JI g -> ops_ok succ rq bd g ops -> bk_err (run rq bd g ops) = 0%N -> JI (run rq bd g ops).
  Proof.
    induction ops as [|o t IH]; intros g J H E; cbn [run fold_left] in *; [exact J|].
    destruct H as [H1 H2].
    assert (E1 : bk_err (apply_op rq bd g o) = 0%N).
    { pose proof (run_err_mono succ rq bd t _ H2) as M. unfold run in M. rewrite E in M. lia. }
    apply IH; [apply JI_apply_op; assumption|exact H2|exact E].
  Qed.

  Lemma DI_newBook : forall r a, DI (newBook r a).
  Proof.
    intros r a. rewrite newBook_eq.
    set (g := new_node (empty_book r) r a (mkInfo a 0 INVALID_SCORE 0 ST_INITIALIZED) 0 root_scores).
    assert (K : bk_keys g = [r]) by reflexivity.
    split; [rewrite K; left; reflexivity|].
    intros q Kq. rewrite K in Kq. destruct Kq as [<-|[]].
    unfold eq_depth. change (bk_root g) with r. rewrite N.eqb_refl.
    unfold depth, g, new_node. cbn [bk_depth]. rewrite depth_of_set_same. reflexivity.
  Qed.

  (** negamax, expansion costs, links AND depth after every add/set/pending history *)
  Theorem fixpoint_partial_depth : forall root addr ops,
    wtm root = true ->
    ops_ok succ rq bd (newBook root addr) ops ->
    let g := run rq bd (newBook root addr) ops in
    bk_err g = 0%N ->
    forall q, In q (bk_keys g) ->
      eq_negamax g q = true /\ eq_cost bd g q true = true /\ eq_cost bd g q false = true /\
      eq_depth g q = true /\ eq_links g q = true.
  Proof.
    intros root addr ops Hr W g E q Kq.
    assert (J : JI g).
    { apply JI_run; [split; [apply (GI_newBook succ wtm bd); exact Hr|apply DI_newBook]|exact W|exact E]. }
    destruct J as [G [_ D]].
    destruct (gi_good succ wtm bd g G q Kq) as [A [B C]].
    split; [exact A|]. split; [exact B|]. split; [exact C|]. split; [apply D; exact Kq|].
    apply (Inv_eq_links succ g (gi_inv succ wtm bd g G)). exact Kq.
  Qed.
End DepthHist.

(** * the local depth equations mean "length of a shortest path from the root" *)
Inductive path (g : book) (a : N) : N -> nat -> Prop :=
| path_nil : path g a a 0
| path_step : forall b c m k, path g a b k -> In (m, c) (children g b) -> path g a c (S k).

Section Shortest.
  Variable g : book.
  Hypothesis Hroot : In (bk_root g) (bk_keys g).
  Hypothesis Heq : forall q, In q (bk_keys g) -> eq_depth g q = true /\ eq_links g q = true.
  Hypothesis Hnn : forall q, 0 <= depth g q.

  Lemma path_keys : forall n k, path g (bk_root g) n k -> In n (bk_keys g).
  Proof.
    intros n k P. induction P as [|b c m k P IH Hc]; [exact Hroot|].
    destruct (Heq b IH) as [_ L]. eapply eq_links_child; eauto.
  Qed.

  (** no path from the root is shorter than the stored depth *)
  Theorem depth_lower_bound : forall n k, path g (bk_root g) n k -> depth g n <= Z.of_nat k.
  Proof.
    intros n k P. induction P as [|b c m k P IH Hc].
    - destruct (Heq _ Hroot) as [D _]. destruct (eq_depth_elim g _ D) as [D0 _]. rewrite D0 by reflexivity. lia.
    - assert (Kb : In b (bk_keys g)) by (eapply path_keys; eauto).
      destruct (Heq b Kb) as [_ Lb].
      assert (Kc : In c (bk_keys g)) by (eapply eq_links_child; eauto).
      destruct (Heq c Kc) as [Dc Lc]. destruct (eq_depth_elim g c Dc) as [D0 [_ D2]].
      destruct (N.eq_dec c (bk_root g)) as [E|Hne]; [rewrite (D0 E); lia|].
      (* the child link has its parent link *)
      assert (Hp : In (m, b) (parents g c)).
      { unfold eq_links in Lb. apply andb_prop in Lb. destruct Lb as [Lb _]. rewrite forallb_forall in Lb.
        specialize (Lb _ Hc). apply andb_prop in Lb. destruct Lb as [_ Lb]. unfold has_parent_link in Lb.
        apply existsb_exists in Lb. destruct Lb as [[m' p'] [Hin E2]]. cbn [fst snd] in E2.
        apply andb_prop in E2. destruct E2 as [E3 E4]. apply N.eqb_eq in E3, E4. subst. exact Hin. }
      destruct (D2 Hne) as [R _]; [intro E; rewrite E in Hp; destruct Hp|].
      specialize (R _ Hp). cbn [snd] in R. rewrite Nat2Z.inj_succ. lia.
  Qed.

  (** and a path of exactly that length exists *)
  Theorem depth_attained : forall n, In n (bk_keys g) -> depth g n < INT_MAX ->
    path g (bk_root g) n (Z.to_nat (depth g n)).
  Proof.
    assert (G : forall k n, In n (bk_keys g) -> depth g n < INT_MAX -> (Z.to_nat (depth g n) < k)%nat ->
                path g (bk_root g) n (Z.to_nat (depth g n))).
    { induction k as [|k IH]; intros n Kn Hfin Hk; [lia|].
      destruct (Heq n Kn) as [Dn Ln]. destruct (eq_depth_elim g n Dn) as [D0 [D1 D2]].
      destruct (N.eq_dec n (bk_root g)) as [E|Hne].
      - rewrite (D0 E). rewrite E. apply path_nil.
      - destruct (parents g n) as [|mp0 t] eqn:P; [rewrite (D1 Hne eq_refl) in Hfin; lia|].
        destruct (D2 Hne) as [_ [[m p] [Hin Ed]]]; [discriminate|]. cbn [snd] in Ed.
        rewrite <- P in Hin. destruct (eq_links_parent g n m p Ln Hin) as [Kp Cp].
        pose proof (Hnn p) as Np.
        assert (Pp : path g (bk_root g) p (Z.to_nat (depth g p))) by (apply IH; [exact Kp|lia|lia]).
        replace (Z.to_nat (depth g n)) with (S (Z.to_nat (depth g p))) by lia.
        eapply path_step; eauto. }
    intros n Kn Hfin. apply (G (S (Z.to_nat (depth g n)))); [exact Kn|exact Hfin|lia].
  Qed.

  Theorem depth_shortest :
    (forall n k, path g (bk_root g) n k -> depth g n <= Z.of_nat k) /\
    (forall n, In n (bk_keys g) -> depth g n < INT_MAX -> path g (bk_root g) n (Z.to_nat (depth g n))).
  Proof. split; [exact depth_lower_bound|exact depth_attained]. Qed.
End Shortest.
