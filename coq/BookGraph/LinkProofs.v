(** Child/parent links are mutually inverse after every operation: an invariant of all
    operation histories whose chess inputs (which move leads from which position to which)
    come from one function [succ] -- the oracle relation of the design. *)
From Coq Require Import ZArith NArith List Bool Lia.
From Texel Require Import gen.BookConsts BookGraph.NMap BookGraph.BookGraph BookGraph.Equations.
Import ListNotations.
Local Open Scope Z_scope.

(** * membership in the sorted link lists *)

Lemma ins_child_in : forall m c l x, In x (ins_child m c l) -> x = (m, c) \/ In x l.
Proof.
  intros m c l x. induction l as [|[m' c'] t IH]; cbn [ins_child].
  - intros [<-|[]]. left; reflexivity.
  - destruct (N.ltb m m'); [intros [<-|H]; [left; reflexivity|right; exact H]|].
    destruct (N.eqb m m'); [intro H; right; exact H|].
    intros [<-|H]; [right; left; reflexivity|].
    destruct (IH H) as [E|I]; [left; exact E|right; right; exact I].
Qed.

Lemma ins_child_incl : forall m c l x, In x l -> In x (ins_child m c l).
Proof.
  intros m c l x. induction l as [|[m' c'] t IH]; cbn [ins_child]; [intros []|].
  intro H. destruct (N.ltb m m'); [right; exact H|].
  destruct (N.eqb m m'); [exact H|].
  destruct H as [<-|H]; [left; reflexivity|right; apply IH; exact H].
Qed.

Lemma ins_child_has : forall m c l, In (m, c) (ins_child m c l) \/ exists c', In (m, c') l.
Proof.
  intros m c l. induction l as [|[m' c'] t IH]; cbn [ins_child].
  - left. left. reflexivity.
  - destruct (N.ltb m m'); [left; left; reflexivity|].
    destruct (N.eqb_spec m m') as [->|_]; [right; exists c'; left; reflexivity|].
    destruct IH as [I|[c'' I]]; [left; right; exact I|right; exists c''; right; exact I].
Qed.

Lemma ins_parent_in : forall im m p l x, In x (ins_parent im m p l) <-> x = (m, p) \/ In x l.
Proof.
  intros im m p l x. induction l as [|[m' p'] t IH]; cbn [ins_parent].
  - split; [intros [<-|[]]; left; reflexivity|intros [->|[]]; left; reflexivity].
  - destruct (N.eqb_spec m m') as [->|Hm]; cbn [andb].
    + destruct (N.eqb_spec p p') as [->|Hp].
      * split; [intro H; right; exact H|intros [->|H]; [left; reflexivity|exact H]].
      * destruct (N.ltb m' m' || N.ltb _ _).
        -- split; [intros [<-|H]; [left; reflexivity|right; exact H]|intros [->|H]; [left; reflexivity|right; exact H]].
        -- split.
           ++ intros [<-|H]; [right; left; reflexivity|]. apply IH in H. destruct H as [E|I]; [left; exact E|right; right; exact I].
           ++ intros [->|[<-|H]]; [right; apply IH; left; reflexivity|left; reflexivity|right; apply IH; right; exact H].
    + destruct (N.ltb m m' || false).
      * split; [intros [<-|H]; [left; reflexivity|right; exact H]|intros [->|H]; [left; reflexivity|right; exact H]].
      * split.
        -- intros [<-|H]; [right; left; reflexivity|]. apply IH in H. destruct H as [E|I]; [left; exact E|right; right; exact I].
        -- intros [->|[<-|H]]; [right; apply IH; left; reflexivity|left; reflexivity|right; apply IH; right; exact H].
Qed.

Lemma assoc_of_in : forall m c l, In (m, c) l -> exists c', assoc m l = Some c' /\ In (m, c') l.
Proof.
  intros m c l. induction l as [|[m' c'] t IH]; [intros []|]. cbn [assoc].
  intro H. destruct (N.eqb_spec m m') as [->|Hne].
  - exists c'. split; [reflexivity|left; reflexivity].
  - destruct H as [E|H]; [inversion E; subst; contradiction|].
    destruct (IH H) as [c'' [A I]]. exists c''. split; [exact A|right; exact I].
Qed.

Lemma mem_in : forall x l, mem x l = true <-> In x l.
Proof.
  intros x l. unfold mem. rewrite existsb_exists. split.
  - intros [y [Hy E]]. apply N.eqb_eq in E. subst y. exact Hy.
  - intro H. exists x. split; [exact H|apply N.eqb_refl].
Qed.

(** * the invariant *)

Section Links.
  Variable succ : N -> N -> option N.    (* position -> compressed move -> successor position *)

  Record Inv (g : book) : Prop := mkInv {
    inv_keys : forall n, has_node g n = true <-> In n (bk_keys g);
    inv_child : forall p m c, In (m, c) (children g p) ->
                In p (bk_keys g) /\ In c (bk_keys g) /\ In (m, p) (parents g c) /\ succ p m = Some c;
    inv_parent : forall c m p, In (m, p) (parents g c) -> In (m, c) (children g p)
  }.

  (** the executable check used by the finder follows from the invariant *)
  Lemma Inv_eq_links : forall g, Inv g -> forall n, In n (bk_keys g) -> eq_links g n = true.
  Proof.
    intros g I n Hn. unfold eq_links. apply andb_true_intro. split.
    - apply forallb_forall. intros [m c] H. cbn [fst snd].
      destruct (inv_child g I n m c H) as [_ [Hc [Hp _]]].
      apply andb_true_intro. split; [apply mem_in; exact Hc|].
      unfold has_parent_link. apply existsb_exists. exists (m, n). split; [exact Hp|].
      cbn [fst snd]. rewrite !N.eqb_refl. reflexivity.
    - apply forallb_forall. intros [m p] H. cbn [fst snd].
      pose proof (inv_parent g I n m p H) as Hc.
      destruct (inv_child g I p m n Hc) as [Hp [_ [_ S]]].
      apply andb_true_intro. split; [apply mem_in; exact Hp|].
      unfold has_child_link. destruct (assoc_of_in m n _ Hc) as [c' [A I']]. rewrite A.
      destruct (inv_child g I p m c' I') as [_ [_ [_ S']]]. rewrite S in S'. inversion S'. apply N.eqb_refl.
  Qed.

  (** mutual inverse, as stated in the property *)
  Lemma Inv_inverse : forall g, Inv g -> forall p m c, In (m, c) (children g p) <-> In (m, p) (parents g c).
  Proof.
    intros g I p m c. split; intro H.
    - destruct (inv_child g I p m c H) as [_ [_ [Hp _]]]. exact Hp.
    - apply (inv_parent g I). exact H.
  Qed.

  (** frame: anything that keeps keys, node set and links keeps the invariant *)
  Lemma Inv_frame : forall g g',
    bk_keys g' = bk_keys g -> (forall n, has_node g' n = has_node g n) ->
    bk_children g' = bk_children g -> bk_parents g' = bk_parents g -> Inv g -> Inv g'.
  Proof.
    intros g g' K H C P I. constructor.
    - intro n. rewrite H, K. apply (inv_keys g I).
    - intros p m c. unfold children, parents. rewrite C, P, K. apply (inv_child g I).
    - intros c m p. unfold children, parents. rewrite C, P. apply (inv_parent g I).
  Qed.

  (** ** link *)
  Lemma link_fields : forall g p m c,
    bk_keys (link g p m c) = bk_keys g /\ bk_info (link g p m c) = bk_info g /\
    bk_children (link g p m c) = nset p (ins_child m c (children g p)) (bk_children g) /\
    bk_parents (link g p m c) = nset c (ins_parent (bk_info g) m p (parents g c)) (bk_parents g) /\
    bk_root (link g p m c) = bk_root g.
  Proof.
    intros g p m c. unfold link.
    destruct (updateDepth _ _ _ _ _) as [dm err]. cbn. repeat split; reflexivity.
  Qed.

  Lemma children_link : forall g p m c q,
    children (link g p m c) q = if N.eqb q p then ins_child m c (children g p) else children g q.
  Proof.
    intros g p m c q. destruct (link_fields g p m c) as [_ [_ [C _]]].
    unfold children at 1. rewrite C. unfold links_of. rewrite nget_nset.
    destruct (N.eqb q p); reflexivity.
  Qed.

  Lemma parents_link : forall g p m c q,
    parents (link g p m c) q = if N.eqb q c then ins_parent (bk_info g) m p (parents g c) else parents g q.
  Proof.
    intros g p m c q. destruct (link_fields g p m c) as [_ [_ [_ [P _]]]].
    unfold parents at 1. rewrite P. unfold links_of. rewrite nget_nset.
    destruct (N.eqb q c); reflexivity.
  Qed.

  Lemma has_node_link : forall g p m c q, has_node (link g p m c) q = has_node g q.
  Proof. intros g p m c q. destruct (link_fields g p m c) as [_ [I _]]. unfold has_node. rewrite I. reflexivity. Qed.

  Lemma Inv_link : forall g p m c,
    Inv g -> In p (bk_keys g) -> In c (bk_keys g) -> succ p m = Some c -> Inv (link g p m c).
  Proof.
    intros g p m c I Hp Hc S.
    destruct (link_fields g p m c) as [K _].
    assert (NewIn : In (m, c) (ins_child m c (children g p))).
    { destruct (ins_child_has m c (children g p)) as [H|[c' H]]; [exact H|].
      destruct (inv_child g I p m c' H) as [_ [_ [_ S']]]. rewrite S in S'. inversion S'; subst c'.
      apply ins_child_incl. exact H. }
    constructor.
    - intro n. rewrite has_node_link, K. apply (inv_keys g I).
    - intros p' m' c' H. rewrite K. rewrite children_link in H.
      destruct (N.eqb_spec p' p) as [->|Hne].
      + apply ins_child_in in H. destruct H as [E|H].
        * inversion E; subst m' c'. repeat split; try assumption.
          rewrite parents_link, N.eqb_refl. apply ins_parent_in. left; reflexivity.
        * destruct (inv_child g I p m' c' H) as [A [B [C D]]]. repeat split; try assumption.
          rewrite parents_link. destruct (N.eqb_spec c' c) as [->|_]; [apply ins_parent_in; right; exact C|exact C].
      + destruct (inv_child g I p' m' c' H) as [A [B [C D]]]. repeat split; try assumption.
        rewrite parents_link. destruct (N.eqb_spec c' c) as [->|_]; [apply ins_parent_in; right; exact C|exact C].
    - intros c' m' p' H. rewrite parents_link in H. rewrite children_link.
      destruct (N.eqb_spec c' c) as [->|Hne].
      + apply ins_parent_in in H. destruct H as [E|H].
        * inversion E; subst m' p'. rewrite N.eqb_refl. exact NewIn.
        * pose proof (inv_parent g I c m' p' H) as C.
          destruct (N.eqb_spec p' p) as [->|_]; [apply ins_child_incl; exact C|exact C].
      + pose proof (inv_parent g I c' m' p' H) as C.
        destruct (N.eqb_spec p' p) as [->|_]; [apply ins_child_incl; exact C|exact C].
  Qed.

  Lemma keys_link : forall g p m c, bk_keys (link g p m c) = bk_keys g.
  Proof. intros. apply link_fields. Qed.
  Lemma root_link : forall g p m c, bk_root (link g p m c) = bk_root g.
  Proof. intros. apply link_fields. Qed.

  (** ** setChildRefs *)
  Lemma Inv_setChildRefs : forall l g n,
    Inv g -> In n (bk_keys g) -> (forall m c, In (m, c) l -> succ n m = Some c) ->
    Inv (setChildRefs g n l) /\ bk_keys (setChildRefs g n l) = bk_keys g /\ bk_root (setChildRefs g n l) = bk_root g.
  Proof.
    unfold setChildRefs. induction l as [|[m c] t IH]; intros g n I Hn Hs; cbn [fold_left].
    - split; [exact I|split; reflexivity].
    - cbn [fst snd]. destruct (has_node g c) eqn:HN.
      + assert (Hc : In c (bk_keys g)) by (apply (inv_keys g I); exact HN).
        assert (I1 : Inv (link g n m c)) by (apply Inv_link; [exact I|exact Hn|exact Hc|apply Hs; left; reflexivity]).
        destruct (IH (link g n m c) n I1) as [I2 [K2 R2]].
        { rewrite keys_link. exact Hn. } { intros m' c' H. apply Hs. right; exact H. }
        split; [exact I2|]. rewrite K2, R2, keys_link, root_link. split; reflexivity.
      + apply IH; [exact I|exact Hn|]. intros m' c' H. apply Hs. right; exact H.
  Qed.

  (** ** node creation *)
  Lemma has_node_new : forall g h a i d s q, has_node (new_node g h a i d s) q = N.eqb q h || has_node g q.
  Proof.
    intros. unfold has_node, new_node. cbn [bk_info]. rewrite nget_nset.
    destruct (N.eqb q h); reflexivity.
  Qed.

  Lemma in_add_key : forall k l x, In x (add_key k l) <-> x = k \/ In x l.
  Proof.
    intros k l x. unfold add_key. destruct (mem k l) eqn:M.
    - apply mem_in in M. split; [intro H; right; exact H|intros [->|H]; assumption].
    - split; [intros [<-|H]; [left; reflexivity|right; exact H]|intros [->|H]; [left; reflexivity|right; exact H]].
  Qed.

  (** a node is created only for a hash that has no links yet (fresh hash, or re-read record
      while no links exist) *)
  Lemma Inv_new_node : forall g h a i d s,
    Inv g -> children g h = [] -> parents g h = [] -> Inv (new_node g h a i d s).
  Proof.
    intros g h a i d s I C0 P0.
    assert (CH : forall q, children (new_node g h a i d s) q = children g q).
    { intro q. unfold children, new_node. cbn [bk_children]. unfold links_of. rewrite nget_nset.
      destruct (N.eqb_spec q h) as [->|_]; [|reflexivity]. symmetry. exact C0. }
    assert (PA : forall q, parents (new_node g h a i d s) q = parents g q).
    { intro q. unfold parents, new_node. cbn [bk_parents]. unfold links_of. rewrite nget_nset.
      destruct (N.eqb_spec q h) as [->|_]; [|reflexivity]. symmetry. exact P0. }
    constructor.
    - intro n. rewrite has_node_new. unfold new_node; cbn [bk_keys]. rewrite in_add_key.
      rewrite orb_true_iff, N.eqb_eq. rewrite (inv_keys g I). tauto.
    - intros p m c H. rewrite CH in H. rewrite PA. unfold new_node; cbn [bk_keys]. rewrite !in_add_key.
      destruct (inv_child g I p m c H) as [A [B [C D]]]. tauto.
    - intros c m p H. rewrite PA in H. rewrite CH. apply (inv_parent g I). exact H.
  Qed.

  Lemma no_links_outside : forall g h, Inv g -> ~ In h (bk_keys g) -> children g h = [] /\ parents g h = [].
  Proof.
    intros g h I Hh. split.
    - destruct (children g h) as [|[m c] t] eqn:E; [reflexivity|]. exfalso.
      assert (H : In (m, c) (children g h)) by (rewrite E; left; reflexivity).
      destruct (inv_child g I h m c H) as [A _]. contradiction.
    - destruct (parents g h) as [|[m p] t] eqn:E; [reflexivity|]. exfalso.
      assert (H : In (m, p) (parents g h)) by (rewrite E; left; reflexivity).
      pose proof (inv_parent g I h m p H) as C. destruct (inv_child g I p m h C) as [_ [B _]]. contradiction.
  Qed.

  (** ** score updates do not touch links *)
  Lemma updateScores_fields : forall rq bd g n,
    bk_keys (updateScores rq bd g n) = bk_keys g /\ bk_info (updateScores rq bd g n) = bk_info g /\
    bk_children (updateScores rq bd g n) = bk_children g /\ bk_parents (updateScores rq bd g n) = bk_parents g /\
    bk_root (updateScores rq bd g n) = bk_root g /\ bk_depth (updateScores rq bd g n) = bk_depth g /\
    bk_pending (updateScores rq bd g n) = bk_pending g.
  Proof.
    intros. unfold updateScores. destruct (fold_left _ _ _) as [sc2 err2]. cbn. repeat split; reflexivity.
  Qed.

  Lemma Inv_updateScores : forall rq bd g n, Inv g -> Inv (updateScores rq bd g n).
  Proof.
    intros rq bd g n I. destruct (updateScores_fields rq bd g n) as [K [F [C [P _]]]].
    apply (Inv_frame g); try assumption. intro q. unfold has_node. rewrite F. reflexivity.
  Qed.

  Lemma has_node_set_info : forall g n i q, has_node (set_info g n i) q = N.eqb q n || has_node g q.
  Proof. intros. unfold has_node, set_info. cbn [bk_info]. rewrite nget_nset. destruct (N.eqb q n); reflexivity. Qed.

  Lemma Inv_set_info : forall g n i, Inv g -> In n (bk_keys g) -> Inv (set_info g n i).
  Proof.
    intros g n i I Hn. apply (Inv_frame g); try reflexivity; [|exact I].
    intro q. rewrite has_node_set_info. destruct (N.eqb_spec q n) as [->|_]; [|reflexivity].
    cbn [orb]. symmetry. apply (inv_keys g I). exact Hn.
  Qed.

  Lemma Inv_set_pending : forall g p, Inv g -> Inv (set_pending g p).
  Proof. intros g p I. apply (Inv_frame g); try reflexivity. exact I. Qed.

  Lemma Inv_set_err : forall g e, Inv g -> Inv (set_err g e).
  Proof. intros g e I. apply (Inv_frame g); try reflexivity. exact I. Qed.

  (** ** well-formed operations: chess inputs agree with [succ] *)
  Definition succ_list_ok (n : N) (l : list (N * N)) : Prop := forall m c, In (m, c) l -> succ n m = Some c.

  Definition op_wf (g : book) (o : op) : Prop :=
    match o with
    | OpAdd h addr pl cl =>
        ~ In h (bk_keys g) /\
        (forall m p, In (m, p) pl -> In p (bk_keys g) /\ succ p m = Some h) /\
        succ_list_ok h cl
    | OpSet h _ _ _ => In h (bk_keys g)
    | OpPend _ | OpUnpend _ => True
    | OpRead _ _ sl => forall n, succ_list_ok n (succ_of (map_of_list sl) n)
    end.

  Lemma Inv_empty : forall r, Inv (empty_book r).
  Proof.
    intro r. constructor.
    - intro n. unfold has_node, empty_book; cbn. rewrite nget_nempty. split; [discriminate|intros []].
    - intros p m c H. unfold children, empty_book, links_of in H; cbn in H. rewrite nget_nempty in H. destruct H.
    - intros c m p H. unfold parents, empty_book, links_of in H; cbn in H. rewrite nget_nempty in H. destruct H.
  Qed.

  Lemma Inv_addRootNode : forall g a l, Inv g -> succ_list_ok (bk_root g) l ->
    Inv (addRootNode g a l) /\ bk_root (addRootNode g a l) = bk_root g.
  Proof.
    intros g a l I Hs. unfold addRootNode. destruct (has_node g (bk_root g)) eqn:HN; [split; [exact I|reflexivity]|].
    assert (Hr : ~ In (bk_root g) (bk_keys g)).
    { intro H. apply (inv_keys g I) in H. congruence. }
    destruct (no_links_outside g _ I Hr) as [C0 P0].
    set (g1 := new_node g (bk_root g) a (mkInfo a 0 INVALID_SCORE 0 ST_INITIALIZED) 0 root_scores).
    assert (I1 : Inv g1) by (apply Inv_new_node; assumption).
    destruct (Inv_setChildRefs l g1 (bk_root g) I1) as [I2 [_ R2]].
    - unfold g1, new_node; cbn [bk_keys]. apply in_add_key. left; reflexivity.
    - exact Hs.
    - split; [exact I2|]. rewrite R2. reflexivity.
  Qed.

  Lemma Inv_newBook : forall r a, Inv (newBook r a).
  Proof.
    intros r a. unfold newBook. apply Inv_addRootNode; [apply Inv_empty|]. intros m c [].
  Qed.

  Lemma fold_link_parents : forall pl g h,
    Inv g -> In h (bk_keys g) ->
    (forall m p, In (m, p) pl -> In p (bk_keys g) /\ succ p m = Some h) ->
    Inv (fold_left (fun g mp => link g (snd mp) (fst mp) h) pl g) /\
    bk_keys (fold_left (fun g mp => link g (snd mp) (fst mp) h) pl g) = bk_keys g.
  Proof.
    induction pl as [|[m p] t IH]; intros g h I Hh Hs; cbn [fold_left]; [split; [exact I|reflexivity]|].
    cbn [fst snd]. destruct (Hs m p (or_introl eq_refl)) as [Hp S].
    assert (I1 : Inv (link g p m h)) by (apply Inv_link; assumption).
    destruct (IH (link g p m h) h I1) as [I2 K2].
    - rewrite keys_link. exact Hh.
    - intros m' p' H. rewrite keys_link. apply Hs. right; exact H.
    - split; [exact I2|]. rewrite K2. apply keys_link.
  Qed.

  Lemma Inv_opAdd : forall rq bd g h addr pl cl, Inv g -> op_wf g (OpAdd h addr pl cl) -> Inv (opAdd rq bd g h addr pl cl).
  Proof.
    intros rq bd g h addr pl cl I [Hfresh [Hpl Hcl]]. unfold opAdd.
    destruct (no_links_outside g h I Hfresh) as [C0 P0].
    set (g1 := new_node g h addr (mkInfo addr 0 INVALID_SCORE 0 ST_EMPTY) INT_MAX default_scores).
    assert (I1 : Inv g1) by (apply Inv_new_node; assumption).
    assert (K1 : forall x, In x (bk_keys g1) <-> x = h \/ In x (bk_keys g)) by (intro x; apply in_add_key).
    destruct (fold_link_parents pl g1 h I1) as [I2 K2].
    { apply K1. left; reflexivity. }
    { intros m p H. destruct (Hpl m p H) as [A B]. split; [apply K1; right; exact A|exact B]. }
    set (g2 := fold_left (fun g mp => link g (snd mp) (fst mp) h) pl g1) in *.
    destruct (Inv_setChildRefs cl g2 h I2) as [I3 [K3 _]].
    { rewrite K2. apply K1. left; reflexivity. } { exact Hcl. }
    set (g3 := setChildRefs g2 h cl) in *.
    pose proof (Inv_updateScores rq bd g3 h I3) as I4.
    unfold set_state. apply Inv_set_info; [exact I4|].
    destruct (updateScores_fields rq bd g3 h) as [K4 _]. rewrite K4, K3, K2. apply K1. left; reflexivity.
  Qed.

  (** ** readFromFile *)
  Definition no_links (g : book) : Prop := forall q, children g q = [] /\ parents g q = [].

  Lemma read_record_inv : forall am g rec, Inv g -> no_links g ->
    Inv (read_record am g rec) /\ no_links (read_record am g rec) /\ bk_root (read_record am g rec) = bk_root g.
  Proof.
    intros am g rec I NL. unfold read_record.
    destruct (deserialize_fields SERIALIZE_FIELDS rec) as [|h [|mv [|score [|time [|x t]]]]];
      try (split; [apply Inv_set_err; exact I|split; [exact NL|reflexivity]]).
    split; [apply Inv_new_node; [exact I|apply NL|apply NL]|]. split; [|reflexivity].
    intro q. unfold children, parents, new_node; cbn [bk_children bk_parents]. unfold links_of.
    rewrite !nget_nset. destruct (N.eqb q (Z.to_N h)); [split; reflexivity|apply NL].
  Qed.

  Lemma read_records_inv : forall am recs g, Inv g -> no_links g ->
    Inv (fold_left (read_record am) recs g) /\ bk_root (fold_left (read_record am) recs g) = bk_root g.
  Proof.
    induction recs as [|r t IH]; intros g I NL; cbn [fold_left]; [split; [exact I|reflexivity]|].
    destruct (read_record_inv am g r I NL) as [I1 [NL1 R1]].
    destruct (IH _ I1 NL1) as [I2 R2]. split; [exact I2|]. rewrite R2. exact R1.
  Qed.

  Lemma keys_set_state : forall g n st, bk_keys (set_state g n st) = bk_keys g. Proof. reflexivity. Qed.
  Lemma root_set_state : forall g n st, bk_root (set_state g n st) = bk_root g. Proof. reflexivity. Qed.

  Lemma Inv_initPositions : forall fuel sm g n,
    (forall q, succ_list_ok q (succ_of sm q)) -> Inv g ->
    Inv (initPositions fuel sm g n) /\ bk_keys (initPositions fuel sm g n) = bk_keys g /\
    bk_root (initPositions fuel sm g n) = bk_root g.
  Proof.
    induction fuel as [|f IH]; intros sm g n Hs I; cbn [initPositions].
    - split; [apply Inv_set_err; exact I|split; reflexivity].
    - destruct (has_node g n) eqn:HN; cbn [negb]; [|split; [exact I|split; reflexivity]].
      assert (Hn : In n (bk_keys g)) by (apply (inv_keys g I); exact HN).
      destruct (Inv_setChildRefs (succ_of sm n) g n I Hn (Hs n)) as [I1 [K1 R1]].
      set (g1 := setChildRefs g n (succ_of sm n)) in *.
      assert (G : forall l g0, Inv g0 -> bk_keys g0 = bk_keys g -> bk_root g0 = bk_root g ->
                  let r := fold_left (fun (g : book) (mc : N * N) => if N.eqb (ni_state (info g (snd mc))) ST_DESERIALIZED
                                                  then initPositions f sm g (snd mc) else g) l g0 in
                  Inv r /\ bk_keys r = bk_keys g /\ bk_root r = bk_root g).
      { induction l as [|mc t IHl]; intros g0 I0 K0 R0; cbn [fold_left].
        - split; [exact I0|split; assumption].
        - destruct (N.eqb (ni_state (info g0 (snd mc))) ST_DESERIALIZED).
          + destruct (IH sm g0 (snd mc) Hs I0) as [I' [K' R']].
            apply IHl; [exact I'|rewrite K'; exact K0|rewrite R'; exact R0].
          + apply IHl; assumption. }
      destruct (G (children g1 n) g1 I1 K1 R1) as [I2 [K2 R2]].
      set (g2 := fold_left _ (children g1 n) g1) in *.
      split; [|split; [rewrite keys_set_state; exact K2|rewrite root_set_state; exact R2]].
      unfold set_state. apply Inv_set_info; [exact I2|]. rewrite K2. exact Hn.
  Qed.

  Lemma Inv_opRead : forall rq bd g recs addrs sl, op_wf g (OpRead recs addrs sl) -> Inv (opRead rq bd g recs addrs sl).
  Proof.
    intros rq bd g recs addrs sl Hs. unfold opRead. cbn [op_wf] in Hs.
    set (am := map_of_list addrs). set (sm := map_of_list sl) in *.
    destruct (read_records_inv am recs (empty_book (bk_root g)) (Inv_empty _)) as [I1 R1].
    { intro q. unfold children, parents, empty_book, links_of; cbn. rewrite nget_nempty. split; reflexivity. }
    set (g1 := fold_left (read_record am) recs (empty_book (bk_root g))) in *.
    cbn [empty_book bk_root] in R1.
    destruct (Inv_initPositions (S (S (length (bk_keys g1)))) sm g1 (bk_root g) Hs I1) as [I2 [_ R2]].
    set (g2 := initPositions _ sm g1 (bk_root g)) in *.
    destruct (Inv_addRootNode g2 (lookup_addr am (bk_root g)) (succ_of sm (bk_root g)) I2) as [I3 _].
    { rewrite R2, R1. apply Hs. }
    apply Inv_updateScores. exact I3.
  Qed.

  Theorem Inv_apply_op : forall rq bd g o, Inv g -> op_wf g o -> Inv (apply_op rq bd g o).
  Proof.
    intros rq bd g o I W. destruct o as [h addr pl cl|h mv s t|h|h|recs addrs sl]; cbn [apply_op].
    - apply Inv_opAdd; assumption.
    - unfold opSet. apply Inv_updateScores. apply Inv_set_info; [exact I|exact W].
    - unfold opPend. apply Inv_updateScores. apply Inv_set_pending. exact I.
    - unfold opUnpend. apply Inv_updateScores. apply Inv_set_pending. exact I.
    - apply Inv_opRead. exact W.
  Qed.

  (** operation histories whose chess inputs come from [succ] *)
  Fixpoint ops_wf (rq : bool) (bd : bdata) (g : book) (ops : list op) : Prop :=
    match ops with
    | [] => True
    | o :: t => op_wf g o /\ ops_wf rq bd (apply_op rq bd g o) t
    end.

  Theorem Inv_run : forall rq bd ops g, Inv g -> ops_wf rq bd g ops -> Inv (run rq bd g ops).
  Proof.
    intros rq bd. induction ops as [|o t IH]; intros g I W; cbn [run fold_left]; [exact I|].
    destruct W as [W1 W2]. apply IH; [apply Inv_apply_op; assumption|exact W2].
  Qed.
End Links.
