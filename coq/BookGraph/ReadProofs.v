(** writeToFile / readFromFile: reloading a saved book rebuilds the same graph and recomputes the
    same per-node values, and the reloaded state satisfies every defining equation -- so the
    global theorem extends to histories that contain save/load cycles.
    Part 1: the additional invariants of histories that the reload needs (node list without
    duplicates, field ranges of the 16-byte record, sorted child lists, completeness of the links
    with respect to the successor relation). *)
From Coq Require Import ZArith NArith List Bool Lia Sorted Permutation.
From Texel Require Import gen.BookConsts BookGraph.NMap BookGraph.BookGraph BookGraph.Equations
  BookGraph.ScoreFacts BookGraph.CodecProofs BookGraph.LocalProofs BookGraph.LinkProofs BookGraph.UniqueProofs
  BookGraph.FixProofs BookGraph.GlobalProofs BookGraph.DepthProofs BookGraph.PathProofs BookGraph.FuelProofs.
Import ListNotations.
Local Open Scope Z_scope.

(** * sorted child lists *)
Definition clt (a b : N * N) : Prop := (fst a < fst b)%N.
Definition csorted (l : list (N * N)) : Prop := StronglySorted clt l.

Lemma ins_child_sorted : forall m c l, csorted l -> csorted (ins_child m c l).
Proof.
  intros m c l H. induction H as [|[m' c'] t Ht IH Hall]; cbn [ins_child].
  - constructor; constructor.
  - destruct (N.ltb_spec m m') as [L|L].
    + constructor; [constructor; assumption|]. constructor; [exact L|].
      rewrite Forall_forall in *. intros x Hx. specialize (Hall x Hx). unfold clt in *. cbn [fst] in *. lia.
    + destruct (N.eqb_spec m m') as [E|NE]; [constructor; assumption|].
      constructor; [exact IH|]. rewrite Forall_forall in *. intros x Hx.
      apply ins_child_in in Hx. destruct Hx as [->|Hx]; [unfold clt; cbn [fst]; lia|apply Hall; exact Hx].
Qed.

Lemma csorted_ext : forall l1 l2, csorted l1 -> csorted l2 -> (forall x, In x l1 <-> In x l2) -> l1 = l2.
Proof.
  induction l1 as [|a t1 IH]; intros l2 S1 S2 E.
  - destruct l2 as [|b t2]; [reflexivity|]. exfalso. apply (proj2 (E b)). left; reflexivity.
  - destruct l2 as [|b t2]; [exfalso; apply (proj1 (E a)); left; reflexivity|].
    inversion S1 as [|? ? St1 Ha]; subst. inversion S2 as [|? ? St2 Hb]; subst.
    rewrite Forall_forall in Ha, Hb.
    assert (Eab : a = b).
    { destruct (proj1 (E a) (or_introl eq_refl)) as [Eb|Ia]; [symmetry; exact Eb|].
      destruct (proj2 (E b) (or_introl eq_refl)) as [Ea|Ib]; [exact Ea|].
      specialize (Hb a Ia). specialize (Ha b Ib). unfold clt in *. lia. }
    subst b. f_equal. apply IH; try assumption.
    intro x. split; intro Hx.
    + destruct (proj1 (E x) (or_intror Hx)) as [Ex|Ix]; [|exact Ix]. subst x. specialize (Ha a Hx). unfold clt in Ha. lia.
    + destruct (proj2 (E x) (or_intror Hx)) as [Ex|Ix]; [|exact Ix]. subst x. specialize (Hb a Hx). unfold clt in Hb. lia.
Qed.

Definition CS (g : book) : Prop := forall n, csorted (children g n).

Lemma CS_frame : forall g g', bk_children g' = bk_children g -> CS g -> CS g'.
Proof. intros g g' C H n. unfold children. rewrite C. apply H. Qed.

Lemma CS_link : forall g p m c, CS g -> CS (link g p m c).
Proof.
  intros g p m c H n. rewrite children_link. destruct (N.eqb n p); [apply ins_child_sorted; apply H|apply H].
Qed.

Lemma CS_setChildRefs : forall l g n, CS g -> CS (setChildRefs g n l).
Proof.
  unfold setChildRefs. induction l as [|mc t IH]; intros g n H; cbn [fold_left]; [exact H|].
  destruct (has_node g (snd mc)); [apply IH; apply CS_link; exact H|apply IH; exact H].
Qed.

Lemma CS_new_node : forall g h a i d s, CS g -> CS (new_node g h a i d s).
Proof.
  intros g h a i d s H n. unfold children, new_node. cbn [bk_children]. unfold links_of. rewrite nget_nset.
  destruct (N.eqb n h); [constructor|apply H].
Qed.

Lemma CS_updateScores : forall rq bd g n, CS g -> CS (updateScores rq bd g n).
Proof. intros. apply (CS_frame g); [apply updateScores_fields|assumption]. Qed.

Lemma CS_opAdd : forall rq bd g h addr pl cl, CS g -> CS (opAdd rq bd g h addr pl cl).
Proof.
  intros rq bd g h addr pl cl H. unfold opAdd.
  apply (CS_frame (updateScores rq bd (setChildRefs (fold_left (fun g mp => link g (snd mp) (fst mp) h) pl
           (new_node g h addr (mkInfo addr 0 INVALID_SCORE 0 ST_EMPTY) INT_MAX default_scores)) h cl) h)); [reflexivity|].
  apply CS_updateScores. apply CS_setChildRefs.
  assert (L : forall l g0, CS g0 -> CS (fold_left (fun g mp => link g (snd mp) (fst mp) h) l g0)).
  { induction l as [|mp t IH]; intros g0 H0; cbn [fold_left]; [exact H0|]. apply IH. apply CS_link. exact H0. }
  apply L. apply CS_new_node. exact H.
Qed.

(** * children only grow under links *)
Lemma children_link_incl : forall g p m c q x, In x (children g q) -> In x (children (link g p m c) q).
Proof.
  intros g p m c q x H. rewrite children_link. destruct (N.eqb_spec q p) as [->|_]; [apply ins_child_incl; exact H|exact H].
Qed.

Lemma children_link_new : forall (succ : N -> N -> option N) g p m c,
  Inv succ g -> succ p m = Some c -> In (m, c) (children (link g p m c) p).
Proof.
  intros succ g p m c I S. rewrite children_link, N.eqb_refl.
  destruct (ins_child_has m c (children g p)) as [H|[c' H]]; [exact H|].
  destruct (inv_child succ g I p m c' H) as [_ [_ [_ S']]]. rewrite S in S'. inversion S'; subst c'.
  apply ins_child_incl. exact H.
Qed.

Lemma children_link_inv : forall g p m c q x, In x (children (link g p m c) q) -> In x (children g q) \/ (q = p /\ x = (m, c)).
Proof.
  intros g p m c q x H. rewrite children_link in H. destruct (N.eqb_spec q p) as [->|_]; [|left; exact H].
  apply ins_child_in in H. destruct H as [->|H]; [right; split; reflexivity|left; exact H].
Qed.

Lemma wrap16_range : forall z, -32768 <= wrap16 z < 32768.
Proof.
  intro z. unfold wrap16. pose proof (Z.mod_pos_bound z 65536 ltac:(lia)) as B.
  destruct (z mod 65536 <? 32768) eqn:E; [apply Z.ltb_lt in E|apply Z.ltb_ge in E]; lia.
Qed.

(** * one link during the rebuild: the source node has a depth, the other nodes need not *)
Section LinkCore.
  Variable succ : N -> N -> option N.
  Variable rk : N -> Z.
  Variable wtm : N -> bool.
  Hypothesis Hrk : forall p m c, succ p m = Some c -> rk p < rk c.
  Hypothesis Hwtm : forall p m c, succ p m = Some c -> wtm c = negb (wtm p).

  (** a depth is bounded by the number of nodes of smaller rank *)
  Definition CBm (keys : list N) (dm : nmap Z) : Prop :=
    forall q, depth_of dm q < INT_MAX -> depth_of dm q <= Z.of_nat (cnt_below rk keys q).
  (** nodes with children have a depth *)
  Definition FV (g : book) : Prop := forall q, children g q <> [] -> depth g q < INT_MAX.

  Record Core (g : book) : Prop := mkCore {
    co_inv : Inv succ g;
    co_par : Par wtm (bk_depth g);
    co_nn : NonNeg (bk_depth g);
    co_cb : CBm (bk_keys g) (bk_depth g);
    co_fv : FV g;
    co_di : DI g;
    co_err : bk_err g = 0%N;
    co_size : Z.of_nat (length (bk_keys g)) + 1 < INT_MAX
  }.

  Lemma link_CB : forall g p m c,
    Inv succ g -> In p (bk_keys g) -> In c (bk_keys g) -> succ p m = Some c ->
    Par wtm (bk_depth g) -> CBm (bk_keys g) (bk_depth g) -> CBm (bk_keys g) (bk_depth (link g p m c)).
  Proof.
    intros g p m c I Kp Kc Hs Pa CB.
    assert (I' : Inv succ (link g p m c)) by (apply Inv_link; assumption).
    pose proof (link_unfold g p m c) as U. cbn zeta in U.
    set (ch := nset p (ins_child m c (children g p)) (bk_children g)) in *.
    set (pa := nset c (ins_parent (bk_info g) m p (parents g c)) (bk_parents g)) in *.
    set (g' := link g p m c) in *.
    rewrite U. cbn [bk_depth].
    apply (updateDepth_pres ch pa (fun dm => (forall q, depth_of dm q <= INT_MAX) /\ CBm (bk_keys g) dm)); [|split; [apply Pa|exact CB]].
    intros dm n mp [B C] Hin G.
    assert (Hp : In (snd mp) (bk_keys g) /\ rk (snd mp) < rk n).
    { destruct mp as [m' p']. cbn [snd].
      assert (H' : In (m', p') (parents g' n)) by (unfold parents; rewrite U; exact Hin).
      pose proof (inv_parent succ g' I' n m' p' H') as Cx.
      destruct (inv_child succ g' I' p' m' n Cx) as [Kp' [_ [_ S']]]. rewrite U in Kp'. split; [exact Kp'|eapply Hrk; eauto]. }
    destruct Hp as [Kp' R]. split.
    - intro q. destruct (N.eq_dec q n) as [->|Hq]; [rewrite depth_of_set_same; specialize (B n); lia|].
      rewrite depth_of_set_other by exact Hq. apply B.
    - intro q. destruct (N.eq_dec q n) as [->|Hq].
      + rewrite depth_of_set_same. intros _.
        assert (Fp : depth_of dm (snd mp) < INT_MAX) by (specialize (B n); lia).
        specialize (C (snd mp) Fp). pose proof (cnt_below_parent rk (bk_keys g) n (snd mp) Kp' R). lia.
      + rewrite depth_of_set_other by exact Hq. apply C.
  Qed.

  Lemma link_Core : forall g p m c,
    Core g -> In p (bk_keys g) -> In c (bk_keys g) -> succ p m = Some c -> depth g p < INT_MAX ->
    (bk_err (link g p m c) < ERR_ASSERT)%N ->
    Core (link g p m c) /\
    bk_keys (link g p m c) = bk_keys g /\ bk_info (link g p m c) = bk_info g /\ bk_sc (link g p m c) = bk_sc g /\
    bk_pending (link g p m c) = bk_pending g /\ bk_root (link g p m c) = bk_root g /\
    (forall q, q <> p -> children (link g p m c) q = children g q) /\
    (forall q, depth (link g p m c) q <= depth g q).
  Proof.
    intros g p m c [I Pa NN CB Fv D E Sz] Kp Kc Hs Fin L.
    destruct (link_step succ wtm Hwtm g p m c I Kp Kc Hs Pa NN) as [I1 [Pa1 [NN1 [K1 [F1 [S1 [Pe1 [R1 [C1 [D1 [B1 E1]]]]]]]]]]].
    set (g' := link g p m c) in *.
    assert (FPar : forall x mp, In mp (parents g' x) -> depth g (snd mp) < INT_MAX).
    { intros x [m' p'] Hin. cbn [snd]. pose proof (inv_parent succ g' I1 x m' p' Hin) as Cx.
      destruct (N.eq_dec p' p) as [->|Hne]; [exact Fin|]. apply Fv. rewrite <- (C1 p' Hne). intro E0. rewrite E0 in Cx. destruct Cx. }
    assert (E' : bk_err g' = 0%N).
    { assert (NF : nf (bk_err g')).
      { apply (link_nofuel succ rk Hrk); try assumption; [intro q; apply (proj1 Pa)|rewrite E; apply nf_0]. }
      unfold nf, ERR_FUEL, ERR_ASSERT in *. lia. }
    split; [|repeat (split; [assumption|]); assumption].
    constructor; try assumption.
    - rewrite K1. apply link_CB; assumption.
    - intros q Hq. destruct (N.eq_dec q p) as [->|Hne]; [specialize (D1 p); lia|].
      rewrite (C1 q Hne) in Hq. specialize (Fv q Hq). specialize (D1 q). lia.
    - apply (link_DI succ); try assumption; try (intro q; apply NN).
    - rewrite K1. exact Sz.
  Qed.

  Lemma has_node_link' : forall g p m c q, has_node (link g p m c) q = has_node g q.
  Proof. intros. apply has_node_link. Qed.

  (** Book::setChildRefs from a node that has a depth *)
  Lemma setChildRefs_Core : forall l g n,
    Core g -> In n (bk_keys g) -> succ_list_ok succ n l -> depth g n < INT_MAX ->
    (bk_err (setChildRefs g n l) < ERR_ASSERT)%N ->
    let g' := setChildRefs g n l in
    Core g' /\ bk_keys g' = bk_keys g /\ bk_info g' = bk_info g /\ bk_sc g' = bk_sc g /\
    bk_pending g' = bk_pending g /\ bk_root g' = bk_root g /\
    (forall q, q <> n -> children g' q = children g q) /\
    (forall q, depth g' q <= depth g q) /\
    (forall mc, In mc (children g' n) <-> In mc (children g n) \/ (In mc l /\ In (snd mc) (bk_keys g))).
  Proof.
    unfold setChildRefs. induction l as [|[m c] t IH]; intros g n Co Kn Hs Fin L; cbn [fold_left] in *.
    - split; [exact Co|]. do 5 (split; [reflexivity|]). split; [intros; reflexivity|]. split; [intro; lia|].
      intro mc. cbn [In]. tauto.
    - cbn [fst snd] in *. destruct (has_node g c) eqn:HN.
      + assert (Kc : In c (bk_keys g)) by (apply (inv_keys succ g (co_inv g Co)); exact HN).
        assert (Sc : succ n m = Some c) by (apply Hs; left; reflexivity).
        assert (L1 : (bk_err (link g n m c) < ERR_ASSERT)%N).
        { pose proof (setChildRefs_err_mono t (link g n m c) n) as M. unfold setChildRefs in M. lia. }
        destruct (link_Core g n m c Co Kn Kc Sc Fin L1) as [Co1 [K1 [F1 [S1 [Pe1 [R1 [C1 D1]]]]]]].
        set (g1 := link g n m c) in *.
        destruct (IH g1 n Co1) as [Co2 [K2 [F2 [S2 [Pe2 [R2 [C2 [D2 Ch2]]]]]]]]; try assumption.
        { rewrite K1. exact Kn. } { intros m' c' H. apply Hs. right; exact H. } { specialize (D1 n). lia. }
        split; [exact Co2|]. split; [rewrite K2; exact K1|]. split; [rewrite F2; exact F1|]. split; [rewrite S2; exact S1|].
        split; [rewrite Pe2; exact Pe1|]. split; [rewrite R2; exact R1|].
        split; [intros q Hq; rewrite C2 by exact Hq; apply C1; exact Hq|].
        split; [intro q; specialize (D2 q); specialize (D1 q); lia|].
        intro mc. rewrite Ch2. rewrite K1. split.
        * intros [H|[H1 H2]]; [|right; split; [right; exact H1|exact H2]].
          unfold g1 in H. apply children_link_inv in H. destruct H as [H|[_ ->]]; [left; exact H|].
          right. split; [left; reflexivity|exact Kc].
        * intros [H|[[<-|H1] H2]].
          -- left. apply children_link_incl. exact H.
          -- left. apply (children_link_new succ); [apply Co|exact Sc].
          -- right. split; assumption.
      + destruct (IH g n Co Kn) as [Co2 [K2 [F2 [S2 [Pe2 [R2 [C2 [D2 Ch2]]]]]]]]; try assumption.
        { intros m' c' H. apply Hs. right; exact H. }
        split; [exact Co2|]. do 7 (split; [assumption|]).
        intro mc. rewrite Ch2. split; [intros [H|[H1 H2]]; [left; exact H|right; split; [right; exact H1|exact H2]]|].
        intros [H|[[<-|H1] H2]]; [left; exact H| |right; split; assumption].
        exfalso. cbn [snd] in H2. apply (inv_keys succ g (co_inv g Co)) in H2. congruence.
  Qed.
End LinkCore.

(** * Book::initPositions: the depth-first rebuild of the links *)
Definition stt (g : book) (q : N) : N := ni_state (info g q).

Lemma info_set_state : forall g n s q, info (set_state g n s) q =
  if N.eqb q n then mkInfo (ni_addr (info g n)) (ni_move (info g n)) (ni_score (info g n)) (ni_time (info g n)) s else info g q.
Proof.
  intros. unfold set_state, info at 1, set_info, info_of. cbn [bk_info]. rewrite nget_nset.
  destruct (N.eqb q n); reflexivity.
Qed.

Lemma stt_set_state : forall g n s q, stt (set_state g n s) q = if N.eqb q n then s else stt g q.
Proof. intros. unfold stt. rewrite info_set_state. destruct (N.eqb q n); reflexivity. Qed.

Lemma initPositions_err_mono : forall f sm g n, (bk_err g <= bk_err (initPositions f sm g n))%N.
Proof.
  induction f as [|f IH]; intros sm g n; cbn [initPositions]; [cbn [set_err bk_err]; lia|].
  destruct (negb (has_node g n)); [lia|].
  change (bk_err (set_state ?x n ST_INITIALIZED)) with (bk_err x).
  assert (L : forall l g0, (bk_err g0 <= bk_err (fold_left (fun (g : book) (mc : N * N) =>
              if N.eqb (ni_state (info g (snd mc))) ST_DESERIALIZED then initPositions f sm g (snd mc) else g) l g0))%N).
  { induction l as [|mc t IHl]; intro g0; cbn [fold_left]; [lia|].
    etransitivity; [|apply IHl]. destruct (N.eqb _ _); [apply IH|lia]. }
  etransitivity; [apply setChildRefs_err_mono|apply L].
Qed.

Section DFS.
  Variable succ : N -> N -> option N.
  Variable rk : N -> Z.
  Variable wtm : N -> bool.
  Hypothesis Hrk : forall p m c, succ p m = Some c -> rk p < rk c.
  Hypothesis Hwtm : forall p m c, succ p m = Some c -> wtm c = negb (wtm p).
  Variable sm : nmap (list (N * N)).
  Hypothesis Hsm : forall n, succ_list_ok succ n (succ_of sm n).

  (** the links the rebuild has to create at node [n] *)
  Definition icK (K : list N) (n : N) (mc : N * N) : Prop := In mc (succ_of sm n) /\ In (snd mc) K.

  Record DS (g : book) : Prop := mkDS {
    ds_core : Core succ rk wtm g;
    ds_states : forall q, In q (bk_keys g) -> stt g q = ST_DESERIALIZED \/ stt g q = ST_INITIALIZED;
    ds_done : forall q, In q (bk_keys g) -> stt g q = ST_INITIALIZED ->
              (forall mc, In mc (children g q) <-> icK (bk_keys g) q mc) /\
              (forall mc, In mc (children g q) -> stt g (snd mc) = ST_INITIALIZED)
  }.

  Lemma Core_set_state : forall g n s, Core succ rk wtm g -> In n (bk_keys g) -> Core succ rk wtm (set_state g n s).
  Proof.
    intros g n s [I Pa NN CB Fv D E Sz] Kn. constructor; try assumption.
    unfold set_state. apply Inv_set_info; assumption.
  Qed.

  Lemma child_rank' : forall g n mc, Inv succ g -> In mc (children g n) -> rk n < rk (snd mc) /\ In (snd mc) (bk_keys g).
  Proof.
    intros g n [m c] I H. cbn [snd]. destruct (inv_child succ g I n m c H) as [_ [Kc [_ S]]].
    split; [eapply Hrk; eauto|exact Kc].
  Qed.

  Lemma DFS_call : forall f x n,
    DS x -> In n (bk_keys x) -> stt x n = ST_DESERIALIZED -> depth x n < INT_MAX ->
    (forall q, In q (bk_keys x) -> rk n <= rk q -> stt x q = ST_DESERIALIZED -> children x q = []) ->
    (cnt_above rk (bk_keys x) n < f)%nat ->
    (bk_err (initPositions f sm x n) < ERR_ASSERT)%N ->
    let x' := initPositions f sm x n in
    DS x' /\ bk_keys x' = bk_keys x /\ stt x' n = ST_INITIALIZED /\
    (forall q, ~ rk n <= rk q -> children x' q = children x q /\ stt x' q = stt x q) /\
    (forall q, stt x q = ST_INITIALIZED -> stt x' q = ST_INITIALIZED /\ children x' q = children x q) /\
    (forall q, In q (bk_keys x) -> rk n <= rk q -> stt x' q = ST_DESERIALIZED -> children x' q = []) /\
    (forall q, depth x' q <= depth x q).
  Proof.
    induction f as [|f IH]; intros x n Dx Kn Sn Fin Hb Hf L; [lia|]. cbn [initPositions] in *.
    set (K := bk_keys x) in *.
    pose proof (ds_core x Dx) as Cx.
    assert (HN : has_node x n = true) by (apply (inv_keys succ x (co_inv _ _ _ x Cx)); exact Kn).
    rewrite HN in *. cbn [negb] in *.
    set (Floop := fun (g : book) (mc : N * N) =>
                    if N.eqb (ni_state (info g (snd mc))) ST_DESERIALIZED then initPositions f sm g (snd mc) else g) in *.
    set (x1 := setChildRefs x n (succ_of sm n)) in *.
    assert (Mloop : forall l g0, (bk_err g0 <= bk_err (fold_left Floop l g0))%N).
    { induction l as [|mc t IHl]; intro g0; cbn [fold_left]; [lia|].
      etransitivity; [|apply IHl]. unfold Floop. destruct (N.eqb _ _); [apply initPositions_err_mono|lia]. }
    change (bk_err (set_state (fold_left Floop (children x1 n) x1) n ST_INITIALIZED))
      with (bk_err (fold_left Floop (children x1 n) x1)) in L.
    assert (L1 : (bk_err x1 < ERR_ASSERT)%N) by (pose proof (Mloop (children x1 n) x1); lia).
    destruct (setChildRefs_Core succ rk wtm Hrk Hwtm (succ_of sm n) x n Cx Kn (Hsm n) Fin L1)
      as [C1 [K1 [F1 [S1 [Pe1 [R1 [Ch1 [D1 Chn]]]]]]]]. fold x1 in C1, K1, F1, S1, Pe1, R1, Ch1, D1, Chn.
    assert (St1 : forall q, stt x1 q = stt x q) by (intro q; unfold stt, info; rewrite F1; reflexivity).
    assert (Chn' : forall mc, In mc (children x1 n) <-> icK K n mc).
    { intro mc. rewrite Chn. rewrite (Hb n Kn (Z.le_refl _) Sn). unfold icK. cbn [In]. tauto. }
    assert (D1S : DS x1).
    { constructor; [exact C1| |].
      - intros q Kq. rewrite K1 in Kq. rewrite St1. apply (ds_states x Dx q Kq).
      - intros q Kq Sq. rewrite K1 in Kq |- *. rewrite St1 in Sq.
        assert (Hq : q <> n) by (intro; subst q; rewrite Sn in Sq; discriminate).
        rewrite (Ch1 q Hq). destruct (ds_done x Dx q Kq Sq) as [A B]. split; [exact A|].
        intros mc Hm. rewrite St1. apply B. exact Hm. }
    (* the loop over the children of n *)
    assert (Loop : forall l y,
      (forall mc, In mc l -> In mc (children x1 n)) ->
      DS y -> bk_keys y = K -> (forall q, depth y q <= depth x1 q) ->
      stt y n = ST_DESERIALIZED -> children y n = children x1 n ->
      (forall q, ~ rk n < rk q -> children y q = children x1 q /\ stt y q = stt x1 q) ->
      (forall q, stt x1 q = ST_INITIALIZED -> stt y q = ST_INITIALIZED /\ children y q = children x1 q) ->
      (forall q, In q K -> rk n < rk q -> stt y q = ST_DESERIALIZED -> children y q = []) ->
      (bk_err (fold_left Floop l y) < ERR_ASSERT)%N ->
      let z := fold_left Floop l y in
      DS z /\ bk_keys z = K /\ (forall q, depth z q <= depth x1 q) /\
      stt z n = ST_DESERIALIZED /\ children z n = children x1 n /\
      (forall q, ~ rk n < rk q -> children z q = children x1 q /\ stt z q = stt x1 q) /\
      (forall q, stt x1 q = ST_INITIALIZED -> stt z q = ST_INITIALIZED /\ children z q = children x1 q) /\
      (forall q, In q K -> rk n < rk q -> stt z q = ST_DESERIALIZED -> children z q = []) /\
      (forall q, stt y q = ST_INITIALIZED -> stt z q = ST_INITIALIZED) /\
      (forall mc, In mc l -> stt z (snd mc) = ST_INITIALIZED)).
    { induction l as [|mc t IHl]; intros y Hl Dy Ky Dd Sy Cy Low Ini Up Ly; cbn [fold_left] in *.
      - repeat (split; try assumption). intros q H; exact H. intros mc [].
      - assert (Hmc : In mc (children y n)) by (rewrite Cy; apply Hl; left; reflexivity).
        destruct (child_rank' y n mc (co_inv _ _ _ y (ds_core y Dy)) Hmc) as [Rc Kc]. rewrite Ky in Kc.
        assert (Step : let y1 := Floop y mc in
                  DS y1 /\ bk_keys y1 = K /\ (forall q, depth y1 q <= depth x1 q) /\
                  stt y1 n = ST_DESERIALIZED /\ children y1 n = children x1 n /\
                  (forall q, ~ rk n < rk q -> children y1 q = children x1 q /\ stt y1 q = stt x1 q) /\
                  (forall q, stt x1 q = ST_INITIALIZED -> stt y1 q = ST_INITIALIZED /\ children y1 q = children x1 q) /\
                  (forall q, In q K -> rk n < rk q -> stt y1 q = ST_DESERIALIZED -> children y1 q = []) /\
                  (forall q, stt y q = ST_INITIALIZED -> stt y1 q = ST_INITIALIZED) /\
                  stt y1 (snd mc) = ST_INITIALIZED).
        { unfold Floop. fold (stt y (snd mc)). destruct (N.eqb_spec (stt y (snd mc)) ST_DESERIALIZED) as [Sc|Sc].
          - (* recursive call on the child *)
            assert (Lc : (bk_err (initPositions f sm y (snd mc)) < ERR_ASSERT)%N).
            { assert (EqF : Floop y mc = initPositions f sm y (snd mc)).
              { unfold Floop. change (ni_state (info y (snd mc))) with (stt y (snd mc)). rewrite Sc. reflexivity. }
              pose proof (Mloop t (Floop y mc)) as M. rewrite EqF in M at 1. lia. }
            assert (Finc : depth y (snd mc) < INT_MAX).
            { pose proof (ds_core y Dy) as Cy0. destruct Cy0 as [Iy Pay NNy CBy Fvy [Kr DEy] Ey Szy].
              assert (Kcy : In (snd mc) (bk_keys y)) by (rewrite Ky; exact Kc).
              destruct (eq_depth_elim y (snd mc) (DEy _ Kcy)) as [D0 [_ D2]].
              destruct (N.eq_dec (snd mc) (bk_root y)) as [Er|Nr]; [rewrite (D0 Er); rewrite INT_MAX_val; lia|].
              destruct mc as [m c]. cbn [snd] in *.
              assert (Hp : In (m, n) (parents y c)) by (apply (inv_child succ y Iy n m c Hmc)).
              destruct (D2 Nr) as [R _]; [intro E0; rewrite E0 in Hp; destruct Hp|].
              specialize (R _ Hp). cbn [snd] in R.
              assert (Fn : depth y n < INT_MAX) by (specialize (Dd n); specialize (D1 n); lia).
              pose proof (CBy n Fn) as Bn. pose proof (cnt_below_le rk (bk_keys y) n) as Le.
              unfold depth in *. lia. }
            destruct (IH y (snd mc) Dy) as [Dy1 [Ky1 [Sc1 [Low1 [Ini1 [Up1 Dd1]]]]]]; try assumption.
            { rewrite Ky. exact Kc. }
            { intros q Kq Rq Sq. rewrite Ky in Kq. apply Up; [exact Kq|lia|exact Sq]. }
            { rewrite Ky. pose proof (cnt_above_child rk K n (snd mc) Kc Rc). unfold K in *. lia. }
            set (y1 := initPositions f sm y (snd mc)) in *.
            assert (Nn : ~ rk (snd mc) <= rk n) by lia.
            split; [exact Dy1|]. split; [rewrite Ky1; exact Ky|].
            split; [intro q; specialize (Dd1 q); specialize (Dd q); lia|].
            split; [rewrite (proj2 (Low1 n Nn)); exact Sy|].
            split; [rewrite (proj1 (Low1 n Nn)); exact Cy|].
            split.
            { intros q Hq. assert (Nq : ~ rk (snd mc) <= rk q) by lia.
              destruct (Low1 q Nq) as [A B]. destruct (Low q Hq) as [A' B']. split; congruence. }
            split.
            { intros q Hq. destruct (Ini q Hq) as [A B]. destruct (Ini1 q A) as [A' B']. split; [exact A'|congruence]. }
            split.
            { intros q Kq Rq Sq. destruct (Z.le_gt_cases (rk (snd mc)) (rk q)) as [Le|Gt].
              - apply Up1; [rewrite Ky; exact Kq|exact Le|exact Sq].
              - assert (Nq : ~ rk (snd mc) <= rk q) by lia. destruct (Low1 q Nq) as [A B].
                rewrite A. apply Up; [exact Kq|exact Rq|]. rewrite <- B. exact Sq. }
            split; [intros q Hq; apply (Ini1 q Hq)|exact Sc1].
          - (* already initialised *)
            assert (Si : stt y (snd mc) = ST_INITIALIZED).
            { destruct (ds_states y Dy (snd mc)) as [A|A]; [rewrite Ky; exact Kc|contradiction|exact A]. }
            repeat (split; try assumption). intros q H; exact H. }
        destruct Step as [Dy1 [Ky1 [Dd1 [Sy1 [Cy1 [Low1 [Ini1 [Up1 [Mono1 Sc1]]]]]]]]].
        destruct (IHl (Floop y mc) (fun m H => Hl m (or_intror H)) Dy1 Ky1 Dd1 Sy1 Cy1 Low1 Ini1 Up1 Ly)
          as [Dz [Kz [Ddz [Sz [Cz [Lowz [Iniz [Upz [Monoz Allz]]]]]]]]].
        repeat (split; try assumption).
        + intros q Hq. apply Monoz. apply Mono1. exact Hq.
        + intros mc' [<-|H]; [apply Monoz; exact Sc1|apply Allz; exact H]. }
    destruct (Loop (children x1 n) x1 (fun _ H => H) D1S K1 (fun q => Z.le_refl _)) as [Dz [Kz [Ddz [Sz [Cz [Lowz [Iniz [Upz [Monoz Allz]]]]]]]]]; try assumption.
    { rewrite St1. exact Sn. } { reflexivity. } { intros q _. split; reflexivity. } { intros q H. split; [exact H|reflexivity]. }
    { intros q Kq Rq Sq. rewrite St1 in Sq. assert (Hq : q <> n) by (intro; subst q; lia).
      rewrite (Ch1 q Hq). apply Hb; [exact Kq|lia|exact Sq]. }
    set (z := fold_left Floop (children x1 n) x1) in *.
    assert (Knz : In n (bk_keys z)) by (rewrite Kz; exact Kn).
    (* finally the node itself becomes INITIALIZED *)
    assert (Chs : forall q, children (set_state z n ST_INITIALIZED) q = children z q) by reflexivity.
    assert (Dps : forall q, depth (set_state z n ST_INITIALIZED) q = depth z q) by reflexivity.
    split.
    { constructor.
      - apply Core_set_state; [apply (ds_core z Dz)|exact Knz].
      - intros q Kq. rewrite stt_set_state. destruct (N.eqb q n); [right; reflexivity|apply (ds_states z Dz q Kq)].
      - intros q Kq Sq. change (bk_keys (set_state z n ST_INITIALIZED)) with (bk_keys z) in *. rewrite Chs.
        rewrite stt_set_state in Sq. destruct (N.eqb_spec q n) as [->|Hq].
        + split.
          * intro mc. rewrite Cz, Kz. apply Chn'.
          * intros mc Hm. rewrite stt_set_state. destruct (N.eqb (snd mc) n); [reflexivity|].
            apply Allz. rewrite <- Cz. exact Hm.
        + destruct (ds_done z Dz q Kq Sq) as [A B]. split; [exact A|].
          intros mc Hm. rewrite stt_set_state. destruct (N.eqb (snd mc) n); [reflexivity|apply B; exact Hm]. }
    split; [exact Kz|]. split; [rewrite stt_set_state, N.eqb_refl; reflexivity|].
    split.
    { intros q Hq. assert (Hqn : q <> n) by (intro; subst q; lia). assert (Nq : ~ rk n < rk q) by lia.
      destruct (Lowz q Nq) as [A B]. rewrite Chs, stt_set_state. destruct (N.eqb_spec q n) as [|_]; [contradiction|].
      split; [rewrite A; apply Ch1; exact Hqn|rewrite B; apply St1]. }
    split.
    { intros q Hq. assert (Hqn : q <> n) by (intro; subst q; rewrite Sn in Hq; discriminate).
      rewrite <- St1 in Hq. destruct (Iniz q Hq) as [A B]. rewrite Chs, stt_set_state.
      destruct (N.eqb_spec q n) as [|_]; [contradiction|]. split; [exact A|rewrite B; apply Ch1; exact Hqn]. }
    split.
    { intros q Kq Rq Sq. rewrite stt_set_state in Sq. destruct (N.eqb_spec q n) as [->|Hqn]; [discriminate|].
      rewrite Chs. destruct (Z.eq_dec (rk n) (rk q)) as [Er|Nr].
      - assert (Nq : ~ rk n < rk q) by lia. destruct (Lowz q Nq) as [A B]. rewrite A, (Ch1 q Hqn).
        apply Hb; [exact Kq|exact Rq|]. rewrite <- St1, <- B. exact Sq.
      - apply Upz; [exact Kq|lia|exact Sq]. }
    intro q. rewrite Dps. specialize (Ddz q). specialize (D1 q). lia.
  Qed.
End DFS.

(** * updateScores on a freshly loaded book: the depth-first pass computes every node *)
Inductive reach (g : book) (n : N) : N -> Prop :=
| reach_refl : reach g n n
| reach_step : forall b c m, reach g n b -> In (m, c) (children g b) -> reach g n c.

Lemma reach_cases : forall g n q, reach g n q <-> q = n \/ exists mc, In mc (children g n) /\ reach g (snd mc) q.
Proof.
  intros g n q. split.
  - intro R. induction R as [|b c m R IH Hc]; [left; reflexivity|].
    right. destruct IH as [->|[mc [Hm Rm]]].
    + exists (m, c). split; [exact Hc|apply reach_refl].
    + exists mc. split; [exact Hm|]. eapply reach_step; eauto.
  - intros [->|[[m0 c0] [Hm R]]]; [apply reach_refl|]. cbn [snd] in R.
    induction R as [|b c m R IH Hc].
    + eapply reach_step; [apply reach_refl|exact Hm].
    + eapply reach_step; [exact IH|exact Hc].
Qed.

Section Virgin.
  Variable succ : N -> N -> option N.
  Variable rk : N -> Z.
  Hypothesis Hrk : forall p m c, succ p m = Some c -> rk p < rk c.
  Variables (rq : bool) (bd : bdata) (g : book).
  Hypothesis Hk : 0 <= bd_depthCost bd /\ 0 <= bd_ownCost bd /\ 0 <= bd_otherCost bd.
  Hypothesis HI : Inv succ g.

  (** a set of nodes closed under children, all satisfying their equations, containing every node
      whose negamax score is valid (= every node the pass will not enter again) *)
  Definition Cl (S : N -> Prop) (sc : nmap scores) : Prop :=
    (forall q, S q -> forall mc, In mc (children g q) -> S (snd mc)) /\
    (forall q, S q -> good bd g sc q) /\
    (forall q, In q (bk_keys g) -> s_nm (scof sc q) <> INVALID_SCORE -> S q).

  Lemma Cl_ext : forall (P Q : N -> Prop) sc, (forall q, P q <-> Q q) -> Cl P sc -> Cl Q sc.
  Proof.
    intros P Q sc E [A [B C]]. split; [|split].
    - intros q Hq mc Hm. apply E. apply (A q); [apply E; exact Hq|exact Hm].
    - intros q Hq. apply B. apply E. exact Hq.
    - intros q Kq Hq. apply E. apply C; assumption.
  Qed.

  Lemma reach_closed : forall (S : N -> Prop) n q,
    (forall x, S x -> forall mc, In mc (children g x) -> S (snd mc)) -> S n -> reach g n q -> S q.
  Proof. intros S n q Hc Hn R. induction R as [|b c m R IH H]; [exact Hn|]. apply (Hc b IH (m, c) H). Qed.

  Lemma updDown_closed : forall f st n (S : N -> Prop),
    In n (bk_keys g) -> wfc (u_sc st) -> Cl S (u_sc st) -> u_err (updDown f rq bd g st n) = 0%N ->
    wfc (u_sc (updDown f rq bd g st n)) /\
    Cl (fun q => S q \/ reach g n q) (u_sc (updDown f rq bd g st n)) /\
    (forall q, S q -> nmec (scof (u_sc (updDown f rq bd g st n)) q) = nmec (scof (u_sc st) q)).
  Proof.
    induction f as [|f IH]; intros st n S Kn W C E; cbn [updDown] in *.
    - unfold ust_err in E. cbn [u_err] in E. unfold ERR_FUEL in E. lia.
    - destruct (Z.eqb_spec (s_nm (scof (u_sc st) n)) INVALID_SCORE) as [Ei|Ni]; cbn [negb] in *.
      + (* the node is (re)computed after its children *)
        destruct (negaMaxStep_spec rq bd g (fold_left (fun s mc => updDown f rq bd g s (snd mc)) (children g n) st) n) as [S1 [S2 _]].
        rewrite S2 in E. rewrite S1.
        assert (L : forall l y (T : N -> Prop), (forall mc, In mc l -> In (snd mc) (bk_keys g)) ->
                    wfc (u_sc y) -> Cl T (u_sc y) ->
                    u_err (fold_left (fun s (mc : N * N) => updDown f rq bd g s (snd mc)) l y) = 0%N ->
                    let z := fold_left (fun s (mc : N * N) => updDown f rq bd g s (snd mc)) l y in
                    wfc (u_sc z) /\ Cl (fun q => T q \/ exists mc, In mc l /\ reach g (snd mc) q) (u_sc z) /\
                    (forall q, T q -> nmec (scof (u_sc z) q) = nmec (scof (u_sc y) q))).
        { induction l as [|mc t IHl]; intros y T Kl Wy Cy Ey; cbn [fold_left] in *.
          - split; [exact Wy|]. split; [|intros; reflexivity].
            apply (Cl_ext T); [|exact Cy]. intro q. split; [intro H; left; exact H|intros [H|[mc [[] _]]]; exact H].
          - assert (E1 : u_err (updDown f rq bd g y (snd mc)) = 0%N).
            { pose proof (fold_err_mono _ (fun s (mc0 : N * N) => updDown f rq bd g s (snd mc0)) t
                            (fun s x _ => updDown_err_mono rq bd g f s (snd x)) (updDown f rq bd g y (snd mc))) as M.
              rewrite Ey in M. lia. }
            destruct (IH y (snd mc) T (Kl mc (or_introl eq_refl)) Wy Cy E1) as [W1 [C1 N1]].
            destruct (IHl (updDown f rq bd g y (snd mc)) (fun q => T q \/ reach g (snd mc) q)
                          (fun m H => Kl m (or_intror H)) W1 C1 Ey) as [W2 [C2 N2]].
            split; [exact W2|]. split.
            + apply (Cl_ext (fun q => (T q \/ reach g (snd mc) q) \/ (exists mc0, In mc0 t /\ reach g (snd mc0) q))); [|exact C2].
              intro q. split.
              * intros [[H|H]|[mc0 [H1 H2]]]; [left; exact H|right; exists mc; split; [left; reflexivity|exact H]|
                                               right; exists mc0; split; [right; exact H1|exact H2]].
              * intros [H|[mc0 [[<-|H1] H2]]]; [left; left; exact H|left; right; exact H2|right; exists mc0; split; assumption].
            + intros q Hq. rewrite N2 by (left; exact Hq). apply N1. exact Hq. }
        destruct (L (children g n) st S (child_key succ g HI n) W C E) as [W1 [C1 N1]].
        set (stA := fold_left (fun s (mc : N * N) => updDown f rq bd g s (snd mc)) (children g n) st) in *.
        set (SA := fun q => S q \/ exists mc, In mc (children g n) /\ reach g (snd mc) q) in *.
        destruct C1 as [CA [CB CC]].
        destruct (compute_good succ rk Hrk bd g Hk HI (u_sc stA) n W1) as [Gn W2].
        set (sc' := fst (computeNegaMax bd g (u_sc stA) n)) in *.
        (* members of SA keep their values: if the recomputed node is a member it already was good *)
        assert (Keep : forall q, SA q -> nmec (scof sc' q) = nmec (scof (u_sc stA) q)).
        { intros q Hq. destruct (N.eq_dec q n) as [->|Hne]; [|unfold sc'; rewrite compute_other by exact Hne; reflexivity].
          apply (compute_noop succ rk Hrk bd g Hk HI); [exact W1|apply CB; exact Hq]. }
        assert (GoodA : forall q, SA q -> good bd g sc' q).
        { intros q Hq. apply (good_ext bd g (u_sc stA)); [symmetry; apply Keep; exact Hq| |apply CB; exact Hq].
          intros mc Hm. symmetry. apply Keep. apply (CA q Hq mc Hm). }
        split; [exact W2|]. split.
        * apply (Cl_ext (fun q => SA q \/ q = n)).
          { intro q. rewrite reach_cases. unfold SA. tauto. }
          split; [|split].
          -- intros q [Hq| ->] mc Hm; [left; apply (CA q Hq mc Hm)|].
             left. right. exists mc. split; [exact Hm|apply reach_refl].
          -- intros q [Hq| ->]; [apply GoodA; exact Hq|exact Gn].
          -- intros q Kq Hq. destruct (N.eq_dec q n) as [->|Hne]; [right; reflexivity|].
             left. apply CC; [exact Kq|]. unfold sc' in Hq. rewrite compute_other in Hq by exact Hne. exact Hq.
        * intros q Hq. rewrite Keep by (left; exact Hq). apply N1. exact Hq.
      + (* already valid: member of S, nothing happens *)
        destruct C as [CA [CB CC]]. assert (Sn : S n) by (apply CC; assumption).
        split; [exact W|]. split; [|intros; reflexivity].
        apply (Cl_ext S); [|split; [exact CA|split; [exact CB|exact CC]]].
        intro q. split; [intro H; left; exact H|intros [H|H]; [exact H|eapply reach_closed; eauto]].
  Qed.

  (** updateScores(root) when no score has been computed yet *)
  Theorem updateScores_virgin : forall start,
    In start (bk_keys g) -> wfc (bk_sc g) ->
    (forall q, In q (bk_keys g) -> s_nm (scof (bk_sc g) q) = INVALID_SCORE) ->
    bk_err (updateScores rq bd g start) = 0%N ->
    wfc (bk_sc (updateScores rq bd g start)) /\
    forall q, reach g start q -> good bd g (bk_sc (updateScores rq bd g start)) q.
  Proof.
    intros start Ks W V E. unfold updateScores in *.
    set (fuel := fuel_of g) in *.
    set (st0 := upd_insert (mkUst (bk_sc g) nempty [] 0%N) start) in *.
    assert (S0 : u_sc st0 = bk_sc g) by (unfold st0, upd_insert; rewrite nget_nempty; reflexivity).
    set (st1 := updTop fuel rq bd g st0 start) in *.
    destruct (fold_left (updPathErrors fuel g) (sort_upd g (u_list st1)) (u_sc st1, u_err st1)) as [sc2 err2] eqn:PE.
    cbn [bk_err bk_sc set_err set_sc] in E |- *.
    assert (PEq : forall l s0, sc_equiv (fst s0) (fst (fold_left (updPathErrors fuel g) l s0)) /\
                               (snd s0 <= snd (fold_left (updPathErrors fuel g) l s0))%N).
    { induction l as [|x t IHl]; intro s0; cbn [fold_left]; [split; [intro y; reflexivity|lia]|].
      destruct (IHl (updPathErrors fuel g s0 x)) as [A B]. split.
      - intro y. rewrite (updPathErrors_equiv g fuel s0 x y). apply A.
      - etransitivity; [apply updPathErrors_err_mono|exact B]. }
    destruct (PEq (sort_upd g (u_list st1)) (u_sc st1, u_err st1)) as [Q1 Q2]. rewrite PE in Q1, Q2. cbn [fst snd] in Q1, Q2.
    assert (E1 : u_err st1 = 0%N) by lia.
    unfold st1, updTop in E1, Q1.
    set (Fd := fun s (mc : N * N) => updDown fuel rq bd g s (snd mc)) in *.
    set (stA := fold_left Fd (children g start) st0) in *.
    destruct (negaMaxStep_spec rq bd g stA start) as [B1 [B2 B3]].
    destruct (negaMaxStep rq bd g stA start) as [stB chB]. cbn [fst snd] in B1, B2, B3.
    assert (EB : u_err stB = 0%N).
    { pose proof (fold_err_mono _ (fun s (mp : N * N) => updUp fuel rq bd g start s (snd mp)) (parents g start)
                    (fun s x _ => updUp_err_mono rq bd g fuel start s (snd x)) stB) as M. rewrite E1 in M. lia. }
    assert (EA : u_err stA = 0%N) by (rewrite <- B2; exact EB).
    (* children: closed good sets *)
    assert (L : forall l y (T : N -> Prop), (forall mc, In mc l -> In (snd mc) (bk_keys g)) ->
                wfc (u_sc y) -> Cl T (u_sc y) -> u_err (fold_left Fd l y) = 0%N ->
                wfc (u_sc (fold_left Fd l y)) /\
                Cl (fun q => T q \/ exists mc, In mc l /\ reach g (snd mc) q) (u_sc (fold_left Fd l y))).
    { induction l as [|mc t IHl]; intros y T Kl Wy Cy Ey; cbn [fold_left] in *.
      - split; [exact Wy|]. apply (Cl_ext T); [|exact Cy].
        intro q. split; [intro H; left; exact H|intros [H|[mc [[] _]]]; exact H].
      - assert (Ex : u_err (Fd y mc) = 0%N).
        { pose proof (fold_err_mono _ Fd t (fun s x _ => updDown_err_mono rq bd g fuel s (snd x)) (Fd y mc)) as M.
          rewrite Ey in M. lia. }
        destruct (updDown_closed fuel y (snd mc) T (Kl mc (or_introl eq_refl)) Wy Cy Ex) as [W1 [C1 _]].
        destruct (IHl (Fd y mc) (fun q => T q \/ reach g (snd mc) q) (fun m H => Kl m (or_intror H)) W1 C1 Ey) as [W2 C2].
        split; [exact W2|].
        apply (Cl_ext (fun q => (T q \/ reach g (snd mc) q) \/ (exists mc0, In mc0 t /\ reach g (snd mc0) q))); [|exact C2].
        intro q. split.
        + intros [[H|H]|[mc0 [H1 H2]]]; [left; exact H|right; exists mc; split; [left; reflexivity|exact H]|
                                         right; exists mc0; split; [right; exact H1|exact H2]].
        + intros [H|[mc0 [[<-|H1] H2]]]; [left; left; exact H|left; right; exact H2|right; exists mc0; split; assumption]. }
    assert (C0 : Cl (fun _ => False) (u_sc st0)).
    { split; [intros q []|]. split; [intros q []|]. intros q Kq Hq. apply Hq. rewrite S0. apply V. exact Kq. }
    destruct (L (children g start) st0 (fun _ => False) (child_key succ g HI start)) as [WA CA]; try assumption.
    { rewrite S0. exact W. }
    fold stA in WA, CA. destruct CA as [CA1 [CA2 CA3]].
    destruct (compute_good succ rk Hrk bd g Hk HI (u_sc stA) start WA) as [GB WB]. rewrite <- B1 in GB, WB.
    assert (Keep : forall q, (exists mc, In mc (children g start) /\ reach g (snd mc) q) ->
                             nmec (scof (u_sc stB) q) = nmec (scof (u_sc stA) q)).
    { intros q Hq. rewrite B1. destruct (N.eq_dec q start) as [->|Hne]; [|rewrite compute_other by exact Hne; reflexivity].
      apply (compute_noop succ rk Hrk bd g Hk HI); [exact WA|apply CA2; right; exact Hq]. }
    assert (GoodB : forall q, reach g start q -> good bd g (u_sc stB) q).
    { intros q R. apply reach_cases in R. destruct R as [->|Hq]; [exact GB|].
      apply (good_ext bd g (u_sc stA)); [symmetry; apply Keep; exact Hq| |apply CA2; right; exact Hq].
      intros mc Hm. symmetry. apply Keep.
      assert (X : False \/ exists mc0, In mc0 (children g start) /\ reach g (snd mc0) (snd mc)) by (apply (CA1 q (or_intror Hq) mc Hm)).
      destruct X as [[]|X]; exact X. }
    (* parents (none in a book, but the code handles them) *)
    assert (LU : forall l s0, wfc (u_sc s0) ->
               u_err (fold_left (fun s (mp : N * N) => updUp fuel rq bd g start s (snd mp)) l s0) = 0%N ->
               let r := fold_left (fun s (mp : N * N) => updUp fuel rq bd g start s (snd mp)) l s0 in
               wfc (u_sc r) /\ (forall q, good bd g (u_sc s0) q -> good bd g (u_sc r) q)).
    { induction l as [|mp t IHl]; intros s0 Ws Es; cbn [fold_left] in *; [split; [exact Ws|auto]|].
      assert (Ex : u_err (updUp fuel rq bd g start s0 (snd mp)) = 0%N).
      { pose proof (fold_err_mono _ (fun s (mp0 : N * N) => updUp fuel rq bd g start s (snd mp0)) t
                      (fun s x _ => updUp_err_mono rq bd g fuel start s (snd x)) (updUp fuel rq bd g start s0 (snd mp))) as M.
        rewrite Es in M. lia. }
      destruct (updUp_spec succ rk Hrk rq bd g Hk HI fuel start s0 (snd mp) Ws Ex) as [Wa [_ Pa]].
      destruct (IHl _ Wa Es) as [Wb Pb]. split; [exact Wb|]. intros q Hq. apply Pb. apply Pa. exact Hq. }
    destruct (LU (parents g start) stB WB E1) as [Wr Pr].
    split; [apply (wfc_equiv _ _ Q1 Wr)|].
    intros q R. apply (good_equiv bd g _ _ q Q1). apply Pr. apply GoodB. exact R.
  Qed.
End Virgin.

(** * frame properties of the rebuild *)
Definition same_data (i j : ninfo) : Prop :=
  ni_addr i = ni_addr j /\ ni_move i = ni_move j /\ ni_score i = ni_score j /\ ni_time i = ni_time j.

Lemma setChildRefs_fields : forall l g n,
  bk_keys (setChildRefs g n l) = bk_keys g /\ bk_info (setChildRefs g n l) = bk_info g /\
  bk_sc (setChildRefs g n l) = bk_sc g /\ bk_pending (setChildRefs g n l) = bk_pending g /\
  bk_root (setChildRefs g n l) = bk_root g.
Proof.
  unfold setChildRefs. induction l as [|mc t IH]; intros g n; cbn [fold_left]; [repeat split; reflexivity|].
  destruct (has_node g (snd mc)); [|apply IH].
  destruct (IH (link g n (fst mc) (snd mc)) n) as [A [B [C [D E]]]].
  pose proof (link_unfold g n (fst mc) (snd mc)) as U. cbn zeta in U.
  rewrite A, B, C, D, E, U. cbn. repeat split; reflexivity.
Qed.

Lemma initPositions_fields : forall f sm g n,
  bk_keys (initPositions f sm g n) = bk_keys g /\ bk_sc (initPositions f sm g n) = bk_sc g /\
  bk_pending (initPositions f sm g n) = bk_pending g /\ bk_root (initPositions f sm g n) = bk_root g /\
  (forall q, same_data (info (initPositions f sm g n) q) (info g q)).
Proof.
  induction f as [|f IH]; intros sm g n; cbn [initPositions].
  - cbn. repeat split; reflexivity.
  - destruct (negb (has_node g n)); [repeat split; reflexivity|].
    destruct (setChildRefs_fields (succ_of sm n) g n) as [K1 [F1 [S1 [P1 R1]]]].
    set (g1 := setChildRefs g n (succ_of sm n)) in *.
    assert (L : forall l g0, let z := fold_left (fun (g : book) (mc : N * N) =>
                  if N.eqb (ni_state (info g (snd mc))) ST_DESERIALIZED then initPositions f sm g (snd mc) else g) l g0 in
                bk_keys z = bk_keys g0 /\ bk_sc z = bk_sc g0 /\ bk_pending z = bk_pending g0 /\ bk_root z = bk_root g0 /\
                (forall q, same_data (info z q) (info g0 q))).
    { induction l as [|mc t IHl]; intro g0; cbn [fold_left]; [repeat split; reflexivity|].
      destruct (N.eqb _ _); [|apply IHl].
      destruct (IH sm g0 (snd mc)) as [A [B [C [D E]]]].
      destruct (IHl (initPositions f sm g0 (snd mc))) as [A' [B' [C' [D' E']]]].
      split; [congruence|]. split; [congruence|]. split; [congruence|]. split; [congruence|].
      intro q. destruct (E q) as [e1 [e2 [e3 e4]]]. destruct (E' q) as [e1' [e2' [e3' e4']]].
      unfold same_data. repeat split; congruence. }
    destruct (L (children g1 n) g1) as [A [B [C [D E]]]].
    cbn [set_state set_info bk_keys bk_sc bk_pending bk_root].
    split; [congruence|]. split; [congruence|]. split; [congruence|]. split; [congruence|].
    intro q. rewrite info_set_state. destruct (E q) as [e1 [e2 [e3 e4]]].
    assert (I1 : info g1 q = info g q) by (unfold info; rewrite F1; reflexivity).
    destruct (N.eqb_spec q n) as [->|_].
    + destruct (E n) as [a1 [a2 [a3 a4]]]. assert (I1n : info g1 n = info g n) by (unfold info; rewrite F1; reflexivity).
      unfold same_data. cbn. rewrite <- I1n. repeat split; assumption.
    + rewrite <- I1. exact (conj e1 (conj e2 (conj e3 e4))).
Qed.

Lemma CS_initPositions : forall f sm g n, CS g -> CS (initPositions f sm g n).
Proof.
  induction f as [|f IH]; intros sm g n H; cbn [initPositions]; [apply (CS_frame g); [reflexivity|exact H]|].
  destruct (negb (has_node g n)); [exact H|].
  apply (CS_frame (fold_left (fun (g : book) (mc : N * N) =>
           if N.eqb (ni_state (info g (snd mc))) ST_DESERIALIZED then initPositions f sm g (snd mc) else g)
           (children (setChildRefs g n (succ_of sm n)) n) (setChildRefs g n (succ_of sm n)))); [reflexivity|].
  assert (L : forall l g0, CS g0 -> CS (fold_left (fun (g : book) (mc : N * N) =>
                if N.eqb (ni_state (info g (snd mc))) ST_DESERIALIZED then initPositions f sm g (snd mc) else g) l g0)).
  { induction l as [|mc t IHl]; intros g0 H0; cbn [fold_left]; [exact H0|].
    apply IHl. destruct (N.eqb _ _); [apply IH; exact H0|exact H0]. }
  apply L. apply CS_setChildRefs. exact H.
Qed.

(** * the records phase of readFromFile *)
Section Records.
  Variables (G : book) (am : nmap N).
  Let r := bk_root G.

  Definition rinfo (h : N) : ninfo :=
    mkInfo (lookup_addr am h) (ni_move (info G h)) (ni_score (info G h)) (ni_time (info G h)) ST_DESERIALIZED.

  Definition in_ranges (h : N) : Prop :=
    (h < U64_BOUND)%N /\ (ni_move (info G h) < U16_BOUND)%N /\ -32768 <= ni_score (info G h) < 32768 /\
    (ni_time (info G h) < U32_BOUND)%N.

  Record RPh (x : book) (done : list N) : Prop := mkRPh {
    rp_root : bk_root x = r;
    rp_pending : bk_pending x = [];
    rp_err : bk_err x = 0%N;
    rp_nolinks : forall q, children x q = [] /\ parents x q = [];
    rp_keys : bk_keys x = rev done;
    rp_in : forall h, In h done -> info x h = rinfo h /\ has_node x h = true /\
              depth x h = (if N.eqb h r then 0 else INT_MAX) /\
              score_of x h = (if N.eqb h r then root_scores else default_scores);
    rp_out : forall h, ~ In h done -> has_node x h = false /\ depth x h = INT_MAX /\ score_of x h = default_scores
  }.

  Lemma records_phase : forall ks x done,
    RPh x done -> NoDup (done ++ ks) -> (forall h, In h ks -> in_ranges h) ->
    RPh (fold_left (read_record am) (map (node_record G) ks) x) (done ++ ks).
  Proof.
    induction ks as [|h t IH]; intros x done R ND Rg; cbn [map fold_left].
    - rewrite app_nil_r. exact R.
    - replace (done ++ h :: t) with ((done ++ [h]) ++ t) in * by (rewrite <- app_assoc; reflexivity).
      apply IH; [|exact ND|intros y Hy; apply Rg; right; exact Hy].
      assert (Hh : ~ In h done).
      { rewrite <- app_assoc in ND. apply NoDup_remove_2 in ND. intro H. apply ND. apply in_or_app. left. exact H. }
      destruct (Rg h (or_introl eq_refl)) as [R1 [R2 [R3 R4]]].
      destruct R as [Rr Rp Re Rn Rk Ri Ro].
      unfold node_record. rewrite read_record_of by assumption. rewrite Rr. fold r.
      set (x' := new_node x h (lookup_addr am h) (mkInfo (lookup_addr am h) (ni_move (info G h)) (ni_score (info G h)) (ni_time (info G h)) ST_DESERIALIZED)
                   (if N.eqb h r then 0 else INT_MAX) (if N.eqb h r then root_scores else default_scores)).
      assert (Inf : forall q, info x' q = if N.eqb q h then rinfo h else info x q).
      { intro q. unfold info, x', new_node, info_of. cbn [bk_info]. rewrite nget_nset. destruct (N.eqb q h); reflexivity. }
      assert (Hn : forall q, has_node x' q = N.eqb q h || has_node x q) by (intro q; apply has_node_new).
      assert (Dp : forall q, depth x' q = if N.eqb q h then (if N.eqb h r then 0 else INT_MAX) else depth x q).
      { intro q. unfold depth, x', new_node, depth_of. cbn [bk_depth]. rewrite nget_nset. destruct (N.eqb q h); reflexivity. }
      assert (Sc : forall q, score_of x' q = if N.eqb q h then (if N.eqb h r then root_scores else default_scores) else score_of x q).
      { intro q. unfold score_of, x', new_node, scof. cbn [bk_sc]. rewrite nget_nset. destruct (N.eqb q h); reflexivity. }
      constructor.
      + exact Rr.
      + exact Rp.
      + exact Re.
      + intro q. unfold children, parents, x', new_node, links_of. cbn [bk_children bk_parents]. rewrite !nget_nset.
        destruct (N.eqb q h); [split; reflexivity|apply Rn].
      + unfold x', new_node. cbn [bk_keys]. unfold add_key. rewrite Rk.
        destruct (mem h (rev done)) eqn:M; [apply mem_in in M; apply in_rev in M; contradiction|].
        rewrite rev_app_distr. reflexivity.
      + intros q Hq. apply in_app_or in Hq. rewrite Inf, Hn, Dp, Sc. destruct (N.eqb_spec q h) as [->|Hne].
        * repeat split; reflexivity.
        * destruct Hq as [Hq|[E|[]]]; [|symmetry in E; contradiction]. cbn [orb]. apply Ri. exact Hq.
      + intros q Hq. rewrite Hn, Dp, Sc. destruct (N.eqb_spec q h) as [->|Hne].
        * exfalso. apply Hq. apply in_or_app. right. left; reflexivity.
        * cbn [orb]. apply Ro. intro H. apply Hq. apply in_or_app. left; exact H.
  Qed.

  Lemma RPh_empty : RPh (empty_book r) [].
  Proof.
    constructor; try reflexivity.
    - intro q. unfold children, parents, empty_book, links_of; cbn. rewrite nget_nempty. split; reflexivity.
    - intros h [].
    - intros h _. unfold has_node, depth, score_of, empty_book, depth_of, scof; cbn. rewrite !nget_nempty. repeat split; reflexivity.
  Qed.
End Records.

(** * reload: the main theorem *)
Section Reload.
  Variable succ : N -> N -> option N.
  Variable rk : N -> Z.
  Variable wtm : N -> bool.
  Hypothesis Hrk : forall p m c, succ p m = Some c -> rk p < rk c.
  Hypothesis Hwtm : forall p m c, succ p m = Some c -> wtm c = negb (wtm p).
  Variable bd : bdata.
  Hypothesis Hk : costs_nonneg' bd.

  (** node list without duplicates, fields within the ranges of the 16-byte record *)
  Definition RI (g : book) : Prop := NoDup (bk_keys g) /\ forall h, In h (bk_keys g) -> in_ranges g h.
  (** every move of the successor relation between two book nodes is a link *)
  Definition LC (g : book) : Prop :=
    forall n m c, In n (bk_keys g) -> In c (bk_keys g) -> succ n m = Some c -> In (m, c) (children g n).

  Definition Full (g : book) : Prop := KI succ wtm bd g /\ RI g /\ CS g /\ LC g /\ bk_err g = 0%N.

  (** the file is a permutation of the records of all nodes; the successor lists handed to the
      reload are sound and complete for the moves between book nodes *)
  Definition read_ok (G : book) (recs : list (list N)) (sl : list (N * list (N * N))) : Prop :=
    (exists ks, Permutation ks (bk_keys G) /\ recs = map (node_record G) ks) /\
    (forall n, succ_list_ok succ n (succ_of (map_of_list sl) n)) /\
    (forall n m c, In n (bk_keys G) -> In c (bk_keys G) -> succ n m = Some c -> In (m, c) (succ_of (map_of_list sl) n)) /\
    Z.of_nat (length (bk_keys G)) + 1 < INT_MAX.

  Lemma path_reach : forall g a b k, path g a b k -> reach g a b.
  Proof. intros g a b k P. induction P as [|b c m k P IH H]; [apply reach_refl|eapply reach_step; eauto]. Qed.

  Theorem reload_full : forall G recs addrs sl,
    Full G -> read_ok G recs sl ->
    (bk_err (opRead true bd G recs addrs sl) < ERR_ASSERT)%N ->
    let g' := opRead true bd G recs addrs sl in
    Full g' /\ bk_root g' = bk_root G /\ bk_pending g' = [] /\
    (forall n, In n (bk_keys g') <-> In n (bk_keys G)) /\
    (forall n, In n (bk_keys G) ->
       children g' n = children G n /\ (forall x, In x (parents g' n) <-> In x (parents G n)) /\
       ni_move (info g' n) = ni_move (info G n) /\ ni_score (info g' n) = ni_score (info G n) /\
       ni_time (info g' n) = ni_time (info G n)).
  Proof.
    intros G recs addrs sl [[GG [DG PG]] [[NDG RgG] [CSG [LCG EG]]]] [[ks [Perm ->]] [Hsm [Hcomp Hsz]]] E.
    unfold opRead in *.
    set (am := map_of_list addrs) in *. set (sm := map_of_list sl) in *.
    set (r := bk_root G) in *. set (K := bk_keys G) in *.
    assert (NDks : NoDup ks) by (apply (Permutation_NoDup (Permutation_sym Perm)); exact NDG).
    assert (Inks : forall h, In h ks <-> In h K).
    { intro h. split; [apply (Permutation_in _ Perm)|apply (Permutation_in _ (Permutation_sym Perm))]. }
    assert (Lenks : length ks = length K) by (apply Permutation_length; exact Perm).
    pose proof (gi_inv succ wtm bd G GG) as IG.
    destruct DG as [KrG DEG].
    (* records *)
    pose proof (records_phase G am ks (empty_book r) [] (RPh_empty G am)) as RP. cbn [app] in RP.
    specialize (RP NDks (fun h H => RgG h (proj1 (Inks h) H))).
    destruct (read_records_inv succ am (map (node_record G) ks) (empty_book r) (Inv_empty succ r)) as [I1 _].
    { intro q. unfold children, parents, empty_book, links_of; cbn. rewrite nget_nempty. split; reflexivity. }
    set (g1 := fold_left (read_record am) (map (node_record G) ks) (empty_book r)) in *.
    destruct RP as [Rr Rp Re Rn Rk Ri Ro]. fold r in Rr, Ri, Ro.
    assert (K1 : forall h, In h (bk_keys g1) <-> In h K).
    { intro h. rewrite Rk, <- in_rev. apply Inks. }
    assert (Len1 : length (bk_keys g1) = length K) by (rewrite Rk, rev_length; exact Lenks).
    assert (Kr1 : In r (bk_keys g1)) by (apply K1; exact KrG).
    assert (Dep1 : forall q, depth g1 q = if In_dec N.eq_dec q ks then (if N.eqb q r then 0 else INT_MAX) else INT_MAX).
    { intro q. destruct (In_dec N.eq_dec q ks) as [H|H]; [apply (Ri q H)|apply (Ro q H)]. }
    assert (Wr : wtm r = true).
    { rewrite <- (parity_keys succ wtm bd G GG r KrG). destruct (eq_depth_elim G r (DEG r KrG)) as [D0 _].
      rewrite (D0 eq_refl). reflexivity. }
    assert (Sc1 : forall q, score_of g1 q = root_scores \/ score_of g1 q = default_scores).
    { intro q. destruct (In_dec N.eq_dec q ks) as [H|H]; [|right; apply (Ro q H)].
      destruct (Ri q H) as [_ [_ [_ S]]]. rewrite S. destruct (N.eqb q r); [left|right]; reflexivity. }
    assert (Core1 : Core succ rk wtm g1).
    { constructor.
      - exact I1.
      - split; intro q; fold (depth g1 q); rewrite Dep1; destruct (In_dec N.eq_dec q ks); try lia;
          destruct (N.eqb_spec q r) as [->|_]; try lia. intros _. rewrite Wr. reflexivity.
      - intro q. fold (depth g1 q). rewrite Dep1. destruct (In_dec N.eq_dec q ks); [destruct (N.eqb q r)|]; rewrite ?INT_MAX_val; lia.
      - intros q Hq. fold (depth g1 q) in *. rewrite Dep1 in *. destruct (In_dec N.eq_dec q ks); [|lia].
        destruct (N.eqb q r); lia.
      - intros q Hq. exfalso. apply Hq. apply Rn.
      - split; [rewrite Rr; exact Kr1|]. intros q Kq. apply eq_depth_intro; rewrite Rr.
        + intros ->. rewrite Dep1. destruct (In_dec N.eq_dec r ks) as [_|H]; [rewrite N.eqb_refl; reflexivity|].
          exfalso. apply H. apply Inks. exact KrG.
        + intros Hq _. rewrite Dep1. destruct (In_dec N.eq_dec q ks); [|reflexivity].
          destruct (N.eqb_spec q r); [contradiction|reflexivity].
        + intros _ Hp. exfalso. apply Hp. apply Rn.
      - exact Re.
      - rewrite Len1. exact Hsz. }
    assert (St1 : forall q, In q (bk_keys g1) -> stt g1 q = ST_DESERIALIZED).
    { intros q Kq. unfold stt. apply K1 in Kq. apply Inks in Kq. rewrite (proj1 (Ri q Kq)). reflexivity. }
    assert (DS1 : DS succ rk wtm sm g1).
    { constructor; [exact Core1| |].
      - intros q Kq. left. apply St1. exact Kq.
      - intros q Kq Sq. rewrite (St1 q Kq) in Sq. discriminate. }
    (* the depth-first rebuild *)
    set (g2 := initPositions (S (S (length (bk_keys g1)))) sm g1 r) in *.
    assert (HN2 : has_node g2 r = true).
    { destruct (Inv_initPositions succ (S (S (length (bk_keys g1)))) sm g1 r Hsm I1) as [I2 [K2 _]].
      apply (inv_keys succ g2 I2). fold g2 in K2. rewrite K2. exact Kr1. }
    assert (R2 : bk_root g2 = r).
    { destruct (initPositions_fields (S (S (length (bk_keys g1)))) sm g1 r) as [_ [_ [_ [R _]]]]. fold g2 in R. rewrite R. exact Rr. }
    assert (AR : addRootNode g2 (lookup_addr am r) (succ_of sm r) = g2).
    { unfold addRootNode. rewrite R2, HN2. reflexivity. }
    rewrite AR in *.
    assert (E2 : (bk_err g2 < ERR_ASSERT)%N) by (pose proof (updateScores_err_mono true bd g2 r); lia).
    destruct (DFS_call succ rk wtm Hrk Hwtm sm Hsm (S (S (length (bk_keys g1)))) g1 r DS1 Kr1 (St1 r Kr1)) as
      [DS2 [K2 [Sr2 [_ [_ [_ Dd2]]]]]]; try assumption.
    { rewrite Dep1. destruct (In_dec N.eq_dec r ks) as [_|H]; [rewrite N.eqb_refl; rewrite INT_MAX_val; lia|exfalso; apply H; apply Inks; exact KrG]. }
    { intros q _ _ _. apply Rn. }
    { pose proof (cnt_above_le rk (bk_keys g1) r). lia. }
    fold g2 in DS2, K2, Sr2, Dd2.
    pose proof (ds_core _ _ _ _ g2 DS2) as Core2. destruct Core2 as [I2 Pa2 NN2 CB2 Fv2 DI2 Er2 Sz2] eqn:CoreE. clear CoreE.
    destruct (initPositions_fields (S (S (length (bk_keys g1)))) sm g1 r) as [_ [S2 [P2 [_ Inf2]]]]. fold g2 in S2, P2, Inf2.
    assert (Kg2 : forall h, In h (bk_keys g2) <-> In h K) by (intro h; rewrite K2; apply K1).
    (* every node of the saved book is reached and gets exactly its saved children *)
    assert (FinG : forall q, In q K -> depth G q < INT_MAX).
    { intros q Kq. pose proof (gi_fin succ wtm bd G GG q Kq). pose proof (gi_size succ wtm bd G GG). unfold K in *. lia. }
    assert (LinksG : forall q, In q K -> eq_depth G q = true /\ eq_links G q = true).
    { intros q Kq. split; [apply DEG; exact Kq|apply (Inv_eq_links succ G IG); exact Kq]. }
    assert (PathG : forall q, In q K -> path G r q (Z.to_nat (depth G q))).
    { intros q Kq. apply (depth_attained G LinksG (fun x => gi_nonneg succ wtm bd G GG x) q Kq (FinG q Kq)). }
    assert (Done2 : forall q k, path G r q k -> stt g2 q = ST_INITIALIZED /\ In q K).
    { intros q k P. induction P as [|b c m k P IH Hc]; [split; [exact Sr2|exact KrG]|].
      destruct IH as [Sb Kb].
      destruct (inv_child succ G IG b m c Hc) as [_ [Kc [_ Sbc]]].
      destruct (ds_done _ _ _ _ g2 DS2 b (proj2 (Kg2 b) Kb) Sb) as [A B].
      assert (Hin : In (m, c) (children g2 b)).
      { apply A. split; [apply Hcomp; assumption|cbn [snd]; apply Kg2; exact Kc]. }
      split; [apply (B (m, c) Hin)|exact Kc]. }
    assert (Ch2 : forall q, In q K -> children g2 q = children G q).
    { intros q Kq. destruct (Done2 q _ (PathG q Kq)) as [Sq _].
      destruct (ds_done _ _ _ _ g2 DS2 q (proj2 (Kg2 q) Kq) Sq) as [A _].
      apply csorted_ext; [apply CS_initPositions; intro x; rewrite (proj1 (Rn x)); constructor|apply CSG|].
      intros [m c]. rewrite A. unfold icK. cbn [snd]. split.
      - intros [H1 H2]. apply LCG; [exact Kq|apply Kg2; exact H2|apply (Hsm q m c H1)].
      - intro H. destruct (inv_child succ G IG q m c H) as [_ [Kc [_ Sqc]]].
        split; [apply Hcomp; assumption|apply Kg2; exact Kc]. }
    assert (Pa2' : forall c x, In c K -> (In x (parents g2 c) <-> In x (parents G c))).
    { intros c [m p] Kc. split; intro H.
      - pose proof (inv_parent succ g2 I2 c m p H) as Cx.
        destruct (inv_child succ g2 I2 p m c Cx) as [Kp _]. rewrite (Ch2 p (proj1 (Kg2 p) Kp)) in Cx.
        apply (inv_child succ G IG p m c Cx).
      - pose proof (inv_parent succ G IG c m p H) as Cx.
        destruct (inv_child succ G IG p m c Cx) as [Kp _]. rewrite <- (Ch2 p Kp) in Cx.
        apply (inv_child succ g2 I2 p m c Cx). }
    assert (Reach2 : forall q, In q K -> reach g2 r q).
    { intros q Kq. pose proof (PathG q Kq) as P. clear Kq.
      induction P as [|b c m k P IH Hc]; [apply reach_refl|].
      assert (Kb : In b K) by (apply (Done2 b k P)).
      eapply reach_step; [exact IH|rewrite (Ch2 b Kb); exact Hc]. }
    (* scores *)
    set (g3 := updateScores true bd g2 r) in *.
    assert (E3 : bk_err g3 = 0%N).
    { assert (NF : nf (bk_err g3)) by (apply (updateScores_nofuel succ rk Hrk true bd g2 I2); rewrite Er2; apply nf_0).
      unfold nf, ERR_FUEL, ERR_ASSERT in *. lia. }
    assert (Kr2 : In r (bk_keys g2)) by (apply Kg2; exact KrG).
    assert (Sc2 : forall q, score_of g2 q = root_scores \/ score_of g2 q = default_scores).
    { intro q. unfold score_of. rewrite S2. apply Sc1. }
    assert (W2 : wfc (bk_sc g2)).
    { intro q. fold (score_of g2 q). destruct (Sc2 q) as [-> | ->]; cbn; split; apply wfc_default. }
    destruct (updateScores_virgin succ rk Hrk true bd g2 Hk I2 r Kr2 W2) as [W3 G3]; [|exact E3|].
    { intros q _. fold (score_of g2 q). destruct (Sc2 q) as [-> | ->]; reflexivity. }
    fold g3 in W3, G3.
    destruct (updateScores_fields true bd g2 r) as [K3 [F3 [C3 [P3 [R3 [D3 Pe3]]]]]]. fold g3 in K3, F3, C3, P3, R3, D3, Pe3.
    assert (PI2 : PI g2).
    { intros q Kq. unfold eq_patherr. rewrite R2.
      assert (Cd : pe_candidates g2 q = []).
      { unfold pe_candidates. apply flat_map_nil. intros mp _. cbn zeta.
        assert (Nm : s_nm (score_of g2 q) = INVALID_SCORE) by (destruct (Sc2 q) as [-> | ->]; reflexivity).
        rewrite Nm, Z.eqb_refl. rewrite ?orb_true_r. reflexivity. }
      rewrite Cd. unfold score_of. rewrite S2. fold (score_of g1 q).
      apply Kg2 in Kq. apply Inks in Kq. destruct (Ri q Kq) as [_ [_ [_ S]]]. rewrite S.
      destruct (N.eqb q r); reflexivity. }
    assert (PI3 : PI g3).
    { apply (PI_updateScores succ rk Hrk bd); try assumption; try (intro q; apply NN2). }
    assert (Fin2 : forall q, In q K -> depth g2 q < INT_MAX).
    { intros q Kq. pose proof (PathG q Kq) as P.
      assert (P2' : path g2 r q (Z.to_nat (depth G q))).
      { clear Kq. induction P as [|b c m k P IH Hc]; [apply path_nil|].
        eapply path_step; [exact IH|]. rewrite (Ch2 b); [exact Hc|]. apply (Done2 b k P). }
      assert (L2 : forall x, In x (bk_keys g2) -> eq_depth g2 x = true /\ eq_links g2 x = true).
      { intros x Kx. split; [apply DI2; exact Kx|apply (Inv_eq_links succ g2 I2); exact Kx]. }
      pose proof (depth_lower_bound g2 (proj1 DI2) L2) as LB. rewrite R2 in LB. specialize (LB q _ P2').
      pose proof (gi_nonneg succ wtm bd G GG q) as NNq. fold (depth G q) in NNq. specialize (FinG q Kq). lia. }
    assert (Ch3 : forall q, children g3 q = children g2 q) by (intro q; unfold children; rewrite C3; reflexivity).
    assert (Par3 : forall q, parents g3 q = parents g2 q) by (intro q; unfold parents; rewrite P3; reflexivity).
    assert (Dp3 : forall q, depth g3 q = depth g2 q) by (intro q; unfold depth; rewrite D3; reflexivity).
    assert (Inf3 : forall q, In q K -> ni_move (info g3 q) = ni_move (info G q) /\ ni_score (info g3 q) = ni_score (info G q) /\
                                        ni_time (info g3 q) = ni_time (info G q)).
    { intros q Kq. unfold info at 1 3 5. rewrite F3. fold (info g2 q). destruct (Inf2 q) as [_ [e2 [e3 e4]]].
      rewrite e2, e3, e4. apply Inks in Kq. rewrite (proj1 (Ri q Kq)). cbn. repeat split; reflexivity. }
    assert (Kg3 : forall h, In h (bk_keys g3) <-> In h K) by (intro h; rewrite K3; apply Kg2).
    assert (GI3 : GI succ wtm bd g3).
    { constructor.
      - apply Inv_updateScores. exact I2.
      - exact W3.
      - intros q Kq. apply (good_same_static bd g2); try (symmetry; assumption).
        apply G3. apply Reach2. apply Kg3. exact Kq.
      - rewrite D3. exact Pa2.
      - rewrite D3. exact NN2.
      - intros q Kq. rewrite Dp3, K3. apply Kg3 in Kq. pose proof (Fin2 q Kq) as F. pose proof (CB2 q) as B.
        fold (depth g2 q) in B. specialize (B F). pose proof (cnt_below_le rk (bk_keys g2) q). lia.
      - rewrite K3. lia. }
    split; [|split; [rewrite R3; exact R2|split; [rewrite Pe3, P2; exact Rp|split; [exact Kg3|]]]].
    - split; [split; [exact GI3|split; [|exact PI3]]|split; [|split; [|split; [|exact E3]]]].
      + apply (DI_frame g2); assumption.
      + split.
        * rewrite K3, K2, Rk. apply NoDup_rev. exact NDks.
        * intros h Kh. apply Kg3 in Kh. destruct (RgG h Kh) as [r1 [r2 [r3 r4]]].
          destruct (Inf3 h Kh) as [e2 [e3 e4]]. unfold in_ranges. rewrite e2, e3, e4. repeat split; try assumption; lia.
      + apply CS_updateScores. apply CS_initPositions. intro x. rewrite (proj1 (Rn x)). constructor.
      + intros n m c Kn Kc S. apply Kg3 in Kn. apply Kg3 in Kc. rewrite Ch3, (Ch2 n Kn). apply LCG; assumption.
    - intros n Kn. split; [rewrite Ch3; apply Ch2; exact Kn|]. split; [intro x; rewrite Par3; apply Pa2'; exact Kn|].
      apply Inf3. exact Kn.
  Qed.
End Reload.

(** * the reloaded values equal the saved ones; histories with save/load cycles *)
Section ReloadHist.
  Variable succ : N -> N -> option N.
  Variable rk : N -> Z.
  Variable wtm : N -> bool.
  Hypothesis Hrk : forall p m c, succ p m = Some c -> rk p < rk c.
  Hypothesis Hwtm : forall p m c, succ p m = Some c -> wtm c = negb (wtm p).
  Variable bd : bdata.
  Hypothesis Hk : costs_nonneg' bd.

  Lemma KI_all_equations : forall g, KI succ wtm bd g -> all_equations bd g.
  Proof.
    intros g [G [[_ D] P]] q Kq. destruct (gi_good succ wtm bd g G q Kq) as [A [B C]].
    unfold node_ok. split; [exact A|]. split; [exact B|]. split; [exact C|]. split; [apply P; exact Kq|].
    split; [apply D; exact Kq|]. apply (Inv_eq_links succ g (gi_inv succ wtm bd g G)). exact Kq.
  Qed.

  Lemma info_outside : forall g n, Inv succ g -> ~ In n (bk_keys g) -> info g n = default_info.
  Proof.
    intros g n I Hn. assert (H : has_node g n = false).
    { destruct (has_node g n) eqn:E; [|reflexivity]. exfalso. apply Hn. apply (inv_keys succ g I). exact E. }
    unfold has_node in H. unfold info, info_of. destruct (nget n (bk_info g)); [discriminate|reflexivity].
  Qed.

  Lemma dag_of_rank : forall g, Inv succ g -> dag g.
  Proof.
    intros g I. exists (fun q => Z.of_nat (cnt_below rk (bk_keys g) q)). intros p Kp. split; [lia|].
    intros m c H. destruct (inv_child succ g I p m c H) as [_ [_ [_ S]]].
    pose proof (cnt_below_parent rk (bk_keys g) c p Kp (Hrk _ _ _ S)). lia.
  Qed.

  (** saving and reloading reproduces the same graph and the same scores *)
  Theorem reload_values : forall G recs addrs sl,
    Full succ wtm bd G -> read_ok succ G recs sl -> bk_pending G = [] ->
    (bk_err (opRead true bd G recs addrs sl) < ERR_ASSERT)%N ->
    let g' := opRead true bd G recs addrs sl in
    forall n, In n (bk_keys G) ->
      In n (bk_keys g') /\ children g' n = children G n /\ (forall x, In x (parents g' n) <-> In x (parents G n)) /\
      ni_move (info g' n) = ni_move (info G n) /\ ni_score (info g' n) = ni_score (info G n) /\
      ni_time (info g' n) = ni_time (info G n) /\
      depth g' n = depth G n /\ score_of g' n = score_of G n.
  Proof.
    intros G recs addrs sl FG RO Pend E g' n Kn.
    destruct (reload_full succ rk wtm Hrk Hwtm bd Hk G recs addrs sl FG RO E) as [Fg' [Rg' [Pg' [Kg' Per]]]]. fold g' in Fg', Rg', Pg', Kg', Per.
    destruct (Per n Kn) as [C [P [M [S T]]]].
    destruct FG as [KG [_ [_ [_ _]]]]. destruct Fg' as [Kg2 [_ [_ [_ _]]]].
    pose proof (gi_inv succ wtm bd G (proj1 KG)) as IG. pose proof (gi_inv succ wtm bd g' (proj1 Kg2)) as Ig'.
    assert (SS : same_static G g').
    { constructor.
      - symmetry. exact Rg'.
      - intro x. symmetry. apply Kg'.
      - intro x. destruct (in_dec N.eq_dec x (bk_keys G)) as [Kx|Nx]; [symmetry; apply (Per x Kx)|].
        rewrite (info_outside G x IG Nx), (info_outside g' x Ig'); [reflexivity|]. intro H. apply Nx. apply Kg'. exact H.
      - intro x. destruct (in_dec N.eq_dec x (bk_keys G)) as [Kx|Nx]; [symmetry; apply (Per x Kx)|].
        rewrite (info_outside G x IG Nx), (info_outside g' x Ig'); [reflexivity|]. intro H. apply Nx. apply Kg'. exact H.
      - intro x. destruct (in_dec N.eq_dec x (bk_keys G)) as [Kx|Nx]; [symmetry; apply (Per x Kx)|].
        rewrite (proj1 (no_links_outside succ G x IG Nx)).
        rewrite (proj1 (no_links_outside succ g' x Ig' (fun H => Nx (proj1 (Kg' x) H)))). reflexivity.
      - intros x y. destruct (in_dec N.eq_dec x (bk_keys G)) as [Kx|Nx]; [symmetry; apply (Per x Kx)|].
        rewrite (proj2 (no_links_outside succ G x IG Nx)).
        rewrite (proj2 (no_links_outside succ g' x Ig' (fun H => Nx (proj1 (Kg' x) H)))). reflexivity.
      - intro x. rewrite Pend, Pg'. reflexivity. }
    destruct (equations_unique bd G g' SS (dag_of_rank G IG) (KI_all_equations G KG) (KI_all_equations g' Kg2) n Kn) as [Dn Sn].
    split; [apply Kg'; exact Kn|]. split; [exact C|]. split; [exact P|]. split; [exact M|]. split; [exact S|]. split; [exact T|].
    split; [symmetry; exact Dn|symmetry; exact Sn].
  Qed.

  (** ** operations with the additional input conditions *)
  Definition op_ok2 (g : book) (o : op) : Prop :=
    match o with
    | OpAdd h _ pl cl =>
        op_ok succ g o /\ (h < U64_BOUND)%N /\
        (forall p m, In p (bk_keys g) -> succ p m = Some h -> In (m, p) pl) /\
        (forall m c, In c (bk_keys g) -> succ h m = Some c -> In (m, c) cl)
    | OpSet _ mv _ t => op_ok succ g o /\ (mv < U16_BOUND)%N /\ (t < U32_BOUND)%N
    | OpPend _ | OpUnpend _ => op_ok succ g o
    | OpRead recs _ sl => read_ok succ g recs sl
    end.

  (** a history in which no assert of the code fails and no path error overflows *)
  Fixpoint steps_ok (g : book) (ops : list op) : Prop :=
    match ops with
    | [] => True
    | o :: t => op_ok2 g o /\ (bk_err (apply_op true bd g o) < ERR_ASSERT)%N /\ steps_ok (apply_op true bd g o) t
    end.

  Lemma fold_link_fields : forall h l g0,
    bk_keys (fold_left (fun g mp => link g (snd mp) (fst mp) h) l g0) = bk_keys g0 /\
    bk_info (fold_left (fun g mp => link g (snd mp) (fst mp) h) l g0) = bk_info g0.
  Proof.
    intro h. induction l as [|mp t IH]; intro g0; cbn [fold_left]; [split; reflexivity|].
    destruct (IH (link g0 (snd mp) (fst mp) h)) as [A B]. rewrite A, B, link_unfold. split; reflexivity.
  Qed.

  Lemma children_mono_fold : forall h l g0 q x, In x (children g0 q) ->
    In x (children (fold_left (fun g mp => link g (snd mp) (fst mp) h) l g0) q).
  Proof.
    intro h. induction l as [|mp t IH]; intros g0 q x H; cbn [fold_left]; [exact H|]. apply IH. apply children_link_incl. exact H.
  Qed.

  Lemma children_mono_refs : forall l g0 n q x, In x (children g0 q) -> In x (children (setChildRefs g0 n l) q).
  Proof.
    unfold setChildRefs. induction l as [|mc t IH]; intros g0 n q x H; cbn [fold_left]; [exact H|].
    destruct (has_node g0 (snd mc)); [apply IH; apply children_link_incl; exact H|apply IH; exact H].
  Qed.

  Lemma opAdd_keys_info : forall g h addr pl cl,
    bk_keys (opAdd true bd g h addr pl cl) = add_key h (bk_keys g) /\
    forall q, info (opAdd true bd g h addr pl cl) q =
              if N.eqb q h then mkInfo addr 0 INVALID_SCORE 0 ST_INITIALIZED else info g q.
  Proof.
    intros g h addr pl cl. unfold opAdd.
    set (g0 := new_node g h addr (mkInfo addr 0 INVALID_SCORE 0 ST_EMPTY) INT_MAX default_scores).
    set (g2 := fold_left (fun g mp => link g (snd mp) (fst mp) h) pl g0).
    destruct (fold_link_fields h pl g0) as [K2 F2]. fold g2 in K2, F2.
    destruct (setChildRefs_fields cl g2 h) as [K3 [F3 _]].
    destruct (updateScores_fields true bd (setChildRefs g2 h cl) h) as [K4 [F4 _]].
    split; [cbn [set_state set_info bk_keys]; rewrite K4, K3, K2; reflexivity|].
    assert (InfX : forall q, info (updateScores true bd (setChildRefs g2 h cl) h) q = info g0 q).
    { intro q. unfold info. rewrite F4, F3, F2. reflexivity. }
    assert (Inf0 : forall q, info g0 q = if N.eqb q h then mkInfo addr 0 INVALID_SCORE 0 ST_EMPTY else info g q).
    { intro q. unfold info, g0, new_node, info_of. cbn [bk_info]. rewrite nget_nset. destruct (N.eqb q h); reflexivity. }
    intro q. rewrite info_set_state, !InfX, !Inf0, N.eqb_refl. destruct (N.eqb q h); reflexivity.
  Qed.

  Lemma setChildRefs_adds : forall l g n m c,
    Inv succ g -> In n (bk_keys g) -> succ_list_ok succ n l -> In (m, c) l -> has_node g c = true ->
    In (m, c) (children (setChildRefs g n l) n).
  Proof.
    unfold setChildRefs. induction l as [|[m' c'] t IH]; intros g n m c I Kn Hs Hin HN; [destruct Hin|]. cbn [fold_left fst snd].
    destruct Hin as [E|Hin].
    - inversion E; subst m' c'. rewrite HN.
      apply (children_mono_refs t (link g n m c) n n (m, c)). apply (children_link_new succ); [exact I|apply Hs; left; reflexivity].
    - destruct (has_node g c') eqn:HN'.
      + assert (Kc' : In c' (bk_keys g)) by (apply (inv_keys succ g I); exact HN').
        apply IH; [apply Inv_link; [exact I|exact Kn|exact Kc'|apply Hs; left; reflexivity]|rewrite keys_link; exact Kn|
                   intros a b H; apply Hs; right; exact H|exact Hin|rewrite has_node_link; exact HN].
      + apply IH; [exact I|exact Kn|intros a b H; apply Hs; right; exact H|exact Hin|exact HN].
  Qed.

  Lemma fold_plinks_adds : forall pl g h m p,
    Inv succ g -> In h (bk_keys g) -> (forall m' p', In (m', p') pl -> In p' (bk_keys g) /\ succ p' m' = Some h) ->
    In (m, p) pl -> In (m, h) (children (fold_left (fun g mp => link g (snd mp) (fst mp) h) pl g) p).
  Proof.
    induction pl as [|[m' p'] t IH]; intros g h m p I Kh Hpl Hin; [destruct Hin|]. cbn [fold_left fst snd].
    destruct (Hpl m' p' (or_introl eq_refl)) as [Kp' Sp'].
    destruct Hin as [E|Hin].
    - inversion E; subst m' p'. apply children_mono_fold. apply (children_link_new succ); assumption.
    - apply IH; [apply Inv_link; assumption|rewrite keys_link; exact Kh| |exact Hin].
      intros a b H. rewrite keys_link. apply Hpl. right; exact H.
  Qed.

  Lemma Full_updateScores : forall g g1 h,
    Full succ wtm bd g -> bk_keys g1 = bk_keys g -> bk_children g1 = bk_children g ->
    (forall q, In q (bk_keys g) -> in_ranges g1 q) ->
    KI succ wtm bd (updateScores true bd g1 h) -> bk_err (updateScores true bd g1 h) = 0%N ->
    Full succ wtm bd (updateScores true bd g1 h).
  Proof.
    intros g g1 h [_ [[ND Rg] [CSg [LCg _]]]] K1 C1 Rg1 KI' E'.
    destruct (updateScores_fields true bd g1 h) as [K4 [F4 [C4 _]]].
    split; [exact KI'|]. split; [|split; [|split; [|exact E']]].
    - split; [rewrite K4, K1; exact ND|]. intros q Kq. rewrite K4, K1 in Kq.
      specialize (Rg1 q Kq). unfold in_ranges, info in *. rewrite F4. exact Rg1.
    - apply (CS_frame g); [rewrite C4; exact C1|exact CSg].
    - intros n m c Kn Kc S. rewrite K4, K1 in Kn, Kc. unfold children. rewrite C4, C1. apply LCg; assumption.
  Qed.

  Lemma Full_apply_op : forall g o, Full succ wtm bd g -> op_ok2 g o ->
    (bk_err (apply_op true bd g o) < ERR_ASSERT)%N -> Full succ wtm bd (apply_op true bd g o).
  Proof.
    intros g o FG W L. destruct o as [h addr pl cl|h mv s t|h|h|recs addrs sl].
    - (* addPosToBook *)
      destruct W as [W [Hh [Cp Cc]]]. destruct FG as [KG [[ND Rg] [CSg [LCg Eg]]]].
      assert (E1 : bk_err (apply_op true bd g (OpAdd h addr pl cl)) = 0%N).
      { apply (err_zero_step succ rk wtm Hrk Hwtm true bd); try assumption. apply KG. }
      assert (K1 : KI succ wtm bd (apply_op true bd g (OpAdd h addr pl cl))) by (apply (KI_apply_op succ rk wtm Hrk Hwtm bd Hk); assumption).
      cbn [apply_op] in *. destruct (opAdd_keys_info g h addr pl cl) as [Kk Inf].
      destruct W as [[Hfresh [Hpl Hcl]] [Hne Hsz]].
      assert (Kk' : bk_keys (opAdd true bd g h addr pl cl) = h :: bk_keys g).
      { rewrite Kk. unfold add_key. destruct (mem h (bk_keys g)) eqn:M; [apply mem_in in M; contradiction|reflexivity]. }
      pose proof (gi_inv succ wtm bd g (proj1 KG)) as I.
      split; [exact K1|]. split; [|split; [apply CS_opAdd; exact CSg|split; [|exact E1]]].
      + split; [rewrite Kk'; constructor; assumption|].
        intros q Kq. rewrite Kk' in Kq. unfold in_ranges. rewrite Inf. destruct (N.eqb_spec q h) as [->|Hq].
        * cbn [ni_move ni_score ni_time]. rewrite INVALID_val. unfold U16_BOUND, U32_BOUND. repeat split; try assumption; lia.
        * destruct Kq as [E0|Kq]; [symmetry in E0; contradiction|]. apply Rg. exact Kq.
      + (* link completeness *)
        intros n m c Kn Kc S. rewrite Kk' in Kn, Kc.
        set (g0 := new_node g h addr (mkInfo addr 0 INVALID_SCORE 0 ST_EMPTY) INT_MAX default_scores).
        set (g2 := fold_left (fun g mp => link g (snd mp) (fst mp) h) pl g0).
        assert (ChF : forall q, children (opAdd true bd g h addr pl cl) q = children (setChildRefs g2 h cl) q).
        { intro q. unfold opAdd. fold g0. fold g2.
          destruct (updateScores_fields true bd (setChildRefs g2 h cl) h) as [_ [_ [C4 _]]].
          unfold children. cbn [set_state set_info bk_children]. rewrite C4. reflexivity. }
        rewrite ChF.
        destruct (no_links_outside succ g h I Hfresh) as [C0 P0].
        assert (I0 : Inv succ g0) by (apply Inv_new_node; assumption).
        assert (K0 : forall x, In x (bk_keys g0) <-> x = h \/ In x (bk_keys g)) by (intro x; apply in_add_key).
        assert (Hpl0 : forall m' p', In (m', p') pl -> In p' (bk_keys g0) /\ succ p' m' = Some h).
        { intros m' p' H. destruct (Hpl m' p' H) as [A B]. split; [apply K0; right; exact A|exact B]. }
        destruct (fold_link_parents succ pl g0 h I0 (proj2 (K0 h) (or_introl eq_refl)) Hpl0) as [I2 K2]. fold g2 in I2, K2.
        assert (Ch0 : forall q, q <> h -> children g0 q = children g q).
        { intros q Hq. unfold children, g0, new_node, links_of. cbn [bk_children]. rewrite nget_nset_other by exact Hq. reflexivity. }
        destruct (N.eq_dec n h) as [->|Hn].
        * assert (Hc : c <> h) by (intro; subst c; pose proof (Hrk _ _ _ S); lia).
          destruct Kc as [E0|Kc]; [symmetry in E0; contradiction|].
          apply (setChildRefs_adds cl g2 h m c I2); [rewrite K2; apply K0; left; reflexivity|exact Hcl|apply Cc; assumption|].
          apply (inv_keys succ g2 I2). rewrite K2. apply K0. right; exact Kc.
        * destruct Kn as [E0|Kn]; [symmetry in E0; contradiction|]. apply children_mono_refs.
          destruct (N.eq_dec c h) as [->|Hc].
          -- apply (fold_plinks_adds pl g0 h m n I0 (proj2 (K0 h) (or_introl eq_refl)) Hpl0). apply Cp; assumption.
          -- destruct Kc as [E0|Kc]; [symmetry in E0; contradiction|]. apply children_mono_fold. rewrite (Ch0 n Hn). apply LCg; assumption.
    - (* setSearchResult *)
      destruct W as [W [Hm Ht]]. pose proof FG as FG0. destruct FG as [KG [[ND Rg] [CSg [LCg Eg]]]].
      assert (E1 : bk_err (apply_op true bd g (OpSet h mv s t)) = 0%N).
      { apply (err_zero_step succ rk wtm Hrk Hwtm true bd); try assumption. apply KG. }
      assert (K1 : KI succ wtm bd (apply_op true bd g (OpSet h mv s t))) by (apply (KI_apply_op succ rk wtm Hrk Hwtm bd Hk); assumption).
      cbn [apply_op] in *. unfold opSet in *.
      apply (Full_updateScores g); try assumption; try reflexivity.
      intros q Kq. unfold in_ranges. destruct (Rg q Kq) as [r1 [r2 [r3 r4]]].
      destruct (N.eq_dec q h) as [->|Hq].
      + unfold info, set_info, info_of. cbn [bk_info]. rewrite nget_nset_same. cbn [ni_move ni_score ni_time].
        pose proof (wrap16_range s). repeat split; try assumption; lia.
      + rewrite (info_set_info_other g h _ q Hq). repeat split; try assumption; lia.
    - (* addPending *)
      pose proof FG as FG0. destruct FG as [KG [[ND Rg] [CSg [LCg Eg]]]].
      assert (E1 : bk_err (apply_op true bd g (OpPend h)) = 0%N).
      { apply (err_zero_step succ rk wtm Hrk Hwtm true bd); try assumption. apply KG. }
      assert (K1 : KI succ wtm bd (apply_op true bd g (OpPend h))) by (apply (KI_apply_op succ rk wtm Hrk Hwtm bd Hk); assumption).
      cbn [apply_op] in *. unfold opPend in *.
      apply (Full_updateScores g); try assumption; try reflexivity; try (intros q Kq; apply (Rg q Kq)).
    - (* removePending *)
      pose proof FG as FG0. destruct FG as [KG [[ND Rg] [CSg [LCg Eg]]]].
      assert (E1 : bk_err (apply_op true bd g (OpUnpend h)) = 0%N).
      { apply (err_zero_step succ rk wtm Hrk Hwtm true bd); try assumption. apply KG. }
      assert (K1 : KI succ wtm bd (apply_op true bd g (OpUnpend h))) by (apply (KI_apply_op succ rk wtm Hrk Hwtm bd Hk); assumption).
      cbn [apply_op] in *. unfold opUnpend in *.
      apply (Full_updateScores g); try assumption; try reflexivity; try (intros q Kq; apply (Rg q Kq)).
    - (* readFromFile *)
      cbn [apply_op] in *. apply (reload_full succ rk wtm Hrk Hwtm bd Hk g recs addrs sl FG W L).
  Qed.

  Theorem Full_run : forall ops g, Full succ wtm bd g -> steps_ok g ops -> Full succ wtm bd (run true bd g ops).
  Proof.
    induction ops as [|o t IH]; intros g F S; cbn [run fold_left] in *; [exact F|].
    destruct S as [W [L S']]. apply IH; [apply Full_apply_op; assumption|exact S'].
  Qed.

  Lemma Full_newBook : forall r a, wtm r = true -> (r < U64_BOUND)%N -> Full succ wtm bd (newBook r a).
  Proof.
    intros r a Hr Hb.
    assert (K : KI succ wtm bd (newBook r a)).
    { split; [apply (GI_newBook succ wtm bd); exact Hr|]. split; [apply DI_newBook|apply PI_newBook]. }
    split; [exact K|]. rewrite newBook_eq in *.
    set (g := new_node (empty_book r) r a (mkInfo a 0 INVALID_SCORE 0 ST_INITIALIZED) 0 root_scores) in *.
    assert (Kg : bk_keys g = [r]) by reflexivity.
    split; [|split; [|split; [|reflexivity]]].
    - split; [rewrite Kg; constructor; [intros []|constructor]|].
      intros q Kq. rewrite Kg in Kq. destruct Kq as [<-|[]]. unfold in_ranges, info, g, new_node, info_of. cbn [bk_info].
      rewrite nget_nset_same. cbn [ni_move ni_score ni_time]. rewrite INVALID_val. unfold U16_BOUND, U32_BOUND. repeat split; try assumption; lia.
    - apply CS_new_node. intro n. unfold children, empty_book, links_of. cbn. rewrite nget_nempty. constructor.
    - intros n m c Kn Kc S. rewrite Kg in Kn, Kc. destruct Kn as [<-|[]]. destruct Kc as [<-|[]].
      pose proof (Hrk _ _ _ S). lia.
  Qed.

  (** C19_fixpoint with save/load cycles: after every history of add / set / pending / reload
      operations in which no assert fails and no path error overflows, every node satisfies all
      its defining equations *)
  Theorem fixpoint_reload : forall root addr ops,
    wtm root = true -> (root < U64_BOUND)%N ->
    steps_ok (newBook root addr) ops ->
    all_equations bd (run true bd (newBook root addr) ops) /\ bk_err (run true bd (newBook root addr) ops) = 0%N.
  Proof.
    intros root addr ops Hr Hb S.
    destruct (Full_run ops (newBook root addr) (Full_newBook root addr Hr Hb) S) as [K [_ [_ [_ E]]]].
    split; [apply KI_all_equations; exact K|exact E].
  Qed.

  (** ... and a reload at the end reproduces the graph and all per-node values *)
  Theorem reload_reproduces : forall root addr ops recs addrs sl,
    wtm root = true -> (root < U64_BOUND)%N ->
    steps_ok (newBook root addr) ops ->
    let G := run true bd (newBook root addr) ops in
    bk_pending G = [] -> read_ok succ G recs sl ->
    (bk_err (opRead true bd G recs addrs sl) < ERR_ASSERT)%N ->
    let g' := opRead true bd G recs addrs sl in
    all_equations bd g' /\
    forall n, In n (bk_keys G) ->
      In n (bk_keys g') /\ children g' n = children G n /\ (forall x, In x (parents g' n) <-> In x (parents G n)) /\
      ni_move (info g' n) = ni_move (info G n) /\ ni_score (info g' n) = ni_score (info G n) /\
      ni_time (info g' n) = ni_time (info G n) /\
      depth g' n = depth G n /\ score_of g' n = score_of G n.
  Proof.
    intros root addr ops recs addrs sl Hr Hb S G Pend RO E g'.
    pose proof (Full_run ops (newBook root addr) (Full_newBook root addr Hr Hb) S) as FG. fold G in FG.
    split.
    - destruct (reload_full succ rk wtm Hrk Hwtm bd Hk G recs addrs sl FG RO E) as [[K _] _]. apply KI_all_equations. exact K.
    - apply reload_values; assumption.
  Qed.
End ReloadHist.
