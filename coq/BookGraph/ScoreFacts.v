(** Algebra of the regenerated [negateScore] (coq/gen/BookConsts.v) and of the special scores.
    If a constant or the body of BookNode::negateScore changes in the source, the regenerated
    definitions change and these lemmas are re-checked against what the code says now. *)
From Coq Require Import ZArith NArith List Bool Lia.
From Texel Require Import gen.BookConsts.
Local Open Scope Z_scope.

Lemma MATE0_val : MATE0 = 32000. Proof. reflexivity. Qed.
Lemma IGNORE_val : IGNORE_SCORE = -32766. Proof. reflexivity. Qed.
Lemma INVALID_val : INVALID_SCORE = -32765. Proof. reflexivity. Qed.
Lemma half_mate : Z.quot MATE0 2 = 16000. Proof. reflexivity. Qed.
Lemma IGNORE_lt_INVALID : IGNORE_SCORE < INVALID_SCORE. Proof. rewrite IGNORE_val, INVALID_val. lia. Qed.
Lemma INT_MAX_val : INT_MAX = 2147483647. Proof. reflexivity. Qed.

Definition special (s : Z) : Prop := s = IGNORE_SCORE \/ s = INVALID_SCORE.

Lemma isWin_spec : forall s, isWinScore s = true <-> 16000 < s.
Proof. intro s. unfold isWinScore. rewrite half_mate. rewrite Z.gtb_lt. lia. Qed.
Lemma isLose_spec : forall s, isLoseScore s = true <-> s < -16000.
Proof. intro s. unfold isLoseScore. rewrite half_mate. rewrite Z.ltb_lt. lia. Qed.

Lemma negate_IGNORE : negateScore IGNORE_SCORE = IGNORE_SCORE.
Proof. reflexivity. Qed.
Lemma negate_INVALID : negateScore INVALID_SCORE = INVALID_SCORE.
Proof. reflexivity. Qed.

Lemma negate_cases : forall s,
  (special s /\ negateScore s = s) \/
  (~ special s /\ 16000 < s /\ negateScore s = 1 - s) \/
  (~ special s /\ s < -16000 /\ negateScore s = - s - 1) \/
  (~ special s /\ -16000 <= s <= 16000 /\ negateScore s = - s).
Proof.
  intro s. unfold negateScore, special.
  destruct (Z.eqb_spec s IGNORE_SCORE) as [E1|N1]; [left; cbv beta iota delta [orb]; auto|].
  destruct (Z.eqb_spec s INVALID_SCORE) as [E2|N2]; [left; cbv beta iota delta [orb]; auto|].
  cbv beta iota delta [orb].
  destruct (isWinScore s) eqn:W.
  - apply isWin_spec in W. right; left. split; [tauto|]. split; [lia|lia].
  - destruct (isLoseScore s) eqn:L.
    + apply isLose_spec in L. right; right; left. split; [tauto|]. split; lia.
    + right; right; right. split; [tauto|].
      assert (~ 16000 < s) by (intro H; apply isWin_spec in H; congruence).
      assert (~ s < -16000) by (intro H'; apply isLose_spec in H'; congruence).
      split; lia.
Qed.

Ltac ncases s :=
  let S := fresh "S" in let E := fresh "E" in let H1 := fresh "H" in
  destruct (negate_cases s) as [[S E]|[[S [H1 E]]|[[S [H1 E]]|[S [H1 E]]]]];
  unfold special in *; rewrite ?IGNORE_val, ?INVALID_val, ?MATE0_val in *.

(** special scores are not negated *)
Lemma negate_special : forall s, special s -> negateScore s = s.
Proof. intros s [->| ->]; reflexivity. Qed.

(** ordinary scores: plain negation, an involution *)
Lemma negate_regular : forall s, -16000 <= s <= 16000 -> negateScore s = - s.
Proof. intros s H. ncases s; lia. Qed.

Lemma negate_involutive_regular : forall s, -16000 <= s <= 16000 -> negateScore (negateScore s) = s.
Proof. intros s H. rewrite (negate_regular s H). rewrite negate_regular by lia. lia. Qed.

(** mate scores: the distance to mate grows by one ply with every negation
    (MATE0 - k = "can mate in k plies" for the side to move) *)
Lemma negate_win_mate : forall k, 0 <= k -> 16000 < MATE0 - k -> negateScore (MATE0 - k) = - (MATE0 - (k + 1)).
Proof. intros k Hk H. ncases (MATE0 - k); rewrite ?MATE0_val in *; lia. Qed.

Lemma negate_lose_mate : forall k, 0 <= k -> 16000 < MATE0 - k -> negateScore (- (MATE0 - k)) = MATE0 - (k + 1).
Proof. intros k Hk H. ncases (- (MATE0 - k)); rewrite ?MATE0_val in *; lia. Qed.

(** two negations of a mate score move it two plies towards zero *)
Lemma negate_negate_win : forall s, 16002 <= s <= MATE0 -> negateScore (negateScore s) = s - 2.
Proof.
  intros s H. ncases s; try lia.
  rewrite E. ncases (1 - s); lia.
Qed.

Lemma negate_negate_lose : forall s, - MATE0 <= s <= -16002 -> negateScore (negateScore s) = s + 2.
Proof.
  intros s H. ncases s; try lia.
  rewrite E. ncases (- s - 1); lia.
Qed.

(** in the range of search scores produced by the engine ([-MATE0, MATE0]) negation never
    produces a special score and stays in the range *)
Lemma negate_range : forall s, - MATE0 <= s <= MATE0 -> - MATE0 <= negateScore s <= MATE0.
Proof. intros s H. ncases s; lia. Qed.

Lemma negate_not_special : forall s, - MATE0 <= s <= MATE0 -> ~ special (negateScore s).
Proof. intros s H. pose proof (negate_range s H) as R. unfold special. rewrite IGNORE_val, INVALID_val, MATE0_val in *. lia. Qed.

(** negation reverses the order of non-special scores (weakly: the two sides of the mate
    threshold meet) *)
Lemma negate_antitone : forall a b, ~ special a -> ~ special b -> a <= b -> negateScore b <= negateScore a.
Proof. intros a b Ha Hb Hab. ncases a; ncases b; try tauto; lia. Qed.
