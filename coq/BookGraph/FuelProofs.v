(** The fuel of the model's recursions suffices on acyclic graphs: a call on node [n] never runs
    out of fuel when the fuel exceeds the number of nodes whose rank lies above (downward
    recursions) resp. below (upward recursion) the rank of [n]; every operation starts its
    recursions with fuel = number of nodes + 2.  Consequently the error code of a history can
    only report a failing assert of the C++ code or a path error reaching INT_MAX
    ([bk_err] never equals ERR_FUEL), and the global theorems need no hypothesis about fuel. *)
From Coq Require Import ZArith NArith List Bool Lia.
From Texel Require Import gen.BookConsts BookGraph.NMap BookGraph.BookGraph BookGraph.Equations
  BookGraph.ScoreFacts BookGraph.LocalProofs BookGraph.LinkProofs BookGraph.UniqueProofs BookGraph.FixProofs
  BookGraph.GlobalProofs BookGraph.DepthProofs BookGraph.PathProofs.
Import ListNotations.
Local Open Scope Z_scope.

(** * counting nodes above / below a rank *)
Lemma filter_length_le : forall (A : Type) (f h : A -> bool) l,
  (forall y, f y = true -> h y = true) -> (length (filter f l) <= length (filter h l))%nat.
Proof.
  intros A f h l H. induction l as [|y t IH]; cbn [filter]; [lia|].
  destruct (f y) eqn:F; [rewrite (H y F); cbn [length]; lia|]. destruct (h y); cbn [length]; lia.
Qed.

Lemma filter_length_lt : forall (A : Type) (f h : A -> bool) l x,
  (forall y, f y = true -> h y = true) -> In x l -> h x = true -> f x = false ->
  (length (filter f l) < length (filter h l))%nat.
Proof.
  intros A f h l x H. induction l as [|y t IH]; intros Hin Hx Fx; [destruct Hin|]. cbn [filter].
  destruct Hin as [->|Hin].
  - rewrite Hx, Fx. cbn [length]. pose proof (filter_length_le A f h t H). lia.
  - specialize (IH Hin Hx Fx). destruct (f y) eqn:F; [rewrite (H y F); cbn [length]; lia|].
    destruct (h y); cbn [length]; lia.
Qed.

Lemma filter_length_all : forall (A : Type) (f : A -> bool) l, (length (filter f l) <= length l)%nat.
Proof. intros A f l. induction l as [|y t IH]; cbn [filter length]; [lia|]. destruct (f y); cbn [length]; lia. Qed.

Definition cnt_above (rk : N -> Z) (keys : list N) (n : N) : nat := length (filter (fun k => rk n <? rk k) keys).
Definition cnt_below (rk : N -> Z) (keys : list N) (n : N) : nat := length (filter (fun k => rk k <? rk n) keys).

Lemma cnt_above_le : forall rk keys n, (cnt_above rk keys n <= length keys)%nat.
Proof. intros. unfold cnt_above. apply filter_length_all. Qed.
Lemma cnt_below_le : forall rk keys n, (cnt_below rk keys n <= length keys)%nat.
Proof. intros. unfold cnt_below. apply filter_length_all. Qed.

Lemma cnt_above_child : forall rk keys n c, In c keys -> rk n < rk c -> (cnt_above rk keys c < cnt_above rk keys n)%nat.
Proof.
  intros rk keys n c Kc R. unfold cnt_above. apply (filter_length_lt _ _ _ keys c).
  - intros y H. apply Z.ltb_lt in H. apply Z.ltb_lt. lia.
  - exact Kc.
  - apply Z.ltb_lt. exact R.
  - apply Z.ltb_ge. lia.
Qed.

Lemma cnt_below_parent : forall rk keys n p, In p keys -> rk p < rk n -> (cnt_below rk keys p < cnt_below rk keys n)%nat.
Proof.
  intros rk keys n p Kp R. unfold cnt_below. apply (filter_length_lt _ _ _ keys p).
  - intros y H. apply Z.ltb_lt in H. apply Z.ltb_lt. lia.
  - exact Kp.
  - apply Z.ltb_lt. exact R.
  - apply Z.ltb_ge. lia.
Qed.

(** * "no fuel event" *)
Definition nf (e : N) : Prop := e <> ERR_FUEL.
Lemma nf_max : forall a b, nf a -> nf b -> nf (N.max a b).
Proof. intros a b A B. unfold nf in *. destruct (N.max_spec a b) as [[_ ->]|[_ ->]]; assumption. Qed.
Lemma nf_0 : nf 0%N. Proof. discriminate. Qed.
Lemma nf_assert : nf ERR_ASSERT. Proof. discriminate. Qed.
Lemma nf_overflow : nf ERR_OVERFLOW. Proof. discriminate. Qed.

Lemma fold_nf : forall (A S : Type) (err : S -> N) (F : S -> A -> S) (l : list A) (Q : A -> Prop),
  (forall s x, Q x -> nf (err s) -> nf (err (F s x))) -> (forall x, In x l -> Q x) ->
  forall st, nf (err st) -> nf (err (fold_left F l st)).
Proof.
  intros A S err F l Q H. induction l as [|x t IH]; intros Hq st E; cbn [fold_left]; [exact E|].
  apply IH; [intros y Hy; apply Hq; right; exact Hy|]. apply H; [apply Hq; left; reflexivity|exact E].
Qed.

Section ScoreFuel.
  Variable succ : N -> N -> option N.
  Variable rk : N -> Z.
  Hypothesis Hrk : forall p m c, succ p m = Some c -> rk p < rk c.
  Variables (rq : bool) (bd : bdata) (g : book).
  Hypothesis HI : Inv succ g.

  Let above := cnt_above rk (bk_keys g).
  Let below := cnt_below rk (bk_keys g).

  Lemma child_above : forall n mc, In mc (children g n) -> (above (snd mc) < above n)%nat.
  Proof.
    intros n [m c] H. cbn [snd]. destruct (inv_child succ g HI n m c H) as [_ [Kc [_ S]]].
    apply cnt_above_child; [exact Kc|eapply Hrk; eauto].
  Qed.
  Lemma parent_below : forall n mp, In mp (parents g n) -> (below (snd mp) < below n)%nat.
  Proof.
    intros n [m p] H. cbn [snd]. pose proof (inv_parent succ g HI n m p H) as C.
    destruct (inv_child succ g HI p m n C) as [Kp [_ [_ S]]].
    apply cnt_below_parent; [exact Kp|eapply Hrk; eauto].
  Qed.

  Lemma negaMaxStep_err : forall st n, u_err (fst (negaMaxStep rq bd g st n)) = u_err st.
  Proof. intros. apply (negaMaxStep_spec rq bd g st n). Qed.

  Lemma updDown_nofuel : forall f st n, (above n < f)%nat -> nf (u_err st) -> nf (u_err (updDown f rq bd g st n)).
  Proof.
    induction f as [|f IH]; intros st n Hf E; [lia|]. cbn [updDown].
    destruct (negb (s_nm (scof (u_sc st) n) =? INVALID_SCORE)); [exact E|].
    rewrite negaMaxStep_err.
    apply (fold_nf _ _ u_err (fun s (mc : N * N) => updDown f rq bd g s (snd mc)) (children g n) (fun mc => In mc (children g n))); auto.
    intros s x Hx Es. apply IH; [|exact Es]. pose proof (child_above n x Hx). lia.
  Qed.

  Lemma updUp_nofuel : forall f start st n, (below n < f)%nat -> nf (u_err st) -> nf (u_err (updUp f rq bd g start st n)).
  Proof.
    induction f as [|f IH]; intros start st n Hf E; [lia|]. cbn [updUp].
    pose proof (negaMaxStep_err st n) as S2.
    destruct (negaMaxStep rq bd g st n) as [st1 ch]. cbn [fst] in S2.
    destruct (ch || N.eqb n start); [|rewrite S2; exact E].
    apply (fold_nf _ _ u_err (fun s (mp : N * N) => updUp f rq bd g start s (snd mp)) (parents g n) (fun mp => In mp (parents g n))); auto.
    - intros s x Hx Es. apply IH; [|exact Es]. pose proof (parent_below n x Hx). lia.
    - rewrite S2. exact E.
  Qed.

  Lemma computePathError_nf : forall sc n, nf (snd (computePathError g sc n)).
  Proof.
    intros sc n. unfold computePathError. destruct (depth g n =? 0); cbn [snd].
    - destruct (_ && _); [apply nf_0|apply nf_assert].
    - assert (L : forall l acc, nf (snd acc) -> nf (snd (fold_left (peStep sc (scof sc n) (Z.odd (depth g n))) l acc))).
      { induction l as [|mp t IHl]; intros acc A; cbn [fold_left]; [exact A|]. apply IHl.
        destruct acc as [[pw pb] err]. cbn [snd] in A. unfold peStep.
        destruct (_ || _); [exact A|]. destruct (_ || _); [exact A|]. cbn [snd].
        destruct (_ || _); [apply nf_max; [|apply nf_overflow]|]; (destruct (_ <? 0); [apply nf_max; [exact A|apply nf_assert]|exact A]). }
      specialize (L (parents g n) (INT_MAX, INT_MAX, 0%N) nf_0).
      destruct (fold_left _ _ _) as [[pw pb] err]. cbn [snd] in L. destruct (_ || _); cbn [snd]; exact L.
  Qed.

  Lemma updPathErrors_nofuel : forall f st n, (above n < f)%nat -> nf (snd st) -> nf (snd (updPathErrors f g st n)).
  Proof.
    induction f as [|f IH]; intros st n Hf E; [lia|]. cbn [updPathErrors].
    pose proof (computePathError_nf (fst st) n) as C.
    destruct (computePathError g (fst st) n) as [[sc' modified] e]. cbn [snd] in C.
    destruct modified; [|cbn [snd]; apply nf_max; assumption].
    apply (fold_nf _ _ (@snd (nmap scores) N) (fun s (mc : N * N) => updPathErrors f g s (snd mc)) (children g n) (fun mc => In mc (children g n))); auto.
    - intros s x Hx Es. apply IH; [|exact Es]. pose proof (child_above n x Hx). lia.
    - cbn [snd]. apply nf_max; assumption.
  Qed.

  Theorem updateScores_nofuel : forall start, nf (bk_err g) -> nf (bk_err (updateScores rq bd g start)).
  Proof.
    intros start E. unfold updateScores.
    set (fuel := fuel_of g).
    assert (Fa : forall x, (above x < fuel)%nat) by (intro x; pose proof (cnt_above_le rk (bk_keys g) x); unfold above, fuel, fuel_of; lia).
    assert (Fb : forall x, (below x < fuel)%nat) by (intro x; pose proof (cnt_below_le rk (bk_keys g) x); unfold below, fuel, fuel_of; lia).
    set (st0 := upd_insert (mkUst (bk_sc g) nempty [] 0%N) start).
    assert (E0 : nf (u_err st0)) by (unfold st0; rewrite (proj2 (upd_insert_sc _ start)); apply nf_0).
    assert (E1 : nf (u_err (updTop fuel rq bd g st0 start))).
    { unfold updTop.
      assert (A : nf (u_err (fold_left (fun s (mc : N * N) => updDown fuel rq bd g s (snd mc)) (children g start) st0))).
      { apply (fold_nf _ _ u_err (fun s (mc : N * N) => updDown fuel rq bd g s (snd mc)) (children g start) (fun _ => True)); auto.
        intros s x _ Es. apply updDown_nofuel; [apply Fa|exact Es]. }
      set (stA := fold_left _ (children g start) st0) in *.
      pose proof (negaMaxStep_err stA start) as S2.
      destruct (negaMaxStep rq bd g stA start) as [stB chB]. cbn [fst] in S2.
      apply (fold_nf _ _ u_err (fun s (mp : N * N) => updUp fuel rq bd g start s (snd mp)) (parents g start) (fun _ => True)); auto.
      - intros s x _ Es. apply updUp_nofuel; [apply Fb|exact Es].
      - rewrite S2. exact A. }
    set (st1 := updTop fuel rq bd g st0 start) in *.
    assert (E2 : nf (snd (fold_left (updPathErrors fuel g) (sort_upd g (u_list st1)) (u_sc st1, u_err st1)))).
    { apply (fold_nf _ _ (@snd (nmap scores) N) (updPathErrors fuel g) (sort_upd g (u_list st1)) (fun _ => True)); auto.
      intros s x _ Es. apply updPathErrors_nofuel; [apply Fa|exact Es]. }
    destruct (fold_left (updPathErrors fuel g) (sort_upd g (u_list st1)) (u_sc st1, u_err st1)) as [sc2 err2].
    cbn [snd] in E2. cbn [set_err set_sc bk_err]. apply nf_max; assumption.
  Qed.
End ScoreFuel.

(** * updateDepth *)
Section DepthFuel.
  Variables (chm parm : nmap (list (N * N))) (rk : N -> Z) (keys : list N).
  Hypothesis Hch : forall n mc, In mc (links_of chm n) -> In (snd mc) keys /\ rk n < rk (snd mc).

  (** depths are at most INT_MAX and every parent has a depth *)
  Definition FP (dm : nmap Z) : Prop :=
    (forall q, depth_of dm q <= INT_MAX) /\ (forall x mp, In mp (links_of parm x) -> depth_of dm (snd mp) < INT_MAX).

  Lemma FP_write : forall dm n mp, FP dm -> In mp (links_of parm n) ->
    depth_of dm n > depth_of dm (snd mp) + 1 -> FP (nset n (depth_of dm (snd mp) + 1) dm).
  Proof.
    intros dm n mp [B F] Hin G. split.
    - intro q. destruct (N.eq_dec q n) as [->|Hq]; [rewrite depth_of_set_same; specialize (B n); lia|].
      rewrite depth_of_set_other by exact Hq. apply B.
    - intros x mq Hq. destruct (N.eq_dec (snd mq) n) as [E|Hqn].
      + rewrite E, depth_of_set_same. specialize (B n). lia.
      + rewrite depth_of_set_other by exact Hqn. apply (F x mq Hq).
  Qed.

  Lemma FP_updateDepth : forall f st n, FP (fst st) -> FP (fst (updateDepth f chm parm st n)).
  Proof. intros f st n. apply (updateDepth_pres chm parm FP). intros dm x mp H Hin G. apply FP_write; assumption. Qed.

  Lemma depthStep_nf : forall rec n acc mp, In mp (links_of parm n) -> FP (fst (fst acc)) -> nf (snd (fst acc)) ->
    FP (fst (fst (depthStep rec n acc mp))) /\ nf (snd (fst (depthStep rec n acc mp))).
  Proof.
    intros rec n [[dm err] upd] mp Hin F E. cbn [fst snd] in *. unfold depthStep.
    destruct F as [B Fp] eqn:FE. clear FE.
    destruct (Z.eqb_spec (depth_of dm (snd mp)) INT_MAX) as [Eq|_]; [specialize (Fp n mp Hin); lia|].
    assert (E' : nf (if (depth_of dm (snd mp) <? 0) || (INT_MAX <=? depth_of dm (snd mp)) ||
                        negb (depth_of dm n =? INT_MAX) && negb (odd_diff (depth_of dm n) (depth_of dm (snd mp)))
                     then N.max err ERR_ASSERT else err)).
    { destruct (_ || _); [apply nf_max; [exact E|apply nf_assert]|exact E]. }
    destruct (Z.gtb_spec (depth_of dm n) (depth_of dm (snd mp) + 1)); cbn [fst snd].
    - split; [apply FP_write; [exact (conj B Fp)|exact Hin|lia]|exact E'].
    - split; [exact (conj B Fp)|exact E'].
  Qed.

  Lemma updateDepth_nofuel : forall f st n,
    (cnt_above rk keys n < f)%nat -> FP (fst st) -> nf (snd st) -> nf (snd (updateDepth f chm parm st n)).
  Proof.
    induction f as [|f IH]; intros st n Hf F E; [lia|]. cbn [updateDepth].
    assert (L : forall l acc, (forall mp, In mp l -> In mp (links_of parm n)) -> FP (fst (fst acc)) -> nf (snd (fst acc)) ->
                FP (fst (fst (fold_left (depthStep (updateDepth f chm parm) n) l acc))) /\
                nf (snd (fst (fold_left (depthStep (updateDepth f chm parm) n) l acc)))).
    { induction l as [|mp t IHl]; intros acc Hs Fa Ea; cbn [fold_left]; [split; assumption|].
      destruct (depthStep_nf (updateDepth f chm parm) n acc mp (Hs mp (or_introl eq_refl)) Fa Ea) as [F1 E1].
      apply IHl; [intros x H; apply Hs; right; exact H|exact F1|exact E1]. }
    destruct (L (links_of parm n) (fst st, snd st, false) (fun _ H => H) F E) as [F2 E2].
    destruct (fold_left (depthStep (updateDepth f chm parm) n) (links_of parm n) (fst st, snd st, false)) as [[dm2 err2] upd].
    cbn [fst snd] in F2, E2. destruct upd; [|exact E2].
    assert (L2 : forall l s0, (forall mc, In mc l -> In mc (links_of chm n)) -> FP (fst s0) -> nf (snd s0) ->
                 nf (snd (fold_left (fun s (mc : N * N) => updateDepth f chm parm s (snd mc)) l s0))).
    { induction l as [|mc t IHl]; intros s0 Hs F0 E0; cbn [fold_left]; [exact E0|].
      apply IHl; [intros x H; apply Hs; right; exact H|apply FP_updateDepth; exact F0|].
      apply IH; [|exact F0|exact E0].
      destruct (Hch n mc (Hs mc (or_introl eq_refl))) as [Kc R]. pose proof (cnt_above_child rk keys n (snd mc) Kc R). lia. }
    apply (L2 (links_of chm n) (dm2, err2) (fun _ H => H) F2 E2).
  Qed.
End DepthFuel.

(** * operations and histories *)
Section HistFuel.
  Variable succ : N -> N -> option N.
  Variable rk : N -> Z.
  Variable wtm : N -> bool.
  Hypothesis Hrk : forall p m c, succ p m = Some c -> rk p < rk c.
  Hypothesis Hwtm : forall p m c, succ p m = Some c -> wtm c = negb (wtm p).
  Variables (rq : bool) (bd : bdata).
  Hypothesis Hk : costs_nonneg' bd.

  Lemma link_nofuel : forall g p m c,
    Inv succ g -> In p (bk_keys g) -> In c (bk_keys g) -> succ p m = Some c ->
    (forall q, depth g q <= INT_MAX) ->
    (forall x mp, In mp (parents (link g p m c) x) -> depth g (snd mp) < INT_MAX) ->
    nf (bk_err g) -> nf (bk_err (link g p m c)).
  Proof.
    intros g p m c I Kp Kc Hs B FPar E.
    assert (I' : Inv succ (link g p m c)) by (apply Inv_link; assumption).
    pose proof (link_unfold g p m c) as U. cbn zeta in U.
    set (ch := nset p (ins_child m c (children g p)) (bk_children g)) in *.
    set (pa := nset c (ins_parent (bk_info g) m p (parents g c)) (bk_parents g)) in *.
    set (g' := link g p m c) in *.
    assert (Hch : forall n mc, In mc (links_of ch n) -> In (snd mc) (bk_keys g) /\ rk n < rk (snd mc)).
    { intros n [m' c'] H. cbn [snd]. assert (H' : In (m', c') (children g' n)) by (unfold children; rewrite U; exact H).
      destruct (inv_child succ g' I' n m' c' H') as [_ [Kc' [_ S']]]. split; [rewrite U in Kc'; exact Kc'|eapply Hrk; eauto]. }
    rewrite U. cbn [bk_err]. apply nf_max; [exact E|].
    apply (updateDepth_nofuel ch pa rk (bk_keys g) Hch).
    - pose proof (cnt_above_le rk (bk_keys g) c). unfold fuel_of. lia.
    - split; [exact B|]. intros x mp Hin. cbn [fst]. apply (FPar x mp). unfold parents. rewrite U. exact Hin.
    - apply nf_0.
  Qed.

  Lemma fold_plinks_nofuel : forall pl g h,
    Inv succ g -> In h (bk_keys g) ->
    (forall m p, In (m, p) pl -> In p (bk_keys g) /\ succ p m = Some h /\ p <> h) ->
    Par wtm (bk_depth g) -> NonNeg (bk_depth g) ->
    (forall q, In q (bk_keys g) -> q <> h -> depth g q < INT_MAX) -> children g h = [] ->
    nf (bk_err g) -> nf (bk_err (fold_left (fun g mp => link g (snd mp) (fst mp) h) pl g)).
  Proof.
    induction pl as [|[m p] t IH]; intros g h I Kh Hpl Pa NN FK Ch E; cbn [fold_left]; [exact E|].
    cbn [fst snd]. destruct (Hpl m p (or_introl eq_refl)) as [Kp [Sp0 Hph]].
    destruct (link_step succ wtm Hwtm g p m h I Kp Kh Sp0 Pa NN) as [I1 [Pa1 [NN1 [K1 [F1 [S1 [Pe1 [R1 [C1 [D1 [B1 E1]]]]]]]]]]].
    set (g1 := link g p m h) in *.
    assert (Ch1 : children g1 h = []) by (rewrite C1 by (intro; subst; contradiction); exact Ch).
    apply IH; try assumption.
    - rewrite K1. exact Kh.
    - intros m' p' H. rewrite K1. apply Hpl. right; exact H.
    - intros q Kq Hq. rewrite K1 in Kq. specialize (D1 q). specialize (FK q Kq Hq). lia.
    - apply link_nofuel; try assumption.
      + intro q. apply (proj1 Pa).
      + intros x [m' p'] Hin. cbn [snd].
        pose proof (inv_parent succ g1 I1 x m' p' Hin) as Cx.
        destruct (inv_child succ g1 I1 p' m' x Cx) as [Kp' _]. rewrite K1 in Kp'.
        apply FK; [exact Kp'|]. intro; subst p'. rewrite Ch1 in Cx. destruct Cx.
  Qed.

  Lemma fold_clinks_nofuel : forall cl g h,
    Inv succ g -> In h (bk_keys g) -> succ_list_ok succ h cl ->
    Par wtm (bk_depth g) -> NonNeg (bk_depth g) ->
    (forall q, In q (bk_keys g) -> depth g q < INT_MAX) ->
    nf (bk_err g) -> nf (bk_err (setChildRefs g h cl)).
  Proof.
    unfold setChildRefs. induction cl as [|[m c] t IH]; intros g h I Kh Hs Pa NN FK E; cbn [fold_left]; [exact E|].
    cbn [fst snd]. destruct (has_node g c) eqn:HN.
    - assert (Kc : In c (bk_keys g)) by (apply (inv_keys succ g I); exact HN).
      assert (Sc : succ h m = Some c) by (apply Hs; left; reflexivity).
      destruct (link_step succ wtm Hwtm g h m c I Kh Kc Sc Pa NN) as [I1 [Pa1 [NN1 [K1 [F1 [S1 [Pe1 [R1 [C1 [D1 [B1 E1]]]]]]]]]]].
      set (g1 := link g h m c) in *.
      apply IH; try assumption.
      + rewrite K1. exact Kh.
      + intros m' c' H. apply Hs. right; exact H.
      + intros q Kq. rewrite K1 in Kq. specialize (D1 q). specialize (FK q Kq). lia.
      + apply link_nofuel; try assumption.
        * intro q. apply (proj1 Pa).
        * intros x [m' p'] Hin. cbn [snd].
          pose proof (inv_parent succ g1 I1 x m' p' Hin) as Cx.
          destruct (inv_child succ g1 I1 p' m' x Cx) as [Kp' _]. rewrite K1 in Kp'. apply FK. exact Kp'.
    - apply IH; try assumption. intros m' c' H. apply Hs. right; exact H.
  Qed.

  Lemma opAdd_nofuel : forall g h addr pl cl,
    GI succ wtm bd g -> op_wf succ g (OpAdd h addr pl cl) -> pl <> [] ->
    Z.of_nat (length (bk_keys g)) + 1 < INT_MAX ->
    nf (bk_err g) -> nf (bk_err (opAdd rq bd g h addr pl cl)).
  Proof.
    intros g h addr pl cl G [Hfresh [Hpl Hcl]] Hne Hsz E. unfold opAdd.
    pose proof (gi_inv succ wtm bd g G) as I.
    destruct (no_links_outside succ g h I Hfresh) as [C0 P0].
    set (g0 := new_node g h addr (mkInfo addr 0 INVALID_SCORE 0 ST_EMPTY) INT_MAX default_scores) in *.
    assert (I0 : Inv succ g0) by (apply Inv_new_node; assumption).
    assert (K0 : bk_keys g0 = h :: bk_keys g).
    { unfold g0, new_node. cbn [bk_keys]. unfold add_key.
      destruct (mem h (bk_keys g)) eqn:M; [apply mem_in in M; contradiction|reflexivity]. }
    assert (Kh0 : In h (bk_keys g0)) by (rewrite K0; left; reflexivity).
    assert (D0 : forall q, q <> h -> depth g0 q = depth g q).
    { intros q Hq. unfold depth, g0, new_node. cbn [bk_depth]. apply depth_of_set_other. exact Hq. }
    assert (C0' : children g0 h = []).
    { unfold children, g0, new_node. cbn [bk_children]. unfold links_of. rewrite nget_nset_same. reflexivity. }
    assert (Pa0 : Par wtm (bk_depth g0)).
    { destruct (gi_par succ wtm bd g G) as [B Pr]. unfold g0, new_node. cbn [bk_depth]. split; intro q.
      - destruct (N.eq_dec q h) as [->|Hq]; [rewrite depth_of_set_same; lia|rewrite depth_of_set_other by exact Hq; apply B].
      - destruct (N.eq_dec q h) as [->|Hq]; [rewrite depth_of_set_same; lia|rewrite depth_of_set_other by exact Hq; apply Pr]. }
    assert (NN0 : NonNeg (bk_depth g0)).
    { intro q. unfold g0, new_node. cbn [bk_depth].
      destruct (N.eq_dec q h) as [->|Hq]; [rewrite depth_of_set_same; rewrite INT_MAX_val; lia|rewrite depth_of_set_other by exact Hq; apply (gi_nonneg succ wtm bd g G)]. }
    assert (FK0 : forall q, In q (bk_keys g0) -> q <> h -> depth g0 q < INT_MAX).
    { intros q Kq Hq. rewrite K0 in Kq. destruct Kq as [E0|Kq]; [congruence|].
      rewrite D0 by exact Hq. pose proof (gi_fin succ wtm bd g G q Kq). lia. }
    assert (Hpl0 : forall m p, In (m, p) pl -> In p (bk_keys g0) /\ succ p m = Some h /\ p <> h).
    { intros m p H. destruct (Hpl m p H) as [A B]. split; [rewrite K0; right; exact A|]. split; [exact B|]. intro; subst; contradiction. }
    set (g2 := fold_left (fun g mp => link g (snd mp) (fst mp) h) pl g0) in *.
    assert (E2 : nf (bk_err g2)) by (apply fold_plinks_nofuel; try assumption; exact E).
    destruct (fold_plinks succ wtm Hwtm pl g0 h I0 Kh0) as [I2 [Pa2 [NN2 [K2 [F2 [S2 [Pe2 [C2 [D2 [B2 [_ _]]]]]]]]]]]; try assumption.
    { intros m p H. destruct (Hpl0 m p H) as [A [B _]]. split; assumption. }
    fold g2 in I2, Pa2, NN2, K2, F2, S2, Pe2, C2, D2, B2.
    assert (FK2 : forall q, In q (bk_keys g2) -> depth g2 q < INT_MAX).
    { intros q Kq. rewrite K2, K0 in Kq. destruct Kq as [<-|Kq].
      - destruct pl as [|[m p] t]; [contradiction|].
        destruct (B2 m p (or_introl eq_refl)) as [Bh _]. destruct (Hpl m p (or_introl eq_refl)) as [Kp _].
        assert (Hp : p <> h) by (intro; subst; contradiction).
        pose proof (gi_fin succ wtm bd g G p Kp). rewrite (D0 p Hp) in Bh. lia.
      - assert (Hq : q <> h) by (intro; subst; contradiction).
        specialize (D2 q). assert (Kq0 : In q (bk_keys g0)) by (rewrite K0; right; exact Kq).
        pose proof (FK0 q Kq0 Hq). lia. }
    assert (E3 : nf (bk_err (setChildRefs g2 h cl))).
    { apply fold_clinks_nofuel; try assumption. rewrite K2. exact Kh0. }
    destruct (fold_clinks succ rk wtm Hrk Hwtm cl g2 h I2) as [I3 _]; try assumption.
    { rewrite K2. exact Kh0. }
    change (nf (bk_err (updateScores rq bd (setChildRefs g2 h cl) h))).
    apply (updateScores_nofuel succ rk Hrk rq bd _ I3). exact E3.
  Qed.

  Lemma apply_op_nofuel : forall g o, GI succ wtm bd g -> op_ok succ g o -> nf (bk_err g) -> nf (bk_err (apply_op rq bd g o)).
  Proof.
    intros g o G [W X] E. pose proof (gi_inv succ wtm bd g G) as I.
    destruct o as [h addr pl cl|h mv s t|h|h|recs addrs sl]; cbn [apply_op].
    - destruct X as [X1 X2]. apply opAdd_nofuel; assumption.
    - unfold opSet. apply (updateScores_nofuel succ rk Hrk); [apply Inv_set_info; assumption|exact E].
    - unfold opPend. apply (updateScores_nofuel succ rk Hrk); [apply Inv_set_pending; exact I|exact E].
    - unfold opUnpend. apply (updateScores_nofuel succ rk Hrk); [apply Inv_set_pending; exact I|exact E].
    - destruct X.
  Qed.

  (** no assert fails / no path error overflows  ==>  error code 0, step by step *)
  Lemma err_zero_step : forall g o, GI succ wtm bd g -> op_ok succ g o -> bk_err g = 0%N ->
    (bk_err (apply_op rq bd g o) < ERR_ASSERT)%N -> bk_err (apply_op rq bd g o) = 0%N.
  Proof.
    intros g o G W E0 L. pose proof (apply_op_nofuel g o G W) as NF. rewrite E0 in NF. specialize (NF nf_0).
    unfold nf, ERR_FUEL, ERR_ASSERT in *. lia.
  Qed.
End HistFuel.

Section Headline.
  Variable succ : N -> N -> option N.
  Variable rk : N -> Z.
  Variable wtm : N -> bool.
  Hypothesis Hrk : forall p m c, succ p m = Some c -> rk p < rk c.
  Hypothesis Hwtm : forall p m c, succ p m = Some c -> wtm c = negb (wtm p).
  Variable bd : bdata.
  Hypothesis Hk : costs_nonneg' bd.

  Lemma newBook_err : forall r a, bk_err (newBook r a) = 0%N.
  Proof. intros. rewrite newBook_eq. reflexivity. Qed.

  Lemma KI_run_nofuel : forall ops g,
    KI succ wtm bd g -> bk_err g = 0%N -> ops_ok succ true bd g ops ->
    (bk_err (run true bd g ops) < ERR_ASSERT)%N ->
    KI succ wtm bd (run true bd g ops) /\ bk_err (run true bd g ops) = 0%N.
  Proof.
    induction ops as [|o t IH]; intros g K E0 W L; cbn [run fold_left] in *; [split; assumption|].
    destruct W as [W1 W2].
    assert (L1 : (bk_err (apply_op true bd g o) < ERR_ASSERT)%N).
    { pose proof (run_err_mono succ true bd t _ W2) as M. unfold run in M. lia. }
    assert (E1 : bk_err (apply_op true bd g o) = 0%N).
    { apply (err_zero_step succ rk wtm Hrk Hwtm true bd); try assumption. apply K. }
    apply IH; try assumption. apply (KI_apply_op succ rk wtm Hrk Hwtm bd Hk); assumption.
  Qed.

  Lemma JI_run_nofuel : forall rq ops g,
    JI succ wtm bd g -> bk_err g = 0%N -> ops_ok succ rq bd g ops ->
    (bk_err (run rq bd g ops) < ERR_ASSERT)%N ->
    JI succ wtm bd (run rq bd g ops) /\ bk_err (run rq bd g ops) = 0%N.
  Proof.
    intro rq. induction ops as [|o t IH]; intros g K E0 W L; cbn [run fold_left] in *; [split; assumption|].
    destruct W as [W1 W2].
    assert (L1 : (bk_err (apply_op rq bd g o) < ERR_ASSERT)%N).
    { pose proof (run_err_mono succ rq bd t _ W2) as M. unfold run in M. lia. }
    assert (E1 : bk_err (apply_op rq bd g o) = 0%N).
    { apply (err_zero_step succ rk wtm Hrk Hwtm rq bd); try assumption. apply K. }
    apply IH; try assumption. apply (JI_apply_op succ rk wtm Hrk Hwtm rq bd Hk); assumption.
  Qed.

  (** C19_fixpoint for the code as it is (requeue = true), no hypothesis about fuel: if no assert
      of the code fails and no path error reaches INT_MAX, every node satisfies all equations *)
  Theorem fixpoint_nofuel : forall root addr ops,
    wtm root = true ->
    ops_ok succ true bd (newBook root addr) ops ->
    let g := run true bd (newBook root addr) ops in
    (bk_err g < ERR_ASSERT)%N -> all_equations bd g /\ bk_err g = 0%N.
  Proof.
    intros root addr ops Hr W g L.
    destruct (KI_run_nofuel ops (newBook root addr)) as [[G [[_ D] P]] E]; try assumption.
    { split; [apply (GI_newBook succ wtm bd); exact Hr|]. split; [apply DI_newBook|apply PI_newBook]. }
    { apply newBook_err. }
    split; [|exact E]. intros q Kq.
    destruct (gi_good succ wtm bd _ G q Kq) as [A [B C]].
    unfold node_ok. split; [exact A|]. split; [exact B|]. split; [exact C|]. split; [apply P; exact Kq|].
    split; [apply D; exact Kq|]. apply (Inv_eq_links succ _ (gi_inv succ wtm bd _ G)). exact Kq.
  Qed.
End Headline.
