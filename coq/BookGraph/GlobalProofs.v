(** Global part of C19 that is proved: over every history of addPosToBook / setSearchResult /
    addPending / removePending operations (chess inputs from an acyclic successor relation whose
    positions alternate the side to move) every node satisfies its negamax and both
    expansion-cost equations and all links are mutually inverse -- for both variants of
    updateScores.  (Depth and path-error equations are not part of this theorem.) *)
From Coq Require Import ZArith NArith List Bool Lia.
From Texel Require Import gen.BookConsts BookGraph.NMap BookGraph.BookGraph BookGraph.Equations
  BookGraph.ScoreFacts BookGraph.LocalProofs BookGraph.LinkProofs BookGraph.UniqueProofs BookGraph.FixProofs.
Import ListNotations.
Local Open Scope Z_scope.

Lemma depth_of_set_same : forall dm x v, depth_of (nset x v dm) x = v.
Proof. intros. unfold depth_of. rewrite nget_nset_same. reflexivity. Qed.
Lemma depth_of_set_other : forall dm x v q, q <> x -> depth_of (nset x v dm) q = depth_of dm q.
Proof. intros. unfold depth_of. rewrite nget_nset_other by assumption. reflexivity. Qed.

(** * updateDepth: any property of the depth map preserved by a relaxation step *)

Section DepthPres.
  Variables (chm parm : nmap (list (N * N))) (P : nmap Z -> Prop).
  Hypothesis Hstep : forall dm n mp, P dm -> In mp (links_of parm n) ->
    depth_of dm n > depth_of dm (snd mp) + 1 -> P (nset n (depth_of dm (snd mp) + 1) dm).

  Lemma depthStep_pres : forall (rec : nmap Z * N -> N -> nmap Z * N) n acc mp,
    (forall st x, P (fst st) -> P (fst (rec st x))) ->
    In mp (links_of parm n) -> P (fst (fst acc)) -> P (fst (fst (depthStep rec n acc mp))).
  Proof.
    intros rec n [[dm err] upd] mp Hrec Hin HP. cbn [fst] in HP. unfold depthStep.
    destruct (depth_of dm (snd mp) =? INT_MAX).
    - pose proof (Hrec (dm, err) (snd mp) HP) as H1. destruct (rec (dm, err) (snd mp)) as [dm1 err1]. cbn [fst] in H1.
      destruct (Z.gtb_spec (depth_of dm1 n) (depth_of dm1 (snd mp) + 1)); cbn [fst]; [apply Hstep; [exact H1|exact Hin|lia]|exact H1].
    - destruct (Z.gtb_spec (depth_of dm n) (depth_of dm (snd mp) + 1)); cbn [fst]; [apply Hstep; [exact HP|exact Hin|lia]|exact HP].
  Qed.

  Lemma updateDepth_pres : forall f st n, P (fst st) -> P (fst (updateDepth f chm parm st n)).
  Proof.
    induction f as [|f IH]; intros st n HP; cbn [updateDepth]; [exact HP|].
    assert (L : forall l acc, (forall mp, In mp l -> In mp (links_of parm n)) -> P (fst (fst acc)) ->
                P (fst (fst (fold_left (depthStep (updateDepth f chm parm) n) l acc)))).
    { induction l as [|mp t IHl]; intros acc Hs Ha; cbn [fold_left]; [exact Ha|].
      apply IHl; [intros x H; apply Hs; right; exact H|].
      apply depthStep_pres; [intros s x; apply IH|apply Hs; left; reflexivity|exact Ha]. }
    pose proof (L (links_of parm n) (fst st, snd st, false) (fun _ H => H) HP) as H1.
    destruct (fold_left (depthStep (updateDepth f chm parm) n) (links_of parm n) (fst st, snd st, false)) as [[dm2 err2] upd].
    cbn [fst] in H1. destruct upd; [|exact H1].
    assert (L2 : forall l s0, P (fst s0) -> P (fst (fold_left (fun s (mc : N * N) => updateDepth f chm parm s (snd mc)) l s0))).
    { induction l as [|mc t IHl]; intros s0 H0; cbn [fold_left]; [exact H0|]. apply IHl. apply IH. exact H0. }
    apply L2. exact H1.
  Qed.
End DepthPres.

(** depths only decrease *)
Lemma updateDepth_decr : forall chm parm f st n q,
  depth_of (fst (updateDepth f chm parm st n)) q <= depth_of (fst st) q.
Proof.
  intros chm parm f st n q.
  apply (updateDepth_pres chm parm (fun dm => forall x, depth_of dm x <= depth_of (fst st) x)); [|intro; lia].
  intros dm n0 mp H _ G x. unfold depth_of at 1. rewrite nget_nset.
  destruct (N.eqb_spec x n0) as [->|_]; [specialize (H n0); lia|apply H].
Qed.

(** after updateDepth n the node is at most one ply below each of its parents *)
Lemma depthStep_decr : forall chm parm f n acc mp q,
  depth_of (fst (fst (depthStep (updateDepth f chm parm) n acc mp))) q <= depth_of (fst (fst acc)) q.
Proof.
  intros chm parm f n [[dm err] upd] mp q. cbn [fst]. unfold depthStep.
  destruct (depth_of dm (snd mp) =? INT_MAX).
  - pose proof (updateDepth_decr chm parm f (dm, err) (snd mp)) as D. cbn [fst] in D.
    destruct (updateDepth f chm parm (dm, err) (snd mp)) as [dm1 err1]. cbn [fst] in D.
    destruct (Z.gtb_spec (depth_of dm1 n) (depth_of dm1 (snd mp) + 1)); cbn [fst]; [|apply D].
    unfold depth_of at 1. rewrite nget_nset. destruct (N.eqb_spec q n) as [->|_]; [specialize (D n); lia|apply D].
  - destruct (Z.gtb_spec (depth_of dm n) (depth_of dm (snd mp) + 1)); cbn [fst]; [|lia].
    unfold depth_of at 1. rewrite nget_nset. destruct (N.eqb_spec q n) as [->|_]; [lia|fold (depth_of dm q); lia].
Qed.

Lemma depthStep_bound : forall chm parm f n acc mp,
  depth_of (fst (fst (depthStep (updateDepth f chm parm) n acc mp))) n <= depth_of (fst (fst acc)) (snd mp) + 1.
Proof.
  intros chm parm f n [[dm err] upd] mp. cbn [fst]. unfold depthStep.
  destruct (depth_of dm (snd mp) =? INT_MAX).
  - pose proof (updateDepth_decr chm parm f (dm, err) (snd mp)) as D. cbn [fst] in D.
    destruct (updateDepth f chm parm (dm, err) (snd mp)) as [dm1 err1]. cbn [fst] in D.
    destruct (Z.gtb_spec (depth_of dm1 n) (depth_of dm1 (snd mp) + 1)); cbn [fst].
    + unfold depth_of at 1. rewrite nget_nset, N.eqb_refl. specialize (D (snd mp)). lia.
    + specialize (D (snd mp)). lia.
  - destruct (Z.gtb_spec (depth_of dm n) (depth_of dm (snd mp) + 1)); cbn [fst].
    + unfold depth_of at 1. rewrite nget_nset, N.eqb_refl. lia.
    + lia.
Qed.

Lemma updateDepth_bound : forall chm parm f st n mp,
  In mp (links_of parm n) ->
  depth_of (fst (updateDepth (S f) chm parm st n)) n <= depth_of (fst st) (snd mp) + 1.
Proof.
  intros chm parm f st n mp Hin. cbn [updateDepth].
  assert (L : forall l acc, In mp l ->
              depth_of (fst (fst (fold_left (depthStep (updateDepth f chm parm) n) l acc))) n <= depth_of (fst (fst acc)) (snd mp) + 1).
  { assert (D : forall l acc q, depth_of (fst (fst (fold_left (depthStep (updateDepth f chm parm) n) l acc))) q <= depth_of (fst (fst acc)) q).
    { induction l as [|x t IHl]; intros acc q; cbn [fold_left]; [lia|].
      etransitivity; [apply IHl|apply depthStep_decr]. }
    induction l as [|x t IHl]; intros acc H; [destruct H|]. cbn [fold_left]. destruct H as [->|H].
    - etransitivity; [apply D|apply depthStep_bound].
    - etransitivity; [apply IHl; exact H|]. pose proof (depthStep_decr chm parm f n acc x (snd mp)). lia. }
  pose proof (L (links_of parm n) (fst st, snd st, false) Hin) as B. cbn [fst] in B.
  destruct (fold_left (depthStep (updateDepth f chm parm) n) (links_of parm n) (fst st, snd st, false)) as [[dm2 err2] upd].
  cbn [fst] in B. destruct upd; [|exact B].
  assert (D2 : forall l s0 q, depth_of (fst (fold_left (fun s (mc : N * N) => updateDepth f chm parm s (snd mc)) l s0)) q <= depth_of (fst s0) q).
  { induction l as [|x t IHl]; intros s0 q; cbn [fold_left]; [lia|].
    etransitivity; [apply IHl|apply updateDepth_decr]. }
  etransitivity; [apply D2|exact B].
Qed.

(** * link, unfolded *)
Lemma link_unfold : forall g p m c,
  let ch := nset p (ins_child m c (children g p)) (bk_children g) in
  let pa := nset c (ins_parent (bk_info g) m p (parents g c)) (bk_parents g) in
  let r := updateDepth (fuel_of g) ch pa (bk_depth g, 0%N) c in
  link g p m c = mkBook (bk_root g) (bk_keys g) (bk_info g) ch pa (fst r) (bk_sc g) (bk_pending g) (N.max (bk_err g) (snd r)).
Proof.
  intros g p m c. cbn zeta. unfold link.
  set (g2 := set_parents _ _ _).
  replace (updateDepth (fuel_of g2) (bk_children g2) (bk_parents g2) (bk_depth g2, 0%N) c)
    with (updateDepth (fuel_of g) (nset p (ins_child m c (children g p)) (bk_children g))
            (nset c (ins_parent (bk_info g) m p (parents g c)) (bk_parents g)) (bk_depth g, 0%N) c) by reflexivity.
  destruct (updateDepth (fuel_of g) _ _ (bk_depth g, 0%N) c) as [dm err]. reflexivity.
Qed.

Definition costs_nonneg' (bd : bdata) : Prop := 0 <= bd_depthCost bd /\ 0 <= bd_ownCost bd /\ 0 <= bd_otherCost bd.

Section Global.
  Variable succ : N -> N -> option N.
  Variable rk : N -> Z.
  Variable wtm : N -> bool.
  Hypothesis Hrk : forall p m c, succ p m = Some c -> rk p < rk c.
  Hypothesis Hwtm : forall p m c, succ p m = Some c -> wtm c = negb (wtm p).
  Variables (rq : bool) (bd : bdata).
  Hypothesis Hk : costs_nonneg' bd.

  Definition Par (dm : nmap Z) : Prop :=
    (forall q, depth_of dm q <= INT_MAX) /\ (forall q, depth_of dm q < INT_MAX -> Z.even (depth_of dm q) = wtm q).
  Definition NonNeg (dm : nmap Z) : Prop := forall q, 0 <= depth_of dm q.

  Lemma updateDepth_par : forall chm parm f st n,
    (forall x mp, In mp (links_of parm x) -> wtm x = negb (wtm (snd mp))) ->
    Par (fst st) -> Par (fst (updateDepth f chm parm st n)).
  Proof.
    intros chm parm f st n Halt. apply (updateDepth_pres chm parm Par).
    intros dm x mp [B Pr] Hin G. split.
    - intro q. destruct (N.eq_dec q x) as [->|Hne].
      + rewrite depth_of_set_same. specialize (B x); lia.
      + rewrite depth_of_set_other by exact Hne. apply B.
    - intro q. destruct (N.eq_dec q x) as [->|Hne].
      + rewrite depth_of_set_same. intros _. rewrite (Halt x mp Hin). rewrite <- (Pr (snd mp)) by (specialize (B x); lia).
        rewrite Z.add_1_r, Z.even_succ, <- Z.negb_even. reflexivity.
      + rewrite depth_of_set_other by exact Hne. apply Pr.
  Qed.

  Lemma updateDepth_nonneg : forall chm parm f st n, NonNeg (fst st) -> NonNeg (fst (updateDepth f chm parm st n)).
  Proof.
    intros chm parm f st n. apply (updateDepth_pres chm parm NonNeg).
    intros dm x mp H _ _ q. destruct (N.eq_dec q x) as [->|Hne].
    - rewrite depth_of_set_same. specialize (H (snd mp)); lia.
    - rewrite depth_of_set_other by exact Hne. apply H.
  Qed.

  Lemma updateDepth_err_mono : forall chm parm f st n, (snd st <= snd (updateDepth f chm parm st n))%N.
  Proof.
    intros chm parm. induction f as [|f IH]; intros st n; cbn [updateDepth]; [cbn [snd]; lia|].
    assert (L : forall l acc, (snd (fst acc) <= snd (fst (fold_left (depthStep (updateDepth f chm parm) n) l acc)))%N).
    { induction l as [|mp t IHl]; intro acc; cbn [fold_left]; [lia|].
      etransitivity; [|apply IHl]. destruct acc as [[dm err] upd]. cbn [fst snd]. unfold depthStep.
      destruct (depth_of dm (snd mp) =? INT_MAX).
      - pose proof (IH (dm, err) (snd mp)) as M. destruct (updateDepth f chm parm (dm, err) (snd mp)) as [dm1 err1]. cbn [snd] in M.
        destruct (_ || _); destruct (_ >? _); cbn [fst snd]; lia.
      - destruct (_ || _); destruct (_ >? _); cbn [fst snd]; lia. }
    pose proof (L (links_of parm n) (fst st, snd st, false)) as M. cbn [fst snd] in M.
    destruct (fold_left (depthStep (updateDepth f chm parm) n) (links_of parm n) (fst st, snd st, false)) as [[dm2 err2] upd].
    cbn [fst snd] in M. destruct upd; [|cbn [snd]; exact M].
    assert (L2 : forall l s0, (snd s0 <= snd (fold_left (fun s (mc : N * N) => updateDepth f chm parm s (snd mc)) l s0))%N).
    { induction l as [|x t IHl]; intro s0; cbn [fold_left]; [lia|]. etransitivity; [apply IH|apply IHl]. }
    etransitivity; [exact M|apply (L2 _ (dm2, err2))].
  Qed.

  (** ** what one link does *)
  Lemma link_step : forall g p m c,
    Inv succ g -> In p (bk_keys g) -> In c (bk_keys g) -> succ p m = Some c ->
    Par (bk_depth g) -> NonNeg (bk_depth g) ->
    let g' := link g p m c in
    Inv succ g' /\ Par (bk_depth g') /\ NonNeg (bk_depth g') /\
    bk_keys g' = bk_keys g /\ bk_info g' = bk_info g /\ bk_sc g' = bk_sc g /\ bk_pending g' = bk_pending g /\
    bk_root g' = bk_root g /\
    (forall q, q <> p -> children g' q = children g q) /\
    (forall q, depth g' q <= depth g q) /\
    depth g' c <= depth g p + 1 /\
    (bk_err g <= bk_err g')%N.
  Proof.
    intros g p m c I Kp Kc Hs Pa NN g'.
    assert (I' : Inv succ g') by (apply Inv_link; assumption).
    pose proof (link_unfold g p m c) as U. cbn zeta in U. fold g' in U.
    set (ch := nset p (ins_child m c (children g p)) (bk_children g)) in *.
    set (pa := nset c (ins_parent (bk_info g) m p (parents g c)) (bk_parents g)) in *.
    set (r := updateDepth (fuel_of g) ch pa (bk_depth g, 0%N) c) in *.
    assert (Alt : forall x mp, In mp (links_of pa x) -> wtm x = negb (wtm (snd mp))).
    { intros x [m' p'] H. cbn [snd].
      assert (H' : In (m', p') (parents g' x)) by (unfold parents; rewrite U; exact H).
      pose proof (inv_parent succ g' I' x m' p' H') as C.
      destruct (inv_child succ g' I' p' m' x C) as [_ [_ [_ S']]]. eapply Hwtm; eauto. }
    split; [exact I'|].
    split; [rewrite U; cbn [bk_depth]; apply updateDepth_par; [exact Alt|exact Pa]|].
    split; [rewrite U; cbn [bk_depth]; apply updateDepth_nonneg; exact NN|].
    rewrite U. cbn [bk_keys bk_info bk_sc bk_pending bk_root bk_err].
    repeat (split; [reflexivity|]).
    split.
    { intros q Hq. unfold children. cbn [bk_children]. unfold ch, links_of. rewrite nget_nset_other by exact Hq. reflexivity. }
    split.
    { intro q. unfold depth. cbn [bk_depth]. apply (updateDepth_decr ch pa (fuel_of g) (bk_depth g, 0%N) c q). }
    split.
    { unfold depth. cbn [bk_depth]. unfold r, fuel_of.
      apply (updateDepth_bound ch pa (S (length (bk_keys g))) (bk_depth g, 0%N) c (m, p)).
      unfold pa, links_of. rewrite nget_nset_same. apply ins_parent_in. left; reflexivity. }
    pose proof (updateDepth_err_mono ch pa (fuel_of g) (bk_depth g, 0%N) c) as M. fold r in M. cbn [snd] in M. lia.
  Qed.

  (** ** transfer of the equations between states that agree around a node *)
  Lemma good_transfer : forall g1 g2 q,
    ni_move (info g1 q) = ni_move (info g2 q) -> ni_score (info g1 q) = ni_score (info g2 q) ->
    children g1 q = children g2 q -> mem q (bk_pending g1) = mem q (bk_pending g2) ->
    Z.even (depth g1 q) = Z.even (depth g2 q) ->
    nmec (score_of g1 q) = nmec (score_of g2 q) ->
    (forall mc, In mc (children g1 q) -> nmec (score_of g1 (snd mc)) = nmec (score_of g2 (snd mc))) ->
    good bd g1 (bk_sc g1) q -> good bd g2 (bk_sc g2) q.
  Proof.
    intros g1 g2 q Hm Hs Hc Hp Hd Hn Hch [G1 [G2 G3]].
    destruct (nmec_inj _ _ Hn) as [N1 [N2 N3]].
    assert (E1 : eq_negamax (set_sc g1 (bk_sc g1)) q = eq_negamax (set_sc g2 (bk_sc g2)) q).
    { apply eq_negamax_ext; try assumption.
      intros mc H. apply (nmec_inj _ _ (Hch mc H)). }
    assert (E2 : forall w, eq_cost bd (set_sc g1 (bk_sc g1)) q w = eq_cost bd (set_sc g2 (bk_sc g2)) q w).
    { intro w. apply eq_cost_ext; try assumption.
      - unfold node_cost. change (score_of (set_sc g1 (bk_sc g1)) q) with (score_of g1 q).
        change (score_of (set_sc g2 (bk_sc g2)) q) with (score_of g2 q). destruct w; assumption.
      - intros mc H. destruct (nmec_inj _ _ (Hch mc H)) as [A [B C]]. split; [exact A|].
        unfold node_cost. change (score_of (set_sc g1 (bk_sc g1)) (snd mc)) with (score_of g1 (snd mc)).
        change (score_of (set_sc g2 (bk_sc g2)) (snd mc)) with (score_of g2 (snd mc)). destruct w; assumption. }
    unfold good. rewrite <- E1, <- !E2. auto.
  Qed.

  (** ** the invariant of operation histories *)
  Record GI (g : book) : Prop := mkGI {
    gi_inv : Inv succ g;
    gi_wfc : wfc (bk_sc g);
    gi_good : forall q, In q (bk_keys g) -> good bd g (bk_sc g) q;
    gi_par : Par (bk_depth g);
    gi_nonneg : NonNeg (bk_depth g);
    gi_fin : forall q, In q (bk_keys g) -> depth g q <= Z.of_nat (length (bk_keys g));
    gi_size : Z.of_nat (length (bk_keys g)) < INT_MAX
  }.

  Lemma good_same_static : forall g1 g2 sc q,
    bk_info g1 = bk_info g2 -> bk_children g1 = bk_children g2 -> bk_pending g1 = bk_pending g2 ->
    bk_depth g1 = bk_depth g2 -> good bd g1 sc q -> good bd g2 sc q.
  Proof.
    intros g1 g2 sc q Hi Hc Hp Hd G.
    apply (good_transfer (set_sc g1 sc) (set_sc g2 sc) q); try reflexivity; try exact G.
    - unfold info. cbn [set_sc bk_info]. rewrite Hi. reflexivity.
    - unfold info. cbn [set_sc bk_info]. rewrite Hi. reflexivity.
    - unfold children. cbn [set_sc bk_children]. rewrite Hc. reflexivity.
    - cbn [set_sc bk_pending]. rewrite Hp. reflexivity.
    - unfold depth. cbn [set_sc bk_depth]. rewrite Hd. reflexivity.
  Qed.

  (** updateScores re-establishes the invariant when only the start node and its parents may
      violate their equations *)
  Lemma GI_updateScores : forall g start,
    Inv succ g -> In start (bk_keys g) -> wfc (bk_sc g) -> Par (bk_depth g) -> NonNeg (bk_depth g) ->
    (forall q, In q (bk_keys g) -> depth g q <= Z.of_nat (length (bk_keys g))) ->
    Z.of_nat (length (bk_keys g)) < INT_MAX ->
    (forall q, In q (bk_keys g) -> q <> start -> ~ In q (map snd (parents g start)) -> good bd g (bk_sc g) q) ->
    bk_err (updateScores rq bd g start) = 0%N ->
    GI (updateScores rq bd g start).
  Proof.
    intros g start I Ks W Pa NN Fin Sz G E.
    destruct (updateScores_fields rq bd g start) as [K [F [C [P [R [D Pe]]]]]].
    destruct (updateScores_good succ rk Hrk rq bd g Hk I start Ks W G E) as [W' G'].
    constructor.
    - apply Inv_updateScores. exact I.
    - exact W'.
    - intros q Kq. rewrite K in Kq. apply (good_same_static g); try (symmetry; assumption). apply G'. exact Kq.
    - rewrite D. exact Pa.
    - rewrite D. exact NN.
    - intros q Kq. rewrite K in *. unfold depth. rewrite D. apply Fin. exact Kq.
    - rewrite K. exact Sz.
  Qed.

  Lemma parity_keys : forall g, GI g -> forall q, In q (bk_keys g) -> Z.even (depth g q) = wtm q.
  Proof.
    intros g G q Kq. apply (gi_par g G). pose proof (gi_fin g G q Kq). pose proof (gi_size g G). unfold depth in *. lia.
  Qed.

  (** ** setSearchResult *)
  Lemma info_set_info_other : forall g h i q, q <> h -> info (set_info g h i) q = info g q.
  Proof. intros. unfold info, set_info, info_of. cbn [bk_info]. rewrite nget_nset_other by assumption. reflexivity. Qed.

  Lemma GI_opSet : forall g h mv s t, GI g -> In h (bk_keys g) -> bk_err (opSet rq bd g h mv s t) = 0%N -> GI (opSet rq bd g h mv s t).
  Proof.
    intros g h mv s t G Kh E. unfold opSet in *.
    set (g1 := set_info g h _) in *.
    apply GI_updateScores; try exact E.
    - apply Inv_set_info; [apply (gi_inv g G)|exact Kh].
    - exact Kh.
    - apply (gi_wfc g G).
    - apply (gi_par g G).
    - apply (gi_nonneg g G).
    - apply (gi_fin g G).
    - apply (gi_size g G).
    - intros q Kq Hq _. apply (good_transfer g g1 q); try reflexivity.
      + unfold g1. rewrite info_set_info_other by exact Hq. reflexivity.
      + unfold g1. rewrite info_set_info_other by exact Hq. reflexivity.
      + apply (gi_good g G). exact Kq.
  Qed.

  (** ** pending marks *)
  Lemma mem_add_key : forall q h l, q <> h -> mem q (add_key h l) = mem q l.
  Proof.
    intros q h l Hq. unfold add_key. destruct (mem h l); [reflexivity|].
    unfold mem. cbn [existsb]. destruct (N.eqb_spec q h); [contradiction|reflexivity].
  Qed.
  Lemma mem_filter_ne : forall q h l, q <> h -> mem q (filter (fun x => negb (N.eqb x h)) l) = mem q l.
  Proof.
    intros q h l Hq. unfold mem. induction l as [|x t IH]; cbn [filter existsb]; [reflexivity|].
    destruct (N.eqb_spec x h) as [->|Hx]; cbn [negb existsb].
    - rewrite IH. destruct (N.eqb_spec q h); [contradiction|reflexivity].
    - rewrite IH. reflexivity.
  Qed.

  Lemma GI_set_pending : forall g h ps, GI g -> In h (bk_keys g) ->
    (forall q, q <> h -> mem q ps = mem q (bk_pending g)) ->
    bk_err (updateScores rq bd (set_pending g ps) h) = 0%N -> GI (updateScores rq bd (set_pending g ps) h).
  Proof.
    intros g h ps G Kh Hps E.
    apply GI_updateScores; try exact E.
    - apply Inv_set_pending. apply (gi_inv g G).
    - exact Kh.
    - apply (gi_wfc g G).
    - apply (gi_par g G).
    - apply (gi_nonneg g G).
    - apply (gi_fin g G).
    - apply (gi_size g G).
    - intros q Kq Hq _. apply (good_transfer g (set_pending g ps) q); try reflexivity.
      + cbn [set_pending bk_pending]. symmetry. apply Hps. exact Hq.
      + apply (gi_good g G). exact Kq.
  Qed.

  (** ** addPosToBook *)
  Lemma parents_link_incl : forall g p m c x q, In x (parents g q) -> In x (parents (link g p m c) q).
  Proof.
    intros g p m c x q H. rewrite parents_link. destruct (N.eqb_spec q c) as [->|_]; [apply ins_parent_in; right; exact H|exact H].
  Qed.

  Lemma fold_plinks : forall pl g h,
    Inv succ g -> In h (bk_keys g) ->
    (forall m p, In (m, p) pl -> In p (bk_keys g) /\ succ p m = Some h) ->
    Par (bk_depth g) -> NonNeg (bk_depth g) ->
    let g' := fold_left (fun g mp => link g (snd mp) (fst mp) h) pl g in
    Inv succ g' /\ Par (bk_depth g') /\ NonNeg (bk_depth g') /\
    bk_keys g' = bk_keys g /\ bk_info g' = bk_info g /\ bk_sc g' = bk_sc g /\ bk_pending g' = bk_pending g /\
    (forall q, ~ In q (map snd pl) -> children g' q = children g q) /\
    (forall q, depth g' q <= depth g q) /\
    (forall m p, In (m, p) pl -> depth g' h <= depth g p + 1 /\ In (m, p) (parents g' h)) /\
    (forall x, In x (parents g h) -> In x (parents g' h)) /\
    (bk_err g <= bk_err g')%N.
  Proof.
    induction pl as [|[m p] t IH]; intros g h I Kh Hpl Pa NN; cbn [fold_left].
    - split; [exact I|]. split; [exact Pa|]. split; [exact NN|]. do 4 (split; [reflexivity|]).
      split; [intros; reflexivity|]. split; [intro; lia|]. split; [intros m p []|]. split; [auto|lia].
    - cbn [fst snd]. destruct (Hpl m p (or_introl eq_refl)) as [Kp Sp].
      destruct (link_step g p m h I Kp Kh Sp Pa NN) as [I1 [Pa1 [NN1 [K1 [F1 [S1 [Pe1 [R1 [C1 [D1 [B1 E1]]]]]]]]]]].
      set (g1 := link g p m h) in *.
      destruct (IH g1 h I1) as [I2 [Pa2 [NN2 [K2 [F2 [S2 [Pe2 [C2 [D2 [B2 [P2 E2]]]]]]]]]]]; try assumption.
      { rewrite K1. exact Kh. }
      { intros m' p' H. rewrite K1. apply Hpl. right; exact H. }
      split; [exact I2|]. split; [exact Pa2|]. split; [exact NN2|].
      split; [rewrite K2; exact K1|]. split; [rewrite F2; exact F1|]. split; [rewrite S2; exact S1|].
      split; [rewrite Pe2; exact Pe1|].
      split.
      { intros q Hq. cbn [map snd] in Hq. rewrite C2 by (intro H; apply Hq; right; exact H).
        apply C1. intro E; apply Hq; left; symmetry; exact E. }
      split; [intro q; specialize (D2 q); specialize (D1 q); lia|].
      split.
      { intros m' p' [E|H].
        - inversion E; subst m' p'. split.
          + specialize (D2 h). lia.
          + apply P2. unfold g1. rewrite parents_link, N.eqb_refl. apply ins_parent_in. left; reflexivity.
        - destruct (B2 m' p' H) as [X Y]. split; [specialize (D1 p'); lia|exact Y]. }
      split; [intros x H; apply P2; apply parents_link_incl; exact H|lia].
  Qed.

  Lemma fold_clinks : forall cl g h,
    Inv succ g -> In h (bk_keys g) -> succ_list_ok succ h cl ->
    Par (bk_depth g) -> NonNeg (bk_depth g) ->
    let g' := setChildRefs g h cl in
    Inv succ g' /\ Par (bk_depth g') /\ NonNeg (bk_depth g') /\
    bk_keys g' = bk_keys g /\ bk_info g' = bk_info g /\ bk_sc g' = bk_sc g /\ bk_pending g' = bk_pending g /\
    (forall q, q <> h -> children g' q = children g q) /\
    (forall q, depth g' q <= depth g q) /\
    parents g' h = parents g h /\
    (bk_err g <= bk_err g')%N.
  Proof.
    unfold setChildRefs. induction cl as [|[m c] t IH]; intros g h I Kh Hs Pa NN; cbn [fold_left].
    - split; [exact I|]. split; [exact Pa|]. split; [exact NN|]. do 4 (split; [reflexivity|]).
      split; [intros; reflexivity|]. split; [intro; lia|]. split; [reflexivity|lia].
    - cbn [fst snd]. destruct (has_node g c) eqn:HN.
      + assert (Kc : In c (bk_keys g)) by (apply (inv_keys succ g I); exact HN).
        assert (Sc : succ h m = Some c) by (apply Hs; left; reflexivity).
        destruct (link_step g h m c I Kh Kc Sc Pa NN) as [I1 [Pa1 [NN1 [K1 [F1 [S1 [Pe1 [R1 [C1 [D1 [B1 E1]]]]]]]]]]].
        set (g1 := link g h m c) in *.
        destruct (IH g1 h I1) as [I2 [Pa2 [NN2 [K2 [F2 [S2 [Pe2 [C2 [D2 [P2 E2]]]]]]]]]]; try assumption.
        { rewrite K1. exact Kh. }
        { intros m' c' H. apply Hs. right; exact H. }
        split; [exact I2|]. split; [exact Pa2|]. split; [exact NN2|].
        split; [rewrite K2; exact K1|]. split; [rewrite F2; exact F1|]. split; [rewrite S2; exact S1|].
        split; [rewrite Pe2; exact Pe1|].
        split; [intros q Hq; rewrite C2 by exact Hq; apply C1; exact Hq|].
        split; [intro q; specialize (D2 q); specialize (D1 q); lia|].
        split; [|lia].
        rewrite P2. unfold g1. rewrite parents_link.
        destruct (N.eqb_spec h c) as [E|_]; [|reflexivity].
        exfalso. subst c. pose proof (Hrk h m h Sc). lia.
      + apply IH; try assumption. intros m' c' H. apply Hs. right; exact H.
  Qed.

  Lemma wfc_default : IGNORE_SCORE <= INVALID_SCORE.
  Proof. rewrite IGNORE_val, INVALID_val. lia. Qed.

  Lemma GI_opAdd : forall g h addr pl cl,
    GI g -> op_wf succ g (OpAdd h addr pl cl) -> pl <> [] -> Z.of_nat (length (bk_keys g)) + 1 < INT_MAX ->
    bk_err (opAdd rq bd g h addr pl cl) = 0%N -> GI (opAdd rq bd g h addr pl cl).
  Proof.
    intros g h addr pl cl G [Hfresh [Hpl Hcl]] Hne Hsz E. unfold opAdd in *.
    pose proof (gi_inv g G) as I.
    destruct (no_links_outside succ g h I Hfresh) as [C0 P0].
    set (g0 := new_node g h addr (mkInfo addr 0 INVALID_SCORE 0 ST_EMPTY) INT_MAX default_scores) in *.
    assert (I0 : Inv succ g0) by (apply Inv_new_node; assumption).
    assert (K0 : bk_keys g0 = h :: bk_keys g).
    { unfold g0, new_node. cbn [bk_keys]. unfold add_key.
      destruct (mem h (bk_keys g)) eqn:M; [apply mem_in in M; contradiction|reflexivity]. }
    assert (Kh0 : In h (bk_keys g0)) by (rewrite K0; left; reflexivity).
    assert (D0 : forall q, q <> h -> depth g0 q = depth g q).
    { intros q Hq. unfold depth, g0, new_node. cbn [bk_depth]. apply depth_of_set_other. exact Hq. }
    assert (Pa0 : Par (bk_depth g0)).
    { destruct (gi_par g G) as [B Pr]. unfold g0, new_node. cbn [bk_depth]. split; intro q.
      - destruct (N.eq_dec q h) as [->|Hq]; [rewrite depth_of_set_same; lia|rewrite depth_of_set_other by exact Hq; apply B].
      - destruct (N.eq_dec q h) as [->|Hq]; [rewrite depth_of_set_same; lia|rewrite depth_of_set_other by exact Hq; apply Pr]. }
    assert (NN0 : NonNeg (bk_depth g0)).
    { intro q. unfold g0, new_node. cbn [bk_depth].
      destruct (N.eq_dec q h) as [->|Hq]; [rewrite depth_of_set_same; rewrite INT_MAX_val; lia|rewrite depth_of_set_other by exact Hq; apply (gi_nonneg g G)]. }
    destruct (fold_plinks pl g0 h I0 Kh0) as [I2 [Pa2 [NN2 [K2 [F2 [S2 [Pe2 [C2 [D2 [B2 [_ E2]]]]]]]]]]]; try assumption.
    { intros m p H. destruct (Hpl m p H) as [A B]. split; [rewrite K0; right; exact A|exact B]. }
    set (g2 := fold_left (fun g mp => link g (snd mp) (fst mp) h) pl g0) in *.
    destruct (fold_clinks cl g2 h I2) as [I3 [Pa3 [NN3 [K3 [F3 [S3 [Pe3 [C3 [D3 [P3 E3]]]]]]]]]]; try assumption.
    { rewrite K2. exact Kh0. }
    set (g3 := setChildRefs g2 h cl) in *.
    assert (Kall : bk_keys g3 = h :: bk_keys g) by (rewrite K3, K2; exact K0).
    (* the invariant after updateScores *)
    assert (G4 : GI (updateScores rq bd g3 h)).
    { apply GI_updateScores.
      - exact I3.
      - rewrite Kall. left; reflexivity.
      - rewrite S3, S2. unfold g0, new_node. cbn [bk_sc]. intro x.
        destruct (N.eq_dec x h) as [->|Hx]; [rewrite scof_set_same; cbn; split; apply wfc_default|].
        rewrite scof_set_other by exact Hx. apply (gi_wfc g G).
      - exact Pa3.
      - exact NN3.
      - intros q Kq. rewrite Kall in *. cbn [length]. rewrite Nat2Z.inj_succ.
        destruct Kq as [<-|Kq].
        + destruct pl as [|[m p] t]; [contradiction|].
          destruct (B2 m p (or_introl eq_refl)) as [Bh _]. destruct (Hpl m p (or_introl eq_refl)) as [Kp _].
          assert (Hp : p <> h) by (intro; subst; contradiction).
          pose proof (gi_fin g G p Kp). specialize (D3 h). rewrite (D0 p Hp) in Bh. lia.
        + assert (Hq : q <> h) by (intro; subst; contradiction).
          pose proof (gi_fin g G q Kq). specialize (D3 q). specialize (D2 q). rewrite (D0 q Hq) in D2. lia.
      - rewrite Kall. cbn [length]. rewrite Nat2Z.inj_succ. lia.
      - intros q Kq Hq Hnp. rewrite Kall in Kq. destruct Kq as [E'|Kq]; [congruence|].
        assert (Hnpl : ~ In q (map snd pl)).
        { intro H. apply Hnp. apply in_map_iff in H. destruct H as [[m p] [Ep Hin]]. cbn [snd] in Ep. subst p.
          apply in_map_iff. exists (m, q). split; [reflexivity|]. rewrite P3. apply (B2 m q Hin). }
        assert (Cq : children g3 q = children g q).
        { rewrite C3 by exact Hq. rewrite C2 by exact Hnpl.
          unfold children, g0, new_node. cbn [bk_children]. unfold links_of. rewrite nget_nset_other by exact Hq. reflexivity. }
        assert (Sq : forall x, x <> h -> score_of g3 x = score_of g x).
        { intros x Hx. unfold score_of. rewrite S3, S2. unfold g0, new_node. cbn [bk_sc]. apply scof_set_other. exact Hx. }
        apply (good_transfer g g3 q).
        + unfold info. rewrite F3, F2. unfold g0, new_node. cbn [bk_info]. unfold info_of. rewrite nget_nset_other by exact Hq. reflexivity.
        + unfold info. rewrite F3, F2. unfold g0, new_node. cbn [bk_info]. unfold info_of. rewrite nget_nset_other by exact Hq. reflexivity.
        + symmetry. exact Cq.
        + rewrite Pe3, Pe2. reflexivity.
        + rewrite (parity_keys g G q Kq). symmetry. apply Pa3.
          pose proof (gi_fin g G q Kq). pose proof (gi_size g G). specialize (D3 q). specialize (D2 q). rewrite (D0 q Hq) in D2.
          unfold depth in *. lia.
        + rewrite Sq by exact Hq. reflexivity.
        + intros [m c] Hc. cbn [snd]. rewrite Sq; [reflexivity|].
          destruct (inv_child succ g I q m c Hc) as [_ [Kc _]]. intro; subst; contradiction.
        + apply (gi_good g G). exact Kq.
      - exact E. }
    (* set_state only changes the state field *)
    set (g4 := updateScores rq bd g3 h) in *.
    assert (K4 : In h (bk_keys g4)).
    { unfold g4. destruct (updateScores_fields rq bd g3 h) as [K _]. rewrite K, Kall. left; reflexivity. }
    constructor.
    - unfold set_state. apply Inv_set_info; [apply (gi_inv g4 G4)|exact K4].
    - apply (gi_wfc g4 G4).
    - intros q Kq. apply (good_transfer g4 (set_state g4 h ST_INITIALIZED) q); try reflexivity.
      + unfold set_state. destruct (N.eq_dec q h) as [->|Hq].
        * unfold info, set_info, info_of. cbn [bk_info]. rewrite nget_nset_same. reflexivity.
        * rewrite info_set_info_other by exact Hq. reflexivity.
      + unfold set_state. destruct (N.eq_dec q h) as [->|Hq].
        * unfold info, set_info, info_of. cbn [bk_info]. rewrite nget_nset_same. reflexivity.
        * rewrite info_set_info_other by exact Hq. reflexivity.
      + apply (gi_good g4 G4). exact Kq.
    - apply (gi_par g4 G4).
    - apply (gi_nonneg g4 G4).
    - apply (gi_fin g4 G4).
    - apply (gi_size g4 G4).
  Qed.
End Global.

(** * histories *)

Lemma updateScores_err_mono : forall rq bd g n, (bk_err g <= bk_err (updateScores rq bd g n))%N.
Proof. intros. unfold updateScores. destruct (fold_left _ _ _) as [sc2 err2]. cbn [set_err set_sc bk_err]. lia. Qed.

Lemma link_err_mono : forall g p m c, (bk_err g <= bk_err (link g p m c))%N.
Proof. intros. rewrite link_unfold. cbn [bk_err]. lia. Qed.

Lemma setChildRefs_err_mono : forall l g n, (bk_err g <= bk_err (setChildRefs g n l))%N.
Proof.
  unfold setChildRefs. induction l as [|mc t IH]; intros g n; cbn [fold_left]; [lia|].
  destruct (has_node g (snd mc)); [|apply IH]. etransitivity; [apply link_err_mono|apply IH].
Qed.

Lemma opAdd_err_mono : forall rq bd g h addr pl cl, (bk_err g <= bk_err (opAdd rq bd g h addr pl cl))%N.
Proof.
  intros. unfold opAdd. cbn [set_state set_info bk_err].
  etransitivity; [|apply updateScores_err_mono]. etransitivity; [|apply setChildRefs_err_mono].
  assert (L : forall l g0, (bk_err g0 <= bk_err (fold_left (fun g mp => link g (snd mp) (fst mp) h) l g0))%N).
  { induction l as [|mp t IH]; intro g0; cbn [fold_left]; [lia|]. etransitivity; [apply link_err_mono|apply IH]. }
  etransitivity; [|apply L]. cbn [new_node bk_err]. lia.
Qed.

Section Histories.
  Variable succ : N -> N -> option N.
  Variable rk : N -> Z.
  Variable wtm : N -> bool.
  Hypothesis Hrk : forall p m c, succ p m = Some c -> rk p < rk c.
  Hypothesis Hwtm : forall p m c, succ p m = Some c -> wtm c = negb (wtm p).
  Variables (rq : bool) (bd : bdata).
  Hypothesis Hk : costs_nonneg' bd.

  (** operations covered by the global theorem: everything except readFromFile; the book stays
      below 2^31 - 1 nodes; a new position has at least one book parent (assert in addPosToBook) *)
  Definition op_ok (g : book) (o : op) : Prop :=
    op_wf succ g o /\
    match o with
    | OpAdd h _ pl _ => pl <> [] /\ Z.of_nat (length (bk_keys g)) + 1 < INT_MAX
    | OpPend h | OpUnpend h => In h (bk_keys g)
    | OpSet _ _ _ _ => True
    | OpRead _ _ _ => False
    end.

  Fixpoint ops_ok (g : book) (ops : list op) : Prop :=
    match ops with
    | [] => True
    | o :: t => op_ok g o /\ ops_ok (apply_op rq bd g o) t
    end.

  Lemma apply_op_err_mono : forall g o, op_ok g o -> (bk_err g <= bk_err (apply_op rq bd g o))%N.
  Proof.
    intros g o [_ H]. destruct o as [h addr pl cl|h mv s t|h|h|recs addrs sl]; cbn [apply_op].
    - apply opAdd_err_mono.
    - unfold opSet. etransitivity; [|apply updateScores_err_mono]. cbn [set_info bk_err]. lia.
    - unfold opPend. etransitivity; [|apply updateScores_err_mono]. cbn [set_pending bk_err]. lia.
    - unfold opUnpend. etransitivity; [|apply updateScores_err_mono]. cbn [set_pending bk_err]. lia.
    - destruct H.
  Qed.

  Lemma run_err_mono : forall ops g, ops_ok g ops -> (bk_err g <= bk_err (run rq bd g ops))%N.
  Proof.
    induction ops as [|o t IH]; intros g H; cbn [run fold_left]; [lia|].
    destruct H as [H1 H2]. etransitivity; [apply apply_op_err_mono; exact H1|apply IH; exact H2].
  Qed.

  Lemma GI_apply_op : forall g o, GI succ wtm bd g -> op_ok g o -> bk_err (apply_op rq bd g o) = 0%N ->
    GI succ wtm bd (apply_op rq bd g o).
  Proof.
    intros g o G [W X] E. destruct o as [h addr pl cl|h mv s t|h|h|recs addrs sl]; cbn [apply_op] in *.
    - destruct X as [X1 X2]. apply (GI_opAdd succ rk wtm Hrk Hwtm rq bd Hk); assumption.
    - apply (GI_opSet succ rk wtm Hrk rq bd Hk); assumption.
    - unfold opPend in *. apply (GI_set_pending succ rk wtm Hrk rq bd Hk); try assumption.
      intros q Hq. apply mem_add_key. exact Hq.
    - unfold opUnpend in *. apply (GI_set_pending succ rk wtm Hrk rq bd Hk); try assumption.
      intros q Hq. apply mem_filter_ne. exact Hq.
    - destruct X.
  Qed.

  Theorem GI_run : forall ops g, GI succ wtm bd g -> ops_ok g ops -> bk_err (run rq bd g ops) = 0%N ->
    GI succ wtm bd (run rq bd g ops).
  Proof.
    induction ops as [|o t IH]; intros g G H E; cbn [run fold_left] in *; [exact G|].
    destruct H as [H1 H2].
    assert (E1 : bk_err (apply_op rq bd g o) = 0%N).
    { pose proof (run_err_mono t _ H2) as M. unfold run in M. rewrite E in M. lia. }
    apply IH; [apply GI_apply_op; assumption|exact H2|exact E].
  Qed.

  (** the fresh book *)
  Lemma newBook_eq : forall r a,
    newBook r a = new_node (empty_book r) r a (mkInfo a 0 INVALID_SCORE 0 ST_INITIALIZED) 0 root_scores.
  Proof.
    intros r a. unfold newBook, addRootNode. unfold has_node. cbn [empty_book bk_info bk_root].
    rewrite nget_nempty. reflexivity.
  Qed.

  Lemma GI_newBook : forall r a, wtm r = true -> GI succ wtm bd (newBook r a).
  Proof.
    intros r a Hr.
    assert (I : Inv succ (newBook r a)) by apply Inv_newBook.
    rewrite newBook_eq in *.
    set (g := new_node (empty_book r) r a (mkInfo a 0 INVALID_SCORE 0 ST_INITIALIZED) 0 root_scores) in *.
    assert (Sc : forall x, score_of g x = if N.eqb x r then root_scores else default_scores).
    { intro x. unfold score_of, g, new_node. cbn [bk_sc empty_book]. unfold scof. rewrite nget_nset.
      destruct (N.eqb x r); [reflexivity|]. rewrite nget_nempty. reflexivity. }
    assert (Dp : forall x, depth g x = if N.eqb x r then 0 else INT_MAX).
    { intro x. unfold depth, g, new_node. cbn [bk_depth empty_book]. unfold depth_of. rewrite nget_nset.
      destruct (N.eqb x r); [reflexivity|]. rewrite nget_nempty. reflexivity. }
    assert (Ch : children g r = []).
    { unfold children, g, new_node. cbn [bk_children]. unfold links_of. rewrite nget_nset_same. reflexivity. }
    assert (In' : info g r = mkInfo a 0 INVALID_SCORE 0 ST_INITIALIZED).
    { unfold info, g, new_node. cbn [bk_info]. unfold info_of. rewrite nget_nset_same. reflexivity. }
    constructor.
    - exact I.
    - intro x. fold (score_of g x). rewrite Sc. destruct (N.eqb x r); cbn; split; apply wfc_default.
    - intros q Kq. unfold g, new_node in Kq. cbn [bk_keys empty_book add_key mem existsb] in Kq.
      destruct Kq as [<-|[]].
      unfold good.
      assert (E1 : eq_negamax (set_sc g (bk_sc g)) r = true).
      { unfold eq_negamax, own_score. change (info (set_sc g (bk_sc g)) r) with (info g r).
        change (children (set_sc g (bk_sc g)) r) with (children g r).
        change (score_of (set_sc g (bk_sc g)) r) with (score_of g r).
        rewrite In', Ch, Sc, N.eqb_refl. reflexivity. }
      assert (E2 : forall w, eq_cost bd (set_sc g (bk_sc g)) r w = true).
      { intro w. unfold eq_cost, choices, own_choice, node_cost.
        change (info (set_sc g (bk_sc g)) r) with (info g r).
        change (children (set_sc g (bk_sc g)) r) with (children g r).
        change (score_of (set_sc g (bk_sc g)) r) with (score_of g r).
        change (bk_pending (set_sc g (bk_sc g))) with (@nil N).
        rewrite In', Ch, Sc, N.eqb_refl. destruct w; reflexivity. }
      split; [exact E1|split; apply E2].
    - split; intro q; fold (depth g q); rewrite Dp; destruct (N.eqb_spec q r) as [->|_]; rewrite ?INT_MAX_val; try lia.
      intros _. rewrite Hr. reflexivity.
    - intro q. fold (depth g q). rewrite Dp. destruct (N.eqb q r); rewrite ?INT_MAX_val; lia.
    - intros q Kq. unfold g, new_node in Kq. cbn [bk_keys empty_book add_key mem existsb] in Kq.
      destruct Kq as [<-|[]]. rewrite Dp, N.eqb_refl. unfold g, new_node. cbn. lia.
    - unfold g, new_node. cbn. rewrite INT_MAX_val. lia.
  Qed.

  (** the global theorem that is proved: negamax, both expansion costs and links, after every
      history of add / set / pending operations *)
  Theorem fixpoint_partial : forall root addr ops,
    wtm root = true ->
    ops_ok (newBook root addr) ops ->
    let g := run rq bd (newBook root addr) ops in
    bk_err g = 0%N ->
    forall q, In q (bk_keys g) ->
      eq_negamax g q = true /\ eq_cost bd g q true = true /\ eq_cost bd g q false = true /\ eq_links g q = true.
  Proof.
    intros root addr ops Hr W g E q Kq.
    assert (G : GI succ wtm bd g) by (apply GI_run; [apply GI_newBook; exact Hr|exact W|exact E]).
    destruct (gi_good succ wtm bd g G q Kq) as [A [B C]].
    split; [exact A|]. split; [exact B|]. split; [exact C|].
    apply (Inv_eq_links succ g (gi_inv succ wtm bd g G)). exact Kq.
  Qed.
End Histories.
