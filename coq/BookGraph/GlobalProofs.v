(** Global part of C19 that is proved: over every history of addPosToBook / setSearchResult /
    addPending / removePending operations (chess inputs from an acyclic successor relation whose
    positions alternate the side to move) every node satisfies its negamax and both
    expansion-cost equations and all links are mutually inverse -- for both variants of
    updateScores.  (Depth and path-error equations are not part of this theorem.) *)
From Coq Require Import ZArith NArith List Bool Lia.
From Texel Require Import gen.BookConsts BookGraph.NMap BookGraph.BookGraph BookGraph.Equations
  BookGraph.ScoreFacts BookGraph.LocalProofs BookGraph.LinkProofs BookGraph.UniqueProofs BookGraph.FixProofs.
Import ListNotations.
Local Open Scope Z_scope.

Lemma depth_of_set_same : forall dm x v, depth_of (nset x v dm) x = v.
Proof. intros. unfold depth_of. rewrite nget_nset_same. reflexivity. Qed.
Lemma depth_of_set_other : forall dm x v q, q <> x -> depth_of (nset x v dm) q = depth_of dm q.
Proof. intros. unfold depth_of. rewrite nget_nset_other by assumption. reflexivity. Qed.

(** * updateDepth: any property of the depth map preserved by a relaxation step *)

Section DepthPres.
  Variables (chm parm : nmap (list (N * N))) (P : nmap Z -> Prop).
  Hypothesis Hstep : forall dm n mp, P dm -> In mp (links_of parm n) ->
    depth_of dm n > depth_of dm (snd mp) + 1 -> P (nset n (depth_of dm (snd mp) + 1) dm).

  Lemma depthStep_pres : forall (rec : nmap Z * N -> N -> nmap Z * N) n acc mp,
    (forall st x, P (fst st) -> P (fst (rec st x))) ->
    In mp (links_of parm n) -> P (fst (fst acc)) -> P (fst (fst (depthStep rec n acc mp))).
  Proof.
    intros rec n [[dm err] upd] mp Hrec Hin HP. cbn [fst] in HP. unfold depthStep.
    destruct (depth_of dm (snd mp) =? INT_MAX).
    - pose proof (Hrec (dm, err) (snd mp) HP) as H1. destruct (rec (dm, err) (snd mp)) as [dm1 err1]. cbn [fst] in H1.
      destruct (Z.gtb_spec (depth_of dm1 n) (depth_of dm1 (snd mp) + 1)); cbn [fst]; [apply Hstep; [exact H1|exact Hin|lia]|exact H1].
    - destruct (Z.gtb_spec (depth_of dm n) (depth_of dm (snd mp) + 1)); cbn [fst]; [apply Hstep; [exact HP|exact Hin|lia]|exact HP].
  Qed.

  Lemma updateDepth_pres : forall f st n, P (fst st) -> P (fst (updateDepth f chm parm st n)).
  Proof.
    induction f as [|f IH]; intros st n HP; cbn [updateDepth]; [exact HP|].
    assert (L : forall l acc, (forall mp, In mp l -> In mp (links_of parm n)) -> P (fst (fst acc)) ->
                P (fst (fst (fold_left (depthStep (updateDepth f chm parm) n) l acc)))).
    { induction l as [|mp t IHl]; intros acc Hs Ha; cbn [fold_left]; [exact Ha|].
      apply IHl; [intros x H; apply Hs; right; exact H|].
      apply depthStep_pres; [intros s x; apply IH|apply Hs; left; reflexivity|exact Ha]. }
    pose proof (L (links_of parm n) (fst st, snd st, false) (fun _ H => H) HP) as H1.
    destruct (fold_left (depthStep (updateDepth f chm parm) n) (links_of parm n) (fst st, snd st, false)) as [[dm2 err2] upd].
    cbn [fst] in H1. destruct upd; [|exact H1].
    assert (L2 : forall l s0, P (fst s0) -> P (fst (fold_left (fun s (mc : N * N) => updateDepth f chm parm s (snd mc)) l s0))).
    { induction l as [|mc t IHl]; intros s0 H0; cbn [fold_left]; [exact H0|]. apply IHl. apply IH. exact H0. }
    apply L2. exact H1.
  Qed.
End DepthPres.

(** depths only decrease *)
Lemma updateDepth_decr : forall chm parm f st n q,
  depth_of (fst (updateDepth f chm parm st n)) q <= depth_of (fst st) q.
Proof.
  intros chm parm f st n q.
  apply (updateDepth_pres chm parm (fun dm => forall x, depth_of dm x <= depth_of (fst st) x)); [|intro; lia].
  intros dm n0 mp H _ G x. unfold depth_of at 1. rewrite nget_nset.
  destruct (N.eqb_spec x n0) as [->|_]; [specialize (H n0); lia|apply H].
Qed.

(** after updateDepth n the node is at most one ply below each of its parents *)
Lemma depthStep_decr : forall chm parm f n acc mp q,
  depth_of (fst (fst (depthStep (updateDepth f chm parm) n acc mp))) q <= depth_of (fst (fst acc)) q.
Proof.
  intros chm parm f n [[dm err] upd] mp q. cbn [fst]. unfold depthStep.
  destruct (depth_of dm (snd mp) =? INT_MAX).
  - pose proof (updateDepth_decr chm parm f (dm, err) (snd mp)) as D. cbn [fst] in D.
    destruct (updateDepth f chm parm (dm, err) (snd mp)) as [dm1 err1]. cbn [fst] in D.
    destruct (Z.gtb_spec (depth_of dm1 n) (depth_of dm1 (snd mp) + 1)); cbn [fst]; [|apply D].
    unfold depth_of at 1. rewrite nget_nset. destruct (N.eqb_spec q n) as [->|_]; [specialize (D n); lia|apply D].
  - destruct (Z.gtb_spec (depth_of dm n) (depth_of dm (snd mp) + 1)); cbn [fst]; [|lia].
    unfold depth_of at 1. rewrite nget_nset. destruct (N.eqb_spec q n) as [->|_]; [lia|fold (depth_of dm q); lia].
Qed.

Lemma depthStep_bound : forall chm parm f n acc mp,
  depth_of (fst (fst (depthStep (updateDepth f chm parm) n acc mp))) n <= depth_of (fst (fst acc)) (snd mp) + 1.
Proof.
  intros chm parm f n [[dm err] upd] mp. cbn [fst]. unfold depthStep.
  destruct (depth_of dm (snd mp) =? INT_MAX).
  - pose proof (updateDepth_decr chm parm f (dm, err) (snd mp)) as D. cbn [fst] in D.
    destruct (updateDepth f chm parm (dm, err) (snd mp)) as [dm1 err1]. cbn [fst] in D.
    destruct (Z.gtb_spec (depth_of dm1 n) (depth_of dm1 (snd mp) + 1)); cbn [fst].
    + unfold depth_of at 1. rewrite nget_nset, N.eqb_refl. specialize (D (snd mp)). lia.
    + specialize (D (snd mp)). lia.
  - destruct (Z.gtb_spec (depth_of dm n) (depth_of dm (snd mp) + 1)); cbn [fst].
    + unfold depth_of at 1. rewrite nget_nset, N.eqb_refl. lia.
    + lia.
Qed.

Lemma updateDepth_bound : forall chm parm f st n mp,
  In mp (links_of parm n) ->
  depth_of (fst (updateDepth (S f) chm parm st n)) n <= depth_of (fst st) (snd mp) + 1.
Proof.
  intros chm parm f st n mp Hin. cbn [updateDepth].
  assert (L : forall l acc, In mp l ->
              depth_of (fst (fst (fold_left (depthStep (updateDepth f chm parm) n) l acc))) n <= depth_of (fst (fst acc)) (snd mp) + 1).
  { assert (D : forall l acc q, depth_of (fst (fst (fold_left (depthStep (updateDepth f chm parm) n) l acc))) q <= depth_of (fst (fst acc)) q).
    { induction l as [|x t IHl]; intros acc q; cbn [fold_left]; [lia|].
      etransitivity; [apply IHl|apply depthStep_decr]. }
    induction l as [|x t IHl]; intros acc H; [destruct H|]. cbn [fold_left]. destruct H as [->|H].
    - etransitivity; [apply D|apply depthStep_bound].
    - etransitivity; [apply IHl; exact H|]. pose proof (depthStep_decr chm parm f n acc x (snd mp)). lia. }
  pose proof (L (links_of parm n) (fst st, snd st, false) Hin) as B. cbn [fst] in B.
  destruct (fold_left (depthStep (updateDepth f chm parm) n) (links_of parm n) (fst st, snd st, false)) as [[dm2 err2] upd].
  cbn [fst] in B. destruct upd; [|exact B].
  assert (D2 : forall l s0 q, depth_of (fst (fold_left (fun s (mc : N * N) => updateDepth f chm parm s (snd mc)) l s0)) q <= depth_of (fst s0) q).
  { induction l as [|x t IHl]; intros s0 q; cbn [fold_left]; [lia|].
    etransitivity; [apply IHl|apply updateDepth_decr]. }
  etransitivity; [apply D2|exact B].
Qed.

(** * link, unfolded *)
Lemma link_unfold : forall g p m c,
  let ch := nset p (ins_child m c (children g p)) (bk_children g) in
  let pa := nset c (ins_parent (bk_info g) m p (parents g c)) (bk_parents g) in
  let r := updateDepth (fuel_of g) ch pa (bk_depth g, 0%N) c in
  link g p m c = mkBook (bk_root g) (bk_keys g) (bk_info g) ch pa (fst r) (bk_sc g) (bk_pending g) (N.max (bk_err g) (snd r)).
Proof.
  intros g p m c. cbn zeta. unfold link.
  set (g2 := set_parents _ _ _).
  replace (updateDepth (fuel_of g2) (bk_children g2) (bk_parents g2) (bk_depth g2, 0%N) c)
    with (updateDepth (fuel_of g) (nset p (ins_child m c (children g p)) (bk_children g))
            (nset c (ins_parent (bk_info g) m p (parents g c)) (bk_parents g)) (bk_depth g, 0%N) c) by reflexivity.
  destruct (updateDepth (fuel_of g) _ _ (bk_depth g, 0%N) c) as [dm err]. reflexivity.
Qed.

Definition costs_nonneg' (bd : bdata) : Prop := 0 <= bd_depthCost bd /\ 0 <= bd_ownCost bd /\ 0 <= bd_otherCost bd.

Section Global.
  Variable succ : N -> N -> option N.
  Variable rk : N -> Z.
  Variable wtm : N -> bool.
  Hypothesis Hrk : forall p m c, succ p m = Some c -> rk p < rk c.
  Hypothesis Hwtm : forall p m c, succ p m = Some c -> wtm c = negb (wtm p).
  Variables (rq : bool) (bd : bdata).
  Hypothesis Hk : costs_nonneg' bd.

  Definition Par (dm : nmap Z) : Prop :=
    (forall q, depth_of dm q <= INT_MAX) /\ (forall q, depth_of dm q < INT_MAX -> Z.even (depth_of dm q) = wtm q).
  Definition NonNeg (dm : nmap Z) : Prop := forall q, 0 <= depth_of dm q.

  Lemma updateDepth_par : forall chm parm f st n,
    (forall x mp, In mp (links_of parm x) -> wtm x = negb (wtm (snd mp))) ->
    Par (fst st) -> Par (fst (updateDepth f chm parm st n)).
  Proof.
    intros chm parm f st n Halt. apply (updateDepth_pres chm parm Par).
    intros dm x mp [B Pr] Hin G. split.
    - intro q. destruct (N.eq_dec q x) as [->|Hne].
      + rewrite depth_of_set_same. specialize (B x); lia.
      + rewrite depth_of_set_other by exact Hne. apply B.
    - intro q. destruct (N.eq_dec q x) as [->|Hne].
      + rewrite depth_of_set_same. intros _. rewrite (Halt x mp Hin). rewrite <- (Pr (snd mp)) by (specialize (B x); lia).
        rewrite Z.add_1_r, Z.even_succ, <- Z.negb_even. reflexivity.
      + rewrite depth_of_set_other by exact Hne. apply Pr.
  Qed.

  Lemma updateDepth_nonneg : forall chm parm f st n, NonNeg (fst st) -> NonNeg (fst (updateDepth f chm parm st n)).
  Proof.
    intros chm parm f st n. apply (updateDepth_pres chm parm NonNeg).
    intros dm x mp H _ _ q. destruct (N.eq_dec q x) as [->|Hne].
    - rewrite depth_of_set_same. specialize (H (snd mp)); lia.
    - rewrite depth_of_set_other by exact Hne. apply H.
  Qed.

  Lemma updateDepth_err_mono : forall chm parm f st n, (snd st <= snd (updateDepth f chm parm st n))%N.
  Proof.
    intros chm parm. induction f as [|f IH]; intros st n; cbn [updateDepth]; [cbn [snd]; lia|].
    assert (L : forall l acc, (snd (fst acc) <= snd (fst (fold_left (depthStep (updateDepth f chm parm) n) l acc)))%N).
    { induction l as [|mp t IHl]; intro acc; cbn [fold_left]; [lia|].
      etransitivity; [|apply IHl]. destruct acc as [[dm err] upd]. cbn [fst snd]. unfold depthStep.
      destruct (depth_of dm (snd mp) =? INT_MAX).
      - pose proof (IH (dm, err) (snd mp)) as M. destruct (updateDepth f chm parm (dm, err) (snd mp)) as [dm1 err1]. cbn [snd] in M.
        destruct (_ || _); destruct (_ >? _); cbn [fst snd]; lia.
      - destruct (_ || _); destruct (_ >? _); cbn [fst snd]; lia. }
    pose proof (L (links_of parm n) (fst st, snd st, false)) as M. cbn [fst snd] in M.
    destruct (fold_left (depthStep (updateDepth f chm parm) n) (links_of parm n) (fst st, snd st, false)) as [[dm2 err2] upd].
    cbn [fst snd] in M. destruct upd; [|cbn [snd]; exact M].
    assert (L2 : forall l s0, (snd s0 <= snd (fold_left (fun s (mc : N * N) => updateDepth f chm parm s (snd mc)) l s0))%N).
    { induction l as [|x t IHl]; intro s0; cbn [fold_left]; [lia|]. etransitivity; [apply IH|apply IHl]. }
    etransitivity; [exact M|apply (L2 _ (dm2, err2))].
  Qed.

  (** ** what one link does *)
  Lemma link_step : forall g p m c,
    Inv succ g -> In p (bk_keys g) -> In c (bk_keys g) -> succ p m = Some c ->
    Par (bk_depth g) -> NonNeg (bk_depth g) ->
    let g' := link g p m c in
    Inv succ g' /\ Par (bk_depth g') /\ NonNeg (bk_depth g') /\
    bk_keys g' = bk_keys g /\ bk_info g' = bk_info g /\ bk_sc g' = bk_sc g /\ bk_pending g' = bk_pending g /\
    bk_root g' = bk_root g /\
    (forall q, q <> p -> children g' q = children g q) /\
    (forall q, depth g' q <= depth g q) /\
    depth g' c <= depth g p + 1 /\
    (bk_err g <= bk_err g')%N.
  Proof.
    intros g p m c I Kp Kc Hs Pa NN g'.
    assert (I' : Inv succ g') by (apply Inv_link; assumption).
    pose proof (link_unfold g p m c) as U. cbn zeta in U. fold g' in U.
    set (ch := nset p (ins_child m c (children g p)) (bk_children g)) in *.
    set (pa := nset c (ins_parent (bk_info g) m p (parents g c)) (bk_parents g)) in *.
    set (r := updateDepth (fuel_of g) ch pa (bk_depth g, 0%N) c) in *.
    assert (Alt : forall x mp, In mp (links_of pa x) -> wtm x = negb (wtm (snd mp))).
    { intros x [m' p'] H. cbn [snd].
      assert (H' : In (m', p') (parents g' x)) by (unfold parents; rewrite U; exact H).
      pose proof (inv_parent succ g' I' x m' p' H') as C.
      destruct (inv_child succ g' I' p' m' x C) as [_ [_ [_ S']]]. eapply Hwtm; eauto. }
    split; [exact I'|].
    split; [rewrite U; cbn [bk_depth]; apply updateDepth_par; [exact Alt|exact Pa]|].
    split; [rewrite U; cbn [bk_depth]; apply updateDepth_nonneg; exact NN|].
    rewrite U. cbn [bk_keys bk_info bk_sc bk_pending bk_root bk_err].
    repeat (split; [reflexivity|]).
    split.
    { intros q Hq. unfold children. cbn [bk_children]. unfold ch, links_of. rewrite nget_nset_other by exact Hq. reflexivity. }
    split.
    { intro q. unfold depth. cbn [bk_depth]. apply (updateDepth_decr ch pa (fuel_of g) (bk_depth g, 0%N) c q). }
    split.
    { unfold depth. cbn [bk_depth]. unfold r, fuel_of.
      apply (updateDepth_bound ch pa (S (length (bk_keys g))) (bk_depth g, 0%N) c (m, p)).
      unfold pa, links_of. rewrite nget_nset_same. apply ins_parent_in. left; reflexivity. }
    pose proof (updateDepth_err_mono ch pa (fuel_of g) (bk_depth g, 0%N) c) as M. fold r in M. cbn [snd] in M. lia.
  Qed.

  (** ** transfer of the equations between states that agree around a node *)
  Lemma good_transfer : forall g1 g2 q,
    ni_move (info g1 q) = ni_move (info g2 q) -> ni_score (info g1 q) = ni_score (info g2 q) ->
    children g1 q = children g2 q -> mem q (bk_pending g1) = mem q (bk_pending g2) ->
    Z.even (depth g1 q) = Z.even (depth g2 q) ->
    nmec (score_of g1 q) = nmec (score_of g2 q) ->
    (forall mc, In mc (children g1 q) -> nmec (score_of g1 (snd mc)) = nmec (score_of g2 (snd mc))) ->
    good bd g1 (bk_sc g1) q -> good bd g2 (bk_sc g2) q.
  Proof.
    intros g1 g2 q Hm Hs Hc Hp Hd Hn Hch [G1 [G2 G3]].
    destruct (nmec_inj _ _ Hn) as [N1 [N2 N3]].
    assert (E1 : eq_negamax (set_sc g1 (bk_sc g1)) q = eq_negamax (set_sc g2 (bk_sc g2)) q).
    { apply eq_negamax_ext; try assumption.
      intros mc H. apply (nmec_inj _ _ (Hch mc H)). }
    assert (E2 : forall w, eq_cost bd (set_sc g1 (bk_sc g1)) q w = eq_cost bd (set_sc g2 (bk_sc g2)) q w).
    { intro w. apply eq_cost_ext; try assumption.
      - unfold node_cost. change (score_of (set_sc g1 (bk_sc g1)) q) with (score_of g1 q).
        change (score_of (set_sc g2 (bk_sc g2)) q) with (score_of g2 q). destruct w; assumption.
      - intros mc H. destruct (nmec_inj _ _ (Hch mc H)) as [A [B C]]. split; [exact A|].
        unfold node_cost. change (score_of (set_sc g1 (bk_sc g1)) (snd mc)) with (score_of g1 (snd mc)).
        change (score_of (set_sc g2 (bk_sc g2)) (snd mc)) with (score_of g2 (snd mc)). destruct w; assumption. }
    unfold good. rewrite <- E1, <- !E2. auto.
  Qed.
End Global.
