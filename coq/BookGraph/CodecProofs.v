(** The 16-byte node record: [deserialize_fields] inverts [serialize_fields] on every layout
    (list of field sizes and signedness, regenerated from the source) for values in the range
    of the fields; instantiated to the node record of BookNode::serialize / deSerialize. *)
From Coq Require Import ZArith NArith List Bool Lia.
From Texel Require Import gen.BookConsts BookGraph.NMap BookGraph.BookGraph.
Import ListNotations.
Local Open Scope Z_scope.

Lemma le_bytes_length : forall n v, length (le_bytes n v) = n.
Proof. induction n; intro v; simpl; [reflexivity|]. rewrite IHn. reflexivity. Qed.

Lemma le_bytes_lt : forall n v b, In b (le_bytes n v) -> (b < 256)%N.
Proof.
  induction n; intros v b H; simpl in H; [contradiction|].
  destruct H as [<-|H]; [apply N.mod_lt; discriminate|]. eapply IHn; eauto.
Qed.

Lemma le_value_le_bytes : forall n v, le_value (le_bytes n v) = (v mod 256 ^ N.of_nat n)%N.
Proof.
  induction n; intro v.
  - simpl. rewrite N.mod_1_r. reflexivity.
  - cbn [le_bytes le_value]. rewrite IHn.
    rewrite Nat2N.inj_succ, N.pow_succ_r by apply N.le_0_l.
    rewrite N.mod_mul_r; [reflexivity|discriminate|].
    apply N.pow_nonzero. discriminate.
Qed.

Lemma pow256 : forall n : nat, Z.of_N (256 ^ N.of_nat n) = 2 ^ field_bits n.
Proof.
  intro n. unfold field_bits. rewrite N2Z.inj_pow. rewrite nat_N_Z.
  change (Z.of_N 256) with (2 ^ 8). rewrite <- Z.pow_mul_r by lia. reflexivity.
Qed.

Definition in_range (f : nat * bool) (v : Z) : Prop :=
  (1 <= fst f)%nat /\
  if snd f then - 2 ^ (field_bits (fst f) - 1) <= v < 2 ^ (field_bits (fst f) - 1)
  else 0 <= v < 2 ^ field_bits (fst f).

Lemma enc_field_length : forall f v, length (enc_field f v) = fst f.
Proof. intros. unfold enc_field. apply le_bytes_length. Qed.

Lemma dec_enc_field : forall f v, in_range f v -> dec_field f (enc_field f v) = v.
Proof.
  intros [sz sg] v [Hsz H]. cbn [fst snd] in *.
  unfold dec_field, enc_field. cbn [fst snd].
  rewrite le_value_le_bytes.
  assert (Hb : 0 < field_bits sz) by (unfold field_bits; lia).
  assert (Hp : 0 < 2 ^ field_bits sz) by (apply Z.pow_pos_nonneg; lia).
  assert (Hm : 0 <= v mod 2 ^ field_bits sz < 2 ^ field_bits sz) by (apply Z.mod_pos_bound; lia).
  rewrite N2Z.inj_mod by (apply N.pow_nonzero; discriminate).
  rewrite pow256. rewrite Z2N.id by lia.
  rewrite Z.mod_mod by lia.
  assert (Hh : 2 ^ field_bits sz = 2 * 2 ^ (field_bits sz - 1)).
  { rewrite <- Z.pow_succ_r by lia. f_equal. lia. }
  destruct sg.
  - cbn [andb].
    destruct (Z.leb_spec (2 ^ (field_bits sz - 1)) (v mod 2 ^ field_bits sz)) as [L|L].
    + (* v negative *)
      destruct (Z.lt_ge_cases v 0) as [Neg|Pos].
      * assert (E : v mod 2 ^ field_bits sz = v + 2 ^ field_bits sz).
        { symmetry. apply Z.mod_unique with (q := -1); lia. }
        lia.
      * rewrite Z.mod_small in L by lia. lia.
    + destruct (Z.lt_ge_cases v 0) as [Neg|Pos].
      * assert (E : v mod 2 ^ field_bits sz = v + 2 ^ field_bits sz).
        { symmetry. apply Z.mod_unique with (q := -1); lia. }
        lia.
      * apply Z.mod_small. lia.
  - cbn [andb]. apply Z.mod_small. lia.
Qed.

Lemma firstn_app_exact : forall (A : Type) (l r : list A) n, length l = n -> firstn n (l ++ r) = l.
Proof.
  intros A l r n <-. induction l; simpl; [destruct r; reflexivity|]. f_equal. exact IHl.
Qed.
Lemma skipn_app_exact : forall (A : Type) (l r : list A) n, length l = n -> skipn n (l ++ r) = r.
Proof.
  intros A l r n <-. induction l; simpl; [reflexivity|]. exact IHl.
Qed.

Theorem deserialize_serialize : forall layout vals rest,
  Forall2 in_range layout vals ->
  deserialize_fields layout (serialize_fields layout vals ++ rest) = vals.
Proof.
  intros layout vals rest H. induction H as [|f v lt vt Hf _ IH].
  - reflexivity.
  - cbn [serialize_fields deserialize_fields]. rewrite <- app_assoc.
    rewrite firstn_app_exact by apply enc_field_length.
    rewrite skipn_app_exact by apply enc_field_length.
    rewrite dec_enc_field by exact Hf. f_equal. exact IH.
Qed.

Lemma serialize_length : forall layout vals,
  length layout = length vals ->
  length (serialize_fields layout vals) = fold_right (fun f a => (fst f + a)%nat) 0%nat layout.
Proof.
  induction layout as [|f lt IH]; intros [|v vt] H; simpl in *; try discriminate; [reflexivity|].
  rewrite app_length, enc_field_length. f_equal. apply IH. lia.
Qed.

(** every byte produced is a byte *)
Lemma serialize_bytes : forall layout vals b, In b (serialize_fields layout vals) -> (b < 256)%N.
Proof.
  induction layout as [|f lt IH]; intros [|v vt] b H; simpl in H; try contradiction.
  apply in_app_or in H. destruct H as [H|H]; [|eapply IH; eauto].
  unfold enc_field in H. eapply le_bytes_lt; eauto.
Qed.

(** the layout found in the source: the fields fill the record exactly *)
Lemma layout_fills_record :
  fold_right (fun f a => (fst f + a)%nat) 0%nat SERIALIZE_FIELDS = SERIALIZED_SIZE /\ SERIALIZE_NAMES_OK = true.
Proof. split; reflexivity. Qed.

Definition U64_BOUND : N := 18446744073709551616%N.
Definition U32_BOUND : N := 4294967296%N.
Definition U16_BOUND : N := 65536%N.

Theorem record_roundtrip : forall h mv score time,
  (h < U64_BOUND)%N -> (mv < U16_BOUND)%N -> -32768 <= score < 32768 -> (time < U32_BOUND)%N ->
  length (record_of h mv score time) = SERIALIZED_SIZE /\
  Forall (fun b => (b < 256)%N) (record_of h mv score time) /\
  deserialize_fields SERIALIZE_FIELDS (record_of h mv score time) = [Z.of_N h; Z.of_N mv; score; Z.of_N time].
Proof.
  intros h mv score time Hh Hm Hs Ht.
  assert (L : length (serialize_fields SERIALIZE_FIELDS [Z.of_N h; Z.of_N mv; score; Z.of_N time]) = SERIALIZED_SIZE).
  { rewrite serialize_length by reflexivity. apply layout_fills_record. }
  unfold record_of, pad. rewrite L, Nat.sub_diag. cbn [repeat].
  split; [rewrite app_nil_r; exact L|]. split.
  - rewrite app_nil_r. apply Forall_forall. intros b Hb. eapply serialize_bytes; eauto.
  - apply deserialize_serialize.
    unfold SERIALIZE_FIELDS, U64_BOUND, U16_BOUND, U32_BOUND in *.
    repeat constructor; cbn [fst snd];
      try (change (field_bits 8) with 64); try (change (field_bits 2) with 16); try (change (field_bits 4) with 32);
      try (change (2 ^ 64) with 18446744073709551616); try (change (2 ^ 16) with 65536);
      try (change (2 ^ (16 - 1)) with 32768); try (change (2 ^ 32) with 4294967296); lia.
Qed.

(** the model's readFromFile decodes a written record into a node with the same static data *)
Lemma read_record_of : forall am g h mv score time,
  (h < U64_BOUND)%N -> (mv < U16_BOUND)%N -> -32768 <= score < 32768 -> (time < U32_BOUND)%N ->
  read_record am g (record_of h mv score time) =
  new_node g h (lookup_addr am h) (mkInfo (lookup_addr am h) mv score time ST_DESERIALIZED)
           (if N.eqb h (bk_root g) then 0 else INT_MAX)
           (if N.eqb h (bk_root g) then root_scores else default_scores).
Proof.
  intros am g h mv score time Hh Hm Hs Ht.
  unfold read_record.
  destruct (record_roundtrip h mv score time Hh Hm Hs Ht) as [_ [_ E]]. rewrite E.
  rewrite !N2Z.id. reflexivity.
Qed.
