(** Specification side of C19: the DEFINING EQUATIONS of the per-node data of the book graph,
    as boolean checks over a graph state.  Nothing here refers to the update algorithm
    ([computeNegaMax], [updateScores], [updateDepth] ... of BookGraph.v); only the data layout
    ([book] and its accessors) and the regenerated constants / [negateScore] are shared.

    Sources (lib/texelutillib/bookbuild.hpp, class comment of BookNode and the field comments):
    - negaMaxScore = max(searchScore, negateScore(child[i].negaMaxScore)); INVALID if the search
      score is INVALID; the search score is ignored when a child node (with a valid score) already
      contains information about the best non-book move;
    - expansion cost: INVALID if the own choice or any child is INVALID, otherwise the smallest
      of the admissible choices (own move: k * moveError, or the fixed "obsolete" cost when the
      best non-book move is already a child; child i: ka + cost_i + kb * moveError_i), choices
      that are being searched (IGNORE) are skipped, IGNORE if nothing is left;
    - path errors: root 0/0; otherwise component-wise smallest over the parents with valid data
      of (parent error + error of the move parent->node, charged to the side that moved);
      INVALID if there is no such parent;
    - depth: length of the shortest path from the root;
    - children / parents mutually inverse.
    Where the header comment is silent (pending nodes with an INVALID search score, the fixed
    cost -10000, move error 1000 under an INVALID negamax score) the rule is the one of
    getExpansionCost/computeNegaMax and is marked "(code)" below. *)
From Coq Require Import ZArith NArith List Bool.
From Texel Require Import gen.BookConsts BookGraph.NMap BookGraph.BookGraph.
Import ListNotations.
Local Open Scope Z_scope.

Definition is_max (v : Z) (l : list Z) : bool := forallb (fun c => c <=? v) l && existsb (fun c => c =? v) l.
Definition is_min (v : Z) (l : list Z) : bool := forallb (fun c => v <=? c) l && existsb (fun c => c =? v) l.

(** ** negamax *)

(** the node's own candidate: its search score, unless a child with a valid score covers the move *)
Definition own_score (g : book) (n : N) : Z :=
  let i := info g n in
  match assoc (ni_move i) (children g n) with
  | Some c => if s_nm (score_of g c) =? INVALID_SCORE then ni_score i else IGNORE_SCORE
  | None => ni_score i
  end.

Definition nm_candidates (g : book) (n : N) : list Z :=
  own_score g n :: map (fun mc => negateScore (s_nm (score_of g (snd mc)))) (children g n).

Definition eq_negamax (g : book) (n : N) : bool :=
  let v := s_nm (score_of g n) in
  if own_score g n =? INVALID_SCORE then v =? INVALID_SCORE else is_max v (nm_candidates g n).

(** ** expansion cost *)

Inductive choice := Ignored | Invalid | Cost (c : Z).

Definition white_to_move (g : book) (n : N) : bool := Z.even (depth g n).
(** k1 (own error) when the book player is to move, k2 otherwise *)
Definition err_weight (bd : bdata) (g : book) (n : N) (bookIsWhite : bool) : Z :=
  if Bool.eqb (white_to_move g n) bookIsWhite then bd_ownCost bd else bd_otherCost bd.
Definition node_cost (g : book) (n : N) (bookIsWhite : bool) : Z :=
  if bookIsWhite then s_ecw (score_of g n) else s_ecb (score_of g n).
Definition best_move_is_child (g : book) (n : N) : bool :=
  existsb (fun mc => N.eqb (fst mc) (ni_move (info g n))) (children g n).

Definition own_choice (bd : bdata) (g : book) (n : N) (w : bool) : choice :=
  let s := ni_score (info g n) in
  if mem n (bk_pending g) then Ignored                       (* being searched; (code): even if s is INVALID *)
  else if s =? INVALID_SCORE then Invalid
  else if s =? IGNORE_SCORE then Ignored
  else if best_move_is_child g n then Cost OBSOLETE_COST     (* (code) *)
  else Cost ((s_nm (score_of g n) - s) * err_weight bd g n w).

Definition child_choice (bd : bdata) (g : book) (n : N) (w : bool) (c : N) : choice :=
  let cc := node_cost g c w in
  if cc =? INVALID_SCORE then Invalid
  else if cc =? IGNORE_SCORE then Ignored
  else
    let nm := s_nm (score_of g n) in
    let moveError := if nm =? INVALID_SCORE then INVALID_MOVE_ERROR (* (code) *)
                     else nm - negateScore (s_nm (score_of g c)) in
    Cost (bd_depthCost bd + cc + err_weight bd g n w * moveError).

Definition choices (bd : bdata) (g : book) (n : N) (w : bool) : list choice :=
  own_choice bd g n w :: map (fun mc => child_choice bd g n w (snd mc)) (children g n).

Definition is_invalid (c : choice) : bool := match c with Invalid => true | _ => false end.
Fixpoint costs_of (l : list choice) : list Z :=
  match l with
  | [] => []
  | Cost c :: t => c :: costs_of t
  | _ :: t => costs_of t
  end.

Definition eq_cost (bd : bdata) (g : book) (n : N) (w : bool) : bool :=
  let v := node_cost g n w in
  let chs := choices bd g n w in
  if existsb is_invalid chs then v =? INVALID_SCORE
  else match costs_of chs with
       | [] => v =? IGNORE_SCORE
       | cs => is_min v cs
       end.

(** ** path errors *)

Definition pe_candidates (g : book) (n : N) : list (Z * Z) :=
  let me := score_of g n in
  flat_map (fun mp =>
              let ps := score_of g (snd mp) in
              if (s_pew ps =? INVALID_SCORE) || (s_peb ps =? INVALID_SCORE) ||
                 (s_nm me =? INVALID_SCORE) || (s_nm ps =? INVALID_SCORE) then []
              else
                let delta := s_nm ps - negateScore (s_nm me) in
                (* odd depth = white made the move leading here *)
                if Z.odd (depth g n) then [(s_pew ps + delta, s_peb ps)] else [(s_pew ps, s_peb ps + delta)])
           (parents g n).

Definition eq_patherr (g : book) (n : N) : bool :=
  let me := score_of g n in
  if N.eqb n (bk_root g) then (s_pew me =? 0) && (s_peb me =? 0)
  else match pe_candidates g n with
       | [] => (s_pew me =? INVALID_SCORE) && (s_peb me =? INVALID_SCORE)
       | cs => is_min (s_pew me) (map fst cs) && is_min (s_peb me) (map snd cs)
       end.

(** ** depth = shortest distance from the root, as local equation (see DepthProofs for the
    equivalence with "length of a shortest path") *)
Definition eq_depth (g : book) (n : N) : bool :=
  let d := depth g n in
  if N.eqb n (bk_root g) then d =? 0
  else match parents g n with
       | [] => d =? INT_MAX
       | ps => is_min d (map (fun mp => depth g (snd mp) + 1) ps)
       end.

(** ** links *)
Definition has_parent_link (g : book) (c m p : N) : bool :=
  existsb (fun mp => N.eqb (fst mp) m && N.eqb (snd mp) p) (parents g c).
Definition has_child_link (g : book) (p m c : N) : bool :=
  match assoc m (children g p) with Some c' => N.eqb c' c | None => false end.

Definition eq_links (g : book) (n : N) : bool :=
  forallb (fun mc => mem (snd mc) (bk_keys g) && has_parent_link g (snd mc) (fst mc) n) (children g n) &&
  forallb (fun mp => mem (snd mp) (bk_keys g) && has_child_link g (snd mp) (fst mp) n) (parents g n).

(** ** all equations of one node / of the graph; failure codes *)
Definition F_NEGAMAX : N := 1%N.
Definition F_COST_W : N := 2%N.
Definition F_COST_B : N := 3%N.
Definition F_PATHERR : N := 4%N.
Definition F_DEPTH : N := 5%N.
Definition F_LINKS : N := 6%N.

Definition check_node (bd : bdata) (g : book) (n : N) : list N :=
  (if eq_negamax g n then [] else [F_NEGAMAX]) ++
  (if eq_cost bd g n true then [] else [F_COST_W]) ++
  (if eq_cost bd g n false then [] else [F_COST_B]) ++
  (if eq_patherr g n then [] else [F_PATHERR]) ++
  (if eq_depth g n then [] else [F_DEPTH]) ++
  (if eq_links g n then [] else [F_LINKS]).

Definition check_all (bd : bdata) (g : book) : list (N * N) :=
  flat_map (fun n => map (fun c => (n, c)) (check_node bd g n)) (bk_keys g).

Definition node_ok (bd : bdata) (g : book) (n : N) : Prop :=
  eq_negamax g n = true /\ eq_cost bd g n true = true /\ eq_cost bd g n false = true /\
  eq_patherr g n = true /\ eq_depth g n = true /\ eq_links g n = true.

Definition all_equations (bd : bdata) (g : book) : Prop := forall n, In n (bk_keys g) -> node_ok bd g n.

(** ** acyclicity: a rank that strictly increases along every child link (certificate checked by
    [check_rank]; [rank_candidate] computes longest-path ranks and is not trusted) *)
Definition rank_of (rk : nmap Z) (n : N) : Z := match nget n rk with Some r => r | None => 0 end.

Definition check_rank (g : book) (rk : nmap Z) : bool :=
  forallb (fun n => (0 <=? rank_of rk n) &&
                    forallb (fun mc => rank_of rk n <? rank_of rk (snd mc)) (children g n)) (bk_keys g).

Definition relax_round (g : book) (st : nmap Z * bool) : nmap Z * bool :=
  fold_left (fun st n =>
               fold_left (fun st mc =>
                            let r := rank_of (fst st) n + 1 in
                            if rank_of (fst st) (snd mc) <? r then (nset (snd mc) r (fst st), true) else st)
                         (children g n) st)
            (bk_keys g) (fst st, false).

Fixpoint relax (fuel : nat) (g : book) (rk : nmap Z) : nmap Z :=
  match fuel with
  | O => rk
  | S f => let '(rk', changed) := relax_round g (rk, false) in if changed then relax f g rk' else rk'
  end.

Definition rank_candidate (g : book) : nmap Z := relax (S (length (bk_keys g))) g nempty.
Definition acyclic_check (g : book) : bool := check_rank g (rank_candidate g).
