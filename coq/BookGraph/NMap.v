(** Finite maps keyed by [N] (64-bit hash keys), a thin layer over the standard library's
    [PositiveMap] (binary tries: extraction gives O(64) look-ups).  Only [nget]/[nset] and the
    two usual equations are used by the model and the proofs. *)
From Coq Require Import ZArith NArith List Bool FMapPositive.
Import ListNotations.

Definition nmap (A : Type) : Type := PositiveMap.t A.
Definition nempty {A : Type} : nmap A := PositiveMap.empty A.
Definition nget {A : Type} (k : N) (m : nmap A) : option A := PositiveMap.find (N.succ_pos k) m.
Definition nset {A : Type} (k : N) (v : A) (m : nmap A) : nmap A := PositiveMap.add (N.succ_pos k) v m.

Lemma succ_pos_inj : forall a b : N, N.succ_pos a = N.succ_pos b -> a = b.
Proof.
  intros a b H.
  assert (E : N.pos (N.succ_pos a) = N.pos (N.succ_pos b)) by (rewrite H; reflexivity).
  rewrite !N.succ_pos_spec in E. apply N.succ_inj. exact E.
Qed.

Lemma nget_nempty : forall (A : Type) (k : N), nget k (@nempty A) = None.
Proof. intros. unfold nget, nempty. apply PositiveMap.gempty. Qed.

Lemma nget_nset_same : forall (A : Type) (k : N) (v : A) (m : nmap A), nget k (nset k v m) = Some v.
Proof. intros. unfold nget, nset. apply PositiveMap.gss. Qed.

Lemma nget_nset_other : forall (A : Type) (k k' : N) (v : A) (m : nmap A),
  k <> k' -> nget k (nset k' v m) = nget k m.
Proof.
  intros. unfold nget, nset. apply PositiveMap.gso.
  intro E. apply H. apply succ_pos_inj. exact E.
Qed.

Lemma nget_nset : forall (A : Type) (k k' : N) (v : A) (m : nmap A),
  nget k (nset k' v m) = if N.eqb k k' then Some v else nget k m.
Proof.
  intros. destruct (N.eqb_spec k k') as [->|Hne].
  - apply nget_nset_same.
  - apply nget_nset_other. exact Hne.
Qed.
