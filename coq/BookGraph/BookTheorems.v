(** C19: the theorems in the form cited by Properties_C19.v, non-vacuity examples, and the
    refutation of the global fixed-point statement for the unchanged updateScores. *)
From Coq Require Import ZArith NArith List Bool Lia.
From Texel Require Import gen.BookConsts BookGraph.NMap BookGraph.BookGraph BookGraph.Equations
  BookGraph.ScoreFacts BookGraph.CodecProofs BookGraph.LocalProofs BookGraph.LinkProofs BookGraph.UniqueProofs
  BookGraph.FixProofs BookGraph.GlobalProofs BookGraph.DepthProofs BookGraph.PathProofs BookGraph.FuelProofs BookGraph.ReadProofs.
From Coq Require Import Permutation.
Import ListNotations.
Local Open Scope Z_scope.

Definition costs_nonneg (bd : bdata) : Prop := 0 <= bd_depthCost bd /\ 0 <= bd_ownCost bd /\ 0 <= bd_otherCost bd.

(** stored expansion costs are IGNORE, INVALID, or ordinary values above both *)
Definition costs_wf (g : book) (n : N) : Prop :=
  IGNORE_SCORE <= s_ecw (score_of g n) /\ IGNORE_SCORE <= s_ecb (score_of g n).

(** * local equations *)
Theorem local_equations : forall bd g n,
  costs_nonneg bd -> no_self_child g n ->
  (forall mc, In mc (children g n) -> costs_wf g (snd mc)) ->
  let g' := set_sc g (fst (computeNegaMax bd g (bk_sc g) n)) in
  eq_negamax g' n = true /\ eq_cost bd g' n true = true /\ eq_cost bd g' n false = true /\
  costs_wf g' n /\ (forall q, q <> n -> score_of g' q = score_of g q).
Proof.
  intros bd g n Hk Hs Hwf g'.
  pose proof (computeNegaMax_negamax bd g (bk_sc g) n Hs) as A.
  destruct (computeNegaMax_cost bd g (bk_sc g) n true Hs Hk) as [B1 B2].
  { intros mc H. apply (Hwf mc H). }
  destruct (computeNegaMax_cost bd g (bk_sc g) n false Hs Hk) as [C1 C2].
  { intros mc H. apply (Hwf mc H). }
  split; [exact A|]. split; [exact B1|]. split; [exact C1|]. split; [split; [exact B2|exact C2]|].
  intros q Hq. unfold g', computeNegaMax. cbn [fst]. rewrite score_set_sc. apply scof_set_other. exact Hq.
Qed.

Theorem local_patherror : forall g n,
  no_self_parent g n -> n <> bk_root g -> depth g n <> 0 ->
  (forall mp, In mp (parents g n) ->
     s_pew (score_of g (snd mp)) + Z.abs (s_nm (score_of g (snd mp)) - negateScore (s_nm (score_of g n))) < INT_MAX /\
     s_peb (score_of g (snd mp)) + Z.abs (s_nm (score_of g (snd mp)) - negateScore (s_nm (score_of g n))) < INT_MAX) ->
  let g' := set_sc g (fst (fst (computePathError g (bk_sc g) n))) in
  eq_patherr g' n = true /\ (forall q, q <> n -> score_of g' q = score_of g q).
Proof.
  intros g n Hs Hr Hd Hb g'. split.
  - apply computePathError_local; try assumption.
    intros c Hc. apply in_flat_map in Hc. destruct Hc as [mp [Hmp Hc]].
    destruct (Hb mp Hmp) as [B1 B2]. fold (score_of g (snd mp)) in Hc. fold (score_of g n) in Hc. cbn zeta in Hc.
    destruct ((s_pew (score_of g (snd mp)) =? INVALID_SCORE) || (s_peb (score_of g (snd mp)) =? INVALID_SCORE) ||
              (s_nm (score_of g n) =? INVALID_SCORE) || (s_nm (score_of g (snd mp)) =? INVALID_SCORE)); [destruct Hc|].
    destruct (Z.odd (depth g n)); destruct Hc as [<-|[]]; cbn [fst snd]; lia.
  - intros q Hq. unfold g', computePathError. destruct (depth g n =? 0); cbn [fst]; [reflexivity|].
    destruct (fold_left _ _ _) as [[pw pb] err]. destruct ((pw =? INT_MAX) || (pb =? INT_MAX)); cbn [fst];
      rewrite score_set_sc; apply scof_set_other; exact Hq.
Qed.

(** * links *)
Theorem links_consistent : forall (succ : N -> N -> option N) rq bd root addr ops,
  ops_wf succ rq bd (newBook root addr) ops ->
  let g := run rq bd (newBook root addr) ops in
  (forall n, In n (bk_keys g) -> eq_links g n = true) /\
  (forall p m c, In (m, c) (children g p) <-> In (m, p) (parents g c)) /\
  (forall p m c, In (m, c) (children g p) -> In p (bk_keys g) /\ In c (bk_keys g) /\ succ p m = Some c).
Proof.
  intros succ rq bd root addr ops W g.
  assert (I : Inv succ g) by (apply Inv_run; [apply Inv_newBook|exact W]).
  split; [apply (Inv_eq_links succ g I)|]. split; [apply (Inv_inverse succ g I)|].
  intros p m c H. destruct (inv_child succ g I p m c H) as [A [B [_ D]]]. auto.
Qed.

(** * uniqueness, from the certificate the check validates *)
Theorem equations_unique_checked : forall bd g1 g2 rk,
  same_static g1 g2 -> check_rank g1 rk = true ->
  check_all bd g1 = [] -> check_all bd g2 = [] ->
  forall n, In n (bk_keys g1) -> depth g1 n = depth g2 n /\ score_of g1 n = score_of g2 n.
Proof.
  intros bd g1 g2 rk Hss Hrk C1 C2.
  assert (A : forall g, check_all bd g = [] -> all_equations bd g).
  { intros g C n Hn. unfold check_all in C.
    assert (E : check_node bd g n = []).
    { destruct (check_node bd g n) as [|x t] eqn:E; [reflexivity|]. exfalso.
      assert (In (n, x) (flat_map (fun n0 => map (fun c => (n0, c)) (check_node bd g n0)) (bk_keys g))).
      { apply in_flat_map. exists n. split; [exact Hn|]. rewrite E. left; reflexivity. }
      rewrite C in H. exact H. }
    unfold check_node in E. unfold node_ok.
    destruct (eq_negamax g n); [|discriminate]. destruct (eq_cost bd g n true); [|discriminate].
    destruct (eq_cost bd g n false); [|discriminate]. destruct (eq_patherr g n); [|discriminate].
    destruct (eq_depth g n); [|discriminate]. destruct (eq_links g n); [|discriminate].
    repeat split; reflexivity. }
  apply (equations_unique bd g1 g2 Hss (check_rank_dag g1 rk Hrk) (A g1 C1) (A g2 C2)).
Qed.

Lemma check_all_sound : forall bd g, check_all bd g = [] <-> all_equations bd g.
Proof.
  intros bd g. split.
  - intros C n Hn. unfold check_all in C.
    assert (E : check_node bd g n = []).
    { destruct (check_node bd g n) as [|x t] eqn:E; [reflexivity|]. exfalso.
      assert (In (n, x) (flat_map (fun n0 => map (fun c => (n0, c)) (check_node bd g n0)) (bk_keys g))).
      { apply in_flat_map. exists n. split; [exact Hn|]. rewrite E. left; reflexivity. }
      rewrite C in H. exact H. }
    unfold check_node in E. unfold node_ok.
    destruct (eq_negamax g n); [|discriminate]. destruct (eq_cost bd g n true); [|discriminate].
    destruct (eq_cost bd g n false); [|discriminate]. destruct (eq_patherr g n); [|discriminate].
    destruct (eq_depth g n); [|discriminate]. destruct (eq_links g n); [|discriminate].
    repeat split; reflexivity.
  - intro A. unfold check_all.
    assert (G : forall l, (forall n, In n l -> In n (bk_keys g)) ->
                flat_map (fun n0 => map (fun c => (n0, c)) (check_node bd g n0)) l = []).
    { induction l as [|x t IH]; intro Hs; cbn [flat_map]; [reflexivity|].
      rewrite IH by (intros n H; apply Hs; right; exact H).
      destruct (A x (Hs x (or_introl eq_refl))) as [E1 [E2 [E3 [E4 [E5 E6]]]]].
      unfold check_node. rewrite E1, E2, E3, E4, E5, E6. reflexivity. }
    apply G. auto.
Qed.

(** * the global statement and its refutation for the unchanged code *)

(** for every operation history with chess inputs from one successor function, on an acyclic
    graph and without leaving the modelled fragment, every node satisfies every equation *)
Definition fixpoint_statement (requeue : bool) : Prop :=
  forall (succ : N -> N -> option N) bd root addr ops,
    costs_nonneg bd ->
    ops_wf succ requeue bd (newBook root addr) ops ->
    let g := run requeue bd (newBook root addr) ops in
    bk_err g = 0%N -> dag g -> all_equations bd g.

Definition bd0 : bdata := mkBD DEFAULT_DEPTH_COST DEFAULT_OWN_COST DEFAULT_OTHER_COST.

(** root(1) -e4-> 2 -e5-> 3; search results 17 / -16 / 17; then node 3 is searched again: 10.
    Node 2's negamax score changes (-16 -> -10), the root's does not (17), so node 2 is not put
    into the path-error work set and keeps path error 1; its equation demands 17 - 10 = 7. *)
Definition refute_ops : list op :=
  [OpAdd 2 200 [(10%N, 1%N)] []; OpAdd 3 300 [(20%N, 2%N)] [];
   OpSet 1 0 17 100; OpSet 2 0 (-16) 100; OpSet 3 0 17 10; OpSet 3 0 10 10].
Definition refute_succ (p m : N) : option N :=
  if N.eqb p 1 && N.eqb m 10 then Some 2%N else if N.eqb p 2 && N.eqb m 20 then Some 3%N else None.

Lemma refute_wf : forall rq, ops_wf refute_succ rq bd0 (newBook 1 100) refute_ops.
Proof.
  intro rq. unfold refute_ops.
  cbn [ops_wf]. split.
  { vm_compute. split; [intros [E|[]]; discriminate|]. split; [|intros m c []].
    intros m p [E|[]]. inversion E; subst. split; [left; reflexivity|reflexivity]. }
  split.
  { destruct rq; vm_compute; (split; [intros [E|[E|[]]]; discriminate|]); (split; [|intros m c []]);
      intros m p [E|[]]; inversion E; subst; (split; [left; reflexivity|reflexivity]). }
  split. { destruct rq; vm_compute; tauto. }
  split. { destruct rq; vm_compute; tauto. }
  split. { destruct rq; vm_compute; tauto. }
  split. { destruct rq; vm_compute; tauto. }
  exact I.
Qed.

Theorem fixpoint_refuted : ~ fixpoint_statement false.
Proof.
  intro H. specialize (H refute_succ bd0 1%N 100%N refute_ops).
  assert (K : costs_nonneg bd0) by (vm_compute; repeat split; discriminate).
  specialize (H K (refute_wf false)). cbn zeta in H.
  assert (E : bk_err (run false bd0 (newBook 1 100) refute_ops) = 0%N) by (vm_compute; reflexivity).
  assert (D : dag (run false bd0 (newBook 1 100) refute_ops)).
  { apply (check_rank_dag _ (rank_candidate (run false bd0 (newBook 1 100) refute_ops))). vm_compute. reflexivity. }
  specialize (H E D). apply check_all_sound in H. clear E D. vm_compute in H. discriminate H.
Qed.

(** the proposed fix repairs the witness; what the equation checker reports on the unchanged code *)
Example refute_ops_fixed : check_all bd0 (run true bd0 (newBook 1 100) refute_ops) = [].
Proof. vm_compute. reflexivity. Qed.
Example refute_ops_unchanged :
  check_all bd0 (run false bd0 (newBook 1 100) refute_ops) = [(2%N, F_PATHERR)] /\
  s_pew (score_of (run false bd0 (newBook 1 100) refute_ops) 2) = 1 /\
  s_pew (score_of (run true bd0 (newBook 1 100) refute_ops) 2) = 7.
Proof. vm_compute. repeat split; reflexivity. Qed.

(** * non-vacuity of the main theorems *)

(** a transposition: 1 -10-> 2 -20-> 4 and 1 -11-> 3 -21-> 4, node 4 has two parents *)
Definition demo_succ (p m : N) : option N :=
  if N.eqb p 1 && N.eqb m 10 then Some 2%N else if N.eqb p 1 && N.eqb m 11 then Some 3%N
  else if N.eqb p 2 && N.eqb m 20 then Some 4%N else if N.eqb p 3 && N.eqb m 21 then Some 4%N else None.
Definition demo_ops : list op :=
  [OpAdd 2 200 [(10%N, 1%N)] []; OpAdd 3 150 [(11%N, 1%N)] []; OpAdd 4 400 [(20%N, 2%N); (21%N, 3%N)] [];
   OpSet 1 0 10 100; OpSet 2 20 (-8) 100; OpSet 3 0 (-12) 100; OpSet 4 0 (31990) 100; OpPend 3].
Definition demo_book : book := run true bd0 (newBook 1 100) demo_ops.

Example demo_wf : ops_wf demo_succ true bd0 (newBook 1 100) demo_ops.
Proof.
  unfold demo_ops. cbn [ops_wf].
  split. { vm_compute. split; [intros [E|[]]; discriminate|]. split; [|intros m c []].
           intros m p [E|[]]. inversion E; subst. split; [left; reflexivity|reflexivity]. }
  split. { vm_compute. split; [intros [E|[E|[]]]; discriminate|]. split; [|intros m c []].
           intros m p [E|[]]. inversion E; subst. split; [right; left; reflexivity|reflexivity]. }
  split. { vm_compute. split; [intros [E|[E|[E|[]]]]; discriminate|]. split; [|intros m c []].
           intros m p [E|[E|[]]]; inversion E; subst; (split; [|reflexivity]); tauto. }
  split. { vm_compute; tauto. }
  split. { vm_compute; tauto. }
  split. { vm_compute; tauto. }
  split. { vm_compute; tauto. }
  split. { exact I. }
  exact I.
Qed.

(** links_consistent / equations_unique: hypotheses hold on the transposition example, the
    equations hold there, and node 4 really has two parents and a mate score *)
Example demo_facts :
  check_all bd0 demo_book = [] /\ acyclic_check demo_book = true /\ bk_err demo_book = 0%N /\
  parents demo_book 4 = [(20%N, 2%N); (21%N, 3%N)] /\
  s_nm (score_of demo_book 4) = 31990 /\ s_nm (score_of demo_book 2) = -31989 /\ s_nm (score_of demo_book 1) = 31988.
Proof. vm_compute. repeat split; reflexivity. Qed.

Example demo_same_static : same_static demo_book demo_book.
Proof. constructor; try reflexivity; intros; tauto. Qed.

(** local_equations: node 1 of the example has two children, costs are well formed *)
Example demo_local_hyps :
  costs_nonneg bd0 /\ no_self_child demo_book 1 /\ (forall mc, In mc (children demo_book 1) -> costs_wf demo_book (snd mc)) /\
  length (children demo_book 1) = 2%nat /\ no_self_parent demo_book 4 /\ 4%N <> bk_root demo_book /\ depth demo_book 4 = 2.
Proof.
  split; [vm_compute; repeat split; discriminate|].
  split; [intros mc H; vm_compute in H; destruct H as [<-|[<-|[]]]; discriminate|].
  split; [intros mc H; vm_compute in H; destruct H as [<-|[<-|[]]]; vm_compute; split; discriminate|].
  split; [vm_compute; reflexivity|].
  split; [intros mp H; vm_compute in H; destruct H as [<-|[<-|[]]]; discriminate|].
  split; [vm_compute; discriminate|vm_compute; reflexivity].
Qed.

(** serialize_roundtrip on a concrete record, with the byte values *)
Example demo_record :
  record_of 12345678 796 (-20) 10000 = [78; 97; 188; 0; 0; 0; 0; 0; 28; 3; 236; 255; 16; 39; 0; 0]%N /\
  deserialize_fields SERIALIZE_FIELDS (record_of 12345678 796 (-20) 10000) = [12345678; 796; -20; 10000].
Proof. vm_compute. split; reflexivity. Qed.

(** fixpoint_partial: the transposition example is a history the theorem covers (rank = hash,
    white to move at nodes 1 and 4) *)
Definition demo_rk (n : N) : Z := Z.of_N n.
Definition demo_wtm (n : N) : bool := N.eqb n 1 || N.eqb n 4.

Lemma demo_succ_cases : forall p m c, demo_succ p m = Some c ->
  (p = 1 /\ c = 2)%N \/ (p = 1 /\ c = 3)%N \/ (p = 2 /\ c = 4)%N \/ (p = 3 /\ c = 4)%N.
Proof.
  intros p m c H. unfold demo_succ in H.
  destruct (N.eqb p 1 && N.eqb m 10) eqn:E1.
  { apply andb_prop in E1. destruct E1 as [A _]. apply N.eqb_eq in A. inversion H. tauto. }
  destruct (N.eqb p 1 && N.eqb m 11) eqn:E2.
  { apply andb_prop in E2. destruct E2 as [A _]. apply N.eqb_eq in A. inversion H. tauto. }
  destruct (N.eqb p 2 && N.eqb m 20) eqn:E3.
  { apply andb_prop in E3. destruct E3 as [A _]. apply N.eqb_eq in A. inversion H. tauto. }
  destruct (N.eqb p 3 && N.eqb m 21) eqn:E4.
  { apply andb_prop in E4. destruct E4 as [A _]. apply N.eqb_eq in A. inversion H. tauto. }
  discriminate.
Qed.

Example demo_oracle :
  (forall p m c, demo_succ p m = Some c -> demo_rk p < demo_rk c) /\
  (forall p m c, demo_succ p m = Some c -> demo_wtm c = negb (demo_wtm p)) /\ demo_wtm 1 = true.
Proof.
  split; [|split; [|reflexivity]]; intros p m c H; apply demo_succ_cases in H;
    destruct H as [[-> ->]|[[-> ->]|[[-> ->]|[-> ->]]]]; unfold demo_rk; try reflexivity; lia.
Qed.

Example demo_ops_ok : ops_ok demo_succ true bd0 (newBook 1 100) demo_ops.
Proof.
  pose proof demo_wf as W. unfold demo_ops in *. cbn [ops_wf ops_ok] in *.
  destruct W as [W1 [W2 [W3 [W4 [W5 [W6 [W7 [W8 _]]]]]]]].
  split. { split; [exact W1|]. split; [discriminate|vm_compute; reflexivity]. }
  split. { split; [exact W2|]. split; [discriminate|vm_compute; reflexivity]. }
  split. { split; [exact W3|]. split; [discriminate|vm_compute; reflexivity]. }
  split. { split; [exact W4|exact I]. }
  split. { split; [exact W5|exact I]. }
  split. { split; [exact W6|exact I]. }
  split. { split; [exact W7|exact I]. }
  split. { split; [exact W8|]. vm_compute. tauto. }
  exact I.
Qed.

(** C19_fixpoint / C19_reload_reproduces: a history with a transposition, a mate score and a reload
    satisfies every hypothesis ([steps_ok]); the file is what serializeBook writes *)
Lemma succ_of_map_of_list : forall (l : list (N * list (N * N))) n,
  succ_of (map_of_list l) n = fold_left (fun acc kv => if N.eqb n (fst kv) then snd kv else acc) l [].
Proof.
  intros l n. unfold map_of_list, succ_of.
  assert (G : forall l m0, links_of (fold_left (fun m kv => nset (fst kv) (snd kv) m) l m0) n =
                           fold_left (fun acc (kv : N * list (N * N)) => if N.eqb n (fst kv) then snd kv else acc) l (links_of m0 n)).
  { induction l0 as [|kv t IH]; intro m0; cbn [fold_left]; [reflexivity|]. rewrite IH. f_equal.
    unfold links_of. rewrite nget_nset. destruct (N.eqb n (fst kv)); reflexivity. }
  rewrite G. unfold links_of. rewrite nget_nempty. reflexivity.
Qed.

Lemma demo_succ_cases_m : forall p m c, demo_succ p m = Some c ->
  (p = 1 /\ m = 10 /\ c = 2)%N \/ (p = 1 /\ m = 11 /\ c = 3)%N \/ (p = 2 /\ m = 20 /\ c = 4)%N \/ (p = 3 /\ m = 21 /\ c = 4)%N.
Proof.
  intros p m c H. unfold demo_succ in H.
  destruct (N.eqb p 1 && N.eqb m 10) eqn:E1.
  { apply andb_prop in E1. destruct E1 as [A B]. apply N.eqb_eq in A, B. inversion H. tauto. }
  destruct (N.eqb p 1 && N.eqb m 11) eqn:E2.
  { apply andb_prop in E2. destruct E2 as [A B]. apply N.eqb_eq in A, B. inversion H. tauto. }
  destruct (N.eqb p 2 && N.eqb m 20) eqn:E3.
  { apply andb_prop in E3. destruct E3 as [A B]. apply N.eqb_eq in A, B. inversion H. tauto. }
  destruct (N.eqb p 3 && N.eqb m 21) eqn:E4.
  { apply andb_prop in E4. destruct E4 as [A B]. apply N.eqb_eq in A, B. inversion H. tauto. }
  discriminate.
Qed.

Definition do1 : op := OpAdd 2 200 [(10%N, 1%N)] [].
Definition do2 : op := OpAdd 3 150 [(11%N, 1%N)] [].
Definition do3 : op := OpAdd 4 400 [(20%N, 2%N); (21%N, 3%N)] [].
Definition do4 : op := OpSet 1 0 10 100.
Definition do5 : op := OpSet 2 20 (-8) 100.
Definition do6 : op := OpSet 3 0 (-12) 100.
Definition do7 : op := OpSet 4 0 31990 100.
Notation dg0 := (newBook 1 100).
Notation dg1 := (apply_op true bd0 dg0 do1).
Notation dg2 := (apply_op true bd0 dg1 do2).
Notation dg3 := (apply_op true bd0 dg2 do3).
Notation dg4 := (apply_op true bd0 dg3 do4).
Notation dg5 := (apply_op true bd0 dg4 do5).
Notation dg6 := (apply_op true bd0 dg5 do6).
Notation demo_G := (apply_op true bd0 dg6 do7).
Definition demo_sl : list (N * list (N * N)) :=
  [(1%N, [(10%N, 2%N); (11%N, 3%N)]); (2%N, [(20%N, 4%N)]); (3%N, [(21%N, 4%N)]); (4%N, [])].
Notation demo_read := (OpRead (serializeBook demo_G) [(1%N, 7%N); (2%N, 5%N); (3%N, 9%N); (4%N, 3%N)] demo_sl).

Example demo_read_ok : read_ok demo_succ demo_G (serializeBook demo_G) demo_sl.
Proof.
  split; [exists (bk_keys demo_G); split; [apply Permutation_refl|reflexivity]|].
  split; [|split; [|vm_compute; reflexivity]].
  - intros n m c H. rewrite succ_of_map_of_list in H. cbn [demo_sl fold_left fst snd] in H.
    destruct (N.eqb_spec n 4) as [->|_]; [destruct H|].
    destruct (N.eqb_spec n 3) as [->|_]; [destruct H as [E|[]]; inversion E; reflexivity|].
    destruct (N.eqb_spec n 2) as [->|_]; [destruct H as [E|[]]; inversion E; reflexivity|].
    destruct (N.eqb_spec n 1) as [->|_]; [destruct H as [E|[E|[]]]; inversion E; reflexivity|destruct H].
  - intros n m c _ _ H. rewrite succ_of_map_of_list. apply demo_succ_cases_m in H.
    destruct H as [[-> [-> ->]]|[[-> [-> ->]]|[[-> [-> ->]]|[-> [-> ->]]]]]; vm_compute; tauto.
Qed.

Ltac notin_keys := let K := fresh "K" in intro K; vm_compute in K; repeat (destruct K as [K|K]; [discriminate K|]); exact K.

Ltac succ_cases H :=
  let E1 := fresh "E" in let E2 := fresh "E" in let E3 := fresh "E" in
  apply demo_succ_cases_m in H; destruct H as [[E1 [E2 E3]]|[[E1 [E2 E3]]|[[E1 [E2 E3]]|[E1 [E2 E3]]]]];
  try discriminate E1; try discriminate E3; subst.
Ltac fin_goal K := first [solve [vm_compute; tauto] | exfalso; revert K; notin_keys].

Ltac add_ok :=
  split; [split; [split; [notin_keys|split; [|intros m c []]]|split; [discriminate|vm_compute; reflexivity]]|];
  [ let m := fresh "m" in let p := fresh "p" in let H := fresh "H" in
    intros m p H; vm_compute in H; repeat (destruct H as [H|H]; [inversion H; subst; split; [vm_compute; tauto|reflexivity]|]); destruct H
  | split; [vm_compute; reflexivity|]; split;
    [ let K := fresh "K" in let H := fresh "H" in intros p m K H; succ_cases H; fin_goal K
    | let K := fresh "K" in let H := fresh "H" in intros m c K H; succ_cases H; fin_goal K ] ].

Ltac set_ok := split; [split; [vm_compute; tauto|exact I]|split; vm_compute; reflexivity].

Example da1 : op_ok2 demo_succ dg0 do1. Proof. add_ok. Qed.
Example da2 : op_ok2 demo_succ dg1 do2. Proof. add_ok. Qed.
Example da3 : op_ok2 demo_succ dg2 do3. Proof. add_ok. Qed.
Example da4 : op_ok2 demo_succ dg3 do4. Proof. set_ok. Qed.
Example da5 : op_ok2 demo_succ dg4 do5. Proof. set_ok. Qed.
Example da6 : op_ok2 demo_succ dg5 do6. Proof. set_ok. Qed.
Example da7 : op_ok2 demo_succ dg6 do7. Proof. set_ok. Qed.
Example de1 : (bk_err (apply_op true bd0 dg0 do1) < ERR_ASSERT)%N. Proof. vm_compute. reflexivity. Qed.
Example de2 : (bk_err (apply_op true bd0 dg1 do2) < ERR_ASSERT)%N. Proof. vm_compute. reflexivity. Qed.
Example de3 : (bk_err (apply_op true bd0 dg2 do3) < ERR_ASSERT)%N. Proof. vm_compute. reflexivity. Qed.
Example de4 : (bk_err (apply_op true bd0 dg3 do4) < ERR_ASSERT)%N. Proof. vm_compute. reflexivity. Qed.
Example de5 : (bk_err (apply_op true bd0 dg4 do5) < ERR_ASSERT)%N. Proof. vm_compute. reflexivity. Qed.
Example de6 : (bk_err (apply_op true bd0 dg5 do6) < ERR_ASSERT)%N. Proof. vm_compute. reflexivity. Qed.
Example de7 : (bk_err (apply_op true bd0 dg6 do7) < ERR_ASSERT)%N. Proof. vm_compute. reflexivity. Qed.
Example de8 : (bk_err (apply_op true bd0 demo_G demo_read) < ERR_ASSERT)%N. Proof. vm_compute. reflexivity. Qed.

Lemma steps_ok_cons : forall succ bd g o t, op_ok2 succ g o -> (bk_err (apply_op true bd g o) < ERR_ASSERT)%N ->
  steps_ok succ bd (apply_op true bd g o) t -> steps_ok succ bd g (o :: t).
Proof. intros. cbn [steps_ok]. auto. Qed.

Lemma op_ok2_read : forall succ g recs addrs sl, read_ok succ g recs sl -> op_ok2 succ g (OpRead recs addrs sl).
Proof. intros succ g recs addrs sl H. exact H. Qed.

Example ds8a : op_ok2 demo_succ demo_G demo_read.
Proof. apply op_ok2_read. exact demo_read_ok. Qed.
Example ds8b : steps_ok demo_succ bd0 (apply_op true bd0 demo_G demo_read) [].
Proof. exact I. Qed.
Example ds8 : steps_ok demo_succ bd0 demo_G [demo_read].
Proof. exact (steps_ok_cons demo_succ bd0 demo_G demo_read [] ds8a de8 ds8b). Qed.
Example ds7 : steps_ok demo_succ bd0 dg6 [do7; demo_read].
Proof. exact (steps_ok_cons demo_succ bd0 dg6 do7 [demo_read] da7 de7 ds8). Qed.
Example ds6 : steps_ok demo_succ bd0 dg5 [do6; do7; demo_read].
Proof. exact (steps_ok_cons demo_succ bd0 dg5 do6 [do7; demo_read] da6 de6 ds7). Qed.
Example ds5 : steps_ok demo_succ bd0 dg4 [do5; do6; do7; demo_read].
Proof. exact (steps_ok_cons demo_succ bd0 dg4 do5 [do6; do7; demo_read] da5 de5 ds6). Qed.
Example ds4 : steps_ok demo_succ bd0 dg3 [do4; do5; do6; do7; demo_read].
Proof. exact (steps_ok_cons demo_succ bd0 dg3 do4 [do5; do6; do7; demo_read] da4 de4 ds5). Qed.
Example ds3 : steps_ok demo_succ bd0 dg2 [do3; do4; do5; do6; do7; demo_read].
Proof. exact (steps_ok_cons demo_succ bd0 dg2 do3 [do4; do5; do6; do7; demo_read] da3 de3 ds4). Qed.
Example ds2 : steps_ok demo_succ bd0 dg1 [do2; do3; do4; do5; do6; do7; demo_read].
Proof. exact (steps_ok_cons demo_succ bd0 dg1 do2 [do3; do4; do5; do6; do7; demo_read] da2 de2 ds3). Qed.
(** the hypotheses of C19_fixpoint / C19_reload_reproduces hold for this history *)
Example demo_steps_ok : steps_ok demo_succ bd0 (newBook 1 100) [do1; do2; do3; do4; do5; do6; do7; demo_read].
Proof. exact (steps_ok_cons demo_succ bd0 dg0 do1 [do2; do3; do4; do5; do6; do7; demo_read] da1 de1 ds2). Qed.

(** what the theorems predict is what happens: the reloaded example has the saved values *)
Example demo_reload_values :
  bk_pending demo_G = [] /\
  check_all bd0 (apply_op true bd0 demo_G demo_read) = [] /\
  map (fun n => (depth (apply_op true bd0 demo_G demo_read) n, score_of (apply_op true bd0 demo_G demo_read) n)) [1; 2; 3; 4]%N =
  map (fun n => (depth demo_G n, score_of demo_G n)) [1; 2; 3; 4]%N.
Proof. vm_compute. repeat split; reflexivity. Qed.
