(** Executable model of the book-builder graph of lib/texelutillib/bookbuild.{hpp,cpp}
    (classes BookData, BookNode and the graph surgery of Book).  No proofs in this file.

    Shape of the model
    - nodes are keyed by their 64-bit book hash ([N]); the per-node data of the C++ [BookNode]
      is split over several maps of the [book] record so that the functions that only touch
      scores ([updateScores]) or only depths ([updateDepth]) visibly leave the links alone;
    - [children] of a node: list of (compressed move, child hash) sorted by move
      (std::map<U16,BookNode*>, [insert] never overwrites);
    - [parents] of a node: list of (compressed move, parent hash) sorted by (move, address of the
      parent object) -- std::set<ParentInfo> compares the BookNode pointers, so the address of a
      node is an input of the model (given by the harness when the node is created);
    - ints are [Z] without overflow (the harness runs with asserts on; values stay far below 2^31);
      [bk_err] records the ways a run leaves the modelled fragment: 1 = fuel exhausted,
      2 = an [assert] of the C++ code would fail, 3 = a path error would reach INT_MAX;
    - the chess part (which moves connect which positions) is an input of the operations: the
      harness computes it with the real move generator.

    [requeue] selects between the code as it is ([false]) and the code with the proposed fix
    hooks/fix-c19-patherr-requeue.patch ([true]): in [updateScores] a node whose negamax score or
    expansion cost changed is itself put into the work set of the path-error pass (the unchanged
    code only queues its children).  The check uses the variant the compiled tree exhibits. *)
From Coq Require Import ZArith NArith List Bool.
From Texel Require Import gen.BookConsts BookGraph.NMap.
Import ListNotations.
Local Open Scope Z_scope.

(** * Data *)

Definition ST_EMPTY : N := 0%N.
Definition ST_DESERIALIZED : N := 1%N.
Definition ST_INITIALIZED : N := 2%N.

Record ninfo := mkInfo {
  ni_addr : N;      (* address of the C++ object (only its order matters) *)
  ni_move : N;      (* bestNonBookMove, compressed (U16); 0 = empty move *)
  ni_score : Z;     (* searchScore (S16) *)
  ni_time : N;      (* searchTime (U32) *)
  ni_state : N      (* BookNode::State *)
}.

Record scores := mkScores {
  s_nm : Z;         (* negaMaxScore *)
  s_ecw : Z;        (* expansionCostWhite *)
  s_ecb : Z;        (* expansionCostBlack *)
  s_pew : Z;        (* pathErrorWhite *)
  s_peb : Z         (* pathErrorBlack *)
}.

Record bdata := mkBD { bd_depthCost : Z; bd_ownCost : Z; bd_otherCost : Z }.

Record book := mkBook {
  bk_root : N;                          (* startPosHash *)
  bk_keys : list N;                     (* all node hashes, newest first *)
  bk_info : nmap ninfo;
  bk_children : nmap (list (N * N));
  bk_parents : nmap (list (N * N));
  bk_depth : nmap Z;
  bk_sc : nmap scores;
  bk_pending : list N;                  (* BookData::pendingPositions *)
  bk_err : N
}.

Definition ERR_FUEL : N := 1%N.
Definition ERR_ASSERT : N := 2%N.
Definition ERR_OVERFLOW : N := 3%N.

Definition default_info : ninfo := mkInfo 0 0 INVALID_SCORE 0 ST_EMPTY.
Definition default_scores : scores := mkScores INVALID_SCORE INVALID_SCORE INVALID_SCORE INVALID_SCORE INVALID_SCORE.
Definition root_scores : scores := mkScores INVALID_SCORE INVALID_SCORE INVALID_SCORE 0 0.

Definition info_of (im : nmap ninfo) (n : N) : ninfo := match nget n im with Some i => i | None => default_info end.
Definition links_of (lm : nmap (list (N * N))) (n : N) : list (N * N) := match nget n lm with Some l => l | None => [] end.
Definition depth_of (dm : nmap Z) (n : N) : Z := match nget n dm with Some d => d | None => INT_MAX end.
Definition scof (sc : nmap scores) (n : N) : scores := match nget n sc with Some s => s | None => default_scores end.

Definition info (g : book) (n : N) : ninfo := info_of (bk_info g) n.
Definition children (g : book) (n : N) : list (N * N) := links_of (bk_children g) n.
Definition parents (g : book) (n : N) : list (N * N) := links_of (bk_parents g) n.
Definition depth (g : book) (n : N) : Z := depth_of (bk_depth g) n.
Definition score_of (g : book) (n : N) : scores := scof (bk_sc g) n.
Definition has_node (g : book) (n : N) : bool := match nget n (bk_info g) with Some _ => true | None => false end.
Definition mem (x : N) (l : list N) : bool := existsb (N.eqb x) l.
Definition is_pending (g : book) (n : N) : bool := mem n (bk_pending g).

Definition set_err (g : book) (e : N) : book :=
  mkBook (bk_root g) (bk_keys g) (bk_info g) (bk_children g) (bk_parents g) (bk_depth g) (bk_sc g)
         (bk_pending g) (N.max (bk_err g) e).
Definition set_sc (g : book) (sc : nmap scores) : book :=
  mkBook (bk_root g) (bk_keys g) (bk_info g) (bk_children g) (bk_parents g) (bk_depth g) sc
         (bk_pending g) (bk_err g).
Definition set_depths (g : book) (dm : nmap Z) : book :=
  mkBook (bk_root g) (bk_keys g) (bk_info g) (bk_children g) (bk_parents g) dm (bk_sc g)
         (bk_pending g) (bk_err g).
Definition set_info (g : book) (n : N) (i : ninfo) : book :=
  mkBook (bk_root g) (bk_keys g) (nset n i (bk_info g)) (bk_children g) (bk_parents g) (bk_depth g) (bk_sc g)
         (bk_pending g) (bk_err g).
Definition set_pending (g : book) (p : list N) : book :=
  mkBook (bk_root g) (bk_keys g) (bk_info g) (bk_children g) (bk_parents g) (bk_depth g) (bk_sc g)
         p (bk_err g).
Definition set_children (g : book) (n : N) (l : list (N * N)) : book :=
  mkBook (bk_root g) (bk_keys g) (bk_info g) (nset n l (bk_children g)) (bk_parents g) (bk_depth g) (bk_sc g)
         (bk_pending g) (bk_err g).
Definition set_parents (g : book) (n : N) (l : list (N * N)) : book :=
  mkBook (bk_root g) (bk_keys g) (bk_info g) (bk_children g) (nset n l (bk_parents g)) (bk_depth g) (bk_sc g)
         (bk_pending g) (bk_err g).

(** * Association lists for the link sets *)

Fixpoint assoc (m : N) (l : list (N * N)) : option N :=
  match l with
  | [] => None
  | (m', c) :: t => if N.eqb m m' then Some c else assoc m t
  end.

(** std::map::insert(make_pair(move, child)): keeps an existing entry for the move *)
Fixpoint ins_child (m c : N) (l : list (N * N)) : list (N * N) :=
  match l with
  | [] => [(m, c)]
  | (m', c') :: t =>
      if N.ltb m m' then (m, c) :: l
      else if N.eqb m m' then l
      else (m', c') :: ins_child m c t
  end.

(** std::set<ParentInfo>::insert: order (move, pointer); equal = same move and same node *)
Fixpoint ins_parent (im : nmap ninfo) (m p : N) (l : list (N * N)) : list (N * N) :=
  match l with
  | [] => [(m, p)]
  | (m', p') :: t =>
      if N.eqb m m' && N.eqb p p' then l
      else if N.ltb m m' || (N.eqb m m' && N.ltb (ni_addr (info_of im p)) (ni_addr (info_of im p')))
      then (m, p) :: l
      else (m', p') :: ins_parent im m p t
  end.

(** * Depth (BookNode::updateDepth) *)

Definition odd_diff (a b : Z) : bool := Z.odd (a - b).

(** one iteration of the loop over the parents in updateDepth; [rec] = parent->updateDepth() *)
Definition depthStep (rec : nmap Z * N -> N -> nmap Z * N) (n : N) (acc : nmap Z * N * bool) (mp : N * N) : nmap Z * N * bool :=
  let '(dm, err, upd) := acc in
  let p := snd mp in
  let '(dm1, err1) := if depth_of dm p =? INT_MAX then rec (dm, err) p else (dm, err) in
  let dp := depth_of dm1 p in
  let dn := depth_of dm1 n in
  (* assert(parent->depth >= 0); assert(parent->depth < INT_MAX);
     if (depth != INT_MAX) assert((depth - parent->depth) % 2 != 0); *)
  let bad := (dp <? 0) || (INT_MAX <=? dp) || (negb (dn =? INT_MAX) && negb (odd_diff dn dp)) in
  let err2 := if bad then N.max err1 ERR_ASSERT else err1 in
  if dn >? dp + 1 then (nset n (dp + 1) dm1, err2, true) else (dm1, err2, upd).

Fixpoint updateDepth (fuel : nat) (chm parm : nmap (list (N * N))) (st : nmap Z * N) (n : N) : nmap Z * N :=
  match fuel with
  | O => (fst st, N.max (snd st) ERR_FUEL)
  | S f =>
      let '(dm2, err2, upd) := fold_left (depthStep (updateDepth f chm parm) n) (links_of parm n) (fst st, snd st, false) in
      if upd then fold_left (fun s mc => updateDepth f chm parm s (snd mc)) (links_of chm n) (dm2, err2)
      else (dm2, err2)
  end.

Definition fuel_of (g : book) : nat := S (S (length (bk_keys g))).

(** * Negamax score and expansion costs (BookNode::computeNegaMax, getExpansionCost) *)

Definition cost_of (white : bool) (s : scores) : Z := if white then s_ecw s else s_ecb s.
Definition kfac (bd : bdata) (wtm white : bool) : Z := if Bool.eqb wtm white then bd_ownCost bd else bd_otherCost bd.

(** getExpansionCost(bookData, child, white) for a non-null child *)
Definition expCostChild (bd : bdata) (nm : Z) (wtm white : bool) (child_nm child_cost : Z) : Z :=
  let moveError := if nm =? INVALID_SCORE then INVALID_MOVE_ERROR else nm - negateScore child_nm in
  if negb (child_cost =? IGNORE_SCORE) && negb (child_cost =? INVALID_SCORE)
  then child_cost + (bd_depthCost bd + moveError * kfac bd wtm white)
  else child_cost.

(** getExpansionCost(bookData, nullptr, white) *)
Definition expCostSelf (bd : bdata) (nm score : Z) (moveIsChild wtm white : bool) : Z :=
  if moveIsChild then OBSOLETE_COST else (nm - score) * kfac bd wtm white.

Definition newNegaMax (sc : nmap scores) (score : Z) (bestMove : N) (chs : list (N * N)) : Z :=
  let nm0 := match assoc bestMove chs with
             | Some c => if negb (s_nm (scof sc c) =? INVALID_SCORE) then IGNORE_SCORE else score
             | None => score
             end in
  if negb (nm0 =? INVALID_SCORE)
  then fold_left (fun a mc => Z.max a (negateScore (s_nm (scof sc (snd mc))))) chs nm0
  else nm0.

Definition newExpCost (bd : bdata) (sc : nmap scores) (pending : bool) (score nm : Z) (moveIsChild wtm : bool)
                      (chs : list (N * N)) (white : bool) : Z :=
  let e0 := if pending then IGNORE_SCORE
            else if score =? INVALID_SCORE then INVALID_SCORE
            else if negb (score =? IGNORE_SCORE) then expCostSelf bd nm score moveIsChild wtm white
            else IGNORE_SCORE in
  let e1 := fold_left (fun e mc => if cost_of white (scof sc (snd mc)) =? INVALID_SCORE then INVALID_SCORE else e) chs e0 in
  fold_left (fun e mc =>
               let cs := scof sc (snd mc) in
               if negb (e =? INVALID_SCORE) && negb (cost_of white cs =? IGNORE_SCORE)
               then let c := expCostChild bd nm wtm white (s_nm cs) (cost_of white cs) in
                    if (e =? IGNORE_SCORE) || (e >? c) then c else e
               else e) chs e1.

Definition moveIsChild (g : book) (n : N) : bool :=
  match assoc (ni_move (info g n)) (children g n) with Some _ => true | None => false end.

(** returns the new score map and "any of negamax / expansion costs changed" *)
Definition computeNegaMax (bd : bdata) (g : book) (sc : nmap scores) (n : N) : nmap scores * bool :=
  let i := info g n in
  let old := scof sc n in
  let chs := children g n in
  let nm := newNegaMax sc (ni_score i) (ni_move i) chs in
  let wtm := Z.even (depth g n) in
  let ecw := newExpCost bd sc (is_pending g n) (ni_score i) nm (moveIsChild g n) wtm chs true in
  let ecb := newExpCost bd sc (is_pending g n) (ni_score i) nm (moveIsChild g n) wtm chs false in
  (nset n (mkScores nm ecw ecb (s_pew old) (s_peb old)) sc,
   negb (nm =? s_nm old) || negb (ecw =? s_ecw old) || negb (ecb =? s_ecb old)).

(** * Path errors (BookNode::computePathError) *)

Definition peStep (sc : nmap scores) (me : scores) (oddDepth : bool) (acc : Z * Z * N) (mp : N * N) : Z * Z * N :=
  let '(pw, pb, err) := acc in
  let ps := scof sc (snd mp) in
  if (s_pew ps =? INVALID_SCORE) || (s_peb ps =? INVALID_SCORE) then acc
  else if (s_nm me =? INVALID_SCORE) || (s_nm ps =? INVALID_SCORE) then acc
  else
    let delta := s_nm ps - negateScore (s_nm me) in
    let err' := if delta <? 0 then N.max err ERR_ASSERT else err in
    let ew := if oddDepth then s_pew ps + delta else s_pew ps in
    let eb := if oddDepth then s_peb ps else s_peb ps + delta in
    (* the C++ ints would overflow / collide with the INT_MAX sentinel *)
    let err'' := if (INT_MAX <=? ew) || (INT_MAX <=? eb) then N.max err' ERR_OVERFLOW else err' in
    (Z.min pw ew, Z.min pb eb, err'').

(** returns the new score map, "white or black path error changed", error code *)
Definition computePathError (g : book) (sc : nmap scores) (n : N) : nmap scores * bool * N :=
  let me := scof sc n in
  if depth g n =? 0
  then (sc, false, if (s_pew me =? 0) && (s_peb me =? 0) then 0%N else ERR_ASSERT)
  else
    let '(pw, pb, err) := fold_left (peStep sc me (Z.odd (depth g n))) (parents g n) (INT_MAX, INT_MAX, 0%N) in
    let '(pw', pb') := if (pw =? INT_MAX) || (pb =? INT_MAX) then (INVALID_SCORE, INVALID_SCORE) else (pw, pb) in
    (nset n (mkScores (s_nm me) (s_ecw me) (s_ecb me) pw' pb') sc,
     negb (pw' =? s_pew me) || negb (pb' =? s_peb me), err).

(** * BookNode::updateScores *)

(** state of one updateScores call: score map, work set of the path-error pass (std::set ordered by
    (depth, address); kept as membership map + list, sorted at the end), error code *)
Record ust := mkUst { u_sc : nmap scores; u_set : nmap unit; u_list : list N; u_err : N }.

Definition upd_insert (st : ust) (x : N) : ust :=
  match nget x (u_set st) with
  | Some _ => st
  | None => mkUst (u_sc st) (nset x tt (u_set st)) (x :: u_list st) (u_err st)
  end.

Definition ust_err (st : ust) (e : N) : ust := mkUst (u_sc st) (u_set st) (u_list st) (N.max (u_err st) e).

(** computeNegaMax on [n] inside updateNegaMax, including the insertions into toUpdate *)
Definition negaMaxStep (requeue : bool) (bd : bdata) (g : book) (st : ust) (n : N) : ust * bool :=
  let '(sc', changed) := computeNegaMax bd g (u_sc st) n in
  let st1 := mkUst sc' (u_set st) (u_list st) (u_err st) in
  if changed
  then (fold_left (fun s mc => upd_insert s (snd mc)) (children g n) (if requeue then upd_insert st1 n else st1), true)
  else (st1, false).

(** updateNegaMax(node, false, true, false) *)
Fixpoint updDown (fuel : nat) (requeue : bool) (bd : bdata) (g : book) (st : ust) (n : N) : ust :=
  match fuel with
  | O => ust_err st ERR_FUEL
  | S f =>
      if negb (s_nm (scof (u_sc st) n) =? INVALID_SCORE) then st
      else
        let st1 := fold_left (fun s mc => updDown f requeue bd g s (snd mc)) (children g n) st in
        fst (negaMaxStep requeue bd g st1 n)
  end.

(** updateNegaMax(node, true, false, true) *)
Fixpoint updUp (fuel : nat) (requeue : bool) (bd : bdata) (g : book) (start : N) (st : ust) (n : N) : ust :=
  match fuel with
  | O => ust_err st ERR_FUEL
  | S f =>
      let '(st1, changed) := negaMaxStep requeue bd g st n in
      if changed || N.eqb n start
      then fold_left (fun s mp => updUp f requeue bd g start s (snd mp)) (parents g n) st1
      else st1
  end.

(** updateNegaMax(this, true, true, true) *)
Definition updTop (fuel : nat) (requeue : bool) (bd : bdata) (g : book) (st : ust) (n : N) : ust :=
  let st1 := fold_left (fun s mc => updDown fuel requeue bd g s (snd mc)) (children g n) st in
  let '(st2, _) := negaMaxStep requeue bd g st1 n in
  fold_left (fun s mp => updUp fuel requeue bd g n s (snd mp)) (parents g n) st2.

Fixpoint updPathErrors (fuel : nat) (g : book) (st : nmap scores * N) (n : N) : nmap scores * N :=
  match fuel with
  | O => (fst st, N.max (snd st) ERR_FUEL)
  | S f =>
      let '(sc', modified, e) := computePathError g (fst st) n in
      let st1 := (sc', N.max (snd st) e) in
      if modified then fold_left (fun s mc => updPathErrors f g s (snd mc)) (children g n) st1 else st1
  end.

(** order of the std::set<BookNode*,Compare> in updateScores *)
Definition upd_le (g : book) (a b : N) : bool :=
  (depth g a <? depth g b) ||
  ((depth g a =? depth g b) && N.leb (ni_addr (info g a)) (ni_addr (info g b))).

Fixpoint insert_sorted (g : book) (x : N) (l : list N) : list N :=
  match l with
  | [] => [x]
  | y :: t => if upd_le g x y then x :: l else y :: insert_sorted g x t
  end.

Definition sort_upd (g : book) (l : list N) : list N := fold_left (fun acc x => insert_sorted g x acc) l [].

Definition updateScores (requeue : bool) (bd : bdata) (g : book) (n : N) : book :=
  let fuel := fuel_of g in
  let st0 := upd_insert (mkUst (bk_sc g) nempty [] 0%N) n in
  let st1 := updTop fuel requeue bd g st0 n in
  let '(sc2, err2) := fold_left (updPathErrors fuel g) (sort_upd g (u_list st1)) (u_sc st1, u_err st1) in
  set_err (set_sc g sc2) err2.

(** * Links (BookNode::addChild / addParent) *)

Definition link (g : book) (p m c : N) : book :=
  let g1 := set_children g p (ins_child m c (children g p)) in
  let g2 := set_parents g1 c (ins_parent (bk_info g1) m p (parents g1 c)) in
  let '(dm, err) := updateDepth (fuel_of g2) (bk_children g2) (bk_parents g2) (bk_depth g2, 0%N) c in
  set_err (set_depths g2 dm) err.

(** Book::setChildRefs restricted to the successors that are book nodes *)
Definition setChildRefs (g : book) (n : N) (succ : list (N * N)) : book :=
  fold_left (fun g mc => if has_node g (snd mc) then link g n (fst mc) (snd mc) else g) succ g.

(** * Book operations *)

Definition add_key (k : N) (l : list N) : list N := if mem k l then l else k :: l.

Definition new_node (g : book) (h addr : N) (i : ninfo) (d : Z) (s : scores) : book :=
  mkBook (bk_root g) (add_key h (bk_keys g)) (nset h i (bk_info g)) (nset h [] (bk_children g))
         (nset h [] (bk_parents g)) (nset h d (bk_depth g)) (nset h s (bk_sc g)) (bk_pending g) (bk_err g).

Definition empty_book (root : N) : book := mkBook root [] nempty nempty nempty nempty nempty [] 0%N.

Definition set_state (g : book) (n st : N) : book :=
  let i := info g n in set_info g n (mkInfo (ni_addr i) (ni_move i) (ni_score i) (ni_time i) st).

(** Book::addRootNode on a book without root; [succ] = legal successors of the start position *)
Definition addRootNode (g : book) (addr : N) (succ : list (N * N)) : book :=
  if has_node g (bk_root g) then g
  else
    let g1 := new_node g (bk_root g) addr (mkInfo addr 0 INVALID_SCORE 0 ST_INITIALIZED) 0 root_scores in
    setChildRefs g1 (bk_root g) succ.

(** Book::Book *)
Definition newBook (root addr : N) : book := addRootNode (empty_book root) addr [].

(** Book::addPosToBook: [plinks] = (move, parent) for every book parent of the new position,
    [clinks] = (move, child) for every legal move of the new position leading to a book node,
    in move-generator order *)
Definition opAdd (requeue : bool) (bd : bdata) (g : book) (h addr : N) (plinks clinks : list (N * N)) : book :=
  let g1 := new_node g h addr (mkInfo addr 0 INVALID_SCORE 0 ST_EMPTY) INT_MAX default_scores in
  let g2 := fold_left (fun g mp => link g (snd mp) (fst mp) h) plinks g1 in
  let g3 := setChildRefs g2 h clinks in
  let g4 := updateScores requeue bd g3 h in
  set_state g4 h ST_INITIALIZED.

Definition wrap16 (z : Z) : Z := let r := z mod 65536 in if r <? 32768 then r else r - 65536.

(** BookNode::setSearchResult *)
Definition opSet (requeue : bool) (bd : bdata) (g : book) (h move : N) (score : Z) (time : N) : book :=
  let i := info g h in
  let g1 := set_info g h (mkInfo (ni_addr i) move (wrap16 score) time (ni_state i)) in
  updateScores requeue bd g1 h.

(** Book::addPending / removePending *)
Definition opPend (requeue : bool) (bd : bdata) (g : book) (h : N) : book :=
  updateScores requeue bd (set_pending g (add_key h (bk_pending g))) h.
Definition opUnpend (requeue : bool) (bd : bdata) (g : book) (h : N) : book :=
  updateScores requeue bd (set_pending g (filter (fun x => negb (N.eqb x h)) (bk_pending g))) h.

(** * The 16-byte node record (Serializer::serialize / deSerialize, little endian memcpy) *)

Fixpoint le_bytes (n : nat) (v : N) : list N :=
  match n with O => [] | S k => (v mod 256)%N :: le_bytes k (v / 256)%N end.
Fixpoint le_value (l : list N) : N :=
  match l with [] => 0%N | b :: t => (b + 256 * le_value t)%N end.

Definition field_bits (size : nat) : Z := 8 * Z.of_nat size.
Definition enc_field (f : nat * bool) (v : Z) : list N := le_bytes (fst f) (Z.to_N (v mod 2 ^ field_bits (fst f))).
Definition dec_field (f : nat * bool) (bytes : list N) : Z :=
  let u := Z.of_N (le_value bytes) in
  if snd f && (2 ^ (field_bits (fst f) - 1) <=? u) then u - 2 ^ field_bits (fst f) else u.

Fixpoint serialize_fields (layout : list (nat * bool)) (vals : list Z) : list N :=
  match layout, vals with
  | f :: lt, v :: vt => enc_field f v ++ serialize_fields lt vt
  | _, _ => []
  end.
Fixpoint deserialize_fields (layout : list (nat * bool)) (bytes : list N) : list Z :=
  match layout with
  | [] => []
  | f :: lt => dec_field f (firstn (fst f) bytes) :: deserialize_fields lt (skipn (fst f) bytes)
  end.

Definition pad (n : nat) (l : list N) : list N := l ++ repeat 0%N (n - length l).

(** BookNode::serialize: hashKey, compressed move, searchScore, searchTime *)
Definition record_of (h mv : N) (score : Z) (time : N) : list N :=
  pad SERIALIZED_SIZE (serialize_fields SERIALIZE_FIELDS [Z.of_N h; Z.of_N mv; score; Z.of_N time]).
Definition node_record (g : book) (n : N) : list N :=
  let i := info g n in record_of n (ni_move i) (ni_score i) (ni_time i).

(** Book::writeToFile as a set of records (the order of the unordered_map is not specified) *)
Definition serializeBook (g : book) : list (list N) := map (node_record g) (bk_keys g).

(** * Book::readFromFile *)

Definition lookup_addr (addrs : nmap N) (h : N) : N := match nget h addrs with Some a => a | None => 0%N end.

Definition read_record (addrs : nmap N) (g : book) (rec : list N) : book :=
  match deserialize_fields SERIALIZE_FIELDS rec with
  | [h; mv; score; time] =>
      let h := Z.to_N h in
      let isRoot := N.eqb h (bk_root g) in
      new_node g h (lookup_addr addrs h)
               (mkInfo (lookup_addr addrs h) (Z.to_N mv) score (Z.to_N time) ST_DESERIALIZED)
               (if isRoot then 0 else INT_MAX) (if isRoot then root_scores else default_scores)
  | _ => set_err g ERR_ASSERT
  end.

Definition succ_of (succ : nmap (list (N * N))) (n : N) : list (N * N) := links_of succ n.

(** Book::initPositions; [succ n] = (move, successor hash) of the legal moves of position [n] *)
Fixpoint initPositions (fuel : nat) (succ : nmap (list (N * N))) (g : book) (n : N) : book :=
  match fuel with
  | O => set_err g ERR_FUEL
  | S f =>
      if negb (has_node g n) then g
      else
        let g1 := setChildRefs g n (succ_of succ n) in
        let g2 := fold_left (fun g mc => if N.eqb (ni_state (info g (snd mc))) ST_DESERIALIZED
                                         then initPositions f succ g (snd mc) else g)
                            (children g1 n) g1 in
        set_state g2 n ST_INITIALIZED
  end.

Definition map_of_list {A : Type} (l : list (N * A)) : nmap A := fold_left (fun m kv => nset (fst kv) (snd kv) m) l nempty.

Definition opRead (requeue : bool) (bd : bdata) (g : book) (recs : list (list N)) (addrs : list (N * N))
                  (succ : list (N * list (N * N))) : book :=
  let am := map_of_list addrs in
  let sm := map_of_list succ in
  let g1 := fold_left (read_record am) recs (empty_book (bk_root g)) in
  let g2 := initPositions (S (S (length (bk_keys g1)))) sm g1 (bk_root g) in
  let g3 := addRootNode g2 (lookup_addr am (bk_root g)) (succ_of sm (bk_root g)) in
  updateScores requeue bd g3 (bk_root g).

(** * Operation histories *)

Inductive op :=
| OpAdd (h addr : N) (plinks clinks : list (N * N))
| OpSet (h move : N) (score : Z) (time : N)
| OpPend (h : N)
| OpUnpend (h : N)
| OpRead (recs : list (list N)) (addrs : list (N * N)) (succ : list (N * list (N * N))).

Definition apply_op (requeue : bool) (bd : bdata) (g : book) (o : op) : book :=
  match o with
  | OpAdd h addr pl cl => opAdd requeue bd g h addr pl cl
  | OpSet h mv s t => opSet requeue bd g h mv s t
  | OpPend h => opPend requeue bd g h
  | OpUnpend h => opUnpend requeue bd g h
  | OpRead recs addrs succ => opRead requeue bd g recs addrs succ
  end.

Definition run (requeue : bool) (bd : bdata) (g : book) (ops : list op) : book :=
  fold_left (apply_op requeue bd) ops g.
