(** On a finite acyclic graph the defining equations have at most one solution: two states with
    the same nodes, links, search results and pending set that both satisfy every equation have
    the same depth, negamax score, expansion costs and path errors at every node.
    (So the derived data of a book is a function of what is saved in the file; together with the
    codec round trip this is the "save + reload reproduces the scores" part of the property.) *)
From Coq Require Import ZArith NArith List Bool Lia.
From Texel Require Import gen.BookConsts BookGraph.NMap BookGraph.BookGraph BookGraph.Equations
  BookGraph.LocalProofs BookGraph.LinkProofs.
Import ListNotations.
Local Open Scope Z_scope.

Lemma is_max_unique : forall v1 v2 l, is_max v1 l = true -> is_max v2 l = true -> v1 = v2.
Proof.
  intros v1 v2 l H1 H2. apply is_max_elim in H1. apply is_max_elim in H2.
  destruct H1 as [A1 B1]. destruct H2 as [A2 B2]. specialize (A1 _ B2). specialize (A2 _ B1). lia.
Qed.
Lemma is_min_unique : forall v1 v2 l, is_min v1 l = true -> is_min v2 l = true -> v1 = v2.
Proof.
  intros v1 v2 l H1 H2. apply is_min_elim in H1. apply is_min_elim in H2.
  destruct H1 as [A1 B1]. destruct H2 as [A2 B2]. specialize (A1 _ B2). specialize (A2 _ B1). lia.
Qed.

Lemma is_min_unique_equiv : forall v1 v2 l1 l2, (forall x, In x l1 <-> In x l2) ->
  is_min v1 l1 = true -> is_min v2 l2 = true -> v1 = v2.
Proof.
  intros v1 v2 l1 l2 E H1 H2. apply is_min_elim in H1. apply is_min_elim in H2.
  destruct H1 as [A1 B1]. destruct H2 as [A2 B2].
  specialize (A1 v2 (proj2 (E v2) B2)). specialize (A2 v1 (proj1 (E v1) B1)). lia.
Qed.

Lemma equiv_nil : forall (A : Type) (l1 l2 : list A), (forall x, In x l1 <-> In x l2) -> l1 = [] -> l2 = [].
Proof. intros A l1 l2 E ->. destruct l2 as [|y t]; [reflexivity|]. exfalso. apply (proj2 (E y)). left; reflexivity. Qed.

(** * each equation determines its value from the values it reads *)

Lemma eq_negamax_det : forall g1 g2 n,
  ni_move (info g1 n) = ni_move (info g2 n) -> ni_score (info g1 n) = ni_score (info g2 n) ->
  children g1 n = children g2 n ->
  (forall mc, In mc (children g1 n) -> s_nm (score_of g1 (snd mc)) = s_nm (score_of g2 (snd mc))) ->
  eq_negamax g1 n = true -> eq_negamax g2 n = true ->
  s_nm (score_of g1 n) = s_nm (score_of g2 n).
Proof.
  intros g1 g2 n Hm Hs Hc Hnm E1 E2.
  assert (Own : own_score g1 n = own_score g2 n).
  { unfold own_score. rewrite <- Hm, <- Hs, <- Hc.
    destruct (assoc (ni_move (info g1 n)) (children g1 n)) as [c|] eqn:A; [|reflexivity].
    apply assoc_in in A. specialize (Hnm _ A). cbn [snd] in Hnm. rewrite Hnm. reflexivity. }
  assert (Cand : nm_candidates g1 n = nm_candidates g2 n).
  { unfold nm_candidates. rewrite Own, <- Hc. f_equal. apply map_ext_in. intros mc H. rewrite Hnm by exact H. reflexivity. }
  unfold eq_negamax in E1, E2. rewrite <- Own, <- Cand in E2.
  destruct (own_score g1 n =? INVALID_SCORE).
  - apply Z.eqb_eq in E1. apply Z.eqb_eq in E2. congruence.
  - eapply is_max_unique; eauto.
Qed.

Lemma eq_cost_det : forall bd g1 g2 n w,
  ni_move (info g1 n) = ni_move (info g2 n) -> ni_score (info g1 n) = ni_score (info g2 n) ->
  children g1 n = children g2 n -> mem n (bk_pending g1) = mem n (bk_pending g2) ->
  depth g1 n = depth g2 n -> s_nm (score_of g1 n) = s_nm (score_of g2 n) ->
  (forall mc, In mc (children g1 n) -> s_nm (score_of g1 (snd mc)) = s_nm (score_of g2 (snd mc)) /\
                                       node_cost g1 (snd mc) w = node_cost g2 (snd mc) w) ->
  eq_cost bd g1 n w = true -> eq_cost bd g2 n w = true ->
  node_cost g1 n w = node_cost g2 n w.
Proof.
  intros bd g1 g2 n w Hm Hs Hc Hp Hd Hn Hch E1 E2.
  assert (EW : err_weight bd g1 n w = err_weight bd g2 n w) by (unfold err_weight, white_to_move; rewrite Hd; reflexivity).
  assert (Own : own_choice bd g1 n w = own_choice bd g2 n w).
  { unfold own_choice. rewrite <- Hs, <- Hp, <- Hn, <- EW.
    replace (best_move_is_child g2 n) with (best_move_is_child g1 n)
      by (unfold best_move_is_child; rewrite Hc, Hm; reflexivity).
    reflexivity. }
  assert (Ch : choices bd g1 n w = choices bd g2 n w).
  { unfold choices. rewrite Own, <- Hc. f_equal. apply map_ext_in. intros mc H.
    destruct (Hch mc H) as [A B]. unfold child_choice. rewrite <- B, <- Hn, <- A, <- EW. reflexivity. }
  unfold eq_cost in E1, E2. rewrite <- Ch in E2.
  destruct (existsb is_invalid (choices bd g1 n w)).
  - apply Z.eqb_eq in E1. apply Z.eqb_eq in E2. congruence.
  - destruct (costs_of (choices bd g1 n w)).
    + apply Z.eqb_eq in E1. apply Z.eqb_eq in E2. congruence.
    + eapply is_min_unique; eauto.
Qed.

Lemma eq_patherr_det : forall g1 g2 n,
  bk_root g1 = bk_root g2 -> (forall x, In x (parents g1 n) <-> In x (parents g2 n)) -> depth g1 n = depth g2 n ->
  s_nm (score_of g1 n) = s_nm (score_of g2 n) ->
  (forall mp, In mp (parents g1 n) ->
     s_nm (score_of g1 (snd mp)) = s_nm (score_of g2 (snd mp)) /\
     s_pew (score_of g1 (snd mp)) = s_pew (score_of g2 (snd mp)) /\
     s_peb (score_of g1 (snd mp)) = s_peb (score_of g2 (snd mp))) ->
  eq_patherr g1 n = true -> eq_patherr g2 n = true ->
  s_pew (score_of g1 n) = s_pew (score_of g2 n) /\ s_peb (score_of g1 n) = s_peb (score_of g2 n).
Proof.
  intros g1 g2 n Hr Hp Hd Hn Hpar E1 E2.
  assert (Cand : forall c, In c (pe_candidates g1 n) <-> In c (pe_candidates g2 n)).
  { intro c. unfold pe_candidates. rewrite !in_flat_map. split; intros [mp [Hin Hc]].
    - exists mp. split; [apply Hp; exact Hin|]. destruct (Hpar mp Hin) as [A [B C]].
      cbn zeta in *. rewrite <- A, <- B, <- C, <- Hn, <- Hd. exact Hc.
    - apply Hp in Hin. exists mp. split; [exact Hin|]. destruct (Hpar mp Hin) as [A [B C]].
      cbn zeta in *. rewrite A, B, C, Hn, Hd. exact Hc. }
  unfold eq_patherr in E1, E2. rewrite <- Hr in E2.
  destruct (N.eqb n (bk_root g1)).
  - apply andb_prop in E1. apply andb_prop in E2. destruct E1 as [A1 B1]. destruct E2 as [A2 B2].
    apply Z.eqb_eq in A1, B1, A2, B2. split; congruence.
  - destruct (pe_candidates g1 n) as [|c1 t1] eqn:P1.
    + rewrite (equiv_nil _ _ _ Cand eq_refl) in E2.
      apply andb_prop in E1. apply andb_prop in E2. destruct E1 as [A1 B1]. destruct E2 as [A2 B2].
      apply Z.eqb_eq in A1, B1, A2, B2. split; congruence.
    + destruct (pe_candidates g2 n) as [|c2 t2] eqn:P2.
      { exfalso. apply (proj1 (Cand c1)). left; reflexivity. }
      apply andb_prop in E1. apply andb_prop in E2. destruct E1 as [A1 B1]. destruct E2 as [A2 B2].
      split.
      * eapply (is_min_unique_equiv _ _ (map fst (c1 :: t1)) (map fst (c2 :: t2))); eauto.
        intro x. rewrite !in_map_iff. split; intros [c [Ec Hc]]; exists c; (split; [exact Ec|apply Cand; exact Hc]).
      * eapply (is_min_unique_equiv _ _ (map snd (c1 :: t1)) (map snd (c2 :: t2))); eauto.
        intro x. rewrite !in_map_iff. split; intros [c [Ec Hc]]; exists c; (split; [exact Ec|apply Cand; exact Hc]).
Qed.

Lemma eq_depth_det : forall g1 g2 n,
  bk_root g1 = bk_root g2 -> (forall x, In x (parents g1 n) <-> In x (parents g2 n)) ->
  (forall mp, In mp (parents g1 n) -> depth g1 (snd mp) = depth g2 (snd mp)) ->
  eq_depth g1 n = true -> eq_depth g2 n = true -> depth g1 n = depth g2 n.
Proof.
  intros g1 g2 n Hr Hp Hd E1 E2. unfold eq_depth in E1, E2. rewrite <- Hr in E2.
  destruct (N.eqb n (bk_root g1)).
  - apply Z.eqb_eq in E1. apply Z.eqb_eq in E2. congruence.
  - destruct (parents g1 n) as [|mp0 t] eqn:P.
    + rewrite (equiv_nil _ _ _ Hp eq_refl) in E2. apply Z.eqb_eq in E1. apply Z.eqb_eq in E2. congruence.
    + destruct (parents g2 n) as [|mq0 t2] eqn:P2.
      { exfalso. apply (proj1 (Hp mp0)). left; reflexivity. }
      eapply (is_min_unique_equiv _ _ (map (fun mp : N * N => depth g1 (snd mp) + 1) (mp0 :: t))
                                      (map (fun mp : N * N => depth g2 (snd mp) + 1) (mq0 :: t2))); eauto.
      intro x. rewrite !in_map_iff. split; intros [mp [Em Hm]]; exists mp.
      * split; [rewrite <- (Hd mp Hm); exact Em|apply Hp; exact Hm].
      * apply Hp in Hm. split; [rewrite (Hd mp Hm); exact Em|exact Hm].
Qed.

(** * what the link equations give *)

Lemma eq_links_child : forall g n m c, eq_links g n = true -> In (m, c) (children g n) -> In c (bk_keys g).
Proof.
  intros g n m c E H. unfold eq_links in E. apply andb_prop in E. destruct E as [E _].
  rewrite forallb_forall in E. specialize (E _ H). apply andb_prop in E. destruct E as [E _].
  apply mem_in in E. exact E.
Qed.

Lemma eq_links_parent : forall g n m p, eq_links g n = true -> In (m, p) (parents g n) ->
  In p (bk_keys g) /\ In (m, n) (children g p).
Proof.
  intros g n m p E H. unfold eq_links in E. apply andb_prop in E. destruct E as [_ E].
  rewrite forallb_forall in E. specialize (E _ H). apply andb_prop in E. destruct E as [E1 E2].
  apply mem_in in E1. split; [exact E1|]. cbn [fst snd] in E2. unfold has_child_link in E2.
  destruct (assoc m (children g p)) as [c'|] eqn:A; [|discriminate].
  apply N.eqb_eq in E2. subst c'. apply assoc_in. exact A.
Qed.

(** * acyclicity *)

Definition dag (g : book) : Prop :=
  exists rk : N -> Z, forall p, In p (bk_keys g) -> 0 <= rk p /\ forall m c, In (m, c) (children g p) -> rk p < rk c.

Lemma check_rank_dag : forall g rk, check_rank g rk = true -> dag g.
Proof.
  intros g rk H. exists (rank_of rk). intros p Hp. unfold check_rank in H. rewrite forallb_forall in H.
  specialize (H p Hp). apply andb_prop in H. destruct H as [H1 H2]. split; [apply Z.leb_le; exact H1|].
  intros m c Hc. rewrite forallb_forall in H2. specialize (H2 _ Hc). apply Z.ltb_lt. exact H2.
Qed.

Lemma rank_bound : forall (rk : N -> Z) (l : list N), exists B, forall n, In n l -> rk n <= B.
Proof.
  intros rk l. induction l as [|x t [B IH]].
  - exists 0. intros n [].
  - exists (Z.max B (rk x)). intros n [<-|H]; [lia|]. specialize (IH n H). lia.
Qed.

(** * uniqueness *)

(** same nodes, links, search results and pending set (object addresses, node states, the order
    of the node list and of equal-move parent entries may differ, as after a reload) *)
Record same_static (g1 g2 : book) : Prop := mkSame {
  ss_root : bk_root g1 = bk_root g2;
  ss_keys : forall n, In n (bk_keys g1) <-> In n (bk_keys g2);
  ss_move : forall n, ni_move (info g1 n) = ni_move (info g2 n);
  ss_score : forall n, ni_score (info g1 n) = ni_score (info g2 n);
  ss_children : forall n, children g1 n = children g2 n;
  ss_parents : forall n x, In x (parents g1 n) <-> In x (parents g2 n);
  ss_pending : forall n, mem n (bk_pending g1) = mem n (bk_pending g2)
}.

Section Unique.
  Variables (bd : bdata) (g1 g2 : book).
  Hypothesis Hss : same_static g1 g2.
  Hypothesis Hdag : dag g1.
  Hypothesis H1 : all_equations bd g1.
  Hypothesis H2 : all_equations bd g2.

  Lemma keys2 : forall n, In n (bk_keys g1) -> In n (bk_keys g2).
  Proof. intros n H. apply (ss_keys _ _ Hss). exact H. Qed.

  Lemma depth_unique : forall n, In n (bk_keys g1) -> depth g1 n = depth g2 n.
  Proof.
    destruct Hdag as [rk Hrk].
    assert (G : forall k n, In n (bk_keys g1) -> rk n < Z.of_nat k -> depth g1 n = depth g2 n).
    { induction k as [|k IH]; intros n Hn Hk.
      - destruct (Hrk n Hn) as [R _]. lia.
      - destruct (H1 n Hn) as [_ [_ [_ [_ [D1 L1]]]]]. destruct (H2 n (keys2 n Hn)) as [_ [_ [_ [_ [D2 _]]]]].
        apply eq_depth_det; [apply Hss|apply Hss| |exact D1|exact D2].
        intros [m p] Hp. cbn [snd]. destruct (eq_links_parent g1 n m p L1 Hp) as [Kp Cp].
        apply IH; [exact Kp|]. destruct (Hrk p Kp) as [_ R]. specialize (R m n Cp). lia. }
    intros n Hn. apply (G (S (Z.to_nat (rk n))) n Hn). destruct (Hrk n Hn) as [R _]. lia.
  Qed.

  Lemma negamax_cost_unique : forall n, In n (bk_keys g1) ->
    s_nm (score_of g1 n) = s_nm (score_of g2 n) /\
    s_ecw (score_of g1 n) = s_ecw (score_of g2 n) /\ s_ecb (score_of g1 n) = s_ecb (score_of g2 n).
  Proof.
    destruct Hdag as [rk Hrk]. destruct (rank_bound rk (bk_keys g1)) as [B HB].
    assert (G : forall k n, In n (bk_keys g1) -> B - rk n < Z.of_nat k ->
              s_nm (score_of g1 n) = s_nm (score_of g2 n) /\
              s_ecw (score_of g1 n) = s_ecw (score_of g2 n) /\ s_ecb (score_of g1 n) = s_ecb (score_of g2 n)).
    { induction k as [|k IH]; intros n Hn Hk.
      - specialize (HB n Hn). lia.
      - destruct (H1 n Hn) as [N1 [CW1 [CB1 [_ [_ L1]]]]]. destruct (H2 n (keys2 n Hn)) as [N2 [CW2 [CB2 _]]].
        assert (Ch : forall mc, In mc (children g1 n) ->
                  s_nm (score_of g1 (snd mc)) = s_nm (score_of g2 (snd mc)) /\
                  s_ecw (score_of g1 (snd mc)) = s_ecw (score_of g2 (snd mc)) /\
                  s_ecb (score_of g1 (snd mc)) = s_ecb (score_of g2 (snd mc))).
        { intros [m c] Hc. cbn [snd]. apply IH; [eapply eq_links_child; eauto|].
          destruct (Hrk n Hn) as [_ R]. specialize (R m c Hc). lia. }
        assert (NM : s_nm (score_of g1 n) = s_nm (score_of g2 n)).
        { apply eq_negamax_det; [apply Hss|apply Hss|apply Hss| |exact N1|exact N2]. intros mc Hc. apply (Ch mc Hc). }
        split; [exact NM|]. split.
        + apply (eq_cost_det bd g1 g2 n true); [apply Hss|apply Hss|apply Hss|apply Hss|apply depth_unique; exact Hn|exact NM| |exact CW1|exact CW2].
          intros mc Hc. destruct (Ch mc Hc) as [A [Bw Bb]]. split; [exact A|exact Bw].
        + apply (eq_cost_det bd g1 g2 n false); [apply Hss|apply Hss|apply Hss|apply Hss|apply depth_unique; exact Hn|exact NM| |exact CB1|exact CB2].
          intros mc Hc. destruct (Ch mc Hc) as [A [Bw Bb]]. split; [exact A|exact Bb]. }
    intros n Hn. apply (G (S (Z.to_nat (B - rk n))) n Hn). specialize (HB n Hn). lia.
  Qed.

  Lemma patherr_unique : forall n, In n (bk_keys g1) ->
    s_pew (score_of g1 n) = s_pew (score_of g2 n) /\ s_peb (score_of g1 n) = s_peb (score_of g2 n).
  Proof.
    destruct Hdag as [rk Hrk].
    assert (G : forall k n, In n (bk_keys g1) -> rk n < Z.of_nat k ->
              s_pew (score_of g1 n) = s_pew (score_of g2 n) /\ s_peb (score_of g1 n) = s_peb (score_of g2 n)).
    { induction k as [|k IH]; intros n Hn Hk.
      - destruct (Hrk n Hn) as [R _]. lia.
      - destruct (H1 n Hn) as [_ [_ [_ [P1 [_ L1]]]]]. destruct (H2 n (keys2 n Hn)) as [_ [_ [_ [P2 _]]]].
        apply eq_patherr_det; [apply Hss|apply Hss|apply depth_unique; exact Hn|apply negamax_cost_unique; exact Hn| |exact P1|exact P2].
        intros [m p] Hp. cbn [snd]. destruct (eq_links_parent g1 n m p L1 Hp) as [Kp Cp].
        split; [apply negamax_cost_unique; exact Kp|].
        apply IH; [exact Kp|]. destruct (Hrk p Kp) as [_ R]. specialize (R m n Cp). lia. }
    intros n Hn. apply (G (S (Z.to_nat (rk n))) n Hn). destruct (Hrk n Hn) as [R _]. lia.
  Qed.

  Theorem equations_unique : forall n, In n (bk_keys g1) ->
    depth g1 n = depth g2 n /\ score_of g1 n = score_of g2 n.
  Proof.
    intros n Hn. split; [apply depth_unique; exact Hn|].
    destruct (negamax_cost_unique n Hn) as [A [B C]]. destruct (patherr_unique n Hn) as [D E].
    destruct (score_of g1 n), (score_of g2 n). cbn in *. congruence.
  Qed.
End Unique.
