(** The propagation-order argument for negamax scores and expansion costs:
    if every node except the start node and its parents satisfies its negamax / expansion-cost
    equations, then after [updateScores start] EVERY node satisfies them (on an acyclic successor
    relation, when the fuel did not run out).  Holds for both variants of updateScores: the
    re-queueing only concerns the path-error pass. *)
From Coq Require Import ZArith NArith List Bool Lia.
From Texel Require Import gen.BookConsts BookGraph.NMap BookGraph.BookGraph BookGraph.Equations
  BookGraph.ScoreFacts BookGraph.LocalProofs BookGraph.LinkProofs BookGraph.UniqueProofs.
Import ListNotations.
Local Open Scope Z_scope.

Definition nmec (s : scores) : Z * Z * Z := (s_nm s, s_ecw s, s_ecb s).

(** * the negamax / cost equations read only the node and its children *)

Lemma eq_negamax_ext : forall g1 g2 n,
  ni_move (info g1 n) = ni_move (info g2 n) -> ni_score (info g1 n) = ni_score (info g2 n) ->
  children g1 n = children g2 n ->
  s_nm (score_of g1 n) = s_nm (score_of g2 n) ->
  (forall mc, In mc (children g1 n) -> s_nm (score_of g1 (snd mc)) = s_nm (score_of g2 (snd mc))) ->
  eq_negamax g1 n = eq_negamax g2 n.
Proof.
  intros g1 g2 n Hm Hs Hc Hn Hnm.
  assert (Own : own_score g1 n = own_score g2 n).
  { unfold own_score. rewrite <- Hm, <- Hs, <- Hc.
    destruct (assoc (ni_move (info g1 n)) (children g1 n)) as [c|] eqn:A; [|reflexivity].
    apply assoc_in in A. specialize (Hnm _ A). cbn [snd] in Hnm. rewrite Hnm. reflexivity. }
  assert (Cand : nm_candidates g1 n = nm_candidates g2 n).
  { unfold nm_candidates. rewrite Own, <- Hc. f_equal. apply map_ext_in. intros mc H. rewrite Hnm by exact H. reflexivity. }
  unfold eq_negamax. rewrite Own, Cand, Hn. reflexivity.
Qed.

Lemma eq_cost_ext : forall bd g1 g2 n w,
  ni_move (info g1 n) = ni_move (info g2 n) -> ni_score (info g1 n) = ni_score (info g2 n) ->
  children g1 n = children g2 n ->
  mem n (bk_pending g1) = mem n (bk_pending g2) ->
  Z.even (depth g1 n) = Z.even (depth g2 n) -> s_nm (score_of g1 n) = s_nm (score_of g2 n) ->
  node_cost g1 n w = node_cost g2 n w ->
  (forall mc, In mc (children g1 n) -> s_nm (score_of g1 (snd mc)) = s_nm (score_of g2 (snd mc)) /\
                                       node_cost g1 (snd mc) w = node_cost g2 (snd mc) w) ->
  eq_cost bd g1 n w = eq_cost bd g2 n w.
Proof.
  intros bd g1 g2 n w Hm Hs Hc Hp Hd Hn Hv Hch.
  assert (EW : err_weight bd g1 n w = err_weight bd g2 n w) by (unfold err_weight, white_to_move; rewrite Hd; reflexivity).
  assert (Own : own_choice bd g1 n w = own_choice bd g2 n w).
  { unfold own_choice. rewrite <- Hs, <- Hp, <- Hn, <- EW.
    replace (best_move_is_child g2 n) with (best_move_is_child g1 n)
      by (unfold best_move_is_child; rewrite Hc, Hm; reflexivity).
    reflexivity. }
  assert (Ch : choices bd g1 n w = choices bd g2 n w).
  { unfold choices. rewrite Own, <- Hc. f_equal. apply map_ext_in. intros mc H.
    destruct (Hch mc H) as [A B]. unfold child_choice. rewrite <- B, <- Hn, <- A, <- EW. reflexivity. }
  unfold eq_cost. rewrite Ch, Hv. reflexivity.
Qed.

(** the three equations of one node, for a score map over a fixed graph *)
Definition good (bd : bdata) (g : book) (sc : nmap scores) (n : N) : Prop :=
  eq_negamax (set_sc g sc) n = true /\ eq_cost bd (set_sc g sc) n true = true /\ eq_cost bd (set_sc g sc) n false = true.

Lemma nmec_inj : forall a b, nmec a = nmec b -> s_nm a = s_nm b /\ s_ecw a = s_ecw b /\ s_ecb a = s_ecb b.
Proof. intros a b H. unfold nmec in H. inversion H. auto. Qed.

Lemma node_cost_set_sc : forall g sc n w, node_cost (set_sc g sc) n w = cost_of w (scof sc n).
Proof. intros. unfold node_cost, cost_of. rewrite score_set_sc. destruct w; reflexivity. Qed.

Lemma good_ext : forall bd g sc sc' n,
  nmec (scof sc n) = nmec (scof sc' n) ->
  (forall mc, In mc (children g n) -> nmec (scof sc (snd mc)) = nmec (scof sc' (snd mc))) ->
  good bd g sc n -> good bd g sc' n.
Proof.
  intros bd g sc sc' n Hn Hc [G1 [G2 G3]].
  destruct (nmec_inj _ _ Hn) as [N1 [N2 N3]].
  assert (E1 : eq_negamax (set_sc g sc) n = eq_negamax (set_sc g sc') n).
  { apply eq_negamax_ext; try reflexivity.
    - rewrite !score_set_sc. exact N1.
    - intros mc H. rewrite !score_set_sc. apply (nmec_inj _ _ (Hc mc H)). }
  assert (E2 : forall w, eq_cost bd (set_sc g sc) n w = eq_cost bd (set_sc g sc') n w).
  { intro w. apply eq_cost_ext; try reflexivity.
    - rewrite !score_set_sc. exact N1.
    - rewrite !node_cost_set_sc. unfold cost_of. destruct w; assumption.
    - intros mc H. rewrite !score_set_sc, !node_cost_set_sc. destruct (nmec_inj _ _ (Hc mc H)) as [A [B C]].
      split; [exact A|]. unfold cost_of. destruct w; assumption. }
  unfold good. rewrite <- E1, <- !E2. auto.
Qed.

(** * facts about one computeNegaMax *)

Definition wfc (sc : nmap scores) : Prop :=
  forall x, IGNORE_SCORE <= s_ecw (scof sc x) /\ IGNORE_SCORE <= s_ecb (scof sc x).

Lemma compute_other : forall bd g sc n q, q <> n -> scof (fst (computeNegaMax bd g sc n)) q = scof sc q.
Proof. intros. unfold computeNegaMax. cbn [fst]. apply scof_set_other. assumption. Qed.

Lemma compute_flag : forall bd g sc n, snd (computeNegaMax bd g sc n) = false ->
  nmec (scof (fst (computeNegaMax bd g sc n)) n) = nmec (scof sc n).
Proof.
  intros bd g sc n H. unfold computeNegaMax in *. cbn [fst snd] in *. rewrite scof_set_same.
  apply orb_false_elim in H. destruct H as [H H3]. apply orb_false_elim in H. destruct H as [H1 H2].
  apply negb_false_iff in H1, H2, H3. apply Z.eqb_eq in H1, H2, H3.
  unfold nmec. cbn [s_nm s_ecw s_ecb]. congruence.
Qed.

Section Propagation.
  Variable succ : N -> N -> option N.
  Variable rk : N -> Z.
  Hypothesis Hrk : forall p m c, succ p m = Some c -> rk p < rk c.
  Variables (rq : bool) (bd : bdata) (g : book).
  Hypothesis Hk : 0 <= bd_depthCost bd /\ 0 <= bd_ownCost bd /\ 0 <= bd_otherCost bd.
  Hypothesis HI : Inv succ g.

  Lemma child_rank : forall n mc, In mc (children g n) -> rk n < rk (snd mc).
  Proof.
    intros n [m c] H. cbn [snd]. destruct (inv_child succ g HI n m c H) as [_ [_ [_ S]]].
    eapply Hrk; eauto.
  Qed.

  Lemma child_key : forall n mc, In mc (children g n) -> In (snd mc) (bk_keys g).
  Proof. intros n [m c] H. cbn [snd]. apply (inv_child succ g HI n m c H). Qed.

  Lemma no_self : forall n, no_self_child g n.
  Proof. intros n mc H E. pose proof (child_rank n mc H) as R. rewrite E in R. lia. Qed.

  Lemma compute_good : forall sc n, wfc sc ->
    good bd g (fst (computeNegaMax bd g sc n)) n /\ wfc (fst (computeNegaMax bd g sc n)).
  Proof.
    intros sc n W.
    pose proof (computeNegaMax_negamax bd g sc n (no_self n)) as A.
    destruct (computeNegaMax_cost bd g sc n true (no_self n) Hk) as [B1 B2].
    { intros mc H. apply (W (snd mc)). }
    destruct (computeNegaMax_cost bd g sc n false (no_self n) Hk) as [C1 C2].
    { intros mc H. apply (W (snd mc)). }
    split; [split; [exact A|split; [exact B1|exact C1]]|].
    intro x. destruct (N.eq_dec x n) as [->|Hne].
    - rewrite node_cost_set_sc in B2, C2. exact (conj B2 C2).
    - rewrite compute_other by exact Hne. apply W.
  Qed.

  (** recomputing a node that already satisfies its equations changes nothing *)
  Lemma compute_noop : forall sc n, wfc sc -> good bd g sc n ->
    nmec (scof (fst (computeNegaMax bd g sc n)) n) = nmec (scof sc n).
  Proof.
    intros sc n W [G1 [G2 G3]].
    destruct (compute_good sc n W) as [[A [B C]] _].
    set (sc' := fst (computeNegaMax bd g sc n)) in *.
    assert (Hch : forall mc, In mc (children g n) -> scof sc' (snd mc) = scof sc (snd mc)).
    { intros mc H. apply compute_other. apply (no_self n mc H). }
    assert (NM : s_nm (scof sc' n) = s_nm (scof sc n)).
    { pose proof (eq_negamax_det (set_sc g sc') (set_sc g sc) n eq_refl eq_refl eq_refl) as D.
      rewrite !score_set_sc in D. apply D; [|exact A|exact G1].
      intros mc H. rewrite !score_set_sc, Hch by exact H. reflexivity. }
    assert (CO : forall w, cost_of w (scof sc' n) = cost_of w (scof sc n)).
    { intro w. pose proof (eq_cost_det bd (set_sc g sc') (set_sc g sc) n w eq_refl eq_refl eq_refl eq_refl eq_refl) as D.
      rewrite !node_cost_set_sc, !score_set_sc in D. apply D; [exact NM| |destruct w; assumption|destruct w; assumption].
      intros mc H. rewrite !score_set_sc, !node_cost_set_sc, Hch by exact H. split; reflexivity. }
    unfold nmec. rewrite NM. pose proof (CO true) as E1. pose proof (CO false) as E2. cbn [cost_of] in E1, E2.
    rewrite E1, E2. reflexivity.
  Qed.

  (** a change of [n] can only invalidate the equations of [n] and of its parents *)
  Lemma good_after_compute_other : forall sc n q, q <> n -> ~ In q (map snd (parents g n)) ->
    good bd g sc q -> good bd g (fst (computeNegaMax bd g sc n)) q.
  Proof.
    intros sc n q Hq Hp G. apply (good_ext bd g sc); [| |exact G].
    - rewrite compute_other by exact Hq. reflexivity.
    - intros [m c] H. cbn [snd]. rewrite compute_other; [reflexivity|].
      intro E. subst c. apply Hp. apply in_map_iff. exists (m, q). split; [reflexivity|].
      apply (Inv_inverse succ g HI q m n). exact H.
  Qed.

  (** ** bookkeeping of the work set does not touch scores or the error code *)
  Lemma upd_insert_sc : forall st x, u_sc (upd_insert st x) = u_sc st /\ u_err (upd_insert st x) = u_err st.
  Proof. intros. unfold upd_insert. destruct (nget x (u_set st)); split; reflexivity. Qed.

  Lemma fold_insert_sc : forall (l : list (N * N)) st,
    u_sc (fold_left (fun s mc => upd_insert s (snd mc)) l st) = u_sc st /\
    u_err (fold_left (fun s mc => upd_insert s (snd mc)) l st) = u_err st.
  Proof.
    induction l as [|mc t IH]; intro st; cbn [fold_left]; [split; reflexivity|].
    destruct (IH (upd_insert st (snd mc))) as [A B]. destruct (upd_insert_sc st (snd mc)) as [C D].
    rewrite A, B, C, D. split; reflexivity.
  Qed.

  Lemma negaMaxStep_spec : forall st n,
    u_sc (fst (negaMaxStep rq bd g st n)) = fst (computeNegaMax bd g (u_sc st) n) /\
    u_err (fst (negaMaxStep rq bd g st n)) = u_err st /\
    snd (negaMaxStep rq bd g st n) = snd (computeNegaMax bd g (u_sc st) n).
  Proof.
    intros st n. unfold negaMaxStep. destruct (computeNegaMax bd g (u_sc st) n) as [sc' ch]. cbn [fst snd].
    destruct ch; cbn [fst snd]; [|repeat split; reflexivity].
    destruct rq.
    - destruct (fold_insert_sc (children g n) (upd_insert (mkUst sc' (u_set st) (u_list st) (u_err st)) n)) as [A B].
      destruct (upd_insert_sc (mkUst sc' (u_set st) (u_list st) (u_err st)) n) as [C D].
      rewrite A, B, C, D. repeat split; reflexivity.
    - destruct (fold_insert_sc (children g n) (mkUst sc' (u_set st) (u_list st) (u_err st))) as [A B].
      rewrite A, B. repeat split; reflexivity.
  Qed.

  (** ** the error code only grows *)
  Lemma fold_err_mono : forall (A : Type) (F : ust -> A -> ust) (l : list A),
    (forall s x, In x l -> (u_err s <= u_err (F s x))%N) ->
    forall st, (u_err st <= u_err (fold_left F l st))%N.
  Proof.
    intros A F l. induction l as [|x t IH]; intros H st; cbn [fold_left]; [lia|].
    etransitivity; [apply (H st x); left; reflexivity|]. apply IH. intros s y Hy. apply H. right; exact Hy.
  Qed.

  Lemma updDown_err_mono : forall f st n, (u_err st <= u_err (updDown f rq bd g st n))%N.
  Proof.
    induction f as [|f IH]; intros st n; cbn [updDown].
    - unfold ust_err. cbn [u_err]. lia.
    - destruct (negb (s_nm (scof (u_sc st) n) =? INVALID_SCORE)); [lia|].
      destruct (negaMaxStep_spec (fold_left (fun s mc => updDown f rq bd g s (snd mc)) (children g n) st) n) as [_ [E _]].
      rewrite E. apply fold_err_mono. intros s x _. apply IH.
  Qed.

  Lemma updUp_err_mono : forall f start st n, (u_err st <= u_err (updUp f rq bd g start st n))%N.
  Proof.
    induction f as [|f IH]; intros start st n; cbn [updUp].
    - unfold ust_err. cbn [u_err]. lia.
    - destruct (negaMaxStep_spec st n) as [_ [E _]].
      destruct (negaMaxStep rq bd g st n) as [st1 ch]. cbn [fst] in E.
      destruct (ch || N.eqb n start); [|lia].
      rewrite <- E. apply fold_err_mono. intros s x _. apply IH.
  Qed.

  (** ** upward propagation: the node becomes good, no good node becomes bad *)
  Lemma updUp_spec : forall f start st n,
    wfc (u_sc st) -> u_err (updUp f rq bd g start st n) = 0%N ->
    wfc (u_sc (updUp f rq bd g start st n)) /\
    good bd g (u_sc (updUp f rq bd g start st n)) n /\
    forall q, good bd g (u_sc st) q -> good bd g (u_sc (updUp f rq bd g start st n)) q.
  Proof.
    induction f as [|f IH]; intros start st n W E; cbn [updUp] in *.
    - unfold ust_err in E. cbn [u_err] in E. exfalso. unfold ERR_FUEL in E. lia.
    - destruct (negaMaxStep_spec st n) as [S1 [S2 S3]].
      destruct (negaMaxStep rq bd g st n) as [st1 ch]. cbn [fst snd] in S1, S2, S3.
      destruct (compute_good (u_sc st) n W) as [G1 W1]. rewrite <- S1 in G1, W1.
      destruct (ch || N.eqb n start) eqn:C.
      + (* parents are recomputed *)
        assert (L : forall l st0, wfc (u_sc st0) ->
                  u_err (fold_left (fun s mp => updUp f rq bd g start s (snd mp)) l st0) = 0%N ->
                  let r := fold_left (fun s (mp : N * N) => updUp f rq bd g start s (snd mp)) l st0 in
                  wfc (u_sc r) /\ (forall mp, In mp l -> good bd g (u_sc r) (snd mp)) /\
                  (forall q, good bd g (u_sc st0) q -> good bd g (u_sc r) q)).
        { induction l as [|mp t IHl]; intros st0 W0 E0; cbn [fold_left] in *.
          - split; [exact W0|]. split; [intros mp []|auto].
          - assert (E1 : u_err (updUp f rq bd g start st0 (snd mp)) = 0%N).
            { pose proof (fold_err_mono _ (fun s (mp0 : N * N) => updUp f rq bd g start s (snd mp0)) t
                            (fun s x _ => updUp_err_mono f start s (snd x)) (updUp f rq bd g start st0 (snd mp))) as M.
              rewrite E0 in M. lia. }
            destruct (IH start st0 (snd mp) W0 E1) as [Wa [Ga Pa]].
            destruct (IHl _ Wa E0) as [Wb [Gb Pb]].
            split; [exact Wb|]. split.
            + intros mp' [<-|H]; [apply Pb; exact Ga|apply Gb; exact H].
            + intros q Hq. apply Pb. apply Pa. exact Hq. }
        destruct (L (parents g n) st1 W1 E) as [Wr [Gr Pr]].
        split; [exact Wr|]. split; [apply Pr; exact G1|].
        intros q Hq.
        destruct (N.eq_dec q n) as [->|Hne]; [apply Pr; exact G1|].
        destruct (in_dec N.eq_dec q (map snd (parents g n))) as [Hin|Hnin].
        * apply in_map_iff in Hin. destruct Hin as [mp [<- Hmp]]. apply Gr. exact Hmp.
        * apply Pr. rewrite S1. apply good_after_compute_other; assumption.
      + (* nothing changed *)
        apply orb_false_elim in C. destruct C as [C _]. subst ch.
        pose proof (compute_flag bd g (u_sc st) n (eq_sym S3)) as F. rewrite <- S1 in F.
        split; [exact W1|]. split; [exact G1|].
        intros q Hq. apply (good_ext bd g (u_sc st)); [| |exact Hq].
        * destruct (N.eq_dec q n) as [->|Hne]; [symmetry; exact F|rewrite S1, compute_other by exact Hne; reflexivity].
        * intros mc _. destruct (N.eq_dec (snd mc) n) as [->|Hne]; [symmetry; exact F|rewrite S1, compute_other by exact Hne; reflexivity].
  Qed.

  (** ** downward pass over nodes that already satisfy their equations: nothing changes *)
  Definition sc_equiv (sc sc' : nmap scores) : Prop := forall x, nmec (scof sc x) = nmec (scof sc' x).

  Lemma good_equiv : forall sc sc' q, sc_equiv sc sc' -> good bd g sc q -> good bd g sc' q.
  Proof. intros sc sc' q H G. apply (good_ext bd g sc); [apply H|intros; apply H|exact G]. Qed.

  Lemma wfc_equiv : forall sc sc', sc_equiv sc sc' -> wfc sc -> wfc sc'.
  Proof.
    intros sc sc' H W x. destruct (nmec_inj _ _ (H x)) as [_ [A B]]. rewrite <- A, <- B. apply W.
  Qed.

  Lemma updDown_spec : forall f st n,
    In n (bk_keys g) ->
    wfc (u_sc st) -> (forall q, In q (bk_keys g) -> rk n <= rk q -> good bd g (u_sc st) q) ->
    sc_equiv (u_sc st) (u_sc (updDown f rq bd g st n)).
  Proof.
    induction f as [|f IH]; intros st n Kn W G; cbn [updDown].
    - intro x. reflexivity.
    - destruct (negb (s_nm (scof (u_sc st) n) =? INVALID_SCORE)); [intro x; reflexivity|].
      assert (L : forall l st0, (forall mc, In mc l -> rk n < rk (snd mc) /\ In (snd mc) (bk_keys g)) ->
                  wfc (u_sc st0) -> (forall q, In q (bk_keys g) -> rk n < rk q -> good bd g (u_sc st0) q) ->
                  sc_equiv (u_sc st0) (u_sc (fold_left (fun s (mc : N * N) => updDown f rq bd g s (snd mc)) l st0))).
      { induction l as [|mc t IHl]; intros st0 Hl W0 G0; cbn [fold_left]; [intro x; reflexivity|].
        assert (E1 : sc_equiv (u_sc st0) (u_sc (updDown f rq bd g st0 (snd mc)))).
        { apply IH; [apply (Hl mc (or_introl eq_refl))|exact W0|].
          intros q Kq Hq. apply G0; [exact Kq|]. destruct (Hl mc (or_introl eq_refl)). lia. }
        assert (E2 := IHl (updDown f rq bd g st0 (snd mc)) (fun m H => Hl m (or_intror H))
                          (wfc_equiv _ _ E1 W0) (fun q Kq Hq => good_equiv _ _ q E1 (G0 q Kq Hq))).
        intro x. rewrite (E1 x). apply E2. }
      pose proof (L (children g n) st (fun mc H => conj (child_rank n mc H) (child_key n mc H)) W
                    (fun q Kq Hq => G q Kq (Z.lt_le_incl _ _ Hq))) as E1.
      set (st1 := fold_left (fun s (mc : N * N) => updDown f rq bd g s (snd mc)) (children g n) st) in *.
      destruct (negaMaxStep_spec st1 n) as [S1 _]. rewrite S1.
      pose proof (compute_noop (u_sc st1) n (wfc_equiv _ _ E1 W) (good_equiv _ _ n E1 (G n Kn (Z.le_refl _)))) as F.
      intro x. rewrite (E1 x). destruct (N.eq_dec x n) as [->|Hne]; [symmetry; exact F|].
      rewrite compute_other by exact Hne. reflexivity.
  Qed.

  (** ** the path-error pass does not touch negamax scores and costs *)
  Lemma computePathError_equiv : forall sc n, sc_equiv sc (fst (fst (computePathError g sc n))).
  Proof.
    intros sc n x. unfold computePathError. destruct (depth g n =? 0); cbn [fst]; [reflexivity|].
    destruct (fold_left _ _ _) as [[pw pb] err]. destruct ((pw =? INT_MAX) || (pb =? INT_MAX)); cbn [fst];
      (destruct (N.eq_dec x n) as [->|Hne]; [rewrite scof_set_same; reflexivity|rewrite scof_set_other by exact Hne; reflexivity]).
  Qed.

  Lemma updPathErrors_equiv : forall f st n, sc_equiv (fst st) (fst (updPathErrors f g st n)).
  Proof.
    induction f as [|f IH]; intros st n; cbn [updPathErrors]; [intro x; reflexivity|].
    pose proof (computePathError_equiv (fst st) n) as E.
    destruct (computePathError g (fst st) n) as [[sc' modified] e]. cbn [fst] in E.
    destruct modified; [|exact E].
    assert (L : forall l s0, sc_equiv (fst s0) (fst (fold_left (fun s (mc : N * N) => updPathErrors f g s (snd mc)) l s0))).
    { induction l as [|mc t IHl]; intro s0; cbn [fold_left]; [intro x; reflexivity|].
      intro x. rewrite (IH s0 (snd mc) x). apply IHl. }
    intro x. rewrite (E x). apply (L (children g n) (sc', N.max (snd st) e)).
  Qed.

  Lemma updPathErrors_err_mono : forall f st n, (snd st <= snd (updPathErrors f g st n))%N.
  Proof.
    induction f as [|f IH]; intros st n; cbn [updPathErrors]; [cbn [snd]; lia|].
    destruct (computePathError g (fst st) n) as [[sc' modified] e].
    destruct modified; [|cbn [snd]; lia].
    assert (L : forall l s0, (snd s0 <= snd (fold_left (fun s (mc : N * N) => updPathErrors f g s (snd mc)) l s0))%N).
    { induction l as [|mc t IHl]; intro s0; cbn [fold_left]; [lia|].
      etransitivity; [apply (IH s0 (snd mc))|apply IHl]. }
    etransitivity; [|apply L]. cbn [snd]. lia.
  Qed.

  (** ** updateScores *)
  Theorem updateScores_good : forall start,
    In start (bk_keys g) -> wfc (bk_sc g) ->
    (forall q, In q (bk_keys g) -> q <> start -> ~ In q (map snd (parents g start)) -> good bd g (bk_sc g) q) ->
    bk_err (updateScores rq bd g start) = 0%N ->
    wfc (bk_sc (updateScores rq bd g start)) /\
    forall q, In q (bk_keys g) -> good bd g (bk_sc (updateScores rq bd g start)) q.
  Proof.
    intros start Ks W G E. unfold updateScores in *.
    set (fuel := fuel_of g) in *.
    set (st0 := upd_insert (mkUst (bk_sc g) nempty [] 0%N) start) in *.
    assert (S0 : u_sc st0 = bk_sc g) by (unfold st0, upd_insert; rewrite nget_nempty; reflexivity).
    set (st1 := updTop fuel rq bd g st0 start) in *.
    destruct (fold_left (updPathErrors fuel g) (sort_upd g (u_list st1)) (u_sc st1, u_err st1)) as [sc2 err2] eqn:PE.
    cbn [bk_err bk_sc set_err set_sc] in E |- *.
    (* the path-error pass: scores equivalent, error monotone *)
    assert (PEq : forall l s0, sc_equiv (fst s0) (fst (fold_left (updPathErrors fuel g) l s0)) /\
                               (snd s0 <= snd (fold_left (updPathErrors fuel g) l s0))%N).
    { induction l as [|x t IHl]; intro s0; cbn [fold_left]; [split; [intro y; reflexivity|lia]|].
      destruct (IHl (updPathErrors fuel g s0 x)) as [A B]. split.
      - intro y. rewrite (updPathErrors_equiv fuel s0 x y). apply A.
      - etransitivity; [apply updPathErrors_err_mono|exact B]. }
    destruct (PEq (sort_upd g (u_list st1)) (u_sc st1, u_err st1)) as [Q1 Q2]. rewrite PE in Q1, Q2. cbn [fst snd] in Q1, Q2.
    assert (E1 : u_err st1 = 0%N) by lia.
    (* updTop *)
    unfold st1, updTop in E1, Q1.
    set (stA := fold_left (fun s (mc : N * N) => updDown fuel rq bd g s (snd mc)) (children g start) st0) in *.
    destruct (negaMaxStep_spec stA start) as [B1 [B2 B3]].
    destruct (negaMaxStep rq bd g stA start) as [stB chB]. cbn [fst snd] in B1, B2, B3.
    (* down pass: equivalent scores *)
    assert (L : forall l s0, (forall mc, In mc l -> rk start < rk (snd mc) /\ In (snd mc) (bk_keys g)) ->
                wfc (u_sc s0) -> (forall q, In q (bk_keys g) -> rk start < rk q -> good bd g (u_sc s0) q) ->
                sc_equiv (u_sc s0) (u_sc (fold_left (fun s (mc : N * N) => updDown fuel rq bd g s (snd mc)) l s0))).
    { induction l as [|mc t IHl]; intros s0 Hl W0 G0; cbn [fold_left]; [intro x; reflexivity|].
      assert (D1 : sc_equiv (u_sc s0) (u_sc (updDown fuel rq bd g s0 (snd mc)))).
      { apply updDown_spec; [apply (Hl mc (or_introl eq_refl))|exact W0|].
        intros q Kq Hq. apply G0; [exact Kq|]. destruct (Hl mc (or_introl eq_refl)). lia. }
      assert (D2 := IHl (updDown fuel rq bd g s0 (snd mc)) (fun m H => Hl m (or_intror H))
                        (wfc_equiv _ _ D1 W0) (fun q Kq Hq => good_equiv _ _ q D1 (G0 q Kq Hq))).
      intro x. rewrite (D1 x). apply D2. }
    assert (Gdown : forall q, In q (bk_keys g) -> rk start < rk q -> good bd g (u_sc st0) q).
    { intros q Kq Hq. rewrite S0. apply G; [exact Kq|intro; subst; lia|].
      intro Hin. apply in_map_iff in Hin. destruct Hin as [[m p] [Ep Hp]]. cbn [snd] in Ep. subst p.
      pose proof (inv_parent succ g HI start m q Hp) as C. pose proof (child_rank q _ C) as R. cbn [snd] in R. lia. }
    assert (W0 : wfc (u_sc st0)) by (rewrite S0; exact W).
    pose proof (L (children g start) st0 (fun mc H => conj (child_rank start mc H) (child_key start mc H)) W0 Gdown) as EA.
    fold stA in EA.
    assert (WA : wfc (u_sc stA)) by (apply (wfc_equiv _ _ EA W0)).
    destruct (compute_good (u_sc stA) start WA) as [GB WB]. rewrite <- B1 in GB, WB.
    (* parents *)
    assert (LU : forall l s0, wfc (u_sc s0) ->
               u_err (fold_left (fun s (mp : N * N) => updUp fuel rq bd g start s (snd mp)) l s0) = 0%N ->
               let r := fold_left (fun s (mp : N * N) => updUp fuel rq bd g start s (snd mp)) l s0 in
               wfc (u_sc r) /\ (forall mp, In mp l -> good bd g (u_sc r) (snd mp)) /\
               (forall q, good bd g (u_sc s0) q -> good bd g (u_sc r) q)).
    { induction l as [|mp t IHl]; intros s0 Ws Es; cbn [fold_left] in *.
      - split; [exact Ws|]. split; [intros mp []|auto].
      - assert (Ex : u_err (updUp fuel rq bd g start s0 (snd mp)) = 0%N).
        { pose proof (fold_err_mono _ (fun s (mp0 : N * N) => updUp fuel rq bd g start s (snd mp0)) t
                        (fun s x _ => updUp_err_mono fuel start s (snd x)) (updUp fuel rq bd g start s0 (snd mp))) as M.
          rewrite Es in M. lia. }
        destruct (updUp_spec fuel start s0 (snd mp) Ws Ex) as [Wa [Ga Pa]].
        destruct (IHl _ Wa Es) as [Wb [Gb Pb]].
        split; [exact Wb|]. split.
        + intros mp' [<-|H]; [apply Pb; exact Ga|apply Gb; exact H].
        + intros q Hq. apply Pb. apply Pa. exact Hq. }
    destruct (LU (parents g start) stB WB E1) as [Wr [Gr Pr]].
    set (stR := fold_left (fun s (mp : N * N) => updUp fuel rq bd g start s (snd mp)) (parents g start) stB) in *.
    split; [apply (wfc_equiv _ _ Q1 Wr)|].
    intros q Kq. apply (good_equiv _ _ q Q1).
    destruct (N.eq_dec q start) as [->|Hne]; [apply Pr; exact GB|].
    destruct (in_dec N.eq_dec q (map snd (parents g start))) as [Hin|Hnin].
    - apply in_map_iff in Hin. destruct Hin as [mp [<- Hmp]]. apply Gr. exact Hmp.
    - apply Pr. rewrite B1. apply good_after_compute_other; [exact Hne|exact Hnin|].
      apply (good_equiv _ _ q EA). rewrite S0. apply G; assumption.
  Qed.
End Propagation.
