(** Path errors for the variant of updateScores with the proposed fix (requeue = true): every
    node whose path-error equation can be invalidated by the negamax pass is in the work set of
    the path-error pass, and that pass re-establishes the equation at every node it visits without
    breaking it anywhere else.  Together with GlobalProofs/DepthProofs: after every history of
    add / set / pending operations ALL defining equations hold -- for the fixed code. *)
From Coq Require Import ZArith NArith List Bool Lia.
From Texel Require Import gen.BookConsts BookGraph.NMap BookGraph.BookGraph BookGraph.Equations
  BookGraph.ScoreFacts BookGraph.LocalProofs BookGraph.LinkProofs BookGraph.UniqueProofs BookGraph.FixProofs
  BookGraph.GlobalProofs BookGraph.DepthProofs.
Import ListNotations.
Local Open Scope Z_scope.

(** * the path-error equation reads the node, its parents, its depth parity *)
Lemma eq_patherr_ext : forall g1 g2 n,
  bk_root g1 = bk_root g2 -> parents g1 n = parents g2 n -> Z.odd (depth g1 n) = Z.odd (depth g2 n) ->
  s_nm (score_of g1 n) = s_nm (score_of g2 n) ->
  s_pew (score_of g1 n) = s_pew (score_of g2 n) -> s_peb (score_of g1 n) = s_peb (score_of g2 n) ->
  (forall mp, In mp (parents g1 n) ->
     s_nm (score_of g1 (snd mp)) = s_nm (score_of g2 (snd mp)) /\
     s_pew (score_of g1 (snd mp)) = s_pew (score_of g2 (snd mp)) /\
     s_peb (score_of g1 (snd mp)) = s_peb (score_of g2 (snd mp))) ->
  eq_patherr g1 n = eq_patherr g2 n.
Proof.
  intros g1 g2 n Hr Hp Hd Hn Hw Hb Hpar.
  assert (Cand : pe_candidates g1 n = pe_candidates g2 n).
  { unfold pe_candidates. rewrite <- Hp. apply flat_map_ext_in. intros mp H.
    destruct (Hpar mp H) as [A [B C]]. cbn zeta. rewrite <- A, <- B, <- C, <- Hn, <- Hd. reflexivity. }
  unfold eq_patherr. rewrite <- Hr, <- Cand, <- Hw, <- Hb. reflexivity.
Qed.

Definition pgood (g : book) (sc : nmap scores) (n : N) : Prop := eq_patherr (set_sc g sc) n = true.

Definition pe3 (s : scores) : Z * Z * Z := (s_nm s, s_pew s, s_peb s).

Lemma pgood_ext : forall g sc sc' n,
  pe3 (scof sc n) = pe3 (scof sc' n) ->
  (forall mp, In mp (parents g n) -> pe3 (scof sc (snd mp)) = pe3 (scof sc' (snd mp))) ->
  pgood g sc n -> pgood g sc' n.
Proof.
  intros g sc sc' n Hn Hp G. unfold pgood in *. rewrite <- G. symmetry.
  unfold pe3 in *. inversion Hn.
  apply eq_patherr_ext; try reflexivity; rewrite ?score_set_sc; try assumption.
  intros mp H. rewrite !score_set_sc. specialize (Hp mp H). inversion Hp. auto.
Qed.

(** * one computePathError *)

Lemma peStep_err_mono : forall sc me od acc mp, (snd acc <= snd (peStep sc me od acc mp))%N.
Proof.
  intros sc me od [[pw pb] err] mp. unfold peStep. cbn [snd].
  destruct (_ || _); [cbn [snd]; lia|]. destruct (_ || _); [cbn [snd]; lia|].
  destruct (_ <? 0); destruct (_ || _); cbn [snd]; lia.
Qed.

Lemma pe_fold_err_mono : forall sc me od l acc, (snd acc <= snd (fold_left (peStep sc me od) l acc))%N.
Proof.
  intros sc me od. induction l as [|mp t IH]; intro acc; cbn [fold_left]; [lia|].
  etransitivity; [apply peStep_err_mono|apply IH].
Qed.

(** no error: every candidate stays below the INT_MAX sentinel *)
Lemma pe_fold_bound : forall g sc n l acc,
  snd (fold_left (peStep sc (scof sc n) (Z.odd (depth g n))) l acc) = 0%N ->
  forall c, In c (flat_map (fun mp : N * N =>
              let ps := scof sc (snd mp) in
              if (s_pew ps =? INVALID_SCORE) || (s_peb ps =? INVALID_SCORE) ||
                 (s_nm (scof sc n) =? INVALID_SCORE) || (s_nm ps =? INVALID_SCORE) then []
              else let delta := s_nm ps - negateScore (s_nm (scof sc n)) in
                   if Z.odd (depth g n) then [(s_pew ps + delta, s_peb ps)] else [(s_pew ps, s_peb ps + delta)]) l) ->
    fst c < INT_MAX /\ snd c < INT_MAX.
Proof.
  intros g sc n. induction l as [|mp t IH]; intros acc E c Hc; cbn [flat_map fold_left] in *; [destruct Hc|].
  apply in_app_or in Hc. destruct Hc as [Hc|Hc]; [|eapply IH; eauto].
  assert (E1 : snd (peStep sc (scof sc n) (Z.odd (depth g n)) acc mp) = 0%N).
  { pose proof (pe_fold_err_mono sc (scof sc n) (Z.odd (depth g n)) t (peStep sc (scof sc n) (Z.odd (depth g n)) acc mp)) as M.
    rewrite E in M. lia. }
  clear E IH. destruct acc as [[pw pb] err]. unfold peStep in E1. cbn zeta in Hc.
  destruct ((s_pew (scof sc (snd mp)) =? INVALID_SCORE) || (s_peb (scof sc (snd mp)) =? INVALID_SCORE)) eqn:C1; cbn [orb] in Hc; [destruct Hc|].
  destruct ((s_nm (scof sc n) =? INVALID_SCORE) || (s_nm (scof sc (snd mp)) =? INVALID_SCORE)) eqn:C2.
  - replace (false || (s_nm (scof sc n) =? INVALID_SCORE) || (s_nm (scof sc (snd mp)) =? INVALID_SCORE)) with true in Hc
      by (cbn [orb]; symmetry; exact C2). destruct Hc.
  - replace (false || (s_nm (scof sc n) =? INVALID_SCORE) || (s_nm (scof sc (snd mp)) =? INVALID_SCORE)) with false in Hc
      by (cbn [orb]; symmetry; exact C2).
    cbn [snd] in E1.
    set (delta := s_nm (scof sc (snd mp)) - negateScore (s_nm (scof sc n))) in *.
    destruct (Z.odd (depth g n)); destruct Hc as [<-|[]]; cbn [fst snd];
      match type of E1 with (if ?b then _ else _) = _ => destruct b eqn:OV end;
      try (exfalso; destruct (delta <? 0); unfold ERR_OVERFLOW, ERR_ASSERT in E1; lia);
      apply orb_false_elim in OV; destruct OV as [O1 O2]; apply Z.leb_gt in O1, O2; lia.
Qed.

Section PathPass.
  Variable succ : N -> N -> option N.
  Variable rk : N -> Z.
  Hypothesis Hrk : forall p m c, succ p m = Some c -> rk p < rk c.
  Variable g : book.
  Hypothesis HI : Inv succ g.
  (** depth 0 identifies the root among the nodes *)
  Hypothesis Hd0 : forall n, In n (bk_keys g) -> (depth g n = 0 <-> n = bk_root g).

  Lemma no_self_par : forall n, no_self_parent g n.
  Proof.
    intros n [m p] H E. cbn [snd] in E. subst p. pose proof (inv_parent succ g HI n m n H) as C.
    destruct (inv_child succ g HI n m n C) as [_ [_ [_ S]]]. pose proof (Hrk _ _ _ S). lia.
  Qed.

  Lemma cpe_other : forall sc n q, q <> n -> scof (fst (fst (computePathError g sc n))) q = scof sc q.
  Proof.
    intros sc n q Hq. unfold computePathError. destruct (depth g n =? 0); cbn [fst]; [reflexivity|].
    destruct (fold_left _ _ _) as [[pw pb] err]. destruct ((pw =? INT_MAX) || (pb =? INT_MAX)); cbn [fst];
      apply scof_set_other; exact Hq.
  Qed.

  Lemma cpe_nm : forall sc n x, s_nm (scof (fst (fst (computePathError g sc n))) x) = s_nm (scof sc x).
  Proof.
    intros sc n x. unfold computePathError. destruct (depth g n =? 0); cbn [fst]; [reflexivity|].
    destruct (fold_left _ _ _) as [[pw pb] err]. destruct ((pw =? INT_MAX) || (pb =? INT_MAX)); cbn [fst];
      (destruct (N.eq_dec x n) as [->|Hne]; [rewrite scof_set_same; reflexivity|rewrite scof_set_other by exact Hne; reflexivity]).
  Qed.

  Lemma cpe_unmodified : forall sc n, snd (fst (computePathError g sc n)) = false ->
    pe3 (scof (fst (fst (computePathError g sc n))) n) = pe3 (scof sc n).
  Proof.
    intros sc n H. unfold computePathError in *. destruct (depth g n =? 0); cbn [fst snd] in *; [reflexivity|].
    destruct (fold_left _ _ _) as [[pw pb] err].
    destruct ((pw =? INT_MAX) || (pb =? INT_MAX)); cbn [fst snd] in *; rewrite scof_set_same;
      apply orb_false_elim in H; destruct H as [H1 H2]; apply negb_false_iff in H1, H2; apply Z.eqb_eq in H1, H2;
      unfold pe3; cbn [s_nm s_pew s_peb]; congruence.
  Qed.

  Lemma cpe_good : forall sc n, In n (bk_keys g) -> snd (computePathError g sc n) = 0%N ->
    pgood g (fst (fst (computePathError g sc n))) n.
  Proof.
    intros sc n Kn E. unfold pgood.
    destruct (N.eq_dec n (bk_root g)) as [Hr|Hr].
    - (* the root: not recomputed; the assert makes sure its errors are 0 *)
      assert (D : depth g n = 0) by (apply Hd0; assumption).
      unfold computePathError in *. rewrite D in *. cbn [Z.eqb fst snd] in *.
      unfold eq_patherr. change (bk_root (set_sc g sc)) with (bk_root g). rewrite Hr, N.eqb_refl. rewrite score_set_sc.
      rewrite Hr in E. destruct ((s_pew (scof sc (bk_root g)) =? 0) && (s_peb (scof sc (bk_root g)) =? 0)); [reflexivity|discriminate].
    - assert (D : depth g n <> 0) by (intro D; apply Hr; apply Hd0; assumption).
      apply computePathError_local; [apply no_self_par|exact Hr|exact D|].
      unfold computePathError in E. destruct (Z.eqb_spec (depth g n) 0) as [|_]; [contradiction|].
      destruct (fold_left (peStep sc (scof sc n) (Z.odd (depth g n))) (parents g n) (INT_MAX, INT_MAX, 0%N)) as [[pw pb] err] eqn:F.
      assert (Ee : err = 0%N) by (destruct ((pw =? INT_MAX) || (pb =? INT_MAX)); cbn [snd] in E; exact E).
      apply (pe_fold_bound g sc n (parents g n) (INT_MAX, INT_MAX, 0%N)). rewrite F. exact Ee.
  Qed.

  (** ** the recursive pass *)
  Lemma updPathErrors_spec : forall f st n,
    In n (bk_keys g) -> snd (updPathErrors f g st n) = 0%N ->
    pgood g (fst (updPathErrors f g st n)) n /\
    forall q, pgood g (fst st) q -> pgood g (fst (updPathErrors f g st n)) q.
  Proof.
    induction f as [|f IH]; intros st n Kn E; cbn [updPathErrors] in *.
    - cbn [snd] in E. unfold ERR_FUEL in E. lia.
    - pose proof (cpe_good (fst st) n Kn) as CG. pose proof (cpe_unmodified (fst st) n) as CU.
      pose proof (cpe_other (fst st) n) as CO. pose proof (cpe_nm (fst st) n) as CN.
      destruct (computePathError g (fst st) n) as [[sc' modified] e]. cbn [fst snd] in *.
      assert (Others : forall q, q <> n -> ~ In n (map snd (parents g q)) -> pgood g (fst st) q -> pgood g sc' q).
      { intros q Hq Hnp G. apply (pgood_ext g (fst st)); [rewrite CO by exact Hq; reflexivity| |exact G].
        intros mp H. rewrite CO; [reflexivity|]. intro Ep. apply Hnp. apply in_map_iff. exists mp. split; assumption. }
      destruct modified.
      + assert (L : forall l s0, (forall mc, In mc l -> In (snd mc) (bk_keys g)) ->
                    snd (fold_left (fun s (mc : N * N) => updPathErrors f g s (snd mc)) l s0) = 0%N ->
                    let rr := fold_left (fun s (mc : N * N) => updPathErrors f g s (snd mc)) l s0 in
                    (forall mc, In mc l -> pgood g (fst rr) (snd mc)) /\ (forall q, pgood g (fst s0) q -> pgood g (fst rr) q)).
        { induction l as [|mc t IHl]; intros s0 Kl E0; cbn [fold_left] in *.
          - split; [intros mc []|auto].
          - assert (E1 : snd (updPathErrors f g s0 (snd mc)) = 0%N).
            { assert (M : forall l' s', (snd s' <= snd (fold_left (fun s (mc0 : N * N) => updPathErrors f g s (snd mc0)) l' s'))%N).
              { induction l' as [|y t' IHl']; intro s'; cbn [fold_left]; [lia|].
                etransitivity; [apply updPathErrors_err_mono|apply IHl']. }
              specialize (M t (updPathErrors f g s0 (snd mc))). rewrite E0 in M. lia. }
            destruct (IH s0 (snd mc) (Kl mc (or_introl eq_refl)) E1) as [A B].
            destruct (IHl (updPathErrors f g s0 (snd mc)) (fun m H => Kl m (or_intror H)) E0) as [C D].
            split.
            + intros mc' [<-|H]; [apply D; exact A|apply C; exact H].
            + intros q Hq. apply D. apply B. exact Hq. }
        assert (Ee : e = 0%N).
        { assert (M : forall l' s', (snd s' <= snd (fold_left (fun s (mc0 : N * N) => updPathErrors f g s (snd mc0)) l' s'))%N).
          { induction l' as [|y t' IHl']; intro s'; cbn [fold_left]; [lia|].
            etransitivity; [apply updPathErrors_err_mono|apply IHl']. }
          specialize (M (children g n) (sc', N.max (snd st) e)). rewrite E in M. cbn [snd] in M. lia. }
        destruct (L (children g n) (sc', N.max (snd st) e)) as [C D].
        { intros [m c] H. cbn [snd]. apply (inv_child succ g HI n m c H). }
        { exact E. }
        cbn [fst] in D.
        split; [apply D; apply CG; exact Ee|].
        intros q Hq. destruct (N.eq_dec q n) as [->|Hne]; [apply D; apply CG; exact Ee|].
        destruct (in_dec N.eq_dec n (map snd (parents g q))) as [Hin|Hnin].
        * apply in_map_iff in Hin. destruct Hin as [[m p] [Ep Hp]]. cbn [snd] in Ep. subst p.
          apply (C (m, q)). apply (inv_parent succ g HI q m n Hp).
        * apply D. apply Others; assumption.
      + cbn [fst snd] in *.
        assert (Ee : e = 0%N) by lia.
        split; [apply CG; exact Ee|].
        intros q Hq. apply (pgood_ext g (fst st)); [| |exact Hq].
        * destruct (N.eq_dec q n) as [->|Hne]; [symmetry; apply CU; reflexivity|rewrite CO by exact Hne; reflexivity].
        * intros mp _. destruct (N.eq_dec (snd mp) n) as [->|Hne]; [symmetry; apply CU; reflexivity|rewrite CO by exact Hne; reflexivity].
  Qed.
End PathPass.

(** * the work set of the path-error pass (requeue = true) *)

Definition inT (st : ust) (x : N) : Prop := nget x (u_set st) <> None.
Definition Consist (st : ust) : Prop := forall x, inT st x <-> In x (u_list st).

Lemma upd_insert_inT : forall st x y, inT (upd_insert st x) y <-> y = x \/ inT st y.
Proof.
  intros st x y. unfold inT, upd_insert. destruct (nget x (u_set st)) eqn:E; cbn [u_set].
  - split; [intro H; right; exact H|intros [->|H]; [rewrite E; discriminate|exact H]].
  - rewrite nget_nset. destruct (N.eqb_spec y x) as [->|Hne].
    + split; [intros _; left; reflexivity|intros _; discriminate].
    + split; [intro H; right; exact H|intros [->|H]; [contradiction|exact H]].
Qed.

Lemma upd_insert_consist : forall st x, Consist st -> Consist (upd_insert st x).
Proof.
  intros st x C y. rewrite upd_insert_inT. unfold upd_insert. destruct (nget x (u_set st)) eqn:E; cbn [u_list].
  - rewrite <- (C y). split; [intros [->|H]; [unfold inT; rewrite E; discriminate|exact H]|intro H; right; exact H].
  - cbn [In]. rewrite <- (C y). split; [intros [->|H]; [left; reflexivity|right; exact H]|intros [<-|H]; [left; reflexivity|right; exact H]].
Qed.

Section Tracking.
  Variables (bd : bdata) (g : book).

  (** [st'] is reached from [st] by steps of the negamax pass *)
  Record TrackRel (st st' : ust) : Prop := mkTrack {
    tr_mono : forall x, inT st x -> inT st' x;
    tr_cons : Consist st -> Consist st';
    tr_pe : forall x, s_pew (scof (u_sc st') x) = s_pew (scof (u_sc st) x) /\ s_peb (scof (u_sc st') x) = s_peb (scof (u_sc st) x);
    tr_nm : forall x, s_nm (scof (u_sc st') x) <> s_nm (scof (u_sc st) x) ->
            inT st' x /\ forall mc, In mc (children g x) -> inT st' (snd mc)
  }.

  Lemma TrackRel_refl : forall st, TrackRel st st.
  Proof. intro st. constructor; auto. intros x H. contradiction. Qed.

  Lemma TrackRel_trans : forall a b c, TrackRel a b -> TrackRel b c -> TrackRel a c.
  Proof.
    intros a b c [M1 C1 P1 N1] [M2 C2 P2 N2]. constructor; auto.
    - intro x. destruct (P1 x) as [A B]. destruct (P2 x) as [A' B']. split; congruence.
    - intros x H. destruct (Z.eq_dec (s_nm (scof (u_sc b) x)) (s_nm (scof (u_sc a) x))) as [E|NE].
      + apply N2. rewrite E. exact H.
      + destruct (N1 x NE) as [I Ch]. split; [apply M2; exact I|intros mc Hm; apply M2; apply Ch; exact Hm].
  Qed.

  Lemma TrackRel_err : forall st e, TrackRel st (ust_err st e).
  Proof. intros st e. constructor; unfold ust_err; cbn; auto. intros x H. contradiction. Qed.

  Lemma fold_insert_inT : forall (l : list (N * N)) st y,
    inT (fold_left (fun s mc => upd_insert s (snd mc)) l st) y <-> In y (map snd l) \/ inT st y.
  Proof.
    induction l as [|mc t IH]; intros st y; cbn [fold_left map In]; [tauto|].
    rewrite IH, upd_insert_inT. split; [intros [H|[H|H]]; auto|intros [[H|H]|H]; auto].
  Qed.

  Lemma fold_insert_consist : forall (l : list (N * N)) st, Consist st ->
    Consist (fold_left (fun s mc => upd_insert s (snd mc)) l st).
  Proof. induction l as [|mc t IH]; intros st C; cbn [fold_left]; [exact C|]. apply IH. apply upd_insert_consist. exact C. Qed.

  Lemma negaMaxStep_track : forall st n, TrackRel st (fst (negaMaxStep true bd g st n)).
  Proof.
    intros st n. unfold negaMaxStep.
    destruct (computeNegaMax bd g (u_sc st) n) as [sc' ch] eqn:CN.
    assert (Hsc : sc' = fst (computeNegaMax bd g (u_sc st) n)) by (rewrite CN; reflexivity).
    assert (Hch : ch = snd (computeNegaMax bd g (u_sc st) n)) by (rewrite CN; reflexivity).
    set (st1 := mkUst sc' (u_set st) (u_list st) (u_err st)).
    assert (Pe : forall x, s_pew (scof sc' x) = s_pew (scof (u_sc st) x) /\ s_peb (scof sc' x) = s_peb (scof (u_sc st) x)).
    { intro x. rewrite Hsc. unfold computeNegaMax. cbn [fst].
      destruct (N.eq_dec x n) as [->|Hne]; [rewrite scof_set_same; split; reflexivity|rewrite scof_set_other by exact Hne; split; reflexivity]. }
    destruct ch; cbn [fst].
    - constructor.
      + intros x H. apply fold_insert_inT. right. apply upd_insert_inT. right. exact H.
      + intro C. apply fold_insert_consist. apply upd_insert_consist. exact C.
      + intro x. rewrite (proj1 (fold_insert_sc (children g n) (upd_insert st1 n))).
        rewrite (proj1 (upd_insert_sc st1 n)). apply Pe.
      + intros x H. rewrite (proj1 (fold_insert_sc (children g n) (upd_insert st1 n))) in H.
        rewrite (proj1 (upd_insert_sc st1 n)) in H. cbn [u_sc st1] in H.
        assert (x = n).
        { destruct (N.eq_dec x n) as [E|Hne]; [exact E|]. exfalso. apply H. rewrite Hsc. rewrite compute_other by exact Hne. reflexivity. }
        subst x. split.
        * apply fold_insert_inT. right. apply upd_insert_inT. left; reflexivity.
        * intros mc Hm. apply fold_insert_inT. left. apply in_map. exact Hm.
    - constructor; cbn [u_sc u_set u_list st1]; auto.
      intros x H. exfalso. apply H.
      destruct (N.eq_dec x n) as [->|Hne].
      + pose proof (compute_flag bd g (u_sc st) n (eq_sym Hch)) as F. rewrite <- Hsc in F. unfold nmec in F. inversion F. reflexivity.
      + rewrite Hsc. rewrite compute_other by exact Hne. reflexivity.
  Qed.

  Lemma fold_track : forall (A : Type) (F : ust -> A -> ust) (l : list A),
    (forall s x, TrackRel s (F s x)) -> forall st, TrackRel st (fold_left F l st).
  Proof.
    intros A F l H. induction l as [|x t IH]; intro st; cbn [fold_left]; [apply TrackRel_refl|].
    eapply TrackRel_trans; [apply H|apply IH].
  Qed.

  Lemma updDown_track : forall f st n, TrackRel st (updDown f true bd g st n).
  Proof.
    induction f as [|f IH]; intros st n; cbn [updDown]; [apply TrackRel_err|].
    destruct (negb (s_nm (scof (u_sc st) n) =? INVALID_SCORE)); [apply TrackRel_refl|].
    eapply TrackRel_trans; [apply (fold_track _ (fun s (mc : N * N) => updDown f true bd g s (snd mc))); intros s x; apply IH|].
    apply negaMaxStep_track.
  Qed.

  Lemma updUp_track : forall f start st n, TrackRel st (updUp f true bd g start st n).
  Proof.
    induction f as [|f IH]; intros start st n; cbn [updUp]; [apply TrackRel_err|].
    pose proof (negaMaxStep_track st n) as T.
    destruct (negaMaxStep true bd g st n) as [st1 ch]. cbn [fst] in T.
    destruct (ch || N.eqb n start); [|exact T].
    eapply TrackRel_trans; [exact T|].
    apply (fold_track _ (fun s (mp : N * N) => updUp f true bd g start s (snd mp))). intros s x. apply IH.
  Qed.

  Lemma updTop_track : forall f st n, TrackRel st (updTop f true bd g st n).
  Proof.
    intros f st n. unfold updTop.
    pose proof (fold_track _ (fun s (mc : N * N) => updDown f true bd g s (snd mc)) (children g n) (fun s x => updDown_track f s (snd x)) st) as T1.
    set (stA := fold_left (fun s (mc : N * N) => updDown f true bd g s (snd mc)) (children g n) st) in *.
    pose proof (negaMaxStep_track stA n) as T2.
    destruct (negaMaxStep true bd g stA n) as [stB chB]. cbn [fst] in T2.
    eapply TrackRel_trans; [exact T1|]. eapply TrackRel_trans; [exact T2|].
    apply (fold_track _ (fun s (mp : N * N) => updUp f true bd g n s (snd mp))). intros s x. apply updUp_track.
  Qed.

  Lemma insert_sorted_in : forall x l y, In y (insert_sorted g x l) <-> y = x \/ In y l.
  Proof.
    intros x l y. induction l as [|z t IH]; cbn [insert_sorted].
    - cbn [In]. split; [intros [<-|[]]; left; reflexivity|intros [->|[]]; left; reflexivity].
    - destruct (upd_le g x z); cbn [In]; [split; [intros [<-|H]; [left; reflexivity|right; exact H]|intros [->|H]; [left; reflexivity|right; exact H]]|].
      rewrite IH. split; [intros [<-|[->|H]]; auto|intros [->|[<-|H]]; auto].
  Qed.

  Lemma sort_upd_in : forall l y, In y (sort_upd g l) <-> In y l.
  Proof.
    intros l y. unfold sort_upd.
    assert (G : forall l acc, In y (fold_left (fun acc x => insert_sorted g x acc) l acc) <-> In y l \/ In y acc).
    { induction l0 as [|x t IH]; intro acc; cbn [fold_left In]; [tauto|].
      rewrite IH, insert_sorted_in. split; [intros [H|[->|H]]; auto|intros [[<-|H]|H]; auto]. }
    rewrite G. cbn [In]. tauto.
  Qed.
End Tracking.

(** * updateScores (requeue = true) re-establishes every path-error equation *)
Section PathUpdate.
  Variable succ : N -> N -> option N.
  Variable rk : N -> Z.
  Hypothesis Hrk : forall p m c, succ p m = Some c -> rk p < rk c.
  Variables (bd : bdata) (g : book).
  Hypothesis HI : Inv succ g.
  Hypothesis Hd0 : forall n, In n (bk_keys g) -> (depth g n = 0 <-> n = bk_root g).

  Definition KT (st : ust) : Prop := forall x, inT st x -> In x (bk_keys g).

  Lemma parent_key : forall n mp, In mp (parents g n) -> In (snd mp) (bk_keys g).
  Proof.
    intros n [m p] H. cbn [snd]. pose proof (inv_parent succ g HI n m p H) as C.
    apply (inv_child succ g HI p m n C).
  Qed.
  Lemma child_key' : forall n mc, In mc (children g n) -> In (snd mc) (bk_keys g).
  Proof. intros n [m c] H. cbn [snd]. apply (inv_child succ g HI n m c H). Qed.

  Lemma negaMaxStep_KT : forall st n, In n (bk_keys g) -> KT st -> KT (fst (negaMaxStep true bd g st n)).
  Proof.
    intros st n Kn K. unfold negaMaxStep. destruct (computeNegaMax bd g (u_sc st) n) as [sc' ch].
    destruct ch; cbn [fst]; [|exact K].
    intros x H. apply fold_insert_inT in H. destruct H as [H|H].
    - apply in_map_iff in H. destruct H as [mc [<- Hm]]. eapply child_key'; eauto.
    - apply upd_insert_inT in H. destruct H as [->|H]; [exact Kn|apply K; exact H].
  Qed.

  Lemma fold_KT : forall (A : Type) (F : ust -> A -> ust) (l : list A) (Q : A -> Prop),
    (forall s x, Q x -> KT s -> KT (F s x)) -> (forall x, In x l -> Q x) -> forall st, KT st -> KT (fold_left F l st).
  Proof.
    intros A F l Q H. induction l as [|x t IH]; intros Hq st K; cbn [fold_left]; [exact K|].
    apply IH; [intros y Hy; apply Hq; right; exact Hy|]. apply H; [apply Hq; left; reflexivity|exact K].
  Qed.

  Lemma updDown_KT : forall f st n, In n (bk_keys g) -> KT st -> KT (updDown f true bd g st n).
  Proof.
    induction f as [|f IH]; intros st n Kn K; cbn [updDown]; [exact K|].
    destruct (negb (s_nm (scof (u_sc st) n) =? INVALID_SCORE)); [exact K|].
    apply negaMaxStep_KT; [exact Kn|].
    apply (fold_KT _ (fun s (mc : N * N) => updDown f true bd g s (snd mc)) (children g n) (fun mc => In (snd mc) (bk_keys g))); [|apply child_key'|exact K].
    intros s x Hx Ks. apply IH; assumption.
  Qed.

  Lemma updUp_KT : forall f start st n, In n (bk_keys g) -> KT st -> KT (updUp f true bd g start st n).
  Proof.
    induction f as [|f IH]; intros start st n Kn K; cbn [updUp]; [exact K|].
    pose proof (negaMaxStep_KT st n Kn K) as K1.
    destruct (negaMaxStep true bd g st n) as [st1 ch]. cbn [fst] in K1.
    destruct (ch || N.eqb n start); [|exact K1].
    apply (fold_KT _ (fun s (mp : N * N) => updUp f true bd g start s (snd mp)) (parents g n) (fun mp => In (snd mp) (bk_keys g))); [|apply parent_key|exact K1].
    intros s x Hx Ks. apply IH; assumption.
  Qed.

  Lemma updTop_KT : forall f st n, In n (bk_keys g) -> KT st -> KT (updTop f true bd g st n).
  Proof.
    intros f st n Kn K. unfold updTop.
    assert (K1 : KT (fold_left (fun s (mc : N * N) => updDown f true bd g s (snd mc)) (children g n) st)).
    { apply (fold_KT _ (fun s (mc : N * N) => updDown f true bd g s (snd mc)) (children g n) (fun mc => In (snd mc) (bk_keys g))); [|apply child_key'|exact K].
      intros s x Hx Ks. apply updDown_KT; assumption. }
    set (stA := fold_left (fun s (mc : N * N) => updDown f true bd g s (snd mc)) (children g n) st) in *.
    pose proof (negaMaxStep_KT stA n Kn K1) as K2.
    destruct (negaMaxStep true bd g stA n) as [stB chB]. cbn [fst] in K2.
    apply (fold_KT _ (fun s (mp : N * N) => updUp f true bd g n s (snd mp)) (parents g n) (fun mp => In (snd mp) (bk_keys g))); [|apply parent_key|exact K2].
    intros s x Hx Ks. apply updUp_KT; assumption.
  Qed.

  Lemma parents_nm_dec : forall (sc sc' : nmap scores) (l : list (N * N)),
    (forall mp, In mp l -> s_nm (scof sc' (snd mp)) = s_nm (scof sc (snd mp))) \/
    (exists mp, In mp l /\ s_nm (scof sc' (snd mp)) <> s_nm (scof sc (snd mp))).
  Proof.
    intros sc sc'. induction l as [|mp t [IH|[x [Hx Nx]]]].
    - left. intros mp [].
    - destruct (Z.eq_dec (s_nm (scof sc' (snd mp))) (s_nm (scof sc (snd mp)))) as [E|NE].
      + left. intros y [<-|Hy]; [exact E|apply IH; exact Hy].
      + right. exists mp. split; [left; reflexivity|exact NE].
    - right. exists x. split; [right; exact Hx|exact Nx].
  Qed.

  Theorem updateScores_pgood : forall start,
    In start (bk_keys g) ->
    (forall q, In q (bk_keys g) -> pgood g (bk_sc g) q) ->
    bk_err (updateScores true bd g start) = 0%N ->
    forall q, In q (bk_keys g) -> pgood g (bk_sc (updateScores true bd g start)) q.
  Proof.
    intros start Ks G E. unfold updateScores in *.
    set (fuel := fuel_of g) in *.
    set (st00 := mkUst (bk_sc g) nempty [] 0%N) in *.
    set (st0 := upd_insert st00 start) in *.
    assert (C00 : Consist st00).
    { intro x. unfold inT, st00. cbn [u_set u_list]. rewrite nget_nempty. split; [intro H; contradiction|intros []]. }
    assert (C0 : Consist st0) by (apply upd_insert_consist; exact C00).
    assert (K0 : KT st0).
    { intros x H. apply upd_insert_inT in H. destruct H as [->|H]; [exact Ks|].
      unfold inT, st00 in H. cbn [u_set] in H. rewrite nget_nempty in H. contradiction. }
    assert (S0 : u_sc st0 = bk_sc g) by (unfold st0, upd_insert, st00; cbn [u_set]; rewrite nget_nempty; reflexivity).
    pose proof (updTop_track bd g fuel st0 start) as T.
    pose proof (updTop_KT fuel st0 start Ks K0) as K1.
    set (st1 := updTop fuel true bd g st0 start) in *.
    destruct T as [Tm Tc Tp Tn]. specialize (Tc C0).
    destruct (fold_left (updPathErrors fuel g) (sort_upd g (u_list st1)) (u_sc st1, u_err st1)) as [sc2 err2] eqn:PE.
    cbn [bk_err bk_sc set_err set_sc] in E |- *.
    assert (E2 : err2 = 0%N) by lia.
    (* the path-error pass over a list of nodes *)
    assert (L : forall l s0, (forall x, In x l -> In x (bk_keys g)) ->
                snd (fold_left (updPathErrors fuel g) l s0) = 0%N ->
                let rr := fold_left (updPathErrors fuel g) l s0 in
                (forall x, In x l -> pgood g (fst rr) x) /\ (forall q, pgood g (fst s0) q -> pgood g (fst rr) q)).
    { induction l as [|x t IHl]; intros s0 Kl E0; cbn [fold_left] in *.
      - split; [intros x []|auto].
      - assert (E1 : snd (updPathErrors fuel g s0 x) = 0%N).
        { assert (M : forall l' s', (snd s' <= snd (fold_left (updPathErrors fuel g) l' s'))%N).
          { induction l' as [|y t' IHl']; intro s'; cbn [fold_left]; [lia|].
            etransitivity; [apply updPathErrors_err_mono|apply IHl']. }
          specialize (M t (updPathErrors fuel g s0 x)). rewrite E0 in M. lia. }
        destruct (updPathErrors_spec succ rk Hrk g HI Hd0 fuel s0 x (Kl x (or_introl eq_refl)) E1) as [A B].
        destruct (IHl (updPathErrors fuel g s0 x) (fun y H => Kl y (or_intror H)) E0) as [C D].
        split.
        + intros y [<-|H]; [apply D; exact A|apply C; exact H].
        + intros q Hq. apply D. apply B. exact Hq. }
    destruct (L (sort_upd g (u_list st1)) (u_sc st1, u_err st1)) as [LA LB].
    { intros x H. apply sort_upd_in in H. apply K1. apply Tc. exact H. }
    { rewrite PE. exact E2. }
    rewrite PE in LA, LB. cbn [fst] in LA, LB.
    intros q Kq.
    (* either the inputs of q's equation did not change in the negamax pass, or q is in the work set *)
    destruct (Z.eq_dec (s_nm (scof (u_sc st1) q)) (s_nm (scof (u_sc st0) q))) as [Eq|NEq].
    - destruct (parents_nm_dec (u_sc st0) (u_sc st1) (parents g q)) as [Ep|[mp [Hmp NEp]]].
      + apply LB. apply (pgood_ext g (u_sc st0)).
        * unfold pe3. destruct (Tp q) as [A B]. rewrite Eq, A, B. reflexivity.
        * intros mp Hmp. unfold pe3. destruct (Tp (snd mp)) as [A B]. rewrite (Ep mp Hmp), A, B. reflexivity.
        * rewrite S0. apply G. exact Kq.
      + destruct (Tn (snd mp) NEp) as [_ Ch]. apply LA. apply sort_upd_in. apply Tc.
        destruct mp as [m p]. cbn [snd] in *. apply (Ch (m, q)). apply (inv_parent succ g HI q m p Hmp).
    - destruct (Tn q NEq) as [Iq _]. apply LA. apply sort_upd_in. apply Tc. exact Iq.
  Qed.
End PathUpdate.

(** * the path-error equations over operation histories (requeue = true) *)

Definition PI (g : book) : Prop := forall q, In q (bk_keys g) -> eq_patherr g q = true.

Lemma PI_frame : forall g g', bk_root g' = bk_root g -> bk_keys g' = bk_keys g ->
  bk_parents g' = bk_parents g -> bk_depth g' = bk_depth g -> bk_sc g' = bk_sc g -> PI g -> PI g'.
Proof.
  unfold PI. intros g g' R K P D S H q Kq. rewrite K in Kq. rewrite <- (H q Kq).
  apply eq_patherr_ext; unfold parents, depth, score_of; rewrite ?R, ?P, ?D, ?S; try reflexivity.
  intros mp _. auto.
Qed.

Lemma flat_map_ins_parent : forall (B : Type) (f : N * N -> list B) im m p l,
  f (m, p) = [] -> flat_map f (ins_parent im m p l) = flat_map f l.
Proof.
  intros B f im m p l H. induction l as [|[m' p'] t IH]; cbn [ins_parent flat_map].
  - rewrite H. reflexivity.
  - destruct (N.eqb m m' && N.eqb p p'); [reflexivity|].
    destruct (N.ltb m m' || _); cbn [flat_map]; [rewrite H; reflexivity|rewrite IH; reflexivity].
Qed.

Lemma flat_map_nil : forall (A B : Type) (f : A -> list B) l, (forall x, In x l -> f x = []) -> flat_map f l = [].
Proof.
  intros A B f l H. induction l as [|x t IH]; cbn [flat_map]; [reflexivity|].
  rewrite H by (left; reflexivity). rewrite IH by (intros y Hy; apply H; right; exact Hy). reflexivity.
Qed.

Lemma depth0_root : forall g, DI g -> (forall q, 0 <= depth g q) ->
  forall n, In n (bk_keys g) -> (depth g n = 0 <-> n = bk_root g).
Proof.
  intros g [Kr DE] NN n Kn. destruct (eq_depth_elim g n (DE n Kn)) as [D0 [D1 D2]]. split; [|exact D0].
  intro Z0. destruct (N.eq_dec n (bk_root g)) as [E|Hne]; [exact E|]. exfalso.
  destruct (parents g n) as [|mp0 t] eqn:P.
  - rewrite (D1 Hne eq_refl) in Z0. rewrite INT_MAX_val in Z0. lia.
  - destruct (D2 Hne) as [_ [mp [_ Eq]]]; [discriminate|]. specialize (NN (snd mp)). lia.
Qed.

Section PathHist.
  Variable succ : N -> N -> option N.
  Variable rk : N -> Z.
  Variable wtm : N -> bool.
  Hypothesis Hrk : forall p m c, succ p m = Some c -> rk p < rk c.
  Hypothesis Hwtm : forall p m c, succ p m = Some c -> wtm c = negb (wtm p).
  Variable bd : bdata.
  Hypothesis Hk : costs_nonneg' bd.

  Lemma PI_updateScores : forall g start,
    Inv succ g -> DI g -> (forall q, 0 <= depth g q) -> In start (bk_keys g) -> PI g ->
    bk_err (updateScores true bd g start) = 0%N -> PI (updateScores true bd g start).
  Proof.
    unfold PI. intros g start I D NN Ks P E q Kq.
    destruct (updateScores_fields true bd g start) as [K [F [C [Pa [R [Dp Pe]]]]]].
    rewrite K in Kq.
    pose proof (updateScores_pgood succ rk Hrk bd g I (depth0_root g D NN) start Ks) as U.
    assert (G0 : forall x, In x (bk_keys g) -> pgood g (bk_sc g) x).
    { intros x Kx. unfold pgood. rewrite <- (P x Kx). apply eq_patherr_ext; try reflexivity. intros mp _. auto. }
    specialize (U G0 E q Kq). unfold pgood in U.
    apply eq_trans with (y := eq_patherr (set_sc g (bk_sc (updateScores true bd g start))) q); [|exact U].
    apply eq_patherr_ext; unfold parents, depth, score_of; rewrite ?R, ?Pa, ?Dp; try reflexivity.
    intros mp _. auto.
  Qed.

  (** adding a parent link whose new parent contributes no path-error candidate *)
  Lemma link_PI : forall g p m c,
    Inv succ g -> In p (bk_keys g) -> In c (bk_keys g) -> succ p m = Some c ->
    Par wtm (bk_depth g) -> NonNeg (bk_depth g) ->
    (forall x, In x (bk_keys g) -> x <> c -> depth g x < INT_MAX) ->
    (s_nm (score_of g c) = INVALID_SCORE \/
     (depth g c < INT_MAX /\ (s_pew (score_of g p) = INVALID_SCORE \/ s_peb (score_of g p) = INVALID_SCORE \/
                              s_nm (score_of g p) = INVALID_SCORE))) ->
    PI g -> PI (link g p m c).
  Proof.
    unfold PI. intros g p m c I Kp Kc Hs Pa NN FK Hc P.
    destruct (link_step succ wtm Hwtm g p m c I Kp Kc Hs Pa NN) as [I1 [Pa1 [NN1 [K1 [F1 [S1 [Pe1 [R1 [C1 [D1 [B1 E1]]]]]]]]]]].
    set (g1 := link g p m c) in *.
    assert (Sc : forall x, score_of g1 x = score_of g x) by (intro x; unfold score_of; rewrite S1; reflexivity).
    assert (Par1 : forall x, depth g x < INT_MAX -> Z.odd (depth g1 x) = Z.odd (depth g x)).
    { intros x Hx. rewrite <- !Z.negb_even. f_equal. destruct Pa as [_ Pr]. destruct Pa1 as [_ Pr1].
      unfold depth in *. rewrite (Pr x Hx). apply Pr1. specialize (D1 x). unfold depth in D1. lia. }
    intros q Kq. rewrite K1 in Kq. rewrite <- (P q Kq).
    destruct (N.eq_dec q c) as [->|Hqc].
    - (* the node that got the new parent *)
      unfold eq_patherr. rewrite R1, !Sc. destruct (N.eqb c (bk_root g)); [reflexivity|].
      assert (Pc : parents g1 c = ins_parent (bk_info g) m p (parents g c)).
      { unfold g1. rewrite parents_link, N.eqb_refl. reflexivity. }
      assert (Cand : pe_candidates g1 c = pe_candidates g c).
      { unfold pe_candidates. rewrite Pc.
        destruct Hc as [Hn|[Hfin Hp]].
        - rewrite !flat_map_nil; [reflexivity| |]; intros mp _; cbn zeta; rewrite ?Sc; rewrite Hn, Z.eqb_refl; rewrite ?orb_true_r; reflexivity.
        - transitivity (flat_map (fun mp : N * N =>
              let ps := score_of g (snd mp) in
              if (s_pew ps =? INVALID_SCORE) || (s_peb ps =? INVALID_SCORE) ||
                 (s_nm (score_of g c) =? INVALID_SCORE) || (s_nm ps =? INVALID_SCORE) then []
              else let delta := s_nm ps - negateScore (s_nm (score_of g c)) in
                   if Z.odd (depth g c) then [(s_pew ps + delta, s_peb ps)] else [(s_pew ps, s_peb ps + delta)])
              (ins_parent (bk_info g) m p (parents g c))).
          + apply flat_map_ext_in. intros mp _. cbn zeta. rewrite !Sc. rewrite (Par1 c Hfin). reflexivity.
          + apply flat_map_ins_parent. cbn zeta. cbn [snd].
            destruct Hp as [H|[H|H]]; rewrite H, Z.eqb_refl; rewrite ?orb_true_r; reflexivity. }
      rewrite Cand. reflexivity.
    - apply eq_patherr_ext; rewrite ?R1, ?Sc; try reflexivity.
      + unfold g1. rewrite parents_link. destruct (N.eqb_spec q c); [contradiction|reflexivity].
      + apply Par1. apply FK; assumption.
      + intros mp _. rewrite !Sc. auto.
  Qed.

  Lemma fold_plinks_PI : forall pl g h,
    Inv succ g -> In h (bk_keys g) ->
    (forall m p, In (m, p) pl -> In p (bk_keys g) /\ succ p m = Some h /\ p <> h) ->
    Par wtm (bk_depth g) -> NonNeg (bk_depth g) -> PI g ->
    (forall q, In q (bk_keys g) -> q <> h -> depth g q < INT_MAX) ->
    s_nm (score_of g h) = INVALID_SCORE ->
    PI (fold_left (fun g mp => link g (snd mp) (fst mp) h) pl g).
  Proof.
    induction pl as [|[m p] t IH]; intros g h I Kh Hpl Pa NN P FK Hn; cbn [fold_left]; [exact P|].
    cbn [fst snd]. destruct (Hpl m p (or_introl eq_refl)) as [Kp [Sp0 Hph]].
    destruct (link_step succ wtm Hwtm g p m h I Kp Kh Sp0 Pa NN) as [I1 [Pa1 [NN1 [K1 [F1 [S1 [Pe1 [R1 [C1 [D1 [B1 E1]]]]]]]]]]].
    apply IH; try assumption.
    - rewrite K1. exact Kh.
    - intros m' p' H. rewrite K1. apply Hpl. right; exact H.
    - apply link_PI; try assumption. left. exact Hn.
    - intros q Kq Hq. rewrite K1 in Kq. specialize (D1 q). specialize (FK q Kq Hq). lia.
    - unfold score_of. rewrite S1. exact Hn.
  Qed.

  Lemma fold_clinks_PI : forall cl g h,
    Inv succ g -> In h (bk_keys g) -> succ_list_ok succ h cl ->
    Par wtm (bk_depth g) -> NonNeg (bk_depth g) -> PI g ->
    (forall q, In q (bk_keys g) -> depth g q < INT_MAX) ->
    s_pew (score_of g h) = INVALID_SCORE ->
    PI (setChildRefs g h cl).
  Proof.
    unfold setChildRefs. induction cl as [|[m c] t IH]; intros g h I Kh Hs Pa NN P FK Hp; cbn [fold_left]; [exact P|].
    cbn [fst snd]. destruct (has_node g c) eqn:HN.
    - assert (Kc : In c (bk_keys g)) by (apply (inv_keys succ g I); exact HN).
      assert (Sc : succ h m = Some c) by (apply Hs; left; reflexivity).
      destruct (link_step succ wtm Hwtm g h m c I Kh Kc Sc Pa NN) as [I1 [Pa1 [NN1 [K1 [F1 [S1 [Pe1 [R1 [C1 [D1 [B1 E1]]]]]]]]]]].
      apply IH; try assumption.
      + rewrite K1. exact Kh.
      + intros m' c' H. apply Hs. right; exact H.
      + apply link_PI; try assumption.
        * intros x Kx _. apply FK. exact Kx.
        * right. split; [apply FK; exact Kc|left; exact Hp].
      + intros q Kq. rewrite K1 in Kq. specialize (D1 q). specialize (FK q Kq). lia.
      + unfold score_of. rewrite S1. exact Hp.
    - apply IH; try assumption. intros m' c' H. apply Hs. right; exact H.
  Qed.

  Lemma PI_opAdd : forall g h addr pl cl,
    GI succ wtm bd g -> DI g -> PI g -> op_wf succ g (OpAdd h addr pl cl) -> pl <> [] ->
    Z.of_nat (length (bk_keys g)) + 1 < INT_MAX ->
    bk_err (opAdd true bd g h addr pl cl) = 0%N -> PI (opAdd true bd g h addr pl cl).
  Proof.
    intros g h addr pl cl G D P W Hne Hsz E.
    assert (Dfull : DI (opAdd true bd g h addr pl cl)) by (apply (DI_opAdd succ wtm Hwtm true bd); assumption).
    assert (Gfull : GI succ wtm bd (opAdd true bd g h addr pl cl)) by (apply (GI_opAdd succ rk wtm Hrk Hwtm true bd Hk); assumption).
    destruct W as [Hfresh [Hpl Hcl]]. unfold opAdd in *.
    pose proof (gi_inv succ wtm bd g G) as I.
    destruct (no_links_outside succ g h I Hfresh) as [C0 P0].
    set (g0 := new_node g h addr (mkInfo addr 0 INVALID_SCORE 0 ST_EMPTY) INT_MAX default_scores) in *.
    assert (I0 : Inv succ g0) by (apply Inv_new_node; assumption).
    assert (K0 : bk_keys g0 = h :: bk_keys g).
    { unfold g0, new_node. cbn [bk_keys]. unfold add_key.
      destruct (mem h (bk_keys g)) eqn:M; [apply mem_in in M; contradiction|reflexivity]. }
    assert (Kh0 : In h (bk_keys g0)) by (rewrite K0; left; reflexivity).
    destruct D as [Kr DE].
    assert (Hhr : h <> bk_root g) by (intro; subst; contradiction).
    assert (D0 : forall q, q <> h -> depth g0 q = depth g q).
    { intros q Hq. unfold depth, g0, new_node. cbn [bk_depth]. apply depth_of_set_other. exact Hq. }
    assert (S0 : forall q, q <> h -> score_of g0 q = score_of g q).
    { intros q Hq. unfold score_of, g0, new_node. cbn [bk_sc]. apply scof_set_other. exact Hq. }
    assert (Sh0 : score_of g0 h = default_scores) by (unfold score_of, g0, new_node; cbn [bk_sc]; apply scof_set_same).
    assert (P0' : forall q, parents g0 q = parents g q).
    { intro q. unfold parents, g0, new_node. cbn [bk_parents]. unfold links_of. rewrite nget_nset.
      destruct (N.eqb_spec q h) as [->|_]; [symmetry; exact P0|reflexivity]. }
    assert (Pa0 : Par wtm (bk_depth g0)).
    { destruct (gi_par succ wtm bd g G) as [B Pr]. unfold g0, new_node. cbn [bk_depth]. split; intro q.
      - destruct (N.eq_dec q h) as [->|Hq]; [rewrite depth_of_set_same; lia|rewrite depth_of_set_other by exact Hq; apply B].
      - destruct (N.eq_dec q h) as [->|Hq]; [rewrite depth_of_set_same; lia|rewrite depth_of_set_other by exact Hq; apply Pr]. }
    assert (NN0 : NonNeg (bk_depth g0)).
    { intro q. unfold g0, new_node. cbn [bk_depth].
      destruct (N.eq_dec q h) as [->|Hq]; [rewrite depth_of_set_same; rewrite INT_MAX_val; lia|rewrite depth_of_set_other by exact Hq; apply (gi_nonneg succ wtm bd g G)]. }
    assert (PI0 : PI g0).
    { unfold PI in *. intros q Kq. rewrite K0 in Kq. destruct Kq as [<-|Kq].
      - unfold eq_patherr. change (bk_root g0) with (bk_root g). destruct (N.eqb_spec h (bk_root g)) as [|_]; [contradiction|].
        unfold pe_candidates. rewrite P0', P0. cbn [flat_map]. rewrite Sh0. reflexivity.
      - assert (Hq : q <> h) by (intro; subst; contradiction).
        rewrite <- (P q Kq). apply eq_patherr_ext; try reflexivity.
        + apply P0'.
        + rewrite D0 by exact Hq. reflexivity.
        + rewrite S0 by exact Hq. reflexivity.
        + rewrite S0 by exact Hq. reflexivity.
        + rewrite S0 by exact Hq. reflexivity.
        + intros [m p] Hin. cbn [snd]. rewrite P0' in Hin.
          pose proof (inv_parent succ g I q m p Hin) as C. destruct (inv_child succ g I p m q C) as [Kp _].
          rewrite S0 by (intro; subst; contradiction). auto. }
    assert (FK0 : forall q, In q (bk_keys g0) -> q <> h -> depth g0 q < INT_MAX).
    { intros q Kq Hq. rewrite K0 in Kq. destruct Kq as [E0|Kq]; [congruence|].
      rewrite D0 by exact Hq. pose proof (gi_fin succ wtm bd g G q Kq). lia. }
    assert (Hpl0 : forall m p, In (m, p) pl -> In p (bk_keys g0) /\ succ p m = Some h /\ p <> h).
    { intros m p H. destruct (Hpl m p H) as [A B]. split; [rewrite K0; right; exact A|]. split; [exact B|]. intro; subst; contradiction. }
    set (g2 := fold_left (fun g mp => link g (snd mp) (fst mp) h) pl g0) in *.
    set (g3 := setChildRefs g2 h cl) in *.
    destruct (fold_plinks succ wtm Hwtm pl g0 h I0 Kh0) as [I2 [Pa2 [NN2 [K2 [F2 [S2 [Pe2 [C2 [D2 [B2 [_ _]]]]]]]]]]]; try assumption.
    { intros m p H. destruct (Hpl0 m p H) as [A [B _]]. split; assumption. }
    fold g2 in I2, Pa2, NN2, K2, F2, S2, Pe2, C2, D2, B2.
    assert (PI2 : PI g2).
    { apply fold_plinks_PI; try assumption. rewrite Sh0. reflexivity. }
    assert (FK2 : forall q, In q (bk_keys g2) -> depth g2 q < INT_MAX).
    { intros q Kq. rewrite K2, K0 in Kq. destruct Kq as [<-|Kq].
      - destruct pl as [|[m p] t]; [contradiction|].
        destruct (B2 m p (or_introl eq_refl)) as [Bh _]. destruct (Hpl m p (or_introl eq_refl)) as [Kp _].
        assert (Hp : p <> h) by (intro; subst; contradiction).
        pose proof (gi_fin succ wtm bd g G p Kp). rewrite (D0 p Hp) in Bh. lia.
      - assert (Hq : q <> h) by (intro; subst; contradiction).
        specialize (D2 q). assert (Kq0 : In q (bk_keys g0)) by (rewrite K0; right; exact Kq).
        pose proof (FK0 q Kq0 Hq). lia. }
    assert (PI3 : PI g3).
    { apply fold_clinks_PI; try assumption; [rewrite K2; exact Kh0|].
      unfold score_of. rewrite S2. fold (score_of g0 h). rewrite Sh0. reflexivity. }
    destruct (fold_clinks succ rk wtm Hrk Hwtm cl g2 h I2) as [I3 [Pa3 [NN3 [K3 _]]]]; try assumption.
    { rewrite K2. exact Kh0. }
    fold g3 in I3, Pa3, NN3, K3.
    (* DI of g3: recovered from the depth invariant of the final state *)
    assert (D3 : DI g3).
    { destruct (updateScores_fields true bd g3 h) as [K4 [F4 [C4 [P4 [R4 [D4 _]]]]]].
      apply (DI_frame (set_state (updateScores true bd g3 h) h ST_INITIALIZED)); [| | | |exact Dfull];
        cbn [set_state set_info bk_root bk_keys bk_parents bk_depth]; symmetry; assumption. }
    assert (E3 : bk_err (updateScores true bd g3 h) = 0%N) by exact E.
    assert (PI4 : PI (updateScores true bd g3 h)).
    { apply PI_updateScores; try assumption. rewrite K3, K2. exact Kh0. }
    destruct (updateScores_fields true bd g3 h) as [K4 [F4 [C4 [P4 [R4 [D4 _]]]]]].
    apply (PI_frame (updateScores true bd g3 h)); try reflexivity. exact PI4.
  Qed.

  (** all invariants together *)
  Definition KI (g : book) : Prop := GI succ wtm bd g /\ DI g /\ PI g.

  Lemma KI_apply_op : forall g o, KI g -> op_ok succ g o -> bk_err (apply_op true bd g o) = 0%N -> KI (apply_op true bd g o).
  Proof.
    intros g o [G [D P]] W E.
    destruct (JI_apply_op succ rk wtm Hrk Hwtm true bd Hk g o (conj G D) W E) as [G' D'].
    split; [exact G'|]. split; [exact D'|].
    destruct W as [W X]. destruct o as [h addr pl cl|h mv s t|h|h|recs addrs sl]; cbn [apply_op] in *.
    - destruct X as [X1 X2]. apply PI_opAdd; assumption.
    - unfold opSet in *. apply PI_updateScores; try assumption;
        try (intro q; apply (gi_nonneg succ wtm bd g G));
        try (apply Inv_set_info; [apply (gi_inv succ wtm bd g G)|exact W]);
        try (apply (DI_frame g); try reflexivity; exact D);
        try (apply (PI_frame g); try reflexivity; exact P).
    - unfold opPend in *. apply PI_updateScores; try assumption;
        try (intro q; apply (gi_nonneg succ wtm bd g G));
        try (apply Inv_set_pending; apply (gi_inv succ wtm bd g G));
        try (apply (DI_frame g); try reflexivity; exact D);
        try (apply (PI_frame g); try reflexivity; exact P).
    - unfold opUnpend in *. apply PI_updateScores; try assumption;
        try (intro q; apply (gi_nonneg succ wtm bd g G));
        try (apply Inv_set_pending; apply (gi_inv succ wtm bd g G));
        try (apply (DI_frame g); try reflexivity; exact D);
        try (apply (PI_frame g); try reflexivity; exact P).
    - destruct X.
  Qed.

  Lemma KI_run : forall ops g, KI g -> ops_ok succ true bd g ops -> bk_err (run true bd g ops) = 0%N -> KI (run true bd g ops).
  Proof.
    induction ops as [|o t IH]; intros g J H E; cbn [run fold_left] in *; [exact J|].
    destruct H as [H1 H2].
    assert (E1 : bk_err (apply_op true bd g o) = 0%N).
    { pose proof (run_err_mono succ true bd t _ H2) as M. unfold run in M. rewrite E in M. lia. }
    apply IH; [apply KI_apply_op; assumption|exact H2|exact E].
  Qed.

  Lemma PI_newBook : forall r a, PI (newBook r a).
  Proof.
    intros r a. rewrite newBook_eq.
    set (g := new_node (empty_book r) r a (mkInfo a 0 INVALID_SCORE 0 ST_INITIALIZED) 0 root_scores).
    unfold PI. intros q Kq. assert (K : bk_keys g = [r]) by reflexivity. rewrite K in Kq. destruct Kq as [<-|[]].
    unfold eq_patherr. change (bk_root g) with r. rewrite N.eqb_refl.
    unfold score_of, g, new_node. cbn [bk_sc]. rewrite scof_set_same. reflexivity.
  Qed.

  (** THE FIXED CODE: after every history of add / set / pending operations every node
      satisfies ALL its defining equations *)
  Theorem fixpoint_fixed : forall root addr ops,
    wtm root = true ->
    ops_ok succ true bd (newBook root addr) ops ->
    let g := run true bd (newBook root addr) ops in
    bk_err g = 0%N -> all_equations bd g.
  Proof.
    intros root addr ops Hr W g E q Kq.
    assert (J : KI g).
    { apply KI_run; [|exact W|exact E].
      split; [apply (GI_newBook succ wtm bd); exact Hr|]. split; [apply DI_newBook|apply PI_newBook]. }
    destruct J as [G [[_ D] P]].
    destruct (gi_good succ wtm bd g G q Kq) as [A [B C]].
    unfold node_ok. split; [exact A|]. split; [exact B|]. split; [exact C|]. split; [apply P; exact Kq|].
    split; [apply D; exact Kq|]. apply (Inv_eq_links succ g (gi_inv succ wtm bd g G)). exact Kq.
  Qed.
End PathHist.
