(** C18 — the opening book never yields an illegal move.
    Only statements; every proof is [exact <lemma>] into Book/BookTheorems.v.
    Model: Book/Polyglot.v, Book/BuiltIn.v (tied to lib/texellib/book/{book,polyglot}.cpp and
    util/random.cpp by the correspondence check; numeric tables regenerated into
    gen/PolyglotRandoms.v).  The position's legal-move list [legal] is an input of the model
    (delivered by the real MoveGen in the correspondence; its correctness is C01). *)
From Coq Require Import ZArith NArith List.
From Texel Require Import Chess.Types gen.PolyglotRandoms Book.Polyglot Book.BuiltIn Book.BookSpec
  Book.PolyglotProofs Book.SearchProofs Book.RangeProofs Book.DecodeProofs Book.CodecProofs Book.BookTheorems.
Import ListNotations.
Local Open Scope Z_scope.

(** For EVERY file content (any byte list of any length, or no file at all), every key, every
    position, every legal-move list and every random number: the probe produces a result (the
    search fuel suffices), the result is the empty move or a member of [legal], and the
    "should never get here" assert is unreachable when [rnd] is below the weight sum. *)
Theorem C18_result_legal : forall (f : bookFile) (key : N) (pos : position) (legal : list move) (rnd : Z),
  match pgBookMove f key pos legal rnd with
  | None => False
  | Some (OutMove m) => m = emptyMove \/ In m legal
  | Some OutAssert =>
      forall pr, getBookEntriesPG f key pos = Some pr -> ~ (0 <= rnd < weightSum pgWeight (pr_cands pr))
  end.
Proof. exact result_legal. Qed.
Print Assumptions C18_result_legal.

(** The binary search ends within floor(log2 n)+1 reads, every entry read by the search and by
    the collection loop lies completely inside the file (the zero-fill branch of readEntry is dead
    for regular files), and for files below 2 GB the int quantities numEntries, lo+hi and
    entNo*16 stay inside [int]. *)
Theorem C18_search_terminates : forall f key pos,
  exists pr, getBookEntriesPG f key pos = Some pr /\
    0 <= pr_hi pr <= numEntries f /\
    Z.of_nat (length (pr_reads pr)) <= (if numEntries f <=? 0 then 0 else Z.log2 (numEntries f) + 1) /\
    Forall (fun m => 0 <= m * pgEntSize /\ m * pgEntSize + pgEntSize <= fileLen f) (pr_reads pr) /\
    (forall e, pr_hi pr <= e < numEntries f -> 0 <= e * pgEntSize /\ e * pgEntSize + pgEntSize <= fileLen f) /\
    (fileLen f <= intMax ->
       inInt (numEntries f) = true /\ inInt (2 * numEntries f) = true /\
       forall e, -1 <= e <= numEntries f -> inInt (e * pgEntSize) = true).
Proof. exact search_terminates. Qed.
Print Assumptions C18_search_terminates.

(** On a file sorted by key the candidates are exactly the entries stored under the key, decoded,
    in file order. *)
Theorem C18_sorted_book_exact : forall f key pos, sortedFile f ->
  exists pr, getBookEntriesPG f key pos = Some pr /\
    pr_cands pr = map (decodeCand pos) (filter (fun e => (entHash e =? key)%N) (fileEntries f)).
Proof. exact sorted_book_exact. Qed.
Print Assumptions C18_sorted_book_exact.

(** PolyglotBook::getMove over the regenerated field/promotion/castling tables is the polyglot
    format's definition of a move code (Book/BookSpec.v, literal constants) — for every position
    and every 16-bit code; hence on a sorted file the candidates are the stored entries decoded
    by the format's definition. *)
Theorem C18_move_decode_spec : forall pos mv, (mv < 65536)%N -> getMove pos mv = specDecode pos mv.
Proof. exact move_decode_spec. Qed.
Print Assumptions C18_move_decode_spec.

Theorem C18_candidates_decode_spec : forall f key pos pr, sortedFile f -> getBookEntriesPG f key pos = Some pr ->
  pr_cands pr = map (fun e => (specDecode pos (entMove e), Z.of_N (entWeight e)))
                    (filter (fun e => (entHash e =? key)%N) (fileEntries f)).
Proof. exact candidates_decode_spec. Qed.
Print Assumptions C18_candidates_decode_spec.

(** Round trips: entry codec (every 64-bit hash, 16-bit move and weight) and move codec
    (getMove reads back what getPGMove writes, for every move with squares on the board and a
    promotion piece of the side to move, except the never-legal king-takes-own-rook pattern). *)
Theorem C18_entry_codec_roundtrip : forall h m w, (h < two64)%N -> (m < 65536)%N -> (w < 65536)%N ->
  deSerialize (serialize h m w) = mkEnt h m w /\ length (serialize h m w) = 16%nat.
Proof. exact entry_codec_roundtrip. Qed.
Print Assumptions C18_entry_codec_roundtrip.

Theorem C18_pgmove_roundtrip : forall pos m,
  roundTripDomain (whiteMove pos) (getPiece pos (mfrom m)) m = true ->
  getMove pos (getPGMove pos m) = m.
Proof. exact pgmove_decode_roundtrip. Qed.
Print Assumptions C18_pgmove_roundtrip.

(** Every stored move of positive weight (all moves under the key being legal, the weight sum
    within the limit the probe accepts) is returned for some random number below the sum, and
    Random::nextInt delivers that number. *)
Theorem C18_positive_weight_reachable : forall f key pos legal e,
  sortedFile f -> In e (fileEntries f) -> entHash e = key -> (0 < entWeight e)%N ->
  (forall e', In e' (fileEntries f) -> entHash e' = key -> In (getMove pos (entMove e')) legal) ->
  exists pr, getBookEntriesPG f key pos = Some pr /\
    (weightSum pgWeight (pr_cands pr) <= sumLimit ->
     exists rnd, 0 <= rnd < weightSum pgWeight (pr_cands pr) /\
       pgBookMove f key pos legal rnd = Some (OutMove (getMove pos (entMove e))) /\
       nextIntTry (weightSum pgWeight (pr_cands pr)) (Z.to_N rnd) = Some rnd).
Proof. exact positive_weight_reachable. Qed.
Print Assumptions C18_positive_weight_reachable.

(** Weights are 16-bit.  For ANY number of entries under the key: every addition the first loop
    executes stays inside [int] (it leaves at the first running sum above 2^30), and when it runs
    to the end the sum is the exact total, lies in [0, 2^30], and every prefix sum of the second
    loop is inside [int].  (Before the fix of /repo commit "give no book move when the polyglot
    weight sum exceeds 2^30" this needed count * 65535 < 2^31: former finding F7.) *)
Theorem C18_weight_sum_range : forall f key pos legal pr, getBookEntriesPG f key pos = Some pr ->
  Forall weightOk (pr_cands pr) /\
  loop1InInt pgWeight legal (pr_cands pr) 0 = true /\
  (forall sum, sumLegal pgWeight legal (pr_cands pr) 0 = Some sum ->
     0 <= sum <= sumLimit /\ sum = weightSum pgWeight (pr_cands pr) /\ sumsInInt pgWeight (pr_cands pr) 0 = true).
Proof. exact weight_sum_range. Qed.
Print Assumptions C18_weight_sum_range.

(** Above the limit the probe gives no move, for every legal list and random number. *)
Theorem C18_over_limit_no_move : forall wf legal ents rnd,
  (forall e, In e ents -> 0 <= wf (snd e)) -> sumLimit < weightSum wf ents ->
  getBookMove wf legal ents rnd = OutMove emptyMove.
Proof. exact over_limit_no_move. Qed.
Print Assumptions C18_over_limit_no_move.

(** Whenever Book::getBookMove reaches Random::nextInt(sum) (any book kind, any weight function)
    0 < sum <= 2^30: each trial of the rejection loop is accepted with probability above 1/2 (so the
    loop ends with probability one), results are below the sum, every value below the sum can be
    delivered.  (Former finding: above 2^30 no trial was ever accepted and the probe hung.) *)
Theorem C18_choice_terminates : forall wf legal ents sum,
  sumLegal wf legal ents 0 = Some sum -> 0 < sum ->
  sum <= 1073741824 /\
  536870912 < nextIntMaxVal sum <= 1073741824 /\
  (forall u, Z.of_N u mod 1073741824 < nextIntMaxVal sum -> nextIntTry sum u <> None) /\
  (forall u r, nextIntTry sum u = Some r -> 0 <= r < sum) /\
  (forall rnd, 0 <= rnd < sum -> nextIntTry sum (Z.to_N rnd) = Some rnd).
Proof. exact choice_terminates. Qed.
Print Assumptions C18_choice_terminates.

(** Built-in book: for every book map, weight function, legal list and random number. *)
Theorem C18_builtin_legal : forall bm zob wf legal rnd,
  match builtinBookMove bm zob wf legal rnd with
  | OutMove m => m = emptyMove \/ In m legal
  | OutAssert => ~ (0 <= rnd < weightSum wf (getBookEntriesBuiltin bm zob))
  end.
Proof. exact builtin_legal. Qed.
Print Assumptions C18_builtin_legal.

Theorem C18_builtin_reachable : forall bm zob wf legal m c,
  Forall (fun e => In (fst e) legal) (getBookEntriesBuiltin bm zob) ->
  (forall e, In e (getBookEntriesBuiltin bm zob) -> 0 <= wf (snd e)) ->
  weightSum wf (getBookEntriesBuiltin bm zob) <= sumLimit ->
  In (m, c) (getBookEntriesBuiltin bm zob) -> 0 < wf c ->
  exists rnd, 0 <= rnd < weightSum wf (getBookEntriesBuiltin bm zob) /\
              builtinBookMove bm zob wf legal rnd = OutMove m.
Proof. exact builtin_reachable. Qed.
Print Assumptions C18_builtin_reachable.

(** getHashKey never indexes outside hashRandoms (781 regenerated constants). *)
Theorem C18_hash_indices_in_table : forall pos,
  Forall (fun i => (N.to_nat i < length hashRandoms)%nat) (hashIndices pos).
Proof. exact hash_indices_in_table. Qed.
Print Assumptions C18_hash_indices_in_table.
