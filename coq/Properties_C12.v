(** C12 — on-demand endgame tables hold the exact distance to mate.
    Only statements; every proof is [exact <lemma>] into TB/*.v.

    Specification side: TB/DtmCert.v (game-theoretic values of any finite-branching game),
    TB/MiniChess.v (rules of chess for pawnless positions of a material class, mailbox style).
    Executable checker: TB/Checker.v (extracted and run on the complete dump of what the real
    probeDTM answers at every placement, both sides to move, both storage back ends).
    Abort state machine: TB/Probe.v (tied to TranspositionTable::updateTB by op-sequence
    correspondence). *)
From Coq Require Import List ZArith Bool.
From Texel Require Import TB.DtmCert TB.MiniChess TB.MiniChessFacts TB.Checker TB.CheckerProofs TB.Probe.
Import ListNotations.

(** For ANY game graph (no bound on its size): a labelling that satisfies the local
    conditions [L p = expected L p] on a set of positions closed under moves is the exact
    game-theoretic value there: Win n <-> mate in exactly n, Loss n <-> mated in exactly n,
    Draw <-> neither side can force mate. *)
Theorem C12_dtm_certificate :
  forall (pos : Type) (moves : pos -> list pos) (in_check : pos -> bool)
         (S_ : pos -> Prop) (L : pos -> label),
    (forall p c, S_ p -> In c (moves p) -> S_ c) ->
    (forall p, S_ p -> L p = expected moves in_check L p) ->
    forall p, S_ p ->
      (forall n, L p = Win n <-> mate_in moves in_check n p) /\
      (forall n, L p = Loss n <-> mated_in moves in_check n p) /\
      (L p = Draw <-> drawn moves in_check p).
Proof. exact dtm_certificate. Qed.
Print Assumptions C12_dtm_certificate.

(** A dumped table that passes the extracted checker is exact for chess: at every legal
    position of the material class (and of every sub-class reached by captures) the engine's
    answer is found, and it is Win n / Loss n / Draw exactly when the position is a mate in n /
    mated in n / drawn under the MiniChess rules. *)
Theorem C12_check_table_sound :
  forall (cls : list man) (T : table), check_table cls T = true ->
    forall p, legalb cls p = true ->
      (forall n, T (digits_of p) (wtm p) = TL (Win n) <-> mate_in (moves cls) (in_check cls) n p) /\
      (forall n, T (digits_of p) (wtm p) = TL (Loss n) <-> mated_in (moves cls) (in_check cls) n p) /\
      (T (digits_of p) (wtm p) = TL Draw <-> drawn (moves cls) (in_check cls) p).
Proof. intros cls T H. exact (proj1 (check_table_sound cls T H)). Qed.
Print Assumptions C12_check_table_sound.

(** The specification's move generator maps legal positions of a class to legal positions of
    the class (same men, on the board, no two on one square, kings never captured, mover not in
    check): the closure hypothesis of the certificate for the chess game, proved, not assumed. *)
Theorem C12_rules_closed :
  forall (cls : list man) (p c : pos),
    legalb cls p = true -> In c (moves cls p) -> legalb cls c = true.
Proof. exact moves_preserve_legal. Qed.
Print Assumptions C12_rules_closed.

(** Scope of the probe inside the class: a well-formed placement that is not a legal position
    (the side not to move is in check: "the king can be taken", which includes adjacent kings)
    is answered "not found", never with a value. *)
Theorem C12_probe_scope :
  forall (cls : list man) (T : table), check_table cls T = true ->
    forall p, wfb cls p = true -> legalb cls p <> true -> T (digits_of p) (wtm p) = TNotFound.
Proof. intros cls T H. exact (proj2 (check_table_sound cls T H)). Qed.
Print Assumptions C12_probe_scope.

(** The engine's score encoding of the values (tbgen.cpp probeDTM) is the search's "mated at
    ply" convention (C04), shifts with the probe ply as the search expects, and the decoder
    used on the dump inverts it. *)
Theorem C12_score_encoding :
  (forall ply l, score_of_label ply l =
     match l with
     | Win _ => (MATE0 - ((ply + plies l) + 1))%Z
     | Loss _ => (- (MATE0 - ((ply + plies l) + 1)))%Z
     | Draw => 0%Z
     end) /\
  (forall s l, label_of_score s = Some l -> score_of_label 0 l = s) /\
  (forall l, match l with Win n => 1 <= n <= 63 | Loss n => n <= 62 | Draw => True end ->
             label_of_score (score_of_label 0 l) = Some l).
Proof. exact (conj score_matches_search_convention (conj label_of_score_inj label_of_score_of_label)). Qed.
Print Assumptions C12_score_encoding.

(** The parallel split run by the driver (one process per group of first digits) is the check. *)
Theorem C12_check_split :
  forall (cls : list man) (T : table), cls <> [] -> check_table_split cls T = check_table cls T.
Proof. exact check_table_split_eq. Qed.
Print Assumptions C12_check_split.

(** Abort state machine over SEVERAL material classes and the one shared table region
    (TB/Probe.v): for the code as it stands (a failed generator is dropped, whatever was installed
    before), for every history of updateTB(c, outcome incl. abort point) / hash traffic / clear /
    unsuitable roots / probes, a probe only ever answers from the complete table of the
    generator's own class. *)
Theorem C12_abort_state :
  forall (C : Type) (ceq : C -> C -> bool), (forall c, ceq c c = true) -> abort_state_safe C ceq Fixed.
Proof. exact abort_state_fixed. Qed.
Print Assumptions C12_abort_state.

(** ... in particular an aborted (re)build leaves nothing installed *)
Theorem C12_abort_installs_nothing :
  forall (C : Type) (ceq : C -> C -> bool) (s : st C) (c : C) (pre : bool) (ph : nat),
    (installed C s && pre) = false ->
    gen C (fst (fst (pstep C ceq Fixed s (OUpdate c pre true (GenAborted ph))))) = None.
Proof. exact fixed_abort_installs_nothing. Qed.
Print Assumptions C12_abort_installs_nothing.

(** The same statement is FALSE for the code before b8efb91 (a failed generator stays
    installed; witness "generation aborted, then a probe") ... *)
Theorem C12_abort_state_refuted :
  exists ops : list (op nat), reads_unsound nat Nat.eqb Current ops = true.
Proof. exact abort_state_current_refuted. Qed.
Print Assumptions C12_abort_state_refuted.

(** ... and for the shape "build aside, install on success, failure branch touches nothing"
    (the previous generator stays installed over the overwritten shared region; witness
    "class 0 complete, rebuild for class 1 aborted, class 0 probed").  The check replays such
    multi-class histories on the real TranspositionTable on every run and decides which
    variant /repo matches. *)
Theorem C12_abort_rebuild_refuted :
  exists ops : list (op nat), reads_unsound nat Nat.eqb KeepOld ops = true.
Proof. exact abort_state_keepold_refuted. Qed.
Print Assumptions C12_abort_rebuild_refuted.

(** Not attempted (marked "stretch" in DESIGN.md): C12_retrograde_correct, a proof that the
    retrograde ALGORITHM of TBGenerator::generate always produces a labelling satisfying the
    certificate (it needs a model of the generator and of TBIndex, which does not exist).  The
    claim made for C12 does not rest on it: every generated table is certified after the fact. *)
