(** C03 — every search result is a legal, well-formed answer in any configuration.
    Only statements; every proof is [exact <lemma>] into Root/{RootFacts,PvProofs,RootProofs,RootTheorems}.v.

    Model: Root/Root.v (tied to search.cpp / enginecontrol.cpp / transpositionTable.cpp / tbprobe.cpp by the
    correspondence check and to the UCI behaviour of the real engine by the finder of props/c03.py).
    Quantified over: the legal-move list of the root [legal], the requested searchmoves [sm], every oracle stream
    [s] (scores, node counts, table contents, clock outcomes, stop events), every option value (MultiPV, depth,
    strength, random seed, move-ordering scores, tablebase verdicts) and every world
    (positions P with makeMove [mk], legal-move lists [legalAt], hashes [zh]/[hh], DTM oracle [dtm]). *)
From Coq Require Import ZArith NArith List Bool.
From Texel Require Import Chess.Types gen.RootConsts Root.Root Root.RootFacts Root.PvProofs Root.RootProofs Root.RootTheorems.
Import ListNotations.
Local Open Scope Z_scope.

(** the move answered is a legal move of the root and, when searchmoves were given, one of them — for every
    strength, MultiPV, limit and stop point (the stream may end or stop anywhere, incl. inside iteration 1) *)
Theorem C03_bestmove_legal :
  forall (P TT : Type) (probe : TT -> N -> option move) (mk : P -> move -> P) (legalAt : P -> list move)
         (zh hh : P -> N) (dtm : P -> Z -> option Z) (hmcOf : P -> Z) (wtmOf : P -> bool) (root : P) (cfg : config)
         (legal sm : list move) (limited tbWin : bool) (prog bad : move -> bool) (ord : move -> Z)
         (strength : Z) (rnd0 : N) (s : list (event TT)) (b : move) (reps : list (list line)),
    legalAt root = legal -> NoDup legal -> startMoves legal sm <> [] ->
    iterativeDeepening P TT probe mk legalAt zh hh dtm hmcOf wtmOf root cfg
                       (startMoves legal sm) legal limited tbWin prog bad ord strength rnd0 s = IdAnswer b reps ->
    In b legal /\ (sm <> [] -> In b sm).
Proof. exact bestmove_legal. Qed.
Print Assumptions C03_bestmove_legal.

(** the set searched is exactly legal ∩ searchmoves (all legal moves when no searchmoves are given) *)
Theorem C03_searchmoves_filter : forall legal sm m,
  In m (startMoves legal sm) <-> In m legal /\ (sm = [] \/ In m sm).
Proof. exact startMoves_In. Qed.
Print Assumptions C03_searchmoves_filter.

(** no move to search (no legal move, or no requested move is legal) => the null move, no ponder move *)
Theorem C03_no_moves_null :
  forall (P TT : Type) (probe : TT -> N -> option move) (mk : P -> move -> P) (legalAt : P -> list move)
         (zh hh : P -> N) (dtm : P -> Z -> option Z) (hmcOf : P -> Z) (wtmOf : P -> bool) (root : P) (cfg : config)
         (legal sm : list move) (limited tbWin : bool) (prog bad : move -> bool) (ord : move -> Z)
         (strength : Z) (rnd0 : N) (s : list (event TT)) (ttEnd : TT),
    startMoves legal sm = [] ->
    engineAnswer P TT probe mk legalAt zh hh dtm hmcOf wtmOf root cfg
                 legal sm limited tbWin prog bad ord strength rnd0 s ttEnd = Some (emptyMove, emptyMove, []).
Proof. exact no_moves_null. Qed.
Print Assumptions C03_no_moves_null.

(** ... and only then: with something to search the answer is never the null move *)
Theorem C03_null_only_without_moves :
  forall (P TT : Type) (probe : TT -> N -> option move) (mk : P -> move -> P) (legalAt : P -> list move)
         (zh hh : P -> N) (dtm : P -> Z -> option Z) (hmcOf : P -> Z) (wtmOf : P -> bool) (root : P) (cfg : config)
         (legal sm : list move) (limited tbWin : bool) (prog bad : move -> bool) (ord : move -> Z)
         (strength : Z) (rnd0 : N) (s : list (event TT)) (ttEnd : TT) (b p : move) (r : list (list line)),
    legalAt root = legal -> NoDup legal -> (forall m, In m legal -> isEmptyMove m = false) ->
    startMoves legal sm <> [] ->
    engineAnswer P TT probe mk legalAt zh hh dtm hmcOf wtmOf root cfg
                 legal sm limited tbWin prog bad ord strength rnd0 s ttEnd = Some (b, p, r) ->
    isEmptyMove b = false.
Proof. exact null_only_without_moves. Qed.
Print Assumptions C03_null_only_without_moves.

(** getRootMoves: for every strength (incl. the reduced-strength subset), random seed, move ordering and
    tablebase verdict the list the search iterates over exists (no rndL % 0), is non-empty, duplicate-free
    and a subset of the list it was given *)
Theorem C03_rootmoves_nonempty :
  forall (rootMovesIn legal : list move) (limited tbWin : bool) (prog bad : move -> bool) (ord : move -> Z)
         (strength : Z) (rnd0 : N),
    rootMovesIn <> [] -> NoDup rootMovesIn -> incl rootMovesIn legal ->
    exists rm, getRootMoves rootMovesIn legal limited tbWin prog bad ord strength rnd0 = Some rm /\
               rm <> [] /\ NoDup (movesOf rm) /\ incl (movesOf rm) rootMovesIn /\ Forall freshMI rm.
Proof. exact getRootMoves_spec. Qed.
Print Assumptions C03_rootmoves_nonempty.

(** every PV of every info line is non-empty, starts with a root move and is playable move by move: each move is
    in the legal-move list of the position it is played in *)
Theorem C03_pv_playable :
  forall (P TT : Type) (probe : TT -> N -> option move) (mk : P -> move -> P) (legalAt : P -> list move)
         (zh hh : P -> N) (dtm : P -> Z -> option Z) (hmcOf : P -> Z) (wtmOf : P -> bool) (root : P) (cfg : config)
         (legal sm : list move) (limited tbWin : bool) (prog bad : move -> bool) (ord : move -> Z)
         (strength : Z) (rnd0 : N) (s : list (event TT)) (b : move) (reps : list (list line)),
    legalAt root = legal -> NoDup legal -> startMoves legal sm <> [] ->
    iterativeDeepening P TT probe mk legalAt zh hh dtm hmcOf wtmOf root cfg
                       (startMoves legal sm) legal limited tbWin prog bad ord strength rnd0 s = IdAnswer b reps ->
    forall rep l, In rep reps -> In l rep ->
      l_pv l <> [] /\ playableFrom P mk legalAt root (l_pv l) /\
      In (firstMove l) (startMoves legal sm) /\ 0 < l_depth l.
Proof. exact lines_playable. Qed.
Print Assumptions C03_pv_playable.

(** lines of one report start with pairwise distinct moves and carry pairwise distinct multipv numbers (or none) *)
Theorem C03_multipv_distinct :
  forall (P TT : Type) (probe : TT -> N -> option move) (mk : P -> move -> P) (legalAt : P -> list move)
         (zh hh : P -> N) (dtm : P -> Z -> option Z) (hmcOf : P -> Z) (wtmOf : P -> bool) (root : P) (cfg : config)
         (legal sm : list move) (limited tbWin : bool) (prog bad : move -> bool) (ord : move -> Z)
         (strength : Z) (rnd0 : N) (s : list (event TT)) (b : move) (reps : list (list line)),
    legalAt root = legal -> NoDup legal -> startMoves legal sm <> [] ->
    iterativeDeepening P TT probe mk legalAt zh hh dtm hmcOf wtmOf root cfg
                       (startMoves legal sm) legal limited tbWin prog bad ord strength rnd0 s = IdAnswer b reps ->
    forall rep, In rep reps ->
      NoDup (map firstMove rep) /\
      (NoDup (map l_multipv rep) \/ Forall (fun l => l_multipv l = -1) rep).
Proof. exact multipv_distinct. Qed.
Print Assumptions C03_multipv_distinct.

(** the PV extraction itself: every move taken from the table passed the membership test in the legal-move list of
    the position it is played in, and the PV starts with the move it was asked for *)
Theorem C03_pv_extract_playable :
  forall (P TT : Type) (probe : TT -> N -> option move) (mk : P -> move -> P) (legalAt : P -> list move)
         (zh hh : P -> N) (tab : TT) (pos : P) (m : move) (hist : list N) (fuel : nat) (pv : list move),
    In m (legalAt pos) ->
    extractPVMoves P TT probe mk legalAt zh hh fuel tab pos m hist = Some pv ->
    (exists t, pv = m :: t) /\ playableFrom P mk legalAt pos pv.
Proof. exact pv_playable. Qed.
Print Assumptions C03_pv_extract_playable.

(** extraction terminates: if the Zobrist hashes lie in a finite set U, |U|+1 iterations suffice and the PV has
    at most |U|+1 moves *)
Theorem C03_pv_terminates :
  forall (P TT : Type) (probe : TT -> N -> option move) (mk : P -> move -> P) (legalAt : P -> list move)
         (zh hh : P -> N) (U : list N),
    (forall p, In (zh p) U) ->
    forall fuel tab pos m,
      (length U < fuel)%nat ->
      exists pv, extractPVMoves P TT probe mk legalAt zh hh fuel tab pos m [] = Some pv /\ (length pv <= S (length U))%nat.
Proof. exact pv_terminates. Qed.
Print Assumptions C03_pv_terminates.

(** TBProbe::extendPV keeps a playable PV playable and keeps its first move *)
Theorem C03_pv_extend_playable :
  forall (P : Type) (mk : P -> move -> P) (legalAt : P -> list move) (dtm : P -> Z -> option Z) (hmcOf : P -> Z)
         (wtmOf : P -> bool) (fuel : nat) (root : P) (m : move) (t pv' : list move),
    playableFrom P mk legalAt root (m :: t) ->
    extendPV P mk legalAt dtm hmcOf wtmOf fuel root (m :: t) = Some pv' ->
    (exists t', pv' = m :: t') /\ playableFrom P mk legalAt root pv'.
Proof. exact extendPV_playable. Qed.
Print Assumptions C03_pv_extend_playable.

(** the ponder move is absent or a legal move of the position after the best move *)
Theorem C03_ponder_legal :
  forall (P TT : Type) (probe : TT -> N -> option move) (mk : P -> move -> P) (legalAt : P -> list move)
         (zh hh : P -> N) (dtm : P -> Z -> option Z) (hmcOf : P -> Z) (wtmOf : P -> bool) (root : P) (cfg : config)
         (legal sm : list move) (limited tbWin : bool) (prog bad : move -> bool) (ord : move -> Z)
         (strength : Z) (rnd0 : N) (s : list (event TT)) (ttEnd : TT) (b p : move) (r : list (list line)),
    engineAnswer P TT probe mk legalAt zh hh dtm hmcOf wtmOf root cfg
                 legal sm limited tbWin prog bad ord strength rnd0 s ttEnd = Some (b, p, r) ->
    p = emptyMove \/ (isEmptyMove b = false /\ In p (legalAt (mk root b))).
Proof. exact ponder_legal. Qed.
Print Assumptions C03_ponder_legal.

(** every printed score is formatScore of a score the oracle returned, with the bound flag of that score ... *)
Theorem C03_score_provenance :
  forall (P TT : Type) (probe : TT -> N -> option move) (mk : P -> move -> P) (legalAt : P -> list move)
         (zh hh : P -> N) (dtm : P -> Z -> option Z) (hmcOf : P -> Z) (wtmOf : P -> bool) (root : P) (cfg : config)
         (legal sm : list move) (limited tbWin : bool) (prog bad : move -> bool) (ord : move -> Z)
         (strength : Z) (rnd0 : N) (s : list (event TT)) (b : move) (reps : list (list line)) (ScoreOK : Z -> Prop),
    legalAt root = legal -> NoDup legal -> startMoves legal sm <> [] ->
    Forall (evOK TT ScoreOK) s ->
    iterativeDeepening P TT probe mk legalAt zh hh dtm hmcOf wtmOf root cfg
                       (startMoves legal sm) legal limited tbWin prog bad ord strength rnd0 s = IdAnswer b reps ->
    forall rep l, In rep reps -> In l rep ->
      exists sc a bt, ScoreOK sc /\ (l_isMate l, l_score l) = formatScore sc /\ l_bound l = boundOf sc a bt.
Proof. exact scores_wellformed. Qed.
Print Assumptions C03_score_provenance.

(** ... and formatScore is well-formed: `cp v` with |v| <= MATE0/2, or `mate n` with |n| <= MATE0/4, the sign of the
    score, and n <> 0 for every score between "mated in one" and "mate in one" *)
Theorem C03_score_wellformed : forall s,
  - MATE0 <= s <= MATE0 ->
  let '(isMate, v) := formatScore s in
  (isMate = false -> v = s /\ Z.abs v <= Z.quot MATE0 2) /\
  (isMate = true -> Z.abs v <= Z.quot MATE0 4 /\ (0 < s -> 0 <= v) /\ (s < 0 -> v <= 0) /\
                    (reachableScore s -> v <> 0 /\ (0 < s <-> 0 < v))).
Proof. exact formatScore_wellformed. Qed.
Print Assumptions C03_score_wellformed.

(** at most one bound flag, and it says what it should *)
Theorem C03_bound_exclusive : forall s a b,
  (boundOf s a b = BUpper <-> s <= a) /\
  (boundOf s a b = BLower <-> (a < s /\ b <= s)) /\
  (boundOf s a b = BNone <-> (a < s /\ s < b)).
Proof. exact boundOf_exclusive. Qed.
Print Assumptions C03_bound_exclusive.

(** the model's error outcomes are unreachable: when PV extraction cannot run out of fuel (finite hash universe,
    no tablebase PV extension) iterativeDeepening always answers — the loop fuel and the notifyPV fuel suffice
    and getRootMoves never divides by zero *)
Theorem C03_answer_exists :
  forall (P TT : Type) (probe : TT -> N -> option move) (mk : P -> move -> P) (legalAt : P -> list move)
         (zh hh : P -> N) (dtm : P -> Z -> option Z) (hmcOf : P -> Z) (wtmOf : P -> bool) (root : P) (cfg : config)
         (scMovesIn legal : list move) (limited tbWin : bool) (prog bad : move -> bool) (ord : move -> Z)
         (strength : Z) (rnd0 : N) (s : list (event TT)),
    scMovesIn <> [] -> NoDup scMovesIn -> incl scMovesIn legal -> incl legal (legalAt root) ->
    (forall R, PVTotal P TT probe mk legalAt zh hh dtm hmcOf wtmOf root cfg R) ->
    exists b reps, iterativeDeepening P TT probe mk legalAt zh hh dtm hmcOf wtmOf root cfg
                                      scMovesIn legal limited tbWin prog bad ord strength rnd0 s = IdAnswer b reps.
Proof. exact answer_exists. Qed.
Print Assumptions C03_answer_exists.

Theorem C03_pv_fuel_suffices :
  forall (P TT : Type) (probe : TT -> N -> option move) (mk : P -> move -> P) (legalAt : P -> list move)
         (zh hh : P -> N) (dtm : P -> Z -> option Z) (hmcOf : P -> Z) (wtmOf : P -> bool) (root : P) (cfg : config)
         (U : list N) (R : list move),
    (forall p, In (zh p) U) -> (length U < c_fuelPV cfg)%nat -> c_noTimeLimit cfg = false ->
    PVTotal P TT probe mk legalAt zh hh dtm hmcOf wtmOf root cfg R.
Proof. exact storePV_total. Qed.
Print Assumptions C03_pv_fuel_suffices.

(** Not proved (outside C03's bookkeeping): termination of the while(true) of TBProbe::extendPV, which rests on the
    tablebase values being exact distances to mate (C12/C13). *)
Definition C03_extendPV_terminates_statement : Prop :=
  forall (P : Type) (mk : P -> move -> P) (legalAt : P -> list move) (dtm : P -> Z -> option Z) (hmcOf : P -> Z)
         (wtmOf : P -> bool) (root : P) (pv : list move),
    exists fuel, extendPV P mk legalAt dtm hmcOf wtmOf fuel root pv <> None.
