(** C05 — UCI session contract: one bestmove per go, one readyok per isready, never crashes.
    Only statements; every proof is [exact <lemma>] into Ctl/*.v.

    Model: Ctl/Uci.v (tokenizer, command dispatch, handleCommand as lists of micro-actions) and
    Ctl/Engine.v (shared state of EngineControl/EngineMainThread, labelled transition system of
    the UCI thread and the engine thread; the search is an oracle).  [run g init tr s]: the LTS
    can go from the initial state to [s] performing the labels [tr], for ANY sequence of
    commands read ([LRead c], c ranging over all abstract commands) and ANY interleaving of
    the two threads.  [g] = ponderhit_guarded: [false] is the code before fix commit 4d13f7c
    (`engine->ponderHit()` without null test), [true] the repaired code; all theorems except the
    two about the null pointer hold for both variants.
    Tie to app/texel: every observed stdin/stdout trace of the real binary must be accepted by
    the extracted checker ([accepts], proved sound below); props/c05.py.
    Specification side: Ctl/CtlSpec.v (counting of labels, [held_after], [outstanding], ...). *)
From Coq Require Import List Bool PeanoNat.
From Texel Require Import Ctl.Uci Ctl.Engine Ctl.Dec Ctl.Checker Ctl.CtlSpec Ctl.CtlInv
     Ctl.CtlProofs Ctl.CtlTheorems Ctl.CtlLive Ctl.CheckerProofs.
Import ListNotations.

(** Every `go` is answered exactly once: at every point of every run the number of go commands
    read equals the number of bestmove lines printed plus the searches still owed an answer
    ([outstanding]: one not yet handed over by the UCI thread, one held unanswered by the engine
    thread); that number never exceeds 2, is at most 1 whenever the UCI thread waits for input,
    and is 0 once the UCI thread has returned (quit / end of input). *)
Theorem C05_one_bestmove_per_go : forall g tr s, run g init tr s ->
  count is_go tr = count is_bestmove tr + outstanding s.
Proof. exact one_bestmove_per_go. Qed.
Print Assumptions C05_one_bestmove_per_go.

Theorem C05_bestmove_bounds : forall g tr s, run g init tr s ->
  count is_bestmove tr <= count is_go tr <= count is_bestmove tr + 2 /\
  (awaiting_input s = true -> count is_go tr <= count is_bestmove tr + 1) /\
  (udone s = true -> count is_go tr = count is_bestmove tr).
Proof. exact bestmove_bounds. Qed.
Print Assumptions C05_bestmove_bounds.

(** Every `isready` is answered exactly once, before the next command is read. *)
Theorem C05_one_readyok_per_isready : forall g tr s, run g init tr s ->
  count is_isready tr = count is_readyok tr + readyok_due s /\ readyok_due s <= 1 /\
  (awaiting_input s = true -> count is_isready tr = count is_readyok tr) /\
  (udone s = true -> count is_isready tr = count is_readyok tr).
Proof. exact readyok_contract. Qed.
Print Assumptions C05_one_readyok_per_isready.

(** Likewise every `uci` is answered by exactly one id/option/uciok block. *)
Theorem C05_one_uciok_per_uci : forall g tr s, run g init tr s ->
  count is_uci tr = count is_uciok tr + uciok_due s.
Proof. exact one_uciok_per_uci. Qed.
Print Assumptions C05_one_uciok_per_uci.

(** Search output (info lines of the search, bestmove) is printed only while some go is
    unanswered: after the bestmove that answers the last go, silence until the next go. *)
Theorem C05_no_output_after_bestmove : forall g tr l s, run g init (tr ++ [l]) s ->
  is_search_output l = true -> count is_bestmove tr < count is_go tr.
Proof. exact no_output_after_bestmove. Qed.
Print Assumptions C05_no_output_after_bestmove.

(** A bestmove is never printed while the latest search was handed over in ponder or infinite
    mode and no stop / ponderhit / go / quit / end of input has been read since. *)
Theorem C05_bestmove_withheld : forall g tr s,
  run g init (tr ++ [LOut OBestmove]) s -> held_after tr = false.
Proof. exact bestmove_withheld. Qed.
Print Assumptions C05_bestmove_withheld.

Theorem C05_bestmove_withheld_explicit : forall g tr tr' s,
  run g init (tr ++ LStart true :: tr' ++ [LOut OBestmove]) s ->
  (forall h, ~ In (LStart h) tr') ->
  exists c, In (LRead c) tr' /\ releases c = true.
Proof. exact bestmove_withheld_explicit. Qed.
Print Assumptions C05_bestmove_withheld_explicit.

(** Option values are stored by the engine thread only, and only outside doSearch (an option
    sent during a search stays pending and does not disturb it); and whenever the UCI thread
    reads option values (computeTimeLimit, startThread) no change is pending or in progress. *)
Theorem C05_options_only_when_idle : forall g tr s, run g init tr s ->
  (forall s', Step g s LApply s' -> in_search (epc s) = false /\ (exists a, epc s = EApply a) /\ upc s' = upc s) /\
  (forall a r, upc s = a :: r -> reads_options a = true ->
     pending s = false /\ finished s = true /\ (forall b, epc s <> EApply b)).
Proof. exact options_contract. Qed.
Print Assumptions C05_options_only_when_idle.

(** No reachable state waits on a condition nobody can signal: whenever the UCI thread stands at
    waitReady / waitStop / waitOptionsSet with a false condition, at most 16 steps of the engine
    thread alone make it true; and no reachable state is deadlocked. *)
Theorem C05_never_stuck : forall g tr s, run g init tr s ->
  (uci_blocked s = true -> exists k s', k <= 16 /\ erun s k s' /\ uci_blocked s' = false) /\
  (dead s = true \/ awaiting_input s = true \/ exists l s', Step g s l s' /\ s' <> s /\ is_read l = false).
Proof. exact never_stuck. Qed.
Print Assumptions C05_never_stuck.

(** With the null test in place no run dereferences the null engine pointer ... *)
Theorem C05_no_null_engine_use : forall tr s, run true init tr s ->
  crashed s = false /\ ~ In LNullDeref tr.
Proof. exact no_null_engine_use. Qed.
Print Assumptions C05_no_null_engine_use.

(** ... and without it (the tree before the fix) `ponderhit` as first command does; the check
    replays this witness on the real binary on every run. *)
Theorem C05_no_null_engine_use_refuted :
  exists tr s, run false init tr s /\ crashed s = true /\ tr = [LRead CPonderHit; LNullDeref].
Proof. exact no_null_engine_use_refuted. Qed.
Print Assumptions C05_no_null_engine_use_refuted.

(** Liveness by the ranking function [rank] (every state-changing step except reading input
    decreases it; the only stuttering steps are output lines of a running search / print loop):
    after `stop` has been read with a go outstanding, as long as no bestmove has been printed a
    state-changing step is enabled and fewer than [rank s1 <= 1024] of them have happened. *)
Theorem C05_stop_yields_bestmove : forall g tr0 s s1,
  run g init tr0 s -> 1 <= outstanding s -> read g s CStop = Some s1 ->
  rank s1 <= 1024 /\
  forall n tr s2, crun g s1 n tr s2 -> (forall l, In l tr -> is_bestmove l = false) ->
    n < rank s1 /\
    exists l s3, Step g s2 l s3 /\ s3 <> s2 /\ is_read l = false.
Proof. exact stop_yields_bestmove. Qed.
Print Assumptions C05_stop_yields_bestmove.

(** After `quit` or end of input: as long as the process has not exited it has not crashed, a
    state-changing step is enabled and fewer than [rank s1 <= 1024] of them have happened. *)
Theorem C05_quit_terminates : forall g tr0 s c s1,
  run g init tr0 s -> c = CQuit \/ c = CEof -> read g s c = Some s1 ->
  rank s1 <= 1024 /\
  forall n tr s2, crun g s1 n tr s2 -> exited s2 = false ->
    n < rank s1 /\ crashed s2 = false /\
    exists l s3, Step g s2 l s3 /\ s3 <> s2 /\ is_read l = false.
Proof. exact quit_terminates. Qed.
Print Assumptions C05_quit_terminates.

(** The extracted trace checker is sound: an accepted observation (commands written to stdin,
    canonical stdout lines, exit / crash) is explained by a run of the LTS with exactly these
    output lines, reading a prefix of the commands sent. *)
Theorem C05_checker_sound : forall g fuel evs, accepts g fuel evs = true ->
  exists tr s n, run g init tr s /\ tr_outputs tr = ev_outputs evs /\
                 tr_reads tr = firstn n (ev_sends evs) /\
                 (In EvExit0 evs -> exited s = true) /\ (In EvCrash evs -> crashed s = true).
Proof. exact accepts_sound. Qed.
Print Assumptions C05_checker_sound.

(** Not proved (statement only): liveness of `ponderhit`.  It needs the hypothesis that the go
    carried a time limit: `go ponder depth N` + `ponderhit` leaves a search without any limit
    (finding F8), whose bestmove comes only after `stop`. *)
Definition C05_ponderhit_yields_bestmove_statement : Prop :=
  forall g tr0 s s1, run g init tr0 s -> 1 <= outstanding s -> limits s = LimSome ->
    read g s CPonderHit = Some s1 ->
    forall n tr s2, crun g s1 n tr s2 -> (forall l, In l tr -> is_bestmove l = false) -> n < rank s1.
