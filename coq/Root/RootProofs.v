(** C03 — invariants of the root loop of iterativeDeepening, for every oracle stream.

    Invariant of the root-move list [rm]: its moves are a permutation of the list produced by getRootMoves
    (so: duplicate-free, all root moves), and every entry that has been searched (depth > 0) carries a score the
    oracle returned and a PV that starts with the entry's own move and is playable from the root.
    Invariant of the reports: every line is playable, starts with a root move, lines of one report start with
    pairwise distinct moves, and each printed score is formatScore of a score the oracle returned. *)
From Coq Require Import ZArith NArith List Bool Lia Permutation.
From Texel Require Import Chess.Types gen.RootConsts Root.Root Root.RootFacts Root.PvProofs.
Import ListNotations.
Local Open Scope Z_scope.

(** ** list helpers *)
Lemma NoDup_snoc : forall {A} (l : list A) x, NoDup l -> ~ In x l -> NoDup (l ++ [x]).
Proof.
  intros A l x Hnd Hx. apply NoDup_rev in Hnd.
  rewrite <- (rev_involutive (l ++ [x])). apply NoDup_rev. rewrite rev_app_distr; cbn.
  constructor; [rewrite <- in_rev; assumption | assumption].
Qed.

Lemma split_nth : forall {A} (l : list A) n d, (n < length l)%nat -> l = firstn n l ++ nth n l d :: skipn (S n) l.
Proof.
  induction l as [|a t IH]; intros n d H; cbn in H; [lia|].
  destruct n; cbn; [reflexivity|]. f_equal. apply IH; lia.
Qed.

Lemma insertBack_perm : forall tmp l, Permutation (insertBack tmp l) (tmp :: l).
Proof.
  induction l as [|y t IH]; cbn; [apply Permutation_refl|].
  destruct (mi_score y <? mi_score tmp); [|apply Permutation_refl].
  eapply perm_trans; [apply perm_skip; apply IH | apply perm_swap].
Qed.

Lemma insertSorted_perm : forall rm mi, (mi < length rm)%nat -> Permutation (insertSorted rm mi) rm.
Proof.
  intros rm mi H. unfold insertSorted, getMI.
  rewrite (split_nth rm mi dfltMI H) at 4.
  change (nth mi rm dfltMI :: skipn (S mi) rm) with ([nth mi rm dfltMI] ++ skipn (S mi) rm).
  rewrite app_assoc. apply Permutation_app_tail.
  eapply perm_trans; [apply Permutation_sym, Permutation_rev|].
  eapply perm_trans; [apply insertBack_perm|].
  eapply perm_trans; [apply perm_skip; apply Permutation_sym, Permutation_rev|].
  apply Permutation_cons_append.
Qed.

Lemma stableInsert_perm : forall before x l, Permutation (stableInsert before x l) (x :: l).
Proof.
  induction l as [|y t IH]; cbn; [apply Permutation_refl|].
  destruct (before y x); [|apply Permutation_refl].
  eapply perm_trans; [apply perm_skip; apply IH | apply perm_swap].
Qed.

Lemma stableSort_perm : forall before l, Permutation (stableSort before l) l.
Proof.
  induction l as [|x t IH]; cbn; [constructor|].
  eapply perm_trans; [apply stableInsert_perm | apply perm_skip; assumption].
Qed.

Lemma tailSort_perm : forall before n rm, Permutation (firstn n rm ++ stableSort before (skipn n rm)) rm.
Proof.
  intros. rewrite <- (firstn_skipn n rm) at 3. apply Permutation_app_head. apply stableSort_perm.
Qed.

(** ** notifyPV never runs out of fuel *)
Lemma notifySel_fuel : forall fuel rm mi maxPV i n b acc,
  (maxPV - n + (if Nat.leb i mi then 1 else 0) < fuel)%nat ->
  notifySel fuel rm mi maxPV i n b acc <> None.
Proof.
  induction fuel as [|f IH]; intros rm mi maxPV i n b acc Hlt; [lia|].
  cbn [notifySel].
  destruct (Nat.leb_spec maxPV n) as [Hn|Hn]; [discriminate|].
  destruct (negb b && (mi_score (getMI rm mi) >? mi_score (getMI rm i)) && (mi_score (getMI rm mi) >? mi_alpha (getMI rm mi)))%bool.
  - destruct (Nat.leb_spec maxPV (S n)); [discriminate|].
    destruct (Nat.eqb_spec i mi) as [->|Hne]; apply IH.
    + rewrite Nat.leb_refl in Hlt. destruct (Nat.leb_spec (S mi) mi); lia.
    + destruct (Nat.leb_spec i mi); destruct (Nat.leb_spec (S i) mi); lia.
  - destruct (Nat.eqb_spec i mi) as [->|Hne].
    + rewrite Nat.leb_refl in Hlt. destruct b; apply IH; destruct (Nat.leb_spec (S mi) mi); lia.
    + apply IH. destruct (Nat.leb_spec i mi); destruct (Nat.leb_spec (S i) mi); lia.
Qed.

Lemma notifyPV_some : forall rm mi maxPV, notifyPV rm mi maxPV <> None.
Proof.
  intros rm mi maxPV. unfold notifyPV.
  pose proof (notifySel_fuel (S (S maxPV)) rm mi maxPV 0 0 false []) as H.
  destruct (notifySel (S (S maxPV)) rm mi maxPV 0 0 false []); [discriminate|].
  exfalso; apply H; [|reflexivity]. cbn. lia.
Qed.

(** ** which entries one report selects: pairwise distinct indices, running numbers 0,1,2,... *)
Definition accInv (mi i : nat) (b : bool) (n : nat) (acc : list (nat * nat)) : Prop :=
  NoDup (map snd acc) /\
  (forall j, In j (map snd acc) -> ((j < i)%nat /\ j <> mi) \/ (j = mi /\ b = true)) /\
  map fst acc = seq 0 n.

Lemma accInv_add_mi : forall mi i n acc, accInv mi i false n acc -> accInv mi i true (S n) (acc ++ [(n, mi)]).
Proof.
  intros mi i n acc [Hnd [Hj Hn]]. unfold accInv. rewrite !map_app; cbn [map fst snd].
  split; [|split].
  - apply NoDup_snoc; [assumption|]. intro Hin. destruct (Hj _ Hin) as [[_ Hx]|[_ Hx]]; congruence.
  - intros j Hin. apply in_app_or in Hin. destruct Hin as [Hin|[<-|[]]].
    + destruct (Hj _ Hin) as [Hx|[_ Hx]]; [left; assumption | discriminate].
    + right; split; reflexivity.
  - rewrite seq_S, Hn. reflexivity.
Qed.

Lemma accInv_add_i : forall mi i b n acc, i <> mi -> accInv mi i b n acc -> accInv mi (S i) b (S n) (acc ++ [(n, i)]).
Proof.
  intros mi i b n acc Hne [Hnd [Hj Hn]]. unfold accInv. rewrite !map_app; cbn [map fst snd].
  split; [|split].
  - apply NoDup_snoc; [assumption|]. intro Hin. destruct (Hj _ Hin) as [[Hx _]|[Hx _]]; [lia | congruence].
  - intros j Hin. apply in_app_or in Hin. destruct Hin as [Hin|[<-|[]]].
    + destruct (Hj _ Hin) as [[Hx Hy]|Hx]; [left; split; [lia | assumption] | right; assumption].
    + left; split; [lia | assumption].
  - rewrite seq_S, Hn. reflexivity.
Qed.

Lemma accInv_next : forall mi i b n acc, accInv mi i b n acc -> accInv mi (S i) b n acc.
Proof.
  intros mi i b n acc [Hnd [Hj Hn]]. split; [assumption | split; [|assumption]].
  intros j Hin. destruct (Hj _ Hin) as [[Hx Hy]|Hx]; [left; split; [lia | assumption] | right; assumption].
Qed.

Lemma notifySel_inv : forall fuel rm mi maxPV i n b acc sel,
  notifySel fuel rm mi maxPV i n b acc = Some sel ->
  accInv mi i b n acc ->
  NoDup (map snd sel) /\ map fst sel = seq 0 (length sel) /\ (length sel <= Nat.max maxPV n)%nat.
Proof.
  induction fuel as [|f IH]; intros rm mi maxPV i n b acc sel H Hinv; [discriminate|].
  cbn [notifySel] in H.
  assert (Hdone : forall k a, accInv mi k true a sel \/ accInv mi k false a sel \/ True -> True) by auto.
  assert (Hfin : forall i' b' n' acc', accInv mi i' b' n' acc' -> (n' <= Nat.max maxPV n)%nat ->
                 NoDup (map snd acc') /\ map fst acc' = seq 0 (length acc') /\ (length acc' <= Nat.max maxPV n)%nat).
  { intros i' b' n' acc' [A [_ C]] Hle.
    assert (Hl : length acc' = n') by (rewrite <- (map_length fst), C, seq_length; reflexivity).
    rewrite Hl. auto. }
  destruct (Nat.leb_spec maxPV n) as [Hn|Hn].
  { inversion H; subst. eapply Hfin; [eassumption | lia]. }
  assert (Hrec : forall i' n' b' acc', notifySel f rm mi maxPV i' n' b' acc' = Some sel ->
                 accInv mi i' b' n' acc' -> (n' <= maxPV)%nat ->
                 NoDup (map snd sel) /\ map fst sel = seq 0 (length sel) /\ (length sel <= Nat.max maxPV n)%nat).
  { intros i' n' b' acc' E Hi Hle. destruct (IH _ _ _ _ _ _ _ _ E Hi) as [A [B C]]. repeat split; auto. lia. }
  destruct (negb b && (mi_score (getMI rm mi) >? mi_score (getMI rm i)) && (mi_score (getMI rm mi) >? mi_alpha (getMI rm mi)))%bool eqn:Ec.
  - assert (Hb : b = false).
    { destruct b; [cbn in Ec; discriminate | reflexivity]. }
    subst b.
    pose proof (accInv_add_mi _ _ _ _ Hinv) as H1.
    destruct (Nat.leb_spec maxPV (S n)) as [Hn1|Hn1].
    { inversion H; subst. eapply Hfin; [eassumption | lia]. }
    destruct (Nat.eqb_spec i mi) as [->|Hne].
    + eapply Hrec; [eassumption | apply accInv_next; assumption | lia].
    + eapply Hrec; [eassumption | apply accInv_add_i; assumption | lia].
  - destruct (Nat.eqb_spec i mi) as [->|Hne].
    + destruct b.
      * eapply Hrec; [eassumption | apply accInv_next; assumption | lia].
      * eapply Hrec; [eassumption | apply accInv_next, accInv_add_mi; assumption | lia].
    + eapply Hrec; [eassumption | apply accInv_add_i; assumption | lia].
Qed.

Section Loop.
  Variable P : Type.
  Variable TT : Type.
  Variable probe : TT -> N -> option move.
  Variable mk : P -> move -> P.
  Variable legalAt : P -> list move.
  Variable zh hh : P -> N.
  Variable dtm : P -> Z -> option Z.
  Variable hmcOf : P -> Z.
  Variable wtmOf : P -> bool.
  Variable root : P.
  Variable cfg : config.

  Variable R : list move.                  (* the root moves (as a set) *)
  Hypothesis R_legal : incl R (legalAt root).
  Hypothesis R_nodup : NoDup R.
  Variable ScoreOK : Z -> Prop.            (* any property of the scores the oracle returns *)

  Notation playable := (playableFrom P mk legalAt).
  Notation storePV := (storePV P TT probe mk legalAt zh hh dtm hmcOf wtmOf root cfg).
  Notation storeSearchResult := (storeSearchResult P TT probe mk legalAt zh hh dtm hmcOf wtmOf root cfg).
  Notation research := (research P TT probe mk legalAt zh hh dtm hmcOf wtmOf root cfg).
  Notation moveStepAfter := (moveStepAfter P TT probe mk legalAt zh hh dtm hmcOf wtmOf root cfg).
  Notation moveStep := (moveStep P TT probe mk legalAt zh hh dtm hmcOf wtmOf root cfg).
  Notation moveLoop := (moveLoop P TT probe mk legalAt zh hh dtm hmcOf wtmOf root cfg).
  Notation depthLoop := (depthLoop P TT probe mk legalAt zh hh dtm hmcOf wtmOf root cfg).

  Definition entryOK (x : moveInfo) : Prop :=
    mi_depth x <= 0 \/
    (ScoreOK (mi_score x) /\ (exists t, mi_pv x = mi_move x :: t) /\ playable root (mi_pv x)).

  Definition firstMove (l : line) : move := hd emptyMove (l_pv l).

  Definition lineOK (l : line) : Prop :=
    0 < l_depth l /\ In (firstMove l) R /\ l_pv l <> [] /\ playable root (l_pv l) /\
    exists s a b, ScoreOK s /\ (l_isMate l, l_score l) = formatScore s /\ l_bound l = boundOf s a b.

  (** multipv numbers of one report: strictly increasing from the numbering 0,1,2,... (or all -1) *)
  Definition repOK (rep : list line) : Prop :=
    Forall lineOK rep /\ NoDup (map firstMove rep) /\ NoDup (map l_multipv rep) \/
    Forall lineOK rep /\ NoDup (map firstMove rep) /\ Forall (fun l => l_multipv l = -1) rep.

  Definition rmOK (rm : list moveInfo) : Prop := Permutation (movesOf rm) R /\ Forall entryOK rm.

  Definition evOK (e : event TT) : Prop :=
    match e with EvStop _ => True | EvRet _ sc _ _ _ _ => ScoreOK sc end.

  (** the PV fuel always suffices (a hypothesis of the fuel theorem only) *)
  Definition PVTotal : Prop := forall tab m sc, In m R -> storePV tab m sc <> None.

  Lemma rmOK_length : forall rm, rmOK rm -> length rm = length R.
  Proof. intros rm [Hp _]. apply Permutation_length in Hp. unfold movesOf in Hp. rewrite map_length in Hp. exact Hp. Qed.

  Lemma rmOK_nodup : forall rm, rmOK rm -> NoDup (movesOf rm).
  Proof. intros rm [Hp _]. eapply Permutation_NoDup; [apply Permutation_sym; eassumption | assumption]. Qed.

  Lemma getMI_move : forall rm i, mi_move (getMI rm i) = nth i (movesOf rm) emptyMove.
  Proof. intros. unfold getMI, movesOf. change emptyMove with (mi_move dfltMI). rewrite map_nth. reflexivity. Qed.

  Lemma rmOK_In : forall rm i, rmOK rm -> (i < length rm)%nat -> In (mi_move (getMI rm i)) R.
  Proof.
    intros rm i [Hp _] Hi. eapply Permutation_in; [eassumption|].
    rewrite getMI_move. apply nth_In. unfold movesOf; rewrite map_length; assumption.
  Qed.

  Lemma rmOK_entry : forall rm i, rmOK rm -> (i < length rm)%nat -> entryOK (getMI rm i).
  Proof.
    intros rm i [_ Hf] Hi. rewrite Forall_forall in Hf. apply Hf. unfold getMI. apply nth_In; assumption.
  Qed.

  Lemma rmOK_perm : forall rm rm', Permutation rm' rm -> rmOK rm -> rmOK rm'.
  Proof.
    intros rm rm' Hp [H1 H2]. split.
    - eapply perm_trans; [apply Permutation_map; eassumption | assumption].
    - eapply Permutation_Forall; [apply Permutation_sym; eassumption | assumption].
  Qed.

  (** *** storeSearchResult *)
  Lemma storePV_ok : forall tab m sc pv,
    In m R -> storePV tab m sc = Some pv -> (exists t, pv = m :: t) /\ playable root pv.
  Proof.
    intros tab m sc pv Hm H. unfold Root.storePV in H.
    destruct (extractPVMoves P TT probe mk legalAt zh hh (c_fuelPV cfg) tab root m []) as [pv0|] eqn:E; [|discriminate].
    pose proof (extractPVMoves_playable P TT probe mk legalAt zh hh _ _ _ _ _ _ (R_legal _ Hm) E) as [[t Ht] Hp].
    destruct (c_noTimeLimit cfg && isWinScore (Z.abs sc))%bool.
    - subst pv0. eapply extendPV_playable; eassumption.
    - inversion H; subst. split; [eexists; reflexivity | assumption].
  Qed.

  Lemma store_ok : forall rm mi d a b sc tab rm',
    rmOK rm -> (mi < length rm)%nat -> ScoreOK sc ->
    storeSearchResult rm mi d a b sc tab = Some rm' ->
    rmOK rm' /\ length rm' = length rm.
  Proof.
    intros rm mi d a b sc tab rm' Hok Hmi Hsc H. unfold Root.storeSearchResult in H.
    destruct (storePV tab (mi_move (getMI rm mi)) sc) as [pv|] eqn:E; [|discriminate].
    inversion H; subst rm'; clear H.
    destruct (storePV_ok _ _ _ _ (rmOK_In _ _ Hok Hmi) E) as [Hhd Hp].
    split; [|apply replaceNth_length].
    destruct Hok as [Hperm Hf]. split.
    - unfold movesOf. rewrite (replaceNth_map_same mi_move mi rm _ dfltMI Hmi); [assumption | reflexivity].
    - apply replaceNth_Forall; [assumption|]. right. cbn. auto.
  Qed.

  Lemma store_none : forall rm mi d a b sc tab,
    rmOK rm -> (mi < length rm)%nat -> storeSearchResult rm mi d a b sc tab = None -> ~ PVTotal.
  Proof.
    intros rm mi d a b sc tab Hok Hmi H Htot. unfold Root.storeSearchResult in H.
    destruct (storePV tab (mi_move (getMI rm mi)) sc) eqn:E; [discriminate|].
    eapply Htot; [|eassumption]. apply rmOK_In; assumption.
  Qed.

  (** *** one report *)
  Lemma mkInfoLine_cases : forall x idx,
    (mi_depth x <= 0 /\ mkInfoLine x idx = []) \/
    (0 < mi_depth x /\ exists l, mkInfoLine x idx = [l] /\ l_depth l = mi_depth x /\ l_pv l = mi_pv x /\
       l_multipv l = idx /\ (l_isMate l, l_score l) = formatScore (mi_score x) /\
       l_bound l = boundOf (mi_score x) (mi_alpha x) (mi_beta x)).
  Proof.
    intros x idx. unfold mkInfoLine. destruct (Z.leb_spec (mi_depth x) 0) as [H|H]; [left; auto|].
    right; split; [assumption|]. destruct (formatScore (mi_score x)) as [im sc] eqn:E.
    eexists; split; [reflexivity|]. cbn. auto.
  Qed.

  Lemma lines_ok : forall rm maxPV (sel : list (nat * nat)),
    rmOK rm -> NoDup (map snd sel) -> NoDup (map fst sel) ->
    let rep := flat_map (fun p => mkInfoLine (getMI rm (snd p)) (multiPVIndexOf maxPV (fst p))) sel in
    Forall lineOK rep /\ NoDup (map firstMove rep) /\
    (forall l, In l rep -> exists p, In p sel /\ (snd p < length rm)%nat /\
                                    firstMove l = mi_move (getMI rm (snd p)) /\
                                    l_multipv l = multiPVIndexOf maxPV (fst p)).
  Proof.
    intros rm maxPV sel Hok. induction sel as [|[n j] t IH]; intros Hnd Hnf; cbn.
    { repeat split; [constructor | constructor | intros l []]. }
    cbn in Hnd, Hnf. inversion Hnd as [|? ? Hj Hnd']; subst. inversion Hnf as [|? ? Hn Hnf']; subst.
    destruct (IH Hnd' Hnf') as [IH1 [IH2 IH3]]; clear IH.
    destruct (mkInfoLine_cases (getMI rm j) (multiPVIndexOf maxPV n)) as [[_ ->]|[Hd [l [-> [Hld [Hpv [Hidx [Hfs Hb]]]]]]]].
    { cbn. repeat split; auto. intros l Hl. destruct (IH3 l Hl) as [p [Hp Hrest]]. exists p; split; [right; assumption | assumption]. }
    assert (Hjlt : (j < length rm)%nat).
    { destruct (Nat.lt_ge_cases j (length rm)) as [|Hge]; [assumption|].
      unfold getMI in Hd. rewrite nth_overflow in Hd by assumption. cbn in Hd. lia. }
    destruct (rmOK_entry rm j Hok Hjlt) as [Hbad|[Hsc [[tl Htl] Hplay]]]; [lia|].
    assert (Hfm : firstMove l = mi_move (getMI rm j)).
    { unfold firstMove. rewrite Hpv, Htl. reflexivity. }
    cbn [app map]. split; [|split].
    - constructor; [|assumption].
      unfold lineOK. rewrite Hld, Hfm, Hpv. split; [assumption|]. split; [apply rmOK_In; assumption|].
      split; [rewrite Htl; discriminate|]. split; [assumption|].
      exists (mi_score (getMI rm j)), (mi_alpha (getMI rm j)), (mi_beta (getMI rm j)). auto.
    - constructor; [|assumption].
      intro Hin. apply in_map_iff in Hin. destruct Hin as [l' [Hl'1 Hl'2]].
      destruct (IH3 l' Hl'2) as [[n' j'] [Hp [Hj'lt [Hfm' _]]]]. cbn [fst snd] in *.
      assert (Heq : j' = j).
      { pose proof (rmOK_nodup rm Hok) as Hndm.
        rewrite (NoDup_nth (movesOf rm) emptyMove) in Hndm.
        apply Hndm; try (unfold movesOf; rewrite map_length; assumption).
        rewrite <- !getMI_move. congruence. }
      subst j'. apply Hj. apply in_map_iff. exists (n', j); split; [reflexivity | assumption].
    - intros l0 [<-|Hl0].
      + exists (n, j); cbn [fst snd]; split; [left; reflexivity | auto].
      + destruct (IH3 l0 Hl0) as [p [Hp Hrest]]. exists p; split; [right; assumption | assumption].
  Qed.

  Lemma multiPVIndexOf_inj : forall maxPV a b, (1 < maxPV)%nat -> multiPVIndexOf maxPV a = multiPVIndexOf maxPV b -> a = b.
  Proof.
    intros maxPV a b H. unfold multiPVIndexOf. destruct (Nat.ltb_spec 1 maxPV); [lia | lia].
  Qed.

  Lemma notifyPV_ok : forall rm mi maxPV rep, rmOK rm -> notifyPV rm mi maxPV = Some rep -> repOK rep.
  Proof.
    intros rm mi maxPV rep Hok H. unfold notifyPV in H.
    destruct (notifySel (S (S maxPV)) rm mi maxPV 0 0 false []) as [sel|] eqn:E; [|discriminate].
    inversion H; subst rep; clear H.
    assert (Hinv0 : accInv mi 0 false 0 []).
    { split; [constructor | split; [intros j [] | reflexivity]]. }
    destruct (notifySel_inv _ _ _ _ _ _ _ _ _ E Hinv0) as [Hnd [Hfst _]].
    assert (Hndf : NoDup (map fst sel)) by (rewrite Hfst; apply seq_NoDup).
    destruct (lines_ok rm maxPV sel Hok Hnd Hndf) as [H1 [H2 H3]].
    destruct (Nat.ltb_spec 1 maxPV) as [Hm|Hm].
    - left. split; [assumption | split; [assumption|]].
      (* distinct running numbers give distinct multipv indices *)
      clear H1 H2.
      set (rep := flat_map (fun p => mkInfoLine (getMI rm (snd p)) (multiPVIndexOf maxPV (fst p))) sel) in *.
      assert (Hgen : forall (sel0 : list (nat * nat)), NoDup (map fst sel0) ->
                NoDup (map l_multipv (flat_map (fun p => mkInfoLine (getMI rm (snd p)) (multiPVIndexOf maxPV (fst p))) sel0)) /\
                forall v, In v (map l_multipv (flat_map (fun p => mkInfoLine (getMI rm (snd p)) (multiPVIndexOf maxPV (fst p))) sel0)) ->
                          exists n, In n (map fst sel0) /\ v = multiPVIndexOf maxPV n).
      { induction sel0 as [|[n j] t IH]; intros Hn; cbn.
        { split; [constructor | intros v []]. }
        cbn in Hn. inversion Hn as [|? ? Hn1 Hn2]; subst. destruct (IH Hn2) as [IHa IHb].
        destruct (mkInfoLine_cases (getMI rm j) (multiPVIndexOf maxPV n)) as [[_ ->]|[_ [l [-> [_ [_ [Hidx _]]]]]]]; cbn.
        - split; [assumption|]. intros v Hv. destruct (IHb v Hv) as [n0 [A B]]. exists n0; auto.
        - split.
          + constructor; [|assumption]. intro Hin. destruct (IHb _ Hin) as [n0 [A B]].
            rewrite Hidx in B. apply multiPVIndexOf_inj in B; [|assumption]. subst n0. contradiction.
          + intros v [<-|Hv]; [exists n; auto | destruct (IHb v Hv) as [n0 [A B]]; exists n0; auto]. }
      apply Hgen; assumption.
    - right. split; [assumption | split; [assumption|]].
      apply Forall_forall. intros l Hl. destruct (H3 l Hl) as [p [_ [_ [_ Hidx]]]].
      rewrite Hidx. unfold multiPVIndexOf. destruct (Nat.ltb_spec 1 maxPV); [lia | reflexivity].
  Qed.

  (** *** the aspiration re-search loop *)
  Lemma research_ok : forall s rm mi maxPV depth alpha beta score bRD aRD klG nodes best reps tm ti,
    rmOK rm -> (mi < length rm)%nat -> Forall evOK s -> In best R -> Forall repOK reps ->
    match research s rm mi maxPV depth alpha beta score bRD aRD klG nodes best reps tm ti with
    | RStop _ b r => In b R /\ Forall repOK r
    | RFuel _ => ~ PVTotal
    | RDone _ rm' s' _ _ _ r _ _ =>
      rmOK rm' /\ length rm' = length rm /\ Forall evOK s' /\ (length s' <= length s)%nat /\ Forall repOK r
    end.
  Proof.
    induction s as [|e s' IH]; intros rm mi maxPV depth alpha beta score bRD aRD klG nodes best reps tm ti
                                      Hok Hmi Hev Hbest Hreps.
    - assert (Hdone : rmOK rm /\ length rm = length rm /\ Forall evOK (@nil (event TT)) /\
                      (length (@nil (event TT)) <= length (@nil (event TT)))%nat /\ Forall repOK reps).
      { split; [assumption | split; [reflexivity | split; [assumption | split; [lia | assumption]]]]. }
      cbn [Root.research]. destruct ((score >=? beta) || (Nat.ltb mi maxPV && (score <=? alpha)))%bool.
      + destruct (negb klG && negb (mi_knownLoss (getMI rm mi)) && isLoseScore score && (score <=? alpha))%bool.
        * exact Hdone.
        * split; [|assumption]. destruct (score >=? beta); [apply rmOK_In; assumption | assumption].
      + exact Hdone.
    - assert (Hdone : rmOK rm /\ length rm = length rm /\ Forall evOK (e :: s') /\
                      (length (e :: s') <= length (e :: s'))%nat /\ Forall repOK reps).
      { split; [assumption | split; [reflexivity | split; [assumption | split; [lia | assumption]]]]. }
      cbn [Root.research].
      destruct ((score >=? beta) || (Nat.ltb mi maxPV && (score <=? alpha)))%bool; [|exact Hdone].
      destruct (negb klG && negb (mi_knownLoss (getMI rm mi)) && isLoseScore score && (score <=? alpha))%bool;
        [exact Hdone|].
      assert (Hb1 : In (if score >=? beta then mi_move (getMI rm mi) else best) R).
      { destruct (score >=? beta); [apply rmOK_In; assumption | assumption]. }
      destruct e as [|sc nd tab tm' ti']; [split; assumption|].
      inversion Hev as [|? ? He Hev']; subst. cbn in He.
      match goal with |- context [storeSearchResult rm mi depth ?a ?b sc tab] =>
        destruct (storeSearchResult rm mi depth a b sc tab) as [rm'|] eqn:Est end.
      2: { eapply store_none; eassumption. }
      destruct (store_ok _ _ _ _ _ _ _ _ Hok Hmi He Est) as [Hok' Hlen'].
      destruct (notifyPV rm' mi maxPV) as [rep|] eqn:En; [|exfalso; eapply notifyPV_some; eassumption].
      pose proof (notifyPV_ok _ _ _ _ Hok' En) as Hrep.
      assert (Hmi' : (mi < length rm')%nat) by lia.
      assert (Hreps' : Forall repOK (reps ++ [rep])).
      { apply Forall_app; split; [assumption | constructor; [assumption | constructor]]. }
      match goal with |- match research s' rm' mi maxPV depth ?a ?b sc ?x ?y klG ?n ?bb ?rr tm' ti' with _ => _ end =>
        specialize (IH rm' mi maxPV depth a b sc x y klG n bb rr tm' ti' Hok' Hmi' Hev' Hb1 Hreps');
        destruct (research s' rm' mi maxPV depth a b sc x y klG n bb rr tm' ti') end.
      + assumption.
      + assumption.
      + destruct IH as [A [B [C [D E]]]].
        split; [assumption | split; [lia | split; [assumption | split; [cbn; lia | assumption]]]].
  Qed.

  (** *** one root move *)
  Record stOK (st : lstate) : Prop := {
    so_rm : rmOK (ls_rm st);
    so_best : In (ls_best st) R;
    so_bestE : In (ls_bestExact st) R;
    so_reps : Forall repOK (ls_reps st) }.

  Lemma moveStepAfter_ok : forall st mi maxPV depth klG aspD alpha beta score nodes tab tm ti s1,
    stOK st -> (mi < length (ls_rm st))%nat -> ScoreOK score -> Forall evOK s1 ->
    match moveStepAfter st mi maxPV depth klG aspD alpha beta score nodes tab tm ti s1 with
    | MStop _ b be r => In b R /\ In be R /\ Forall repOK r
    | MFuel _ => ~ PVTotal
    | MNext _ st' s' _ _ =>
      stOK st' /\ length (ls_rm st') = length (ls_rm st) /\ Forall evOK s' /\ (length s' <= length s1)%nat
    end.
  Proof.
    intros st mi maxPV depth klG aspD alpha beta score nodes tab tm ti s1 [Hrm Hb Hbe Hreps] Hmi Hsc Hev.
    unfold Root.moveStepAfter.
    destruct (storeSearchResult (ls_rm st) mi depth alpha beta score tab) as [rm1|] eqn:Est.
    2: { eapply store_none; eassumption. }
    destruct (store_ok _ _ _ _ _ _ _ _ Hrm Hmi Hsc Est) as [Hok1 Hlen1].
    set (doNotify := (Nat.ltb mi maxPV || (score >? mi_score (getMI rm1 (maxPV - 1))))%bool).
    assert (Hreps1 : forall rep, (if doNotify then notifyPV rm1 mi maxPV else Some []) = Some rep ->
                     Forall repOK (if doNotify then ls_reps st ++ [rep] else ls_reps st)).
    { intros rep E. destruct doNotify; [|assumption].
      apply Forall_app; split; [assumption | constructor; [eapply notifyPV_ok; eassumption | constructor]]. }
    destruct (if doNotify then notifyPV rm1 mi maxPV else Some []) as [rep|] eqn:En.
    2: { destruct doNotify; [exfalso; eapply notifyPV_some; eassumption | discriminate]. }
    specialize (Hreps1 rep eq_refl).
    pose proof (research_ok s1 rm1 mi maxPV depth alpha beta score aspD aspD klG nodes (ls_best st)
                  (if doNotify then ls_reps st ++ [rep] else ls_reps st) tm ti Hok1 ltac:(lia) Hev Hb Hreps1) as Hr.
    destruct (research s1 rm1 mi maxPV depth alpha beta score aspD aspD klG nodes (ls_best st)
                (if doNotify then ls_reps st ++ [rep] else ls_reps st) tm ti) as [b r| |rm2 s2 score2 nodes2 b2 reps2 tm2 ti2].
    - destruct Hr; auto.
    - assumption.
    - destruct Hr as [Hok2 [Hlen2 [Hev2 [Hlens Hreps2]]]].
      set (y := getMI rm2 mi).
      set (rm3 := replaceNth mi rm2 (mkMI (mi_move y) (mi_score y) (mi_nodes y + nodes2) (isLoseScore score2)
                                          (mi_depth y) (mi_alpha y) (mi_beta y) (mi_pv y))).
      assert (Hmi2 : (mi < length rm2)%nat) by lia.
      assert (Hok3 : rmOK rm3).
      { destruct Hok2 as [Hp Hf]. split.
        - unfold rm3, movesOf. rewrite (replaceNth_map_same mi_move mi rm2 _ dfltMI Hmi2); [assumption | reflexivity].
        - apply replaceNth_Forall; [assumption|].
          pose proof (rmOK_entry rm2 mi (conj Hp Hf) Hmi2) as He. fold y in He.
          unfold entryOK in *; cbn. exact He. }
      assert (Hlen3 : length rm3 = length rm2) by apply replaceNth_length.
      set (rm4 := if (Nat.ltb mi maxPV || (score2 >? mi_score (getMI rm3 (maxPV - 1))))%bool
                  then insertSorted rm3 mi else rm3).
      assert (Hperm4 : Permutation rm4 rm3).
      { unfold rm4. destruct (Nat.ltb mi maxPV || (score2 >? mi_score (getMI rm3 (maxPV - 1))))%bool;
          [apply insertSorted_perm; lia | apply Permutation_refl]. }
      assert (Hok4 : rmOK rm4) by (eapply rmOK_perm; eassumption).
      assert (Hlen4 : length rm4 = length rm3) by (apply Permutation_length; assumption).
      assert (Hb4 : In (mi_move (getMI rm4 0)) R) by (apply rmOK_In; [assumption | lia]).
      split; [|cbn; repeat split; auto; lia].
      constructor; cbn; assumption.
  Qed.

  Lemma moveStep_ok : forall s st mi maxPV depth first klG,
    stOK st -> (mi < length (ls_rm st))%nat -> Forall evOK s ->
    match moveStep s st mi maxPV depth first klG with
    | MStop _ b be r => In b R /\ In be R /\ Forall repOK r
    | MFuel _ => ~ PVTotal
    | MNext _ st' s' _ _ =>
      stOK st' /\ length (ls_rm st') = length (ls_rm st) /\ Forall evOK s' /\ (length s' < length s)%nat
    end.
  Proof.
    intros s st mi maxPV depth first klG Hst Hmi Hev. unfold Root.moveStep.
    pose proof Hst as [Hrm Hb Hbe Hreps].
    destruct s as [|[|sc0 nd0 tab0 tm0 ti0] s0]; [repeat split; assumption | repeat split; assumption|].
    inversion Hev as [|? ? He0 Hev0]; subst. cbn in He0.
    match goal with |- context [if ?c then _ else _] => destruct c end.
    - destruct s0 as [|[|sc1 nd1 tab1 tm1 ti1] s1]; [repeat split; assumption | repeat split; assumption|].
      inversion Hev0 as [|? ? He1 Hev1]; subst. cbn in He1.
      match goal with |- match moveStepAfter st mi maxPV depth klG ?d ?a ?b sc1 ?n tab1 tm1 ti1 s1 with _ => _ end =>
        pose proof (moveStepAfter_ok st mi maxPV depth klG d a b sc1 n tab1 tm1 ti1 s1 Hst Hmi He1 Hev1) as H;
        destruct (moveStepAfter st mi maxPV depth klG d a b sc1 n tab1 tm1 ti1 s1) end; auto.
      destruct H as [A [B [C D]]]. split; [assumption | split; [assumption | split; [assumption | cbn; lia]]].
    - match goal with |- match moveStepAfter st mi maxPV depth klG ?d ?a ?b sc0 ?n tab0 tm0 ti0 s0 with _ => _ end =>
        pose proof (moveStepAfter_ok st mi maxPV depth klG d a b sc0 n tab0 tm0 ti0 s0 Hst Hmi He0 Hev0) as H;
        destruct (moveStepAfter st mi maxPV depth klG d a b sc0 n tab0 tm0 ti0 s0) end; auto.
      destruct H as [A [B [C D]]]. split; [assumption | split; [assumption | split; [assumption | cbn; lia]]].
  Qed.

  (** *** the loop over the root moves of one iteration *)
  Lemma moveLoop_ok : forall k mi maxPV s st depth first klG ti,
    stOK st -> (mi + k = length (ls_rm st))%nat -> Forall evOK s ->
    match moveLoop k mi maxPV s st depth first klG ti with
    | IStop _ b be r => In b R /\ In be R /\ Forall repOK r
    | IFuel _ => ~ PVTotal
    | IEnd _ st' s' _ =>
      stOK st' /\ length (ls_rm st') = length (ls_rm st) /\ Forall evOK s' /\
      (length s' <= length s)%nat /\ ((0 < k)%nat -> (length s' < length s)%nat)
    end.
  Proof.
    induction k as [|k IH]; intros mi maxPV s st depth first klG ti Hst Hk Hev; cbn [Root.moveLoop].
    { split; [assumption | split; [reflexivity | split; [assumption | split; lia]]]. }
    pose proof (moveStep_ok s st mi maxPV depth first klG Hst ltac:(lia) Hev) as Hs.
    destruct (moveStep s st mi maxPV depth first klG) as [b be r| |st' s' tm' ti']; auto.
    destruct Hs as [Hst' [Hlen' [Hev' Hlt]]].
    destruct (negb first && tm')%bool.
    { split; [assumption | split; [assumption | split; [assumption | split; lia]]]. }
    specialize (IH (S mi) maxPV s' st' depth first klG ti' Hst' ltac:(lia) Hev').
    destruct (moveLoop k (S mi) maxPV s' st' depth first klG ti'); auto.
    destruct IH as [A [B [C [D E]]]]. split; [assumption | split; [lia | split; [assumption | split; lia]]].
  Qed.

  (** *** the iteration loop: whatever is answered is a root move, every report is well-formed *)
  Lemma depthLoop_ok : forall fuel depth first klG maxPV maxDepth s st b r,
    stOK st -> ls_rm st <> [] -> Forall evOK s ->
    depthLoop fuel depth first klG maxPV maxDepth s st = Answer b r ->
    In b R /\ Forall repOK r.
  Proof.
    induction fuel as [|f IH]; intros depth first klG maxPV maxDepth s st b r Hst Hne Hev H; [discriminate|].
    cbn [Root.depthLoop] in H.
    pose proof (moveLoop_ok (length (ls_rm st)) 0 maxPV s st depth first klG false Hst ltac:(lia) Hev) as Hl.
    destruct (moveLoop (length (ls_rm st)) 0 maxPV s st depth first klG false) as [b0 be0 r0| |st1 s1 ti]; [|discriminate|].
    - destruct Hl as [A [B C]]. inversion H; subst. split; [destruct (c_onlyExact cfg); assumption | assumption].
    - destruct Hl as [Hst1 [Hlen1 [Hev1 _]]].
      assert (Hpick : In (pick cfg st1) R).
      { unfold pick. destruct Hst1. destruct (c_onlyExact cfg); assumption. }
      assert (Hans : forall b r, Answer (pick cfg st1) (ls_reps st1) = Answer b r -> In b R /\ Forall repOK r).
      { intros b' r' E. inversion E; subst. split; [assumption | apply Hst1]. }
      destruct ti; [apply Hans; assumption|].
      match type of H with context [if ?c then Answer _ _ else _] => destruct c end; [apply Hans; assumption|].
      match type of H with context [if ?c then Answer _ _ else _] => destruct c end; [apply Hans; assumption|].
      eapply IH; [| |exact Hev1|exact H].
      + destruct Hst1 as [Hrm1 Hb1 Hbe1 Hreps1]. constructor; cbn; try assumption.
        eapply rmOK_perm; [apply tailSort_perm | assumption].
      + cbn. intro E.
        assert (Hl0 : length (firstn maxPV (ls_rm st1) ++ stableSort (if first then byScore else byNodes) (skipn maxPV (ls_rm st1)))
                      = length (ls_rm st1)) by (apply Permutation_length, tailSort_perm).
        rewrite E in Hl0. cbn in Hl0. destruct (ls_rm st); [congruence | cbn in Hlen1; lia].
  Qed.

  (** *** fuel: with PVTotal the loops never run out of fuel *)
  Lemma depthLoop_fuel : forall fuel depth first (klG : bool) maxPV maxDepth s st,
    PVTotal -> stOK st -> ls_rm st <> [] -> Forall evOK s -> 1 <= depth ->
    (Z.to_nat (maxDepth - depth) + (if klG then 0%nat else 2%nat) < fuel)%nat ->
    depthLoop fuel depth first klG maxPV maxDepth s st <> OutOfFuel.
  Proof.
    induction fuel as [|f IH]; intros depth first klG maxPV maxDepth s st Htot Hst Hne Hev Hd Hfuel; [lia|].
    cbn [Root.depthLoop].
    pose proof (moveLoop_ok (length (ls_rm st)) 0 maxPV s st depth first klG false Hst ltac:(lia) Hev) as Hl.
    destruct (moveLoop (length (ls_rm st)) 0 maxPV s st depth first klG false) as [b0 be0 r0| |st1 s1 ti];
      [discriminate | contradiction |].
    destruct Hl as [Hst1 [Hlen1 [Hev1 _]]].
    destruct ti; [discriminate|].
    set (klNow := (negb first && negb klG && mi_knownLoss (getMI (ls_rm st1) (maxPV - 1)))%bool).
    destruct (Z.geb_spec (if klNow then Z.max 0 (depth - 1) else depth) maxDepth) as [Hge|Hlt]; [discriminate|].
    match goal with |- (if ?c then _ else _) <> _ => destruct c end; [discriminate|].
    apply IH; try assumption.
    - destruct Hst1 as [Hrm1 Hb1 Hbe1 Hreps1]. constructor; cbn; try assumption.
      eapply rmOK_perm; [apply tailSort_perm | assumption].
    - cbn. intro E.
      assert (Hl0 : length (firstn maxPV (ls_rm st1) ++ stableSort (if first then byScore else byNodes) (skipn maxPV (ls_rm st1)))
                    = length (ls_rm st1)) by (apply Permutation_length, tailSort_perm).
      rewrite E in Hl0. cbn in Hl0. destruct (ls_rm st); [congruence | cbn in Hlen1; lia].
    - destruct klNow; lia.
    - destruct klNow eqn:Ek.
      + assert (klG = false).
        { unfold klNow in Ek. destruct klG; [rewrite andb_false_r in Ek; discriminate | reflexivity]. }
        subst klG. cbn [orb]. lia.
      + rewrite orb_false_r. destruct klG; lia.
  Qed.
End Loop.
