(** C03 — facts about the list-level pieces of Root.v: move equality, MoveList::filter, startThread's
    filtering, selectBest / selection sort, the reduced-strength subset, getRootMoves. *)
From Coq Require Import ZArith NArith List Bool Lia Permutation.
From Texel Require Import Chess.Types gen.RootConsts Root.Root.
Import ListNotations.
Local Open Scope Z_scope.

(** ** Move equality *)
Lemma move_eqb_eq : forall a b, move_eqb a b = true <-> a = b.
Proof.
  intros [f1 t1 p1] [f2 t2 p2]; unfold move_eqb; cbn [mfrom mto mpromote].
  rewrite !andb_true_iff, !N.eqb_eq. split.
  - intros [[-> ->] ->]; reflexivity.
  - intros H; inversion H; auto.
Qed.

Lemma move_eqb_refl : forall a, move_eqb a a = true.
Proof. intros; apply move_eqb_eq; reflexivity. Qed.

Lemma memMove_In : forall m l, memMove m l = true <-> In m l.
Proof.
  intros m l; unfold memMove; rewrite existsb_exists. split.
  - intros [x [Hin Heq]]. apply move_eqb_eq in Heq. subst; assumption.
  - intros H; exists m; split; [assumption | apply move_eqb_refl].
Qed.

Lemma memN_In : forall x l, memN x l = true <-> In x l.
Proof.
  intros x l; unfold memN; rewrite existsb_exists. split.
  - intros [y [Hin Heq]]. apply N.eqb_eq in Heq. subst; assumption.
  - intros H; exists x; split; [assumption | apply N.eqb_refl].
Qed.

Lemma memN_false : forall x l, memN x l = false <-> ~ In x l.
Proof.
  intros x l; split; intro H.
  - intro Hin. apply memN_In in Hin. congruence.
  - destruct (memN x l) eqn:E; auto. exfalso; apply H; apply memN_In; assumption.
Qed.

(** ** MoveList::filter and startThread *)
Lemma filterMoves_In : forall ml sm m, In m (filterMoves ml sm) <-> In m ml /\ In m sm.
Proof. intros; unfold filterMoves; rewrite filter_In, memMove_In; tauto. Qed.

Lemma filterMoves_NoDup : forall ml sm, NoDup ml -> NoDup (filterMoves ml sm).
Proof. intros; unfold filterMoves; apply NoDup_filter; assumption. Qed.

Lemma startMoves_In : forall legal sm m,
  In m (startMoves legal sm) <-> In m legal /\ (sm = [] \/ In m sm).
Proof.
  intros legal sm m; unfold startMoves; destruct sm as [|s sm'].
  - split; [intros; split; auto | tauto].
  - rewrite filterMoves_In. split; intros [H1 H2]; split; auto.
    destruct H2 as [H2|H2]; [discriminate | assumption].
Qed.

Lemma startMoves_NoDup : forall legal sm, NoDup legal -> NoDup (startMoves legal sm).
Proof. intros legal sm H; unfold startMoves; destruct sm; [assumption | apply filterMoves_NoDup; assumption]. Qed.

Lemma startMoves_incl : forall legal sm, incl (startMoves legal sm) legal.
Proof. intros legal sm m H; apply startMoves_In in H; tauto. Qed.

(** the set handed to the search is exactly legal ∩ searchmoves; it is empty iff that intersection is *)
Lemma startMoves_nonempty_iff : forall legal sm,
  startMoves legal sm <> [] <-> exists m, In m legal /\ (sm = [] \/ In m sm).
Proof.
  intros legal sm; split.
  - intros H. destruct (startMoves legal sm) as [|m t] eqn:E; [congruence|].
    exists m. apply startMoves_In. rewrite E; left; reflexivity.
  - intros [m Hm] E. apply startMoves_In in Hm. rewrite E in Hm. destruct Hm.
Qed.

(** ** replaceNth *)
Lemma replaceNth_length : forall {A} n (l : list A) x, length (replaceNth n l x) = length l.
Proof. induction n; destruct l; cbn; intros; auto. Qed.

Lemma replaceNth_map_same : forall {A B} (f : A -> B) n (l : list A) x d,
  (n < length l)%nat -> f x = f (nth n l d) -> map f (replaceNth n l x) = map f l.
Proof.
  induction n; destruct l; cbn; intros; try lia.
  - f_equal; assumption.
  - f_equal. apply IHn with (d := d); [lia | assumption].
Qed.

Lemma replaceNth_Forall : forall {A} (Q : A -> Prop) n (l : list A) x,
  Forall Q l -> Q x -> Forall Q (replaceNth n l x).
Proof.
  induction n; destruct l; cbn; intros; auto.
  - inversion H; constructor; auto.
  - inversion H; constructor; auto.
Qed.

Lemma replaceNth_nth_same : forall {A} n (l : list A) x d, (n < length l)%nat -> nth n (replaceNth n l x) d = x.
Proof. induction n; destruct l; cbn; intros; try lia; auto. apply IHn; lia. Qed.

Lemma replaceNth_nth_other : forall {A} n k (l : list A) x d, n <> k -> nth k (replaceNth n l x) d = nth k l d.
Proof.
  induction n; destruct l; destruct k; cbn; intros; try congruence; auto.
Qed.

Lemma replaceNth_swap_perm : forall {A} j (xs : list A) x,
  (j < length xs)%nat -> Permutation (nth j xs x :: replaceNth j xs x) (x :: xs).
Proof.
  induction j; destruct xs; cbn; intros; try lia.
  - apply perm_swap.
  - eapply perm_trans; [apply perm_swap|].
    eapply perm_trans; [apply perm_skip; apply IHj; lia|].
    apply perm_swap.
Qed.

(** ** selectBest / selection sort *)
Lemma bestIdx_bound : forall l bs bi cur,
  (bi < cur)%nat -> (bestIdx bs bi cur l < cur + length l)%nat.
Proof.
  induction l as [|[m s] t IH]; cbn; intros; [lia|].
  destruct (s >? bs).
  - specialize (IH s cur (S cur)); lia.
  - specialize (IH bs bi (S cur)); lia.
Qed.

Lemma selectBest_perm : forall l, Permutation (selectBest l) l.
Proof.
  intros [|x xs]; cbn; [constructor|].
  pose proof (bestIdx_bound xs (snd x) 0%nat 1%nat ltac:(lia)) as Hb.
  destruct (bestIdx (snd x) 0 1 xs) as [|j]; [apply Permutation_refl|].
  apply replaceNth_swap_perm. lia.
Qed.

Lemma selSort_perm : forall fuel l, Permutation (selSort fuel l) l.
Proof.
  induction fuel; intros l; cbn; [apply Permutation_refl|].
  pose proof (selectBest_perm l) as Hp.
  destruct (selectBest l) as [|h t]; [assumption|].
  eapply perm_trans; [apply perm_skip; apply IHfuel | assumption].
Qed.

(** ** the reduced-strength subset *)
Lemma inclFlags_length : forall n st r, length (inclFlags n st r) = n.
Proof. induction n; cbn; intros; auto. Qed.

Lemma selectIncluded_In : forall {A} (l : list A) fl idx forced x,
  In x (selectIncluded idx forced l fl) -> In x l.
Proof.
  induction l as [|a t IH]; intros fl idx forced x H; destruct fl as [|f ft]; cbn in H; try contradiction.
  destruct (f || Nat.eqb idx forced)%bool.
  - destruct H as [->|H]; [left; reflexivity | right; eapply IH; eassumption].
  - right; eapply IH; eassumption.
Qed.

Lemma selectIncluded_NoDup : forall {A} (l : list A) fl idx forced,
  NoDup l -> NoDup (selectIncluded idx forced l fl).
Proof.
  induction l as [|a t IH]; intros fl idx forced H; destruct fl as [|f ft]; cbn; try constructor.
  inversion H; subst.
  destruct (f || Nat.eqb idx forced)%bool; [|apply IH; assumption].
  constructor; [|apply IH; assumption].
  intro Hin; apply selectIncluded_In in Hin; contradiction.
Qed.

Lemma selectIncluded_forced : forall {A} (l : list A) fl idx forced d,
  length fl = length l -> (idx <= forced)%nat -> (forced - idx < length l)%nat ->
  In (nth (forced - idx) l d) (selectIncluded idx forced l fl).
Proof.
  induction l as [|a t IH]; intros fl idx forced d Hlen Hle Hlt; cbn in Hlt; [lia|].
  destruct fl as [|f ft]; [discriminate|]. cbn [selectIncluded].
  destruct (Nat.eq_dec idx forced) as [->|Hne].
  - rewrite Nat.eqb_refl, orb_true_r, Nat.sub_diag. left; reflexivity.
  - assert (Hs : (forced - idx = S (forced - S idx))%nat) by lia.
    rewrite Hs. cbn [nth].
    assert (Hin : In (nth (forced - S idx) t d) (selectIncluded (S idx) forced t ft)).
    { apply IH; cbn in Hlen; lia. }
    destruct (f || Nat.eqb idx forced)%bool; [right|]; assumption.
Qed.

(** with full strength every move is kept *)
Lemma inclFlags_full : forall n st r, weakThreshold <= st -> inclFlags n st r = repeat true n.
Proof.
  induction n; cbn; intros; auto.
  unfold inclTest. destruct (st <? weakThreshold) eqn:E; [apply Z.ltb_lt in E; lia|].
  f_equal; apply IHn; assumption.
Qed.

Lemma selectIncluded_all : forall {A} (l : list A) idx forced,
  selectIncluded idx forced l (repeat true (length l)) = l.
Proof. induction l; cbn; intros; auto. f_equal; apply IHl. Qed.

(** ** getRootMoves *)
Definition movesOf (rm : list moveInfo) : list move := map mi_move rm.

Lemma movesOf_newMI : forall l, movesOf (map newMI l) = map fst l.
Proof. induction l; cbn; auto. unfold movesOf in *; cbn; f_equal; assumption. Qed.

Lemma tbSearchMoves_spec : forall legal tbWin prog bad mts,
  tbSearchMoves legal tbWin prog bad = Some mts -> mts <> [] /\ incl mts legal.
Proof.
  intros legal tbWin prog bad mts; unfold tbSearchMoves.
  destruct (negb tbWin); [discriminate|].
  destruct (filter (fun m => negb (bad m)) legal) as [|a t] eqn:E.
  - rewrite andb_false_r; discriminate.
  - destruct (negb (existsb prog legal)); cbn; [|discriminate].
    intros H; inversion H; subst; split; [discriminate|].
    intros m Hm. rewrite <- E in Hm. apply filter_In in Hm; tauto.
Qed.

(** the list after the tablebase filter *)
Definition tbFiltered (rootMovesIn legal : list move) (limited tbWin : bool) (prog bad : move -> bool) :=
  if (limited && Nat.eqb (length rootMovesIn) (length legal))%bool then
    match tbSearchMoves legal tbWin prog bad with
    | Some mts => filterMoves rootMovesIn mts
    | None => rootMovesIn
    end
  else rootMovesIn.

Lemma tbFiltered_props : forall rootMovesIn legal limited tbWin prog bad,
  rootMovesIn <> [] -> NoDup rootMovesIn -> incl rootMovesIn legal ->
  let l := tbFiltered rootMovesIn legal limited tbWin prog bad in
  l <> [] /\ NoDup l /\ incl l rootMovesIn.
Proof.
  intros rmi legal limited tbWin prog bad Hne Hnd Hincl; unfold tbFiltered.
  destruct (limited && Nat.eqb (length rmi) (length legal))%bool eqn:E.
  2: { cbn; repeat split; auto; apply incl_refl. }
  apply andb_true_iff in E; destruct E as [_ E]; apply Nat.eqb_eq in E.
  destruct (tbSearchMoves legal tbWin prog bad) as [mts|] eqn:Etb.
  2: { cbn; repeat split; auto; apply incl_refl. }
  cbn. apply tbSearchMoves_spec in Etb; destruct Etb as [Hm Hi].
  split; [|split].
  - (* same size, no duplicates, subset => rootMovesIn covers legal *)
    assert (Hcov : incl legal rmi).
    { apply NoDup_length_incl; [assumption | lia | assumption]. }
    destruct mts as [|m t]; [congruence|].
    intro Hnil.
    assert (Hin : In m (filterMoves rmi (m :: t))).
    { apply filterMoves_In; split; [apply Hcov, Hi; left; reflexivity | left; reflexivity]. }
    rewrite Hnil in Hin; destruct Hin.
  - apply filterMoves_NoDup; assumption.
  - intros m Hin; apply filterMoves_In in Hin; tauto.
Qed.

Definition freshMI (x : moveInfo) : Prop :=
  mi_nodes x = 0 /\ mi_knownLoss x = false /\ mi_depth x = 0 /\ mi_pv x = [].

Lemma selectIncluded_map : forall {A B} (f : A -> B) (l : list A) fl idx forced,
  map f (selectIncluded idx forced l fl) = selectIncluded idx forced (map f l) fl.
Proof.
  induction l as [|a t IH]; intros fl idx forced; destruct fl as [|b ft]; cbn; auto.
  destruct (b || Nat.eqb idx forced)%bool; cbn; [f_equal|]; apply IH.
Qed.

Lemma selSort_moves_perm : forall (ord : move -> Z) l,
  Permutation (map fst (selSort (length l) (map (fun m => (m, ord m)) l))) l.
Proof.
  intros. eapply perm_trans.
  - apply Permutation_map. apply selSort_perm.
  - rewrite map_map; cbn. rewrite map_id. apply Permutation_refl.
Qed.

(** C03_rootmoves_nonempty: for every strength, random seed, move ordering and tablebase verdict the list the
    search iterates over is non-empty, duplicate-free and a subset of the list it was given *)
Theorem getRootMoves_spec : forall rootMovesIn legal limited tbWin prog bad ord strength rnd0,
  rootMovesIn <> [] -> NoDup rootMovesIn -> incl rootMovesIn legal ->
  exists rm, getRootMoves rootMovesIn legal limited tbWin prog bad ord strength rnd0 = Some rm /\
             rm <> [] /\ NoDup (movesOf rm) /\ incl (movesOf rm) rootMovesIn /\ Forall freshMI rm.
Proof.
  intros rmi legal limited tbWin prog bad ord strength rnd0 Hne Hnd Hincl.
  unfold getRootMoves. fold (tbFiltered rmi legal limited tbWin prog bad).
  destruct (tbFiltered_props rmi legal limited tbWin prog bad Hne Hnd Hincl) as [Hl1 [Hl2 Hl3]].
  set (l := tbFiltered rmi legal limited tbWin prog bad) in *.
  set (sortedS := selSort (length l) (map (fun m => (m, ord m)) l)).
  assert (Hperm : Permutation (map fst sortedS) l) by apply selSort_moves_perm.
  assert (Hlen : length sortedS = length l).
  { transitivity (length (map fst sortedS)); [symmetry; apply map_length | apply Permutation_length; assumption]. }
  destruct (length sortedS) as [|n] eqn:En.
  { destruct l; [congruence | cbn in Hlen; lia]. }
  eexists; split; [reflexivity|].
  set (forced := N.to_nat (rnd0 mod N.of_nat (S n))).
  assert (Hf : (forced < S n)%nat).
  { unfold forced. pose proof (N.mod_upper_bound rnd0 (N.of_nat (S n)) ltac:(lia)). lia. }
  set (sel := selectIncluded 0 forced sortedS (inclFlags (S n) strength rnd0)).
  assert (Hin : In (nth (forced - 0) sortedS (emptyMove, 0)) sel).
  { apply selectIncluded_forced; [rewrite inclFlags_length; lia | lia | lia]. }
  assert (Hsnd : NoDup (map fst sortedS)) by (eapply Permutation_NoDup; [apply Permutation_sym; eassumption | assumption]).
  split; [|split; [|split]].
  - destruct sel; [destruct Hin | cbn; discriminate].
  - rewrite movesOf_newMI. unfold sel. rewrite selectIncluded_map. apply selectIncluded_NoDup; assumption.
  - rewrite movesOf_newMI. unfold sel. rewrite selectIncluded_map. intros m Hm. apply selectIncluded_In in Hm.
    apply Hl3. eapply Permutation_in; eassumption.
  - apply Forall_forall. intros x Hx. apply in_map_iff in Hx. destruct Hx as [m [<- _]].
    unfold freshMI, newMI; cbn; auto.
Qed.

(** with Strength >= 200 (pIncl = 1.0) and no tablebase verdict nothing is dropped *)
Lemma getRootMoves_full : forall rootMovesIn legal limited prog bad ord strength rnd0 rm,
  weakThreshold <= strength ->
  getRootMoves rootMovesIn legal limited false prog bad ord strength rnd0 = Some rm ->
  Permutation (movesOf rm) rootMovesIn.
Proof.
  intros rmi legal limited prog bad ord strength rnd0 rm Hs.
  unfold getRootMoves, tbSearchMoves; cbn [negb].
  replace (if (limited && Nat.eqb (length rmi) (length legal))%bool then rmi else rmi) with rmi
    by (destruct (limited && Nat.eqb (length rmi) (length legal))%bool; reflexivity).
  set (sortedS := selSort (length rmi) (map (fun m => (m, ord m)) rmi)).
  assert (Hperm : Permutation (map fst sortedS) rmi) by apply selSort_moves_perm.
  remember (length sortedS) as k eqn:Ek.
  destruct k as [|n]; [discriminate|].
  intros [= <-].
  change (inclTest strength (lcgNext rnd0) :: inclFlags n strength (lcgNext rnd0))
    with (inclFlags (S n) strength rnd0).
  rewrite movesOf_newMI, inclFlags_full by assumption.
  rewrite Ek, selectIncluded_all. assumption.
Qed.
