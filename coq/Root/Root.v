(** C03 — executable model of the bookkeeping that decides which answer the engine gives.

    Shaped like the C++ (no proofs in this file):
      filterMoves            MoveList::filter                          (moveGen.cpp)
      startMoves, startThreadLimits   EngineControl::startThread       (enginecontrol.cpp)
      tbSearchMoves          TBProbe::getSearchMoves, probes as oracles (tb/tbprobe.cpp)
      getRootMoves           Search::getRootMoves                       (search.cpp)
      extractPVMoves         TranspositionTable::extractPVMoves         (transpositionTable.cpp)
      extendPV               TBProbe::extendPV, DTM probes as an oracle (tb/tbprobe.cpp)
      getPonderMove          EngineControl::getPonderMove
      formatScore, mkLine    Search::notifyPV(const MoveInfo&, int) + SearchListener::notifyPV
      notifySel, notifyPV    Search::notifyPV(const std::vector<MoveInfo>&, int, int)
      storeSearchResult, research, moveStep, moveLoop, depthLoop, iterativeDeepening
                             Search::iterativeDeepening as a function of an ORACLE STREAM: every call of
                             negaScoutRoot consumes one [event] (the score it returns, the nodes it used, the
                             transposition table it leaves behind, the outcome of the clock tests that follow
                             it) or is interrupted by StopSearch ([EvStop] / exhausted stream).
    The recursive search, the evaluation, the clock, helper threads and tablebase contents are NOT
    modelled: they are exactly the oracles, and the theorems quantify over all their values. *)
From Coq Require Import ZArith NArith List Bool Lia.
From Texel Require Import Chess.Types gen.RootConsts.
Import ListNotations.
Local Open Scope Z_scope.

(** * Moves *)
Definition move_eqb (a b : move) : bool :=
  ((mfrom a =? mfrom b)%N && (mto a =? mto b)%N && (mpromote a =? mpromote b)%N)%bool.   (* Move::operator== *)
Definition emptyMove : move := mkMove 0%N 0%N 0%N.                                            (* Move() *)
Definition isEmptyMove (m : move) : bool := ((mfrom m =? 0)%N && (mto m =? 0)%N)%bool.  (* Move::isEmpty *)
Definition memMove (m : move) (l : list move) : bool := existsb (move_eqb m) l.         (* std::find != end *)
Definition memN (x : N) (l : list N) : bool := existsb (N.eqb x) l.                     (* contains(vector<U64>) *)

(** MoveList::filter: keep, in order, the moves that occur in searchMoves *)
Definition filterMoves (ml sm : list move) : list move := filter (fun m => memMove m sm) ml.

(** EngineControl::startThread: the root move list handed to the search *)
Definition startMoves (legal sm : list move) : list move :=
  match sm with [] => legal | _ => filterMoves legal sm end.

Definition clampZ (v lo hi : Z) : Z := Z.min (Z.max v lo) hi.                           (* util.hpp clamp *)

(** EngineControl::startThread: onePossibleMove and the limits it rewrites
    (minTimeLimit, maxTimeLimit, maxDepth) *)
Definition startThreadLimits (nMoves : nat) (infinite ponder : bool) (minT maxT maxDepth : Z)
  : bool * (Z * Z * Z) :=
  if (Nat.ltb nMoves 2 && negb infinite)%bool then
    if negb ponder then
      if 0 <? maxT then (true, (clampZ (Z.quot minT 100) 1 100, clampZ (Z.quot maxT 100) 1 100, maxDepth))
      else if (maxDepth <? 0) || (2 <? maxDepth) then (true, (minT, maxT, 2))
      else (true, (minT, maxT, maxDepth))
    else (true, (minT, maxT, maxDepth))
  else (false, (minT, maxT, maxDepth)).

(** * Search::getRootMoves *)

(** TBProbe::getSearchMoves.  [tbWin]: the root probe succeeded, is not an upper bound and is a win score;
    [prog m] / [bad m]: the probe after [m] classifies it as progress / as losing the win. *)
Definition tbSearchMoves (legal : list move) (tbWin : bool) (prog bad : move -> bool) : option (list move) :=
  if negb tbWin then None
  else
    let movesToSearch := filter (fun m => negb (bad m)) legal in
    let hasProgress := existsb prog legal in
    if (negb hasProgress && negb (match movesToSearch with [] => true | _ => false end))%bool
    then Some movesToSearch else None.

Definition scored := (move * Z)%type.

(** Search::selectBest(moves, startIdx) on the suffix starting at startIdx: index of the first maximal score *)
Fixpoint bestIdx (bestScore : Z) (bestI cur : nat) (l : list scored) : nat :=
  match l with
  | [] => bestI
  | (_, s) :: t => if s >? bestScore then bestIdx s cur (S cur) t else bestIdx bestScore bestI (S cur) t
  end.

Fixpoint replaceNth {A} (n : nat) (l : list A) (x : A) : list A :=
  match l, n with
  | [], _ => []
  | _ :: t, O => x :: t
  | h :: t, S n' => h :: replaceNth n' t x
  end.

(** swap(moves[bestIdx], moves[startIdx]) seen from startIdx *)
Definition selectBest (l : list scored) : list scored :=
  match l with
  | [] => []
  | x :: xs =>
    match bestIdx (snd x) 0 1 xs with
    | O => x :: xs
    | S j => nth j xs x :: replaceNth j xs x
    end
  end.

(** for (i = 0; i < size; i++) selectBest(rootMoves, i) *)
Fixpoint selSort (fuel : nat) (l : list scored) : list scored :=
  match fuel with
  | O => l
  | S f => match selectBest l with [] => [] | h :: t => h :: selSort f t end
  end.

Definition two64 : N := (2 ^ 64)%N.
Definition lcgNext (r : N) : N := ((lcgMul * r + lcgAdd) mod two64)%N.

(** rnd < pIncl with rnd = ((rndL & mask) % 1e9) / 1e9 and pIncl = strength*strength/(200.0*200.0) (or 1.0):
    both sides are correctly rounded quotients of exactly representable operands and distinct multiples of 1e-9
    below 1 round to distinct doubles, so the comparison of doubles is the comparison of the rationals
    k / 10^9 < strength^2 / pInclDen  (tied to the code by the getRootMoves correspondence) *)
Definition inclTest (strength : Z) (r : N) : bool :=
  if strength <? weakThreshold then
    (Z.of_N ((N.land r rndMask) mod rndMod) * pInclDen <? strength * strength * Z.of_N rndMod)
  else true.

(** the loop  for mi: rndL = lcg(rndL); if (rnd < pIncl) includedMoves[mi] = true *)
Fixpoint inclFlags (n : nat) (strength : Z) (r : N) : list bool :=
  match n with
  | O => []
  | S n' => let r' := lcgNext r in inclTest strength r' :: inclFlags n' strength r'
  end.

Fixpoint selectIncluded {A} (idx : nat) (forced : nat) (l : list A) (fl : list bool) : list A :=
  match l, fl with
  | x :: t, f :: ft => if (f || Nat.eqb idx forced)%bool then x :: selectIncluded (S idx) forced t ft
                       else selectIncluded (S idx) forced t ft
  | _, _ => []
  end.

Record moveInfo := mkMI {
  mi_move : move; mi_score : Z; mi_nodes : Z; mi_knownLoss : bool;
  mi_depth : Z; mi_alpha : Z; mi_beta : Z; mi_pv : list move }.

(** MoveInfo(m, 0): the Move is copied with the score scoreMoveList gave it *)
Definition newMI (p : scored) : moveInfo := mkMI (fst p) (snd p) 0 false 0 0 0 [].

(** Search::getRootMoves.
    [limited] = (maxTimeMillis >= 0 || maxNodes >= 0 || maxDepth >= 0); [legal] = the legal moves generated
    inside; [ord] = the scores scoreMoveList assigns; [rnd0] = pos.zobristHash() ^ randomSeed.
    None = the C++ would evaluate [rndL % 0] (excluded by C03_rootmoves_nonempty). *)
Definition getRootMoves (rootMovesIn legal : list move) (limited : bool)
           (tbWin : bool) (prog bad : move -> bool) (ord : move -> Z)
           (strength : Z) (rnd0 : N) : option (list moveInfo) :=
  let rootMoves :=
    if (limited && Nat.eqb (length rootMovesIn) (length legal))%bool then
      match tbSearchMoves legal tbWin prog bad with
      | Some mts => filterMoves rootMovesIn mts
      | None => rootMovesIn
      end
    else rootMovesIn in
  let sorted := selSort (length rootMoves) (map (fun m => (m, ord m)) rootMoves) in
  match length sorted with
  | O => None
  | S _ =>
    let forced := N.to_nat (rnd0 mod N.of_nat (length sorted)) in
    Some (map newMI (selectIncluded 0 forced sorted (inclFlags (length sorted) strength rnd0)))
  end.

(** * Score formatting: Search::notifyPV(const MoveInfo&, int) and SearchListener::notifyPV *)
Inductive bound := BNone | BUpper | BLower.
Record line := mkLine {
  l_depth : Z; l_isMate : bool; l_score : Z; l_bound : bound; l_pv : list move; l_multipv : Z }.

Definition formatScore (score : Z) : bool * Z :=
  if isWinScore score then (true, mateWin score)
  else if isLoseScore score then (true, mateLose score)
  else (false, score).

(** the listener prints " upperbound" if uBound, else " lowerbound" if lBound *)
Definition boundOf (score alpha beta : Z) : bound :=
  if uBoundTest score alpha then BUpper else if lBoundTest score beta then BLower else BNone.

Definition mkInfoLine (x : moveInfo) (multiPVIndex : Z) : list line :=
  if mi_depth x <=? 0 then []
  else let '(isMate, sc) := formatScore (mi_score x) in
       [mkLine (mi_depth x) isMate sc (boundOf (mi_score x) (mi_alpha x) (mi_beta x)) (mi_pv x) multiPVIndex].

Definition dfltMI : moveInfo := newMI (emptyMove, 0).
Definition getMI (rm : list moveInfo) (i : nat) : moveInfo := nth i rm dfltMI.

(** Search::notifyPV(moveInfo, mi, maxPV): which entries are reported, in which order, with which running
    index n.  Result: list of (n, index into moveInfo).  None = loop fuel exhausted (never, see proofs). *)
Fixpoint notifySel (fuel : nat) (rm : list moveInfo) (mi maxPV : nat) (i n : nat) (miNotified : bool)
         (acc : list (nat * nat)) : option (list (nat * nat)) :=
  match fuel with
  | O => None
  | S f =>
    if Nat.leb maxPV n then Some acc
    else
      let x := getMI rm mi in
      if (negb miNotified && (mi_score x >? mi_score (getMI rm i)) && (mi_score x >? mi_alpha x))%bool then
        let acc1 := acc ++ [(n, mi)] in
        let n1 := S n in
        if Nat.leb maxPV n1 then Some acc1
        else if Nat.eqb i mi then notifySel f rm mi maxPV (S i) n1 true acc1
             else notifySel f rm mi maxPV (S i) (S n1) true (acc1 ++ [(n1, i)])
      else if Nat.eqb i mi then
             if miNotified then notifySel f rm mi maxPV (S i) n true acc
             else notifySel f rm mi maxPV (S i) (S n) true (acc ++ [(n, mi)])
           else notifySel f rm mi maxPV (S i) (S n) miNotified (acc ++ [(n, i)])
  end.

Definition multiPVIndexOf (maxPV n : nat) : Z := if Nat.ltb 1 maxPV then Z.of_nat n else (-1).

(** one report = the info lines one call of notifyPV(moveInfo, mi, maxPV) hands to the listener *)
Definition notifyPV (rm : list moveInfo) (mi maxPV : nat) : option (list line) :=
  match notifySel (S (S maxPV)) rm mi maxPV 0 0 false [] with
  | None => None
  | Some sel => Some (flat_map (fun p => mkInfoLine (getMI rm (snd p)) (multiPVIndexOf maxPV (fst p))) sel)
  end.

(** * Principal variations *)
Section Positions.
  Variable P : Type.                          (* positions *)
  Variable TT : Type.                         (* a transposition-table content *)
  Variable probe : TT -> N -> option move.    (* probe(key): Some m iff an entry of type <> T_EMPTY is returned; m = its move *)
  Variable mk : P -> move -> P.               (* Position::makeMove *)
  Variable legalAt : P -> list move.          (* pseudoLegalMoves + removeIllegal *)
  Variable zh : P -> N.                       (* zobristHash() *)
  Variable hh : P -> N.                       (* historyHash() *)
  Variable dtm : P -> Z -> option Z.          (* TBProbe::dtmProbe(pos, ply) *)
  Variable hmcOf : P -> Z.                    (* getHalfMoveClock() *)
  Variable wtmOf : P -> bool.                 (* isWhiteMove() *)

  (** TranspositionTable::extractPVMoves; [hist] = hashHistory.  None = fuel exhausted. *)
  Fixpoint extractPVMoves (fuel : nat) (tab : TT) (pos : P) (m : move) (hist : list N) : option (list move) :=
    match fuel with
    | O => None
    | S f =>
      let pos' := mk pos m in
      if memN (zh pos') hist then Some [m]
      else match probe tab (hh pos') with
           | None => Some [m]
           | Some m' =>
             if memMove m' (legalAt pos')
             then match extractPVMoves f tab pos' m' (zh pos' :: hist) with
                  | Some pv => Some (m :: pv)
                  | None => None
                  end
             else Some [m]
           end
    end.

  (** EngineControl::getPonderMove *)
  Definition getPonderMove (tab : TT) (pos : P) (m : move) : move :=
    if isEmptyMove m then emptyMove
    else let pos' := mk pos m in
         match probe tab (hh pos') with
         | None => emptyMove
         | Some r => if memMove r (legalAt pos') then r else emptyMove
         end.

  Definition tbWinClose (pos : P) (score ply : Z) : bool :=
    (isWinScore (Z.abs score) && (MATE0 - 1 - Z.abs score - ply <=? 100 - hmcOf pos))%bool.

  (** first loop of TBProbe::extendPV: walk the PV, cut it after the first position that is a close TB win;
      returns (position reached, PV kept) *)
  Fixpoint extendCut (pos : P) (pv : list move) : P * list move :=
    match pv with
    | [] => (pos, [])
    | m :: t =>
      let pos' := mk pos m in
      match dtm pos' 0 with
      | Some sc => if tbWinClose pos' sc 0 then (pos', [m])
                   else let '(p2, t2) := extendCut pos' t in (p2, m :: t2)
      | None => let '(p2, t2) := extendCut pos' t in (p2, m :: t2)
      end
    end.

  (** inner for loop of the while(true): first legal move whose probe keeps the score *)
  Fixpoint extendFind (pos : P) (score ply : Z) (ms : list move) : option move :=
    match ms with
    | [] => None
    | m :: t =>
      let pos' := mk pos m in
      match dtm pos' (ply + 1) with
      | Some ns => let ns' := if negb (wtmOf pos') then - ns else ns in
                   if ns' =? score then Some m else extendFind pos score ply t
      | None => extendFind pos score ply t
      end
    end.

  Fixpoint extendGrow (fuel : nat) (pos : P) (score ply : Z) : option (list move) :=
    match fuel with
    | O => None
    | S f =>
      match extendFind pos score ply (legalAt pos) with
      | None => Some []
      | Some m => match extendGrow f (mk pos m) score (ply + 1) with
                  | Some t => Some (m :: t)
                  | None => None
                  end
      end
    end.

  (** TBProbe::extendPV.  None = fuel of the while(true) exhausted (its termination rests on the DTM values
      and is not part of C03). *)
  Definition extendPV (fuel : nat) (root : P) (pv : list move) : option (list move) :=
    let '(pos, pv1) := extendCut root pv in
    match dtm pos 0 with
    | None => Some pv1
    | Some sc =>
      if negb (isWinScore (Z.abs sc)) then Some pv1
      else if (MATE0 - 1 - Z.abs sc - 0 >? 100 - hmcOf pos) then Some pv1
      else let sc' := if negb (wtmOf pos) then - sc else sc in
           match extendGrow fuel pos sc' 0 with
           | Some ext => Some (pv1 ++ ext)
           | None => None
           end
    end.

  (** * Search::iterativeDeepening over an oracle stream *)
  Inductive event :=
  | EvStop                                   (* StopSearch thrown inside this negaScoutRoot call *)
  | EvRet (score nodes : Z) (tab : TT)        (* value returned, nodes used, table content afterwards *)
          (tMove : bool)                     (* outcome of the clock test after this root move (line 254-260) *)
          (tIter : bool).                    (* outcome of the limit tests at the end of the iteration (275-289) *)

  Record config := mkCfg {
    c_maxPV : nat;            (* std::min(maxPV, rootMoves.size()) is applied by iterativeDeepening *)
    c_maxDepth : Z;
    c_onlyExact : bool;
    c_noTimeLimit : bool;     (* maxTimeMillis < 0 *)
    c_quiet : move -> bool;   (* !isCapture && !isPromotion && !givesCheck && !passedPawnPush at the root *)
    c_fuelPV : nat;           (* fuel for extractPVMoves *)
    c_fuelTB : nat }.         (* fuel for extendPV *)

  Variable root : P.
  Variable cfg : config.

  (** Search::storeSearchResult; None = PV fuel exhausted *)
  Definition storePV (tab : TT) (m : move) (score : Z) : option (list move) :=
    match extractPVMoves (c_fuelPV cfg) tab root m [] with
    | None => None
    | Some pv => if (c_noTimeLimit cfg && isWinScore (Z.abs score))%bool
                 then extendPV (c_fuelTB cfg) root pv else Some pv
    end.

  Definition storeSearchResult (rm : list moveInfo) (mi : nat) (depth alpha beta score : Z) (tab : TT)
    : option (list moveInfo) :=
    let x := getMI rm mi in
    match storePV tab (mi_move x) score with
    | None => None
    | Some pv => Some (replaceNth mi rm (mkMI (mi_move x) score (mi_nodes x) (mi_knownLoss x) depth alpha beta pv))
    end.

  Inductive outcome :=
  | Answer (best : move) (reports : list (list line))
  | OutOfFuel.

  (** the while loop of lines 207-240 (aspiration re-searches); recursion on the oracle stream *)
  Inductive researchRes :=
  | RStop (best : move) (reps : list (list line))
  | RFuel
  | RDone (rm : list moveInfo) (s : list event) (score nodes : Z) (best : move) (reps : list (list line)) (tm ti : bool).

  Fixpoint research (s : list event) (rm : list moveInfo) (mi maxPV : nat) (depth alpha beta score : Z)
           (betaRD alphaRD : Z) (knownLossG : bool) (nodes : Z) (best : move) (reps : list (list line))
           (tm ti : bool) {struct s} : researchRes :=
    if ((score >=? beta) || (Nat.ltb mi maxPV && (score <=? alpha)))%bool then
      if (negb knownLossG && negb (mi_knownLoss (getMI rm mi)) && isLoseScore score && (score <=? alpha))%bool
      then RDone rm s score nodes best reps tm ti
      else
        let fh := score >=? beta in
        let betaRD1 := if (fh && isWinScore score)%bool then MATE0 else betaRD in
        let alphaRD1 := if (negb fh && isLoseScore score)%bool then MATE0 else alphaRD in
        let beta1 := if fh then Z.min (score + betaRD1) MATE0 else beta in
        let alpha1 := if fh then alpha else Z.max (score - alphaRD1) (- MATE0) in
        let betaRD2 := if fh then Z.quot (betaRD1 * retryNum) retryDen else betaRD1 in
        let alphaRD2 := if fh then alphaRD1 else Z.quot (alphaRD1 * retryNum) retryDen in
        let best1 := if fh then mi_move (getMI rm mi) else best in
        match s with
        | [] => RStop best1 reps
        | EvStop :: _ => RStop best1 reps
        | EvRet sc nd tab tm' ti' :: s' =>
          match storeSearchResult rm mi depth alpha1 beta1 sc tab with
          | None => RFuel
          | Some rm' =>
            match notifyPV rm' mi maxPV with
            | None => RFuel
            | Some rep =>
              research s' rm' mi maxPV depth alpha1 beta1 sc betaRD2 alphaRD2 knownLossG (nodes + nd) best1
                       (reps ++ [rep]) tm' ti'
            end
          end
        end
    else RDone rm s score nodes best reps tm ti.

  (** while ((i > 0) && (rootMoves[i-1].score() < tmp.score())) shift; on the reversed prefix *)
  Fixpoint insertBack (tmp : moveInfo) (revPrefix : list moveInfo) : list moveInfo :=
    match revPrefix with
    | [] => [tmp]
    | y :: t => if mi_score y <? mi_score tmp then y :: insertBack tmp t else tmp :: y :: t
    end.

  (** lines 243-251: move rootMoves[mi] towards the front past all entries with a smaller score *)
  Definition insertSorted (rm : list moveInfo) (mi : nat) : list moveInfo :=
    let tmp := getMI rm mi in
    rev (insertBack tmp (rev (firstn mi rm))) ++ skipn (S mi) rm.

  (** std::stable_sort with "a before b iff before a b": stable insertion sort *)
  Fixpoint stableInsert (before : moveInfo -> moveInfo -> bool) (x : moveInfo) (l : list moveInfo) :=
    match l with
    | [] => [x]
    | y :: t => if before y x then y :: stableInsert before x t else x :: y :: t
    end.
  Definition stableSort (before : moveInfo -> moveInfo -> bool) (l : list moveInfo) : list moveInfo :=
    fold_right (stableInsert before) [] l.
  Definition byScore (a b : moveInfo) : bool := mi_score a >? mi_score b.      (* MoveInfo::SortByScore *)
  Definition byNodes (a b : moveInfo) : bool := mi_nodes a >? mi_nodes b.      (* MoveInfo::SortByNodes *)

  Record lstate := mkLS {
    ls_rm : list moveInfo;
    ls_best : move;                 (* bestMove *)
    ls_bestExact : move;            (* bestExactMove *)
    ls_reps : list (list line);     (* reports handed to the listener so far *)
    ls_aspDelta : Z }.              (* aspirationDelta *)

  Inductive moveRes :=
  | MStop (best bestExact : move) (reps : list (list line))
  | MFuel
  | MNext (st : lstate) (s : list event) (tm ti : bool).

  (** second half of the body of the root-move loop (lines 202-252): everything after the first search of
      root move mi has returned [score] within the window (alpha, beta) *)
  Definition moveStepAfter (st : lstate) (mi maxPV : nat) (depth : Z) (knownLossG : bool) (aspD alpha beta : Z)
             (score nodes : Z) (tab : TT) (tm ti : bool) (s1 : list event) : moveRes :=
    let rm := ls_rm st in
    match storeSearchResult rm mi depth alpha beta score tab with
    | None => MFuel
    | Some rm1 =>
      let doNotify := (Nat.ltb mi maxPV || (score >? mi_score (getMI rm1 (maxPV - 1))))%bool in
      match (if doNotify then notifyPV rm1 mi maxPV else Some []) with
      | None => MFuel
      | Some rep =>
        let reps1 := if doNotify then ls_reps st ++ [rep] else ls_reps st in
        match research s1 rm1 mi maxPV depth alpha beta score aspD aspD knownLossG nodes (ls_best st) reps1 tm ti with
        | RStop b r => MStop b (ls_bestExact st) r
        | RFuel => MFuel
        | RDone rm2 s2 score2 nodes2 _ reps2 tm2 ti2 =>
          let y := getMI rm2 mi in
          let rm3 := replaceNth mi rm2 (mkMI (mi_move y) (mi_score y) (mi_nodes y + nodes2) (isLoseScore score2)
                                             (mi_depth y) (mi_alpha y) (mi_beta y) (mi_pv y)) in
          let rm4 := if (Nat.ltb mi maxPV || (score2 >? mi_score (getMI rm3 (maxPV - 1))))%bool
                     then insertSorted rm3 mi else rm3 in
          let b := mi_move (getMI rm4 0) in
          MNext (mkLS rm4 b b reps2 aspD) s2 tm2 ti2
        end
      end
    end.

  (** body of the root-move loop (lines 157-252) for move index mi *)
  Definition moveStep (s : list event) (st : lstate) (mi maxPV : nat) (depth : Z) (first knownLossG : bool)
    : moveRes :=
    let rm := ls_rm st in
    let x := getMI rm mi in
    let aspD := if Nat.ltb mi maxPV
                then (if isWinScore (Z.abs (mi_score x)) then winAspirationDelta else aspirationWindow)
                else ls_aspDelta st in
    let alpha := if Nat.ltb mi maxPV
                 then (if first then - MATE0 else Z.max (mi_score x - aspD) (- MATE0))
                 else mi_score (getMI rm (maxPV - 1)) in
    let beta := if Nat.ltb mi maxPV
                then (if first then MATE0 else Z.min (mi_score x + aspD) MATE0)
                else alpha + 1 in
    let lmr := ((rootLMRMinDepth <=? depth) && c_quiet cfg (mi_move x) && Nat.leb (rootLMRMoveCount + maxPV) mi)%bool in
    match s with
    | [] => MStop (ls_best st) (ls_bestExact st) (ls_reps st)
    | EvStop :: _ => MStop (ls_best st) (ls_bestExact st) (ls_reps st)
    | EvRet sc0 nd0 tab0 tm0 ti0 :: s0 =>
      (* optional full-depth re-search after a reduced search *)
      if (lmr && (sc0 >? alpha))%bool then
        match s0 with
        | [] => MStop (ls_best st) (ls_bestExact st) (ls_reps st)
        | EvStop :: _ => MStop (ls_best st) (ls_bestExact st) (ls_reps st)
        | EvRet sc1 nd1 tab1 tm1 ti1 :: s1 =>
          moveStepAfter st mi maxPV depth knownLossG aspD alpha beta sc1 (nd0 + nd1) tab1 tm1 ti1 s1
        end
      else moveStepAfter st mi maxPV depth knownLossG aspD alpha beta sc0 nd0 tab0 tm0 ti0 s0
    end.

  Inductive iterRes :=
  | IStop (best bestExact : move) (reps : list (list line))
  | IFuel
  | IEnd (st : lstate) (s : list event) (ti : bool).

  (** for (mi = 0; mi < rootMoves.size(); mi++) with the clock break of lines 254-261; k = moves still to do *)
  Fixpoint moveLoop (k : nat) (mi maxPV : nat) (s : list event) (st : lstate) (depth : Z) (first knownLossG : bool)
           (ti : bool) : iterRes :=
    match k with
    | O => IEnd st s ti
    | S k' =>
      match moveStep s st mi maxPV depth first knownLossG with
      | MStop b be r => IStop b be r
      | MFuel => IFuel
      | MNext st' s' tm' ti' =>
        if (negb first && tm')%bool then IEnd st' s' ti'
        else moveLoop k' (S mi) maxPV s' st' depth first knownLossG ti'
      end
    end.

  Fixpoint enoughDepth (rm : list moveInfo) (n : nat) (depth : Z) : bool :=
    match n, rm with
    | S n', x :: t => (negb (depth <? MATE0 - Z.abs (mi_score x)) && enoughDepth t n' depth)%bool
    | S _, [] => (negb (depth <? MATE0 - Z.abs (mi_score dfltMI)))   (* not reached: maxPV <= size *)
    | O, _ => true
    end.

  Definition pick (st : lstate) : move := if c_onlyExact cfg then ls_bestExact st else ls_best st.

  (** for (depth = 1; ; depth++, firstIteration = false) *)
  Fixpoint depthLoop (fuel : nat) (depth : Z) (first knownLossG : bool) (maxPV : nat) (maxDepth : Z)
           (s : list event) (st : lstate) : outcome :=
    match fuel with
    | O => OutOfFuel
    | S f =>
      match moveLoop (length (ls_rm st)) 0 maxPV s st depth first knownLossG false with
      | IStop b be r => Answer (if c_onlyExact cfg then be else b) r
      | IFuel => OutOfFuel
      | IEnd st1 s1 ti =>
        if ti then Answer (pick st1) (ls_reps st1)
        else
          let klNow := (negb first && negb knownLossG && mi_knownLoss (getMI (ls_rm st1) (maxPV - 1)))%bool in
          let depth1 := if klNow then Z.max 0 (depth - 1) else depth in
          let kl1 := (knownLossG || klNow)%bool in
          if depth1 >=? maxDepth then Answer (pick st1) (ls_reps st1)
          else if enoughDepth (ls_rm st1) maxPV depth1 then Answer (pick st1) (ls_reps st1)
          else
            let rm := ls_rm st1 in
            let rm' := firstn maxPV rm ++ stableSort (if first then byScore else byNodes) (skipn maxPV rm) in
            depthLoop f (depth1 + 1) false kl1 maxPV maxDepth s1
                      (mkLS rm' (ls_best st1) (ls_bestExact st1) (ls_reps st1) (ls_aspDelta st1))
      end
    end.

  Definition depthFuel (maxDepth : Z) : nat := Z.to_nat (maxDepth + 4).

  (** Search::iterativeDeepening given the list produced by getRootMoves *)
  Definition iterativeDeepeningFrom (rootMoves : list moveInfo) (s : list event) : outcome :=
    let b0 := mi_move (getMI rootMoves 0) in
    let maxDepth := if ((c_maxDepth cfg <? 0) || (MAX_SEARCH_DEPTH <? c_maxDepth cfg))%bool
                    then MAX_SEARCH_DEPTH else c_maxDepth cfg in
    let maxPV := Nat.min (c_maxPV cfg) (length rootMoves) in
    depthLoop (depthFuel maxDepth) 1 true false maxPV maxDepth s (mkLS rootMoves b0 b0 [] 0).

  Inductive idResult :=
  | IdAnswer (best : move) (reports : list (list line))
  | IdOutOfFuel
  | IdDivByZero.     (* rndL % 0 in getRootMoves *)

  Definition iterativeDeepening (scMovesIn legal : list move) (limited tbWin : bool) (prog bad : move -> bool)
             (ord : move -> Z) (strength : Z) (rnd0 : N) (s : list event) : idResult :=
    match scMovesIn with
    | [] => IdAnswer emptyMove []                 (* if (scMovesIn.size <= 0) return Move(); *)
    | _ =>
      match getRootMoves scMovesIn legal limited tbWin prog bad ord strength rnd0 with
      | None => IdDivByZero
      | Some rootMoves =>
        match iterativeDeepeningFrom rootMoves s with
        | Answer b r => IdAnswer b r
        | OutOfFuel => IdOutOfFuel
        end
      end
    end.

  (** startThread + iterativeDeepening + finishSearch (OwnBook off): what `bestmove` prints.
      [ttEnd] = table content when the ponder move is looked up. *)
  Definition engineAnswer (legal sm : list move) (limited tbWin : bool) (prog bad : move -> bool)
             (ord : move -> Z) (strength : Z) (rnd0 : N) (s : list event) (ttEnd : TT)
    : option (move * move * list (list line)) :=
    match iterativeDeepening (startMoves legal sm) legal limited tbWin prog bad ord strength rnd0 s with
    | IdAnswer b r => Some (b, getPonderMove ttEnd root b, r)
    | _ => None
    end.
End Positions.
