(** C03 — principal variations, ponder move and score formatting: every move taken from the transposition
    table passes the membership test against the legal-move list of the position it is played in, extraction
    terminates, and the formatted score is well-formed. *)
From Coq Require Import ZArith NArith List Bool Lia.
From Texel Require Import Chess.Types gen.RootConsts Root.Root Root.RootFacts.
Import ListNotations.
Local Open Scope Z_scope.

Section PV.
  Variable P : Type.
  Variable TT : Type.
  Variable probe : TT -> N -> option move.
  Variable mk : P -> move -> P.
  Variable legalAt : P -> list move.
  Variable zh hh : P -> N.
  Variable dtm : P -> Z -> option Z.
  Variable hmcOf : P -> Z.
  Variable wtmOf : P -> bool.

  (** the specification side: a line is playable if each move is in the legal-move list of the position
      reached by the moves before it *)
  Fixpoint playableFrom (pos : P) (pv : list move) : Prop :=
    match pv with
    | [] => True
    | m :: t => In m (legalAt pos) /\ playableFrom (mk pos m) t
    end.

  Definition after (pos : P) (pv : list move) : P := fold_left mk pv pos.

  Lemma playable_app : forall pv1 pos pv2,
    playableFrom pos pv1 -> playableFrom (after pos pv1) pv2 -> playableFrom pos (pv1 ++ pv2).
  Proof.
    induction pv1 as [|m t IH]; cbn; intros pos pv2 H1 H2; [assumption|].
    destruct H1 as [Hm Ht]. split; [assumption | apply IH; assumption].
  Qed.

  Notation extractPVMoves := (extractPVMoves P TT probe mk legalAt zh hh).
  Notation getPonderMove := (getPonderMove P TT probe mk legalAt hh).
  Notation extendCut := (extendCut P mk dtm hmcOf).
  Notation extendFind := (extendFind P mk dtm wtmOf).
  Notation extendGrow := (extendGrow P mk legalAt dtm wtmOf).
  Notation extendPV := (extendPV P mk legalAt dtm hmcOf wtmOf).

  (** *** extractPVMoves *)
  Lemma extractPVMoves_playable : forall fuel tab pos m hist pv,
    In m (legalAt pos) ->
    extractPVMoves fuel tab pos m hist = Some pv ->
    (exists t, pv = m :: t) /\ playableFrom pos pv.
  Proof.
    induction fuel as [|f IH]; intros tab pos m hist pv Hm H; cbn in H; [discriminate|].
    destruct (memN (zh (mk pos m)) hist).
    { inversion H; subst. split; [exists []; reflexivity | cbn; auto]. }
    destruct (probe tab (hh (mk pos m))) as [m'|].
    2: { inversion H; subst. split; [exists []; reflexivity | cbn; auto]. }
    destruct (memMove m' (legalAt (mk pos m))) eqn:Emem.
    2: { inversion H; subst. split; [exists []; reflexivity | cbn; auto]. }
    destruct (extractPVMoves f tab (mk pos m) m' (zh (mk pos m) :: hist)) as [pv'|] eqn:E; [|discriminate].
    inversion H; subst.
    apply memMove_In in Emem.
    destruct (IH _ _ _ _ _ Emem E) as [_ Hp].
    split; [eexists; reflexivity | cbn; auto].
  Qed.

  (** termination: the loop runs while the Zobrist hash of the position reached is new; if all hashes lie in
      a finite set U (in the C++: the 2^64 values of U64), |U| + 1 iterations suffice *)
  Lemma extractPVMoves_terminates : forall (U : list N),
    (forall p, In (zh p) U) ->
    forall fuel tab pos m hist,
      NoDup hist -> incl hist U -> (length U - length hist < fuel)%nat ->
      extractPVMoves fuel tab pos m hist <> None.
  Proof.
    intros U HU. induction fuel as [|f IH]; intros tab pos m hist Hnd Hincl Hlt; [lia|].
    cbn. destruct (memN (zh (mk pos m)) hist) eqn:Emem; [discriminate|].
    destruct (probe tab (hh (mk pos m))) as [m'|]; [|discriminate].
    destruct (memMove m' (legalAt (mk pos m))); [|discriminate].
    apply memN_false in Emem.
    assert (Hnd' : NoDup (zh (mk pos m) :: hist)) by (constructor; assumption).
    assert (Hincl' : incl (zh (mk pos m) :: hist) U).
    { intros x [<-|Hx]; [apply HU | apply Hincl; assumption]. }
    assert (Hlen : (length (zh (mk pos m) :: hist) <= length U)%nat) by (apply NoDup_incl_length; assumption).
    cbn [length] in Hlen.
    specialize (IH tab (mk pos m) m' (zh (mk pos m) :: hist) Hnd' Hincl').
    destruct (extractPVMoves f tab (mk pos m) m' (zh (mk pos m) :: hist)); [discriminate|].
    exfalso; apply IH; [cbn [length]; lia | reflexivity].
  Qed.

  (** length bound: at most one move per new hash, plus the first move *)
  Lemma extractPVMoves_length : forall (U : list N),
    (forall p, In (zh p) U) ->
    forall fuel tab pos m hist pv,
      NoDup hist -> incl hist U ->
      extractPVMoves fuel tab pos m hist = Some pv ->
      (length pv + length hist <= S (length U))%nat.
  Proof.
    intros U HU. induction fuel as [|f IH]; intros tab pos m hist pv Hnd Hincl H; cbn in H; [discriminate|].
    assert (Hbase : (length hist <= length U)%nat) by (apply NoDup_incl_length; assumption).
    destruct (memN (zh (mk pos m)) hist) eqn:Emem.
    { inversion H; subst; cbn; lia. }
    destruct (probe tab (hh (mk pos m))) as [m'|].
    2: { inversion H; subst; cbn; lia. }
    destruct (memMove m' (legalAt (mk pos m))).
    2: { inversion H; subst; cbn; lia. }
    destruct (extractPVMoves f tab (mk pos m) m' (zh (mk pos m) :: hist)) as [pv'|] eqn:E; [|discriminate].
    inversion H; subst.
    apply memN_false in Emem.
    assert (Hnd' : NoDup (zh (mk pos m) :: hist)) by (constructor; assumption).
    assert (Hincl' : incl (zh (mk pos m) :: hist) U).
    { intros x [<-|Hx]; [apply HU | apply Hincl; assumption]. }
    specialize (IH _ _ _ _ _ Hnd' Hincl' E). cbn [length] in *. lia.
  Qed.

  (** *** getPonderMove *)
  Lemma getPonderMove_legal : forall tab pos m,
    let r := getPonderMove tab pos m in
    r = emptyMove \/ (isEmptyMove m = false /\ In r (legalAt (mk pos m))).
  Proof.
    intros tab pos m; unfold Root.getPonderMove.
    destruct (isEmptyMove m) eqn:Em; [left; reflexivity|].
    destruct (probe tab (hh (mk pos m))) as [r|]; [|left; reflexivity].
    destruct (memMove r (legalAt (mk pos m))) eqn:E; [|left; reflexivity].
    right; split; [reflexivity | apply memMove_In; assumption].
  Qed.

  (** *** extendPV *)
  Lemma extendCut_spec : forall pv pos pos' pv1,
    playableFrom pos pv -> extendCut pos pv = (pos', pv1) ->
    playableFrom pos pv1 /\ pos' = after pos pv1 /\
    match pv with m :: _ => exists t1, pv1 = m :: t1 | [] => True end.
  Proof.
    induction pv as [|m t IH]; intros pos pos' pv1 Hp H; cbn in H.
    { inversion H; subst; cbn; repeat split; auto. }
    destruct Hp as [Hm Ht].
    assert (Hrec : forall p2 t2, extendCut (mk pos m) t = (p2, t2) ->
                   playableFrom pos (m :: t2) /\ p2 = after pos (m :: t2)).
    { intros p2 t2 E. destruct (IH _ _ _ Ht E) as [A [B _]]. split; [cbn; auto | cbn; assumption]. }
    destruct (dtm (mk pos m) 0) as [sc|].
    - destruct (tbWinClose P hmcOf (mk pos m) sc 0).
      + inversion H; subst. cbn. repeat split; auto. eexists; reflexivity.
      + destruct (extendCut (mk pos m) t) as [p2 t2] eqn:E. inversion H; subst.
        destruct (Hrec _ _ eq_refl) as [A B]. split; [assumption | split; [assumption | eexists; reflexivity]].
    - destruct (extendCut (mk pos m) t) as [p2 t2] eqn:E. inversion H; subst.
      destruct (Hrec _ _ eq_refl) as [A B]. split; [assumption | split; [assumption | eexists; reflexivity]].
  Qed.

  Lemma extendFind_In : forall ms pos score ply m, extendFind pos score ply ms = Some m -> In m ms.
  Proof.
    induction ms as [|a t IH]; intros pos score ply m H; cbn in H; [discriminate|].
    destruct (dtm (mk pos a) (ply + 1)) as [ns|].
    - destruct ((if negb (wtmOf (mk pos a)) then - ns else ns) =? score).
      + inversion H; subst; left; reflexivity.
      + right; eapply IH; eassumption.
    - right; eapply IH; eassumption.
  Qed.

  Lemma extendGrow_playable : forall fuel pos score ply ext,
    extendGrow fuel pos score ply = Some ext -> playableFrom pos ext.
  Proof.
    induction fuel as [|f IH]; intros pos score ply ext H; cbn in H; [discriminate|].
    destruct (extendFind pos score ply (legalAt pos)) as [m|] eqn:E.
    - destruct (extendGrow f (mk pos m) score (ply + 1)) as [t|] eqn:E2; [|discriminate].
      inversion H; subst. cbn. split; [eapply extendFind_In; eassumption | eapply IH; eassumption].
    - inversion H; subst; cbn; auto.
  Qed.

  Lemma extendPV_playable : forall fuel root m t pv',
    playableFrom root (m :: t) -> extendPV fuel root (m :: t) = Some pv' ->
    (exists t', pv' = m :: t') /\ playableFrom root pv'.
  Proof.
    intros fuel root m t pv' Hp H. unfold Root.extendPV in H.
    destruct (extendCut root (m :: t)) as [pos pv1] eqn:Ecut.
    destruct (extendCut_spec _ _ _ _ Hp Ecut) as [Hp1 [Hpos Hhd]].
    destruct Hhd as [t1 Ht1].
    assert (Hbase : (exists t', pv1 = m :: t') /\ playableFrom root pv1) by (split; [eexists; eassumption | assumption]).
    destruct (dtm pos 0) as [sc|]; [|inversion H; subst; assumption].
    destruct (negb (isWinScore (Z.abs sc))); [inversion H; subst; assumption|].
    destruct (MATE0 - 1 - Z.abs sc - 0 >? 100 - hmcOf pos); [inversion H; subst; assumption|].
    destruct (extendGrow fuel pos (if negb (wtmOf pos) then - sc else sc) 0) as [ext|] eqn:Eg; [|discriminate].
    inversion H; subst pv'.
    split.
    - rewrite Ht1; cbn; eexists; reflexivity.
    - apply playable_app; [assumption|]. rewrite <- Hpos. eapply extendGrow_playable; eassumption.
  Qed.
End PV.

(** *** Score formatting (Search::notifyPV arithmetic, regenerated in gen/RootConsts.v) *)
Ltac Zify.zify_post_hook ::= Z.to_euclidean_division_equations.

(** scores the search can return at the root: between "mated in one" and "mate in one"
    (MATE0 - 1 / -(MATE0 - 2) would be "the king can be taken") *)
Definition reachableScore (s : Z) : Prop := - (MATE0 - 3) <= s <= MATE0 - 2.

Lemma formatScore_wellformed : forall s,
  - MATE0 <= s <= MATE0 ->
  let '(isMate, v) := formatScore s in
  (isMate = false -> v = s /\ Z.abs v <= Z.quot MATE0 2) /\
  (isMate = true -> Z.abs v <= Z.quot MATE0 4 /\ (0 < s -> 0 <= v) /\ (s < 0 -> v <= 0) /\
                    (reachableScore s -> v <> 0 /\ (0 < s <-> 0 < v))).
Proof.
  intros s Hs. unfold formatScore, isWinScore, isLoseScore, mateWin, mateLose, reachableScore, MATE0 in *.
  destruct (Z.gtb_spec s (Z.quot 32000 2)) as [Hw|Hw].
  - split; [discriminate|]. intros _. change (Z.quot 32000 2) with 16000 in Hw. change (Z.quot 32000 4) with 8000.
    repeat split; try lia.
  - destruct (Z.ltb_spec s (- Z.quot 32000 2)) as [Hl|Hl].
    + split; [discriminate|]. intros _. change (Z.quot 32000 2) with 16000 in *. change (Z.quot 32000 4) with 8000.
      repeat split; try lia.
    + split; [|discriminate]. intros _. change (Z.quot 32000 2) with 16000 in *. split; [reflexivity|lia].
Qed.

(** the two scores just outside the reachable range are printed as "mate 0" *)
Lemma formatScore_mate0_outside : formatScore (MATE0 - 1) = (true, 0) /\ formatScore (- (MATE0 - 2)) = (true, 0).
Proof. split; reflexivity. Qed.

Lemma boundOf_exclusive : forall s a b,
  (boundOf s a b = BUpper <-> s <= a) /\
  (boundOf s a b = BLower <-> (a < s /\ b <= s)) /\
  (boundOf s a b = BNone <-> (a < s /\ s < b)).
Proof.
  intros s a b; unfold boundOf, uBoundTest, lBoundTest.
  destruct (Z.leb_spec s a); destruct (Z.geb_spec s b); repeat split; intros; try discriminate; try lia; auto.
Qed.
