(** C03 — the theorems, composed from RootFacts (move filtering, getRootMoves), PvProofs (PV extraction, ponder
    move, score formatting) and RootProofs (root loop invariants), and their non-vacuity examples. *)
From Coq Require Import ZArith NArith List Bool Lia Permutation.
From Texel Require Import Chess.Types gen.RootConsts Root.Root Root.RootFacts Root.PvProofs Root.RootProofs.
Import ListNotations.
Local Open Scope Z_scope.

Section Theorems.
  Variable P : Type.
  Variable TT : Type.
  Variable probe : TT -> N -> option move.
  Variable mk : P -> move -> P.
  Variable legalAt : P -> list move.
  Variable zh hh : P -> N.
  Variable dtm : P -> Z -> option Z.
  Variable hmcOf : P -> Z.
  Variable wtmOf : P -> bool.
  Variable root : P.
  Variable cfg : config.

  Notation playable := (playableFrom P mk legalAt).
  Notation iterativeDeepeningFrom := (iterativeDeepeningFrom P TT probe mk legalAt zh hh dtm hmcOf wtmOf root cfg).
  Notation iterativeDeepening := (iterativeDeepening P TT probe mk legalAt zh hh dtm hmcOf wtmOf root cfg).
  Notation engineAnswer := (engineAnswer P TT probe mk legalAt zh hh dtm hmcOf wtmOf root cfg).
  Notation storePV := (storePV P TT probe mk legalAt zh hh dtm hmcOf wtmOf root cfg).

  (** what is known of a report; [R] = the root moves, [ScoreOK] = what is known of the oracle's scores *)
  Definition reportOK (R : list move) (ScoreOK : Z -> Prop) (rep : list line) : Prop :=
    repOK P mk legalAt root R ScoreOK rep.

  Definition streamOK (ScoreOK : Z -> Prop) (s : list (event TT)) : Prop := Forall (evOK TT ScoreOK) s.

  Lemma streamOK_True : forall s, streamOK (fun _ => True) s.
  Proof. intros s. apply Forall_forall. intros [|] _; exact I. Qed.

  Lemma initial_stOK : forall rootMoves ScoreOK,
    rootMoves <> [] -> Forall freshMI rootMoves ->
    stOK P mk legalAt root (movesOf rootMoves) ScoreOK
         (mkLS rootMoves (mi_move (getMI rootMoves 0)) (mi_move (getMI rootMoves 0)) [] 0).
  Proof.
    intros rootMoves ScoreOK Hne Hfresh.
    assert (Hrm : rmOK P mk legalAt root (movesOf rootMoves) ScoreOK rootMoves).
    { split; [apply Permutation_refl|]. eapply Forall_impl; [|exact Hfresh].
      intros x [_ [_ [Hd _]]]. left. lia. }
    assert (Hb : In (mi_move (getMI rootMoves 0)) (movesOf rootMoves)).
    { rewrite getMI_move. apply nth_In. unfold movesOf; rewrite map_length.
      destruct rootMoves; [congruence | cbn; lia]. }
    constructor; cbn; auto.
  Qed.

  (** the loop started on any non-empty fresh root-move list *)
  Theorem iterativeDeepeningFrom_ok : forall rootMoves ScoreOK s b reps,
    rootMoves <> [] -> NoDup (movesOf rootMoves) -> incl (movesOf rootMoves) (legalAt root) ->
    Forall freshMI rootMoves -> streamOK ScoreOK s ->
    iterativeDeepeningFrom rootMoves s = Answer b reps ->
    In b (movesOf rootMoves) /\ Forall (reportOK (movesOf rootMoves) ScoreOK) reps.
  Proof.
    intros rootMoves ScoreOK s b reps Hne Hnd Hincl Hfresh Hs H.
    unfold Root.iterativeDeepeningFrom in H.
    eapply depthLoop_ok; try eassumption.
    - apply initial_stOK; assumption.
    - cbn. assumption.
  Qed.

  Theorem iterativeDeepening_ok : forall scMovesIn legal limited tbWin prog bad ord strength rnd0 ScoreOK s b reps,
    scMovesIn <> [] -> NoDup scMovesIn -> incl scMovesIn legal -> incl legal (legalAt root) ->
    streamOK ScoreOK s ->
    iterativeDeepening scMovesIn legal limited tbWin prog bad ord strength rnd0 s = IdAnswer b reps ->
    In b scMovesIn /\ Forall (fun rep => exists R, incl R scMovesIn /\ reportOK R ScoreOK rep) reps.
  Proof.
    intros scMovesIn legal limited tbWin prog bad ord strength rnd0 ScoreOK s b reps Hne Hnd Hincl Hleg Hs H.
    unfold Root.iterativeDeepening in H.
    destruct scMovesIn as [|m0 t0]; [congruence|]. cbv match in H.
    destruct (getRootMoves_spec (m0 :: t0) legal limited tbWin prog bad ord strength rnd0 Hne Hnd Hincl)
      as [rm [Hrm [Hrmne [Hrmnd [Hrmincl Hfresh]]]]].
    rewrite Hrm in H.
    destruct (iterativeDeepeningFrom rm s) as [b' r'|] eqn:Eid; [|discriminate].
    inversion H; subst b' r'.
    assert (Hl : incl (movesOf rm) (legalAt root)).
    { intros x Hx. apply Hleg, Hincl, Hrmincl. assumption. }
    destruct (iterativeDeepeningFrom_ok rm ScoreOK s b reps Hrmne Hrmnd Hl Hfresh Hs Eid) as [Hb Hr].
    split; [apply Hrmincl; assumption|].
    eapply Forall_impl; [|exact Hr]. intros rep Hrep. exists (movesOf rm). split; assumption.
  Qed.

  (** ** C03_bestmove_legal *)
  Theorem bestmove_legal : forall legal sm limited tbWin prog bad ord strength rnd0 s b reps,
    legalAt root = legal -> NoDup legal -> startMoves legal sm <> [] ->
    iterativeDeepening (startMoves legal sm) legal limited tbWin prog bad ord strength rnd0 s = IdAnswer b reps ->
    In b legal /\ (sm <> [] -> In b sm).
  Proof.
    intros legal sm limited tbWin prog bad ord strength rnd0 s b reps Hleg Hnd Hne H.
    destruct (iterativeDeepening_ok (startMoves legal sm) legal limited tbWin prog bad ord strength rnd0
                (fun _ => True) s b reps Hne (startMoves_NoDup _ _ Hnd) (startMoves_incl _ _)
                ltac:(rewrite Hleg; apply incl_refl) (streamOK_True s) H) as [Hb _].
    apply startMoves_In in Hb. destruct Hb as [H1 H2]. split; [assumption|].
    intros Hsm. destruct H2; [contradiction | assumption].
  Qed.

  (** ** C03_no_moves_null *)
  Theorem no_moves_null : forall legal sm limited tbWin prog bad ord strength rnd0 s ttEnd,
    startMoves legal sm = [] ->
    engineAnswer legal sm limited tbWin prog bad ord strength rnd0 s ttEnd = Some (emptyMove, emptyMove, []).
  Proof.
    intros. unfold Root.engineAnswer, Root.iterativeDeepening. rewrite H. reflexivity.
  Qed.

  Theorem null_only_without_moves : forall legal sm limited tbWin prog bad ord strength rnd0 s ttEnd b p r,
    legalAt root = legal -> NoDup legal -> (forall m, In m legal -> isEmptyMove m = false) ->
    startMoves legal sm <> [] ->
    engineAnswer legal sm limited tbWin prog bad ord strength rnd0 s ttEnd = Some (b, p, r) ->
    isEmptyMove b = false.
  Proof.
    intros legal sm limited tbWin prog bad ord strength rnd0 s ttEnd b p r Hleg Hnd Hnonnull Hne H.
    unfold Root.engineAnswer in H.
    destruct (iterativeDeepening (startMoves legal sm) legal limited tbWin prog bad ord strength rnd0 s)
      as [b' r'| |] eqn:E; try discriminate.
    destruct (bestmove_legal legal sm limited tbWin prog bad ord strength rnd0 s b' r' Hleg Hnd Hne E) as [Hb _].
    inversion H; subst. apply Hnonnull. exact Hb.
  Qed.

  (** ** C03_ponder_legal *)
  Theorem ponder_legal : forall legal sm limited tbWin prog bad ord strength rnd0 s ttEnd b p r,
    engineAnswer legal sm limited tbWin prog bad ord strength rnd0 s ttEnd = Some (b, p, r) ->
    p = emptyMove \/ (isEmptyMove b = false /\ In p (legalAt (mk root b))).
  Proof.
    intros legal sm limited tbWin prog bad ord strength rnd0 s ttEnd b p r H.
    unfold Root.engineAnswer in H.
    destruct (iterativeDeepening (startMoves legal sm) legal limited tbWin prog bad ord strength rnd0 s)
      as [b' r'| |]; try discriminate.
    inversion H; subst. apply getPonderMove_legal.
  Qed.

  (** ** C03_pv_playable, C03_multipv_distinct *)
  Theorem reports_ok : forall legal sm limited tbWin prog bad ord strength rnd0 s b reps,
    legalAt root = legal -> NoDup legal -> startMoves legal sm <> [] ->
    iterativeDeepening (startMoves legal sm) legal limited tbWin prog bad ord strength rnd0 s = IdAnswer b reps ->
    forall rep, In rep reps ->
      (forall l, In l rep -> l_pv l <> [] /\ playable root (l_pv l) /\
                            In (firstMove l) (startMoves legal sm) /\ 0 < l_depth l) /\
      NoDup (map firstMove rep) /\
      (NoDup (map l_multipv rep) \/ Forall (fun l => l_multipv l = -1) rep).
  Proof.
    intros legal sm limited tbWin prog bad ord strength rnd0 s b reps Hleg Hnd Hne H rep Hrep.
    destruct (iterativeDeepening_ok (startMoves legal sm) legal limited tbWin prog bad ord strength rnd0
                (fun _ => True) s b reps Hne (startMoves_NoDup _ _ Hnd) (startMoves_incl _ _)
                ltac:(rewrite Hleg; apply incl_refl) (streamOK_True s) H) as [_ Hr].
    rewrite Forall_forall in Hr. destruct (Hr rep Hrep) as [R [HR Hok]].
    assert (Hlines : Forall (lineOK P mk legalAt root R (fun _ => True)) rep /\ NoDup (map firstMove rep) /\
                     (NoDup (map l_multipv rep) \/ Forall (fun l => l_multipv l = -1) rep)).
    { destruct Hok as [[A [B C]]|[A [B C]]]; auto. }
    destruct Hlines as [A [B C]]. split; [|split; assumption].
    intros l Hl. rewrite Forall_forall in A. destruct (A l Hl) as [Hd [Hf [Hn [Hp _]]]].
    repeat split; auto.
  Qed.

  (** ** C03_score_wellformed *)
  Theorem scores_wellformed : forall legal sm limited tbWin prog bad ord strength rnd0 s b reps ScoreOK,
    legalAt root = legal -> NoDup legal -> startMoves legal sm <> [] ->
    streamOK ScoreOK s ->
    iterativeDeepening (startMoves legal sm) legal limited tbWin prog bad ord strength rnd0 s = IdAnswer b reps ->
    forall rep l, In rep reps -> In l rep ->
      exists sc a bt, ScoreOK sc /\ (l_isMate l, l_score l) = formatScore sc /\ l_bound l = boundOf sc a bt.
  Proof.
    intros legal sm limited tbWin prog bad ord strength rnd0 s b reps ScoreOK Hleg Hnd Hne Hs H rep l Hrep Hl.
    destruct (iterativeDeepening_ok (startMoves legal sm) legal limited tbWin prog bad ord strength rnd0
                ScoreOK s b reps Hne (startMoves_NoDup _ _ Hnd) (startMoves_incl _ _)
                ltac:(rewrite Hleg; apply incl_refl) Hs H) as [_ Hr].
    rewrite Forall_forall in Hr. destruct (Hr rep Hrep) as [R [HR Hok]].
    assert (A : Forall (lineOK P mk legalAt root R ScoreOK) rep) by (destruct Hok as [[A _]|[A _]]; assumption).
    rewrite Forall_forall in A. destruct (A l Hl) as [_ [_ [_ [_ Hsc]]]]. exact Hsc.
  Qed.

  (** ** fuel: when PV extraction cannot run out of fuel, the loop always answers *)
  Lemma storePV_total : forall (U : list N) R,
    (forall p, In (zh p) U) -> (length U < c_fuelPV cfg)%nat -> c_noTimeLimit cfg = false ->
    PVTotal P TT probe mk legalAt zh hh dtm hmcOf wtmOf root cfg R.
  Proof.
    intros U R HU Hf Hnt tab m sc _. unfold Root.storePV. rewrite Hnt. cbn [andb].
    pose proof (extractPVMoves_terminates P TT probe mk legalAt zh hh U HU (c_fuelPV cfg) tab root m []
                  (NoDup_nil _) (incl_nil_l _) ltac:(cbn; lia)) as Ht.
    destruct (Root.extractPVMoves P TT probe mk legalAt zh hh (c_fuelPV cfg) tab root m []); [discriminate | congruence].
  Qed.

  Theorem answer_exists : forall scMovesIn legal limited tbWin prog bad ord strength rnd0 s,
    scMovesIn <> [] -> NoDup scMovesIn -> incl scMovesIn legal -> incl legal (legalAt root) ->
    (forall R, PVTotal P TT probe mk legalAt zh hh dtm hmcOf wtmOf root cfg R) ->
    exists b reps, iterativeDeepening scMovesIn legal limited tbWin prog bad ord strength rnd0 s = IdAnswer b reps.
  Proof.
    intros scMovesIn legal limited tbWin prog bad ord strength rnd0 s Hne Hnd Hincl Hleg Htot.
    unfold Root.iterativeDeepening.
    destruct scMovesIn as [|m0 t0]; [congruence|]. cbv match.
    destruct (getRootMoves_spec (m0 :: t0) legal limited tbWin prog bad ord strength rnd0 Hne Hnd Hincl)
      as [rm [Hrm [Hrmne [Hrmnd [Hrmincl Hfresh]]]]].
    rewrite Hrm.
    assert (Hl : incl (movesOf rm) (legalAt root)).
    { intros x Hx. apply Hleg, Hincl, Hrmincl. assumption. }
    unfold Root.iterativeDeepeningFrom.
    set (maxDepth := if ((c_maxDepth cfg <? 0) || (MAX_SEARCH_DEPTH <? c_maxDepth cfg))%bool
                     then MAX_SEARCH_DEPTH else c_maxDepth cfg).
    pose proof (depthLoop_fuel P TT probe mk legalAt zh hh dtm hmcOf wtmOf root cfg (movesOf rm) Hl Hrmnd (fun _ => True)
                  (depthFuel maxDepth) 1 true false (Nat.min (c_maxPV cfg) (length rm)) maxDepth s
                  (mkLS rm (mi_move (getMI rm 0)) (mi_move (getMI rm 0)) [] 0)
                  (Htot _) (initial_stOK rm _ Hrmne Hfresh) Hrmne (streamOK_True s) ltac:(lia)) as Hf.
    match goal with |- context [depthLoop ?a ?b ?c ?d ?e ?f ?g ?h ?i ?j ?k ?l ?fu ?de ?fi ?kl ?mp ?md ?ss ?st] =>
      destruct (depthLoop a b c d e f g h i j k l fu de fi kl mp md ss st) eqn:E end.
    - eexists; eexists; reflexivity.
    - exfalso. apply Hf; [|reflexivity].
      unfold depthFuel. assert (0 <= maxDepth).
      { unfold maxDepth, MAX_SEARCH_DEPTH. destruct (c_maxDepth cfg <? 0) eqn:E1; cbn [orb]; [lia|].
        apply Z.ltb_ge in E1. destruct (100 <? c_maxDepth cfg); lia. }
      lia.
  Qed.
End Theorems.

(** * Non-vacuity: a concrete world on which every hypothesis holds and the loop does real work *)
Module Example.
  Definition m1 := mkMove 12%N 28%N 0%N.     (* e2e4 *)
  Definition m2 := mkMove 11%N 27%N 0%N.     (* d2d4 *)
  Definition m3 := mkMove 6%N 21%N 0%N.      (* g1f3 *)
  Definition r1 := mkMove 52%N 36%N 0%N.     (* e7e5 *)
  Definition P := list move.                                  (* a position = the moves played *)
  Definition mk (p : P) (m : move) : P := p ++ [m].
  Definition legalAt (p : P) : list move :=
    match length p with O => [m1; m2; m3] | 1%nat => [r1] | _ => [m3; r1] end.
  Definition zh (p : P) : N := (N.of_nat (length p) mod 4)%N.
  Definition TT := N -> option move.
  Definition probe (t : TT) (k : N) := t k.
  Definition tab1 : TT := fun k => if (k =? 1)%N then Some r1 else if (k =? 2)%N then Some m3 else if (k =? 3)%N then Some m1 else None.
  Definition tab2 : TT := fun k => if (k =? 1)%N then Some m2 else None.            (* illegal hash move *)
  Definition cfg := mkCfg 2 2 false false (fun _ => true) 10 10.
  Definition stream : list (event TT) :=
    [EvRet TT 10 5 tab1 false false; EvRet TT 30 7 tab1 false false; EvRet TT 20 4 tab2 false false;
     EvRet TT 50 9 tab1 false false;                       (* iteration 2: fails high ... *)
     EvRet TT 31990 9 tab1 false false;                    (* ... re-search returns a mate score *)
     EvStop TT].
  Definition run :=
    engineAnswer P TT probe mk legalAt zh zh (fun _ _ => None) (fun _ => 0) (fun _ => true) [] cfg
                 [m1; m2; m3] [m2; m3; r1] true false (fun _ => false) (fun _ => false) (fun _ => 0) 1000 5%N stream tab1.

  (** searchmoves {d2d4, g1f3, e7e5} (e7e5 is not legal): root moves d2d4, g1f3.  Iteration 1 ranks g1f3 (30) over
      d2d4 (10); in iteration 2 g1f3 scores 20 inside its window, then d2d4 fails high (50, lowerbound), the
      re-search returns a mate score (again a fail high, printed "mate 5 lowerbound") and the stop arrives during
      the next re-search: the answer is the unresolved fail-high move d2d4; the PV of g1f3 in iteration 2 is cut
      where the table move (d2d4 for the opponent) fails the legality test. *)
  Example run_value :
    exists reps, run = Some (m2, r1, reps) /\ length reps = 5%nat /\
      nth 2 reps [] = [mkLine 2 false 20 BNone [m3] 0; mkLine 1 false 10 BNone [m2; r1; m3] 1] /\
      nth 4 reps [] = [mkLine 2 true 5 BLower [m2; r1; m3] 0; mkLine 2 false 20 BNone [m3] 1].
  Proof. eexists; split; [vm_compute; reflexivity | repeat split; reflexivity]. Qed.

  (** the hypotheses of C03_bestmove_legal / C03_pv_playable / C03_multipv_distinct hold on this input *)
  Example hypotheses_hold :
    legalAt [] = [m1; m2; m3] /\ NoDup [m1; m2; m3] /\ startMoves [m1; m2; m3] [m2; m3; r1] = [m2; m3] /\
    exists b reps,
      iterativeDeepening P TT probe mk legalAt zh zh (fun _ _ => None) (fun _ => 0) (fun _ => true) [] cfg
        (startMoves [m1; m2; m3] [m2; m3; r1]) [m1; m2; m3] true false (fun _ => false) (fun _ => false) (fun _ => 0)
        1000 5%N stream = IdAnswer b reps.
  Proof.
    split; [reflexivity|]. split.
    { repeat constructor; cbn; intuition discriminate. }
    split; [reflexivity|]. eexists; eexists. vm_compute. reflexivity.
  Qed.

  (** no requested move is legal: the null move is answered (C03_no_moves_null) *)
  Example no_moves : startMoves [m1; m2; m3] [r1] = [] /\
    engineAnswer P TT probe mk legalAt zh zh (fun _ _ => None) (fun _ => 0) (fun _ => true) [] cfg
                 [m1; m2; m3] [r1] true false (fun _ => false) (fun _ => false) (fun _ => 0) 1000 5%N stream tab1
    = Some (emptyMove, emptyMove, []).
  Proof. split; reflexivity. Qed.

  (** reduced strength (Strength 0: pIncl = 0): only the forced element rnd0 mod size survives (C03_rootmoves_nonempty) *)
  Example weakest_subset :
    option_map movesOf (getRootMoves [m1; m2; m3] [m1; m2; m3] true false (fun _ => false) (fun _ => false)
                                     (fun m => Z.of_N (mfrom m)) 0 5%N) = Some [m3].
  Proof. vm_compute. reflexivity. Qed.

  Example half_strength_subset :
    option_map movesOf (getRootMoves [m1; m2; m3] [m1; m2; m3] true false (fun _ => false) (fun _ => false)
                                     (fun m => Z.of_N (mfrom m)) 150 6%N) = Some [m1; m2].
  Proof. vm_compute. reflexivity. Qed.

  (** tablebase root filter: win, no progress move, d2d4 loses the win -> it is removed *)
  Example tb_filter :
    option_map movesOf (getRootMoves [m1; m2; m3] [m1; m2; m3] true true (fun _ => false) (fun m => move_eqb m m2)
                                     (fun _ => 0) 1000 0%N) = Some [m1; m3].
  Proof. vm_compute. reflexivity. Qed.

  (** PV extraction stops at a repeated Zobrist hash (tab3 sends the line round the 4 hash values), at an
      illegal table move (tab1: e2e4 for the side that has just played it), and reports exhausted fuel *)
  Definition tab3 : TT := fun k => if (k =? 1)%N then Some r1 else if (k =? 0)%N then Some r1 else Some m3.
  Example pv_repetition :
    extractPVMoves P TT probe mk legalAt zh zh 10 tab3 [] m3 [] = Some [m3; r1; m3; m3; r1] /\
    extractPVMoves P TT probe mk legalAt zh zh 10 tab1 [] m3 [] = Some [m3; r1; m3] /\
    extractPVMoves P TT probe mk legalAt zh zh 10 tab2 [] m3 [] = Some [m3] /\
    extractPVMoves P TT probe mk legalAt zh zh 4 tab3 [] m3 [] = None.
  Proof. repeat split; vm_compute; reflexivity. Qed.

  (** ponder move: taken from the table when legal after the best move, dropped otherwise (C03_ponder_legal) *)
  Example ponder_cases :
    getPonderMove P TT probe mk legalAt zh tab1 [] m2 = r1 /\ getPonderMove P TT probe mk legalAt zh tab2 [] m2 = emptyMove.
  Proof. split; reflexivity. Qed.

  (** score formatting at the boundaries (C03_score_wellformed) *)
  Example score_cases :
    formatScore 31998 = (true, 1) /\ formatScore (-31997) = (true, -1) /\ formatScore 16001 = (true, 7999) /\
    formatScore 16000 = (false, 16000) /\ formatScore (-16000) = (false, -16000) /\ formatScore (-16001) = (true, -7999) /\
    reachableScore 31998 /\ reachableScore (-31997).
  Proof. unfold reachableScore, MATE0. repeat split; try reflexivity; lia. Qed.
End Example.

(** * closed forms used by Properties_C03.v *)
Theorem pv_playable :
  forall (P TT : Type) (probe : TT -> N -> option move) (mk : P -> move -> P) (legalAt : P -> list move)
         (zh hh : P -> N) (tab : TT) (pos : P) (m : move) (hist : list N) (fuel : nat) (pv : list move),
    In m (legalAt pos) ->
    extractPVMoves P TT probe mk legalAt zh hh fuel tab pos m hist = Some pv ->
    (exists t, pv = m :: t) /\ playableFrom P mk legalAt pos pv.
Proof.
  intros P TT probe mk legalAt zh hh tab pos m hist fuel pv.
  exact (extractPVMoves_playable P TT probe mk legalAt zh hh fuel tab pos m hist pv).
Qed.

Theorem pv_terminates :
  forall (P TT : Type) (probe : TT -> N -> option move) (mk : P -> move -> P) (legalAt : P -> list move)
         (zh hh : P -> N) (U : list N),
    (forall p, In (zh p) U) ->
    forall fuel tab pos m,
      (length U < fuel)%nat ->
      exists pv, extractPVMoves P TT probe mk legalAt zh hh fuel tab pos m [] = Some pv /\ (length pv <= S (length U))%nat.
Proof.
  intros P TT probe mk legalAt zh hh U HU fuel tab pos m Hf.
  pose proof (extractPVMoves_terminates P TT probe mk legalAt zh hh U HU fuel tab pos m [] (NoDup_nil _) (incl_nil_l _)) as Ht.
  destruct (extractPVMoves P TT probe mk legalAt zh hh fuel tab pos m []) as [pv|] eqn:E.
  - exists pv. split; [reflexivity|].
    pose proof (extractPVMoves_length P TT probe mk legalAt zh hh U HU fuel tab pos m [] pv (NoDup_nil _) (incl_nil_l _) E) as Hl.
    cbn in Hl. rewrite Nat.add_0_r in Hl. exact Hl.
  - exfalso. apply Ht; [cbn; rewrite Nat.sub_0_r; exact Hf | reflexivity].
Qed.

Section Named.
  Variable P : Type.
  Variable TT : Type.
  Variable probe : TT -> N -> option move.
  Variable mk : P -> move -> P.
  Variable legalAt : P -> list move.
  Variable zh hh : P -> N.
  Variable dtm : P -> Z -> option Z.
  Variable hmcOf : P -> Z.
  Variable wtmOf : P -> bool.
  Variable root : P.
  Variable cfg : config.
  Notation iterativeDeepening := (iterativeDeepening P TT probe mk legalAt zh hh dtm hmcOf wtmOf root cfg).

  Theorem lines_playable : forall legal sm limited tbWin prog bad ord strength rnd0 s b reps,
    legalAt root = legal -> NoDup legal -> startMoves legal sm <> [] ->
    iterativeDeepening (startMoves legal sm) legal limited tbWin prog bad ord strength rnd0 s = IdAnswer b reps ->
    forall rep l, In rep reps -> In l rep ->
      l_pv l <> [] /\ playableFrom P mk legalAt root (l_pv l) /\
      In (firstMove l) (startMoves legal sm) /\ 0 < l_depth l.
  Proof.
    intros legal sm limited tbWin prog bad ord strength rnd0 s b reps Hleg Hnd Hne H rep l Hrep Hl.
    destruct (reports_ok P TT probe mk legalAt zh hh dtm hmcOf wtmOf root cfg legal sm limited tbWin prog bad ord
                strength rnd0 s b reps Hleg Hnd Hne H rep Hrep) as [A _].
    apply A; assumption.
  Qed.

  Theorem multipv_distinct : forall legal sm limited tbWin prog bad ord strength rnd0 s b reps,
    legalAt root = legal -> NoDup legal -> startMoves legal sm <> [] ->
    iterativeDeepening (startMoves legal sm) legal limited tbWin prog bad ord strength rnd0 s = IdAnswer b reps ->
    forall rep, In rep reps ->
      NoDup (map firstMove rep) /\
      (NoDup (map l_multipv rep) \/ Forall (fun l => l_multipv l = -1) rep).
  Proof.
    intros legal sm limited tbWin prog bad ord strength rnd0 s b reps Hleg Hnd Hne H rep Hrep.
    destruct (reports_ok P TT probe mk legalAt zh hh dtm hmcOf wtmOf root cfg legal sm limited tbWin prog bad ord
                strength rnd0 s b reps Hleg Hnd Hne H rep Hrep) as [_ B].
    exact B.
  Qed.
End Named.
