(** C12 — the distance-to-mate certificate (DESIGN.md section 6 C12, Appendix A3).

    Abstract theorem over ANY finite-branching game graph given by
      [moves : pos -> list pos]   (legal moves, as successor positions)
      [in_check : pos -> bool]    (side to move is in check)
    No bound on the size of the graph, no finiteness of [pos].

    Convention (fixed here, and it is the generator's: PositionValue MATE_IN_N / MATED_IN_N):
    distances are counted in MOVES OF THE SIDE THAT MOVES FROM THE POSITION.
      [loss_in n p]  the side to move at [p] is checkmated after at most [n] own moves,
                     whatever it plays   (n = 0: it is checkmated now);
      [win_in n p]   the side to move at [p] can force checkmate with at most [n] own moves
                     (n >= 1 always: there is no "win in 0").
    In plies: a win in n is 2n-1 plies away, a loss in n is 2n plies away ([plies]).
    The engine's score encoding of these values ([score_of_label], tbgen.cpp probeDTM) and its
    agreement with the search's "mated at ply" convention are at the end of the file. *)
From Coq Require Import List Arith Lia Bool ZArith.
Import ListNotations.

Inductive label := Win (n : nat) | Loss (n : nat) | Draw.

Definition label_eqb (a b : label) : bool :=
  match a, b with
  | Win n, Win m => Nat.eqb n m
  | Loss n, Loss m => Nat.eqb n m
  | Draw, Draw => true
  | _, _ => false
  end.

Lemma label_eqb_eq : forall a b, label_eqb a b = true <-> a = b.
Proof.
  intros [n|n|] [m|m|]; simpl; try rewrite Nat.eqb_eq; split; intro H;
    try discriminate; try reflexivity; try (inversion H; reflexivity); try (f_equal; exact H).
Qed.

(** smallest k such that [Loss k] occurs in the list *)
Fixpoint min_loss (ls : list label) : option nat :=
  match ls with
  | [] => None
  | Loss k :: r => match min_loss r with Some m => Some (Nat.min k m) | None => Some k end
  | _ :: r => min_loss r
  end.

(** [Some m] iff every element is [Win k]; then m is the largest such k (0 for the empty list) *)
Fixpoint max_win (ls : list label) : option nat :=
  match ls with
  | [] => Some 0
  | Win k :: r => match max_win r with Some m => Some (Nat.max k m) | None => None end
  | _ :: _ => None
  end.

Lemma min_loss_some : forall ls k, min_loss ls = Some k ->
  In (Loss k) ls /\ forall j, In (Loss j) ls -> k <= j.
Proof.
  induction ls as [|l r IH]; simpl; intros k H; [discriminate|].
  destruct l as [n|n|].
  - destruct (IH k H) as [A B]. split; [right; exact A|].
    intros j [E|E]; [discriminate|auto].
  - destruct (min_loss r) as [m|] eqn:Em.
    + inversion H; subst k; clear H. destruct (IH m eq_refl) as [A B].
      split.
      * destruct (Nat.min_spec n m) as [[_ E]|[_ E]]; rewrite E; [left; reflexivity|right; exact A].
      * intros j [E|E]; [inversion E; subst; apply Nat.le_min_l|].
        specialize (B j E). pose proof (Nat.le_min_r n m). lia.
    + inversion H; subst k; clear H. split; [left; reflexivity|].
      intros j [E|E]; [inversion E; lia|].
      exfalso. clear IH. revert Em E. induction r as [|l' r' IH']; simpl; [tauto|].
      destruct l' as [x|x|]; intros Em [E|E]; try discriminate; auto.
      * destruct (min_loss r'); discriminate.
      * destruct (min_loss r'); discriminate.
  - destruct (IH k H) as [A B]. split; [right; exact A|].
    intros j [E|E]; [discriminate|auto].
Qed.

Lemma min_loss_none : forall ls, min_loss ls = None -> forall j, ~ In (Loss j) ls.
Proof.
  induction ls as [|l r IH]; simpl; intros H j; [tauto|].
  destruct l as [n|n|].
  - intros [E|E]; [discriminate|exact (IH H j E)].
  - destruct (min_loss r); discriminate.
  - intros [E|E]; [discriminate|exact (IH H j E)].
Qed.

Lemma min_loss_in : forall ls j, In (Loss j) ls -> exists k, min_loss ls = Some k /\ k <= j.
Proof.
  intros ls j H. destruct (min_loss ls) as [k|] eqn:E.
  - exists k. split; [reflexivity|]. apply (proj2 (min_loss_some _ _ E)); exact H.
  - exfalso. exact (min_loss_none _ E j H).
Qed.

Lemma max_win_some : forall ls m, max_win ls = Some m ->
  (forall l, In l ls -> exists k, l = Win k /\ k <= m) /\ (ls <> [] -> In (Win m) ls).
Proof.
  induction ls as [|l r IH]; simpl; intros m H.
  - split; [tauto|congruence].
  - destruct l as [n|n|]; try discriminate.
    destruct (max_win r) as [m'|] eqn:Em; [|discriminate].
    inversion H; subst m; clear H. destruct (IH m' eq_refl) as [A B].
    split.
    + intros l [E|E].
      * exists n. split; [auto|apply Nat.le_max_l].
      * destruct (A l E) as [k [E1 E2]]. exists k. split; [exact E1|].
        pose proof (Nat.le_max_r n m'). lia.
    + intros _. destruct (Nat.max_spec n m') as [[Hlt E]|[_ E]]; rewrite E.
      * destruct r as [|l' r']; [simpl in Em; inversion Em; subst; lia|].
        right. apply B. discriminate.
      * left; reflexivity.
Qed.

Lemma max_win_none : forall ls, max_win ls = None -> exists l, In l ls /\ forall k, l <> Win k.
Proof.
  induction ls as [|l r IH]; simpl; intros H; [discriminate|].
  destruct l as [n|n|].
  - destruct (max_win r) eqn:Em; [discriminate|].
    destruct (IH eq_refl) as [l [A B]]. exists l. split; [right; exact A|exact B].
  - exists (Loss n). split; [left; reflexivity|discriminate].
  - exists Draw. split; [left; reflexivity|discriminate].
Qed.

Lemma max_win_all : forall ls m, (forall l, In l ls -> exists k, l = Win k /\ k <= m) ->
  exists m', max_win ls = Some m' /\ m' <= m.
Proof.
  induction ls as [|l r IH]; simpl; intros m H.
  - exists 0. split; [reflexivity|lia].
  - destruct (H l (or_introl eq_refl)) as [k [E Hk]]. subst l.
    destruct (IH m (fun l Hl => H l (or_intror Hl))) as [m' [E' Hm']].
    rewrite E'. exists (Nat.max k m'). split; [reflexivity|]. apply Nat.max_lub; assumption.
Qed.

(** the value the local conditions demand, from "is the side to move in check" and the labels
    of the successor positions (Appendix A3) *)
Definition expected_of (chk : bool) (ls : list label) : label :=
  match ls with
  | [] => if chk then Loss 0 else Draw
  | _ :: _ =>
      match min_loss ls with
      | Some k => Win (S k)
      | None => match max_win ls with
                | Some m => Loss m
                | None => Draw
                end
      end
  end.

Section Game.
  Variable pos : Type.
  Variable moves : pos -> list pos.
  Variable in_check : pos -> bool.

  (** ** Game-theoretic values, inductively *)
  Inductive win_in : nat -> pos -> Prop :=
  | win_step : forall n p c, In c (moves p) -> loss_in n c -> win_in (S n) p
  with loss_in : nat -> pos -> Prop :=
  | loss_now : forall n p, moves p = [] -> in_check p = true -> loss_in n p
  | loss_step : forall n p, moves p <> [] -> (forall c, In c (moves p) -> win_in n c) -> loss_in n p.

  (** exact distances, and the drawn positions: neither side can force mate.
      ([win_in n p] for some n = the side to move forces mate; [loss_in n p] for some n = the
      opponent forces mate.  With finitely many moves in every position a forced mate is a
      forced mate within some bound, so "for no n" is "cannot force mate".) *)
  Definition mate_in (n : nat) (p : pos) : Prop := win_in n p /\ forall m, m < n -> ~ win_in m p.
  Definition mated_in (n : nat) (p : pos) : Prop := loss_in n p /\ forall m, m < n -> ~ loss_in m p.
  Definition drawn (p : pos) : Prop := (forall n, ~ win_in n p) /\ (forall n, ~ loss_in n p).

  Lemma no_win_in_0 : forall p, ~ win_in 0 p.
  Proof. intros p H. inversion H. Qed.

  Lemma win_loss_mono : forall n,
    (forall p m, win_in n p -> n <= m -> win_in m p) /\
    (forall p m, loss_in n p -> n <= m -> loss_in m p).
  Proof.
    induction n as [|n [IHw IHl]].
    - split.
      + intros p m H. exfalso. exact (no_win_in_0 p H).
      + intros p m H _. inversion H; subst.
        * apply loss_now; assumption.
        * exfalso. destruct (moves p) as [|c r] eqn:E; [congruence|].
          apply (no_win_in_0 c). apply H1. left; reflexivity.
    - assert (W : forall p m, win_in (S n) p -> S n <= m -> win_in m p).
      { intros p m H Hm. inversion H; subst. destruct m as [|m']; [lia|].
        apply win_step with c; [assumption|]. apply IHl with (m := m') in H2; [assumption|lia]. }
      split; [exact W|].
      intros p m H Hm. inversion H; subst.
      + apply loss_now; assumption.
      + apply loss_step; [assumption|]. intros c Hc. apply W; auto.
  Qed.

  Lemma win_in_mono : forall n m p, win_in n p -> n <= m -> win_in m p.
  Proof. intros n m p. apply (proj1 (win_loss_mono n)). Qed.
  Lemma loss_in_mono : forall n m p, loss_in n p -> n <= m -> loss_in m p.
  Proof. intros n m p. apply (proj2 (win_loss_mono n)). Qed.

  (** ** The local certificate conditions (Appendix A3) *)
  Definition expected (L : pos -> label) (p : pos) : label :=
    expected_of (in_check p) (map L (moves p)).

  Lemma expected_unfold : forall L p, expected L p =
    match moves p with
    | [] => if in_check p then Loss 0 else Draw
    | _ :: _ =>
        match min_loss (map L (moves p)) with
        | Some k => Win (S k)
        | None => match max_win (map L (moves p)) with
                  | Some m => Loss m
                  | None => Draw
                  end
        end
    end.
  Proof. intros L p. unfold expected, expected_of. destruct (moves p); reflexivity. Qed.

  Section Certificate.
    Variable S_ : pos -> Prop.                 (* the set of positions the table talks about *)
    Variable L : pos -> label.                 (* the labelling *)
    Hypothesis closed : forall p c, S_ p -> In c (moves p) -> S_ c.
    Hypothesis cert : forall p, S_ p -> L p = expected L p.

    Lemma never_win_0 : forall p, S_ p -> L p <> Win 0.
    Proof.
      intros p Hp E. rewrite (cert p Hp) in E. rewrite expected_unfold in E.
      destruct (moves p); [destruct (in_check p); discriminate|].
      destruct (min_loss _); [discriminate|]. destruct (max_win _); discriminate.
    Qed.

    (** soundness: labels are grounded in real forced lines *)
    Lemma labels_sound : forall n,
      (forall p, S_ p -> L p = Loss n -> loss_in n p) /\
      (forall p, S_ p -> L p = Win (S n) -> win_in (S n) p).
    Proof.
      induction n as [n IH] using lt_wf_ind.
      assert (A : forall p, S_ p -> L p = Loss n -> loss_in n p).
      { intros p Hp E. rewrite (cert p Hp) in E. rewrite expected_unfold in E.
        destruct (moves p) as [|c0 r] eqn:Em.
        - destruct (in_check p) eqn:Ec; [|discriminate].
          apply loss_now; assumption.
        - rewrite <- Em in *.
          destruct (min_loss (map L (moves p))) as [k|] eqn:E1; [discriminate|].
          destruct (max_win (map L (moves p))) as [m|] eqn:E2; [|discriminate].
          inversion E; subst m; clear E.
          apply loss_step; [rewrite Em; discriminate|].
          intros c Hc. destruct (max_win_some _ _ E2) as [B _].
          destruct (B (L c) (in_map L _ _ Hc)) as [k [Ek Hk]].
          assert (Sc : S_ c) by (apply closed with p; assumption).
          destruct k as [|k]; [exfalso; exact (never_win_0 c Sc Ek)|].
          apply win_in_mono with (S k); [|exact Hk].
          apply (proj2 (IH k Hk)); assumption. }
      split; [exact A|].
      intros p Hp E. rewrite (cert p Hp) in E. rewrite expected_unfold in E.
      destruct (moves p) as [|c0 r] eqn:Em.
      - destruct (in_check p); discriminate.
      - rewrite <- Em in *.
        destruct (min_loss (map L (moves p))) as [k|] eqn:E1.
        + inversion E; subst k; clear E.
          destruct (min_loss_some _ _ E1) as [B _].
          apply in_map_iff in B. destruct B as [c [Ec Hc]].
          apply win_step with c; [exact Hc|].
          apply A; [apply closed with p; assumption|exact Ec].
        + destruct (max_win (map L (moves p))); discriminate.
    Qed.

    (** completeness: a real forced line shows up as a label at most as large *)
    Lemma labels_complete : forall n,
      (forall p, S_ p -> win_in n p -> exists k, k <= n /\ L p = Win k) /\
      (forall p, S_ p -> loss_in n p -> exists k, k <= n /\ L p = Loss k).
    Proof.
      induction n as [|n [IHw IHl]].
      - split.
        + intros p _ H. exfalso. exact (no_win_in_0 p H).
        + intros p Hp H. inversion H; subst.
          * exists 0. split; [lia|]. rewrite (cert p Hp). rewrite expected_unfold. rewrite H0, H1. reflexivity.
          * exfalso. destruct (moves p) as [|c r] eqn:E; [congruence|].
            apply (no_win_in_0 c). apply H1. left; reflexivity.
      - assert (W : forall p, S_ p -> win_in (S n) p -> exists k, k <= S n /\ L p = Win k).
        { intros p Hp H. inversion H; subst.
          assert (Sc : S_ c) by (apply closed with p; assumption).
          destruct (IHl c Sc H2) as [k [Hk Ek]].
          assert (I : In (Loss k) (map L (moves p))) by (rewrite <- Ek; apply in_map; assumption).
          destruct (min_loss_in _ _ I) as [k' [E' Hk']].
          exists (S k'). split; [lia|].
          rewrite (cert p Hp). rewrite expected_unfold.
          destruct (moves p) as [|c0 r] eqn:Em; [inversion H1|].
          rewrite <- Em in *. rewrite E'. reflexivity. }
        split; [exact W|].
        intros p Hp H. inversion H; subst.
        + exists 0. split; [lia|]. rewrite (cert p Hp). rewrite expected_unfold. rewrite H0, H1. reflexivity.
        + assert (B : forall l, In l (map L (moves p)) -> exists k, l = Win k /\ k <= S n).
          { intros l Hl. apply in_map_iff in Hl. destruct Hl as [c [Ec Hc]].
            assert (Sc : S_ c) by (apply closed with p; assumption).
            destruct (W c Sc (H1 c Hc)) as [k [Hk Ek]]. exists k. split; [congruence|exact Hk]. }
          destruct (max_win_all _ _ B) as [m' [Em' Hm']].
          exists m'. split; [exact Hm'|].
          rewrite (cert p Hp). rewrite expected_unfold.
          destruct (moves p) as [|c0 r] eqn:Em; [congruence|].
          rewrite <- Em in *.
          destruct (min_loss (map L (moves p))) as [k|] eqn:E1.
          * exfalso. destruct (min_loss_some _ _ E1) as [I _].
            destruct (B _ I) as [k' [Ek' _]]. discriminate.
          * rewrite Em'. reflexivity.
    Qed.

    Lemma win_label_sound : forall n p, S_ p -> L p = Win n -> win_in n p.
    Proof.
      intros [|n] p Hp E; [exfalso; exact (never_win_0 p Hp E)|].
      apply (proj2 (labels_sound n)); assumption.
    Qed.

    Lemma loss_label_sound : forall n p, S_ p -> L p = Loss n -> loss_in n p.
    Proof. intros n p Hp E. apply (proj1 (labels_sound n)); assumption. Qed.

    (** ** The certificate theorem *)
    Theorem dtm_certificate : forall p, S_ p ->
      (forall n, L p = Win n <-> mate_in n p) /\
      (forall n, L p = Loss n <-> mated_in n p) /\
      (L p = Draw <-> drawn p).
    Proof.
      intros p Hp. split; [|split].
      - intros n. split.
        + intros E. split; [apply win_label_sound; assumption|].
          intros m Hm Hw. destruct (proj1 (labels_complete m) p Hp Hw) as [k [Hk Ek]].
          rewrite E in Ek. inversion Ek. lia.
        + intros [Hw Hmin]. destruct (proj1 (labels_complete n) p Hp Hw) as [k [Hk Ek]].
          destruct (Nat.eq_dec k n) as [->|Hne]; [exact Ek|].
          exfalso. apply (Hmin k); [lia|]. apply win_label_sound; assumption.
      - intros n. split.
        + intros E. split; [apply loss_label_sound; assumption|].
          intros m Hm Hl. destruct (proj2 (labels_complete m) p Hp Hl) as [k [Hk Ek]].
          rewrite E in Ek. inversion Ek. lia.
        + intros [Hl Hmin]. destruct (proj2 (labels_complete n) p Hp Hl) as [k [Hk Ek]].
          destruct (Nat.eq_dec k n) as [->|Hne]; [exact Ek|].
          exfalso. apply (Hmin k); [lia|]. apply loss_label_sound; assumption.
      - split.
        + intros E. split; intros n H.
          * destruct (proj1 (labels_complete n) p Hp H) as [k [_ Ek]]. congruence.
          * destruct (proj2 (labels_complete n) p Hp H) as [k [_ Ek]]. congruence.
        + intros [Hw Hl]. destruct (L p) as [n|n|] eqn:E; [| |reflexivity]; exfalso.
          * apply (Hw n). apply win_label_sound; assumption.
          * apply (Hl n). apply loss_label_sound; assumption.
    Qed.

    (** a winning position is not a losing one and vice versa, so the three cases are
        mutually exclusive and (by totality of [L]) exhaustive on [S_] *)
    Corollary value_trichotomy : forall p, S_ p ->
      (exists n, mate_in n p) \/ (exists n, mated_in n p) \/ drawn p.
    Proof.
      intros p Hp. destruct (dtm_certificate p Hp) as [A [B C]].
      destruct (L p) as [n|n|] eqn:E.
      - left. exists n. apply A. reflexivity.
      - right; left. exists n. apply B. reflexivity.
      - right; right. apply C. reflexivity.
    Qed.
  End Certificate.
End Game.

Arguments win_in {pos} moves in_check _ _.
Arguments loss_in {pos} moves in_check _ _.
Arguments mate_in {pos} moves in_check _ _.
Arguments mated_in {pos} moves in_check _ _.
Arguments drawn {pos} moves in_check _.
Arguments expected {pos} moves in_check _ _.

(** ** Non-vacuity: a seven-position graph with a mate, a forced line of each kind and a
    drawing loop.  Positions are numbers; everything above 6 is a dead end without check. *)
Module Tiny.
  Definition moves (p : nat) : list nat :=
    match p with
    | 0 => [1]            (* gives mate *)
    | 1 => []             (* checkmated *)
    | 2 => [3] | 3 => [2] (* a loop: nobody can make progress *)
    | 4 => [0; 2]         (* must avoid 0 (opponent mates), goes to the loop: draw *)
    | 5 => [0]            (* forced into 0: mated in 1 *)
    | 6 => [5; 2]         (* plays to 5: mate in 2 *)
    | 7 => []             (* stalemate *)
    | _ => []
    end.
  Definition in_check (p : nat) : bool := Nat.eqb p 1.
  Definition L (p : nat) : label :=
    match p with
    | 0 => Win 1 | 1 => Loss 0 | 5 => Loss 1 | 6 => Win 2 | _ => Draw
    end.
  Lemma L_cert : forall p, True -> L p = expected moves in_check L p.
  Proof. intros p _. do 8 (destruct p as [|p]; [reflexivity|]). reflexivity. Qed.

  Example tiny_exact :
    mate_in moves in_check 2 6 /\ mated_in moves in_check 1 5 /\ mate_in moves in_check 1 0 /\
    mated_in moves in_check 0 1 /\ drawn moves in_check 4 /\ drawn moves in_check 2 /\
    drawn moves in_check 7.
  Proof.
    pose proof (dtm_certificate nat moves in_check (fun _ => True) L (fun _ _ _ _ => I) L_cert) as H.
    repeat split.
    - apply (proj1 (H 6 I) 2); reflexivity.
    - apply (proj1 (H 6 I) 2); reflexivity.
    - apply (proj1 (proj2 (H 5 I)) 1); reflexivity.
    - apply (proj1 (proj2 (H 5 I)) 1); reflexivity.
    - apply (proj1 (H 0 I) 1); reflexivity.
    - apply (proj1 (H 0 I) 1); reflexivity.
    - apply (proj1 (proj2 (H 1 I)) 0); reflexivity.
    - apply (proj1 (proj2 (H 1 I)) 0); reflexivity.
    - apply (proj2 (proj2 (H 4 I))); reflexivity.
    - apply (proj2 (proj2 (H 4 I))); reflexivity.
    - apply (proj2 (proj2 (H 2 I))); reflexivity.
    - apply (proj2 (proj2 (H 2 I))); reflexivity.
    - apply (proj2 (proj2 (H 7 I))); reflexivity.
    - apply (proj2 (proj2 (H 7 I))); reflexivity.
  Qed.
End Tiny.

(** ** The engine's encoding (tbgen.cpp, TBGenerator::probeDTM; constants.hpp MATE0 = 32000)

      mate in n   (n >= 1)   score =   MATE0 - ply - 2n
      mated in n  (n >= 0)   score = -(MATE0 - ply - 2n - 1)
      draw                   score = 0
    PositionValue MATE_IN_0 ("the king can be taken", an illegal position) is answered
    "not found".  [ply] is the distance of the probed node from the root. *)
Local Open Scope Z_scope.
Definition MATE0 : Z := 32000.

Definition plies (l : label) : Z :=
  match l with Win n => 2 * Z.of_nat n - 1 | Loss n => 2 * Z.of_nat n | Draw => 0 end.

Definition score_of_label (ply : Z) (l : label) : Z :=
  match l with
  | Win n => MATE0 - ply - 2 * Z.of_nat n
  | Loss n => - (MATE0 - ply - 2 * Z.of_nat n - 1)
  | Draw => 0
  end.

(** the inverse, for probes made with ply = 0; [None] = not a score probeDTM can produce *)
Definition label_of_score (s : Z) : option label :=
  if s =? 0 then Some Draw
  else if 0 <? s then
    let d := MATE0 - s in
    if (2 <=? d) && (d <=? 126) && Z.even d then Some (Win (Z.to_nat (d / 2))) else None
  else
    let d := MATE0 - 1 + s in
    if (0 <=? d) && (d <=? 124) && Z.even d then Some (Loss (Z.to_nat (d / 2))) else None.

(** the search's convention (search.cpp: a node at ply q whose side to move is checkmated
    scores -(MATE0 - (q+1)); scores are negated on the way up): a position probed at [ply]
    whose mate falls [plies l] plies later gets exactly that score, seen from its own side *)
Lemma score_matches_search_convention : forall ply l,
  score_of_label ply l =
  match l with
  | Win _ => MATE0 - ((ply + plies l) + 1)          (* odd number of negations *)
  | Loss _ => - (MATE0 - ((ply + plies l) + 1))
  | Draw => 0
  end.
Proof. intros ply [n|n|]; unfold score_of_label, plies; lia. Qed.

Lemma score_ply_shift : forall ply l,
  score_of_label ply l =
  match l with
  | Win _ => score_of_label 0 l - ply
  | Loss _ => score_of_label 0 l + ply
  | Draw => 0
  end.
Proof. intros ply [n|n|]; unfold score_of_label; lia. Qed.

(** PositionValue is a signed byte: MATE_IN_n = 64 + n <= 127, MATED_IN_n = 63 - n >= 1, so the
    generator can represent n <= 63 (wins) and n <= 62 (losses); on that range decoding inverts
    encoding *)
Lemma label_of_score_of_label : forall l,
  match l with Win n => (1 <= n <= 63)%nat | Loss n => (n <= 62)%nat | Draw => True end ->
  label_of_score (score_of_label 0 l) = Some l.
Proof.
  intros [n|n|] H; unfold label_of_score, score_of_label, MATE0.
  - replace (32000 - 0 - 2 * Z.of_nat n =? 0) with false by (symmetry; apply Z.eqb_neq; lia).
    replace (0 <? 32000 - 0 - 2 * Z.of_nat n) with true by (symmetry; apply Z.ltb_lt; lia).
    replace (32000 - (32000 - 0 - 2 * Z.of_nat n)) with (2 * Z.of_nat n) by lia.
    replace (2 <=? 2 * Z.of_nat n) with true by (symmetry; apply Z.leb_le; lia).
    replace (2 * Z.of_nat n <=? 126) with true by (symmetry; apply Z.leb_le; lia).
    rewrite Z.even_mul. change (Z.even 2) with true. cbn [orb andb].
    replace (2 * Z.of_nat n / 2) with (Z.of_nat n) by (rewrite Z.mul_comm, Z.div_mul; lia).
    rewrite Nat2Z.id. reflexivity.
  - replace (- (32000 - 0 - 2 * Z.of_nat n - 1) =? 0) with false by (symmetry; apply Z.eqb_neq; lia).
    replace (0 <? - (32000 - 0 - 2 * Z.of_nat n - 1)) with false by (symmetry; apply Z.ltb_ge; lia).
    replace (32000 - 1 + - (32000 - 0 - 2 * Z.of_nat n - 1)) with (2 * Z.of_nat n) by lia.
    replace (0 <=? 2 * Z.of_nat n) with true by (symmetry; apply Z.leb_le; lia).
    replace (2 * Z.of_nat n <=? 124) with true by (symmetry; apply Z.leb_le; lia).
    rewrite Z.even_mul. change (Z.even 2) with true. cbn [orb andb].
    replace (2 * Z.of_nat n / 2) with (Z.of_nat n) by (rewrite Z.mul_comm, Z.div_mul; lia).
    rewrite Nat2Z.id. reflexivity.
  - reflexivity.
Qed.

Lemma half_even : forall d, Z.even d = true -> 0 <= d -> 2 * Z.of_nat (Z.to_nat (d / 2)) = d.
Proof.
  intros d He Hd. apply Z.even_spec in He. destruct He as [k Ek]. subst d.
  rewrite (Z.mul_comm 2 k), Z.div_mul by lia. rewrite Z2Nat.id by lia. lia.
Qed.

Lemma label_of_score_inj : forall s l, label_of_score s = Some l -> score_of_label 0 l = s.
Proof.
  intros s l. unfold label_of_score.
  destruct (s =? 0) eqn:E0.
  - intros H. assert (E : l = Draw) by congruence. subst l. apply Z.eqb_eq in E0. simpl. lia.
  - destruct (0 <? s) eqn:E1.
    + destruct ((2 <=? MATE0 - s) && (MATE0 - s <=? 126) && Z.even (MATE0 - s)) eqn:E2; [|discriminate].
      intros H. assert (E : l = Win (Z.to_nat ((MATE0 - s) / 2))) by congruence. subst l.
      apply andb_true_iff in E2. destruct E2 as [E2 E3]. apply andb_true_iff in E2. destruct E2 as [E2 E4].
      apply Z.leb_le in E2. pose proof (half_even _ E3 ltac:(lia)) as Hh.
      unfold score_of_label. lia.
    + destruct ((0 <=? MATE0 - 1 + s) && (MATE0 - 1 + s <=? 124) && Z.even (MATE0 - 1 + s)) eqn:E2; [|discriminate].
      intros H. assert (E : l = Loss (Z.to_nat ((MATE0 - 1 + s) / 2))) by congruence. subst l.
      apply andb_true_iff in E2. destruct E2 as [E2 E3]. apply andb_true_iff in E2. destruct E2 as [E2 E4].
      apply Z.leb_le in E2. pose proof (half_even _ E3 ltac:(lia)) as Hh.
      unfold score_of_label. lia.
Qed.
